#!/bin/bash
# tools/seed_wt.sh <seed-name> <check-id>...   run the quick checks against a scratch worktree of /repo with the seeded patch applied
# (/repo itself, /verif/evidence and /verif/out are not touched: several of these can run side by side).
set -u
NAME="$1"; shift
P=/verif/seeded/$NAME/patch.diff
WT=/tmp/sw/$NAME; OUT=/tmp/sw_out/$NAME
mkdir -p /tmp/sw /tmp/sw_out; rm -rf "$OUT"; mkdir -p "$OUT"
git -C /repo worktree remove --force "$WT" 2>/dev/null
git -C /repo worktree add --detach "$WT" HEAD -q || exit 3
# at the end: workers the changed library left behind (they import from this very worktree) are killed, then the worktree goes
trap 'pkill -9 -f "$WT/" 2>/dev/null; git -C /repo worktree remove --force "$WT" 2>/dev/null' EXIT
git -C "$WT" apply "$P" || { echo "seed=$NAME : PATCH DOES NOT APPLY"; exit 4; }
for C in "$@"; do
  MOD="vh.$(echo "$C" | tr 'A-Z' 'a-z')"
  ( cd /verif && VERIF_SCRATCH_OUT="$OUT" VERIF_REPO="$WT" PYTHONDONTWRITEBYTECODE=1 PYTHONPATH="$WT:/verif/harness:/verif/harness/standins" \
      PATH="/verif/harness/standins/bin:$PATH" VERIF_SEED=${VERIF_SEED:-0} /venv/bin/python -m "$MOD" --tier ${TIER:-quick} > "$OUT/$C.log" 2>&1 ); RC=$?
  echo "seed=$NAME check=$C rc=$RC :: $(grep -E 'VIOLATION|ERROR' "$OUT/$C.log" | head -2 | cut -c1-150 | tr '\n' ' ') $(tail -1 "$OUT/$C.log" | cut -c1-80)"
done
