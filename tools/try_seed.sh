#!/bin/bash
# tools/try_seed.sh <seed-name> <check id> [tier]  : apply seeded patch to /repo, run the check, undo.
set -u
NAME="$1"; ID="$2"; TIER="${3:-quick}"
cd /verif
git -C /repo apply "/verif/seeded/$NAME/patch.diff" || { echo "patch does not apply"; exit 3; }
timeout 1200 ./check "$ID" --tier "$TIER" > "/tmp/try_${NAME}_${ID}.log" 2>&1; RC=$?
git -C /repo checkout -- .
grep -E 'VIOLATION|KNOWN-FINDING|ERROR|^\[' "/tmp/try_${NAME}_${ID}.log" | head -8
echo "seed=$NAME check=$ID exit=$RC"
