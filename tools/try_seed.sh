#!/bin/bash
# tools/try_seed.sh <seed-name> <check-id>...   apply the seeded patch to /repo, run the quick checks, undo it.
set -u
NAME="$1"; shift
P=/verif/seeded/$NAME/patch.diff
[ -z "$(git -C /repo status --porcelain --untracked-files=no)" ] || { echo "/repo not clean"; exit 3; }
BK=$(mktemp -d /tmp/evbk.XXXXXX); cp -r /verif/evidence "$BK/"
git -C /repo apply "$P" || exit 4
trap 'git -C /repo checkout -- . ; rm -rf /verif/evidence; cp -r "$BK/evidence" /verif/evidence; rm -rf "$BK"' EXIT
for C in "$@"; do
  SEED=${VERIF_SEED:-0}
  ( cd /verif && VERIF_SEED=$SEED ./check $C --tier ${TIER:-quick} > /tmp/try_${NAME}_$C.log 2>&1 ); RC=$?
  echo "seed=$NAME check=$C rc=$RC :: $(grep -E 'VIOLATION|KNOWN-FINDING|ERROR' /tmp/try_${NAME}_$C.log | head -3 | tr '\n' ' ') $(tail -1 /tmp/try_${NAME}_$C.log)"
done
