#!/bin/bash
# tools/all_seeds.sh : apply every seeded change in turn, run the check(s) expected to catch it, report.
cd /verif
declare -A MAP=(
 [C01-send-before-cancel-check]="C01" [C02-cancelled-check-then-srn]="C02" [C02-waitlist-remove-by-equality]="C02"
 [C03-allready-flag-last-future]="C03" [C03-contains-future-first-nested-list]="C03" [C04-failfast-waitlist-blocks-resolver]="C04"
 [C05-drain-empty-then-blocking-get]="C05" [C05-broker-process-cleared-only-when-waiting]="C05"
 [C06-set-exception-on-cancelled-dependent]="C06" [C07-wait-first-completed-no-recheck]="C07" [C07-admission-ignores-threads]="C07"
 [C08-key-pickles-toplevel-function-by-reference]="C08" [C09-set-result-before-cache-write]="C09" [C10-max-of-percall-and-exec-cores]="C10"
 [C11-park-calls-with-done-futures]="C11" [C12-unguarded-set-exception-on-cancelled-dependent]="C12" [C12-percall-threads-daemon]="C12"
 [C13-match-found-flag-hoisted]="C13" [C14-skip-launch-when-ready-file-exists]="C14" [C15-argspec-cache-by-qualname]="C15"
 [C16-shlex-quote-cwd]="C16" [C17-stale-reply-on-init]="C17" [C18-filemode-resource-dict-not-copied]="C18"
 [C19-shared-executor-kwargs]="C10 C19" [C19-base-init-after-default-cores]="C19" [C20-dedup-edges-per-node-pair]="C20"
)
for S in $(ls seeded | sort); do
  [ -n "${MAP[$S]:-}" ] || { echo "seed=$S : no mapping"; continue; }
  if ! git -C /repo apply --check /verif/seeded/$S/patch.diff 2>/dev/null; then echo "seed=$S : PATCH DOES NOT APPLY"; continue; fi
  tools/try_seed.sh $S ${MAP[$S]} 2>&1 | sed -E 's/KNOWN-FINDING[^V]*//g' | cut -c1-260
done
