#!/bin/bash
# tools/all_seeds.sh : apply every seeded change in turn, run the check(s) expected to catch it, report.
cd /verif
declare -A MAP=(
 [C01-send-before-cancel-check]="C01" [C02-cancelled-check-then-srn]="C02" [C02-waitlist-remove-by-equality]="C02"
 [C03-allready-flag-last-future]="C03" [C03-contains-future-first-nested-list]="C03" [C04-failfast-waitlist-blocks-resolver]="C04"
 [C05-drain-empty-then-blocking-get]="C05" [C05-broker-process-cleared-only-when-waiting]="C05"
 [C06-set-exception-on-cancelled-dependent]="C06" [C07-wait-first-completed-no-recheck]="C07" [C07-admission-ignores-threads]="C07"
 [C08-key-pickles-toplevel-function-by-reference]="C08" [C09-set-result-before-cache-write]="C09" [C10-max-of-percall-and-exec-cores]="C10"
 [C11-park-calls-with-done-futures]="C11" [C12-unguarded-set-exception-on-cancelled-dependent]="C12" [C12-percall-threads-daemon]="C12"
 [C13-match-found-flag-hoisted]="C13" [C14-skip-launch-when-ready-file-exists]="C14" [C15-argspec-cache-by-qualname]="C15"
 [C16-shlex-quote-cwd]="C16" [C17-stale-reply-on-init]="C17" [C18-filemode-resource-dict-not-copied]="C18"
 [C19-shared-executor-kwargs]="C10 C19" [C01-preset-overrides-explicit-keyword]="C01 C15" [C04-dispatcher-reaps-failed-thread]="C04"
 [C06-forward-cancelled-waiting-task]="C06" [C08-ipykernel-regex-loosened]="C08" [C09-listdir-once-per-worker]="C09"
 [C10-falsy-percall-value-falls-back]="C10" [C11-respawn-dead-worker]="C11" [C13-function-pickle-memo-by-id]="C13 C08"
 [C14-reuse-leftover-input-file]="C14" [C15-preset-memory-aliased-by-fast-path]="C15" [C16-parse-arguments-shared-default-dict]="C16"
 [C17-second-init-treated-as-call]="C17" [C18-launch-cores-max-of-percall-and-default]="C18 C10" [C20-list-recursion-drops-label]="C20"
 [C14-output-file-not-renamed-from-input]="C14 C13" [C13-output-file-not-renamed-from-input]="C14 C13" [C05-base-process-cleared-only-when-waiting]="C05"
 [C06-drain-skips-task-done-for-cancelled]="C06 C05" [C01-socket-caches-function-pickle-by-id]="C01" [C19-worker-cap-after-positivity-check]="C19"
 [C02-resolver-abandons-waitlist-on-nowait]="C02" [C03-resolved-list-cache-by-id]="C03" [C07-dispatcher-uses-max-workers-as-cores]="C07"
 [C09-key-resources-in-set-order]="C09" [C10-filemode-merge-mutates-shared-default]="C10" [C15-wrapper-names-first-parameter-fn]="C15"
 [C16-srun-extra-args-deduplicated]="C16" [C17-worker-closes-socket-without-linger]="C17" [C20-plot-tables-shared-between-executors]="C20"
 [C08-session-key-memo-by-equality]="C08" [C04-error-replaced-when-roundtrip-not-equal]="C04" [C19-default-valued-unsupported-keys-accepted]="C19"
 [C05-spawner-poll-reads-stale-returncode]="C05" [C18-mpiexec-ranks-clamped-to-affinity]="C18 C16" [C13-parked-task-dropped-from-dependency-filter]="C13"
 [C01-resolver-rebuilds-tuple-dict-subclasses]="C01 C03" [C11-shared-percall-queue]="C11" [C12-join-queue-before-stopping-worker]="C12"
 [C14-cache-entry-moved-from-tmpdir]="C14"
 [C09-cached-output-memoised-per-process]="C09" [C17-log-failed-call-needs-name]="C17" [C15-canonical-call-applies-defaults]="C15"
 [C20-shutdown-releases-recorded-calls]="C20" [C16-parallel-backend-path-cached-list]="C16 C18" [C03-resolver-event-cleared-after-pass]="C03 C02"
 [C07-semaphore-slots-released-twice]="C07" [C10-spawner-stores-abspath-of-cwd]="C10 C16" [C02-settled-when-any-input-cancelled]="C02 C06"
 [C06-cancelled-call-remembered-as-cached]="C06"
 [C08-cached-output-lru-shared-object]="C08 C09" [C01-cache-key-sorts-keyword-arguments]="C01 C08" [C12-second-shutdown-drops-queued-stop-messages]="C12 C05"
 [C13-duplicate-chained-with-late-bound-future]="C13" [C14-rename-inside-open-file-block]="C14" [C19-resource-dict-validated-once-by-identity]="C19"
 [C11-plain-calls-bypass-the-resolver]="C11" [C05-cancelled-call-skipped-without-task-done]="C05 C06" [C18-waitlist-forwards-clean-copy-without-resources]="C18 C10"
 [C04-every-failed-input-sets-the-exception]="C04"
 [C18-returned-exception-treated-as-raised]="C18" [C12-shutdown-skipped-when-not-yet-connected]="C12" [C19-base-init-after-default-cores]="C19" [C20-dedup-edges-per-node-pair]="C20"
)
# every seed runs against its own scratch worktree of /repo (tools/seed_wt.sh): /repo, /verif/evidence and /verif/out stay untouched
JOBS=${JOBS:-5}
for S in $(ls seeded | sort); do
  [ -n "${MAP[$S]:-}" ] || { echo "seed=$S : no mapping" >&2; continue; }
  echo "$S ${MAP[$S]}"
done | xargs -P $JOBS -L 1 tools/seed_wt.sh 2>&1 | sed -E 's/KNOWN-FINDING[^V]*//g' | cut -c1-260
