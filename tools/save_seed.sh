#!/bin/bash
# tools/save_seed.sh <prop> <seed-name> "<needs>" "<what>" [extra pythonpath]
set -u
P="$1"; NAME="$2"; NEEDS="$3"; WHAT="$4"; EXTRA="${5:-}"
D=/tmp/mut/${P}_demo
[ -f "$D/patch.diff" ] || git -C /tmp/mut/$P diff > "$D/patch.diff"
mkdir -p /verif/seeded/$NAME
cp "$D/patch.diff" "$D/demo.py" /verif/seeded/$NAME/
python3 - "$NAME" "$P" "$NEEDS" "$WHAT" <<'PY'
import json,sys
name,prop,needs,what=sys.argv[1:5]
json.dump({"property":prop,"source":"independent sub-agent (given only the property text and a scratch worktree)","needs":needs,"what":what},open(f'/verif/seeded/{name}/meta.json','w'),indent=1)
PY
git -C /repo worktree remove --force /tmp/mut/$P 2>/dev/null
/verif/tools/confirm_seed.sh "$NAME" "$P" /verif/seeded/$NAME/patch.diff /verif/seeded/$NAME/demo.py "$EXTRA"
