#!/bin/bash
# tools/save_seed.sh <prop> <seed-name> "<needs>" "<what>" [extra pythonpath]
set -u
P="$1"; NAME="$2"; NEEDS="$3"; WHAT="$4"; EXTRA="${5:-}"
D=/tmp/mut/${P}_demo
[ -f "$D/patch.diff" ] || git -C /tmp/mut/$P diff > "$D/patch.diff"
mkdir -p /verif/seeded/$NAME
cp "$D/patch.diff" "$D/demo.py" /verif/seeded/$NAME/
for f in "$D"/*.py; do cp "$f" /verif/seeded/$NAME/; done
[ -d "$D/h5py" ] && cp -r "$D/h5py" /verif/seeded/$NAME/
for extra in fake_modules fake fakes stubs bin; do [ -d "$D/$extra" ] && cp -r "$D/$extra" /verif/seeded/$NAME/; done
find /verif/seeded/$NAME -name __pycache__ -type d -exec rm -rf {} + 2>/dev/null
python3 - "$NAME" "$P" "$NEEDS" "$WHAT" <<'PY'
import json,sys
name,prop,needs,what=sys.argv[1:5]
json.dump({"property":prop,"source":"independent sub-agent (given only the property text and a scratch worktree)","needs":needs,"what":what},open(f'/verif/seeded/{name}/meta.json','w'),indent=1)
PY
git -C /repo worktree remove --force /tmp/mut/$P 2>/dev/null
/verif/tools/confirm_seed.sh "$NAME" "$P" /verif/seeded/$NAME/patch.diff /verif/seeded/$NAME/demo.py "$EXTRA"
