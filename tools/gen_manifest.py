#!/usr/bin/env python3
"""Regenerates /verif/MANIFEST.json from the table below (properties.jsonl is never touched)."""
import json, os
V = os.path.dirname(os.path.dirname(os.path.abspath(__file__)))
props = [json.loads(l) for l in open(os.path.join(V, "properties.jsonl"))]
COMMON_NOTE = ("Trusted: Lean 4.33 kernel with axioms ⊆ {propext, Classical.choice, Quot.sound} (audited on every run); "
               "the theorem statements and SPEC definitions; the sampled differential/trace correspondence between the hand-written model and /repo. ")
claimed = {
 "C15": dict(text="Lean theorem callFunct_eq_spec: for every signature with distinct parameter names, every preset dictionary and every positional/keyword split, the model of call_funct equals the declarative rule specCall (caller's value, else preset for declared parameters, else default; no undeclared key; errors only from the caller's own arguments); corollaries preset_rule and no_new_errors; proved counterexample for the pre-fix code. Tied to the code by running the real call_funct on exec-generated functions (3000+ cases per quick run) and a block executor with init_function on real workers.",
             note=COMMON_NOTE + "CPython's binding rule for positional-or-keyword parameters is modelled (Preset.bind) and checked against real calls; *args/**kwargs/keyword-only signatures and bound methods are outside the quantifier.",
             technique="Lean 4 proof (refinement of call_funct model to a declarative spec) + differential correspondence", ref="6/C15"),
 "C17": dict(text="Lean theorem one_reply_each: for every finite request sequence over {init, call (any outcome, with or without presets), shutdown, unknown request} the worker's reply transcript equals one reply per reply-bearing request up to and including the first shutdown, in order, each computed with the presets in effect; corollaries reply_count, nothing_after_ack, init_silent_and_error_continues. The submitted functions are a parameter of the model, so the theorem covers all callables. Tied to interactive_serial.main by driving the real worker loop over a real zmq PAIR socket (in-thread and as a subprocess) on generated sequences and comparing transcripts with Wire.serve.",
             note=COMMON_NOTE + "zmq PAIR as a reliable FIFO; silence after init observed by a short poll and by the position of later replies; an init function that raises is outside the alphabet.",
             technique="Lean 4 proof (list induction over request sequences) + transcript correspondence on the real worker", ref="6/C17"),
 "C16": dict(text="Lean theorems srun_exact / mpiexec_exact / parse_roundtrip (all naturals, all strings, all extra-argument lists inside the stated domain) about the hand-written model Cmd.lean, checked by the kernel; the model is tied to spawner.py/communication.py/backend.py by a differential run (generators, spawner classes through interface_bootup with Popen recorded, parse_arguments) and the Lean SPEC parser is evaluated on the implementation's own argv to turn a difference into a failing input.",
             note=COMMON_NOTE + "The SPEC grammar of srun/mpiexec in Launcher.lean (no launcher installed). Extra arguments of the form '--name value' are outside the theorem's domain (raw argv correspondence only).",
             technique="Lean 4 proof (round-trip theorem against a SPEC parser) + differential correspondence", ref="6/C16"),
}
checks, na = [], []
for p in props:
    i = p["id"]
    if i in claimed:
        c = claimed[i]
        checks.append({"property_id": i, "quick_cmd": f"./check {i} --tier quick", "thorough_cmd": f"./check {i} --tier thorough",
                       "evidence_file": f"evidence/{i}.json", "replay_cmd_template": f"./check {i} --replay {{path}}",
                       "engine": "lean-proof+correspondence",
                       "level_claimed": {"category": "proof", "text": c["text"], "design_ref": c["ref"]},
                       "level_note": c["note"], "technique": c["technique"]})
    else:
        na.append({"property_id": i, "reason": "check not built yet (work in progress; DESIGN.md section 9 build order) - not claimed at this commit"})
m = {"version": 1, "setup_cmd": "cd lean && lake build",
     "hooks": {"guard": "EXECUTORLIB_VERIF", "enable": "no source hooks: the harness injects tracing subclasses and stand-in modules via PYTHONPATH only",
               "baseline_off_cmd": "cd /repo && /venv/bin/python -m pytest -ra -q -p no:cacheprovider --timeout=900 --continue-on-collection-errors",
               "source_commits": [], "add_only": True},
     "engines": [{"name": "lean-proof+correspondence", "path": "lean/ + harness/vh", "serves_properties": [c["property_id"] for c in checks],
                  "kind_free_text": "Lean 4 theorems over a hand-written executable model; Python differential/trace correspondence against /repo"}],
     "checks": checks, "not_applicable": na,
     "notes": "Exit 2 = infrastructure error of the machinery (never accompanied by a VIOLATION line). Defects repaired in /repo by 'fix:' commits are listed in known_findings.json."}
json.dump(m, open(os.path.join(V, "MANIFEST.json"), "w"), indent=1, ensure_ascii=False)
print("claimed:", [c["property_id"] for c in checks])
