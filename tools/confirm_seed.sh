#!/bin/bash
# tools/confirm_seed.sh <seed-name> <property> <patch.diff> <demo.py> [extra PYTHONPATH for demo]
# Confirms a seeded change in a fresh scratch worktree: demo passes without, fails with; test suite still 74 passed.
set -u
NAME="$1"; PROP="$2"; PATCH="$(realpath "$3")"; DEMO="$(realpath "$4")"; EXTRA="${5:-}"
OUT=/verif/seeded/$NAME; mkdir -p "$OUT"
cp "$PATCH" "$OUT/patch.diff" 2>/dev/null; cp "$DEMO" "$OUT/demo.py" 2>/dev/null
git -C /repo worktree remove --force /tmp/mut/$PROP 2>/dev/null; mkdir -p /tmp/mut; WT=/tmp/mut/$PROP   # the demos check this very path
git -C /repo worktree add --detach "$WT" HEAD -q || exit 3
PP="$WT${EXTRA:+:$EXTRA}"
( cd "$OUT" && PYTHONPATH="$PP" timeout 300 /venv/bin/python demo.py > "$OUT/demo_clean.log" 2>&1 ); RC_CLEAN=$?
if ! git -C "$WT" apply "$OUT/patch.diff"; then echo "patch does not apply"; git -C /repo worktree remove --force "$WT"; exit 4; fi
( cd "$OUT" && PYTHONPATH="$PP" timeout 300 /venv/bin/python demo.py > "$OUT/demo_mut.log" 2>&1 ); RC_MUT=$?
( cd "$WT" && PYTHONPATH="$WT" timeout 1500 /venv/bin/python -m pytest -q -p no:cacheprovider --timeout=900 tests/ > "$OUT/pytest_mut.log" 2>&1 )
SUMMARY=$(tail -1 "$OUT/pytest_mut.log")
git -C /repo worktree remove --force "$WT"; git -C /repo worktree prune
echo "demo clean rc=$RC_CLEAN  demo mutated rc=$RC_MUT  pytest: $SUMMARY"
python3 - "$OUT" "$PROP" "$RC_CLEAN" "$RC_MUT" "$SUMMARY" <<'PY'
import json,sys,os
out,prop,rc_c,rc_m,summ=sys.argv[1:6]
p=os.path.join(out,'meta.json')
meta=json.load(open(p)) if os.path.exists(p) else {}
meta.update({"property":prop,"confirmed":{"repo_head":os.popen('git -C /repo rev-parse --short HEAD').read().strip(),"demo_rc_clean":int(rc_c),"demo_rc_mutated":int(rc_m),"pytest_with_patch":summ,
 "ran":["fresh worktree of /repo HEAD under /tmp","PYTHONPATH=<wt> /venv/bin/python demo.py (clean)","git apply patch.diff","demo.py again","PYTHONPATH=<wt> /venv/bin/python -m pytest -q -p no:cacheprovider --timeout=900 tests/"]}})
json.dump(meta,open(p,'w'),indent=1)
PY
