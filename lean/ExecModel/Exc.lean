import ExecModel.Wire
/-!
  `Exc` — transport of a call's outcome from the worker to the future
  (`interactive_serial.py::main` send side, `SocketInterface.receive_dict` receive side).

  `byValue = true` is the code after fix d585721 (the pickled exception object is re-raised);
  `byValue = false` is the code as found: `eval(error_type_name)(error)` — the class is looked up by
  its bare name in the receiving module and called with the received exception as its only argument.
-/
namespace ExecModel.Exc
open ExecModel.Wire

/-- An exception value: qualified class and argument tuple. -/
structure Ex (A : Type) where
  cls : String
  args : List A
  deriving Repr, DecidableEq

/-- Argument values: plain values, or (after the old rebuild) a whole exception. -/
inductive EArg (A : Type) where
  | plain (a : A)
  | exc (cls : String) (args : List A)
  deriving Repr, DecidableEq

variable {V A : Type}

/-- `receive_dict`.  `known` = class names bound in `communication.py` (builtins). -/
def receive (byValue : Bool) (known : String → Bool) :
    Reply V (Ex (EArg A)) → Except (Ex (EArg A)) (Option V)
  | .result v => .ok (some v)
  | .ack => .ok none
  | .error e =>
    if byValue then .error e
    else if known e.cls then
      .error { cls := e.cls, args := [.exc e.cls (e.args.filterMap (fun a => match a with
        | .plain x => some x
        | .exc _ _ => none))] }
    else .error { cls := "NameError", args := [] }

end ExecModel.Exc
