import ExecModel.Basic
/-!
  Model of the worker process: `executorlib/backend/interactive_serial.py::main` (one rank) and
  `interactive_parallel.py::main` (`n` ranks in lock step: rank 0 receives, `bcast`, every rank
  calls, `gather` to rank 0, rank 0 replies).

  The submitted functions are a parameter: `run rank ncalls mem c` is the outcome of call `c` on
  rank `rank` when `ncalls` calls have been executed before in this interpreter and the preset
  memory is `mem` — so every theorem holds for all callables, including ones that read and write
  interpreter-global state and ones that use presets.
-/
namespace ExecModel.Wire

variable {Mem Call V E : Type}

inductive Req (Mem Call : Type)
  | init (m : Mem)     -- `{"init": True, "fn": f, "args": (), "kwargs": {}}`, `f()` returns `m`
  | call (c : Call)    -- `{"fn": f, "args": a, "kwargs": k}` (no "init" key)
  | shutdown           -- `{"shutdown": True, ...}`
  | other              -- any dict matching none of the three branches: ignored
  deriving Repr, DecidableEq

inductive Reply (V E : Type)
  | result (v : V)     -- `{"result": v}`
  | error (e : E)      -- `{"error": e, "error_type": str(type(e))}`
  | ack                -- `{"result": True}` answering shutdown
  deriving Repr, DecidableEq

structure WState (Mem : Type) where
  mem : Option Mem := none
  ncalls : Nat := 0
  alive : Bool := true
  wedged : Bool := false     -- n-rank only: ranks disagree on success, the collective never completes
  deriving Repr, DecidableEq

abbrev Run (Mem Call V E : Type) := (rank : Nat) → (ncalls : Nat) → Option Mem → Call → Except E V

def replyOf : Except E V → Reply V E
  | .ok v => .result v
  | .error e => .error e

/-- One iteration of the serial worker loop. -/
def wstep (run : Run Mem Call V E) (s : WState Mem) : Req Mem Call → WState Mem × Option (Reply V E)
  | .shutdown => if s.alive then ({ s with alive := false }, some .ack) else (s, none)
  | .call c => if s.alive then ({ s with ncalls := s.ncalls + 1 }, some (replyOf (run 0 s.ncalls s.mem c))) else (s, none)
  | .init m => if s.alive then ({ s with mem := some m }, none) else (s, none)
  | .other => (s, none)

/-- All replies produced for a request sequence, in order. -/
def serve (run : Run Mem Call V E) : WState Mem → List (Req Mem Call) → List (Reply V E)
  | _, [] => []
  | s, r :: rs =>
    match wstep run s r with
    | (s', some rep) => rep :: serve run s' rs
    | (s', none) => serve run s' rs

def finalState (run : Run Mem Call V E) : WState Mem → List (Req Mem Call) → WState Mem
  | s, [] => s
  | s, r :: rs => finalState run (wstep run s r).1 rs

/-! ### the worker loop as found (before fix of defect D33)

`except Exception` around the call: an exception that does not derive from `Exception`
(`SystemExit` from `sys.exit()` inside the function, `KeyboardInterrupt`, `GeneratorExit`, a user
subclass of `BaseException`) — `fatal e` — leaves the loop: the process ends without a reply. -/

def wstepOld (fatal : E → Bool) (run : Run Mem Call V E) (s : WState Mem) : Req Mem Call → WState Mem × Option (Reply V E)
  | .call c =>
    if s.alive then
      match run 0 s.ncalls s.mem c with
      | .error e => if fatal e then ({ s with alive := false }, none) else ({ s with ncalls := s.ncalls + 1 }, some (.error e))
      | .ok v => ({ s with ncalls := s.ncalls + 1 }, some (.result v))
    else (s, none)
  | r => wstep run s r

def serveOld (fatal : E → Bool) (run : Run Mem Call V E) : WState Mem → List (Req Mem Call) → List (Reply V E)
  | _, [] => []
  | s, r :: rs =>
    match wstepOld fatal run s r with
    | (s', some rep) => rep :: serveOld fatal run s' rs
    | (s', none) => serveOld fatal run s' rs

/-! ### n ranks -/

/-- Outcomes of the `n` ranks for one call. -/
def rankOutcomes (run : Run Mem Call V E) (n : Nat) (s : WState Mem) (c : Call) : List (Except E V) :=
  (List.range n).map (fun r => run r s.ncalls s.mem c)

def allOk : List (Except E V) → Option (List V)
  | [] => some []
  | .ok v :: rest => (allOk rest).map (v :: ·)
  | .error _ :: _ => none

def allErr : List (Except E V) → Bool
  | [] => true
  | .ok _ :: _ => false
  | .error _ :: rest => allErr rest

inductive PReply (V E : Type)
  | single (v : V)          -- n = 1: the value itself
  | gathered (vs : List V)  -- n > 1: list of the n values in rank order
  | error (e : E)
  | ack
  deriving Repr, DecidableEq

/-- One iteration of the n-rank worker loop (`n ≥ 1`). -/
def pstep (run : Run Mem Call V E) (n : Nat) (s : WState Mem) :
    Req Mem Call → WState Mem × Option (PReply V E)
  | .shutdown => if s.alive && !s.wedged then ({ s with alive := false }, some .ack) else (s, none)
  | .init m => if s.alive && !s.wedged then ({ s with mem := some m }, none) else (s, none)
  | .other => (s, none)
  | .call c =>
    if s.alive && !s.wedged then
      let outs := rankOutcomes run n s c
      let s' := { s with ncalls := s.ncalls + 1 }
      if n ≤ 1 then
        match run 0 s.ncalls s.mem c with
        | .ok v => (s', some (.single v))
        | .error e => (s', some (.error e))
      else match allOk outs with
        | some vs => (s', some (.gathered vs))
        | none =>
          if allErr outs then
            match run 0 s.ncalls s.mem c with
            | .error e => (s', some (.error e))
            | .ok _ => ({ s' with wedged := true }, none)   -- unreachable when allErr
          else ({ s' with wedged := true }, none)            -- some ranks wait in gather forever
    else (s, none)

def pserve (run : Run Mem Call V E) (n : Nat) : WState Mem → List (Req Mem Call) → List (PReply V E)
  | _, [] => []
  | s, r :: rs =>
    match pstep run n s r with
    | (s', some rep) => rep :: pserve run n s' rs
    | (s', none) => pserve run n s' rs

end ExecModel.Wire
