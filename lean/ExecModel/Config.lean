import ExecModel.Basic
/-!
  `Config` — the constructor / submit decision table of `executorlib.Executor`:
  `executorlib/__init__.py::Executor.__new__`, `interactive/executor.py::create_executor`,
  `cache/executor.py::create_file_executor`, `standalone/inputcheck.py`, the `submit` methods of
  `ExecutorBase`, `ExecutorBroker`, `ExecutorWithDependencies` — as found after the `fix:` commits
  812ce71 (zero workers), 06d6e8a and 472d455 (request above max_cores), 5a2406b (negative
  refresh_rate), 24eb13b (working directory created), 4a90a71 (file executor options without
  pysqa).  Option values are abstracted to what the decisions depend on.

  `Env` records what is installed: in this sandbox flux and pysqa are not importable, mpi4py and
  srun are stand-ins.
-/
namespace ExecModel.Config

inductive Backend
  | local | slurmAlloc | fluxAlloc | localSub | slurmSub | fluxSub | other
  deriving Repr, DecidableEq

def Backend.isSubmission : Backend → Bool
  | .localSub | .slurmSub | .fluxSub => true
  | _ => false

inductive Cwd | absent | none | ok | missing
  deriving Repr, DecidableEq

inductive Extra | absent | empty | nonempty
  deriving Repr, DecidableEq

/-- a resource dictionary, abstracted -/
structure RD where
  cores : Option Nat := none
  threads : Option Nat := none
  gpus : Option Nat := none
  cwd : Cwd := .absent
  oversub : Option Bool := none
  extra : Extra := .absent
  unknown : Bool := false          -- a key executorlib does not know
  deriving Repr, DecidableEq

def RD.isEmpty (r : RD) : Bool :=
  r.cores.isNone && r.threads.isNone && r.gpus.isNone && r.cwd == .absent && r.oversub.isNone
    && r.extra == .absent && !r.unknown

inductive Refresh | dflt | other | negative
  deriving Repr, DecidableEq

inductive Pmi | none | pmix | bad
  deriving Repr, DecidableEq

structure Opts where
  backend : Backend := .local
  block : Bool := false
  noDeps : Bool := false
  maxWorkers : Option Nat := none
  maxCores : Option Nat := none
  rd : RD := {}
  initFn : Bool := false
  hostLocal : Option Bool := none
  refresh : Refresh := .dflt
  fluxExec : Bool := false
  pmi : Pmi := .none
  nesting : Bool := false
  pysqaDir : Bool := false
  plot : Bool := false
  cacheDir : Bool := false
  deriving Repr, DecidableEq

structure Env where
  flux : Bool := false
  pysqa : Bool := false
  mpi : Bool := true
  ncpu : Nat := 16
  deriving Repr, DecidableEq

inductive Exc | valueError | typeError | nameError
  deriving Repr, DecidableEq

inductive Spawner | mpiexec | srun | flux
  deriving Repr, DecidableEq

inductive Kind
  | file                      -- FileExecutor
  | block (n : Nat)           -- InteractiveExecutor with n worker threads
  | step                      -- InteractiveStepExecutor
  deriving Repr, DecidableEq

/-- what the constructor returns -/
structure Plan where
  kind : Kind
  resolver : Bool             -- ExecutorWithDependencies in front
  plot : Bool
  spawner : Spawner
  maxCores : Option Nat
  maxWorkers : Option Nat
  rd : RD                     -- executor-level resource dictionary handed to the worker threads
  cores : Nat                 -- executor-level cores per worker
  fileBackendParam : Bool     -- FileExecutor given a `backend=` keyword
  deriving Repr, DecidableEq

/-- `validate_number_of_cores` (after fix 812ce71) -/
def validateWorkers (env : Env) (maxCores maxWorkers : Option Nat) (cores : Nat) (setLocal : Bool) : Except Exc Nat :=
  let r : Except Exc Nat :=
    match maxCores, maxWorkers with
    | none, none => if setLocal then .ok env.ncpu else .error .valueError
    | some mc, none => .ok (mc / cores)
    | _, some mw => .ok mw
  match r with
  | .ok n => if n < 1 then .error .valueError else .ok n
  | .error e => .error e

/-- `create_executor` -/
def createExecutor (env : Env) (o : Opts) : Except Exc Plan :=
  if !o.block && o.initFn then .error .valueError else
  let backend := if o.fluxExec && o.backend != .fluxAlloc then Backend.fluxAlloc else o.backend
  if backend != .fluxAlloc && o.pmi != .none then .error .valueError else
  if backend == .fluxAlloc && o.pmi == .bad then .error .valueError else
  let cores := o.rd.cores.getD 1
  -- check_cores_and_threads (fix 55646a2)
  if cores < 1 || o.rd.threads.getD 1 < 1 then .error .valueError else
  -- check_resource_limits (fix 812ce71), executors without block allocation
  -- (fix 8703212: times the executor-level threads_per_core, which the local back end does not hand on)
  if !o.block && (match o.maxCores with
      | some mc => decide (mc < cores * (if backend == .local then 1 else o.rd.threads.getD 1))
      | none => false) then .error .valueError else
  if !o.block && o.maxCores.isNone && (match o.maxWorkers with | some mw => decide (mw < 1) | none => false) then .error .valueError else
  -- check_resource_dict_keys in the constructors of InteractiveExecutor / InteractiveStepExecutor (fix 1bb6f38):
  -- after the back-end specific deletions the only key a spawner class can reject is an unknown one
  let mk (k : Kind) (sp : Spawner) (rd : RD) : Except Exc Plan :=
    if rd.unknown then .error .valueError else
    .ok { kind := k, resolver := false, plot := false, spawner := sp, maxCores := o.maxCores, maxWorkers := o.maxWorkers,
          rd := rd, cores := cores, fileBackendParam := false }
  match backend with
  | .fluxAlloc =>
    if o.rd.oversub == some true then .error .valueError else
    if o.rd.extra == .nonempty then .error .valueError else
    if o.block then
      match validateWorkers env o.maxCores o.maxWorkers cores false with
      | .error e => .error e
      | .ok n => if env.flux then mk (.block n) .flux o.rd else .error .nameError
    else if env.flux then mk .step .flux o.rd else .error .nameError
  | .slurmAlloc =>
    if o.nesting then .error .valueError else
    if o.block then
      match validateWorkers env o.maxCores o.maxWorkers cores false with
      | .error e => .error e
      | .ok n => mk (.block n) .srun o.rd
    else mk .step .srun o.rd
  | .local =>
    if o.nesting then .error .valueError else
    if o.rd.gpus.getD 0 != 0 then .error .typeError else
    if o.rd.extra == .nonempty then .error .valueError else
    let rd := { o.rd with threads := none, gpus := none, extra := .absent }   -- deleted before the spawner sees them
    if o.block then
      match validateWorkers env o.maxCores o.maxWorkers cores true with
      | .error e => .error e
      | .ok n => mk (.block n) .mpiexec rd
    else mk .step .mpiexec rd
  | _ => .error .valueError

/-- `Executor.__new__` -/
def construct (env : Env) (o : Opts) : Except Exc Plan :=
  if o.backend.isSubmission && !o.plot then
    -- create_file_executor
    if o.block then .error .valueError else
    if o.initFn then .error .valueError else
    if o.pmi != .none then .error .valueError else
    if o.maxWorkers.isSome || o.maxCores.isSome then .error .valueError else
    if o.hostLocal.isSome then .error .valueError else
    if o.fluxExec then .error .valueError else
    if o.nesting then .error .valueError else
    -- FileExecutor.__init__ (fix 4a90a71): without pysqa the subprocess spawner takes no backend
    if !env.pysqa then .error .valueError else
    .ok { kind := .file, resolver := false, plot := false, spawner := .mpiexec, maxCores := none, maxWorkers := none,
          rd := o.rd, cores := o.rd.cores.getD 1, fileBackendParam := true }
  else if !o.noDeps then
    if o.pysqaDir then .error .valueError else
    if o.refresh == .negative then .error .valueError else
    match createExecutor env o with
    | .error e => .error e
    | .ok p => .ok { p with resolver := true, plot := o.plot }
  else
    if o.pysqaDir then .error .valueError else
    if o.plot then .error .valueError else
    if o.refresh != .dflt then .error .valueError else
    createExecutor env o

/-- `submit(fn, …, resource_dict=pc)` on the executor the constructor returned -/
def submitCheck (p : Plan) (pc : RD) (fnHasResourceDictParam : Bool) : Except Exc Unit :=
  if p.resolver && p.plot then .ok () else
  -- `_default_cores`: the executor-level cores of a step executor (fix 472d455), 1 otherwise
  let dflt : Nat := match p.kind with | .step => p.cores | _ => 1
  let cores : Nat := match pc.cores with
    | none => dflt
    | some k => if k = 1 ∧ dflt ≥ 1 then dflt else k
  -- `_default_threads_per_core` (fix 8703212): the executor-level value of a step executor, 1 otherwise
  let dfltThr : Nat := match p.kind with | .step => p.rd.threads.getD 1 | _ => 1
  let thr : Nat := pc.threads.getD dfltThr
  let tooBig : Bool := match p.maxCores with
    | some mc => decide (mc < cores * thr)
    | none => false
  -- check_cores_and_threads (fix 55646a2) in `ExecutorBase.submit`
  let nonPos : Bool := decide (cores < 1) || decide (thr < 1)
  -- check_resource_dict_keys in `ExecutorBase.submit` (fix 1bb6f38): keys the spawner class does not take
  let badKey : Bool := pc.unknown || (match p.spawner with
    | .mpiexec => pc.gpus.isSome || pc.extra != .absent
    | _ => false)
  match p.kind with
  | .block _ =>
    if !pc.isEmpty then .error .valueError else
    if p.resolver && (nonPos || tooBig) then .error .valueError else
    if fnHasResourceDictParam then .error .valueError else .ok ()
  | .step =>
    if badKey then .error .valueError else
    if nonPos || tooBig then .error .valueError else
    if fnHasResourceDictParam then .error .valueError else .ok ()
  | .file =>
    if nonPos then .error .valueError else
    if fnHasResourceDictParam then .error .valueError else .ok ()

/-! ### SPEC: what it takes for the submitted call to actually run -/

/-- keyword arguments the worker thread passes to the spawner class -/
def effective (p : Plan) (pc : RD) : RD :=
  { cores := some (match pc.cores with
      | none => p.cores
      | some k => if k = 1 ∧ p.cores ≥ 1 then p.cores else k)
    threads := pc.threads <|> p.rd.threads
    gpus := pc.gpus <|> p.rd.gpus
    cwd := if pc.cwd == .absent then p.rd.cwd else pc.cwd
    oversub := pc.oversub <|> p.rd.oversub
    extra := if pc.extra == .absent then p.rd.extra else pc.extra
    unknown := pc.unknown || p.rd.unknown }

/-- the spawner class accepts the keywords (otherwise `TypeError` in the worker thread: finding D20) -/
def keysAccepted (p : Plan) (pc : RD) : Bool :=
  let e := effective p pc
  !e.unknown && (match p.spawner with
    | .mpiexec => e.gpus.isNone && e.extra == .absent
    | _ => true)

/-- the working directory can be used: the subprocess spawners create it (fix 24eb13b) -/
def cwdUsable (p : Plan) (pc : RD) : Bool :=
  (effective p pc).cwd != .missing || p.spawner != .flux

/-- slots the dispatcher accounts for this call -/
def slots (p : Plan) (pc : RD) : Nat := ((effective p pc).cores.getD 1) * (pc.threads <|> p.rd.threads).getD 1

/-- SPEC: the accepted configuration can run the call: a worker can be started (keywords accepted,
    working directory exists, launcher available), at least one worker exists, the request fits the
    limits, the file executor has a usable back end. -/
def Runnable (env : Env) (p : Plan) (pc : RD) : Bool :=
  if p.resolver && p.plot then
    -- nothing is executed; the worker threads of a block allocation are started all the same
    (match p.kind with
     | .block n => decide (1 ≤ n) && keysAccepted p {} && cwdUsable p {}
                     && (decide ((effective p {}).cores.getD 1 ≤ 1) || env.mpi)
     | _ => true)
  else
  match p.kind with
  | .file => !p.fileBackendParam || env.pysqa
  | .block n =>
    decide (1 ≤ n) && keysAccepted p pc && cwdUsable p pc
      && (decide ((effective p pc).cores.getD 1 ≤ 1) || env.mpi)
  | .step =>
    keysAccepted p pc && cwdUsable p pc
      && (decide ((effective p pc).cores.getD 1 ≤ 1) || env.mpi)
      && (match p.maxCores, p.maxWorkers with
          | some mc, _ => decide (slots p pc ≤ mc)
          | none, some mw => decide (1 ≤ mw)
          | none, none => true)

/-- the known-finding regions: accepted configurations that do not run the call -/
inductive Region
  | d20KeysNotAccepted        -- resource key the spawner class rejects → TypeError in the worker thread
  | d23CwdMissing             -- flux spawner only (the subprocess spawners create the directory)
  | d21NoMpi
  deriving Repr, DecidableEq

def regionOf (env : Env) (p : Plan) (pc : RD) : Option Region :=
  if p.resolver && p.plot then
    (match p.kind with
     | .block _ =>
       if !keysAccepted p {} then some .d20KeysNotAccepted
       else if !cwdUsable p {} then some .d23CwdMissing
       else if !(decide ((effective p {}).cores.getD 1 ≤ 1) || env.mpi) then some .d21NoMpi
       else none
     | _ => none)
  else
  match p.kind with
  | .file => none
  | _ =>
    if !keysAccepted p pc then some .d20KeysNotAccepted
    else if !cwdUsable p pc then some .d23CwdMissing
    else if !(decide ((effective p pc).cores.getD 1 ≤ 1) || env.mpi) then some .d21NoMpi
    else none

end ExecModel.Config
