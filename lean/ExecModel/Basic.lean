/-
  Basic definitions shared by all models.  No Mathlib import anywhere under ExecModel/ except
  in files below Proofs/ (and none is needed so far), so the driver links as a plain executable.
-/

namespace ExecModel

/-- Command-line tokens, file names, keyword names: lists of characters (Python `str`). -/
abbrev Tok := List Char

/-- Decimal rendering of a natural number, Python `str(n)` for `n ≥ 0`. -/
def natStr (n : Nat) : Tok := Nat.toDigits 10 n

/-- Remove a prefix, if present. -/
def stripPrefix : (p l : List Char) → Option (List Char)
  | [], l => some l
  | _ :: _, [] => none
  | a :: p, b :: l => if a = b then stripPrefix p l else none

theorem stripPrefix_append (p l : List Char) : stripPrefix p (p ++ l) = some l := by
  induction p with
  | nil => rfl
  | cons a p ih => simp [stripPrefix, ih]

theorem stripPrefix_eq_some {p l r : List Char} (h : stripPrefix p l = some r) : l = p ++ r := by
  induction p generalizing l with
  | nil => simp [stripPrefix] at h; simp [h]
  | cons a p ih =>
    cases l with
    | nil => simp [stripPrefix] at h
    | cons b l =>
      simp only [stripPrefix] at h
      split at h
      · rename_i hab; subst hab; simp [ih h]
      · cases h

/-- Python `dict` with insertion order: association list, first occurrence wins on lookup and
    `set` keeps the position of an existing key (as `dict.__setitem__` does). -/
abbrev Dict (κ : Type) (α : Type) := List (κ × α)

namespace Dict
variable {κ α : Type} [DecidableEq κ]

def get? (d : Dict κ α) (k : κ) : Option α :=
  match d with
  | [] => none
  | (k', v) :: d => if k' = k then some v else get? d k

def contains (d : Dict κ α) (k : κ) : Bool := (get? d k).isSome

def set (d : Dict κ α) (k : κ) (v : α) : Dict κ α :=
  match d with
  | [] => [(k, v)]
  | (k', v') :: d => if k' = k then (k', v) :: d else (k', v') :: set d k v

/-- `d.update(e)` -/
def update (d e : Dict κ α) : Dict κ α := e.foldl (fun acc kv => set acc kv.1 kv.2) d

def erase (d : Dict κ α) (k : κ) : Dict κ α := d.filter (fun kv => kv.1 ≠ k)

def keys (d : Dict κ α) : List κ := d.map (·.1)

theorem get?_set_self (d : Dict κ α) (k : κ) (v : α) : get? (set d k v) k = some v := by
  induction d with
  | nil => simp [set, get?]
  | cons kv d ih =>
    obtain ⟨k', v'⟩ := kv
    by_cases h : k' = k <;> simp [set, get?, h, ih]

theorem get?_set_other (d : Dict κ α) (k k2 : κ) (v : α) (h : k ≠ k2) :
    get? (set d k v) k2 = get? d k2 := by
  induction d with
  | nil => simp [set, get?, h]
  | cons kv d ih =>
    obtain ⟨k', v'⟩ := kv
    by_cases h1 : k' = k
    · subst h1; simp [set, get?, h]
    · by_cases h2 : k' = k2
      · subst h2; simp [set, get?, h1]
      · simp [set, get?, h1, h2, ih]

end Dict

end ExecModel
