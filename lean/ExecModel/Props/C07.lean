import ExecModel.Proofs.SysCeil
import ExecModel.Proofs.SysStart
import ExecModel.Props.C02
/-!
  C07 — Resource ceiling: concurrent execution never exceeds the executor's limits — and no
  starvation: every accepted request is eventually started.

  A worker executes call `i` exactly while its program counter is `.sent i _` (request sent, reply
  not yet received).  `slotsOf cfg c` = cores × threads_per_core of the call as computed by
  `_submit_function_to_separate_process` (per-call `threads_per_core`; see the level note for the
  executor-level `threads_per_core`, which the code does not count).
-/
namespace ExecModel.C07
open ExecModel ExecModel.Sys

variable {Val Err : Type}
variable (cfg : Cfg) (eval : Nat → List Val → Except Err Val) (cancelErr : Err)

/-- **With `max_cores`: at no instant do the executing calls use more slots than the limit** —
    every reachable state, every mix of per-call requests, every completion order, every
    interleaving of the dispatcher's accounting with completions. -/
theorem ceiling_cores {script : List Cmd} {s : State Val Err} (h : Reachable cfg eval cancelErr script s)
    (hb : cfg.block = none) {mc : Nat} (hm : cfg.maxCores = some mc) : execSum cfg s ≤ mc :=
  Sys.ceiling_cores cfg eval cancelErr h hb hm

/-- **With `max_workers` only: no more than that many calls execute at once.** -/
theorem ceiling_workers {script : List Cmd} {s : State Val Err} (h : Reachable cfg eval cancelErr script s)
    (hb : cfg.block = none) (hm : cfg.maxCores = none) {mw : Nat} (hw : cfg.maxWorkers = some mw) :
    execCount s ≤ mw :=
  Sys.ceiling_workers cfg eval cancelErr h hb hm hw

/-- **With block allocation: no more than `n` calls execute at once**, and a single worker never
    executes two calls at the same time (a worker has one program counter: `execCount` counts each
    worker at most once). -/
theorem ceiling_block {script : List Cmd} {s : State Val Err} (h : Reachable cfg eval cancelErr script s)
    {n : Nat} (hb : cfg.block = some n) : execCount s ≤ n :=
  Sys.ceiling_block cfg eval cancelErr h hb

/-! Non-vacuity: limit 2, calls of 1, 2 and 1 slots; the second launch has to wait for the first
    call to finish and be pruned. -/
def exCfg : Cfg := { resolver := false, block := none, maxCores := some 2,
                     calls := [{}, { threads := some 2, hasRes := true }, {}] }
def exEval : Nat → List Nat → Except Nat Nat := fun i _ => .ok i
def exRun : List (Label Nat Nat) :=
  [.mSubmit, .mSubmit, .mSubmit, .dGet, .dLaunch, .dAck, .dGet, .wBoot 0, .wGet 0, .wSrn 0, .wSend 0]

example : ∃ s, run exCfg exEval 0 (init exCfg [.submit, .submit, .submit]) exRun = some s ∧
    execSum exCfg s = 1 ∧ step exCfg exEval 0 s .dLaunch = none ∧
    (∃ s1, step exCfg exEval 0 s (.wFinish 0) = some s1 ∧ ∃ s2, step exCfg exEval 0 s1 (.dPrune 0) = some s2 ∧
      (step exCfg exEval 0 s2 .dLaunch).isSome) := by
  refine ⟨_, rfl, ?_⟩
  decide

/-! ### no starvation

  The other half of the resource property: the ceiling is not kept by never starting anything.
  "Started" = handed to a worker process = member of the ghost log `sentLog` (grows only at the
  worker step `wSend`).  A finished future always belongs to a started call (`finished_was_sent`);
  by the progress theorem (`Props/C02`) every accepted, not cancelled future of a program without
  failing calls is done at the end of every maximal run.  One case remains in which such a future
  is done without its call ever having been started, and it is not starvation: an input of the
  call was cancelled, and the resolver gave the call the cancellation error (`cancelErr`) instead
  of running it — the second alternative of the theorem (example `exRunC` below shows it occurs). -/

/-- **A finished future belongs to a started call.** -/
theorem finished_was_started {script : List Cmd} {s : State Val Err}
    (h : Reachable cfg eval cancelErr script s) {i : Nat} {v : Val} (hf : futOf s i = .finished v) :
    i ∈ s.sentLog :=
  Sys.finished_was_sent cfg eval cancelErr h hf

/-- **No starvation**: at the end of every maximal run of a program without failing calls, every
    accepted call that was not cancelled has been started (handed to a worker process) and has
    finished — in particular every request that fits the executor's limits is eventually started,
    whatever the mix of requests; requests above `max_cores` are refused at `submit` (they have no
    future: `oversized_request_has_no_future`).  The only other outcome: the call was never started
    because one of its inputs was cancelled (directly, or through an input of the input); its
    future then holds the cancellation error. -/
theorem fitting_request_eventually_runs (hnf : NoFail eval) (hwf : WfCfg cfg) (hl : WfLim cfg)
    {script : List Cmd} {s : State Val Err}
    (hsc : (script.filter isSubmit).length ≤ cfg.calls.length)
    (h : Reachable cfg eval cancelErr script s) (hD : pg_depOk cfg s = true)
    (hst : Stuck cfg eval cancelErr s) (i : Nat) (hi : i < s.nsub) (ha : futOf s i ≠ .absent)
    (hc : futOf s i ≠ .cancelled ∧ futOf s i ≠ .cancelledNotified) :
    (i ∈ s.sentLog ∧ ∃ v, futOf s i = .finished v) ∨
    (i ∉ s.sentLog ∧ futOf s i = .failed cancelErr ∧ ∃ j ∈ depsOf cfg i,
      futOf s j = .failed cancelErr ∨ futOf s j = .cancelled ∨ futOf s j = .cancelledNotified) := by
  have hd := C02.no_lost_futures_each_lim cfg eval cancelErr hnf hwf hl hsc h hD hst i hi ha
  cases hf : futOf s i with
  | finished v => exact Or.inl ⟨Sys.finished_was_sent cfg eval cancelErr h hf, v, rfl⟩
  | failed e =>
    obtain ⟨he, hns, hj⟩ := nofail_failed_never_sent cfg eval cancelErr hnf hwf h hf
    exact Or.inr ⟨hns, by rw [he], hj⟩
  | absent => exact absurd hf ha
  | cancelled => exact absurd hf hc.1
  | cancelledNotified => exact absurd hf hc.2
  | pending => rw [hf] at hd; cases hd
  | running => rw [hf] at hd; cases hd

/-- **No starvation, without cancellation**: if moreover no future is cancelled, every accepted
    call has been started and has finished at the end of every maximal run. -/
theorem every_request_runs_without_cancel (hnf : NoFail eval) (hwf : WfCfg cfg) (hl : WfLim cfg)
    {script : List Cmd} {s : State Val Err}
    (hsc : (script.filter isSubmit).length ≤ cfg.calls.length)
    (h : Reachable cfg eval cancelErr script s) (hD : pg_depOk cfg s = true)
    (hst : Stuck cfg eval cancelErr s)
    (hnc : ∀ j, futOf s j ≠ .cancelled ∧ futOf s j ≠ .cancelledNotified)
    (i : Nat) (hi : i < s.nsub) (ha : futOf s i ≠ .absent) :
    i ∈ s.sentLog ∧ ∃ v, futOf s i = .finished v := by
  rcases fitting_request_eventually_runs cfg eval cancelErr hnf hwf hl hsc h hD hst i hi ha (hnc i)
    with h1 | ⟨-, h2, -⟩
  · exact h1
  · exact absurd h2 (nofail_nocancel_not_failed cfg eval cancelErr hnf hwf h hnc i cancelErr)

/-- **A request above `max_cores` has no future**: without block allocation `submit` refuses it
    (`ValueError`), in every reachable state — it never reaches the dispatcher, so it cannot block
    the requests behind it. -/
theorem oversized_request_has_no_future {script : List Cmd} {s : State Val Err}
    (h : Reachable cfg eval cancelErr script s) (hb : cfg.block = none) {mc : Nat}
    (hm : cfg.maxCores = some mc) {i : Nat} (hbig : mc < slotsOf cfg (cfg.calls.getD i {})) :
    futOf s i = .absent := by
  apply Classical.byContradiction
  intro ha
  have hF := accFits_reachable cfg eval cancelErr h i ha
  simp only [submitTooBig, hb, hm, decide_eq_false_iff_not] at hF
  exact hF hbig

/-! Non-vacuity (first alternative): limit 2, a request of 3 slots is refused at `submit`, the
    request of 1 slot behind it is started and finishes; the run is maximal. -/
def exCfgS : Cfg := { resolver := false, block := none, maxCores := some 2,
                      calls := [{ threads := some 3, hasRes := true }, {}] }
def exRunS : List (Label Nat Nat) :=
  [.mSubmitRaise, .mSubmit, .dGet, .dLaunch, .dAck, .wBoot 0, .wGet 0, .wSrn 0, .wSend 0, .wFinish 0,
   .wAck 0, .wGet 0, .wProcStop 0, .wStopAck 0, .wJoinExit 0]

example : ∃ s, run exCfgS exEval 0 (init exCfgS [.submit, .submit]) exRunS = some s ∧
    (Sys.enabled exCfgS exEval 0 s).isEmpty = true ∧ pg_depOk exCfgS s = true ∧
    s.raised = 1 ∧ futOf s 0 = .absent ∧ s.sentLog = [1] ∧ futOf s 1 = .finished 1 := by
  refine ⟨_, rfl, ?_⟩
  decide

/-! Non-vacuity (second alternative): call 1 takes the future of call 0, which the user cancels;
    the resolver fails call 1 with the cancellation error (99) and it is never started. -/
def exCfgC : Cfg := { resolver := true, block := some 1, calls := [{}, { deps := [0] }] }
def exRunC : List (Label Nat Nat) :=
  [.mSubmit, .mSubmit, .mCancel 0, .rGet, .rDecideReady, .rForward, .rAck, .rGet, .rDecideReady,
   .rFailDep, .rFailSet, .rAck, .wBoot 0, .wGet 0, .wSrn 0, .wAck 0]

example : ∃ s, run exCfgC exEval 99 (init exCfgC [.submit, .submit, .cancel 0]) exRunC = some s ∧
    (Sys.enabled exCfgC exEval 99 s).isEmpty = true ∧ pg_depOk exCfgC s = true ∧
    futOf s 0 = .cancelledNotified ∧ futOf s 1 = .failed 99 ∧ s.sentLog = [] := by
  refine ⟨_, rfl, ?_⟩
  decide

end ExecModel.C07
