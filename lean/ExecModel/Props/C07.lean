import ExecModel.Proofs.SysCeil
/-!
  C07 — Resource ceiling: concurrent execution never exceeds the executor's limits.

  A worker executes call `i` exactly while its program counter is `.sent i _` (request sent, reply
  not yet received).  `slotsOf cfg c` = cores × threads_per_core of the call as computed by
  `_submit_function_to_separate_process` (per-call `threads_per_core`; see the level note for the
  executor-level `threads_per_core`, which the code does not count).
-/
namespace ExecModel.C07
open ExecModel ExecModel.Sys

variable {Val Err : Type}
variable (cfg : Cfg) (eval : Nat → List Val → Except Err Val) (cancelErr : Err)

/-- **With `max_cores`: at no instant do the executing calls use more slots than the limit** —
    every reachable state, every mix of per-call requests, every completion order, every
    interleaving of the dispatcher's accounting with completions. -/
theorem ceiling_cores {script : List Cmd} {s : State Val Err} (h : Reachable cfg eval cancelErr script s)
    (hb : cfg.block = none) {mc : Nat} (hm : cfg.maxCores = some mc) : execSum cfg s ≤ mc :=
  Sys.ceiling_cores cfg eval cancelErr h hb hm

/-- **With `max_workers` only: no more than that many calls execute at once.** -/
theorem ceiling_workers {script : List Cmd} {s : State Val Err} (h : Reachable cfg eval cancelErr script s)
    (hb : cfg.block = none) (hm : cfg.maxCores = none) {mw : Nat} (hw : cfg.maxWorkers = some mw) :
    execCount s ≤ mw :=
  Sys.ceiling_workers cfg eval cancelErr h hb hm hw

/-- **With block allocation: no more than `n` calls execute at once**, and a single worker never
    executes two calls at the same time (a worker has one program counter: `execCount` counts each
    worker at most once). -/
theorem ceiling_block {script : List Cmd} {s : State Val Err} (h : Reachable cfg eval cancelErr script s)
    {n : Nat} (hb : cfg.block = some n) : execCount s ≤ n :=
  Sys.ceiling_block cfg eval cancelErr h hb

/-! Non-vacuity: limit 2, calls of 1, 2 and 1 slots; the second launch has to wait for the first
    call to finish and be pruned. -/
def exCfg : Cfg := { resolver := false, block := none, maxCores := some 2,
                     calls := [{}, { threads := some 2, hasRes := true }, {}] }
def exEval : Nat → List Nat → Except Nat Nat := fun i _ => .ok i
def exRun : List (Label Nat Nat) :=
  [.mSubmit, .mSubmit, .mSubmit, .dGet, .dLaunch, .dAck, .dGet, .wBoot 0, .wGet 0, .wSrn 0, .wSend 0]

example : ∃ s, run exCfg exEval 0 (init exCfg [.submit, .submit, .submit]) exRun = some s ∧
    execSum exCfg s = 1 ∧ step exCfg exEval 0 s .dLaunch = none ∧
    (∃ s1, step exCfg exEval 0 s (.wFinish 0) = some s1 ∧ ∃ s2, step exCfg exEval 0 s1 (.dPrune 0) = some s2 ∧
      (step exCfg exEval 0 s2 .dLaunch).isSome) := by
  refine ⟨_, rfl, ?_⟩
  decide

end ExecModel.C07
