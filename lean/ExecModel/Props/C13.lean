import ExecModel.Proofs.FileProofs
/-!
  C13 — File-based (submission-mode) executor computes the same values.

  Model: `FileExec` — loop thread, worker processes, cache directory (see `Lts/FileExec.lean`).
  A session starts from any directory satisfying `DirOK` (left by any number of earlier sessions,
  complete or interrupted); calls may be identical to earlier ones (same key).
-/
namespace ExecModel.C13
open ExecModel ExecModel.FileExec

variable {K V : Type} [DecidableEq K]
variable (v : Variant) (ncalls : Nat) (deps : Nat → List Nat) (key : Nat → K) (eval : Nat → List V → V) (dflt : V)

/-- **Every future of a file-mode run yields its own call's value, the value sequential evaluation
    in dependency order gives** — futures passed as arguments are resolved through the result files
    of the producing calls — for every DAG of calls, every partition into "already in the cache
    directory" and "new" (any initial directory satisfying the invariant), duplicate submissions,
    every interleaving of the loop thread with the worker processes, every crash of workers. -/
theorem file_values (hwf : WfDeps deps) (hk : KeyOK deps key eval dflt) {s s' : State K V} (ls : List Label)
    (hI : FileInv deps key eval dflt s) (h : run v ncalls deps key eval s ls = some s') (i : Nat) (x : V)
    (hf : futOf s' i = .finished x) : x = specVal deps eval dflt i :=
  FileExec.file_values v ncalls deps key eval dflt hwf hk ls hI h i x hf

/-- a session started on a directory left by earlier sessions satisfies the invariant -/
theorem session_start (d : Dir K V) (hd : DirOK deps key eval dflt d)
    (hr : ∀ k x, (Dir.get d k).ready = some (some x) → ∀ i, key i = k → x = specVal deps eval dflt i) :
    FileInv deps key eval dflt (init (restart d) ncalls : State K V) :=
  fileInv_init ncalls deps key eval dflt (restart d) (dirOK_restart deps key eval dflt d hd)
    (ready_restart deps key eval dflt d hr)

/-- **The loop thread never dies** (code after the fixes 62e5118 and 3db3744), whatever files
    earlier sessions left and whichever calls are already cached. -/
theorem loop_never_dies {s s' : State K V} (ls : List Label) (hs : s.loop ≠ .dead)
    (h : run ⟨true, true⟩ ncalls deps key eval s ls = some s') : s'.loop ≠ .dead :=
  FileExec.loop_never_dies ncalls deps key eval ls hs h

/-- **A call already present in the cache directory is not launched again** (file-mode half of
    C09): its future is registered for the existing result file. -/
theorem existing_result_suppresses_launch (s : State K V) (i : Nat) (x : V) (hl : s.loop = .converted i)
    (hm : memGet s.memory (key i) = none) (ho : (Dir.get s.dir (key i)).out = some x) :
    step v ncalls deps key eval s .lookup = some { s with loop := .idle, memory := s.memory ++ [(key i, i)] } :=
  FileExec.existing_result_suppresses_launch v ncalls deps key eval s i x hl hm ho

/-- **Defect D14 (as found)**: a new call depending on a producer taken from the cache kills the loop. -/
theorem C13_fails_without_depsLaunchedOnly :
    ∃ s, run (K := Nat) (V := Nat) ⟨false, true⟩ 2 (fun i => if i = 1 then [0] else []) id (fun i vs => i + 10 + vs.foldl (· + ·) 0)
      (init [(0, { out := some 10 })] 2) [.submit, .submit, .take, .lookup, .take, .lookup, .writeInput, .launch] = some s ∧
      s.loop = .dead := by
  refine ⟨_, rfl, ?_⟩
  decide

/-- **Finding D13 (not repaired)**: the future of a call identical to one still in flight is dropped. -/
theorem C13_duplicate_in_flight_is_dropped :
    ∃ s, run (K := Nat) (V := Nat) ⟨true, true⟩ 2 (fun _ => []) (fun _ => 7) (fun _ _ => 5)
      (init [] 2) [.submit, .submit, .take, .lookup, .writeInput, .launch, .take, .lookup, .pLoad 0, .pCall 0, .pStage 0,
                   .pWrite 0, .pPublish 0, .collect 0] = some s ∧
      s.dropped = [1] ∧ futOf s 0 = .finished 5 ∧ futOf s 1 = .pending ∧ s.memory = [] := by
  refine ⟨_, rfl, ?_⟩
  decide

end ExecModel.C13
