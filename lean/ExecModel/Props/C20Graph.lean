import ExecModel.Proofs.PlotProofs
/-!
  C20 — the property theorems about the drawn graph (proofs: `Proofs/PlotProofs.lean`).
  `graphOf prog` is the graph handed to the drawing library for the program `prog` (the list of
  submitted calls); plot mode executes nothing (no step of the model touches a queue or a worker).
-/
set_option linter.unusedSimpArgs false
namespace ExecModel.C20Graph
open ExecModel ExecModel.Plot ExecModel.C20

/-- **Exactly one box node per submitted call** (repeated identical calls included): box `k` is
    submission `k`, named after its function. -/
theorem one_box_per_call (prog : List PCall) :
    ((graphOf prog).nodes.filter (·.box)).length = prog.length ∧
    ∀ (k : Nat) (c : PCall), prog[k]? = some c → (graphOf prog).nodes[k]? = some ⟨k, c.fn, true⟩ :=
  boxes_eq_calls prog

/-- **One incoming edge per argument of the call**, in argument order: from the producing call for
    a future (one edge per element for a list of futures), from a value node otherwise, labelled
    with the keyword name (empty for positional arguments). -/
theorem one_edge_per_argument (prog : List PCall) (hwf : WfProg prog) (k : Nat) (c : PCall)
    (h : prog[k]? = some c) :
    ((graphOf prog).edges.filter (fun e => e.stop == k)).map
        (fun e => (if e.start < prog.length then some e.start else none, e.label)) = callShape c :=
  edges_per_argument prog hwf k c h

/-- **Value nodes** are circles created for exactly one argument: one outgoing edge, none incoming. -/
theorem value_node_per_plain_argument (prog : List PCall) (hwf : WfProg prog) :
    ∀ n ∈ (graphOf prog).nodes, n.box = false →
      prog.length ≤ n.id ∧ ((graphOf prog).edges.filter (fun e => e.start == n.id)).length = 1 ∧
      ((graphOf prog).edges.filter (fun e => e.stop == n.id)).length = 0 :=
  value_nodes prog hwf

example : WfProg exProg := by
  intro k c h a ha j hj
  match k, h with
  | 0, h => simp [exProg] at h; subst h; simp [argFuts] at ha hj; rcases ha with rfl | rfl <;> simp [argFuts] at hj
  | 1, h => simp [exProg] at h; subst h; simp [argFuts] at ha hj; rcases ha with rfl | rfl <;> simp [argFuts] at hj
  | 2, h => simp [exProg] at h; subst h; simp at ha; rcases ha with rfl | rfl <;> simp [argFuts] at hj <;> omega
  | 3, h => simp [exProg] at h; subst h; simp at ha; rcases ha with rfl | rfl <;> simp [argFuts] at hj <;> omega
  | n + 4, h => simp [exProg] at h

end ExecModel.C20Graph
