import ExecModel.Config
import ExecModel.Props.C05
import ExecModel.Proofs.SysCeil
/-!
  C19 — Fail fast: an accepted configuration actually runs the call.

  `Config.construct` / `Config.submitCheck` model the constructor and submit decision table,
  `Config.Runnable` is the SPEC of "the executor can run the call", `Config.regionOf` lists the
  accepted-but-not-runnable cells that remain (known findings D21, D23 — the latter for the
  flux spawner only; the constructor `d20KeysNotAccepted` is still there but no accepted
  configuration reaches it).  The former regions D10 (slots above `max_cores`) and D22 (file back
  end without pysqa) are closed by the fixes 472d455 and 4a90a71: `accepted_fits_limit`,
  `rejects_slots_above_limit`, `file_backend_needs_pysqa`.  The former region D20 (a resource key
  the spawner class rejects) is closed by fix D20FIX (`check_resource_dict_keys` in the executor
  constructors and in `submit`): `accepted_keys_ok`, `rejects_unknown_key_exec`,
  `rejects_unknown_key_percall`.  For the environment of this sandbox (no flux, mpi available)
  nothing remains: `no_region_sandbox`, `accepted_always_runs_sandbox` (every accepted
  configuration is `Runnable`); `accepted_runs_sandbox` is the older form with a key hypothesis,
  kept as a corollary.
  `accepted_config_runs_call` composes the table with the progress theorems of the transition
  system `Sys` (C02/C05): for a runnable plan the trivial call is executed and shutdown returns.
  `accepted_config_runs_any_program` is the stronger composition: the same executor configuration
  with ANY program and user script (`runnable_wfLim`: `Runnable` gives the limit-level hypothesis
  `Sys.WfLim` of the `_lim` progress theorems, which ask nothing of the program's calls).

  Fix 55646a2 (`check_cores_and_threads`): non-positive cores / threads are refused by the
  constructor and by `submit` — `rejects_nonpositive_cores`, `rejects_nonpositive_threads_percall`,
  `accepted_positive`, `zero_cores_rejected`.  In plot mode nothing is executed, but a block
  allocation starts its worker threads with the executor-level dictionary: `accepted_runs` covers
  that case (`keysAccepted_exec`: the per-call key condition implies the executor-level one;
  `accepted_keys_ok` states the condition for the dictionary the workers are started with).

  Fix 8703212 (executor-level `threads_per_core` counted): `Config.slots` / `Sys.slotsOf` use the
  effective threads per core — the per-call value, else the executor-level one (`toCfg` sets
  `execThreads`, `orElse_getD`) — `accepted_threads_counted`, `rejects_exec_threads_above_limit`,
  `rejects_percall_above_limit_exec_threads`, `rejects_nonpositive_threads_effective`,
  `accepted_threads_positive`.

  Two statements were corrected against the model (cell: block allocation with `max_workers` given
  and `max_cores` below the cores per worker — accepted, and it runs): `rejects_cores_above_limit`
  has the extra hypothesis `hw`, and `toCfg` does not copy the limits of `.block` plans (the block
  executor never reads them: `step_block_irrel`, `toCfgRaw_same_runs`).
-/
namespace ExecModel.C19
open ExecModel ExecModel.Config

/-- an `if c then .error e else x` that returns `.ok` took the `else` branch -/
private theorem ite_ok {α : Type} {c : Prop} [Decidable c] {e : Exc} {x : Except Exc α} {p : α}
    (h : (if c then .error e else x) = .ok p) : ¬c ∧ x = .ok p := by
  by_cases hc : c
  · rw [if_pos hc] at h; cases h
  · rw [if_neg hc] at h; exact ⟨hc, h⟩

theorem validateWorkers_pos {env : Env} {mc mw : Option Nat} {cores n : Nat} {b : Bool}
    (h : validateWorkers env mc mw cores b = .ok n) : 1 ≤ n := by
  unfold validateWorkers at h
  cases mc <;> cases mw <;> cases b <;> simp only [↓reduceIte, Bool.false_eq_true] at h <;>
    first
    | (cases h; done)
    | (obtain ⟨c, h⟩ := ite_ok h; cases h; omega)

/-- the back end `create_executor` works with: `flux_executor=` given selects the flux allocation -/
def effBackend (o : Opts) : Backend :=
  if o.fluxExec && o.backend != .fluxAlloc then Backend.fluxAlloc else o.backend

/-- the executor-level threads per core when the call names none -/
theorem orElse_getD (a b : Option Nat) : (a <|> b).getD 1 = a.getD (b.getD 1) := by
  cases a <;> rfl

/-- inversion of `createExecutor`: what an accepted option set looks like -/
structure CeInv (env : Env) (o : Opts) (p : Plan) : Prop where
  resolver : p.resolver = false
  plot : p.plot = false
  maxCores : p.maxCores = o.maxCores
  maxWorkers : p.maxWorkers = o.maxWorkers
  cores : p.cores = o.rd.cores.getD 1
  coresPos : 1 ≤ o.rd.cores.getD 1
  threadsPos : 1 ≤ o.rd.threads.getD 1
  /-- the executor-level threads per core handed to the workers (none on the local back end) are positive -/
  threadsPosPlan : 1 ≤ p.rd.threads.getD 1
  /-- the local back end does not hand `threads_per_core` on, the others hand on what they were given -/
  rdThreads : p.rd.threads = if effBackend o == .local then none else o.rd.threads
  /-- `check_resource_limits` (fix 8703212): without block allocation the executor-level request,
      cores times the threads per core handed on, fits `max_cores` -/
  limit : o.block = false → ∀ mc, o.maxCores = some mc → o.rd.cores.getD 1 * p.rd.threads.getD 1 ≤ mc
  spawner : p.spawner = .flux → env.flux = true
  /-- `check_resource_dict_keys` in the executor constructors (fix D20FIX) -/
  known : p.rd.unknown = false
  /-- the back-end specific deletions do not touch an unknown key -/
  rdUnknown : p.rd.unknown = o.rd.unknown
  /-- the local back end deletes `gpus_per_core` and the extra keyword before the spawner sees them -/
  mpiKeys : p.spawner = .mpiexec → p.rd.gpus = none ∧ p.rd.extra = .absent
  kind : (o.block = true ∧ ∃ n b, validateWorkers env o.maxCores o.maxWorkers (o.rd.cores.getD 1) b = .ok n ∧
            p.kind = .block n) ∨
         (o.block = false ∧ p.kind = .step ∧
            (∀ mc, o.maxCores = some mc → o.rd.cores.getD 1 ≤ mc) ∧
            (o.maxCores = none → ∀ mw, o.maxWorkers = some mw → 1 ≤ mw))

/-- `check_cores_and_threads` (fix 55646a2) passed: cores and threads per core are positive -/
private theorem pos_of_guard {a b : Nat} (h : ¬ (decide (a < 1) || decide (b < 1)) = true) : 1 ≤ a ∧ 1 ≤ b := by
  simp only [Bool.or_eq_true, decide_eq_true_eq, not_or] at h
  omega

private theorem inv_block {env : Env} {o : Opts} {n : Nat} {sp : Spawner} {rd : RD} {b : Bool} (hb : o.block = true)
    (hpos : 1 ≤ o.rd.cores.getD 1 ∧ 1 ≤ o.rd.threads.getD 1)
    (hv : validateWorkers env o.maxCores o.maxWorkers (o.rd.cores.getD 1) b = .ok n)
    (hsp : sp = .flux → env.flux = true)
    (hu : ¬ rd.unknown = true) (hru : rd.unknown = o.rd.unknown)
    (hmk : sp = .mpiexec → rd.gpus = none ∧ rd.extra = .absent)
    (htp : 1 ≤ rd.threads.getD 1)
    (hth : rd.threads = if effBackend o == .local then none else o.rd.threads) :
    CeInv env o
      { kind := .block n, resolver := false, plot := false, spawner := sp, maxCores := o.maxCores,
        maxWorkers := o.maxWorkers, rd := rd, cores := o.rd.cores.getD 1, fileBackendParam := false } :=
  ⟨rfl, rfl, rfl, rfl, rfl, hpos.1, hpos.2, htp, hth, (fun hb' => by rw [hb] at hb'; cases hb'),
    hsp, Bool.eq_false_iff.2 hu, hru, hmk, .inl ⟨hb, n, b, hv, rfl⟩⟩

private theorem inv_step {env : Env} {o : Opts} {sp : Spawner} {rd : RD} {t : Nat}
    (hb : ¬ o.block = true)
    (hpos : 1 ≤ o.rd.cores.getD 1 ∧ 1 ≤ o.rd.threads.getD 1)
    (c4 : ¬ (!o.block && (match o.maxCores with | some mc => decide (mc < o.rd.cores.getD 1 * t) | none => false)) = true)
    (c5 : ¬ (!o.block && o.maxCores.isNone && (match o.maxWorkers with | some mw => decide (mw < 1) | none => false)) = true)
    (hsp : sp = .flux → env.flux = true)
    (hu : ¬ rd.unknown = true) (hru : rd.unknown = o.rd.unknown)
    (hmk : sp = .mpiexec → rd.gpus = none ∧ rd.extra = .absent)
    (ht : t = rd.threads.getD 1) (htp : 1 ≤ rd.threads.getD 1)
    (hth : rd.threads = if effBackend o == .local then none else o.rd.threads) :
    CeInv env o
      { kind := .step, resolver := false, plot := false, spawner := sp, maxCores := o.maxCores,
        maxWorkers := o.maxWorkers, rd := rd, cores := o.rd.cores.getD 1, fileBackendParam := false } := by
  have hb' : o.block = false := by simpa using hb
  have hlim : ∀ mc, o.maxCores = some mc → o.rd.cores.getD 1 * rd.threads.getD 1 ≤ mc := by
    intro mc hmc
    simp [hmc, hb'] at c4
    rw [← ht]; exact c4
  refine ⟨rfl, rfl, rfl, rfl, rfl, hpos.1, hpos.2, htp, hth, fun _ => hlim,
    hsp, Bool.eq_false_iff.2 hu, hru, hmk, .inr ⟨hb', rfl, ?_, ?_⟩⟩
  · intro mc hmc
    exact Nat.le_trans (Nat.le_mul_of_pos_right _ htp) (hlim mc hmc)
  · intro hmc mw hmw
    simp [hmc, hmw, hb'] at c5
    omega

theorem createExecutor_inv {env : Env} {o : Opts} {p : Plan} (h : createExecutor env o = .ok p) : CeInv env o p := by
  unfold createExecutor at h
  replace h := ite_ok h; obtain ⟨-, h⟩ := h
  have hbk : effBackend o = (if (o.fluxExec && o.backend != Backend.fluxAlloc) = true then Backend.fluxAlloc else o.backend) := rfl
  generalize (if (o.fluxExec && o.backend != Backend.fluxAlloc) = true then Backend.fluxAlloc else o.backend) = backend at h hbk
  replace h := ite_ok h; obtain ⟨-, h⟩ := h
  replace h := ite_ok h; obtain ⟨-, h⟩ := h
  replace h := ite_ok h; obtain ⟨c3, h⟩ := h
  have hpos : 1 ≤ o.rd.cores.getD 1 ∧ 1 ≤ o.rd.threads.getD 1 := pos_of_guard c3
  replace h := ite_ok h; obtain ⟨c4, h⟩ := h
  replace h := ite_ok h; obtain ⟨c5, h⟩ := h
  cases backend <;> dsimp only at h
  case «local» =>
    replace h := ite_ok h; obtain ⟨-, h⟩ := h
    replace h := ite_ok h; obtain ⟨-, h⟩ := h
    replace h := ite_ok h; obtain ⟨-, h⟩ := h
    by_cases hb : o.block = true
    · rw [if_pos hb] at h
      split at h
      · cases h
      · rename_i n hv
        replace h := ite_ok h; obtain ⟨hu, h⟩ := h
        cases h; exact inv_block hb hpos hv (fun hx => nomatch hx) hu rfl (fun _ => ⟨rfl, rfl⟩) (Nat.le_refl 1) (by rw [hbk]; rfl)
    · rw [if_neg hb] at h
      replace h := ite_ok h; obtain ⟨hu, h⟩ := h
      cases h; exact inv_step (t := 1) hb hpos c4 c5 (fun hx => nomatch hx) hu rfl (fun _ => ⟨rfl, rfl⟩) rfl (Nat.le_refl 1) (by rw [hbk]; rfl)
  case slurmAlloc =>
    replace h := ite_ok h; obtain ⟨-, h⟩ := h
    by_cases hb : o.block = true
    · rw [if_pos hb] at h
      split at h
      · cases h
      · rename_i n hv
        replace h := ite_ok h; obtain ⟨hu, h⟩ := h
        cases h; exact inv_block hb hpos hv (fun hx => nomatch hx) hu rfl (fun hx => nomatch hx) hpos.2 (by rw [hbk]; rfl)
    · rw [if_neg hb] at h
      replace h := ite_ok h; obtain ⟨hu, h⟩ := h
      cases h; exact inv_step (t := o.rd.threads.getD 1) hb hpos c4 c5 (fun hx => nomatch hx) hu rfl (fun hx => nomatch hx) rfl hpos.2 (by rw [hbk]; rfl)
  case fluxAlloc =>
    replace h := ite_ok h; obtain ⟨-, h⟩ := h
    replace h := ite_ok h; obtain ⟨-, h⟩ := h
    by_cases hb : o.block = true
    · rw [if_pos hb] at h
      split at h
      · cases h
      · rename_i n hv
        split at h
        · rename_i hfl
          replace h := ite_ok h; obtain ⟨hu, h⟩ := h
          cases h; exact inv_block hb hpos hv (fun _ => hfl) hu rfl (fun hx => nomatch hx) hpos.2 (by rw [hbk]; rfl)
        · cases h
    · rw [if_neg hb] at h
      split at h
      · rename_i hfl
        replace h := ite_ok h; obtain ⟨hu, h⟩ := h
        cases h; exact inv_step (t := o.rd.threads.getD 1) hb hpos c4 c5 (fun _ => hfl) hu rfl (fun hx => nomatch hx) rfl hpos.2 (by rw [hbk]; rfl)
      · cases h
  all_goals cases h

/-- the executor-level plan of a block allocation has at least one worker, and a per-call executor
    limited by `max_workers` alone has at least one slot -/
theorem createExecutor_workers {env : Env} {o : Opts} {p : Plan} (h : createExecutor env o = .ok p) :
    (∀ n, p.kind = .block n → 1 ≤ n) ∧
    (p.kind = .step → p.maxCores = none → ∀ mw, p.maxWorkers = some mw → 1 ≤ mw) ∧
    p.kind ≠ .file ∧ p.resolver = false ∧ p.plot = false ∧ p.maxCores = o.maxCores ∧ p.maxWorkers = o.maxWorkers := by
  have hi := createExecutor_inv h
  refine ⟨?_, ?_, ?_, hi.resolver, hi.plot, hi.maxCores, hi.maxWorkers⟩
  · intro n hn
    rcases hi.kind with ⟨-, m, b, hv, hk⟩ | ⟨-, hk, -⟩
    · rw [hk] at hn; cases hn; exact validateWorkers_pos hv
    · rw [hk] at hn; cases hn
  · intro hs hmc mw hmw
    rcases hi.kind with ⟨-, m, b, -, hk⟩ | ⟨-, -, -, h5⟩
    · rw [hk] at hs; cases hs
    · exact h5 (hi.maxCores ▸ hmc) mw (hi.maxWorkers ▸ hmw)
  · intro hf
    rcases hi.kind with ⟨-, m, b, -, hk⟩ | ⟨-, hk, -⟩ <;> (rw [hk] at hf; cases hf)

/-- inversion of `construct` -/
private theorem construct_inv {env : Env} {o : Opts} {p : Plan} (hc : construct env o = .ok p) :
    (p.kind = .file ∧ o.backend.isSubmission = true ∧ env.pysqa = true ∧ p.spawner = .mpiexec) ∨
    ∃ p', createExecutor env o = .ok p' ∧ p.kind = p'.kind ∧ p.maxCores = p'.maxCores ∧
      p.maxWorkers = p'.maxWorkers ∧ p.cores = p'.cores ∧ p.spawner = p'.spawner ∧ p.rd = p'.rd := by
  unfold construct at hc
  by_cases h1 : (o.backend.isSubmission && !o.plot) = true
  · rw [if_pos h1] at hc
    replace hc := ite_ok hc; obtain ⟨-, hc⟩ := hc
    replace hc := ite_ok hc; obtain ⟨-, hc⟩ := hc
    replace hc := ite_ok hc; obtain ⟨-, hc⟩ := hc
    replace hc := ite_ok hc; obtain ⟨-, hc⟩ := hc
    replace hc := ite_ok hc; obtain ⟨-, hc⟩ := hc
    replace hc := ite_ok hc; obtain ⟨-, hc⟩ := hc
    replace hc := ite_ok hc; obtain ⟨-, hc⟩ := hc
    replace hc := ite_ok hc; obtain ⟨hpy, hc⟩ := hc
    cases hc; left
    simp only [Bool.and_eq_true] at h1
    exact ⟨rfl, h1.1, by simpa using hpy, rfl⟩
  · rw [if_neg h1] at hc
    right
    by_cases h2 : (!o.noDeps) = true
    · rw [if_pos h2] at hc
      replace hc := ite_ok hc; obtain ⟨-, hc⟩ := hc
      replace hc := ite_ok hc; obtain ⟨-, hc⟩ := hc
      split at hc
      · cases hc
      · rename_i p' hce
        cases hc
        exact ⟨p', hce, rfl, rfl, rfl, rfl, rfl, rfl⟩
    · rw [if_neg h2] at hc
      replace hc := ite_ok hc; obtain ⟨-, hc⟩ := hc
      replace hc := ite_ok hc; obtain ⟨-, hc⟩ := hc
      replace hc := ite_ok hc; obtain ⟨-, hc⟩ := hc
      exact ⟨p, hc, rfl, rfl, rfl, rfl, rfl, rfl⟩

private theorem region_none_core {a u m : Bool}
    (h : (if (!a) = true then some Region.d20KeysNotAccepted
          else if (!u) = true then some Region.d23CwdMissing
          else if (!m) = true then some Region.d21NoMpi else none) = none) :
    a = true ∧ u = true ∧ m = true := by
  cases a <;> cases u <;> cases m <;> simp at h ⊢

/-- `submit` on a step executor: cores and threads must be positive (fix 55646a2) and the request is
    compared with `max_cores` in slots (`_default_cores` of fix 472d455 is the executor-level cores
    the worker thread uses; `_default_threads_per_core` of fix 8703212 the executor-level threads
    per core, used when the call names none) -/
private theorem submitCheck_step {p : Plan} {pc : RD} {fnrd : Bool} (hk : p.kind = .step)
    (hpl : (p.resolver && p.plot) = false) :
    submitCheck p pc fnrd =
      if (pc.unknown || (match p.spawner with
            | .mpiexec => pc.gpus.isSome || pc.extra != .absent
            | _ => false)) = true
      then .error .valueError
      else if ((decide ((effective p pc).cores.getD 1 < 1) || decide ((pc.threads <|> p.rd.threads).getD 1 < 1)) ||
          (match p.maxCores with | some mc => decide (mc < slots p pc) | none => false)) = true
      then .error .valueError
      else if fnrd = true then .error .valueError else .ok () := by
  unfold submitCheck slots effective
  simp only [hpl, hk, Bool.false_eq_true, if_false, Option.getD_some, orElse_getD]
  rfl

/-- **An accepted call fits `max_cores`** (fixes 06d6e8a, 472d455): whatever `submit` lets through
    on a step executor occupies at most `max_cores` slots, so the dispatcher will start it. -/
theorem accepted_fits_limit (p : Plan) (pc : RD) (fnrd : Bool) (mc : Nat) (hk : p.kind = .step)
    (hpl : (p.resolver && p.plot) = false) (hm : p.maxCores = some mc)
    (hs : submitCheck p pc fnrd = .ok ()) : slots p pc ≤ mc := by
  rw [submitCheck_step hk hpl, hm] at hs
  obtain ⟨-, hs⟩ := ite_ok hs
  obtain ⟨hbig, -⟩ := ite_ok hs
  simp only [Bool.or_eq_true, decide_eq_true_eq, not_or] at hbig
  omega

/-- **A request above `max_cores` is refused at `submit`**, in slots: per-call or executor-level
    cores times per-call or executor-level threads per core (fix 8703212). -/
theorem rejects_slots_above_limit (p : Plan) (pc : RD) (fnrd : Bool) (mc : Nat) (hk : p.kind = .step)
    (hpl : (p.resolver && p.plot) = false) (hm : p.maxCores = some mc) (hlt : mc < slots p pc) :
    submitCheck p pc fnrd = .error .valueError := by
  rw [submitCheck_step hk hpl, hm]
  simp only [hlt, decide_true, Bool.or_true, if_true, ite_self]

/-- **An accepted request fits `max_cores` counting the executor-level threads per core** (fix
    8703212): on the executor the constructor returned, whatever `submit` lets through occupies —
    cores the worker uses times the per-call `threads_per_core`, or the executor-level one when the
    call names none — at most `max_cores`.  (`accepted_fits_limit` with `slots` unfolded.) -/
theorem accepted_threads_counted (env : Env) (o : Opts) (p : Plan) (pc : RD) (fnrd : Bool) (mc : Nat)
    (hc : construct env o = .ok p) (hk : p.kind = .step) (hpl : (p.resolver && p.plot) = false)
    (hm : p.maxCores = some mc) (hs : submitCheck p pc fnrd = .ok ()) :
    ((effective p pc).cores.getD 1) * (pc.threads <|> p.rd.threads).getD 1 ≤ mc := by
  have _ := hc
  exact accepted_fits_limit p pc fnrd mc hk hpl hm hs

/-- **Accepted configurations run the call — outside the listed regions.**  If the constructor
    returns an executor and `submit` accepts the call, then either the configuration lies in one of
    the listed known-finding regions, or it is `Runnable`: a worker can be started, there is at
    least one worker, the request fits the limits, the file executor has pysqa.  (`hs` is needed for
    step executors with `max_cores`: that the slots fit comes from `submit` not raising.) -/
theorem accepted_runs (env : Env) (o : Opts) (p : Plan) (pc : RD) (fnrd : Bool)
    (hc : construct env o = .ok p) (hs : submitCheck p pc fnrd = .ok ()) (hr : regionOf env p pc = none) :
    Runnable env p pc = true := by
  unfold Runnable
  by_cases hplot : (p.resolver && p.plot) = true
  · rw [if_pos hplot]
    unfold regionOf at hr
    rw [if_pos hplot] at hr
    cases hk : p.kind with
    | file => rfl
    | step => rfl
    | block n =>
      simp only [hk] at hr ⊢
      obtain ⟨ha, hcwd, hm⟩ := region_none_core hr
      have hn : 1 ≤ n := by
        rcases construct_inv hc with ⟨hf, -⟩ | ⟨p', hce, hk', -⟩
        · rw [hk] at hf; cases hf
        · exact (createExecutor_workers hce).1 n (hk' ▸ hk)
      simp only [ha, hcwd, hm, hn, decide_true, Bool.and_self]
  · rw [if_neg hplot]
    have hplot' : (p.resolver && p.plot) = false := by simpa using hplot
    unfold regionOf at hr
    rw [if_neg hplot] at hr
    have hinv := construct_inv hc
    cases hk : p.kind with
    | file =>
      show (!p.fileBackendParam || env.pysqa) = true
      rcases hinv with ⟨-, -, hpy, -⟩ | ⟨p', hce, hk', -⟩
      · rw [hpy, Bool.or_true]
      · exact absurd (hk'.symm.trans hk) (createExecutor_workers hce).2.2.1
    | block n =>
      simp only [hk] at hr ⊢
      obtain ⟨ha, hcwd, hm⟩ := region_none_core hr
      have hn : 1 ≤ n := by
        rcases hinv with ⟨hf, -⟩ | ⟨p', hce, hk', -⟩
        · rw [hk] at hf; cases hf
        · exact (createExecutor_workers hce).1 n (hk' ▸ hk)
      simp only [ha, hcwd, hm, hn, decide_true, Bool.and_self]
    | step =>
      simp only [hk] at hr ⊢
      obtain ⟨ha, hcwd, hm⟩ := region_none_core hr
      simp only [ha, hcwd, hm, Bool.and_self, Bool.true_and]
      rcases hinv with ⟨hf, -⟩ | ⟨p', hce, hk', hmc', hmw', -⟩
      · rw [hk] at hf; cases hf
      · cases hmc : p.maxCores with
        | some mc =>
          simp only [decide_eq_true_eq]
          exact accepted_fits_limit p pc fnrd mc hk hplot' hmc hs
        | none =>
          cases hmw : p.maxWorkers with
          | none => rfl
          | some mw =>
            have := (createExecutor_workers hce).2.1 (hk' ▸ hk) (hmc' ▸ hmc) mw (hmw' ▸ hmw)
            simpa using this

/-- without flux installed no executor uses the flux spawner (`create_executor` fails with
    `NameError` in the flux branch) -/
private theorem construct_spawner {env : Env} {o : Opts} {p : Plan} (hc : construct env o = .ok p)
    (hf : env.flux = false) : p.spawner ≠ .flux := by
  intro hsp
  rcases construct_inv hc with ⟨-, -, -, hm⟩ | ⟨p', hce, -, -, -, -, hsp', -⟩
  · rw [hm] at hsp; cases hsp
  · have := (createExecutor_inv hce).spawner (hsp' ▸ hsp)
    rw [hf] at this; cases this

/-- the keys of the call's dictionary merged into the executor-level one are accepted only if the
    executor-level keys alone are: the executor-level dictionary of a block allocation (what the
    worker threads are started with, also in plot mode) is covered by the per-call condition -/
theorem keysAccepted_exec (p : Plan) (pc : RD) (h : keysAccepted p pc = true) : keysAccepted p {} = true := by
  unfold keysAccepted effective at h ⊢
  cases hsp : p.spawner <;> cases hu : p.rd.unknown <;> cases hpu : pc.unknown <;>
    simp only [hsp, hu, hpu, Bool.or_false, Bool.or_true, Bool.not_true, Bool.not_false, Bool.false_and,
      Bool.true_and, Bool.false_eq_true] at h ⊢
  all_goals first
    | rfl
    | (cases hg : p.rd.gpus <;> cases hpg : pc.gpus <;> cases he : p.rd.extra <;> cases hpe : pc.extra <;>
        simp_all)

/-! ### fix D20FIX: `check_resource_dict_keys` in the constructors and in `submit` -/

/-- what the constructor guarantees of the executor-level dictionary of an interactive executor: no
    unknown key, and with the `mpiexec` spawner neither `gpus_per_core` nor the extra keyword -/
private theorem construct_keys {env : Env} {o : Opts} {p : Plan} (hc : construct env o = .ok p)
    (hk : p.kind ≠ .file) :
    p.rd.unknown = false ∧ (p.spawner = .mpiexec → p.rd.gpus = none ∧ p.rd.extra = .absent) := by
  rcases construct_inv hc with ⟨hf, -⟩ | ⟨p', hce, -, -, -, -, hsp, hrd⟩
  · exact absurd hf hk
  · have hi := createExecutor_inv hce
    rw [hsp, hrd]
    exact ⟨hi.known, hi.mpiKeys⟩

/-- the key condition from its four ingredients -/
private theorem keysAccepted_of {p : Plan} {pc : RD} (hu : p.rd.unknown = false)
    (hmk : p.spawner = .mpiexec → p.rd.gpus = none ∧ p.rd.extra = .absent)
    (hpu : pc.unknown = false)
    (hpk : p.spawner = .mpiexec → pc.gpus = none ∧ pc.extra = .absent) : keysAccepted p pc = true := by
  unfold keysAccepted effective
  cases hsp : p.spawner with
  | mpiexec =>
    obtain ⟨h1, h2⟩ := hmk hsp
    obtain ⟨h3, h4⟩ := hpk hsp
    simp [hu, hpu, h1, h2, h3, h4]
  | srun => simp [hu, hpu]
  | flux => simp [hu, hpu]

/-- `submit` on a block allocation takes an empty per-call dictionary only -/
private theorem submitCheck_block_empty {p : Plan} {pc : RD} {fnrd : Bool} {n : Nat} (hk : p.kind = .block n)
    (hpl : (p.resolver && p.plot) = false) (hs : submitCheck p pc fnrd = .ok ()) : pc.isEmpty = true := by
  unfold submitCheck at hs
  simp only [hpl, hk, Bool.false_eq_true, if_false] at hs
  obtain ⟨he, -⟩ := ite_ok hs
  simpa using he

/-- **Every accepted interactive configuration passes keys the spawner class takes** (fix D20FIX;
    closes the former region D20): the dictionary the worker is started with — the executor-level
    one in plot mode, the merged one otherwise — has no unknown key and, with the `mpiexec`
    spawner, neither `gpus_per_core` nor the extra keyword. -/
theorem accepted_keys_ok (env : Env) (o : Opts) (p : Plan) (pc : RD) (fnrd : Bool)
    (hc : construct env o = .ok p) (hs : submitCheck p pc fnrd = .ok ()) (hk : p.kind ≠ .file) :
    (if p.resolver && p.plot then keysAccepted p {} else keysAccepted p pc) = true := by
  obtain ⟨hu, hmk⟩ := construct_keys hc hk
  by_cases hplot : (p.resolver && p.plot) = true
  · rw [if_pos hplot]
    exact keysAccepted_of hu hmk rfl (fun _ => ⟨rfl, rfl⟩)
  · rw [if_neg hplot]
    have hplot' : (p.resolver && p.plot) = false := by simpa using hplot
    cases hkind : p.kind with
    | file => exact absurd hkind hk
    | block n =>
      have he := submitCheck_block_empty hkind hplot' hs
      simp only [RD.isEmpty, Bool.and_eq_true, Option.isNone_iff_eq_none, beq_iff_eq, Bool.not_eq_true'] at he
      obtain ⟨⟨⟨⟨⟨⟨-, -⟩, hg⟩, -⟩, -⟩, hx⟩, hpu⟩ := he
      exact keysAccepted_of hu hmk hpu (fun _ => ⟨hg, hx⟩)
    | step =>
      rw [submitCheck_step hkind hplot'] at hs
      obtain ⟨hbk, -⟩ := ite_ok hs
      simp only [Bool.or_eq_true, not_or] at hbk
      obtain ⟨hpu, hm⟩ := hbk
      refine keysAccepted_of hu hmk (by simpa using hpu) ?_
      intro hsp
      rw [hsp] at hm
      simpa using hm

/-- **In this sandbox (no flux, mpi available) no accepted configuration lies in a region**: the
    keys are accepted (`accepted_keys_ok`), the subprocess spawners create the working directory,
    and MPI is there. -/
theorem no_region_sandbox (env : Env) (o : Opts) (p : Plan) (pc : RD) (fnrd : Bool)
    (hf : env.flux = false) (hm : env.mpi = true)
    (hc : construct env o = .ok p) (hs : submitCheck p pc fnrd = .ok ()) :
    regionOf env p pc = none := by
  have hsp := construct_spawner hc hf
  have hcwd : ∀ pc', cwdUsable p pc' = true := by
    intro pc'
    unfold cwdUsable
    rw [Bool.or_eq_true]
    right
    simpa using hsp
  unfold regionOf
  cases hkind : p.kind with
  | file =>
    simp only
    split <;> rfl
  | block n =>
    have hk := accepted_keys_ok env o p pc fnrd hc hs (by rw [hkind]; exact fun hx => nomatch hx)
    by_cases hplot : (p.resolver && p.plot) = true
    · rw [if_pos hplot] at hk
      simp only [hplot, hk, hcwd, hm, Bool.or_true, Bool.not_true, Bool.false_eq_true, if_false, if_true]
    · rw [if_neg hplot] at hk
      simp only [hplot, hk, hcwd, hm, Bool.or_true, Bool.not_true, Bool.false_eq_true, if_false]
  | step =>
    have hk := accepted_keys_ok env o p pc fnrd hc hs (by rw [hkind]; exact fun hx => nomatch hx)
    by_cases hplot : (p.resolver && p.plot) = true
    · simp only [hplot, if_true]
    · rw [if_neg hplot] at hk
      simp only [hplot, hk, hcwd, hm, Bool.or_true, Bool.not_true, Bool.false_eq_true, if_false]

/-- **In this sandbox (no flux, mpi available) EVERY accepted configuration runs the call**: no
    hypothesis on the keys any more (fix D20FIX); a file plan has pysqa by `construct`. -/
theorem accepted_always_runs_sandbox (env : Env) (o : Opts) (p : Plan) (pc : RD) (fnrd : Bool)
    (hf : env.flux = false) (hm : env.mpi = true)
    (hc : construct env o = .ok p) (hs : submitCheck p pc fnrd = .ok ()) :
    Runnable env p pc = true :=
  accepted_runs env o p pc fnrd hc hs (no_region_sandbox env o p pc fnrd hf hm hc hs)

/-- the former sandbox statement (with the key hypothesis, needed while region D20 was open): now a
    corollary of `accepted_always_runs_sandbox`, the hypothesis `hk` is not used -/
theorem accepted_runs_sandbox (env : Env) (o : Opts) (p : Plan) (pc : RD) (fnrd : Bool)
    (hf : env.flux = false) (hm : env.mpi = true)
    (hc : construct env o = .ok p) (hs : submitCheck p pc fnrd = .ok ()) (hk : keysAccepted p pc = true) :
    Runnable env p pc = true := by
  have _ := hk
  exact accepted_always_runs_sandbox env o p pc fnrd hf hm hc hs

/-- **An unknown executor-level resource key is refused by the constructor** (fix D20FIX), for
    every executor built by `create_executor` -/
theorem rejects_unknown_key_exec (env : Env) (o : Opts) (hb : o.backend.isSubmission = false)
    (hu : o.rd.unknown = true) : ∃ e, construct env o = .error e := by
  cases hres : construct env o with
  | error e => exact ⟨e, rfl⟩
  | ok p =>
    exfalso
    rcases construct_inv hres with ⟨-, hs, -⟩ | ⟨p', hce, -⟩
    · rw [hb] at hs; cases hs
    · have hi := createExecutor_inv hce
      have hrd' := hi.rdUnknown
      rw [hu, hi.known] at hrd'
      cases hrd'

/-- **An unknown per-call resource key is refused at `submit`** (fix D20FIX) -/
theorem rejects_unknown_key_percall (p : Plan) (pc : RD) (fnrd : Bool) (hk : p.kind = .step)
    (hpl : (p.resolver && p.plot) = false) (hu : pc.unknown = true) :
    submitCheck p pc fnrd = .error .valueError := by
  rw [submitCheck_step hk hpl, hu]
  simp only [Bool.true_or, if_true]

/-- **The file executor is refused without pysqa** (fix 4a90a71): every submission back end
    (without `plot_dependency_graph`) raises in the constructor. -/
theorem file_backend_needs_pysqa (env : Env) (o : Opts) (hb : o.backend.isSubmission = true)
    (hp : o.plot = false) (hn : env.pysqa = false) : ∃ e, construct env o = .error e := by
  cases hres : construct env o with
  | error e => exact ⟨e, rfl⟩
  | ok p =>
    exfalso
    have h1 : (o.backend.isSubmission && !o.plot) = true := by rw [hb, hp]; rfl
    unfold construct at hres
    rw [if_pos h1] at hres
    replace hres := ite_ok hres; obtain ⟨-, hres⟩ := hres
    replace hres := ite_ok hres; obtain ⟨-, hres⟩ := hres
    replace hres := ite_ok hres; obtain ⟨-, hres⟩ := hres
    replace hres := ite_ok hres; obtain ⟨-, hres⟩ := hres
    replace hres := ite_ok hres; obtain ⟨-, hres⟩ := hres
    replace hres := ite_ok hres; obtain ⟨-, hres⟩ := hres
    replace hres := ite_ok hres; obtain ⟨-, hres⟩ := hres
    replace hres := ite_ok hres; obtain ⟨hpy, -⟩ := hres
    rw [hn] at hpy
    exact hpy rfl

private theorem construct_local {env : Env} {o : Opts} {p : Plan} (hb : o.backend = .local)
    (hc : construct env o = .ok p) : ∃ p', createExecutor env o = .ok p' := by
  rcases construct_inv hc with ⟨-, hs, -⟩ | ⟨p', h, -⟩
  · rw [hb] at hs; cases hs
  · exact ⟨p', h⟩

/-- **Zero workers are refused up front** (fix 812ce71). -/
theorem rejects_zero_workers (env : Env) (o : Opts) (h0 : o.maxWorkers = some 0) (hc : o.maxCores = none)
    (hb : o.backend = .local) (hp : o.plot = false) : ∃ e, construct env o = .error e := by
  have _ := hp
  cases hres : construct env o with
  | error e => exact ⟨e, rfl⟩
  | ok p =>
    exfalso
    obtain ⟨p', hce⟩ := construct_local hb hres
    rcases (createExecutor_inv hce).kind with ⟨-, n, b, hv, -⟩ | ⟨-, -, -, h5⟩
    · have := validateWorkers_pos hv
      rw [h0, hc] at hv
      cases b <;> simp [validateWorkers] at hv
    · have := h5 hc 0 h0
      omega

/-- **More cores per call than the executor owns are refused up front** (fix 812ce71).
    CORRECTED STATEMENT: hypothesis `hw` added.  Without it the statement is false for the model:
    `check_resource_limits` is only applied to executors without block allocation, and
    `validate_number_of_cores` returns `max_workers` when it is given, without looking at
    `max_cores` — see `cores_above_limit_accepted_with_block_and_max_workers` below. -/
theorem rejects_cores_above_limit (env : Env) (o : Opts) (mc : Nat) (hm : o.maxCores = some mc)
    (hlt : mc < o.rd.cores.getD 1) (hb : o.backend = .local) (hp : o.plot = false)
    (hw : o.block = false ∨ o.maxWorkers = none) :
    ∃ e, construct env o = .error e := by
  have _ := hp
  cases hres : construct env o with
  | error e => exact ⟨e, rfl⟩
  | ok p =>
    exfalso
    obtain ⟨p', hce⟩ := construct_local hb hres
    rcases (createExecutor_inv hce).kind with ⟨hblk, n, b, hv, -⟩ | ⟨-, -, h4, -⟩
    · rcases hw with hw | hw
      · rw [hw] at hblk; cases hblk
      · have hn := validateWorkers_pos hv
        rw [hm, hw] at hv
        have h0 : mc / o.rd.cores.getD 1 = 0 := Nat.div_eq_of_lt hlt
        simp [validateWorkers, h0] at hv
    · have := h4 mc hm
      omega

/-- the counterexample to `rejects_cores_above_limit` without `hw`: block allocation, `max_workers`
    given, `max_cores = 1` below the 2 cores per worker — accepted, with 3 workers -/
theorem cores_above_limit_accepted_with_block_and_max_workers :
    ∃ p, construct {} { block := true, maxCores := some 1, maxWorkers := some 3, rd := { cores := some 2 } } = .ok p ∧
      p.kind = .block 3 ∧ p.maxCores = some 1 ∧ p.cores = 2 :=
  ⟨_, rfl, rfl, rfl, rfl⟩

/-- **An executor-level request above `max_cores`, counting the threads per core, is refused up
    front** (fix 8703212) on the back ends that hand `threads_per_core` on to the workers (all but
    the local one), without block allocation. -/
theorem rejects_exec_threads_above_limit (env : Env) (o : Opts) (mc : Nat) (hm : o.maxCores = some mc)
    (hlt : mc < o.rd.cores.getD 1 * o.rd.threads.getD 1) (hb : o.backend.isSubmission = false)
    (hl : effBackend o ≠ .local) (hblk : o.block = false) :
    ∃ e, construct env o = .error e := by
  cases hres : construct env o with
  | error e => exact ⟨e, rfl⟩
  | ok p =>
    exfalso
    rcases construct_inv hres with ⟨-, hs, -⟩ | ⟨p', hce, -⟩
    · rw [hb] at hs; cases hs
    · have hi := createExecutor_inv hce
      have hlim := hi.limit hblk mc hm
      have hth : p'.rd.threads = o.rd.threads := by
        rw [hi.rdThreads, if_neg (by simpa using hl)]
      rw [hth] at hlim
      exact Nat.lt_irrefl _ (Nat.lt_of_lt_of_le hlt hlim)

/-- **The executor-level threads per core of an accepted interactive executor are positive** (fix
    55646a2), also after the deletion on the local back end -/
theorem accepted_threads_positive (env : Env) (o : Opts) (p : Plan) (hb : o.backend.isSubmission = false)
    (hc : construct env o = .ok p) : 1 ≤ p.rd.threads.getD 1 := by
  rcases construct_inv hc with ⟨-, hs, -⟩ | ⟨p', hce, -, -, -, -, -, hrd⟩
  · rw [hb] at hs; cases hs
  · rw [hrd]; exact (createExecutor_inv hce).threadsPosPlan

/-- the cores the worker thread uses are at least the per-call cores, for an executor with at least
    one core per worker -/
private theorem percall_cores_le_effective (p : Plan) (pc : RD) (hc1 : 1 ≤ p.cores) :
    pc.cores.getD 1 ≤ (effective p pc).cores.getD 1 := by
  simp only [effective, Option.getD_some]
  cases pc.cores with
  | none => exact hc1
  | some k =>
    simp only [Option.getD_some]
    split
    · rename_i h; omega
    · exact Nat.le_refl k

/-- **A per-call request above `max_cores` is refused at `submit`, counting the executor-level
    threads per core** (fix 8703212): the per-call cores times the EFFECTIVE threads per core — the
    per-call value, else the executor-level one — above `max_cores` is refused.  (Same side
    condition `hc1` as `rejects_percall_above_limit`.) -/
theorem rejects_percall_above_limit_exec_threads (p : Plan) (pc : RD) (fnrd : Bool) (mc : Nat) (hk : p.kind = .step)
    (hm : p.maxCores = some mc) (hlt : mc < pc.cores.getD 1 * (pc.threads <|> p.rd.threads).getD 1)
    (hpl : p.plot = false) (hc1 : 1 ≤ p.cores) :
    submitCheck p pc fnrd = .error .valueError := by
  apply rejects_slots_above_limit p pc fnrd mc hk (by rw [hpl, Bool.and_false]) hm
  exact Nat.lt_of_lt_of_le hlt (Nat.mul_le_mul_right _ (percall_cores_le_effective p pc hc1))

/-- **A per-call request above `max_cores` is refused at `submit`** (fix 06d6e8a), with and without
    the dependency resolver.
    Hypothesis `hc1`: since fix 472d455 `submit` compares the cores the worker thread will use, which
    are the executor-level cores when the call gives none (or 1).  A bare `Plan` need not come from
    the constructor; for one that does, `hc1` holds (`accepted_positive`, fix 55646a2 — the formerly
    accepted cell with executor-level `cores = 0` is refused now: `zero_cores_rejected`).  The
    statement in slots, without side condition, is `rejects_slots_above_limit`.
    Still true as stated after fix 8703212 (per-call threads only): when the call names no threads
    the executor-level threads per core take the place of the 1 — they are at least 1, or the call
    is refused by `check_cores_and_threads`; the statement with the effective threads is
    `rejects_percall_above_limit_exec_threads`. -/
theorem rejects_percall_above_limit (p : Plan) (pc : RD) (fnrd : Bool) (mc : Nat) (hk : p.kind = .step)
    (hm : p.maxCores = some mc) (hlt : mc < pc.cores.getD 1 * pc.threads.getD 1) (hpl : p.plot = false)
    (hc1 : 1 ≤ p.cores) :
    submitCheck p pc fnrd = .error .valueError := by
  have hpl' : (p.resolver && p.plot) = false := by rw [hpl, Bool.and_false]
  by_cases ht : (pc.threads <|> p.rd.threads).getD 1 < 1
  · -- executor-level threads per core below 1 (a bare `Plan`): refused by `check_cores_and_threads`
    rw [submitCheck_step hk hpl']
    simp only [ht, decide_true, Bool.or_true, Bool.true_or, if_true, ite_self]
  · apply rejects_percall_above_limit_exec_threads p pc fnrd mc hk hm ?_ hpl hc1
    refine Nat.lt_of_lt_of_le hlt (Nat.mul_le_mul_left _ ?_)
    rw [orElse_getD] at ht ⊢
    cases hth : pc.threads with
    | none => rw [hth] at ht; simp only [Option.getD_none] at ht ⊢; omega
    | some t => exact Nat.le_refl _

/-- the former counterexample to `rejects_percall_above_limit` without `hc1` (executor-level
    `cores = 0`, `max_cores = 0`) is refused by the constructor (fix 55646a2) -/
theorem zero_cores_rejected :
    construct {} { maxCores := some 0, rd := { cores := some 0 } } = .error .valueError := rfl

/-- **Non-positive executor-level cores are refused up front** (fix 55646a2), for every executor
    built by `create_executor` -/
theorem rejects_nonpositive_cores (env : Env) (o : Opts) (hb : o.backend.isSubmission = false)
    (h0 : o.rd.cores = some 0) : ∃ e, construct env o = .error e := by
  cases hres : construct env o with
  | error e => exact ⟨e, rfl⟩
  | ok p =>
    exfalso
    rcases construct_inv hres with ⟨-, hs, -⟩ | ⟨p', hce, -⟩
    · rw [hb] at hs; cases hs
    · have := (createExecutor_inv hce).coresPos
      rw [h0] at this
      exact absurd this (by decide)

/-- **Non-positive effective threads per core are refused at `submit`** (fixes 55646a2, 8703212): the
    per-call value, else the executor-level one -/
theorem rejects_nonpositive_threads_effective (p : Plan) (pc : RD) (fnrd : Bool) (hk : p.kind = .step)
    (hpl : (p.resolver && p.plot) = false) (h0 : (pc.threads <|> p.rd.threads).getD 1 = 0) :
    submitCheck p pc fnrd = .error .valueError := by
  rw [submitCheck_step hk hpl, h0]
  simp only [Nat.lt_add_one, decide_true, Bool.or_true, Bool.true_or, if_true, ite_self]

/-- **Non-positive per-call threads are refused at `submit`** (fix 55646a2) -/
theorem rejects_nonpositive_threads_percall (p : Plan) (pc : RD) (fnrd : Bool) (hk : p.kind = .step)
    (hpl : (p.resolver && p.plot) = false) (h0 : pc.threads = some 0) :
    ∃ e, submitCheck p pc fnrd = .error e :=
  ⟨.valueError, rejects_nonpositive_threads_effective p pc fnrd hk hpl (by rw [h0]; rfl)⟩

/-- **An executor built by `create_executor` has at least one core per worker** (fix 55646a2) -/
theorem accepted_positive (env : Env) (o : Opts) (p : Plan) (hb : o.backend.isSubmission = false)
    (hc : construct env o = .ok p) : 1 ≤ p.cores := by
  rcases construct_inv hc with ⟨-, hs, -⟩ | ⟨p', hce, -, -, -, hcores, -⟩
  · rw [hb] at hs; cases hs
  · have hi := createExecutor_inv hce
    rw [hcores, hi.cores]
    exact hi.coresPos

/-! ### composition with the transition system: a runnable plan runs the trivial call -/

open ExecModel.Sys in
/-- the `Sys` configuration of a plan (interactive executors) with one call carrying `pc`.
    A block allocation does not look at `max_cores` / `max_workers` once the number of workers is
    fixed (`InteractiveExecutor` has no `_wait_for_free_slots`), so the limits are not carried
    over for `.block` plans; `toCfgRaw` / `toCfgRaw_same_runs` below show that carrying them over
    does not change a single run. -/
def toCfg (p : Plan) (pc : RD) : Sys.Cfg :=
  { resolver := p.resolver
    block := match p.kind with
      | .block n => some n
      | _ => none
    maxCores := match p.kind with
      | .block _ => none
      | _ => p.maxCores
    maxWorkers := match p.kind with
      | .block _ => none
      | _ => p.maxWorkers
    execCores := p.cores
    execThreads := p.rd.threads.getD 1
    calls := [{ deps := [], cores := pc.cores, threads := pc.threads, hasRes := !pc.isEmpty }] }

/-- `Config.slots` and `Sys.slotsOf` are the same arithmetic expression (the executor-level threads
    per core of the plan are `execThreads`: fix 8703212) -/
private theorem slotsOf_toCfg (p : Plan) (pc : RD) (c : Sys.CallSpec) (hc : c ∈ (toCfg p pc).calls) :
    Sys.slotsOf (toCfg p pc) c = slots p pc := by
  simp only [toCfg, List.mem_singleton] at hc
  subst hc
  simp only [Sys.slotsOf, slots, effective, toCfg, Option.getD_some, orElse_getD]
  rfl

open ExecModel.Sys in
theorem runnable_wfRes (env : Env) (p : Plan) (pc : RD) (hk : p.kind ≠ .file) (hpl : (p.resolver && p.plot) = false)
    (hr : Runnable env p pc = true) : WfRes (toCfg p pc) := by
  unfold Runnable at hr
  simp only [hpl, Bool.false_eq_true, if_false] at hr
  constructor
  · intro c hc
    rw [slotsOf_toCfg p pc c hc]
    cases hkind : p.kind with
    | file => exact absurd hkind hk
    | block n => simp only [fits, toCfg, hkind]
    | step =>
      simp only [hkind, Bool.and_eq_true] at hr
      obtain ⟨-, hlim⟩ := hr
      simp only [fits, toCfg, hkind, activeSum, List.map_nil, List.sum_nil, Nat.zero_add, List.length_nil]
      exact hlim
  · intro n hn
    cases hkind : p.kind with
    | file => exact absurd hkind hk
    | step => simp [toCfg, hkind] at hn
    | block m =>
      simp only [toCfg, hkind, Option.some.injEq] at hn
      subst hn
      simp only [hkind, Bool.and_eq_true, decide_eq_true_eq] at hr
      exact hr.1.1.1

open ExecModel.Sys in
/-- the conclusion for any one-call configuration without dependencies that satisfies `WfRes` -/
private theorem runs_of_wfRes {Val Err : Type} (cfg : Cfg) (c : CallSpec) (hcalls : cfg.calls = [c]) (hdeps : c.deps = [])
    (hres : WfRes cfg)
    (eval : Nat → List Val → Except Err Val) (cancelErr : Err) (hnf : NoFail eval)
    {s : State Val Err}
    (h : Reachable cfg eval cancelErr [.submit, .shutdown true false] s)
    (hst : Stuck cfg eval cancelErr s) :
    allAcceptedDone s = true ∧ mainFinished s = true := by
  have hdep : ∀ i, depsOf cfg i = [] := by
    intro i
    simp only [depsOf, hcalls]
    cases i with
    | zero => simpa using hdeps
    | succ i => simp
  have hwf : WfCfg cfg := by
    constructor
    · intro i j hj
      rw [hdep i] at hj
      cases hj
    · intro _ i
      exact hdep i
  have hsc : (([.submit, .shutdown true false] : List Cmd).filter isSubmit).length ≤ cfg.calls.length := by
    rw [hcalls]; exact Nat.le_refl 1
  have hD : pg_depOk cfg s = true := by
    simp only [pg_depOk, List.all_eq_true, List.mem_range]
    intro i _
    split
    · rfl
    · rw [hdep i]
      rfl
  exact ⟨C02.no_lost_futures _ eval cancelErr hnf hwf hres hsc h hD hst,
         C05.shutdown_returns _ eval cancelErr hnf hwf hres hsc h hD hst⟩

open ExecModel.Sys in
/-- **An accepted, runnable configuration actually runs the submitted call and shuts down**: for
    the script `submit; shutdown(wait=True)` every run is finite, and at the end of every maximal
    run the call's future is done and the shutdown call has returned (no function raises). -/
theorem accepted_config_runs_call (env : Env) (p : Plan) (pc : RD) (hk : p.kind ≠ .file)
    (hpl : (p.resolver && p.plot) = false) (hr : Runnable env p pc = true)
    {Val Err : Type} (eval : Nat → List Val → Except Err Val) (cancelErr : Err) (hnf : NoFail eval)
    {s : State Val Err}
    (h : Reachable (toCfg p pc) eval cancelErr [.submit, .shutdown true false] s)
    (hst : Stuck (toCfg p pc) eval cancelErr s) :
    allAcceptedDone s = true ∧ mainFinished s = true :=
  runs_of_wfRes (toCfg p pc) _ rfl rfl (runnable_wfRes env p pc hk hpl hr) eval cancelErr hnf h hst

/-! ### any program: the hypothesis on the limits only

  `runnable_wfRes` talks about the one call of `toCfg p pc`.  Since `submit` refuses a call whose
  slots exceed `max_cores` (`Sys.submitTooBig`; fixes 06d6e8a, 472d455), the progress theorems need
  nothing of the program's calls, only `Sys.WfLim` — a fact about `block`, `maxCores`, `maxWorkers`
  alone — and `Runnable` gives it.  So the composition holds for ANY program run by the accepted
  configuration (`accepted_config_runs_any_program`), not only for the trivial one-call program of
  `accepted_config_runs_call`. -/

open ExecModel.Sys in
/-- **A runnable plan satisfies the limit-level hypothesis of the progress theorems**: a block
    allocation has a worker, and `max_workers` as the only limit allows one worker. -/
theorem runnable_wfLim (env : Env) (p : Plan) (pc : RD) (hk : p.kind ≠ .file) (hpl : (p.resolver && p.plot) = false)
    (hr : Runnable env p pc = true) : WfLim (toCfg p pc) := by
  unfold Runnable at hr
  simp only [hpl, Bool.false_eq_true, if_false] at hr
  constructor
  · intro n hn
    cases hkind : p.kind with
    | file => exact absurd hkind hk
    | step => simp [toCfg, hkind] at hn
    | block m =>
      simp only [toCfg, hkind, Option.some.injEq] at hn
      subst hn
      simp only [hkind, Bool.and_eq_true, decide_eq_true_eq] at hr
      exact hr.1.1.1
  · intro hmc mw hmw
    cases hkind : p.kind with
    | file => exact absurd hkind hk
    | block m => simp [toCfg, hkind] at hmw
    | step =>
      simp only [toCfg, hkind] at hmc hmw
      simp only [hkind, Bool.and_eq_true, hmc, hmw, decide_eq_true_eq] at hr
      exact hr.2

open ExecModel.Sys in
/-- `WfLim` looks at `block`, `maxCores`, `maxWorkers` only -/
theorem wfLim_with_calls {cfg : Cfg} (h : WfLim cfg) (calls : List CallSpec) :
    WfLim { cfg with calls := calls } := h

open ExecModel.Sys in
/-- **An accepted, runnable configuration runs ANY program**: take the executor configuration of a
    runnable non-file, non-plot plan (`toCfg p pc`: resolver, block allocation, `max_cores`,
    `max_workers`, cores per worker) and replace its one trivial call by an arbitrary list `calls`
    of calls — any per-call cores / threads / resource dictionaries, any dependencies on earlier
    calls (`WfCfg`) — and let the user run any script (submit / cancel / await / shutdown in any
    order) with at most `calls.length` submits.  If no function raises, then at the end of every
    maximal run in which accepted calls depend on accepted calls only (`pg_depOk`; a rejected
    `submit` returns no future to pass on) every accepted future is done and the user thread has
    executed its whole script — every shutdown returned.  Calls the executor cannot hold (slots
    above `max_cores`, a resource dictionary with a block allocation) are rejected by `submit`
    (label `mSubmitRaise`) and are not "accepted". -/
theorem accepted_config_runs_any_program (env : Env) (p : Plan) (pc : RD) (hk : p.kind ≠ .file)
    (hpl : (p.resolver && p.plot) = false) (hr : Runnable env p pc = true)
    (calls : List CallSpec) (hwf : WfCfg { toCfg p pc with calls := calls })
    {Val Err : Type} (eval : Nat → List Val → Except Err Val) (cancelErr : Err) (hnf : NoFail eval)
    (script : List Cmd) (hsc : (script.filter isSubmit).length ≤ calls.length)
    {s : State Val Err}
    (h : Reachable { toCfg p pc with calls := calls } eval cancelErr script s)
    (hD : pg_depOk { toCfg p pc with calls := calls } s = true)
    (hst : Stuck { toCfg p pc with calls := calls } eval cancelErr s) :
    allAcceptedDone s = true ∧ mainFinished s = true := by
  have hl : WfLim { toCfg p pc with calls := calls } :=
    wfLim_with_calls (runnable_wfLim env p pc hk hpl hr) calls
  exact ⟨C02.no_lost_futures_lim _ eval cancelErr hnf hwf hl hsc h hD hst,
         C05.shutdown_returns_lim _ eval cancelErr hnf hwf hl hsc h hD hst⟩

open ExecModel.Sys in
/-- the same for any `Sys` configuration that agrees with the plan's in the executor-level fields
    (`hres`, `hec` are kept from the former statement and not used; no agreement on `execThreads` is
    needed: the limit-level hypothesis `WfLim` does not mention slots) -/
theorem accepted_config_runs_any_program_cfg (env : Env) (p : Plan) (pc : RD) (hk : p.kind ≠ .file)
    (hpl : (p.resolver && p.plot) = false) (hr : Runnable env p pc = true)
    (cfg : Cfg) (hres : cfg.resolver = (toCfg p pc).resolver) (hblk : cfg.block = (toCfg p pc).block)
    (hmc : cfg.maxCores = (toCfg p pc).maxCores) (hmw : cfg.maxWorkers = (toCfg p pc).maxWorkers)
    (hec : cfg.execCores = (toCfg p pc).execCores) (hwf : WfCfg cfg)
    {Val Err : Type} (eval : Nat → List Val → Except Err Val) (cancelErr : Err) (hnf : NoFail eval)
    (script : List Cmd) (hsc : (script.filter isSubmit).length ≤ cfg.calls.length)
    {s : State Val Err}
    (h : Reachable cfg eval cancelErr script s) (hD : pg_depOk cfg s = true)
    (hst : Stuck cfg eval cancelErr s) :
    allAcceptedDone s = true ∧ mainFinished s = true := by
  have _ := hres
  have _ := hec
  -- `WfLim` reads `block`, `maxCores`, `maxWorkers` only: `execThreads` (and `execCores`, `resolver`)
  -- need not agree
  have hl : WfLim cfg := by
    obtain ⟨h1, h2⟩ := runnable_wfLim env p pc hk hpl hr
    refine ⟨fun n hn => h1 n (hblk ▸ hn), fun hc mw hw => h2 (hmc ▸ hc) mw (hmw ▸ hw)⟩
  exact ⟨C02.no_lost_futures_lim _ eval cancelErr hnf hwf hl hsc h hD hst,
         C05.shutdown_returns_lim _ eval cancelErr hnf hwf hl hsc h hD hst⟩

/-! ### carrying the limits over for block plans changes nothing

  `toCfgRaw` copies `max_cores` / `max_workers` into the `Sys` configuration also for `.block`
  plans.  `Sys.WfRes (toCfgRaw p pc)` is then NOT implied by `Runnable` (`Sys.fits` does not look at
  `cfg.block`; see the example below), but the transition function of a block allocation never
  reads the limits, so the runs — and the theorem — are the same. -/

/-- the `Sys` configuration with the limits copied unconditionally -/
def toCfgRaw (p : Plan) (pc : RD) : Sys.Cfg :=
  { toCfg p pc with maxCores := p.maxCores, maxWorkers := p.maxWorkers }

/-- `toCfg` / `toCfgRaw` of a `.block n` plan, with the limits as parameters -/
private def blockCfg (p : Plan) (pc : RD) (n : Nat) (a b : Option Nat) : Sys.Cfg :=
  { resolver := p.resolver
    block := some n
    maxCores := a
    maxWorkers := b
    execCores := p.cores
    execThreads := p.rd.threads.getD 1
    calls := [{ deps := [], cores := pc.cores, threads := pc.threads, hasRes := !pc.isEmpty }] }

section Transfer
open ExecModel.Sys
variable {Val Err : Type}

/-- with a block allocation the transition function never looks at `maxCores` / `maxWorkers`
    (the dispatcher thread, the only reader, does not exist) -/
theorem step_block_irrel (eval : Nat → List Val → Except Err Val) (cancelErr : Err)
    (r : Bool) (n : Nat) (a a' b b' : Option Nat) (e t : Nat) (cs : List CallSpec)
    (s : State Val Err) (hd : s.disp = none) (l : Label Val Err) :
    step { resolver := r, block := some n, maxCores := a, maxWorkers := b, execCores := e, execThreads := t, calls := cs }
      eval cancelErr s l =
    step { resolver := r, block := some n, maxCores := a', maxWorkers := b', execCores := e, execThreads := t, calls := cs }
      eval cancelErr s l := by
  unfold step
  split
  all_goals first
    | rfl
    | (simp only [dispStep, hd])

private theorem run_block_irrel (eval : Nat → List Val → Except Err Val) (cancelErr : Err)
    (r : Bool) (n : Nat) (a a' b b' : Option Nat) (e t : Nat) (cs : List CallSpec)
    {s0 s : State Val Err} (ls : List (Label Val Err)) (hB : Blk n s0)
    (h : run { resolver := r, block := some n, maxCores := a, maxWorkers := b, execCores := e, execThreads := t, calls := cs }
          eval cancelErr s0 ls = some s) :
    run { resolver := r, block := some n, maxCores := a', maxWorkers := b', execCores := e, execThreads := t, calls := cs }
          eval cancelErr s0 ls = some s := by
  induction ls generalizing s0 with
  | nil => simpa [run] using h
  | cons l ls ih =>
    simp only [run, Option.bind_eq_some_iff] at h ⊢
    obtain ⟨s1, h1, h2⟩ := h
    refine ⟨s1, ?_, ih (blk_step _ eval cancelErr hB h1) h2⟩
    rw [← h1]
    exact step_block_irrel eval cancelErr r n a' a b' b e t cs s0 hB.1 l

/-- the states reachable and the maximal runs are the same with and without the limits copied -/
theorem toCfgRaw_same_runs (p : Plan) (pc : RD) (eval : Nat → List Val → Except Err Val) (cancelErr : Err)
    (script : List Cmd) {s : State Val Err}
    (h : Reachable (toCfgRaw p pc) eval cancelErr script s) (hst : Stuck (toCfgRaw p pc) eval cancelErr s) :
    Reachable (toCfg p pc) eval cancelErr script s ∧ Stuck (toCfg p pc) eval cancelErr s := by
  cases hkind : p.kind with
  | file =>
    have : toCfgRaw p pc = toCfg p pc := by simp only [toCfgRaw, toCfg, hkind]
    rw [this] at h hst; exact ⟨h, hst⟩
  | step =>
    have : toCfgRaw p pc = toCfg p pc := by simp only [toCfgRaw, toCfg, hkind]
    rw [this] at h hst; exact ⟨h, hst⟩
  | block n =>
    have hraw : toCfgRaw p pc = blockCfg p pc n p.maxCores p.maxWorkers := by
      simp only [toCfgRaw, toCfg, blockCfg, hkind]
    have hcfg : toCfg p pc = blockCfg p pc n none none := by
      simp only [toCfg, blockCfg, hkind]
    rw [hraw] at h hst
    rw [hcfg]
    have hB : Blk n s := blk_reachable _ eval cancelErr h rfl
    constructor
    · obtain ⟨ls, hls⟩ := h
      refine ⟨ls, ?_⟩
      have hB0 : Blk n (init (blockCfg p pc n none none) script : State Val Err) := by
        simp [Blk, init, blockCfg]
      exact run_block_irrel eval cancelErr _ n _ none _ none _ _ _ ls hB0 hls
    · intro l
      rw [← hst l]
      exact step_block_irrel eval cancelErr _ n none _ none _ _ _ _ s hB.1 l

end Transfer

open ExecModel.Sys in
/-- `accepted_config_runs_call` for the configuration with the limits copied -/
theorem accepted_config_runs_call_raw (env : Env) (p : Plan) (pc : RD) (hk : p.kind ≠ .file)
    (hpl : (p.resolver && p.plot) = false) (hr : Runnable env p pc = true)
    {Val Err : Type} (eval : Nat → List Val → Except Err Val) (cancelErr : Err) (hnf : NoFail eval)
    {s : State Val Err}
    (h : Reachable (toCfgRaw p pc) eval cancelErr [.submit, .shutdown true false] s)
    (hst : Stuck (toCfgRaw p pc) eval cancelErr s) :
    allAcceptedDone s = true ∧ mainFinished s = true := by
  obtain ⟨h', hst'⟩ := toCfgRaw_same_runs p pc eval cancelErr _ h hst
  exact accepted_config_runs_call env p pc hk hpl hr eval cancelErr hnf h' hst'

/-! Non-vacuity: accepted runnable configurations, refused ones, and the cells of the former region D20 (refused now). -/
example : ∃ p, construct {} { maxCores := some 2, rd := { cores := some 2 } } = .ok p ∧
    submitCheck p { threads := some 1 } false = .ok () ∧ regionOf {} p { threads := some 1 } = none ∧
    Runnable {} p { threads := some 1 } = true := by
  refine ⟨_, rfl, rfl, ?_⟩
  decide
example : construct {} { block := true, maxWorkers := some 0 } = .error .valueError := rfl
/-- a missing working directory is created by the subprocess spawners (fix 24eb13b): accepted, runs -/
example : ∃ p, construct {} { rd := { cwd := .missing } } = .ok p ∧ submitCheck p {} false = .ok () ∧
    regionOf {} p {} = none ∧ Runnable {} p {} = true := by
  refine ⟨_, rfl, rfl, ?_⟩
  decide
/-- the former region D20 — a resource key the spawner class does not know — is refused at `submit`
    (fix D20FIX); so are `gpus_per_core` and the extra keyword with the `mpiexec` spawner -/
example : ∃ p, construct {} {} = .ok p ∧ submitCheck p { unknown := true } false = .error .valueError :=
  ⟨_, rfl, rfl⟩
example : ∃ p, construct {} {} = .ok p ∧ submitCheck p { gpus := some 1 } false = .error .valueError :=
  ⟨_, rfl, rfl⟩
example : ∃ p, construct {} {} = .ok p ∧ submitCheck p { extra := .empty } false = .error .valueError :=
  ⟨_, rfl, rfl⟩
/-- plot mode with a block allocation: nothing is executed, but the worker threads are started with
    the executor-level dictionary all the same — an unknown executor-level key (formerly in D20) is
    refused by the constructor (fix D20FIX) -/
example : construct {} { block := true, plot := true, rd := { unknown := true } } = .error .valueError := rfl
example : construct {} { rd := { unknown := true } } = .error .valueError := rfl
/-- non-positive cores / threads are refused (fix 55646a2) -/
example : construct {} { rd := { threads := some 0 } } = .error .valueError := rfl
example : ∃ p, construct {} {} = .ok p ∧ submitCheck p { cores := some 0 } false = .error .valueError :=
  ⟨_, rfl, rfl⟩
/-- the file executor without pysqa is refused (fix 4a90a71; formerly region D22) -/
example : construct {} { backend := .localSub } = .error .valueError := rfl
/-- the formerly accepted D10 cell: executor-level 2 cores, per-call 2 threads, `max_cores = 3` -/
example : ∃ p, construct {} { maxCores := some 3, rd := { cores := some 2 } } = .ok p ∧
    submitCheck p { threads := some 2 } false = .error .valueError :=
  ⟨_, rfl, rfl⟩

/-- fix 8703212: the executor-level `threads_per_core` counts against `max_cores` where it is handed
    on to the workers (here: slurm allocation) — 1 core × 2 threads fits `max_cores = 2`, and the
    call without a dictionary is accounted 2 slots and accepted; -/
example : ∃ p, construct {} { backend := .slurmAlloc, maxCores := some 2, rd := { threads := some 2 } } = .ok p ∧
    slots p {} = 2 ∧ submitCheck p {} false = .ok () :=
  ⟨_, rfl, rfl, rfl⟩
/-- with `max_cores = 1` the constructor refuses; -/
example : construct {} { backend := .slurmAlloc, maxCores := some 1, rd := { threads := some 2 } } = .error .valueError := rfl
/-- the local back end does not hand the threads on: accepted, 1 slot; -/
example : ∃ p, construct {} { maxCores := some 1, rd := { threads := some 2 } } = .ok p ∧
    slots p {} = 1 ∧ submitCheck p {} false = .ok () :=
  ⟨_, rfl, rfl, rfl⟩
/-- a call naming 2 cores and no threads on the slurm executor above: 2 × 2 slots, refused at `submit`
    (accepted before the fix, and then never started by the dispatcher) -/
example : ∃ p, construct {} { backend := .slurmAlloc, maxCores := some 2, rd := { threads := some 2 } } = .ok p ∧
    slots p { cores := some 2 } = 4 ∧ submitCheck p { cores := some 2 } false = .error .valueError ∧
    submitCheck p { cores := some 2, threads := some 1 } false = .ok () :=
  ⟨_, rfl, rfl, rfl, rfl⟩

/-- the cell behind the two corrections (`rejects_cores_above_limit` needs `hw`; `toCfg` drops the
    limits of block plans): block allocation, `max_workers = 3` given, `max_cores = 1` below the
    2 cores per worker.  The constructor accepts it (3 workers), `submit` accepts the call, it lies
    in no region and is `Runnable` — the real block executor runs it — while the recorded limits
    would not allow the call (`Sys.fits` on `toCfgRaw`: `2 ≤ 1`), so `Sys.WfRes (toCfgRaw p {})` fails. -/
example : ∃ p, construct {} { block := true, maxCores := some 1, maxWorkers := some 3, rd := { cores := some 2 } } = .ok p ∧
    p.kind = .block 3 ∧ p.maxCores = some 1 ∧ p.cores = 2 ∧
    submitCheck p {} false = .ok () ∧ regionOf {} p {} = none ∧ Runnable {} p {} = true ∧
    Sys.WfRes (toCfg p {}) ∧ ¬ Sys.WfRes (toCfgRaw p {}) := by
  refine ⟨_, rfl, rfl, rfl, rfl, rfl, by decide, by decide, ?_, ?_⟩
  · exact runnable_wfRes {} _ {} (by decide) (by decide) (by decide)
  · intro h
    exact absurd (h.1 _ (List.mem_singleton.2 rfl)) (by decide)

end ExecModel.C19
