/-!
  C11 — one pass of the resolver over its wait list (`_submit_waiting_task` in
  `executorlib/interactive/shared.py`).

  `Sys` lets the resolver forward *any* ready parked call (the position of the scan is not part of
  its state, because a call can become ready behind the scan pointer); what one pass does with a
  fixed readiness snapshot is modelled here as the loop the code runs, and the order statement the
  property needs — calls that are ready in the same pass reach the worker queue in the order they
  were submitted — is proved for every wait list and every readiness predicate.
-/
namespace ExecModel.C11Scan

variable {α : Type}

/-- One pass: every task is examined in list order; a ready one is forwarded (appended to the
    queue), the others are kept.  Returns (forwarded in queue order, remaining wait list). -/
def scanPass (ready : α → Bool) : List α → List α × List α
  | [] => ([], [])
  | t :: ts =>
    let r := scanPass ready ts
    if ready t then (t :: r.1, r.2) else (r.1, t :: r.2)

theorem scanPass_fst (ready : α → Bool) (l : List α) : (scanPass ready l).1 = l.filter ready := by
  induction l with
  | nil => rfl
  | cons t ts ih => cases h : ready t <;> simp [scanPass, h, ih]

theorem scanPass_snd (ready : α → Bool) (l : List α) :
    (scanPass ready l).2 = l.filter (fun t => !ready t) := by
  induction l with
  | nil => rfl
  | cons t ts ih => cases h : ready t <;> simp [scanPass, h, ih]

/-- **Calls that become ready in the same pass are forwarded in submission order**: what the pass
    puts on the worker queue is a sublist of the wait list — relative order kept, nothing twice,
    nothing invented. -/
theorem forwarded_in_submission_order (ready : α → Bool) (l : List α) :
    (scanPass ready l).1.Sublist l := by
  rw [scanPass_fst]; exact List.filter_sublist

/-- The calls that stay parked keep their order too. -/
theorem remaining_in_submission_order (ready : α → Bool) (l : List α) :
    (scanPass ready l).2.Sublist l := by
  rw [scanPass_snd]; exact List.filter_sublist

/-- With the wait list in submission order (indices increasing), the queue receives increasing
    indices: the single worker, which takes the queue in FIFO order (`single_worker_fifo`), runs
    them in submission order. -/
theorem forwarded_sorted (ready : Nat → Bool) (l : List Nat) (h : l.Pairwise (· < ·)) :
    (scanPass ready l).1.Pairwise (· < ·) :=
  h.sublist (forwarded_in_submission_order ready l)

/-- **Exactly the ready calls are forwarded, exactly the others stay**; no call is lost or
    duplicated by a pass. -/
theorem pass_partitions (ready : α → Bool) (l : List α) :
    (∀ t, t ∈ (scanPass ready l).1 ↔ t ∈ l ∧ ready t = true) ∧
    (∀ t, t ∈ (scanPass ready l).2 ↔ t ∈ l ∧ ready t = false) ∧
    (scanPass ready l).1.length + (scanPass ready l).2.length = l.length := by
  refine ⟨?_, ?_, ?_⟩
  · intro t; rw [scanPass_fst]; simp
  · intro t; rw [scanPass_snd]; simp
  · induction l with
    | nil => rfl
    | cons t ts ih => cases h : ready t <;> simp [scanPass, h] <;> omega

/-- **A pass loses and duplicates nothing** (multiset form): forwarded calls and the new wait list
    together are a permutation of the old wait list. -/
theorem pass_is_permutation (ready : α → Bool) (l : List α) :
    ((scanPass ready l).1 ++ (scanPass ready l).2).Perm l := by
  rw [scanPass_fst, scanPass_snd]
  exact List.filter_append_perm ready l

/-- Non-vacuity: five parked calls, 1, 2 and 4 ready. -/
example : scanPass (fun i => i == 1 || i == 2 || i == 4) [0, 1, 2, 3, 4] = ([1, 2, 4], [0, 3]) := by
  decide

/-- The seeded change `C11-waitlist-forwarded-in-reverse` as a model: walking the list backwards
    forwards the ready calls in reverse — not a sublist of the wait list. -/
def scanPassBackwards (ready : α → Bool) (l : List α) : List α × List α :=
  ((l.filter ready).reverse, l.filter (fun t => !ready t))

theorem backwards_pass_breaks_order :
    ¬ (scanPassBackwards (fun _ => true) [0, 1]).1.Sublist [0, 1] := by decide

end ExecModel.C11Scan
