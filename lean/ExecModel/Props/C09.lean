import ExecModel.Props.C08Cache
/-!
  C09 — Cache reuse: completed results persist and are not recomputed (interactive cache; the
  file-mode executor is covered in `Props/C13`).
-/
set_option linter.unusedVariables false
namespace ExecModel.C09
open ExecModel ExecModel.Cache ExecModel.C08

variable {Call K V : Type} [DecidableEq K]

theorem mem_publish_of_ne {d : Dir K V} {k k' : K} {v x : Option V} (h : (k, v) ∈ d) (hne : k ≠ k') :
    (k, v) ∈ publish d k' x := by
  simp only [publish, List.mem_cons, List.mem_filter]
  right; exact ⟨h, by simpa using hne⟩

/-- **executorlib never deletes or alters a completed cache entry**: a complete entry present in
    a state is present with the same content after every step of every worker (a concurrent
    identical writer replaces equal by equal). -/
theorem entry_persists_step (key : Call → K) (eval : Call → V) (hkey : ∀ c c', key c = key c' → eval c = eval c')
    {s s' : State Call K V} {l : Label} (hI : Inv key eval s) (h : step true key eval s l = some s')
    {k : K} {v : V} (hm : (k, some v) ∈ s.dir) : (k, some v) ∈ s'.dir := by
  obtain ⟨hd, hw, _⟩ := hI
  cases l <;> simp only [step] at h
  all_goals (split at h <;> try (cases h; done))
  all_goals rename_i wk hwk
  all_goals (have hwkm : wk ∈ s.wk := List.mem_of_getElem? hwk)
  · split at h <;> try (cases h; done)
    split at h <;> (cases h; exact hm)
  · split at h <;> try (cases h; done)
    cases h; exact hm
  · split at h <;> try (cases h; done)
    all_goals (simp at h)
  · split at h <;> try (cases h; done)
    all_goals (
      rename_i c v' hpc
      first
      | (simp only [if_true] at h; cases h)
      | cases h
      have hv : v' = eval c := by have := hw wk hwkm; rw [hpc] at this; exact this
      by_cases hk : k = key c
      · have := hd k (some v) hm c hk.symm
        simp only [Option.some.injEq] at this
        subst this; subst hv; subst hk
        simp [publish]
      · exact mem_publish_of_ne hm hk)
  · split at h <;> try (cases h; done)
    cases h; exact hm

/-- … along any run (any number of workers and calls), and across sessions (a session starts from
    the directory the previous one left). -/
theorem entries_monotone (key : Call → K) (eval : Call → V) (hkey : ∀ c c', key c = key c' → eval c = eval c')
    (ls : List Label) {s s' : State Call K V} (hI : Inv key eval s) (h : run true key eval s ls = some s')
    {k : K} {v : V} (hm : (k, some v) ∈ s.dir) : (k, some v) ∈ s'.dir := by
  induction ls generalizing s with
  | nil => simp [run] at h; subst h; exact hm
  | cons l ls ih =>
    simp only [run, Option.bind_eq_some_iff] at h
    obtain ⟨s1, h1, h2⟩ := h
    exact ih (inv_step key eval hkey hI h1) h2 (entry_persists_step key eval hkey hI h1 hm)

theorem lookup_of_mem (key : Call → K) (eval : Call → V) {d : Dir K V} (hd : CacheOK key eval d)
    {c : Call} {v : Option V} (hm : (key c, v) ∈ d) : lookup d (key c) = some (some (eval c)) := by
  induction d with
  | nil => simp at hm
  | cons e d ih =>
    obtain ⟨k', v'⟩ := e
    simp only [lookup]
    split
    · rename_i hk
      have := hd k' v' (by simp) c hk.symm
      rw [this]
    · rename_i hk
      have hm' : (key c, v) ∈ d := by
        simp only [List.mem_cons, Prod.mk.injEq] at hm
        rcases hm with ⟨h1, _⟩ | hm
        · exact absurd h1.symm hk
        · exact hm
      exact ih (fun k v h => hd k v (by simp [h])) hm'

/-- **Submitting the same call again returns an equal result without executing the function**: if
    the entry of call `c` is in the directory when a worker looks `c` up, that worker's step is a
    hit — the future receives the stored value `eval c`, the worker stays idle (it does not contact
    its process: no `compute` step follows for this call). -/
theorem no_reexecution (key : Call → K) (eval : Call → V) {s : State Call K V} (hI : Inv key eval s)
    {w : Nat} {wk : Worker Call V} {c : Call} {rest : List Call} {v : Option V}
    (hw : s.wk[w]? = some wk) (hpc : wk.pc = .idle) (htodo : wk.todo = c :: rest)
    (hm : (key c, v) ∈ s.dir) :
    step true key eval s (.look w) =
      some { s with wk := s.wk.set w { todo := rest, pc := .idle }, results := s.results ++ [(c, some (eval c))] } := by
  have := lookup_of_mem key eval hI.1 hm
  simp [step, hw, hpc, htodo, this]

/-! Non-vacuity: session 2 starts from the directory session 1 left and recomputes nothing. -/
example : ∃ s1 s2, run true (fun c : Nat => c) (fun c => c + 100) { dir := [], wk := [{ todo := [7, 8] }] }
      [.look 0, .compute 0, .write 0, .look 0, .compute 0, .write 0] = some s1 ∧
    run true (fun c : Nat => c) (fun c => c + 100) { dir := s1.dir, wk := [{ todo := [8] }, { todo := [7] }] }
      [.look 1, .look 0] = some s2 ∧ s2.results = [(7, some 107), (8, some 108)] ∧ s2.dir = s1.dir := by
  refine ⟨_, _, rfl, rfl, ?_⟩
  decide

end ExecModel.C09
