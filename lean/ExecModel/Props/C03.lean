import ExecModel.Args
/-!
  C03 — Dependency resolution equals sequential evaluation.  Part 1: the two traversals.
  (Part 2, over the transition system `Sys`, is in `ExecModel/Props/C03Sys.lean`.)
-/
namespace ExecModel.C03
open ExecModel ExecModel.Args

variable {V : Type}

mutual
/-- After substitution no future is left in any position the resolver looks at. -/
theorem subst_no_futures (σ : Nat → V) : ∀ a : Arg V, futuresOf (subst σ a) = []
  | .val _ => by simp [subst, futuresOf]
  | .fut _ => by simp [subst, futuresOf]
  | .list _ xs => by simp [subst, futuresOf, substL_no_futures σ xs]
  | .tuple _ _ => by simp [subst, futuresOf]
  | .dict _ _ => by simp [subst, futuresOf]
theorem substL_no_futures (σ : Nat → V) : ∀ l : List (Arg V), futuresOfL (substL σ l) = []
  | [] => by simp [substL, futuresOfL]
  | a :: as => by simp [substL, futuresOfL, subst_no_futures σ a, substL_no_futures σ as]
end

mutual
/-- **Same traversal**: the substituted tree depends on the results of exactly the futures that
    `futuresOf` lists (the futures the call waits for), in that order, and on nothing else. -/
theorem subst_determined (σ τ : Nat → V) : ∀ a : Arg V,
    (futuresOf a).map σ = (futuresOf a).map τ → subst σ a = subst τ a
  | .val _ => by simp [subst]
  | .fut j => by simp [subst, futuresOf]
  | .list _ xs => by
      intro h; simp only [subst, futuresOf] at *
      rw [substL_determined σ τ xs h]
  | .tuple _ _ => by simp [subst]
  | .dict _ _ => by simp [subst]
theorem substL_determined (σ τ : Nat → V) : ∀ l : List (Arg V),
    (futuresOfL l).map σ = (futuresOfL l).map τ → substL σ l = substL τ l
  | [] => by simp [substL]
  | a :: as => by
      intro h
      simp only [futuresOfL, List.map_append] at h
      have hl : ((futuresOf a).map σ).length = ((futuresOf a).map τ).length := by simp
      obtain ⟨h1, h2⟩ := List.append_inj h hl
      simp [substL, subst_determined σ τ a h1, substL_determined σ τ as h2]
end

mutual
/-- **Everything else unchanged**: an argument without futures (in the traversed positions) is
    passed through as it is. -/
theorem subst_id (σ : Nat → V) : ∀ a : Arg V, futuresOf a = [] → subst σ a = a
  | .val _ => by simp [subst]
  | .fut j => by simp [futuresOf]
  | .list _ xs => by
      intro h; simp only [futuresOf] at h; simp [subst, substL_id σ xs h]
  | .tuple _ _ => by simp [subst]
  | .dict _ _ => by simp [subst]
theorem substL_id (σ : Nat → V) : ∀ l : List (Arg V), futuresOfL l = [] → substL σ l = l
  | [] => by simp [substL]
  | a :: as => by
      intro h
      simp only [futuresOfL, List.append_eq_nil_iff] at h
      simp [substL, subst_id σ a h.1, substL_id σ as h.2]
end

mutual
/-- **Every container keeps its class**: substitution changes no container's Python class — an
    instance of a subclass of `list` (searched like a list), a namedtuple, an `OrderedDict`, … reaches
    the function as an instance of the same class (defect D32 for subclasses of `list`). -/
theorem subst_classes (σ : Nat → V) : ∀ a : Arg V, classes (subst σ a) = classes a
  | .val _ => by simp [subst, classes]
  | .fut _ => by simp [subst, classes]
  | .list _ xs => by simp [subst, classes, substL_classes σ xs]
  | .tuple _ _ => by simp [subst, classes]
  | .dict _ _ => by simp [subst, classes]
theorem substL_classes (σ : Nat → V) : ∀ l : List (Arg V), classesL (substL σ l) = classesL l
  | [] => by simp [substL, classesL]
  | a :: as => by simp [substL, classesL, subst_classes σ a, substL_classes σ as]
end

theorem substKw_determined (σ τ : Nat → V) : ∀ l : List (String × Arg V),
    (futuresOfL (l.map (·.2))).map σ = (futuresOfL (l.map (·.2))).map τ → substKw σ l = substKw τ l
  | [] => by simp [substKw]
  | (k, a) :: r => by
      intro h
      simp only [List.map_cons, futuresOfL, List.map_append] at h
      have hl : ((futuresOf a).map σ).length = ((futuresOf a).map τ).length := by simp
      obtain ⟨h1, h2⟩ := List.append_inj h hl
      simp [substKw, subst_determined σ τ a h1, substKw_determined σ τ r h2]

theorem substKw_no_futures (σ : Nat → V) : ∀ l : List (String × Arg V),
    futuresOfL ((substKw σ l).map (·.2)) = []
  | [] => by simp [substKw, futuresOfL]
  | (k, a) :: r => by simp [substKw, futuresOfL, subst_no_futures σ a, substKw_no_futures σ r]

theorem substKw_keys (σ : Nat → V) : ∀ l : List (String × Arg V), (substKw σ l).map (·.1) = l.map (·.1)
  | [] => by simp [substKw]
  | (k, a) :: r => by simp [substKw, substKw_keys σ r]

/-- **Call level**: what the function receives is determined by the call as submitted and the
    results of the futures the resolver waited for, in traversal order (this is the `inputs` list of
    the transition system `Sys`); no future is left; keyword names and order are kept. -/
theorem call_subst_determined (σ τ : Nat → V) (c : Call V)
    (h : c.futures.map σ = c.futures.map τ) : c.subst σ = c.subst τ := by
  unfold Call.futures at h
  simp only [List.map_append] at h
  have hl : ((futuresOfL c.args).map σ).length = ((futuresOfL c.args).map τ).length := by simp
  obtain ⟨h1, h2⟩ := List.append_inj h hl
  simp [Call.subst, substL_determined σ τ c.args h1, substKw_determined σ τ c.kwargs h2]

theorem call_subst_no_futures (σ : Nat → V) (c : Call V) : (c.subst σ).futures = [] := by
  simp [Call.subst, Call.futures, substL_no_futures, substKw_no_futures]

theorem call_subst_keys (σ : Nat → V) (c : Call V) :
    (c.subst σ).kwargs.map (·.1) = c.kwargs.map (·.1) ∧ (c.subst σ).args.length = c.args.length := by
  refine ⟨substKw_keys σ c.kwargs, ?_⟩
  simp only [Call.subst]
  induction c.args with
  | nil => simp [substL]
  | cons a as ih => simp [substL, ih]

/-- **The call is forwarded at once iff every future it contains (in a traversed position) is done.** -/
theorem ready_iff (done : Nat → Bool) (c : Call V) :
    c.ready done = true ↔ ∀ j ∈ c.futures, done j = true := by
  simp [Call.ready, List.all_eq_true]

/-- Non-vacuity: futures at top level, in a kwarg, in nested lists, and inside a tuple (ignored). -/
example :
    let c : Call Nat := { args := [.fut 0, .list "list" [.val 5, .list "TaggedList" [.fut 1]], .tuple "Point" [.fut 2]], kwargs := [("k", .fut 1)] }
    c.futures = [0, 1, 1] ∧ (c.subst (fun j => 100 + j)).futures = [] ∧ c.ready (fun j => j != 2) = true := by
  decide

end ExecModel.C03
