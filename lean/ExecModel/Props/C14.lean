import ExecModel.Proofs.FileProofs
import ExecModel.Props.C08Cache
/-!
  C14 — Crash atomicity: an interrupted run never poisons or wedges the cache.

  File mode: model `FileExec` with the labels `crashProc p` (a worker process is killed at its
  current point — between any two of its persistence operations) and `crashWrite p` (killed while
  appending the output); a crash of the submitting process is the end of the run: the next session
  starts from `restart dir`.  Interactive cache: model `Cache` (entries are published by rename;
  a writer killed before the rename leaves a temporary file that no lookup ever sees).
-/
namespace ExecModel.C14
open ExecModel ExecModel.FileExec

variable {K V : Type} [DecidableEq K]
variable (v : Variant) (ncalls : Nat) (deps : Nat → List Nat) (key : Nat → K) (eval : Nat → List V → V) (dflt : V)

/-- **A result becomes visible atomically**: at whatever instant worker processes are killed —
    every label sequence with `crashProc` / `crashWrite` anywhere — the directory never contains a
    published entry (`<key>.h5out`) holding anything but the value of the calls with that key. -/
theorem atomic_visibility (hwf : WfDeps deps) (hk : KeyOK deps key eval dflt) {s s' : State K V} (ls : List Label)
    (hI : FileInv deps key eval dflt s) (h : run v ncalls deps key eval s ls = some s') :
    DirOK deps key eval dflt s'.dir :=
  FileExec.atomic_visibility v ncalls deps key eval dflt hwf hk ls hI h

/-- **After any interruption, submitting the calls again yields the correct values**: the session
    started on the directory an interrupted run left (`restart`) satisfies the invariant, so every
    future it completes holds its own call's value, and (fixed code) its loop thread never dies —
    leftover `.h5in` / `.h5ready` files neither wedge the executor nor are mistaken for results. -/
theorem restart_correct (hwf : WfDeps deps) (hk : KeyOK deps key eval dflt)
    {s0 : State K V} (hI0 : FileInv deps key eval dflt s0) (crashed : List Label) {s1 : State K V}
    (h1 : run v ncalls deps key eval s0 crashed = some s1)
    (n2 : Nat) (ls : List Label) {s2 : State K V}
    (h2 : run ⟨true, true⟩ n2 deps key eval (init (restart s1.dir) n2) ls = some s2) :
    s2.loop ≠ .dead ∧ DirOK deps key eval dflt s2.dir ∧
      ∀ i x, futOf s2 i = .finished x → x = specVal deps eval dflt i := by
  have hI1 := fileInv_run v ncalls deps key eval dflt hwf hk crashed hI0 h1
  have hI2 : FileInv deps key eval dflt (init (restart s1.dir) n2 : State K V) :=
    fileInv_init n2 deps key eval dflt (restart s1.dir) (dirOK_restart deps key eval dflt s1.dir hI1.dir)
      (ready_restart deps key eval dflt s1.dir hI1.ready)
  refine ⟨FileExec.loop_never_dies n2 deps key eval ls (by simp [init]) h2, ?_, ?_⟩
  · exact FileExec.atomic_visibility ⟨true, true⟩ n2 deps key eval dflt hwf hk ls hI2 h2
  · intro i x hf
    exact FileExec.file_values ⟨true, true⟩ n2 deps key eval dflt hwf hk ls hI2 h2 i x hf

/-- **Defect D15 (as found)**: a leftover `<key>.h5in` of an interrupted run wedges the executor. -/
theorem C14_fails_without_staleInputRemoved :
    ∃ s, run (K := Nat) (V := Nat) ⟨true, false⟩ 1 (fun _ => []) id (fun _ _ => 5)
      (init (restart [(0, { inp := true })]) 1) [.submit, .take, .lookup, .writeInput] = some s ∧ s.loop = .dead := by
  refine ⟨_, rfl, ?_⟩
  decide

/-- interactive cache: a writer killed before its rename leaves the directory untouched (its
    temporary file has a unique name that no lookup reads), so `CacheOK` holds at every crash
    point; this is `C08.cache_sound` for the run prefix up to the crash. -/
theorem interactive_cache_crash_safe {Call K V : Type} [DecidableEq K] (key : Call → K) (eval : Call → V)
    (hkey : ∀ c c', key c = key c' → eval c = eval c') (d : Cache.Dir K V) (hd : C08.CacheOK key eval d)
    (todos : List (List Call)) (prefixBeforeCrash : List Cache.Label) {s : Cache.State Call K V}
    (h : Cache.run true key eval { dir := d, wk := todos.map (fun t => { todo := t }) } prefixBeforeCrash = some s) :
    C08.CacheOK key eval s.dir :=
  (C08.cache_sound key eval hkey d hd todos prefixBeforeCrash h).1

/-! Non-vacuity: a worker killed between `rename(in, ready)` and the output, then a second session
    resubmitting the call. -/
example : ∃ s1 s2, run (K := Nat) (V := Nat) ⟨true, true⟩ 1 (fun _ => []) id (fun _ _ => 5) (init [] 1)
      [.submit, .take, .lookup, .writeInput, .launch, .pLoad 0, .pCall 0, .pStage 0, .crashWrite 0] = some s1 ∧
    (Dir.get s1.dir 0).ready = some none ∧ (Dir.get s1.dir 0).out = none ∧
    run (K := Nat) (V := Nat) ⟨true, true⟩ 1 (fun _ => []) id (fun _ _ => 5) (init (restart s1.dir) 1)
      [.submit, .take, .lookup, .writeInput, .launch, .pLoad 0, .pCall 0, .pStage 0, .pWrite 0, .pPublish 0, .collect 0] = some s2 ∧
    futOf s2 0 = .finished 5 := by
  refine ⟨_, _, rfl, ?_, ?_, rfl, ?_⟩ <;> decide

end ExecModel.C14
