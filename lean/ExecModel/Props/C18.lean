import ExecModel.Wire
import ExecModel.Props.C17
/-!
  C18 — Multi-core calls: one invocation per rank, results gathered in rank order.
  Model: `Wire.pstep` / `Wire.pserve` (`interactive_parallel.py::main`: rank 0 receives, `bcast`,
  every rank calls, `gather` to rank 0, rank 0 replies).  `run rank ncalls mem c` is the outcome of
  call `c` on rank `rank`: the ranks execute the call independently with identical arguments.
  (The list-induction proofs are in `ExecModel/Proofs/ParProofs.lean`.)
-/
namespace ExecModel.C18
open ExecModel ExecModel.Wire

variable {Mem Call V E : Type}

/-- the value rank `r` returns for call `c` (when it succeeds) -/
def rankValue (run : Run Mem Call V E) (s : WState Mem) (c : Call) (r : Nat) : Option V :=
  match run r s.ncalls s.mem c with
  | .ok v => some v
  | .error _ => none

/-- all ranks succeed on this call -/
def AllOk (run : Run Mem Call V E) (n : Nat) (s : WState Mem) (c : Call) : Prop :=
  ∀ r, r < n → ∃ v, run r s.ncalls s.mem c = .ok v

/-- all ranks raise on this call -/
def AllFail (run : Run Mem Call V E) (n : Nat) (s : WState Mem) (c : Call) : Prop :=
  ∀ r, r < n → ∃ e, run r s.ncalls s.mem c = .error e

/-- the ranks agree on success or failure of every call (the alphabet of the property: a call that
    raises on some ranks only leaves the others in `gather` forever and is outside it) -/
def Uniform (run : Run Mem Call V E) (n : Nat) : Prop :=
  ∀ (k : Nat) (m : Option Mem) (c : Call),
    (∀ r, r < n → ∃ v, run r k m c = .ok v) ∨ (∀ r, r < n → ∃ e, run r k m c = .error e)

/-- requests that bear a reply -/
def pbearing : Req Mem Call → Bool
  | .call _ => true
  | .shutdown => true
  | _ => false

end ExecModel.C18
