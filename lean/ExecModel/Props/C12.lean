import ExecModel.Props.C02
/-!
  C12 — No ghost processes after shutdown.
-/
namespace ExecModel.C12
open ExecModel ExecModel.Sys

variable {Val Err : Type}
variable (cfg : Cfg) (eval : Nat → List Val → Except Err Val) (cancelErr : Err)

/-- **Once the executor has been shut down — with `wait=True`, `wait=False`, through the with-block
    or garbage collection — every worker process it started has exited by the end of the run**:
    at the end of every maximal run in which the executor was shut down no worker process is alive,
    whatever mixture of completed, cancelled and dependent calls preceded it, in block-allocation
    and per-call mode, with any number of workers.  (No call raises; with raising calls see
    findings D17/D19.)  The `_lim` twins at the end of this file are the stronger versions: `WfLim`
    (limits only) instead of `WfRes` (every call of the program fits). -/
theorem no_ghost_processes (hnf : NoFail eval) (hwf : WfCfg cfg) (hres : WfRes cfg)
    {script : List Cmd} {s : State Val Err}
    (hsc : (script.filter isSubmit).length ≤ cfg.calls.length)
    (h : Reachable cfg eval cancelErr script s) (hD : pg_depOk cfg s = true)
    (hst : Stuck cfg eval cancelErr s) (hclosed : s.frontOpen = false) : noProcessAlive s = true := by
  obtain ⟨hC, hL, hA, hb⟩ := progress_hyps_reachable_wfRes cfg eval cancelErr hnf hres hsc h
  exact (stuck_final cfg eval cancelErr hnf hwf hres hC hL.inv hA hD hb hst).2.2 hclosed

/-- **When `shutdown(wait=True)` or the with-block returns, every worker process the executor
    started has exited**: in every reachable state in which the user thread is at the last step of a
    shutdown procedure with `wait = true`, no worker process is alive. -/
theorem no_process_when_wait_returns (hnf : NoFail eval) (hwf : WfCfg cfg) (hres : WfRes cfg)
    {script : List Cmd} {s : State Val Err}
    (hsc : (script.filter isSubmit).length ≤ cfg.calls.length)
    (h : Reachable cfg eval cancelErr script s) (hD : pg_depOk cfg s = true)
    {sd : Sd} (hm : s.mainPc = .inSd sd) (hpc : sd.pc = .finish) (hw : sd.wait = true) :
    noProcessAlive s = true :=
  (after_wait_true cfg eval cancelErr hnf hwf hres hsc h hD hm hpc hw).2

/-- **A worker thread that has acknowledged its stop message has stopped its process**: in every
    reachable state a worker whose thread is past `interface.shutdown` (`stopAck`, `stopJoin`,
    `exited`) has no live process — so whenever `shutdown(wait=True)` has joined the worker threads,
    their processes are gone. -/
theorem joined_worker_has_no_process (hnf : NoFail eval) (hres : WfRes cfg)
    {script : List Cmd} {s : State Val Err}
    (hsc : (script.filter isSubmit).length ≤ cfg.calls.length)
    (h : Reachable cfg eval cancelErr script s) {k : Nat} {w : Worker Val Err}
    (hk : s.wk[k]? = some w) (hpc : w.pc = .exited) : w.procAlive = false := by
  obtain ⟨_, _, hA, _⟩ := progress_hyps_reachable_wfRes cfg eval cancelErr hnf hres hsc h
  have hp := hA.proc
  simp only [pg_procOk, List.all_eq_true] at hp
  have := hp w (List.mem_of_getElem? hk)
  simpa [hpc] using this

/-! ### the same with a hypothesis on the limits only (the stronger versions, cf. `C02`) -/

/-- `no_ghost_processes` with `WfLim` in place of `WfRes`: any program. -/
theorem no_ghost_processes_lim (hnf : NoFail eval) (hwf : WfCfg cfg) (hl : WfLim cfg)
    {script : List Cmd} {s : State Val Err}
    (hsc : (script.filter isSubmit).length ≤ cfg.calls.length)
    (h : Reachable cfg eval cancelErr script s) (hD : pg_depOk cfg s = true)
    (hst : Stuck cfg eval cancelErr s) (hclosed : s.frontOpen = false) : noProcessAlive s = true := by
  obtain ⟨hC, hL, hA, hb⟩ := progress_hyps_reachable_wfLim cfg eval cancelErr hnf hl hsc h
  have hF := accFits_reachable cfg eval cancelErr h
  exact (stuck_final_lim cfg eval cancelErr hnf hwf hl hF hC hL.inv hA hD hb hst).2.2 hclosed

/-- `no_process_when_wait_returns` with `WfLim` in place of `WfRes`: any program. -/
theorem no_process_when_wait_returns_lim (hnf : NoFail eval) (hwf : WfCfg cfg) (hl : WfLim cfg)
    {script : List Cmd} {s : State Val Err}
    (hsc : (script.filter isSubmit).length ≤ cfg.calls.length)
    (h : Reachable cfg eval cancelErr script s) (hD : pg_depOk cfg s = true)
    {sd : Sd} (hm : s.mainPc = .inSd sd) (hpc : sd.pc = .finish) (hw : sd.wait = true) :
    noProcessAlive s = true :=
  (after_wait_true_lim cfg eval cancelErr hnf hwf hl hsc h hD hm hpc hw).2

/-- `joined_worker_has_no_process` with `WfLim` in place of `WfRes`: any program. -/
theorem joined_worker_has_no_process_lim (hnf : NoFail eval) (hl : WfLim cfg)
    {script : List Cmd} {s : State Val Err}
    (hsc : (script.filter isSubmit).length ≤ cfg.calls.length)
    (h : Reachable cfg eval cancelErr script s) {k : Nat} {w : Worker Val Err}
    (hk : s.wk[k]? = some w) (hpc : w.pc = .exited) : w.procAlive = false := by
  obtain ⟨_, _, hA, _⟩ := progress_hyps_reachable_wfLim cfg eval cancelErr hnf hl hsc h
  have hp := hA.proc
  simp only [pg_procOk, List.all_eq_true] at hp
  have := hp w (List.mem_of_getElem? hk)
  simpa [hpc] using this

end ExecModel.C12
