import ExecModel.Preset
/-!
  C15 — init_function presets fill only what the caller left open.
-/
namespace ExecModel.C15
open ExecModel ExecModel.Preset

variable {Name V : Type} [DecidableEq Name]

/-! ### SPEC: the rule the property states, written parameter by parameter -/

/-- Caller's value if passed (positionally or by keyword), else the preset's if the parameter is
    declared and the preset dictionary has it, else the default. -/
def expected (mem : Dict Name V) (args : List V) (kw : Dict Name V) (i : Nat) (p : Param Name V) :
    Option V :=
  if i < args.length then args[i]?
  else match Dict.get? kw p.name with
    | some v => some v
    | none => match Dict.get? mem p.name with
      | some v => some v
      | none => p.dflt

def expectedSlots (sig : Sig Name V) (mem : Dict Name V) (args : List V) (kw : Dict Name V) :
    List (Name × Option V) :=
  sig.mapIdx (fun i p => (p.name, expected mem args kw i p))

/-- The whole call: the caller's own keyword / arity errors (determined by the caller's arguments
    alone), else the bindings given by `expected` — exactly the declared parameters, in order —
    else the list of parameters nobody supplied. -/
def specCall (sig : Sig Name V) (mem : Dict Name V) (args : List V) (kw : Dict Name V) :
    Except (BindErr Name) (List (Name × V)) :=
  match kwErr (names sig) args.length kw with
  | some e => .error e
  | none =>
    if args.length > sig.length then .error .tooMany
    else match allSome (expectedSlots sig mem args kw) with
      | some b => .ok b
      | none => .error (.missing (missingOf (expectedSlots sig mem args kw)))

/-! ### lemmas -/

theorem get?_append (a b : Dict Name V) (k : Name) :
    Dict.get? (a ++ b) k = match Dict.get? a k with | some v => some v | none => Dict.get? b k := by
  induction a with
  | nil => simp [Dict.get?]
  | cons kv a ih =>
    obtain ⟨k', v'⟩ := kv
    by_cases h : k' = k <;> simp [Dict.get?, h, ih]

theorem get?_filter_key (m : Dict Name V) (P : Name → Bool) (k : Name) :
    Dict.get? (m.filter (fun kv => P kv.1)) k = if P k then Dict.get? m k else none := by
  induction m with
  | nil => simp [Dict.get?]
  | cons kv m ih =>
    obtain ⟨k', v'⟩ := kv
    by_cases hP : P k' = true
    · by_cases h : k' = k
      · subst h; simp [List.filter, hP, Dict.get?]
      · simp [List.filter, hP, Dict.get?, h, ih]
    · by_cases h : k' = k
      · subst h; simp [List.filter, hP, Dict.get?, ih]
      · simp [List.filter, hP, Dict.get?, h, ih]

theorem get?_none_not_mem (m : Dict Name V) (k : Name) (h : Dict.get? m k = none) :
    k ∉ Dict.keys m := by
  induction m with
  | nil => simp [Dict.keys]
  | cons kv m ih =>
    obtain ⟨k', v'⟩ := kv
    by_cases hk : k' = k
    · simp [Dict.get?, hk] at h
    · simp only [Dict.get?, hk, if_false] at h
      have := ih h
      simp [Dict.keys] at this ⊢
      exact ⟨fun e => hk e.symm, this⟩

theorem kwErr_append (ns : List Name) (npos : Nat) (a b : List (Name × V)) :
    kwErr ns npos (a ++ b) = match kwErr ns npos a with | some e => some e | none => kwErr ns npos b := by
  induction a with
  | nil => simp [kwErr]
  | cons kv a ih =>
    obtain ⟨k, v⟩ := kv
    simp only [List.cons_append, kwErr]
    split
    · split
      · rfl
      · exact ih
    · rfl

theorem kwErr_none_of_keys (ns : List Name) (npos : Nat) (d : List (Name × V))
    (h : ∀ kv ∈ d, kv.1 ∈ ns ∧ kv.1 ∉ ns.take npos) : kwErr ns npos d = none := by
  induction d with
  | nil => rfl
  | cons kv d ih =>
    obtain ⟨k, v⟩ := kv
    have hk := h (k, v) (by simp)
    simp only [kwErr, hk.1, hk.2, if_true, if_false]
    exact ih (fun kv hkv => h kv (by simp [hkv]))

theorem mem_drop_not_mem_take (ns : List Name) (hnd : ns.Nodup) (n : Nat) (k : Name)
    (h : k ∈ ns.drop n) : k ∈ ns ∧ k ∉ ns.take n := by
  have e := List.take_append_drop n ns
  rw [← e] at hnd
  obtain ⟨_, _, hdis⟩ := List.nodup_append.mp hnd
  refine ⟨by rw [← e]; exact List.mem_append_right _ h, fun ht => hdis k ht k h rfl⟩

/-- **C15, main theorem.**  For every signature with distinct parameter names, every preset
    dictionary, every positional/keyword split of the caller's arguments: the repaired `call_funct`
    computes exactly the SPEC — values, absence of undeclared keys, and which calls fail. -/
theorem callFunct_eq_spec (sig : Sig Name V) (hnd : (names sig).Nodup) (mem : Dict Name V)
    (args : List V) (kw : Dict Name V) :
    callFunct true sig (some mem) args kw = specCall sig mem args kw := by
  unfold callFunct specCall Preset.bind
  simp only [if_true]
  have hdelta : ∀ kv ∈ updateDelta mem kw ((names sig).drop args.length),
      kv.1 ∈ names sig ∧ kv.1 ∉ (names sig).take args.length := by
    intro kv hkv
    unfold updateDelta at hkv
    simp only [List.mem_filter, Bool.and_eq_true, decide_eq_true_eq] at hkv
    exact mem_drop_not_mem_take _ hnd _ _ hkv.2.1
  rw [kwErr_append, kwErr_none_of_keys _ _ _ hdelta]
  have hslots : slots sig args (kw ++ updateDelta mem kw ((names sig).drop args.length))
      = expectedSlots sig mem args kw := by
    unfold slots expectedSlots
    apply List.ext_getElem?
    intro i
    simp only [List.getElem?_mapIdx]
    cases hp : sig[i]? with
    | none => rfl
    | some p =>
      simp only [Option.map_some, Option.some.injEq, Prod.mk.injEq, true_and]
      unfold slotVal expected
      by_cases hi : i < args.length
      · simp [hi]
      · simp only [hi, if_false]
        rw [get?_append]
        cases hk : Dict.get? kw p.name with
        | some v => rfl
        | none =>
          simp only
          unfold updateDelta
          rw [get?_filter_key mem (fun k => decide (k ∈ (names sig).drop args.length) && !decide (k ∈ Dict.keys kw))]
          have h1 : p.name ∈ (names sig).drop args.length := by
            rw [List.mem_iff_getElem?]
            refine ⟨i - args.length, ?_⟩
            rw [List.getElem?_drop]
            have : args.length + (i - args.length) = i := by omega
            rw [this]
            simp [names, hp]
          have h2 := get?_none_not_mem kw p.name hk
          simp only [h1, h2, decide_true, decide_false, Bool.not_false, Bool.and_self, if_true]
          cases Dict.get? mem p.name <;> rfl
  rw [hslots]
  cases kwErr (names sig) args.length kw <;> rfl

/-- **C15, value rule** (corollary): when the call succeeds, the bindings are exactly the declared
    parameters in order (no undeclared key), each holding the caller's value if passed, else the
    preset's, else the default. -/
theorem preset_rule (sig : Sig Name V) (hnd : (names sig).Nodup) (mem : Dict Name V)
    (args : List V) (kw : Dict Name V) (b : List (Name × V))
    (h : callFunct true sig (some mem) args kw = .ok b) :
    allSome (expectedSlots sig mem args kw) = some b := by
  rw [callFunct_eq_spec sig hnd] at h
  unfold specCall at h
  split at h
  · cases h
  · split at h
    · cases h
    · split at h
      · rename_i b' hb; cases h; exact hb
      · cases h

/-- **C15, no new errors** (corollary): a keyword or arity error is raised iff the caller's own
    arguments have it — presets never cause one. -/
theorem no_new_errors (sig : Sig Name V) (hnd : (names sig).Nodup) (mem : Dict Name V)
    (args : List V) (kw : Dict Name V) (e : BindErr Name)
    (h : callFunct true sig (some mem) args kw = .error e) :
    kwErr (names sig) args.length kw = some e ∨
    (kwErr (names sig) args.length kw = none ∧ args.length > sig.length ∧ e = .tooMany) ∨
    (kwErr (names sig) args.length kw = none ∧ ¬ args.length > sig.length ∧
      e = .missing (missingOf (expectedSlots sig mem args kw)) ∧
      allSome (expectedSlots sig mem args kw) = none) := by
  rw [callFunct_eq_spec sig hnd] at h
  unfold specCall at h
  split at h
  · rename_i e' he; cases h; exact Or.inl he
  · rename_i he
    split at h
    · rename_i hgt; cases h; exact Or.inr (Or.inl ⟨he, hgt, rfl⟩)
    · rename_i hgt
      split at h
      · cases h
      · rename_i hn; cases h; exact Or.inr (Or.inr ⟨he, hgt, rfl, hn⟩)

/-! ### non-vacuity and the defect -/

section Concrete
/-- `def f(i, j, k=0)` with presets `{j: 4, k: 3, z: 9}`, called as `f(1)` … -/
def sigF : Sig String Nat := [⟨"i", none⟩, ⟨"j", none⟩, ⟨"k", some 0⟩]
def memF : Dict String Nat := [("j", 4), ("k", 3), ("z", 9)]

example : (names sigF).Nodup := by decide
example : callFunct true sigF (some memF) [1] [] = .ok [("i", 1), ("j", 4), ("k", 3)] := by decide
example : callFunct true sigF (some memF) [1] [("k", 7)] = .ok [("i", 1), ("j", 4), ("k", 7)] := by decide
/-- … and as `f(1, 2)`: the caller's positional `j = 2` wins over the preset. -/
example : callFunct true sigF (some memF) [1, 2] [] = .ok [("i", 1), ("j", 2), ("k", 3)] := by decide

/-- **Defect D8 (as found at f65d02b).**  Offering a preset for a parameter that was passed
    positionally makes the call fail with "multiple values". -/
theorem preset_rule_fails_without_skipPositional :
    ¬ (∀ (sig : Sig String Nat) (mem : Dict String Nat) (args : List Nat) (kw : Dict String Nat),
        (names sig).Nodup → callFunct false sig (some mem) args kw = specCall sig mem args kw) := by
  intro h
  have := h sigF memF [1, 2] [] (by decide)
  revert this; decide
end Concrete

end ExecModel.C15
