import ExecModel.Key
/-!
  C08 — Cache soundness, part 1: the key.  (Part 2, the concurrent cache protocol, is in
  `ExecModel/Props/C08Cache.lean`.)
-/
namespace ExecModel.C08
open ExecModel ExecModel.Key

/-- SPEC (DESIGN E.6): `DelDigits a b` — `b` arises from `a` by deleting non-empty digit runs that
    stand between `/ipykernel_` and `/` (the `/` may itself begin the next marker). -/
inductive DelDigits : Bytes → Bytes → Prop
  | nil : DelDigits [] []
  | keep (c : UInt8) {a b : Bytes} : DelDigits a b → DelDigits (c :: a) (c :: b)
  | del (ds : Bytes) {a b : Bytes} : ds ≠ [] → (∀ d ∈ ds, isDigit d = true) →
      DelDigits (slash :: a) b → DelDigits (marker ++ ds ++ (slash :: a)) (marker ++ b)

theorem DelDigits.refl : ∀ a : Bytes, DelDigits a a
  | [] => .nil
  | c :: a => .keep c (DelDigits.refl a)

theorem DelDigits.prepend (p : Bytes) {a b : Bytes} (h : DelDigits a b) : DelDigits (p ++ a) (p ++ b) := by
  induction p with
  | nil => exact h
  | cons c p ih => exact .keep c ih

theorem spanDigits_length (l : Bytes) : (spanDigits l).2.length ≤ l.length := by
  have := congrArg List.length (spanDigits_append l)
  simp at this; omega

/-- **The key normalisation removes nothing but the digits of `/ipykernel_<digits>/` segments.** -/
theorem blankF_sound : ∀ (n : Nat) (l : Bytes), l.length ≤ n → DelDigits l (blankF n l)
  | 0, l, h => by
    have : l = [] := List.length_eq_zero_iff.mp (by omega)
    subst this; exact .nil
  | n + 1, [], _ => by simp [blankF]; exact .nil
  | n + 1, c :: rest, h => by
    simp only [blankF]
    split
    · rename_i after hafter
      have hl := stripPre_eq_some hafter
      split
      · rename_i hcond
        obtain ⟨hds, htail⟩ := hcond
        have happ := spanDigits_append after
        -- tail = slash :: t
        cases htl : (spanDigits after).2 with
        | nil => simp [htl] at htail
        | cons t0 t =>
          simp [htl] at htail
          subst htail
          have hlen : ((spanDigits after).2).length ≤ n := by
            have h1 := spanDigits_length after
            have h2 : (c :: rest).length = marker.length + after.length := by rw [hl]; simp
            have h3 : marker.length = 11 := by decide
            simp at h h2; omega
          have ih := blankF_sound n ((spanDigits after).2) hlen
          rw [hl, ← happ, htl]
          rw [htl] at ih
          have := DelDigits.del (spanDigits after).1 hds (spanDigits_digits after) ih
          simpa [List.append_assoc] using this
      · exact .keep c (blankF_sound n rest (by simp at h; omega))
    · exact .keep c (blankF_sound n rest (by simp at h; omega))

theorem blank_only_digits (l : Bytes) : DelDigits l (blank l) := blankF_sound l.length l (Nat.le_refl _)

/-- Two byte strings are the same call up to the kernel id iff both reduce to a common string. -/
def SameUpToKernelId (a b : Bytes) : Prop := ∃ c, DelDigits a c ∧ DelDigits b c

/-- **Two different calls never share an entry**: with a collision-free hash, calls with the same
    key have the same function name and pickles that differ at most in the digits of
    `/ipykernel_<digits>/` segments (the one difference executorlib deliberately ignores). -/
theorem key_collision_only_kernel_digits {Call Hash : Type} (name : Call → String) (ser : Call → Bytes)
    (H : Bytes → Hash) (hH : Function.Injective H) (c c' : Call)
    (h : key name ser H c = key name ser H c') :
    name c = name c' ∧ SameUpToKernelId (ser c) (ser c') := by
  simp only [key, CacheKey.mk.injEq] at h
  obtain ⟨h1, h2⟩ := h
  refine ⟨h1, blank (ser c), blank_only_digits _, ?_⟩
  rw [hH h2]
  exact blank_only_digits _

/-- pickles without the marker are never touched: distinct such calls get distinct keys -/
theorem DelDigits.nondigits {a b : Bytes} (h : DelDigits a b) :
    a.filter (fun x => !isDigit x) = b.filter (fun x => !isDigit x) := by
  induction h with
  | nil => rfl
  | keep c _ ih => simp [List.filter_cons, ih]
  | del ds hne hd _ ih =>
    have : ds.filter (fun x => !isDigit x) = [] := by
      simp only [List.filter_eq_nil_iff]; intro d hdm; simp [hd d hdm]
    simp [List.filter_append, this, ih]

/-- calls that differ in any non-digit byte have different keys -/
theorem different_calls_different_keys {Call Hash : Type} (name : Call → String) (ser : Call → Bytes)
    (H : Bytes → Hash) (hH : Function.Injective H) (c c' : Call)
    (hd : (ser c).filter (fun x => !isDigit x) ≠ (ser c').filter (fun x => !isDigit x)) :
    key name ser H c ≠ key name ser H c' := by
  intro h
  obtain ⟨_, z, h1, h2⟩ := key_collision_only_kernel_digits name ser H hH c c' h
  exact hd (h1.nondigits.trans h2.nondigits.symm)

/-- **Defect D7 (pattern as found, greedy `(.*)`)**: two calls that differ in a non-digit byte
    after a kernel path segment receive the same blanked pickle, hence the same key. -/
theorem C08_fails_with_greedy_pattern :
    ∃ a b : Bytes, blankGreedy a = blankGreedy b ∧ ¬ SameUpToKernelId a b := by
  refine ⟨ofStr "f /ipykernel_1/x/ tail", ofStr "f /ipykernel_1/y/ tail", by decide, ?_⟩
  rintro ⟨z, h1, h2⟩
  have := h1.nondigits.trans h2.nondigits.symm
  revert this; decide

/-! Non-vacuity / concrete instances. -/
example : blank (ofStr "a/ipykernel_123/b/ipykernel_4x/ipykernel_56/ipykernel_7/")
    = ofStr "a/ipykernel_/b/ipykernel_4x/ipykernel_/ipykernel_/" := by decide
example : blank (ofStr "/ipykernel_12\n/x") = ofStr "/ipykernel_12\n/x" := by decide

end ExecModel.C08
