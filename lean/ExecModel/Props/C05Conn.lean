import ExecModel.Lts.Conn
/-!
  C05 / C12 — shutdown of one worker connection when the worker process may have been killed from
  outside (the fault scenarios of the C05 check), over the finite transition system `Conn`.

  * no fault: the stop exchange completes, the process is reaped, `shutdown` returns;
  * the process is dead (reapable) before `poll()`: `shutdown` returns without any exchange;
  * the process is killed in the window between "still reported running" and the blocking
    `recv()`: `shutdown` blocks for ever — the only place it can block (proved run; the library
    has no time limit there; an observation recorded in DESIGN.md 0.4, outside every property's
    quantifier).
-/
namespace ExecModel.C05Conn
open ExecModel ExecModel.Conn

def runL (s : State) : List Label → Option State
  | [] => some s
  | l :: ls => match step s l with
    | some s' => runL s' ls
    | none => none

/-- `R` is closed under the labels `ls` -/
def closedUnder (ls : List Label) (R : List State) : Bool :=
  R.all fun s => ls.all fun l => match step s l with
    | some s' => R.contains s'
    | none => true

/-- Every state reached by any sequence of labels from `ls`, of any length, lies in a closed set
    that contains the start. -/
theorem reach_mem (ls : List Label) (R : List State) (hc : closedUnder ls R = true) :
    ∀ (tr : List Label) (s s' : State), s ∈ R → (∀ l ∈ tr, l ∈ ls) → runL s tr = some s' → s' ∈ R := by
  intro tr
  induction tr with
  | nil => intro s s' hs _ h; simp only [runL, Option.some.injEq] at h; exact h ▸ hs
  | cons l tr ih =>
    intro s s' hs hl h
    simp only [runL] at h
    cases hst : step s l with
    | none => simp [hst] at h
    | some s1 =>
      simp only [hst] at h
      have hmem : s1 ∈ R := by
        have h1 := List.all_eq_true.mp hc s hs
        have h2 := List.all_eq_true.mp h1 l (hl l (List.mem_cons_self))
        simp only [hst] at h2
        simpa using h2
      exact ih s1 s' hmem (fun x hx => hl x (List.mem_cons_of_mem _ hx)) h

/-- the states a fault-free shutdown passes through -/
def Rgood : List State := reach internal 9 [init .running]

/-- states reachable with faults allowed -/
def Rall : List State := reach labels 12 [init .running]

/-- states reachable when the process was already dead before the shutdown began -/
def Rdead : List State := reach labels 6 [init .reapable, init .reaped]

theorem Rall_closed : closedUnder labels Rall = true := by decide
theorem Rdead_closed : closedUnder labels Rdead = true := by decide

/-- **No fault**: whatever the interleaving of the executor's thread and the worker, a state in
    which the shutdown has not returned has an enabled step (it never blocks) … -/
theorem no_fault_never_blocks (tr : List Label) (s : State) (htr : ∀ l ∈ tr, l ∈ internal)
    (h : runL (init .running) tr = some s) : stuck s = false := by
  have hc : closedUnder internal Rgood = true := by decide
  have hm := reach_mem internal _ hc tr (init .running) s (by decide) htr h
  have : Rgood.all (fun s => !stuck s) = true := by decide
  simpa using List.all_eq_true.mp this s hm

/-- … and every run is short: at most 7 steps, after which the shutdown has returned and the
    process is reaped. -/
theorem no_fault_returns (tr : List Label) (s : State) (htr : ∀ l ∈ tr, l ∈ internal)
    (h : runL (init .running) tr = some s) (hend : internal.all (fun l => (step s l).isNone) = true) :
    s.pc = .done ∧ s.proc = .reaped := by
  have hc : closedUnder internal Rgood = true := by decide
  have hm := reach_mem internal _ hc tr (init .running) s (by decide) htr h
  have : Rgood.all (fun s => !(internal.all (fun l => (step s l).isNone)) || (s.pc == .done && s.proc == .reaped)) = true := by
    decide
  have h1 := List.all_eq_true.mp this s hm
  simp only [hend, Bool.not_true, Bool.false_or, Bool.and_eq_true, beq_iff_eq] at h1
  exact h1

/-- **Dead before `poll()`** (the C05 fault scenarios wait until the killed process is reapable):
    under every interleaving, faults included, the shutdown never blocks, sends nothing, and ends
    returned. -/
theorem dead_before_poll_returns (p : Proc) (hp : p = .reapable ∨ p = .reaped) (tr : List Label) (s : State)
    (h : runL (init p) tr = some s) : stuck s = false ∧ s.stopInFlight = false := by
  have hm : s ∈ Rdead := by
    refine reach_mem labels Rdead Rdead_closed tr (init p) s ?_ (fun l _ => by cases l <;> decide) h
    rcases hp with rfl | rfl <;> decide
  have : Rdead.all (fun s => !stuck s && !s.stopInFlight) = true := by decide
  have h1 := List.all_eq_true.mp this s hm
  simpa using h1

/-- **The window**: killed while `poll()` still reports it running, the worker never answers the
    stop message: the executor's thread is stuck in `recv()` for ever (no step but none is enabled,
    the shutdown has not returned). -/
theorem shutdown_can_block_after_kill :
    ∃ s, runL (init .running) [.kill, .pollAlive, .send, .threadsGone] = some s ∧ stuck s = true ∧ s.pc = .recvAck := by
  refine ⟨_, rfl, by decide, rfl⟩

/-- the same when the kill arrives after `poll()`, between the send and the worker's receive -/
theorem shutdown_can_block_after_late_kill :
    ∃ s, runL (init .running) [.pollAlive, .send, .kill, .threadsGone] = some s ∧ stuck s = true := by
  refine ⟨_, rfl, by decide⟩

/-- **The only place a shutdown can block is the unbounded `recv()`, and only when the worker
    process is gone**: every reachable stuck state (all interleavings, faults at any point) sits in
    `recvAck` with a dead process. -/
theorem blocks_only_in_recv_of_dead_worker (tr : List Label) (s : State)
    (h : runL (init .running) tr = some s) (hs : stuck s = true) :
    s.pc = .recvAck ∧ (s.proc = .reapable ∨ s.proc = .dying) := by
  have hm : s ∈ Rall := reach_mem labels Rall Rall_closed tr (init .running) s (by decide) (fun l _ => by cases l <;> decide) h
  have : Rall.all (fun s => !stuck s || (s.pc == .recvAck && (s.proc == .reapable || s.proc == .dying))) = true := by decide
  have h1 := List.all_eq_true.mp this s hm
  simp only [hs, Bool.not_true, Bool.false_or, Bool.and_eq_true, Bool.or_eq_true, beq_iff_eq] at h1
  exact h1

end ExecModel.C05Conn

namespace ExecModel.C05Conn
open ExecModel ExecModel.Conn

/-- Non-vacuity: the fault-free exchange, step by step, ends returned with the process reaped. -/
example : (runL (init .running) [.pollAlive, .send, .wRecv, .wAck, .recv, .stopProc, .closeSock]).map (fun s => (s.pc, s.proc))
    = some (.done, .reaped) := by decide

/-- the outcomes of all maximal runs from `init p`, faults allowed or not: what the check compares the
    real executor's behaviour with -/
def outcomes (p : Proc) (faults : Bool) : List String :=
  let R := reach (if faults then labels else internal) 14 [init p]
  ((R.filter (fun s => s.pc == .done)).map (fun _ => "returned") ++ (R.filter stuck).map (fun _ => "blocked")).eraseDups

example : outcomes .reapable true = ["returned"] ∧ outcomes .running false = ["returned"]
    ∧ outcomes .running true = ["returned", "blocked"] := by decide

end ExecModel.C05Conn
