import ExecModel.Props.C17
/-!
  C17 — index form of the main theorem and the parent side.

  `one_reply_each` characterises the whole transcript; here the property's last sentence is stated
  literally: *the n-th reply belongs to the n-th reply-bearing request*, for every request
  sequence and every n.  The parent side (`SocketInterface.send_and_receive_dict` pairs each send
  of a reply-bearing request with one receive; `send_dict` alone for init) is modelled as a reader
  that takes the head of the reply stream after each bearing request: what it hands to the n-th
  bearing request is that request's own expected reply.
-/
namespace ExecModel.C17
open ExecModel ExecModel.Wire

variable {Mem Call V E : Type}

/-- Reading position `i` of a `filterMap` is reading position `i` of the elements that map to
    `some`, then applying the map. -/
theorem getElem?_filterMap_filter {α β : Type} (f : α → Option β) (p : α → Bool)
    (hp : ∀ a, p a = (f a).isSome) (l : List α) (i : Nat) :
    (l.filterMap f)[i]? = ((l.filter p)[i]?).bind f := by
  induction l generalizing i with
  | nil => simp
  | cons a l ih =>
    cases hfa : f a with
    | none =>
      have : p a = false := by rw [hp, hfa]; rfl
      simp [hfa, this, ih]
    | some b =>
      have : p a = true := by rw [hp, hfa]; rfl
      cases i with
      | zero => simp [hfa, this]
      | succ i => simp [hfa, this, ih]

theorem bearing_iff_expected (run : Run Mem Call V E) (a : Option Mem × Nat × Req Mem Call) :
    bearing a.2.2 = (expectedReply run a).isSome := by
  obtain ⟨m, k, r⟩ := a
  cases r <;> rfl

/-- **The n-th reply belongs to the n-th reply-bearing request** — for every request sequence and
    every position `n`: the n-th reply on the socket is the expected reply of the n-th
    reply-bearing request (up to and including the first shutdown), computed with the presets and
    call count in effect when that request was served; there is an n-th reply iff there is an
    n-th such request. -/
theorem nth_reply_belongs_to_nth_bearing_request (run : Run Mem Call V E) (rs : List (Req Mem Call))
    (n : Nat) :
    (serve run {} rs)[n]? =
      (((annot none 0 (takeThrough isShutdown rs)).filter (fun a => bearing a.2.2))[n]?).bind
        (expectedReply run) := by
  rw [one_reply_each run {} rfl]
  exact getElem?_filterMap_filter (expectedReply run) (fun a => bearing a.2.2)
    (bearing_iff_expected run) _ n

/-! ### the parent side: each reply-bearing send is paired with one receive -/

/-- The parent reads one reply after each reply-bearing request it sent and none after the others:
    the list of (request, reply it was handed).  `replies` is the stream coming from the worker. -/
def pair : List (Req Mem Call) → List (Reply V E) → List (Req Mem Call × Option (Reply V E))
  | [], _ => []
  | r :: rs, reps =>
    if bearing r then
      match reps with
      | rep :: reps' => (r, some rep) :: pair rs reps'
      | [] => (r, none) :: pair rs []        -- the receive blocks: no reply ever comes
    else (r, none) :: pair rs reps

/-- SPEC of the pairing: every request with its own expected reply. -/
def pairSpec (run : Run Mem Call V E) (m : Option Mem) (k : Nat) (rs : List (Req Mem Call)) :
    List (Req Mem Call × Option (Reply V E)) :=
  (annot m k rs).map (fun a => (a.2.2, expectedReply run a))

/-- **No desynchronisation**: for every request sequence that ends at its first shutdown (or has
    none), a parent that pairs each reply-bearing send with one receive is handed, for every
    request, exactly that request's own reply — a call never sees the reply of another call. -/
theorem parent_pairs_each_request_with_its_own_reply (run : Run Mem Call V E) (s : WState Mem)
    (h : s.alive = true) (rs : List (Req Mem Call)) (hsd : takeThrough isShutdown rs = rs) :
    pair rs (serve run s rs) = pairSpec run s.mem s.ncalls rs := by
  induction rs generalizing s with
  | nil => rfl
  | cons r rs ih =>
    obtain ⟨mem, k, alive, wedged⟩ := s
    simp only at h
    subst h
    cases r with
    | shutdown =>
      have hrs : rs = [] := by
        simpa [takeThrough, isShutdown] using hsd.symm
      subst hrs
      simp [pair, bearing, serve, wstep, pairSpec, annot]
    | call c =>
      have hsd' : takeThrough isShutdown rs = rs := by
        simpa [takeThrough, isShutdown] using hsd
      have := ih ⟨mem, k + 1, true, wedged⟩ rfl hsd'
      simp only [pairSpec] at this
      simp [pair, bearing, serve, wstep, pairSpec, annot, this]
    | init m =>
      have hsd' : takeThrough isShutdown rs = rs := by
        simpa [takeThrough, isShutdown] using hsd
      have := ih ⟨some m, k, true, wedged⟩ rfl hsd'
      simp only [pairSpec] at this
      simp [pair, bearing, serve, wstep, pairSpec, annot, this]
    | other =>
      have hsd' : takeThrough isShutdown rs = rs := by
        simpa [takeThrough, isShutdown] using hsd
      have := ih ⟨mem, k, true, wedged⟩ rfl hsd'
      simp only [pairSpec] at this
      simp [pair, bearing, serve, wstep, pairSpec, annot, this]

/-- Non-vacuity: a sequence with a call before init, two inits, a failing call and the shutdown
    last meets the hypothesis, and the pairing is the expected one. -/
example :
    let run : Run Nat Nat Nat Nat := fun _ k m c => match m with | some p => .ok (p + c + k) | none => .error c
    let rs : List (Req Nat Nat) := [.call 7, .init 100, .call 1, .init 200, .call 2, .shutdown]
    takeThrough isShutdown rs = rs ∧
    pair rs (serve run {} rs) =
      [(.call 7, some (.error 7)), (.init 100, none), (.call 1, some (.result 102)),
       (.init 200, none), (.call 2, some (.result 204)), (.shutdown, some .ack)] := by decide

/-- **Why the worker must stay silent on init** (the stale-reply failure the property names): if
    the worker answered an init, a parent pairing sends with receives would hand the *next* call
    the init's answer — shown on the smallest instance with a reply stream that has one extra
    message in front. -/
theorem reply_to_init_shifts_every_later_reply :
    let rs : List (Req Nat Nat) := [.init 0, .call 1, .call 2]
    let extra : List (Reply Nat Nat) := [.result 99, .result 1, .result 2]   -- 99 answers the init
    pair rs extra = [(.init 0, none), (.call 1, some (.result 99)), (.call 2, some (.result 1))] := by
  decide

end ExecModel.C17
