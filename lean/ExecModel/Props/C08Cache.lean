import ExecModel.Lts.Cache
/-!
  C08, part 2 — the cache protocol: a cached value is only ever returned for the identical call,
  with identical or different calls running concurrently on several workers, over any sequence of
  runs sharing the directory.
-/
namespace ExecModel.C08
open ExecModel ExecModel.Cache

variable {Call K V : Type} [DecidableEq K]

/-- SPEC (DESIGN E.7): every entry under a final name is complete and holds the value of every
    call with that key. -/
def CacheOK (key : Call → K) (eval : Call → V) (d : Dir K V) : Prop :=
  ∀ k v, (k, v) ∈ d → ∀ c, key c = k → v = some (eval c)

def PcOK (eval : Call → V) : Pc Call V → Prop
  | .computed c v | .creating c v => v = eval c
  | _ => True

def Inv (key : Call → K) (eval : Call → V) (s : State Call K V) : Prop :=
  CacheOK key eval s.dir ∧ (∀ w ∈ s.wk, PcOK eval w.pc) ∧ (∀ c v, (c, v) ∈ s.results → v = some (eval c))

theorem lookup_mem {d : Dir K V} {k : K} {v : Option V} (h : lookup d k = some v) : (k, v) ∈ d := by
  induction d with
  | nil => simp [lookup] at h
  | cons e d ih =>
    obtain ⟨k', v'⟩ := e
    simp only [lookup] at h
    split at h
    · rename_i hk; subst hk; cases h; simp
    · simp [ih h]

theorem cacheOK_publish {key : Call → K} {eval : Call → V} {d : Dir K V} (hd : CacheOK key eval d)
    (hkey : ∀ c c', key c = key c' → eval c = eval c') (c : Call) :
    CacheOK key eval (publish d (key c) (some (eval c))) := by
  intro k v hm c' hk
  simp only [publish, List.mem_cons, List.mem_filter] at hm
  rcases hm with h | ⟨h, _⟩
  · cases h; rw [hkey c' c hk]
  · exact hd k v h c' hk

theorem mem_set {α : Type} {l : List α} {i : Nat} {a x : α} (h : x ∈ l.set i a) : x = a ∨ x ∈ l := by
  induction l generalizing i with
  | nil => simp at h
  | cons b l ih =>
    cases i with
    | zero => simp at h; rcases h with h | h <;> simp [h]
    | succ i => simp at h; rcases h with h | h
                · simp [h]
                · rcases ih h with h | h <;> simp [h]

/-- the invariant is preserved by every step of every worker (code after the fix) -/
theorem inv_step (key : Call → K) (eval : Call → V) (hkey : ∀ c c', key c = key c' → eval c = eval c')
    {s s' : State Call K V} {l : Label} (hI : Inv key eval s) (h : step true key eval s l = some s') :
    Inv key eval s' := by
  obtain ⟨hd, hw, hr⟩ := hI
  cases l <;> simp only [step] at h
  all_goals (split at h <;> try (cases h; done))
  all_goals rename_i wk hwk
  all_goals (have hwkm : wk ∈ s.wk := List.mem_of_getElem? hwk)
  · -- look
    split at h <;> try (cases h; done)
    rename_i c rest hpc htodo
    split at h
    · rename_i v hl
      cases h
      refine ⟨hd, ?_, ?_⟩
      · intro w hwm; rcases mem_set hwm with rfl | hm
        · trivial
        · exact hw w hm
      · intro c' v' hm
        simp only [List.mem_append, List.mem_singleton] at hm
        rcases hm with hm | hm
        · exact hr c' v' hm
        · cases hm; exact hd _ _ (lookup_mem hl) c rfl
    · cases h
      refine ⟨hd, ?_, hr⟩
      intro w hwm; rcases mem_set hwm with rfl | hm
      · trivial
      · exact hw w hm
  · -- compute
    split at h <;> try (cases h; done)
    cases h
    refine ⟨hd, ?_, hr⟩
    intro w hwm; rcases mem_set hwm with rfl | hm
    · simp [PcOK]
    · exact hw w hm
  · -- create: not enabled when atomic
    split at h <;> try (cases h; done)
    all_goals (simp at h)
  · -- write
    split at h <;> try (cases h; done)
    · rename_i c v hpc
      simp only [if_true] at h
      cases h
      have hv : v = eval c := by have := hw wk hwkm; rw [hpc] at this; exact this
      subst hv
      refine ⟨cacheOK_publish hd hkey c, ?_, ?_⟩
      · intro w hwm; rcases mem_set hwm with rfl | hm
        · trivial
        · exact hw w hm
      · intro c' v' hm
        simp only [List.mem_append, List.mem_singleton] at hm
        rcases hm with hm | hm
        · exact hr c' v' hm
        · cases hm; rfl
    · rename_i c v hpc
      cases h
      have hv : v = eval c := by have := hw wk hwkm; rw [hpc] at this; exact this
      subst hv
      refine ⟨cacheOK_publish hd hkey c, ?_, ?_⟩
      · intro w hwm; rcases mem_set hwm with rfl | hm
        · trivial
        · exact hw w hm
      · intro c' v' hm
        simp only [List.mem_append, List.mem_singleton] at hm
        rcases hm with hm | hm
        · exact hr c' v' hm
        · cases hm; rfl
  · -- lookCancelled: directory and results untouched, the worker stays idle
    split at h <;> try (cases h; done)
    cases h
    refine ⟨hd, ?_, hr⟩
    intro w hwm; rcases mem_set hwm with rfl | hm
    · trivial
    · exact hw w hm

/-- **Cache soundness.**  Starting from any directory whose entries are sound (left by any number
    of earlier runs), with any number of workers, any assignment of calls (identical or different)
    to them, and any interleaving: every future receives the value of its own call, and the
    directory stays sound — in particular an incomplete entry is never served.  Hypothesis: calls
    sharing a key evaluate alike (collision-freeness of the key up to the kernel id, part 1). -/
theorem cache_sound (key : Call → K) (eval : Call → V) (hkey : ∀ c c', key c = key c' → eval c = eval c')
    (d : Dir K V) (hd : CacheOK key eval d) (todos : List (List Call)) (ls : List Label)
    {s : State Call K V}
    (h : run true key eval { dir := d, wk := todos.map (fun t => { todo := t }) } ls = some s) :
    CacheOK key eval s.dir ∧ ∀ c v, (c, v) ∈ s.results → v = some (eval c) := by
  have hI0 : Inv key eval ({ dir := d, wk := todos.map (fun t => { todo := t }) } : State Call K V) := by
    refine ⟨hd, ?_, ?_⟩
    · intro w hw; simp at hw; obtain ⟨t, _, rfl⟩ := hw; trivial
    · intro c v hm; simp at hm
  have : ∀ (ls : List Label) (s0 s : State Call K V), Inv key eval s0 → run true key eval s0 ls = some s → Inv key eval s := by
    intro ls
    induction ls with
    | nil => intro s0 s hI hr; simp [run] at hr; subst hr; exact hI
    | cons l ls ih =>
      intro s0 s hI hr
      simp only [run, Option.bind_eq_some_iff] at hr
      obtain ⟨s1, h1, h2⟩ := hr
      exact ih s1 s (inv_step key eval hkey hI h1) h2
  have hI := this ls _ s hI0 h
  exact ⟨hI.1, hI.2.2⟩

/-- **Defect D12 (entry written in place, flag ignored)**: two workers, the same call; the second
    looks the key up while the first has created the file but not yet written the output, and its
    future receives `None`. -/
theorem C08_fails_without_atomic_publish :
    ∃ s, run false (fun c : Nat => c) (fun c => c + 100)
      { dir := [], wk := [{ todo := [7] }, { todo := [7] }] }
      [.look 0, .compute 0, .create 0, .look 1] = some s ∧ (7, none) ∈ s.results := by
  refine ⟨_, rfl, ?_⟩
  decide

/-! Non-vacuity: two workers computing the same call concurrently and a third hitting the entry. -/
example : ∃ s, run true (fun c : Nat => c % 10) (fun c => c % 10 + 100)
      { dir := [(3, some 103)], wk := [{ todo := [7, 3] }, { todo := [17] }, { todo := [7] }] }
      [.look 0, .look 1, .compute 0, .compute 1, .write 0, .write 1, .look 2, .look 0] = some s ∧
      s.results = [(7, some 107), (17, some 107), (7, some 107), (3, some 103)] := by
  refine ⟨_, rfl, ?_⟩
  decide

end ExecModel.C08
