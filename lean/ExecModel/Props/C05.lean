import ExecModel.Props.C02
/-!
  C05 — shutdown() always returns, is repeatable, and closes the executor for new work.
-/
namespace ExecModel.C05
open ExecModel ExecModel.Sys

variable {Val Err : Type}
variable (cfg : Cfg) (eval : Nat → List Val → Except Err Val) (cancelErr : Err)

/-- **shutdown() returns (no deadlock)** for every combination of `wait` and `cancel_futures`, at
    any moment relative to queued / running / finished / cancelled / dependency-waiting calls, with
    any number of workers: every run is finite (`C02.runs_are_finite`) and at the end of every
    maximal run the user thread has executed its whole script — every `shutdown` call in it,
    explicit, repeated or implied by the with-block, has returned.  (Hypotheses as in
    `C02.no_lost_futures`: in particular no call raises; with a raising call and two or more
    block-allocation workers the code deadlocks — finding D19, counterexample below.)
    `shutdown_returns_lim` is the stronger theorem (`WfLim`, limits only, instead of `WfRes`). -/
theorem shutdown_returns (hnf : NoFail eval) (hwf : WfCfg cfg) (hres : WfRes cfg)
    {script : List Cmd} {s : State Val Err}
    (hsc : (script.filter isSubmit).length ≤ cfg.calls.length)
    (h : Reachable cfg eval cancelErr script s) (hD : pg_depOk cfg s = true)
    (hst : Stuck cfg eval cancelErr s) : mainFinished s = true := by
  obtain ⟨hC, hL, hA, hb⟩ := progress_hyps_reachable_wfRes cfg eval cancelErr hnf hres hsc h
  exact (stuck_final cfg eval cancelErr hnf hwf hres hC hL.inv hA hD hb hst).2.1

/-- **shutdown() returns, for any program**: as `shutdown_returns`, with the limit-level hypothesis
    `WfLim` in place of `WfRes` — nothing is assumed of the requests of the program's calls (a call
    too big for `max_cores` is rejected by `submit`).  The stronger version. -/
theorem shutdown_returns_lim (hnf : NoFail eval) (hwf : WfCfg cfg) (hl : WfLim cfg)
    {script : List Cmd} {s : State Val Err}
    (hsc : (script.filter isSubmit).length ≤ cfg.calls.length)
    (h : Reachable cfg eval cancelErr script s) (hD : pg_depOk cfg s = true)
    (hst : Stuck cfg eval cancelErr s) : mainFinished s = true := by
  obtain ⟨hC, hL, hA, hb⟩ := progress_hyps_reachable_wfLim cfg eval cancelErr hnf hl hsc h
  have hF := accFits_reachable cfg eval cancelErr h
  exact (stuck_final_lim cfg eval cancelErr hnf hwf hl hF hC hL.inv hA hD hb hst).2.1

/-- **Repeatable**: `shutdown` on an executor that is already shut down does nothing and raises
    nothing, for all four `(wait, cancel_futures)` combinations. -/
theorem shutdown_again_is_noop (s : State Val Err) (w c : Bool) (rest : List Cmd)
    (hm : s.mainPc = .idle) (hs : s.script = .shutdown w c :: rest) (hc : s.frontOpen = false) :
    step cfg eval cancelErr s .mSdBegin = some { s with script := rest } := by
  simp [step, mainStep, hm, hs, hc]

/-- **Closed for new work**: after shutdown `submit()` raises instead of accepting the call. -/
theorem submit_after_shutdown_raises (s : State Val Err) (rest : List Cmd)
    (hm : s.mainPc = .idle) (hs : s.script = .submit :: rest) (hc : s.frontOpen = false)
    (hn : s.nsub < cfg.calls.length) :
    step cfg eval cancelErr s .mSubmit = none ∧
    step cfg eval cancelErr s .mSubmitRaise =
      some { s with script := rest, nsub := s.nsub + 1, raised := s.raised + 1 } := by
  constructor <;> simp [step, mainStep, hm, hs, hc, hn]

/-- **In a run without failing calls `shutdown` raises no error of its own**: the labels by which a
    shutdown re-raises a thread's exception are never enabled. -/
theorem shutdown_raises_nothing (hnf : NoFail eval) (hres : WfRes cfg)
    {script : List Cmd} {s : State Val Err}
    (hsc : (script.filter isSubmit).length ≤ cfg.calls.length)
    (h : Reachable cfg eval cancelErr script s) (b : Bool) :
    step cfg eval cancelErr s (.sdJoinThreadRaise b) = none ∧ step cfg eval cancelErr s .dJoinThreadRaise = none := by
  obtain ⟨_, hL, _, _⟩ := progress_hyps_reachable_wfRes cfg eval cancelErr hnf hres hsc h
  have := ax_fail_disabled cfg eval cancelErr hnf hL.inv.noDead
  exact ⟨this.2.1 b, this.2.2⟩

/-- `shutdown_raises_nothing` with `WfLim` in place of `WfRes` (the stronger version). -/
theorem shutdown_raises_nothing_lim (hnf : NoFail eval) (hl : WfLim cfg)
    {script : List Cmd} {s : State Val Err}
    (hsc : (script.filter isSubmit).length ≤ cfg.calls.length)
    (h : Reachable cfg eval cancelErr script s) (b : Bool) :
    step cfg eval cancelErr s (.sdJoinThreadRaise b) = none ∧ step cfg eval cancelErr s .dJoinThreadRaise = none := by
  obtain ⟨_, hL, _, _⟩ := progress_hyps_reachable_wfLim cfg eval cancelErr hnf hl hsc h
  have := ax_fail_disabled cfg eval cancelErr hnf hL.inv.noDead
  exact ⟨this.2.1 b, this.2.2⟩

/-- **Finding D19 (not repaired): with a raising call and two block-allocation workers the code
    deadlocks.**  Worker 1 executes the failing call and its thread terminates; its stop message is
    never consumed, so worker 0 waits in `future_queue.join()` forever and the user thread in
    `process.join()`: a reachable state with no enabled label in which the script is not finished. -/
def d19Cfg : Cfg := { resolver := false, block := some 2, calls := [{}] }
def d19Eval : Nat → List Nat → Except Nat Nat := fun _ _ => .error 7
def d19Run : List (Label Nat Nat) :=
  [.mSubmit, .wBoot 0, .wBoot 1, .wGet 1, .wSrn 1, .wSend 1, .wFailA 1, .wFailB 1, .wFailC 1,
   .mSdBegin, .sdPutStop false, .sdPutStop false, .wGet 0, .wProcStop 0, .wStopAck 0]

theorem C05_fails_with_failing_call_and_two_workers :
    ∃ s, run d19Cfg d19Eval 0 (init d19Cfg [.submit, .shutdown true false]) d19Run = some s ∧
      (Sys.enabled d19Cfg d19Eval 0 s).isEmpty = true ∧ mainFinished s = false := by
  refine ⟨_, rfl, ?_⟩
  decide

end ExecModel.C05
