import ExecModel.Proofs.SysAux
import ExecModel.Proofs.SysTerm
import ExecModel.Proofs.SysWait
import ExecModel.Lts.SysExplore
/-!
  C02 — No lost futures: every submitted future reaches a final state.

  Model: `Sys`.  A *maximal run* is a run that cannot be extended: it ends in a state where no label
  is enabled (`Stuck`) — polling loops that change nothing are not labels, so under a fair scheduler
  every execution of the real system is a maximal run of the model followed by idle polling.
  Theorems: (1) every run is finite (`runs_are_finite`: its length is bounded by a measure of the
  initial state that depends only on the script length and the number of consumer threads);
  (2) in the last state of every maximal run of a program in which no call raises, every accepted
  future is done (`no_lost_futures`), whatever the configuration, program, user script
  (submit / cancel / await / shutdown(wait, cancel_futures) in any order, any number of times) and
  interleaving.
-/
namespace ExecModel.C02
open ExecModel ExecModel.Sys

variable {Val Err : Type}
variable (cfg : Cfg) (eval : Nat → List Val → Except Err Val) (cancelErr : Err)

/-- **Every run is finite**: with or without failing calls, the number of steps of any run from the
    initial state is bounded by `mu (init …)`, which in closed form is
    `tm_W cfg * script.length + const(cfg)` (`tm_mu_init`). -/
theorem runs_are_finite {script : List Cmd} {s : State Val Err} (ls : List (Label Val Err))
    (h : run cfg eval cancelErr (init cfg script) ls = some s) :
    ls.length ≤ mu cfg (init cfg script : State Val Err) := by
  have := run_length_le cfg eval cancelErr ls h
  omega

/-- **No lost futures.**  Hypotheses: no submitted function raises (`NoFail`, the property's own
    hypothesis); futures passed as arguments belong to earlier calls (`WfCfg`); every request fits
    the executor's limits and a block allocation has a worker (`WfRes`; otherwise findings D10/D11);
    the script submits at most the program's calls; a future passed to an accepted call is the
    future of an accepted call (`pg_depOk`: a rejected submission returns no future).
    Conclusion: at the end of every maximal run every accepted future is done — result, exception
    or cancelled — including calls that were waiting for other futures, calls still queued at
    shutdown, and futures the user cancelled.
    (`no_lost_futures_lim` below is the stronger theorem: it replaces `WfRes`, a hypothesis on every
    call of the program, by `WfLim`, a hypothesis on the executor's limits only.) -/
theorem no_lost_futures (hnf : NoFail eval) (hwf : WfCfg cfg) (hres : WfRes cfg)
    {script : List Cmd} {s : State Val Err}
    (hsc : (script.filter isSubmit).length ≤ cfg.calls.length)
    (h : Reachable cfg eval cancelErr script s) (hD : pg_depOk cfg s = true)
    (hst : Stuck cfg eval cancelErr s) : allAcceptedDone s = true := by
  obtain ⟨hC, hL, hA, hb⟩ := progress_hyps_reachable_wfRes cfg eval cancelErr hnf hres hsc h
  exact (stuck_final cfg eval cancelErr hnf hwf hres hC hL.inv hA hD hb hst).1

/-- `allAcceptedDone` spelled out: every future handed out is in a final state. -/
theorem no_lost_futures_each (hnf : NoFail eval) (hwf : WfCfg cfg) (hres : WfRes cfg)
    {script : List Cmd} {s : State Val Err}
    (hsc : (script.filter isSubmit).length ≤ cfg.calls.length)
    (h : Reachable cfg eval cancelErr script s) (hD : pg_depOk cfg s = true)
    (hst : Stuck cfg eval cancelErr s) (i : Nat) (hi : i < s.nsub) (ha : futOf s i ≠ .absent) :
    (futOf s i).done = true := by
  have := no_lost_futures cfg eval cancelErr hnf hwf hres hsc h hD hst
  simp only [allAcceptedDone, List.all_eq_true, List.mem_range] at this
  have hi' := this i hi
  cases hf : futOf s i <;> simp_all [Fut.done]

/-- **Once `shutdown(wait=True)` (or the with-block) has returned, every future obtained from that
    executor is done**: in every reachable state in which the user thread is at the last step of a
    shutdown procedure with `wait = true` (the next step, `sdFinish`, is the return), every accepted
    future is done — calls that were waiting for other futures, calls still queued, cancelled ones.
    (The shutdown that found the handle open; a `shutdown(wait=True)` issued after an earlier
    shutdown is a no-op — finding D26.) -/
theorem all_done_when_wait_returns (hnf : NoFail eval) (hwf : WfCfg cfg) (hres : WfRes cfg)
    {script : List Cmd} {s : State Val Err}
    (hsc : (script.filter isSubmit).length ≤ cfg.calls.length)
    (h : Reachable cfg eval cancelErr script s) (hD : pg_depOk cfg s = true)
    {sd : Sd} (hm : s.mainPc = .inSd sd) (hpc : sd.pc = .finish) (hw : sd.wait = true) :
    allAcceptedDone s = true :=
  (after_wait_true cfg eval cancelErr hnf hwf hres hsc h hD hm hpc hw).1

/-! ### the same with a hypothesis on the limits only

  `submit` refuses a call whose slots exceed `max_cores` (`submitTooBig`, label `mSubmitRaise`), so
  only calls that fit ever get a future (`AccFits`, proved for every reachable state:
  `accFits_reachable`).  The theorems below therefore assume `WfLim cfg` — a block allocation has a
  worker; a `max_workers` limit that is the only limit allows one worker — instead of `WfRes cfg`,
  and nothing about the requests of the program's calls: they are the STRONGER versions (`WfRes`
  implies `WfLim` for every program with at least one call: `wfLim_of_wfRes_nonempty`; the only
  exception is the empty program with `max_workers = 0`, `wfRes_not_wfLim`, for which the `WfRes`
  versions remain). -/

/-- **No lost futures, for any program**: as `no_lost_futures`, with `WfLim` (limits only) in place
    of `WfRes` (every call fits).  Calls too big for `max_cores` are rejected at `submit`, get no
    future and are not "accepted". -/
theorem no_lost_futures_lim (hnf : NoFail eval) (hwf : WfCfg cfg) (hl : WfLim cfg)
    {script : List Cmd} {s : State Val Err}
    (hsc : (script.filter isSubmit).length ≤ cfg.calls.length)
    (h : Reachable cfg eval cancelErr script s) (hD : pg_depOk cfg s = true)
    (hst : Stuck cfg eval cancelErr s) : allAcceptedDone s = true := by
  obtain ⟨hC, hL, hA, hb⟩ := progress_hyps_reachable_wfLim cfg eval cancelErr hnf hl hsc h
  have hF := accFits_reachable cfg eval cancelErr h
  exact (stuck_final_lim cfg eval cancelErr hnf hwf hl hF hC hL.inv hA hD hb hst).1

/-- `no_lost_futures_each` with `WfLim` in place of `WfRes` (the stronger version). -/
theorem no_lost_futures_each_lim (hnf : NoFail eval) (hwf : WfCfg cfg) (hl : WfLim cfg)
    {script : List Cmd} {s : State Val Err}
    (hsc : (script.filter isSubmit).length ≤ cfg.calls.length)
    (h : Reachable cfg eval cancelErr script s) (hD : pg_depOk cfg s = true)
    (hst : Stuck cfg eval cancelErr s) (i : Nat) (hi : i < s.nsub) (ha : futOf s i ≠ .absent) :
    (futOf s i).done = true := by
  have := no_lost_futures_lim cfg eval cancelErr hnf hwf hl hsc h hD hst
  simp only [allAcceptedDone, List.all_eq_true, List.mem_range] at this
  have hi' := this i hi
  cases hf : futOf s i <;> simp_all [Fut.done]

/-- `all_done_when_wait_returns` with `WfLim` in place of `WfRes` (the stronger version). -/
theorem all_done_when_wait_returns_lim (hnf : NoFail eval) (hwf : WfCfg cfg) (hl : WfLim cfg)
    {script : List Cmd} {s : State Val Err}
    (hsc : (script.filter isSubmit).length ≤ cfg.calls.length)
    (h : Reachable cfg eval cancelErr script s) (hD : pg_depOk cfg s = true)
    {sd : Sd} (hm : s.mainPc = .inSd sd) (hpc : sd.pc = .finish) (hw : sd.wait = true) :
    allAcceptedDone s = true :=
  (after_wait_true_lim cfg eval cancelErr hnf hwf hl hsc h hD hm hpc hw).1

/-! Non-vacuity: a maximal run with a dependent call, a cancelled call and shutdown(wait=True). -/
def exCfg : Cfg := { resolver := true, block := some 1, calls := [{}, { deps := [0] }, {}] }
def exEval : Nat → List Nat → Except Nat Nat := fun i vs => .ok (i + vs.foldl (· + ·) 0)
def exScript : List Cmd := [.submit, .submit, .submit, .cancel 2, .shutdown true false]
def exRun : List (Label Nat Nat) :=
  [.mSubmit, .mSubmit, .mSubmit, .mCancel 2, .mSdBegin, .sdPutStop false, .wBoot 0,
   .rGet, .rDecideReady, .rForward, .rAck, .rGet, .rDecidePark, .rAck, .rGet, .rDecideReady, .rForward, .rAck, .rGet,
   .wGet 0, .wSrn 0, .wSend 0, .wFinish 0, .wAck 0, .rScanFwd 0, .wGet 0, .wSrn 0, .wAck 0,
   .wGet 0, .wSrn 0, .wSend 0, .wFinish 0, .wAck 0, .rBeginSd, .sdPutStop true,
   .wGet 0, .wProcStop 0, .wStopAck 0, .wJoinExit 0, .sdJoinThread true, .sdJoinQueue true, .sdFinish true,
   .rStopAck, .rJoinExit, .sdJoinThread false, .sdJoinQueue false, .sdFinish false]

example : ∃ s, run exCfg exEval 0 (init exCfg exScript) exRun = some s ∧
    allAcceptedDone s = true ∧ mainFinished s = true ∧ noProcessAlive s = true ∧ pg_depOk exCfg s = true ∧
    (Sys.enabled exCfg exEval 0 s).isEmpty = true := by
  refine ⟨_, rfl, ?_⟩
  decide

end ExecModel.C02
