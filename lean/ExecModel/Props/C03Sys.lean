import ExecModel.Proofs.SysVal
import ExecModel.Props.C03
/-!
  C03, part 2 — over the transition system `Sys` (resolver in front of a block-allocation or
  per-call executor).  `depsOf cfg i` is `Call.futures` of call `i` (part 1), `inputsOf s js` the
  values of those futures when all have finished, `eval i vs` the call on the substituted arguments
  (`call_subst_determined`: they are a function of the call and `vs`).
-/
namespace ExecModel.C03
open ExecModel ExecModel.Sys

variable {Val Err : Type}
variable (cfg : Cfg) (eval : Nat → List Val → Except Err Val) (cancelErr : Err)

/-- **The function is not started before all its inputs have finished**: a call handed to a worker
    process has every future among its arguments finished with a value — for every DAG, every
    placement of futures, every timing of submission, completion and polling, both executor kinds. -/
theorem not_before_inputs (hwf : WfCfg cfg) {script : List Cmd} {s : State Val Err}
    (h : Reachable cfg eval cancelErr script s) {i : Nat} (hi : i ∈ s.sentLog) :
    ∃ vs, inputsOf s (depsOf cfg i) = some vs :=
  Sys.not_before_inputs cfg eval cancelErr hwf h hi

/-- **It receives their results in exactly those positions**: the value delivered is `eval i` on
    the values of the inputs, in traversal order. -/
theorem receives_input_values (hwf : WfCfg cfg) {script : List Cmd} {s : State Val Err}
    (h : Reachable cfg eval cancelErr script s) {i : Nat} {v : Val} (hf : futOf s i = .finished v) :
    ∃ vs, inputsOf s (depsOf cfg i) = some vs ∧ eval i vs = .ok v :=
  Sys.result_fidelity cfg eval cancelErr hwf h hf

/-- **Every acyclic program yields the values of sequential evaluation in dependency order**,
    however submission, completion and polling interleave. -/
theorem equals_sequential_evaluation (hwf : WfCfg cfg) {script : List Cmd} {s : State Val Err}
    (h : Reachable cfg eval cancelErr script s) {i : Nat} {v : Val} (hf : futOf s i = .finished v) :
    seqEval cfg eval (i + 1) i = some v :=
  Sys.seq_eval cfg eval cancelErr hwf h hf

/-! Non-vacuity: a diamond (0; 1 and 2 depend on 0; 3 depends on 1 and 2) evaluated sequentially. -/
def exCfg : Cfg := { resolver := true, block := none, maxCores := some 2,
                     calls := [{}, { deps := [0] }, { deps := [0, 0] }, { deps := [1, 2] }] }
def exEval : Nat → List Nat → Except Nat Nat := fun i vs => .ok (i + 1 + vs.foldl (· + ·) 0)

example : seqEval exCfg exEval 4 3 = some (4 + (2 + 1) + (3 + 1 + 1)) := by decide

end ExecModel.C03
