import ExecModel.Res
import ExecModel.Lts.Sys
import ExecModel.Props.C16
/-!
  C10 — Per-call resources are honoured, scoped to that call, never silently dropped.
-/
namespace ExecModel.C10
open ExecModel ExecModel.Res ExecModel.Cmd ExecModel.Launcher

/-- **Precedence**: every key the call specifies wins, the executor level supplies only what the
    call leaves unspecified. -/
theorem precedence (ex pc : RD) :
    (effective ex pc).threads = (match pc.threads with | some t => some t | none => ex.threads) ∧
    (effective ex pc).gpus = (match pc.gpus with | some g => some g | none => ex.gpus) ∧
    (effective ex pc).cwd = (match pc.cwd with | some d => some d | none => ex.cwd) ∧
    (effective ex pc).oversub = (match pc.oversub with | some o => some o | none => ex.oversub) ∧
    (effective ex pc).extra = (match pc.extra with | some a => some a | none => ex.extra) := by
  refine ⟨?_, ?_, ?_, ?_, ?_⟩ <;> simp only [effective] <;> split <;> simp_all

/-- **Precedence for `cores`**, with the documented exception (per-call `cores = 1` means "unset"
    under an executor-level `cores ≥ 1`). -/
theorem precedence_cores (ex pc : RD) :
    (effective ex pc).cores = some (match pc.cores with
      | none => execCores ex
      | some k => if k = 1 then (if execCores ex ≥ 1 then execCores ex else 1) else k) := by
  simp only [effective, mergeCores]
  cases pc.cores with
  | none => rfl
  | some k =>
    by_cases hk : k = 1 <;> by_cases he : execCores ex ≥ 1 <;> simp [hk, he]

/-- a per-call `cores ≠ 1` is honoured exactly -/
theorem cores_honoured (ex pc : RD) (k : Nat) (h : pc.cores = some k) (hk : k ≠ 1) :
    (effective ex pc).cores = some k := by
  simp [effective, mergeCores, h, hk]

/-- **Scoped to that call / no leak**: dispatching any sequence of calls leaves the executor-level
    dictionary as it was, and the keywords of call `i` are `effective ex (pcs[i])`: they depend on
    the executor-level dictionary and that call's own dictionary only. -/
theorem frame (ex : RD) (pcs : List RD) :
    dispatchAll ex pcs = (ex, pcs.map (effective ex)) := by
  induction pcs with
  | nil => rfl
  | cons pc rest ih => simp [dispatchAll, dispatchOne, ih]

/-- the srun request corresponding to the effective resources of a call -/
def effReq (ex pc : RD) : SrunReq :=
  ⟨mergeCores ex pc, (effective ex pc).cwd.join, (effective ex pc).threads.getD 1, (effective ex pc).gpus.getD 0,
   (effective ex pc).oversub.getD false, (effective ex pc).extra.getD []⟩

/-- **The worker is launched with the effective resources (srun)**: srun's option grammar
    (`Launcher.srunParse`, the SPEC of C16) reads back exactly the effective cores, working
    directory, threads, GPUs, oversubscription flag and extra arguments, followed by the
    unmodified worker command; the process's working directory is the effective `cwd`. -/
theorem launch_srun_exact (ex pc : RD) (c : Tok) (rest : List Tok) (hc : C16.IsCmd c)
    (hextra : ∀ t ∈ ((effective ex pc).extra.getD []), C16.Opaque t) :
    ∃ argv, launch .srun (effective ex pc) (c :: rest) = .ok (argv, (effective ex pc).cwd.join) ∧
      srunParse argv = some (C16.reqOf (effReq ex pc), c :: rest) := by
  refine ⟨_, rfl, ?_⟩
  have : (effective ex pc).cores.getD 1 = mergeCores ex pc := by simp [effective]
  rw [this]
  exact C16.srun_exact (effReq ex pc) c rest hc hextra

/-- **… (local launcher)**: `mpiexec -n cores [--oversubscribe]` for the effective cores, started
    in the effective working directory; keys the local spawner does not take are not dropped
    silently: the launch fails. -/
theorem launch_local_exact (ex pc : RD) (c : Tok) (rest : List Tok) (hc : C16.IsMpiCmd c)
    (hg : (effective ex pc).gpus = none) (he : (effective ex pc).extra = none) :
    ∃ argv, launch .mpiexec (effective ex pc) (c :: rest) = .ok (argv, (effective ex pc).cwd.join) ∧
      mpiParse argv = some (if mergeCores ex pc = 1 then { procs := "1".toList, oversub := false }
        else { procs := natStr (mergeCores ex pc), oversub := (effective ex pc).oversub.getD false }, c :: rest) := by
  refine ⟨mpiexecPrefix (mergeCores ex pc) ((effective ex pc).oversub.getD false) ++ (c :: rest), ?_, ?_⟩
  · have : (effective ex pc).cores.getD 1 = mergeCores ex pc := by simp [effective]
    simp [launch, hg, he, this]
  · exact C16.mpiexec_exact _ _ c rest hc

theorem local_rejects_unsupported (kw : RD) (cmd : List Tok) (h : kw.gpus.isSome ∨ kw.extra.isSome) :
    launch .mpiexec kw cmd = .error "TypeError" := by
  simp [launch, h]

/-- **Block allocation rejects a non-empty per-call dictionary** instead of ignoring it. -/
theorem block_rejects : submitBlock false = .error "ValueError" ∧ submitBlock true = .ok () := by
  constructor <;> rfl

/-- slots used by the accounting are those of the effective cores times the effective threads (the
    per-call `threads_per_core`, else the executor-level one: fix 8703212) -/
theorem slots_eq (ex pc : RD) : slots ex pc = ((effective ex pc).cores.getD 1) * ((effective ex pc).threads).getD 1 := by
  simp [slots, effective]

/-- **The two models of the slot computation agree**: `Res.slots` (this file: what the dispatcher
    accounts for a call, C10) is `Sys.slotsOf` (the transition system of C07 / C19) for the same
    executor-level cores and per-call request — the resource ceiling is proved about the slots the
    merge rule produces. -/
theorem slots_agree_with_sys (ex pc : RD) (c : Sys.Cfg) (h : c.execCores = execCores ex)
    (ht : c.execThreads = ex.threads.getD 1) :
    slots ex pc = Sys.slotsOf c { cores := pc.cores, threads := pc.threads } := by
  simp only [slots, mergeCores, Sys.slotsOf, h, ht]
  cases pc.cores <;> cases pc.threads <;> simp

/-! ### file mode -/

/-- **Precedence in file mode**: every key the call specifies wins (cores included: file mode has no
    "1 means unset" exception), the executor level supplies only what the call leaves unspecified. -/
theorem file_precedence (ex pc : RD) :
    (fileEffective ex pc).cores = (match pc.cores with | some c => some c | none => ex.cores) ∧
    (fileEffective ex pc).threads = (match pc.threads with | some t => some t | none => ex.threads) ∧
    (fileEffective ex pc).gpus = (match pc.gpus with | some g => some g | none => ex.gpus) ∧
    (fileEffective ex pc).cwd = (match pc.cwd with | some d => some d | none => ex.cwd) ∧
    (fileEffective ex pc).oversub = (match pc.oversub with | some o => some o | none => ex.oversub) ∧
    (fileEffective ex pc).extra = (match pc.extra with | some a => some a | none => ex.extra) := by
  refine ⟨?_, ?_, ?_, ?_, ?_, ?_⟩ <;> simp only [fileEffective] <;> split <;> simp_all

/-- **Scoped to that call / no leak, file mode**: a sequence of tasks leaves the executor-level
    dictionary and every caller's dictionary (in particular the shared default `{}` of `submit`) as
    they were; the resources of task `i` are `fileEffective ex (pcs[i])`. -/
theorem file_frame (ex : RD) (pcs : List RD) :
    fileDispatchAll ex pcs = (ex, pcs, pcs.map (fileEffective ex)) := by
  induction pcs with
  | nil => rfl
  | cons pc rest ih => simp [fileDispatchAll, fileDispatchOne, ih]

/-- a call without a per-call dictionary gets the executor-level resources exactly -/
theorem file_plain_call (ex : RD) : fileEffective ex {} = ex := by
  cases ex; simp [fileEffective]

/-- the defaults only fill in: a given executor-level `cores` / `cwd` survives -/
theorem file_defaults_keep (ex : RD) (c : Nat) (h : ex.cores = some c) : (fileDefaults ex).cores = some c := by
  simp [fileDefaults, h]

/-- **The task is launched with the effective cores in the effective working directory (file mode)**:
    `mpiexec`'s option grammar (the SPEC of C16) reads the effective number of cores back from the
    command, followed by the unmodified worker command; the `cwd` given to `Popen` is the effective one. -/
theorem file_launch_exact (ex pc : RD) (py s p f cd : Tok) (hpy : C16.IsMpiCmd py)
    (d : Option Tok) (hd : (fileEffective ex pc).cwd = some d) :
    let n := (fileEffective ex pc).cores.getD 1
    (fileLaunch (fileEffective ex pc) py s p f cd).2 = d ∧
    mpiParse (fileLaunch (fileEffective ex pc) py s p f cd).1 =
      some (if n > 1 then { procs := natStr n, oversub := false } else { procs := "1".toList, oversub := false },
            [py, if n > 1 then p else s, f]) := by
  intro n
  refine ⟨by simp [fileLaunch, hd], ?_⟩
  by_cases h : n > 1
  · have h1 : ¬ n = 1 := by omega
    have := C16.mpiexec_exact n false py [p, f] hpy
    simp only [mpiexecPrefix, h1, if_false, overSeg, List.cons_append, List.nil_append, List.append_nil] at this
    simp only [fileLaunch, fileCmd, n, h, if_true] at *
    simpa [h1] using this
  · have := C16.mpiexec_exact 1 false py [s, f] hpy
    simp only [mpiexecPrefix, if_true, List.nil_append] at this
    simp only [fileLaunch, fileCmd, n, h, if_false] at *
    simpa using this

/-! Non-vacuity: three calls with different requests on one executor-level dictionary. -/
example :
    dispatchAll { cores := some 2, cwd := some none, oversub := some false }
      [{ cores := some 4, cwd := some (some "/a b".toList) }, {}, { cores := some 1, threads := some 2, oversub := some true }]
    = ({ cores := some 2, cwd := some none, oversub := some false },
       [{ cores := some 4, cwd := some (some "/a b".toList), oversub := some false },
        { cores := some 2, cwd := some none, oversub := some false },
        { cores := some 2, threads := some 2, cwd := some none, oversub := some true }]) := by decide

end ExecModel.C10
