import ExecModel.Proofs.SysCeil
import ExecModel.Proofs.SysFifo
import ExecModel.Proofs.SysOnce
/-!
  C11 — Process model: fresh process per call, or persistent worker running in order.

  `w.served` lists the calls handed to the worker's process (one process per worker thread:
  spawned at `wBoot`, stopped at `wProcStop`); `s.sentLog` the global order of hand-overs.
-/
namespace ExecModel.C11
open ExecModel ExecModel.Sys

variable {Val Err : Type}
variable (cfg : Cfg) (eval : Nat → List Val → Except Err Val) (cancelErr : Err)

/-- **Without block allocation every process is used for at most one call.** -/
theorem fresh_process {script : List Cmd} {s : State Val Err} (h : Reachable cfg eval cancelErr script s)
    (hb : cfg.block = none) {k : Nat} {w : Worker Val Err} (hk : s.wk[k]? = some w) : w.served.length ≤ 1 :=
  Sys.fresh_process cfg eval cancelErr h hb hk

/-- **With block allocation a worker executes the calls it takes strictly one after another**:
    at most `n` calls execute at any instant on `n` persistent workers, one per worker. -/
theorem persistent_sequential {script : List Cmd} {s : State Val Err} (h : Reachable cfg eval cancelErr script s)
    {n : Nat} (hb : cfg.block = some n) : execCount s ≤ n :=
  Sys.ceiling_block cfg eval cancelErr h hb

/-- **A single worker executes calls in the order they were submitted** (calls that carry no
    futures; with or without the dependency resolver in front): the hand-over log is increasing in
    the submission index. -/
theorem single_worker_fifo {script : List Cmd} {s : State Val Err}
    (h : Reachable cfg eval cancelErr script s) (hb : cfg.block = some 1)
    (hd : ∀ i, depsOf cfg i = []) : s.sentLog.Pairwise (· < ·) :=
  Sys.single_worker_fifo cfg eval cancelErr h hb hd

/-- **Two different workers never serve the same call** (`served` is the list of calls handed to
    the worker's process), and no worker serves a call twice; in every configuration. -/
theorem served_disjoint {script : List Cmd} {s : State Val Err}
    (h : Reachable cfg eval cancelErr script s) {k1 k2 : Nat} {w1 w2 : Worker Val Err}
    (hne : k1 ≠ k2) (h1 : s.wk[k1]? = some w1) (h2 : s.wk[k2]? = some w2) :
    ∀ i ∈ w1.served, i ∉ w2.served :=
  Sys.served_disjoint cfg eval cancelErr h hne h1 h2

/-- **A worker's process receives each call at most once, and only calls recorded in the global
    hand-over log.** -/
theorem served_nodup {script : List Cmd} {s : State Val Err}
    (h : Reachable cfg eval cancelErr script s) {k : Nat} {w : Worker Val Err}
    (hk : s.wk[k]? = some w) : w.served.Nodup ∧ ∀ i ∈ w.served, i ∈ s.sentLog :=
  Sys.served_nodup_sub cfg eval cancelErr h hk

/-! Non-vacuity: one worker behind the resolver, three calls, the second cancelled while queued. -/
def exCfg : Cfg := { resolver := true, block := some 1, calls := [{}, {}, {}] }
def exEval : Nat → List Nat → Except Nat Nat := fun i _ => .ok i
def exRun : List (Label Nat Nat) :=
  [.mSubmit, .mSubmit, .mSubmit, .mCancel 1, .rGet, .rDecideReady, .rForward, .rAck, .rGet, .rDecideReady, .rForward,
   .rAck, .rGet, .rDecideReady, .rForward, .rAck, .wBoot 0, .wGet 0, .wSrn 0, .wSend 0, .wFinish 0, .wAck 0,
   .wGet 0, .wSrn 0, .wAck 0, .wGet 0, .wSrn 0, .wSend 0]

example : ∃ s, run exCfg exEval 0 (init exCfg [.submit, .submit, .submit, .cancel 1]) exRun = some s ∧
    s.sentLog = [0, 2] := by
  refine ⟨_, rfl, ?_⟩
  decide

end ExecModel.C11
