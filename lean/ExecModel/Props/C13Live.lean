import ExecModel.Proofs.FileLive
import ExecModel.Props.C13
/-!
  C13 (liveness) — File-based executor, repaired code (`⟨true, true⟩`), runs without crash labels:
  every run is finite (at most `11 * ncalls` labels) and at the end of every maximal run the loop
  thread is idle, every worker process has exited (none crashed), and every submitted call has a
  finished future — provided no future was dropped as a duplicate of an in-flight call (finding
  D13, not repaired).  With a dropped future, a later call that takes it as input can stay queued
  for ever: `C13_dependent_of_dropped_duplicate_blocks`.

  No well-formedness of the initial directory is needed for liveness (`DirOK` / `KeyOK` only enter
  `file_no_lost_futures`, for the VALUES of the futures).
-/
namespace ExecModel.C13
open ExecModel ExecModel.FileExec

variable {K V : Type} [DecidableEq K]

/-- the crash labels -/
def isCrash : Label → Bool
  | .crashProc _ => true
  | .crashWrite _ => true
  | _ => false

theorem isCrash_eq : isCrash = crashLabel := by
  funext l
  cases l <;> rfl

section
variable (ncalls : Nat) (deps : Nat → List Nat) (key : Nat → K) (eval : Nat → List V → V) (dflt : V)

/-- nothing but a crash is enabled: the end of a maximal crash-free run -/
def Stuck (s : State K V) : Prop :=
  ∀ l, isCrash l = false → step ⟨true, true⟩ ncalls deps key eval s l = none

theorem stuck_iff (s : State K V) : Stuck ncalls deps key eval s ↔ StuckAt ncalls deps key eval s := by
  simp only [Stuck, StuckAt, isCrash_eq]

omit [DecidableEq K] in
theorem crashFree_iff (ls : List Label) : ls.all (fun l => !isCrash l) = true ↔ CrashFree ls := by
  simp only [CrashFree, isCrash_eq]

/-- **A. Every crash-free run is finite**: at most 11 labels per call (submit, take, lookup,
    writeInput, launch, collect and the five steps of the worker process), for every value of the
    switches and every initial directory. -/
theorem file_run_length_le (v : Variant) (d : Dir K V) {s : State K V} (ls : List Label)
    (hc : ls.all (fun l => !isCrash l) = true)
    (h : run v ncalls deps key eval (init d ncalls) ls = some s) : ls.length ≤ 11 * ncalls :=
  run_length_le v ncalls deps key eval d ls ((crashFree_iff ls).mp hc) h

/-- **B (general form). The end of a maximal crash-free run**, from ANY initial directory: the loop
    thread is idle, `memory_dict` is empty, every worker process has exited (none crashed), every
    submitted call is finished unless it was dropped (D13) or is still queued — and the head of a
    non-empty queue has an input whose future was dropped and is not finished. -/
theorem file_progress_general (hwf : WfDeps deps) (d : Dir K V) {s : State K V} (ls : List Label)
    (hc : ls.all (fun l => !isCrash l) = true)
    (h : run ⟨true, true⟩ ncalls deps key eval (init (restart d) ncalls) ls = some s)
    (hS : Stuck ncalls deps key eval s) :
    s.loop = .idle ∧ s.memory = [] ∧
    (∀ (p : Nat) (pr : Proc K V), s.procs[p]? = some pr → pr.pc = .exited) ∧
    (∀ i, i < s.nsub → i ∉ s.queue → i ∉ s.dropped → ∃ x, futOf s i = .finished x) ∧
    (∀ i rest, s.queue = i :: rest → ∃ j, j ∈ deps i ∧ j ∈ s.dropped ∧ ¬ ∃ x, futOf s j = .finished x) := by
  obtain ⟨hQ, hI⟩ := session_inv ncalls deps key eval (restart d) ls ((crashFree_iff ls).mp hc) h
  exact stuck_general ncalls deps key eval hwf hQ hI ((stuck_iff ncalls deps key eval s).mp hS)

/-- **B, when no call takes a dropped future as input**: the conclusion asked for. -/
theorem file_progress_no_dropped_input (hwf : WfDeps deps) (d : Dir K V) {s : State K V} (ls : List Label)
    (hc : ls.all (fun l => !isCrash l) = true)
    (h : run ⟨true, true⟩ ncalls deps key eval (init (restart d) ncalls) ls = some s)
    (hS : Stuck ncalls deps key eval s) (hdd : ∀ i j, j ∈ deps i → j ∉ s.dropped) :
    s.loop = .idle ∧ s.queue = [] ∧ (∀ i, i < s.nsub → i ∉ s.dropped → ∃ x, futOf s i = .finished x) ∧
    (∀ (p : Nat) (pr : Proc K V), s.procs[p]? = some pr → pr.pc = .exited) := by
  obtain ⟨hQ, hI⟩ := session_inv ncalls deps key eval (restart d) ls ((crashFree_iff ls).mp hc) h
  exact stuck_progress ncalls deps key eval hwf hQ hI ((stuck_iff ncalls deps key eval s).mp hS) hdd

/-- **B. Progress**: at the end of a maximal crash-free run in which no future was dropped, the
    loop thread is idle with an empty queue, every submitted call has a finished future and every
    worker process has exited. -/
theorem file_progress (hwf : WfDeps deps) (d : Dir K V) {s : State K V} (ls : List Label)
    (hc : ls.all (fun l => !isCrash l) = true)
    (h : run ⟨true, true⟩ ncalls deps key eval (init (restart d) ncalls) ls = some s)
    (hS : Stuck ncalls deps key eval s) (hdrop : s.dropped = []) :
    s.loop = .idle ∧ s.queue = [] ∧ (∀ i, i < s.nsub → ∃ x, futOf s i = .finished x) ∧
    (∀ (p : Nat) (pr : Proc K V), s.procs[p]? = some pr → pr.pc = .exited) := by
  have hno : ∀ i, i ∉ s.dropped := by intro i; rw [hdrop]; exact List.not_mem_nil
  obtain ⟨h1, h2, h3, h4⟩ := file_progress_no_dropped_input ncalls deps key eval hwf d ls hc h hS (fun _ j _ => hno j)
  exact ⟨h1, h2, fun i hi => h3 i hi (hno i), h4⟩

/-- **Injective task keys: no future is ever dropped** — in every reachable state, for every value
    of the switches, crashes included. -/
theorem no_drop_of_injective (v : Variant) (hinj : ∀ i j, i < ncalls → j < ncalls → key i = key j → i = j)
    (d : Dir K V) {s : State K V} (ls : List Label)
    (h : run v ncalls deps key eval (init d ncalls) ls = some s) : s.dropped = [] :=
  nodrop_run v ncalls deps key eval hinj ls (qinv_init ncalls key d) rfl h

/-- **C. No lost futures**: a crash-free session on a directory left by earlier sessions, run until
    nothing is enabled, without dropped duplicates: every submitted call has a finished future
    holding the value of sequential evaluation. -/
theorem file_no_lost_futures (hwf : WfDeps deps) (hk : KeyOK deps key eval dflt) (d : Dir K V)
    (hd : DirOK deps key eval dflt d)
    (hr : ∀ k x, (Dir.get d k).ready = some (some x) → ∀ i, key i = k → x = specVal deps eval dflt i)
    {s : State K V} (ls : List Label) (hc : ls.all (fun l => !isCrash l) = true)
    (h : run ⟨true, true⟩ ncalls deps key eval (init (restart d) ncalls) ls = some s)
    (hS : Stuck ncalls deps key eval s) (hdrop : s.dropped = []) :
    ls.length ≤ 11 * ncalls ∧ ∀ i, i < s.nsub → futOf s i = .finished (specVal deps eval dflt i) := by
  refine ⟨file_run_length_le ncalls deps key eval _ (restart d) ls hc h, ?_⟩
  intro i hi
  obtain ⟨x, hx⟩ := (file_progress ncalls deps key eval hwf d ls hc h hS hdrop).2.2.1 i hi
  have := file_values ⟨true, true⟩ ncalls deps key eval dflt hwf hk ls
    (session_start ncalls deps key eval dflt d hd hr) h i x hx
  rw [hx, this]

/-- C for injective task keys -/
theorem file_no_lost_futures_of_injective (hwf : WfDeps deps) (hk : KeyOK deps key eval dflt)
    (hinj : ∀ i j, i < ncalls → j < ncalls → key i = key j → i = j) (d : Dir K V)
    (hd : DirOK deps key eval dflt d)
    (hr : ∀ k x, (Dir.get d k).ready = some (some x) → ∀ i, key i = k → x = specVal deps eval dflt i)
    {s : State K V} (ls : List Label) (hc : ls.all (fun l => !isCrash l) = true)
    (h : run ⟨true, true⟩ ncalls deps key eval (init (restart d) ncalls) ls = some s)
    (hS : Stuck ncalls deps key eval s) :
    ls.length ≤ 11 * ncalls ∧ ∀ i, i < s.nsub → futOf s i = .finished (specVal deps eval dflt i) :=
  file_no_lost_futures ncalls deps key eval dflt hwf hk d hd hr ls hc h hS
    (no_drop_of_injective ncalls deps key eval _ hinj (restart d) ls h)

/-- decision procedure for `Stuck` on concrete states -/
theorem stuck_of_stuckB {s : State K V} (h : stuckB ncalls deps key eval s = true) : Stuck ncalls deps key eval s :=
  (stuck_iff ncalls deps key eval s).mpr (stuckAt_of_stuckB ncalls deps key eval h)

end

/-- **Consequence of finding D13 (not repaired)**: `file_progress` is false without `dropped = []`.
    Call 1 is identical to call 0 and is submitted while call 0 is in flight: its future is dropped.
    Call 2 takes the future of call 1 as input; once call 0 has been collected the key is no longer
    in `memory_dict`, so the loop thread waits for future 1 — for ever.  The run is maximal
    (`Stuck`), call 2 was not dropped, is still queued and its future stays pending. -/
theorem C13_dependent_of_dropped_duplicate_blocks :
    ∃ s, run (K := Nat) (V := Nat) ⟨true, true⟩ 3 (fun i => if i = 2 then [1] else []) (fun i => if i = 2 then 8 else 7)
      (fun _ _ => 5) (init (restart []) 3)
      [.submit, .submit, .submit, .take, .lookup, .writeInput, .launch, .take, .lookup, .pLoad 0, .pCall 0, .pStage 0,
       .pWrite 0, .pPublish 0, .collect 0] = some s ∧
      Stuck 3 (fun i => if i = 2 then [1] else []) (fun i => if i = 2 then 8 else 7) (fun _ _ => 5) s ∧
      WfDeps (fun i => if i = 2 then [1] else []) ∧
      s.nsub = 3 ∧ s.dropped = [1] ∧ s.queue = [2] ∧ futOf s 0 = .finished 5 ∧ futOf s 1 = .pending ∧
      futOf s 2 = .pending := by
  refine ⟨_, rfl, ?_, ?_, ?_⟩
  · apply stuck_of_stuckB
    decide
  · intro i j hj
    dsimp only at hj
    split at hj
    · rename_i hi; subst hi; simp at hj; omega
    · cases hj
  · decide

/-- non-vacuity: three calls, call 1 takes future 0, call 2 takes futures 0 and 1; the directory
    holds the result of call 0 and a stale input file of call 1.  The run below is crash-free,
    ends in a stuck state, drops nothing, and all three futures hold the sequential values. -/
example :
    ∃ s, run (K := Nat) (V := Nat) ⟨true, true⟩ 3 (fun i => if i = 1 then [0] else if i = 2 then [0, 1] else []) id
      (fun i vs => i + 10 + vs.foldl (· + ·) 0) (init (restart [(0, { out := some 10 }), (1, { inp := true })]) 3)
      [.submit, .submit, .submit, .take, .lookup, .take, .lookup, .writeInput, .launch, .take, .lookup, .writeInput,
       .pLoad 0, .pCall 0, .pStage 0, .pWrite 0, .pPublish 0, .launch, .collect 0, .pLoad 1, .pCall 1, .pStage 1,
       .pWrite 1, .pPublish 1, .collect 0, .collect 0] = some s ∧
      Stuck 3 (fun i => if i = 1 then [0] else if i = 2 then [0, 1] else []) id (fun i vs => i + 10 + vs.foldl (· + ·) 0) s ∧
      s.dropped = [] ∧ s.nsub = 3 ∧ s.loop = .idle ∧ s.queue = [] ∧
      futOf s 0 = .finished 10 ∧ futOf s 1 = .finished 21 ∧ futOf s 2 = .finished 43 ∧ s.executed = [1, 2] := by
  refine ⟨_, rfl, ?_, ?_⟩
  · apply stuck_of_stuckB
    decide
  · decide

end ExecModel.C13
