import ExecModel.Lts.Pub
/-!
  C14 — crash atomicity, the part below the atomic publish step of `Cache` / `FileExec`:
  under the publication discipline (`Pub.okOp`) no state of the file system — hence no instant at
  which a process can be killed — shows a final name whose file is still open for writing, and the
  bytes under a final name are never written to.  Without the discipline (a move across file
  systems, which degrades to create + copy) the invariant fails: proved counterexample.
-/
namespace ExecModel.C14Pub
open ExecModel ExecModel.Pub

theorem inv_map (s : State) (upd : File → File) (h : Inv s)
    (hupd : ∀ f ∈ s, (upd f).path.final = true → (f.path.final = true → f.writers = 0) → (upd f).writers = 0) :
    Inv (s.map upd) := by
  intro f' hf' hfin
  simp only [List.mem_map] at hf'
  obtain ⟨f, hm, rfl⟩ := hf'
  exact hupd f hm hfin (h f hm)

/-- One disciplined call keeps the invariant. -/
theorem inv_step (s : State) (op : Op) (h : Inv s) (ok : okOp s op = true) : Inv (step s op) := by
  cases op with
  | create p =>
    intro f' hf' hfin
    simp only [okOp, Bool.not_eq_true'] at ok
    simp only [step, List.mem_append, List.mem_filter, List.mem_singleton] at hf'
    rcases hf' with ⟨hm, _⟩ | rfl
    · exact h f' hm hfin
    · simp [ok] at hfin
  | reopen p =>
    simp only [okOp, Bool.not_eq_true'] at ok
    apply inv_map s _ h
    intro f _ hfin hw
    by_cases hp : f.path = p
    · rw [if_pos hp] at hfin
      have : p.final = true := by simpa [hp] using hfin
      simp [ok] at this
    · rw [if_neg hp] at hfin ⊢
      exact hw hfin
  | write p n =>
    simp only [okOp, Bool.not_eq_true'] at ok
    apply inv_map s _ h
    intro f _ hfin hw
    by_cases hp : f.path = p
    · rw [if_pos hp] at hfin
      have : p.final = true := by simpa [hp] using hfin
      simp [ok] at this
    · rw [if_neg hp] at hfin ⊢
      exact hw hfin
  | close p =>
    apply inv_map s _ h
    intro f _ hfin hw
    by_cases hp : f.path = p
    · rw [if_pos hp] at hfin ⊢
      have hz : f.writers = 0 := hw (by simpa using hfin)
      simp [hz]
    · rw [if_neg hp] at hfin ⊢
      exact hw hfin
  | rename p q =>
    by_cases hfs : p.fs ≠ q.fs
    · simpa [step, hfs] using h
    · have hI : Inv (s.filter (fun f => f.path ≠ q)) := fun f hf hfin => h f (List.mem_filter.mp hf).1 hfin
      simp only [step, hfs, if_false]
      apply inv_map _ _ hI
      intro f hm hfin hw
      by_cases hp : f.path = p
      · rw [if_pos hp] at hfin ⊢
        have hq : q.final = true := by simpa [setPath] using hfin
        simp only [okOp, hq, Bool.not_true, Bool.false_or, Bool.and_eq_true, List.all_eq_true] at ok
        have := ok.2 f (List.mem_filter.mp hm).1
        simpa [hp, setPath] using this
      · rw [if_neg hp] at hfin ⊢
        exact hw hfin
  | unlink p =>
    intro f' hf' hfin
    simp only [step, List.mem_filter] at hf'
    exact h f' hf'.1 hfin
  | crash => exact h

/-- **Every state of a disciplined trace is safe** — in particular the state at whatever call the
    writing process is killed after: for every prefix of the calls, no final name is open for
    writing. -/
theorem inv_every_prefix (ops : List Op) : ∀ (s s' : State), Inv s → runD s ops = some s' →
    ∀ k, Inv (run s (ops.take k)) := by
  induction ops with
  | nil => intro s s' h _ k; simpa [run] using h
  | cons op ops ih =>
    intro s s' h hr k
    simp only [runD, stepD] at hr
    by_cases ok : okOp s op = true
    · simp only [ok, if_true] at hr
      cases k with
      | zero => simpa [run] using h
      | succ k =>
        simp only [List.take_succ_cons, run, List.foldl_cons]
        exact ih (step s op) s' (inv_step s op h ok) hr k
    · simp [ok] at hr

/-- the final state of a disciplined trace is safe, and `runD` computes what the kernel does -/
theorem inv_runD (ops : List Op) (s s' : State) (h : Inv s) (hr : runD s ops = some s') : Inv s' ∧ s' = run s ops := by
  induction ops generalizing s with
  | nil => simp only [runD, Option.some.injEq] at hr; subst hr; exact ⟨h, rfl⟩
  | cons op ops ih =>
    simp only [runD, stepD] at hr
    by_cases ok : okOp s op = true
    · simp only [ok, if_true] at hr
      have := ih (step s op) (inv_step s op h ok) hr
      exact ⟨this.1, by simpa [run] using this.2⟩
    · simp [ok] at hr

theorem finals_map (s : State) (upd : File → File)
    (h1 : ∀ f, f.path.final = true → upd f = f)
    (h2 : ∀ f, f.path.final = false → (upd f).path.final = false) :
    finals (s.map upd) = finals s := by
  induction s with
  | nil => rfl
  | cons f s ih =>
    simp only [finals] at ih ⊢
    cases hfin : f.path.final with
    | true => simp [List.filter, h1 f hfin, hfin, ih]
    | false => simp [List.filter, h2 f hfin, hfin, ih]

theorem finals_map_meta (s : State) (upd : File → File)
    (h1 : ∀ f, (upd f).path = f.path ∧ (upd f).bytes = f.bytes) :
    finals (s.map upd) = finals s := by
  induction s with
  | nil => rfl
  | cons f s ih =>
    simp only [finals] at ih ⊢
    cases hfin : f.path.final with
    | true => simp [List.filter, (h1 f).1, (h1 f).2, hfin, ih]
    | false => simp [List.filter, (h1 f).1, hfin, ih]

/-- **A published entry is never written to**: a disciplined `create` / `reopen` / `write` /
    `close` / `crash` leaves every final name with exactly the bytes it had. -/
theorem finals_untouched (s : State) (op : Op) (ok : okOp s op = true)
    (hop : match op with | .rename _ _ => False | .unlink _ => False | _ => True) :
    finals (step s op) = finals s := by
  cases op with
  | create p =>
    simp only [okOp, Bool.not_eq_true'] at ok
    simp only [finals, step, List.filter_append, List.map_append]
    have h1 : List.filter (fun f : File => f.path.final) [{ path := p, bytes := 0, writers := 1 }] = [] := by simp [ok]
    have h2 : List.filter (fun f : File => f.path.final) (List.filter (fun f => decide (f.path ≠ p)) s)
        = List.filter (fun f : File => f.path.final) s := by
      rw [List.filter_filter]
      apply List.filter_congr
      intro f _
      by_cases hf : f.path = p
      · simp [hf, ok]
      · simp [hf]
    rw [h1, h2]; simp
  | reopen p =>
    simp only [okOp, Bool.not_eq_true'] at ok
    apply finals_map
    · intro f hf
      have : f.path ≠ p := fun e => by simp [e, ok] at hf
      simp [this]
    · intro f hf
      by_cases hp : f.path = p <;> simp [hp, hf, ok]
  | write p n =>
    simp only [okOp, Bool.not_eq_true'] at ok
    apply finals_map
    · intro f hf
      have : f.path ≠ p := fun e => by simp [e, ok] at hf
      simp [this]
    · intro f hf
      by_cases hp : f.path = p <;> simp [hp, hf, ok]
  | close p =>
    apply finals_map_meta
    intro f
    by_cases hp : f.path = p <;> simp [hp]
  | rename p q => exact absurd hop (by simp)
  | unlink p => exact absurd hop (by simp)
  | crash => rfl

/-! ### what executorlib does, and what a move across file systems does -/

def tmp : Path := { fs := 0, dir := 1, name := "k_uuid.h5tmp", final := false }
def fin : Path := { fs := 0, dir := 1, name := "k.h5out", final := true }
/-- a temporary file in the system's temporary directory, on another file system -/
def tmpElsewhere : Path := { fs := 7, dir := 3, name := "k_uuid.h5tmp", final := false }

/-- Non-vacuity: the interactive cache writer's calls (four datasets appended by separate opens,
    then the rename) are a disciplined trace ending with the complete entry under its final name. -/
example : runD [] [.create tmp, .write tmp 10, .close tmp, .reopen tmp, .write tmp 20, .close tmp, .rename tmp fin]
    = some [{ path := fin, bytes := 30, writers := 0 }] := by decide

/-- **Counterexample without the discipline** (`shutil.move` from a temporary directory on another
    file system: `rename` fails with `EXDEV`, the file is copied under its final name): killed
    during the copy, the final name holds a partial entry that is still open for writing — and
    `firstBad` names the first call outside the discipline (index 3: the final name is to be created
    from another directory; index 4 then opens it for writing). -/
theorem cross_fs_move_not_atomic :
    let ops := [Op.create tmpElsewhere, .write tmpElsewhere 100, .close tmpElsewhere, .rename tmpElsewhere fin,
                .create fin, .write fin 40, .crash]
    ¬ Inv (run [] ops) ∧ finals (run [] ops) = [(fin, 40)] ∧ firstBad [] ops 0 = some 3 := by
  refine ⟨?_, by decide, by decide⟩
  intro h
  have := h { path := fin, bytes := 40, writers := 1 } (by decide) rfl
  simp at this

/-- a rename from another directory of the same file system is atomic in the kernel, yet outside
    the discipline: it stops being atomic as soon as the two directories are on different file
    systems, which the code cannot know -/
example : okOp [{ path := { fs := 0, dir := 3, name := "x", final := false }, bytes := 5, writers := 0 }]
    (.rename { fs := 0, dir := 3, name := "x", final := false } fin) = false := by decide

end ExecModel.C14Pub

namespace ExecModel.C14Pub
open ExecModel ExecModel.Pub

/-! ### the cache writer of executorlib, for every number and size of datasets -/

/-- `dump(file_name=tmp, data_dict)` (one open / append / close per dataset) followed by
    `os.rename(tmp, final)`: the calls `_execute_task_with_cache` makes for one entry. -/
def writerOps (tmpP finP : Path) (chunks : List Nat) : List Op :=
  [.create tmpP, .close tmpP] ++ chunks.flatMap (fun n => [.reopen tmpP, .write tmpP n, .close tmpP]) ++ [.rename tmpP finP]

theorem run_chunks (tmpP : Path) (b : Nat) (chunks : List Nat) (ht : tmpP.final = false) :
    runD [{ path := tmpP, bytes := b, writers := 0 }] (chunks.flatMap (fun n => [Op.reopen tmpP, .write tmpP n, .close tmpP]))
      = some [{ path := tmpP, bytes := b + chunks.sum, writers := 0 }] := by
  induction chunks generalizing b with
  | nil => simp [runD]
  | cons n ns ih =>
    simp only [List.flatMap_cons, List.cons_append, List.nil_append, runD, stepD, okOp, ht, Bool.not_false, if_true, step,
      List.map_cons, List.map_nil]
    simp only [if_true, Nat.zero_add, Nat.add_sub_cancel]
    rw [ih (b + n)]
    simp [List.sum_cons, Nat.add_assoc]

theorem runD_append (s : State) (a b : List Op) :
    runD s (a ++ b) = (runD s a).bind (fun s' => runD s' b) := by
  induction a generalizing s with
  | nil => simp [runD]
  | cons op a ih =>
    simp only [List.cons_append, runD]
    cases stepD s op with
    | none => simp
    | some s' => simp [ih]

/-- **The writer's calls are a disciplined trace, for every entry**: whatever the number and the
    sizes of the datasets, the trace is accepted by `runD` and ends with exactly the complete entry
    under its final name — so `inv_every_prefix` applies to every instant of it. -/
theorem writer_trace_disciplined (tmpP finP : Path) (chunks : List Nat)
    (ht : tmpP.final = false) (hf : finP.final = true) (hfs : tmpP.fs = finP.fs) (hd : tmpP.dir = finP.dir) :
    runD [] (writerOps tmpP finP chunks) = some [{ path := finP, bytes := chunks.sum, writers := 0 }] := by
  have hne : tmpP ≠ finP := fun e => by rw [e] at ht; simp [hf] at ht
  simp only [writerOps, List.append_assoc, runD_append]
  have h1 : runD [] [Op.create tmpP, .close tmpP] = some [{ path := tmpP, bytes := 0, writers := 0 }] := by
    simp [runD, stepD, okOp, ht, step]
  rw [h1]
  simp only [Option.bind_some]
  rw [run_chunks tmpP 0 chunks ht]
  simp only [Option.bind_some, Nat.zero_add]
  simp [runD, stepD, okOp, hf, ht, hfs, hd, step, setPath, hne]

end ExecModel.C14Pub
