import ExecModel.Exc
import ExecModel.Proofs.SysVal
/-!
  C04 — Failure fidelity: the raised exception reaches the right futures, unchanged.
-/
namespace ExecModel.C04
open ExecModel ExecModel.Sys ExecModel.Wire ExecModel.Exc

section Transport
variable {V A : Type}

/-- **Transport is the identity** (code after fix d585721): what the worker sends for an outcome
    is what the future receives — same class, same argument tuple — for every exception value,
    builtin, library or user defined alike. -/
theorem transport_identity (known : String → Bool) (o : Except (Ex (EArg A)) V) :
    receive true known (replyOf o) = o.map some := by
  cases o <;> rfl

/-- Counterexample for the code as found (`byValue = false`): `ValueError('a', 2)` arrives as
    `ValueError(ValueError('a', 2))`, and a class not bound in the receiving module as `NameError`. -/
theorem C04_fails_without_excByValue :
    ¬ (∀ (known : String → Bool) (o : Except (Ex (EArg Nat)) Nat), receive false known (replyOf o) = o.map some) := by
  intro h
  have := h (fun c => c == "ValueError") (.error { cls := "ValueError", args := [.plain 1, .plain 2] })
  simp [receive, replyOf, Except.map] at this

theorem user_class_lost_without_excByValue :
    receive (V := Nat) false (fun c => c == "ValueError") (replyOf (.error { cls := "UserError", args := [EArg.plain 7] }))
      = .error { cls := "NameError", args := [] } := by
  simp [receive, replyOf]
end Transport

variable {Val Err : Type}
variable (cfg : Cfg) (eval : Nat → List Val → Except Err Val) (cancelErr : Err)

/-- **Provenance**: a future is failed only because its own call raised that exception on the
    values of its inputs, or because an input failed / was cancelled — and then it carries the
    exception of the first such input.  No other future ever receives an exception. -/
theorem failure_provenance (hwf : WfCfg cfg) {script : List Cmd} {s : State Val Err}
    (h : Reachable cfg eval cancelErr script s) {i : Nat} {e : Err} (hf : futOf s i = .failed e) :
    FailedFor cfg eval cancelErr s i e :=
  Sys.failure_provenance cfg eval cancelErr hwf h hf

/-- **Its own future reports the exception raised**: if the inputs of call `i` all finished, a
    failed future `i` holds exactly the exception `eval i` raises on them. -/
theorem own_exception (hwf : WfCfg cfg) {script : List Cmd} {s : State Val Err}
    (h : Reachable cfg eval cancelErr script s) {i : Nat} {e : Err} (hf : futOf s i = .failed e)
    {vs : List Val} (hin : inputsOf s (depsOf cfg i) = some vs) : eval i vs = .error e := by
  rcases Sys.failure_provenance cfg eval cancelErr hwf h hf with ⟨vs', h1, h2⟩ | ⟨_, h1, _⟩
  · rw [hin] at h1; cases h1; exact h2
  · rw [hin] at h1; cases h1

/-- **No spurious failure**: a call whose inputs finished and which does not raise is never failed. -/
theorem no_spurious_failure (hwf : WfCfg cfg) {script : List Cmd} {s : State Val Err}
    (h : Reachable cfg eval cancelErr script s) {i : Nat} {vs : List Val} {v : Val}
    (hin : inputsOf s (depsOf cfg i) = some vs) (hok : eval i vs = .ok v) (e : Err) :
    futOf s i ≠ .failed e := by
  intro hf
  have := own_exception cfg eval cancelErr hwf h hf hin
  rw [hok] at this; cases this

/-- **A dependent of a failed call fails with that call's exception** (when it fails at all, it is
    with the first failed input's exception; that it does fail rather than wait forever is the
    progress half, `Props/C02`). -/
theorem dependent_gets_input_exception (hwf : WfCfg cfg) {script : List Cmd} {s : State Val Err}
    (h : Reachable cfg eval cancelErr script s) {i : Nat} {e : Err} (hf : futOf s i = .failed e)
    (hin : inputsOf s (depsOf cfg i) = none) :
    firstFailure cancelErr s (depsOf cfg i) = some e := by
  rcases Sys.failure_provenance cfg eval cancelErr hwf h hf with ⟨vs', h1, _⟩ | ⟨_, _, h3⟩
  · rw [hin] at h1; cases h1
  · exact h3

/-! Non-vacuity: call 0 raises, its dependent 1 is failed by the resolver with the same exception,
    the independent call 2 finishes (one process per call). -/
def exCfg : Cfg := { resolver := true, block := none, calls := [{}, { deps := [0] }, {}] }
def exEval : Nat → List Nat → Except Nat Nat := fun i _ => if i = 0 then .error 77 else .ok i
def exRun : List (Label Nat Nat) :=
  [.mSubmit, .mSubmit, .mSubmit, .rGet, .rDecideReady, .rForward, .rAck, .rGet, .rDecidePark, .rAck,
   .rGet, .rDecideReady, .rForward, .rAck, .dGet, .dLaunch, .dAck, .dGet, .dLaunch, .dAck,
   .wBoot 0, .wGet 0, .wSrn 0, .wSend 0, .wFailA 0, .wFailB 0, .wFailC 0, .rScanFail 0, .rFailSet,
   .wBoot 1, .wGet 1, .wSrn 1, .wSend 1, .wFinish 1]

example : ∃ s, run exCfg exEval 0 (init exCfg [.submit, .submit, .submit]) exRun = some s ∧
    futOf s 0 = .failed 77 ∧ futOf s 1 = .failed 77 ∧ futOf s 2 = .finished 2 := by
  refine ⟨_, rfl, ?_⟩
  decide

end ExecModel.C04
