import ExecModel.Proofs.SysVal
import ExecModel.Proofs.SysCancel
import ExecModel.Proofs.SysOnce
/-!
  C01 — Result fidelity: each future yields exactly its own call's value.

  Model: `Sys`.  `eval i vs` is the outcome of calling the function of call `i` directly with its
  arguments, the futures among them replaced by the values `vs` (traversal order, see
  `Props/C03.lean`); `eval` is a parameter, so the theorems cover all callables, arguments and
  return values.  Pickling is the identity in the model (the property quantifies over values that
  survive a cloudpickle round trip); the zmq PAIR socket is a FIFO between one thread and one
  process and is folded into the labels `wSend`/`wFinish`.
-/
namespace ExecModel.C01
open ExecModel ExecModel.Sys

variable {Val Err : Type}
variable (cfg : Cfg) (eval : Nat → List Val → Except Err Val) (cancelErr : Err)

/-- **Every finished future holds the value of its own call** — `eval i` applied to the values of
    the futures among its arguments — in every reachable state of every configuration (block
    allocation with any number of workers, one process per call with any limits, resolver on/off),
    every program and user script, every interleaving and completion order. -/
theorem result_fidelity (hwf : WfCfg cfg) {script : List Cmd} {s : State Val Err}
    (h : Reachable cfg eval cancelErr script s) {i : Nat} {v : Val} (hf : futOf s i = .finished v) :
    ∃ vs, inputsOf s (depsOf cfg i) = some vs ∧ eval i vs = .ok v :=
  Sys.result_fidelity cfg eval cancelErr hwf h hf

/-- **... which is the value sequential evaluation of the program gives for that call.** -/
theorem sequential_value (hwf : WfCfg cfg) {script : List Cmd} {s : State Val Err}
    (h : Reachable cfg eval cancelErr script s) {i : Nat} {v : Val} (hf : futOf s i = .finished v) :
    seqEval cfg eval (i + 1) i = some v :=
  Sys.seq_eval cfg eval cancelErr hwf h hf

/-- **`map()` returns results in input order**: `map(f, xs)` submits call `k = f(xs[k])` for
    `k = 0, 1, …` and reads the futures in that order; each future `k` holds `eval k []`, whatever
    the order in which the workers finish. -/
theorem map_order (hwf : WfCfg cfg) (hnd : ∀ i, depsOf cfg i = []) {script : List Cmd} {s : State Val Err}
    (h : Reachable cfg eval cancelErr script s) {k : Nat} {v : Val} (hf : futOf s k = .finished v) :
    eval k [] = .ok v := by
  obtain ⟨vs, h1, h2⟩ := Sys.result_fidelity cfg eval cancelErr hwf h hf
  rw [hnd k] at h1
  simp [inputsOf] at h1
  subst h1
  exact h2

/-- **A value once delivered never changes** (no later reply can overwrite it). -/
theorem value_stable {script : List Cmd} {s s' : State Val Err}
    (h : Reachable cfg eval cancelErr script s) (ls : List (Label Val Err))
    (hr : run cfg eval cancelErr s ls = some s') {i : Nat} {v : Val} (hf : futOf s i = .finished v) :
    futOf s' i = .finished v :=
  (started_never_cancelled cfg eval cancelErr ls (core_reachable cfg eval cancelErr h) hr i).2.2.1 v hf

/-- every accepted call is executed at most once: the hand-over log has no duplicates -/
theorem executed_at_most_once {script : List Cmd} {s : State Val Err}
    (h : Reachable cfg eval cancelErr script s) : s.sentLog.Nodup :=
  Sys.sent_at_most_once cfg eval cancelErr h

/-! Non-vacuity: two workers, the second call finishes first; each future gets its own value. -/
def exCfg : Cfg := { resolver := true, block := some 2, calls := [{}, {}, { deps := [0, 1] }] }
def exEval : Nat → List Nat → Except Nat Nat := fun i vs => .ok (100 * (i + 1) + vs.foldl (· + ·) 0)
def exRun : List (Label Nat Nat) :=
  [.mSubmit, .mSubmit, .mSubmit, .rGet, .rDecideReady, .rForward, .rAck, .rGet, .rDecideReady, .rForward, .rAck,
   .rGet, .rDecidePark, .rAck, .wBoot 0, .wBoot 1, .wGet 0, .wGet 1, .wSrn 1, .wSend 1, .wFinish 1, .wSrn 0,
   .wSend 0, .wFinish 0, .wAck 0, .wAck 1, .rScanFwd 0, .wGet 1, .wSrn 1, .wSend 1, .wFinish 1]

example : ∃ s, run exCfg exEval 0 (init exCfg [.submit, .submit, .submit]) exRun = some s ∧
    futOf s 0 = .finished 100 ∧ futOf s 1 = .finished 200 ∧ futOf s 2 = .finished 600 ∧ s.sentLog = [1, 0, 2] := by
  refine ⟨_, rfl, ?_⟩
  decide

example : WfCfg exCfg := by
  refine ⟨fun i j hj => ?_, fun h => by simp [exCfg] at h⟩
  match i with
  | 0 | 1 => simp [depsOf, exCfg] at hj
  | 2 => simp [depsOf, exCfg] at hj; omega
  | n + 3 => simp [depsOf, exCfg] at hj

end ExecModel.C01
