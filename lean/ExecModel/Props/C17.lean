import ExecModel.Wire
/-!
  C17 — Worker wire protocol: exactly one reply per request, in order.
-/
namespace ExecModel.C17
open ExecModel ExecModel.Wire

variable {Mem Call V E : Type}

def isShutdown : Req Mem Call → Bool
  | .shutdown => true
  | _ => false

/-- Requests that bear a reply: calls and shutdown. -/
def bearing : Req Mem Call → Bool
  | .call _ => true
  | .shutdown => true
  | _ => false

/-- Prefix up to and including the first element satisfying `p`. -/
def takeThrough {α : Type} (p : α → Bool) : List α → List α
  | [] => []
  | a :: l => if p a then [a] else a :: takeThrough p l

/-- Each request paired with the preset memory and the number of earlier calls in effect when it
    is served. -/
def annot : Option Mem → Nat → List (Req Mem Call) → List (Option Mem × Nat × Req Mem Call)
  | _, _, [] => []
  | m, k, .init m' :: rs => (m, k, .init m') :: annot (some m') k rs
  | m, k, .call c :: rs => (m, k, .call c) :: annot m (k + 1) rs
  | m, k, r :: rs => (m, k, r) :: annot m k rs

/-- SPEC: the reply a request must receive (none for init and unknown requests). -/
def expectedReply (run : Run Mem Call V E) : Option Mem × Nat × Req Mem Call → Option (Reply V E)
  | (m, k, .call c) => some (replyOf (run 0 k m c))
  | (_, _, .shutdown) => some .ack
  | _ => none

@[simp] theorem expectedReply_call (run : Run Mem Call V E) (m : Option Mem) (k : Nat) (c : Call) :
    expectedReply run (m, k, .call c) = some (replyOf (run 0 k m c)) := rfl
@[simp] theorem expectedReply_shutdown (run : Run Mem Call V E) (m : Option Mem) (k : Nat) :
    expectedReply run (m, k, (.shutdown : Req Mem Call)) = some .ack := rfl
@[simp] theorem expectedReply_init (run : Run Mem Call V E) (m : Option Mem) (k : Nat) (x : Mem) :
    expectedReply run (m, k, (.init x : Req Mem Call)) = none := rfl
@[simp] theorem expectedReply_other (run : Run Mem Call V E) (m : Option Mem) (k : Nat) :
    expectedReply run (m, k, (.other : Req Mem Call)) = none := rfl

theorem serve_dead (run : Run Mem Call V E) (s : WState Mem) (h : s.alive = false)
    (rs : List (Req Mem Call)) : serve run s rs = [] := by
  induction rs generalizing s with
  | nil => rfl
  | cons r rs ih =>
    cases r <;> simp [serve, wstep, h, ih]

/-- **C17, main theorem.**  For every finite request sequence (any number of inits anywhere, calls
    before any init, failing calls, unknown requests) the transcript of replies is exactly: one
    reply per reply-bearing request up to and including the first shutdown, in request order, each
    computed with the presets in effect at that point; nothing for init; nothing after the
    acknowledgement. -/
theorem one_reply_each (run : Run Mem Call V E) (s : WState Mem) (h : s.alive = true)
    (rs : List (Req Mem Call)) :
    serve run s rs = (annot s.mem s.ncalls (takeThrough isShutdown rs)).filterMap (expectedReply run) := by
  induction rs generalizing s with
  | nil => rfl
  | cons r rs ih =>
    obtain ⟨mem, k, alive, wedged⟩ := s
    simp only at h
    subst h
    cases r with
    | shutdown =>
      simp [serve, wstep, takeThrough, isShutdown, annot, serve_dead, List.filterMap_cons]
    | call c =>
      have := ih ⟨mem, k + 1, true, wedged⟩ rfl
      simp only at this
      simp [serve, wstep, takeThrough, isShutdown, annot, this, List.filterMap_cons]
    | init m =>
      have := ih ⟨some m, k, true, wedged⟩ rfl
      simp only at this
      simp [serve, wstep, takeThrough, isShutdown, annot, this, List.filterMap_cons]
    | other =>
      have := ih ⟨mem, k, true, wedged⟩ rfl
      simp only at this
      simp [serve, wstep, takeThrough, isShutdown, annot, this, List.filterMap_cons]

theorem annot_length (m : Option Mem) (k : Nat) (rs : List (Req Mem Call)) :
    (annot m k rs).length = rs.length := by
  induction rs generalizing m k with
  | nil => rfl
  | cons r rs ih => cases r <;> simp [annot, ih]

theorem filterMap_expected_length (run : Run Mem Call V E) (m : Option Mem) (k : Nat)
    (rs : List (Req Mem Call)) :
    ((annot m k rs).filterMap (expectedReply run)).length = (rs.filter bearing).length := by
  induction rs generalizing m k with
  | nil => rfl
  | cons r rs ih => cases r <;> simp [annot, bearing, ih, List.filterMap_cons, List.filter_cons]

/-- **Exactly one reply per reply-bearing request** (count form). -/
theorem reply_count (run : Run Mem Call V E) (rs : List (Req Mem Call)) :
    (serve run {} rs).length = ((takeThrough isShutdown rs).filter bearing).length := by
  rw [one_reply_each run {} rfl, filterMap_expected_length]

/-- **Nothing after the acknowledgement.** -/
theorem nothing_after_ack (run : Run Mem Call V E) (pre post : List (Req Mem Call)) :
    serve run {} (pre ++ .shutdown :: post) = serve run {} (pre ++ [.shutdown]) := by
  rw [one_reply_each run {} rfl, one_reply_each run {} rfl]
  congr 2
  induction pre with
  | nil => simp [takeThrough, isShutdown]
  | cons r pre ih => cases r <;> simp_all [takeThrough, isShutdown]

/-- **An init request is never answered**, and **serving continues after a failed call**. -/
theorem init_silent_and_error_continues (run : Run Mem Call V E) (m : Mem) (c c' : Call) (e : E)
    (hc : run 0 0 (some m) c = .error e) :
    serve run {} [.init m, .call c, .call c'] = [.error e, replyOf (run 0 1 (some m) c')] := by
  simp [serve, wstep, replyOf, hc]

/-- Non-vacuity / concrete run: calls before any init, two inits, a failing call, a shutdown in
    the middle. `run` = "return the preset if any else fail". -/
example :
    serve (fun _ k m (c : Nat) => match m with | some p => .ok (p + c + k) | none => .error c)
      {} [.call 7, .init 100, .call 1, .other, .init 200, .call 2, .shutdown, .call 3]
    = ([.error 7, .result 102, .result 204, .ack] : List (Reply Nat Nat)) := by decide

end ExecModel.C17

namespace ExecModel.C17
open ExecModel ExecModel.Wire

/-! ### defect D33: the worker loop as found does not answer a call that raises outside `Exception` -/

section Old
variable {Mem Call V E : Type}

/-- With nothing fatal (the repaired loop catches every exception) the as-found loop is `wstep`. -/
theorem wstepOld_eq_wstep (run : Run Mem Call V E) (s : WState Mem) (r : Req Mem Call) :
    wstepOld (fun _ => false) run s r = wstep run s r := by
  cases r with
  | call c =>
    simp only [wstepOld, wstep]
    cases s.alive with
    | false => rfl
    | true =>
      cases h : run 0 s.ncalls s.mem c <;> simp [replyOf]
  | init m => rfl
  | shutdown => rfl
  | other => rfl

theorem serveOld_eq_serve (run : Run Mem Call V E) (s : WState Mem) (rs : List (Req Mem Call)) :
    serveOld (fun _ => false) run s rs = serve run s rs := by
  induction rs generalizing s with
  | nil => rfl
  | cons r rs ih => simp only [serveOld, serve, wstepOld_eq_wstep]; split <;> simp [ih]

end Old

/-- **Counterexample for the code as found** (`except Exception`): a call whose function raises an
    exception outside the `Exception` branch — `sys.exit()` inside the function — gets no reply,
    and neither does any later request, the shutdown included: three reply-bearing requests, an
    empty transcript (`one_reply_each` gives three replies for the repaired loop). -/
theorem C17_fails_without_catching_base_exceptions :
    let run : Run Unit Nat Nat String := fun _ _ _ c => if c = 0 then .error "SystemExit" else .ok c
    let reqs : List (Req Unit Nat) := [.call 0, .call 7, .shutdown]
    serveOld (fun e => e == "SystemExit") run {} reqs = [] ∧
    serve run {} reqs = [.error "SystemExit", .result 7, .ack] := by
  decide

end ExecModel.C17
