import ExecModel.Cmd
import ExecModel.Launcher
/-!
  C16 — Launch command lines request exactly the specified resources, validly.
  Property theorems only; the SPEC they are stated against is `ExecModel/Launcher.lean`.
-/
namespace ExecModel.C16
open ExecModel ExecModel.Cmd ExecModel.Launcher

/-- What the launcher must understand when asked for `r`. -/
def reqOf (r : SrunReq) : Req :=
  { ntasks := some (natStr r.cores)
    chdir := r.cwd
    cpus := if r.threads > 1 then some (natStr r.threads) else none
    gpus := if r.gpus > 0 then some (natStr r.gpus) else none
    oversub := r.oversub
    other := r.extra }

/-- A user-supplied extra argument the SPEC can pass through: one self-contained option token. -/
def Opaque (t : Tok) : Prop := classify t = .other
instance (t : Tok) : Decidable (Opaque t) := by unfold Opaque; infer_instance

/-- First token of a command: not an option. -/
def IsCmd (t : Tok) : Prop := classify t = .command
instance (t : Tok) : Decidable (IsCmd t) := by unfold IsCmd; infer_instance

/-! ### helper facts about the SPEC classifier (evaluation only) -/

theorem classify_n : classify tN = .needsArg .ntasks := by decide
theorem classify_D : classify tD = .needsArg .chdir := by decide
theorem classify_over : classify tOversub = .flagOversub := by decide
theorem classify_cpus (v : Tok) : classify (pCpusEq ++ v) = .sets .cpus v := by
  unfold classify pCpusEq
  have h1 : stripPrefix "--ntasks=".toList ("--cpus-per-task=".toList ++ v) = none := by
    simp [stripPrefix]
  have h2 : stripPrefix "--chdir=".toList ("--cpus-per-task=".toList ++ v) = none := by
    simp [stripPrefix]
  have h3 := stripPrefix_append "--cpus-per-task=".toList v
  rw [if_neg (by simp), if_neg (by simp), if_neg (by simp), if_neg (by simp), if_neg (by simp)]
  simp only [h1, h2, h3]
theorem classify_gpus (v : Tok) : classify (pGpusEq ++ v) = .sets .gpus v := by
  unfold classify pGpusEq
  have h1 : stripPrefix "--ntasks=".toList ("--gpus-per-task=".toList ++ v) = none := by
    simp [stripPrefix]
  have h2 : stripPrefix "--chdir=".toList ("--gpus-per-task=".toList ++ v) = none := by
    simp [stripPrefix]
  have h3 : stripPrefix "--cpus-per-task=".toList ("--gpus-per-task=".toList ++ v) = none := by
    simp [stripPrefix]
  have h4 := stripPrefix_append "--gpus-per-task=".toList v
  rw [if_neg (by simp), if_neg (by simp), if_neg (by simp), if_neg (by simp), if_neg (by simp)]
  simp only [h1, h2, h3, h4]

theorem srunOpts_cmd (c : Tok) (rest : List Tok) (acc : Req) (hc : IsCmd c) :
    srunOpts (c :: rest) none acc = some (acc, c :: rest) := by
  unfold IsCmd at hc
  rw [srunOpts]; simp [hc]

theorem step_needs (t v : Tok) (rest : List Tok) (acc : Req) (f : Field)
    (h : classify t = .needsArg f) :
    srunOpts (t :: v :: rest) none acc = srunOpts rest none (acc.setField f v) := by
  rw [srunOpts]; simp only [h]; rw [srunOpts]

theorem step_sets (t v : Tok) (rest : List Tok) (acc : Req) (f : Field)
    (h : classify t = .sets f v) :
    srunOpts (t :: rest) none acc = srunOpts rest none (acc.setField f v) := by
  rw [srunOpts]; simp only [h]

theorem step_flag (t : Tok) (rest : List Tok) (acc : Req)
    (h : classify t = .flagOversub) :
    srunOpts (t :: rest) none acc = srunOpts rest none { acc with oversub := true } := by
  rw [srunOpts]; simp only [h]

theorem srunOpts_extra (extra : List Tok) (tail : List Tok) (acc : Req)
    (h : ∀ t ∈ extra, Opaque t) :
    srunOpts (extra ++ tail) none acc = srunOpts tail none { acc with other := acc.other ++ extra } := by
  induction extra generalizing acc with
  | nil => simp
  | cons t extra ih =>
    have ht : classify t = .other := h t (by simp)
    have := ih { acc with other := acc.other ++ [t] } (fun t' ht' => h t' (by simp [ht']))
    simp only [List.cons_append]
    rw [srunOpts]; simp only [ht, this, List.append_assoc, List.cons_append, List.nil_append]

theorem seg_cwd (cwd : Option Tok) (tail : List Tok) (acc : Req) :
    srunOpts (cwdSeg cwd ++ tail) none acc
      = srunOpts tail none (match cwd with | some d => acc.setField .chdir d | none => acc) := by
  cases cwd with
  | none => rfl
  | some d => exact step_needs _ d tail acc .chdir classify_D

theorem seg_cpus (threads : Nat) (tail : List Tok) (acc : Req) :
    srunOpts (cpusSeg true threads ++ tail) none acc
      = srunOpts tail none (if threads > 1 then acc.setField .cpus (natStr threads) else acc) := by
  unfold cpusSeg
  by_cases h : threads > 1
  · simp only [h, if_true]; exact step_sets _ _ tail acc .cpus (classify_cpus _)
  · simp only [h, if_false]; rfl

theorem seg_gpus (gpus : Nat) (tail : List Tok) (acc : Req) :
    srunOpts (gpusSeg gpus ++ tail) none acc
      = srunOpts tail none (if gpus > 0 then acc.setField .gpus (natStr gpus) else acc) := by
  unfold gpusSeg
  by_cases h : gpus > 0
  · simp only [h, if_true]; exact step_sets _ _ tail acc .gpus (classify_gpus _)
  · simp only [h, if_false]; rfl

theorem seg_over (o : Bool) (tail : List Tok) (acc : Req) :
    srunOpts (overSeg o ++ tail) none acc
      = srunOpts tail none (if o then { acc with oversub := true } else acc) := by
  cases o
  · rfl
  · exact step_flag _ tail acc classify_over

/-- **C16, srun.**  For every resource specification (all naturals, any working directory string,
    any list of self-contained extra option tokens) and every worker command, the SPEC parser
    recovers exactly the request and the unmodified command from the generated argv. -/
theorem srun_exact (r : SrunReq) (c : Tok) (rest : List Tok)
    (hc : IsCmd c) (hextra : ∀ t ∈ r.extra, Opaque t) :
    srunParse (srunPrefix true r ++ (c :: rest)) = some (reqOf r, c :: rest) := by
  obtain ⟨cores, cwd, threads, gpus, oversub, extra⟩ := r
  simp only at hextra
  have hs : (tSrun = "srun".toList) := rfl
  unfold srunPrefix
  simp only [List.cons_append, List.append_assoc, List.nil_append, srunParse, hs, if_true]
  rw [step_needs _ _ _ _ _ classify_n, seg_cwd, seg_cpus, seg_gpus, seg_over,
    srunOpts_extra _ _ _ hextra, srunOpts_cmd _ _ _ hc]
  cases cwd <;> by_cases ht : threads > 1 <;> by_cases hg : gpus > 0 <;> cases oversub <;>
    simp [reqOf, Req.setField, ht, hg]

/-- Non-vacuity: a request with every option and two extra arguments meets the hypotheses. -/
example : IsCmd "/usr/bin/python".toList ∧
    (∀ t ∈ ["--account=test".toList, "--job-name=executorlib".toList], Opaque t) := by decide

/-- Concrete instance (the repository's own test vector plus threads). -/
example :
    srunParse (srunPrefix true ⟨2, some "/a b".toList, 3, 1, true, ["--account=test".toList]⟩
      ++ ["python".toList, "w.py".toList]) =
    some ({ ntasks := some "2".toList, chdir := some "/a b".toList, cpus := some "3".toList,
            gpus := some "1".toList, oversub := true, other := ["--account=test".toList] },
          ["python".toList, "w.py".toList]) := by decide

/-- **Defect D6 (as found at f65d02b).**  Without the `=` the launcher does not understand the
    CPUs-per-task request: the SPEC parser sees an unknown option. -/
theorem srun_fails_without_eqSign :
    ¬ (∀ (r : SrunReq) (c : Tok) (rest : List Tok), IsCmd c → (∀ t ∈ r.extra, Opaque t) →
        srunParse (srunPrefix false r ++ (c :: rest)) = some (reqOf r, c :: rest)) := by
  intro h
  have := h ⟨1, none, 2, 0, false, []⟩ "python".toList [] (by decide) (by simp)
  revert this; decide

/-! ### mpiexec -/

def IsMpiCmd (t : Tok) : Prop := mclassify t = .command ∧ t ≠ "mpiexec".toList
instance (t : Tok) : Decidable (IsMpiCmd t) := by unfold IsMpiCmd; infer_instance

theorem mclassify_n : mclassify tN = .nflag := by decide
theorem mclassify_over : mclassify tOversub = .over := by decide

theorem isDash_of_command (c : Tok) (h : mclassify c = .command) : isDash c = false := by
  unfold mclassify at h
  split at h
  · cases h
  · split at h
    · cases h
    · split at h
      · cases h
      · simpa using ‹¬ isDash c = true›

/-- **C16, mpiexec.**  `cores ≠ 1`: `mpiexec -n cores [--oversubscribe] cmd`; `cores = 1`: the
    command is started directly (one process). -/
theorem mpiexec_exact (cores : Nat) (o : Bool) (c : Tok) (rest : List Tok) (hc : IsMpiCmd c) :
    mpiParse (mpiexecPrefix cores o ++ (c :: rest)) =
      some (if cores = 1 then { procs := "1".toList, oversub := false }
            else { procs := natStr cores, oversub := o }, c :: rest) := by
  obtain ⟨hcmd, hne⟩ := hc
  have hd := isDash_of_command c hcmd
  have hm : (tMpiexec = "mpiexec".toList) := rfl
  have hfin : ∀ v o', mpiOpts (c :: rest) false (some v) o'
      = some ({ procs := v, oversub := o' }, c :: rest) := by
    intro v o'
    rw [mpiOpts]; simp [hcmd]
  by_cases h1 : cores = 1
  · simp only [mpiexecPrefix, h1, if_true, List.nil_append, mpiParse, if_neg hne, hd]
    rfl
  · cases o
    · simp only [mpiexecPrefix, h1, if_false, overSeg, List.cons_append, List.nil_append, mpiParse,
        hm, if_true, List.append_nil]
      rw [mpiOpts]; simp only [mclassify_n]; rw [mpiOpts, hfin]
    · simp only [mpiexecPrefix, h1, if_false, overSeg, List.cons_append, List.nil_append, mpiParse,
        hm, if_true]
      rw [mpiOpts]; simp only [mclassify_n]; rw [mpiOpts, mpiOpts]
      simp only [mclassify_over]; rw [hfin]

example : IsMpiCmd "/usr/bin/python".toList := by decide

/-! ### worker-side argument parser -/

def flagFree (l : List Tok) : Prop := tHost ∉ l ∧ tZmqport ∉ l
instance (l : List Tok) : Decidable (flagFree l) := by unfold flagFree; infer_instance

theorem afterFlag_skip (flag : Tok) (pre tail : List Tok) (h : flag ∉ pre) :
    afterFlag flag (pre ++ tail) = afterFlag flag tail := by
  induction pre with
  | nil => rfl
  | cons t pre ih =>
    simp only [List.mem_cons, not_or] at h
    simp [afterFlag, Ne.symm h.1, ih h.2]

/-- **C16, argv round trip.**  Whatever launcher prefix precedes it (no token of which is one of
    the two flags), the worker recovers host (default `localhost`) and port. -/
theorem parse_roundtrip (pre : List Tok) (py script : Tok) (host : Option Tok) (port : Tok)
    (hpre : flagFree (pre ++ [py, script]))
    (hhost : ∀ h, host = some h → h ≠ tHost ∧ h ≠ tZmqport)
    (hport : port ≠ tHost) :
    parseArgs (pre ++ workerCmd py script host port) =
      some { host := host.getD tLocalhost, port := some port } := by
  obtain ⟨h1, h2⟩ := hpre
  have hz : tZmqport ≠ tHost := by decide
  unfold parseArgs workerCmd
  rw [← List.append_assoc, ← List.append_assoc, List.append_assoc (pre ++ [py, script]),
    afterFlag_skip _ _ _ h1, afterFlag_skip _ _ _ h2]
  cases host with
  | none =>
    simp [hostSeg, afterFlag, hz, hport, parseArgsCore]
  | some h =>
    obtain ⟨hh1, hh2⟩ := hhost h rfl
    simp [hostSeg, afterFlag, hz, Ne.symm hz, hh2, parseArgsCore]

example : flagFree (srunPrefix true ⟨2, some "/a b".toList, 3, 1, true, []⟩
    ++ ["python".toList, "w.py".toList]) := by decide

/-- The launched argv ends with the unmodified worker command (srun and mpiexec spawners). -/
theorem worker_cmd_suffix (r : SrunReq) (cmd : List Tok) :
    cmd <:+ (srunPrefix true r ++ cmd) ∧ cmd <:+ (mpiexecPrefix r.cores r.oversub ++ cmd) :=
  ⟨List.suffix_append _ _, List.suffix_append _ _⟩

end ExecModel.C16
