import ExecModel.Proofs.ParProofs
/-!
  C18 — the property theorems (proofs in `Proofs/ParProofs.lean`).
-/
namespace ExecModel.C18Thm
open ExecModel ExecModel.Wire ExecModel.C18

variable {Mem Call V E : Type}

/-- **A call assigned n ≥ 2 cores is executed on each of the n ranks with identical arguments and
    its reply is the list of the n return values ordered by rank** — exactly one reply. -/
theorem results_gathered_in_rank_order (run : Run Mem Call V E) (n : Nat) (hn : 2 ≤ n) (s : WState Mem)
    (ha : s.alive = true) (hw : s.wedged = false) (c : Call) (hok : AllOk run n s c) :
    ∃ vs : List V, (pstep run n s (.call c)).2 = some (.gathered vs) ∧ vs.length = n ∧
      (∀ r, r < n → vs[r]? = rankValue run s c r) ∧
      (pstep run n s (.call c)).1 = { s with ncalls := s.ncalls + 1 } :=
  gather_rank_order run n hn s ha hw c hok

/-- **Exactly one reply is produced per call regardless of n** (and one acknowledgement for the
    shutdown, nothing for init): the number of replies to any request sequence equals the number of
    reply-bearing requests up to and including the first shutdown. -/
theorem exactly_one_reply_per_call (run : Run Mem Call V E) (n : Nat) (hn : 1 ≤ n) (hu : Uniform run n)
    (rs : List (Req Mem Call)) :
    (pserve run n {} rs).length = ((C17.takeThrough C17.isShutdown rs).filter pbearing).length :=
  one_reply_per_call run n hn hu rs

/-- a call raising on all ranks yields one error reply (rank 0's), and the worker keeps serving -/
theorem failing_call_one_error (run : Run Mem Call V E) (n : Nat) (hn : 1 ≤ n) (s : WState Mem)
    (ha : s.alive = true) (hw : s.wedged = false) (c : Call) (hf : AllFail run n s c) :
    ∃ e, run 0 s.ncalls s.mem c = .error e ∧ (pstep run n s (.call c)).2 = some (.error e) ∧
      (pstep run n s (.call c)).1 = { s with ncalls := s.ncalls + 1 } :=
  all_fail_one_error run n hn s ha hw c hf

/-- nothing is sent after the shutdown acknowledgement -/
theorem silent_after_shutdown (run : Run Mem Call V E) (n : Nat) (pre post : List (Req Mem Call)) :
    pserve run n {} (pre ++ .shutdown :: post) = pserve run n {} (pre ++ [.shutdown]) :=
  nothing_after_shutdown run n pre post

/-! Non-vacuity: three ranks, rank-dependent values, a failing call in between, several calls on
    the same worker. -/
example :
    pserve (fun r k (_ : Option Nat) (c : Nat) => if c = 0 then .error 99 else .ok (100 * c + 10 * k + r)) 3 {}
      [.call 1, .call 0, .call 2, .shutdown, .call 3]
    = ([.gathered [100, 101, 102], .error 99, .gathered [220, 221, 222], .ack] : List (PReply Nat Nat)) := by decide

end ExecModel.C18Thm
