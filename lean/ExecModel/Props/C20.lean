import ExecModel.Plot
/-!
  C20 — Plot mode executes nothing and draws the submitted dependency graph.
  (The list-induction proofs are in `ExecModel/Proofs/PlotProofs.lean`; this file holds the
  statements of the property, the counterexample for the code as found, and non-vacuity examples.)
-/
namespace ExecModel.C20
open ExecModel ExecModel.Plot

/-- SPEC: the incoming edges one argument contributes: `some j` = from the box of the producing
    submission `j`, `none` = from a fresh value node; with the edge label. -/
def argShape (lbl : String) : PArg → List (Option Nat × String)
  | .fut j => [(some j, lbl)]
  | .futs js => js.map (fun j => (some j, lbl))
  | .val _ => [(none, lbl)]

/-- SPEC: the incoming edges of a call, positional arguments (label "") then keyword arguments
    (label = keyword name), in order. -/
def callShape (c : PCall) : List (Option Nat × String) :=
  c.args.flatMap (argShape "") ++ c.kwargs.flatMap (fun kv => argShape kv.1 kv.2)

def argFuts : PArg → List Nat
  | .fut j => [j]
  | .futs js => js
  | .val _ => []

/-- futures passed to submission `k` belong to earlier submissions -/
def WfProg (prog : List PCall) : Prop :=
  ∀ k c, prog[k]? = some c → ∀ a ∈ c.args ++ c.kwargs.map (·.2), ∀ j ∈ argFuts a, j < k

/-- The table as the code found at f65d02b builds it (defect D16): keyed by a hash of function and
    arguments, so a call identical to an earlier one does not get an entry of its own. -/
def tableAsFound (prog : List PCall) : List PCall :=
  prog.foldl (fun t c => if c ∈ t then t else t ++ [c]) []

/-- **Defect D16**: two identical submissions yield one box. -/
theorem C20_fails_without_perSubmission :
    ∃ prog : List PCall, ((genGraph id (tableAsFound prog)).nodes.filter (·.box)).length ≠ prog.length := by
  refine ⟨[⟨"f", [.val "1"], []⟩, ⟨"f", [.val "1"], []⟩], ?_⟩
  decide

/-! Non-vacuity / concrete instance: shared input, future in a keyword, list of futures, repeated
    identical calls. -/
def exProg : List PCall :=
  [⟨"add", [.val "1"], [("b", .val "2")]⟩, ⟨"add", [.val "1"], [("b", .val "2")]⟩,
   ⟨"add", [.fut 0], [("b", .fut 1)]⟩, ⟨"sum", [.futs [0, 2]], [("w", .val "[1, 2]")]⟩]

example : (graphOf exProg).nodes.map (fun n => (n.id, n.name, n.box)) =
    [(0, "add", true), (1, "add", true), (2, "add", true), (3, "sum", true),
     (4, "1", false), (5, "2", false), (6, "1", false), (7, "2", false), (8, "[1, 2]", false)] := by decide
example : (graphOf exProg).edges.map (fun e => (e.start, e.stop, e.label)) =
    [(4, 0, ""), (5, 0, "b"), (6, 1, ""), (7, 1, "b"), (0, 2, ""), (1, 2, "b"), (0, 3, ""), (2, 3, ""), (8, 3, "w")] := by decide

end ExecModel.C20
