import ExecModel.Proofs.SysCancel
/-!
  C06 — Cancellation: a cancelled call never runs and disturbs nothing else.

  Model: `Sys` (user thread with `cancel`/`shutdown(cancel_futures)`, resolver, dispatcher, workers).
  `cancelOk` logs the calls whose `cancel()` returned `True` (by the user or by the drain of
  `shutdown(cancel_futures=True)`), `sentLog` the calls handed to a worker process (= the function
  is invoked).  All theorems hold for every configuration (block allocation with any number of
  workers, one process per call with any limits, with/without the resolver), every program, every
  user script and every interleaving: `Reachable` quantifies over all label sequences.
-/
namespace ExecModel.C06
open ExecModel ExecModel.Sys

variable {Val Err : Type}
variable (cfg : Cfg) (eval : Nat → List Val → Except Err Val) (cancelErr : Err)

/-- **A future for which `cancel()` returned `True` is never executed and ends cancelled.**
    In every reachable state a call in `cancelOk` has not been handed to any worker and its future
    is in the cancelled state. -/
theorem cancelled_never_runs {script : List Cmd} {s : State Val Err}
    (h : Reachable cfg eval cancelErr script s) {i : Nat} (hi : i ∈ s.cancelOk) :
    i ∉ s.sentLog ∧ (futOf s i = .cancelled ∨ futOf s i = .cancelledNotified) :=
  cancelled_never_sent cfg eval cancelErr h hi

/-- **`cancel()` / `shutdown(cancel_futures=True)` never affect a call that has started or
    finished**: from any reachable state, along any continuation, a running/finished/failed future
    is never cancelled, a finished value and a raised exception never change, and a cancelled
    future stays cancelled. -/
theorem started_or_finished_unaffected {script : List Cmd} {s s' : State Val Err}
    (h : Reachable cfg eval cancelErr script s) (ls : List (Label Val Err))
    (hr : run cfg eval cancelErr s ls = some s') (i : Nat) :
    ((futOf s i = .running ∨ (∃ v, futOf s i = .finished v) ∨ (∃ e, futOf s i = .failed e)) →
      (futOf s' i = .running ∨ (∃ v, futOf s' i = .finished v) ∨ (∃ e, futOf s' i = .failed e))) ∧
    ((futOf s i = .cancelled ∨ futOf s i = .cancelledNotified) →
      (futOf s' i = .cancelled ∨ futOf s' i = .cancelledNotified)) ∧
    (∀ v, futOf s i = .finished v → futOf s' i = .finished v) ∧
    (∀ e, futOf s i = .failed e → futOf s' i = .failed e) :=
  started_never_cancelled cfg eval cancelErr ls (core_reachable cfg eval cancelErr h) hr i

/-- **The drain of `shutdown(cancel_futures=True)` and `cancel()` only ever cancel pending calls**:
    whenever a step adds a call to `cancelOk`, its future was pending (never started). -/
theorem only_pending_cancelled {script : List Cmd} {s s' : State Val Err} {l : Label Val Err}
    (h : Reachable cfg eval cancelErr script s) (hs : step cfg eval cancelErr s l = some s') :
    s'.cancelOk = s.cancelOk ∨
      ∃ i, futOf s i = .pending ∧ futOf s' i = .cancelled ∧ s'.cancelOk = s.cancelOk ++ [i] :=
  (step_logs cfg eval cancelErr (core_reachable cfg eval cancelErr h) hs).2

/-! Non-vacuity: a concrete block-allocation run (one worker, resolver in front) in which call 1 is
    cancelled while queued behind call 0 and call 0 is executed: the premises of the theorems are met
    by a reachable state with a non-empty `cancelOk` and a non-empty `sentLog`. -/
def exCfg : Cfg := { resolver := false, block := some 1, calls := [{}, {}] }
def exRun : List (Label Nat Nat) :=
  [.mSubmit, .mSubmit, .wBoot 0, .wGet 0, .wSrn 0, .mCancel 1, .wSend 0, .wFinish 0, .wAck 0, .wGet 0, .wSrn 0, .wAck 0]
def exEval : Nat → List Nat → Except Nat Nat := fun i _ => .ok (i + 10)

example : ∃ s, run exCfg exEval 0 (init exCfg [.submit, .submit, .cancel 1]) exRun = some s ∧
    s.cancelOk = [1] ∧ s.sentLog = [0] ∧ futOf s 1 = .cancelledNotified ∧ futOf s 0 = .finished 10 := by
  refine ⟨_, rfl, ?_⟩
  decide

end ExecModel.C06
