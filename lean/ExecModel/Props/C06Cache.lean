import ExecModel.Props.C08Cache
/-!
  C06, cache part — cancellation and the interactive cache.

  A call whose future was cancelled while it was queued is taken by the label `lookCancelled`
  (model `ExecModel/Lts/Cache.lean`): the worker thread computes the key and lists the directory,
  `future.set_running_or_notify_cancel()` returns False, and the call is dropped.  This file shows
  that a dropped call costs one look-up and nothing else: no compute, no write, no result — and
  that the values delivered to the other futures are still the calls' own values.
-/
namespace ExecModel.C06Cache
open ExecModel ExecModel.Cache

variable {Call K V : Type}

/-! ### Counters -/

/-- the worker holds a call (its pc is not `.idle`) -/
def busy : Pc Call V → Bool
  | .idle => false
  | _ => true

/-- the worker holds a call that was not yet sent to the worker process -/
def isMissed : Pc Call V → Bool
  | .missed _ => true
  | _ => false

/-- the worker holds a call whose value was received and is being written -/
def isDone : Pc Call V → Bool
  | .computed _ _ | .creating _ _ => true
  | _ => false

@[simp] theorem busy_idle : busy (Pc.idle : Pc Call V) = false := rfl
@[simp] theorem busy_missed (c : Call) : busy (Pc.missed c : Pc Call V) = true := rfl
@[simp] theorem busy_computed (c : Call) (v : V) : busy (Pc.computed c v) = true := rfl
@[simp] theorem busy_creating (c : Call) (v : V) : busy (Pc.creating c v) = true := rfl
@[simp] theorem isMissed_idle : isMissed (Pc.idle : Pc Call V) = false := rfl
@[simp] theorem isMissed_missed (c : Call) : isMissed (Pc.missed c : Pc Call V) = true := rfl
@[simp] theorem isMissed_computed (c : Call) (v : V) : isMissed (Pc.computed c v) = false := rfl
@[simp] theorem isMissed_creating (c : Call) (v : V) : isMissed (Pc.creating c v) = false := rfl
@[simp] theorem isDone_idle : isDone (Pc.idle : Pc Call V) = false := rfl
@[simp] theorem isDone_missed (c : Call) : isDone (Pc.missed c : Pc Call V) = false := rfl
@[simp] theorem isDone_computed (c : Call) (v : V) : isDone (Pc.computed c v) = true := rfl
@[simp] theorem isDone_creating (c : Call) (v : V) : isDone (Pc.creating c v) = true := rfl

theorem busy_iff (pc : Pc Call V) : busy pc = true ↔ pc ≠ .idle := by
  cases pc <;> simp

/-- number of workers whose pc is not `.idle` (each holds exactly one call) -/
def inFlight (s : State Call K V) : Nat := s.wk.countP (fun w => busy w.pc)
def nMissed (s : State Call K V) : Nat := s.wk.countP (fun w => isMissed w.pc)
def nDone (s : State Call K V) : Nat := s.wk.countP (fun w => isDone w.pc)

def isLook : Label → Bool
  | .look _ => true
  | _ => false
def isCancel : Label → Bool
  | .lookCancelled _ => true
  | _ => false
def isTake : Label → Bool
  | .look _ | .lookCancelled _ => true
  | _ => false
def isCompute : Label → Bool
  | .compute _ => true
  | _ => false
def isWrite : Label → Bool
  | .write _ => true
  | _ => false

/-- calls taken from a queue by a plain `look` (future not cancelled) -/
def looks (ls : List Label) : Nat := ls.countP isLook
/-- calls taken from a queue by `lookCancelled` (future cancelled while queued) -/
def cancels (ls : List Label) : Nat := ls.countP isCancel
/-- calls taken from a queue, either way -/
def taken (ls : List Label) : Nat := ls.countP isTake
/-- calls sent to a worker process -/
def computes (ls : List Label) : Nat := ls.countP isCompute
/-- entries completed in the directory -/
def writes (ls : List Label) : Nat := ls.countP isWrite

def b2n (b : Bool) : Nat := if b then 1 else 0
@[simp] theorem b2n_true : b2n true = 1 := rfl
@[simp] theorem b2n_false : b2n false = 0 := rfl

theorem taken_eq (ls : List Label) : taken ls = looks ls + cancels ls := by
  induction ls with
  | nil => rfl
  | cons l ls ih =>
    simp only [taken, looks, cancels, List.countP_cons] at ih ⊢
    cases l <;> simp [isTake, isLook, isCancel] <;> omega

theorem countP_set_getElem? {α : Type} (p : α → Bool) {l : List α} {i : Nat} {x a : α}
    (h : l[i]? = some x) : (l.set i a).countP p + b2n (p x) = l.countP p + b2n (p a) := by
  induction l generalizing i with
  | nil => simp at h
  | cons y l ih =>
    cases i with
    | zero =>
      simp only [List.getElem?_cons_zero, Option.some.injEq] at h
      subst h
      simp only [List.set_cons_zero, List.countP_cons, b2n]
      omega
    | succ i =>
      simp only [List.getElem?_cons_succ] at h
      have := ih h
      simp only [List.set_cons_succ, List.countP_cons]
      omega

/-- a worker that holds a call holds it either before or after the computation -/
theorem inFlight_eq (s : State Call K V) : inFlight s = nMissed s + nDone s := by
  simp only [inFlight, nMissed, nDone]
  induction s.wk with
  | nil => rfl
  | cons w ws ih =>
    simp only [List.countP_cons, ih]
    cases w.pc <;> simp <;> omega

variable [DecidableEq K]

/-! ### A. The frame of a cancelled look-up -/

/-- **A cancelled call is dropped without a trace in the cache**: a `lookCancelled w` step is
    enabled only when worker `w` is idle with a call `c` at the head of its queue; it leaves the
    directory and the results unchanged, records `c` as dropped, and worker `w` is idle again
    with the rest of its queue (its pc is not `.missed c` / `.computed c _` / `.creating c _`, so
    no `compute`, `create` or `write` step for `c` can follow); all other workers are unchanged. -/
theorem cancelled_step_frame (atomic : Bool) (key : Call → K) (eval : Call → V)
    {s s' : State Call K V} {w : Nat} (h : step atomic key eval s (.lookCancelled w) = some s') :
    s'.dir = s.dir ∧ s'.results = s.results ∧
    (∃ wk c rest, s.wk[w]? = some wk ∧ wk.pc = .idle ∧ wk.todo = c :: rest ∧
        s'.dropped = s.dropped ++ [c] ∧ s'.wk[w]? = some { todo := rest, pc := .idle }) ∧
    (∀ i, i ≠ w → s'.wk[i]? = s.wk[i]?) := by
  simp only [step] at h
  split at h
  · rename_i wk hwk
    split at h
    · rename_i c rest hpc htodo
      cases h
      have hlt : w < s.wk.length := by
        have := (List.getElem?_eq_some_iff.mp hwk).1
        exact this
      refine ⟨rfl, rfl, ⟨wk, c, rest, hwk, hpc, htodo, rfl, ?_⟩, ?_⟩
      · simp [hlt]
      · intro i hi
        simp [Ne.symm hi]
    · cases h
  · cases h

/-- `lookCancelled` is enabled exactly when `look` is (the cancellation is only noticed after the
    look-up). -/
theorem lookCancelled_enabled_iff (atomic : Bool) (key : Call → K) (eval : Call → V)
    (s : State Call K V) (w : Nat) :
    (step atomic key eval s (.lookCancelled w)).isSome = (step atomic key eval s (.look w)).isSome := by
  simp only [step]
  split
  · split
    · split <;> rfl
    · rfl
  · rfl

/-! ### B. Accounting -/

/-- what one step does to the counters -/
theorem step_balance (atomic : Bool) (key : Call → K) (eval : Call → V)
    {s s' : State Call K V} {l : Label} (h : step atomic key eval s l = some s') :
    s'.dropped.length = s.dropped.length + b2n (isCancel l) ∧
    s'.results.length + nMissed s' + b2n (isCompute l) =
      s.results.length + nMissed s + b2n (isLook l) + b2n (isWrite l) ∧
    nDone s' + b2n (isWrite l) = nDone s + b2n (isCompute l) ∧
    nMissed s' + b2n (isCompute l) ≤ nMissed s + b2n (isLook l) ∧
    s.results.length + b2n (isWrite l) ≤ s'.results.length := by
  cases l <;> simp only [step] at h
  all_goals (split at h <;> try (cases h; done))
  all_goals rename_i wk hwk
  all_goals (
    have eM := fun a => countP_set_getElem? (fun w : Worker Call V => isMissed w.pc) (a := a) hwk
    have eD := fun a => countP_set_getElem? (fun w : Worker Call V => isDone w.pc) (a := a) hwk)
  · -- look
    split at h <;> try (cases h; done)
    rename_i c rest hpc htodo
    split at h
    · cases h
      have e2 := eM { todo := rest, pc := .idle }
      have e3 := eD { todo := rest, pc := .idle }
      simp only [hpc] at e2 e3
      simp only [nMissed, nDone, isCancel, isCompute, isLook, isWrite, List.length_append,
        List.length_singleton]
      simp at e2 e3 ⊢
      omega
    · cases h
      have e2 := eM { todo := rest, pc := .missed c }
      have e3 := eD { todo := rest, pc := .missed c }
      simp only [hpc] at e2 e3
      simp only [nMissed, nDone, isCancel, isCompute, isLook, isWrite]
      simp at e2 e3 ⊢
      omega
  · -- compute
    split at h <;> try (cases h; done)
    rename_i c hpc
    cases h
    have e2 := eM { wk with pc := .computed c (eval c) }
    have e3 := eD { wk with pc := .computed c (eval c) }
    simp only [hpc] at e2 e3
    simp only [nMissed, nDone, isCancel, isCompute, isLook, isWrite]
    simp at e2 e3 ⊢
    omega
  · -- create
    split at h <;> try (cases h; done)
    rename_i c v hpc
    split at h
    · cases h
    · cases h
      have e2 := eM { wk with pc := .creating c v }
      have e3 := eD { wk with pc := .creating c v }
      simp only [hpc] at e2 e3
      simp only [nMissed, nDone, isCancel, isCompute, isLook, isWrite]
      simp at e2 e3 ⊢
      omega
  · -- write
    split at h <;> try (cases h; done)
    · rename_i c v hpc
      split at h
      · cases h
        have e2 := eM { wk with pc := .idle }
        have e3 := eD { wk with pc := .idle }
        simp only [hpc] at e2 e3
        simp only [nMissed, nDone, isCancel, isCompute, isLook, isWrite, List.length_append,
          List.length_singleton]
        simp at e2 e3 ⊢
        omega
      · cases h
    · rename_i c v hpc
      cases h
      have e2 := eM { wk with pc := .idle }
      have e3 := eD { wk with pc := .idle }
      simp only [hpc] at e2 e3
      simp only [nMissed, nDone, isCancel, isCompute, isLook, isWrite, List.length_append,
        List.length_singleton]
      simp at e2 e3 ⊢
      omega
  · -- lookCancelled
    split at h <;> try (cases h; done)
    rename_i c rest hpc htodo
    cases h
    have e2 := eM { todo := rest, pc := .idle }
    have e3 := eD { todo := rest, pc := .idle }
    simp only [hpc] at e2 e3
    simp only [nMissed, nDone, isCancel, isCompute, isLook, isWrite, List.length_append,
      List.length_singleton]
    simp at e2 e3 ⊢
    omega

/-- the balance along a run, from any state: `lookCancelled` steps feed `dropped` and nothing
    else; `look` steps feed results (hits) and the `.missed` stage; `compute` steps move calls
    from the `.missed` stage to the written-next stage; `write` steps move them to the results. -/
theorem run_balance (atomic : Bool) (key : Call → K) (eval : Call → V) (ls : List Label)
    {s s' : State Call K V} (h : run atomic key eval s ls = some s') :
    s'.dropped.length = s.dropped.length + cancels ls ∧
    s'.results.length + nMissed s' + computes ls =
      s.results.length + nMissed s + looks ls + writes ls ∧
    nDone s' + writes ls = nDone s + computes ls ∧
    nMissed s' + computes ls ≤ nMissed s + looks ls ∧
    s.results.length + writes ls ≤ s'.results.length := by
  induction ls generalizing s with
  | nil =>
    simp only [run, Option.some.injEq] at h
    subst h
    simp [cancels, computes, looks, writes]
  | cons l ls ih =>
    simp only [run, Option.bind_eq_some_iff] at h
    obtain ⟨s1, h1, h2⟩ := h
    obtain ⟨a1, a2, a3, a4, a5⟩ := step_balance atomic key eval h1
    obtain ⟨b1, b2, b3, b4, b5⟩ := ih h2
    have c1 : cancels (l :: ls) = cancels ls + b2n (isCancel l) := by
      simp only [cancels, List.countP_cons, b2n]
    have c2 : computes (l :: ls) = computes ls + b2n (isCompute l) := by
      simp only [computes, List.countP_cons, b2n]
    have c3 : looks (l :: ls) = looks ls + b2n (isLook l) := by
      simp only [looks, List.countP_cons, b2n]
    have c4 : writes (l :: ls) = writes ls + b2n (isWrite l) := by
      simp only [writes, List.countP_cons, b2n]
    rw [c1, c2, c3, c4]
    omega

omit [DecidableEq K] in
theorem all_idle_counts {s : State Call K V} (h : ∀ w ∈ s.wk, w.pc = .idle) :
    nMissed s = 0 ∧ nDone s = 0 ∧ inFlight s = 0 := by
  have hM : nMissed s = 0 := by
    simp only [nMissed, List.countP_eq_zero]
    intro w hw; simp [h w hw]
  have hD : nDone s = 0 := by
    simp only [nDone, List.countP_eq_zero]
    intro w hw; simp [h w hw]
  exact ⟨hM, hD, by rw [inFlight_eq, hM, hD]⟩

/-- **A dropped call contributes no compute, no write and no result.**  Along any run (either
    publication mode, any number of workers, any interleaving) from a state in which every worker
    is idle and nothing was delivered or dropped yet:
    * `dropped` holds exactly the calls taken by `lookCancelled` steps;
    * every call taken from a queue is accounted for exactly once — delivered (`results`),
      dropped, or still held by a busy worker;
    * every `compute` step belongs to a call taken by a plain `look` (so at most
      `taken − dropped` calls are ever sent to a worker process), every `write` step to a
      `compute` step, and every result to a plain `look`. -/
theorem dropped_never_computed (atomic : Bool) (key : Call → K) (eval : Call → V) (ls : List Label)
    {s s' : State Call K V} (hidle : ∀ w ∈ s.wk, w.pc = .idle) (hd : s.dropped = [])
    (hr : s.results = []) (h : run atomic key eval s ls = some s') :
    s'.dropped.length = cancels ls ∧
    s'.results.length + s'.dropped.length + inFlight s' = taken ls ∧
    computes ls ≤ taken ls - s'.dropped.length ∧
    writes ls ≤ computes ls ∧
    s'.results.length ≤ taken ls - s'.dropped.length := by
  obtain ⟨hM, hD, _⟩ := all_idle_counts hidle
  obtain ⟨b1, b2, b3, b4, b5⟩ := run_balance atomic key eval ls h
  have ht := taken_eq ls
  have hf := inFlight_eq s'
  simp only [hd, hr, hM, hD, List.length_nil] at b1 b2 b3 b4 b5
  omega

/-! ### C. Soundness with cancellation -/

/-- **Cache soundness with cancellation.**  This is `C08.cache_sound`, whose statement quantifies
    over all label lists — which now include `lookCancelled` steps at any position, for any calls
    of any workers: whatever is cancelled, every future that receives a value receives the value
    of its own call, and the directory stays sound. -/
theorem cache_sound_with_cancellation (key : Call → K) (eval : Call → V)
    (hkey : ∀ c c', key c = key c' → eval c = eval c')
    (d : Dir K V) (hd : C08.CacheOK key eval d) (todos : List (List Call)) (ls : List Label)
    {s : State Call K V}
    (h : run true key eval { dir := d, wk := todos.map (fun t => { todo := t }) } ls = some s) :
    C08.CacheOK key eval s.dir ∧ ∀ c v, (c, v) ∈ s.results → v = some (eval c) :=
  C08.cache_sound key eval hkey d hd todos ls h

/-! ### D. Non-vacuity: two workers, three calls; call 2 (whose entry IS in the directory) is
    cancelled while queued behind call 1: it is looked up and dropped, the other two are computed,
    written and answered, the directory gains exactly their two entries. -/
example : ∃ s, run true (fun c : Nat => c) (fun c => c + 100)
      { dir := [(2, some 102)], wk := [{ todo := [1, 2] }, { todo := [3] }] }
      [.look 0, .look 1, .compute 0, .compute 1, .write 0, .lookCancelled 0, .write 1] = some s ∧
      s.results = [(1, some 101), (3, some 103)] ∧ s.dropped = [2] ∧
      s.dir = [(3, some 103), (1, some 101), (2, some 102)] ∧
      s.wk = [{ todo := [] }, { todo := [] }] := by
  refine ⟨_, rfl, ?_⟩
  decide

/-- … and the counters of `dropped_never_computed` on that run: 3 calls taken, 1 dropped,
    2 computed, 2 written. -/
example : taken [.look 0, .look 1, .compute 0, .compute 1, .write 0, .lookCancelled 0, .write 1] = 3 ∧
    cancels [.look 0, .look 1, .compute 0, .compute 1, .write 0, .lookCancelled 0, .write 1] = 1 ∧
    computes [.look 0, .look 1, .compute 0, .compute 1, .write 0, .lookCancelled 0, .write 1] = 2 ∧
    writes [.look 0, .look 1, .compute 0, .compute 1, .write 0, .lookCancelled 0, .write 1] = 2 := by
  decide

end ExecModel.C06Cache
