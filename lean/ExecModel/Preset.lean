import ExecModel.Basic
/-!
  Model of `executorlib/standalone/interactive/backend.py::call_funct` and `_update_dict_delta`
  together with the CPython rule for binding positional-or-keyword parameters
  (DESIGN.md Appendix E.3; order of error detection as in CPython: keyword problems first, then too
  many positionals, then missing arguments).
-/
deriving instance DecidableEq for Except

namespace ExecModel.Preset

variable {Name V : Type} [DecidableEq Name]

structure Param (Name V : Type) where
  name : Name
  dflt : Option V

abbrev Sig (Name V : Type) := List (Param Name V)

def names (sig : Sig Name V) : List Name := sig.map (·.name)

inductive BindErr (Name : Type)
  | unexpected (k : Name)
  | multiple (k : Name)
  | tooMany
  | missing (ks : List Name)
  deriving Repr, DecidableEq

/-- First keyword problem, scanning the keyword arguments in order. -/
def kwErr (ns : List Name) (npos : Nat) : List (Name × V) → Option (BindErr Name)
  | [] => none
  | (k, _) :: rest =>
    if k ∈ ns then
      if k ∈ ns.take npos then some (.multiple k) else kwErr ns npos rest
    else some (.unexpected k)

/-- Value of the `i`-th parameter: positional argument, else keyword argument, else default. -/
def slotVal (args : List V) (kw : Dict Name V) (i : Nat) (p : Param Name V) : Option V :=
  if i < args.length then args[i]?
  else match Dict.get? kw p.name with
    | some v => some v
    | none => p.dflt

def slots (sig : Sig Name V) (args : List V) (kw : Dict Name V) : List (Name × Option V) :=
  sig.mapIdx (fun i p => (p.name, slotVal args kw i p))

def allSome : List (Name × Option V) → Option (List (Name × V))
  | [] => some []
  | (n, some v) :: rest => (allSome rest).map ((n, v) :: ·)
  | (_, none) :: _ => none

def missingOf (l : List (Name × Option V)) : List Name :=
  l.filterMap (fun nv => if nv.2.isNone then some nv.1 else none)

/-- Python call `fn(*args, **kw)` for a function with positional-or-keyword parameters `sig`:
    the resulting local bindings in signature order, or the `TypeError` kind. -/
def bind (sig : Sig Name V) (args : List V) (kw : Dict Name V) : Except (BindErr Name) (List (Name × V)) :=
  match kwErr (names sig) args.length kw with
  | some e => .error e
  | none =>
    if args.length > sig.length then .error .tooMany
    else match allSome (slots sig args kw) with
      | some b => .ok b
      | none => .error (.missing (missingOf (slots sig args kw)))

/-- `_update_dict_delta(dict_input=memory, dict_output=kwargs, keys_possible_lst=possible)` -/
def updateDelta (mem kw : Dict Name V) (possible : List Name) : Dict Name V :=
  mem.filter (fun kv => decide (kv.1 ∈ possible) && !decide (kv.1 ∈ Dict.keys kw))

/-- `call_funct(input_dict, funct=None, memory)`.
    `kwargs.update(delta)` with `delta` disjoint from `kwargs` is an append (insertion order).
    `skipPositional = true`: repaired code, presets are offered only for parameters not already
    bound positionally (`funct_args[len(args):]`); `false`: as found at f65d02b (defect D8). -/
def callFunct (skipPositional : Bool) (sig : Sig Name V) (mem : Option (Dict Name V))
    (args : List V) (kw : Dict Name V) : Except (BindErr Name) (List (Name × V)) :=
  match mem with
  | none => bind sig args kw
  | some m =>
    let possible := if skipPositional then (names sig).drop args.length else names sig
    bind sig args (kw ++ updateDelta m kw possible)

end ExecModel.Preset
