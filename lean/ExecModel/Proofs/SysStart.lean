import ExecModel.Proofs.SysOnce
import ExecModel.Proofs.SysVal
import ExecModel.Proofs.SysLiveDefs
/-!
  Outcomes come from a started call.  The ghost log `sentLog` lists the calls handed to a worker
  process (it grows only at `wSend`).  A future is set `finished` only by the worker's `wFinish`,
  taken at pc `.sent i _` — a pc entered only by `wSend`, which logs `i` — so every finished future
  belongs to a logged call (`finished_was_sent`).

  The analogue for `failed` is FALSE in general: the resolver fails a call one of whose inputs failed
  or was cancelled (`rFailDep`/`rScanFail`, then `rFailSet`) without the call ever being handed to a
  worker (counterexample at the end of the file).  The true statement (`failed_was_sent_or_input`):
  a failed future belongs to a logged call or has an input that failed / was cancelled; with `WfCfg`
  the two cases are exclusive and coincide with the two cases of `FailedFor`
  (`failed_sent_or_never_sent`).

  Invariant `StartInv`: finished futures are logged; failed futures are logged or have a bad input;
  a worker at `.sent i _`, `.failB i _`, `.failC i _` holds a logged call; the resolver at
  `.failing i _ _` holds a call with a bad input.
-/
set_option linter.unusedSimpArgs false
set_option linter.unusedVariables false
namespace ExecModel.Sys

variable {Val Err : Type}
variable (cfg : Cfg) (eval : Nat → List Val → Except Err Val) (cancelErr : Err)

/-! ### definitions -/

/-- A future whose `result()` raises: failed or cancelled. -/
def futBad : Fut Val Err → Prop
  | .failed _ | .cancelled | .cancelledNotified => True
  | _ => False

/-- Some input of call `i` failed or was cancelled. -/
def InputBad (cfg : Cfg) (s : State Val Err) (i : Nat) : Prop :=
  ∃ j ∈ depsOf cfg i, futBad (futOf s j)

/-- Worker pcs reached only through `wSend` of call `i`. -/
def wpcStarted (i : Nat) : WPc Val Err → Prop
  | .sent j _ | .failB j _ | .failC j _ => j = i
  | _ => False

structure StartInv (cfg : Cfg) (s : State Val Err) : Prop where
  fin : ∀ (i : Nat) (v : Val), futOf s i = .finished v → i ∈ s.sentLog
  fail : ∀ (i : Nat) (e : Err), futOf s i = .failed e → i ∈ s.sentLog ∨ InputBad cfg s i
  wk : ∀ (k : Nat) (w : Worker Val Err) (i : Nat), s.wk[k]? = some w → wpcStarted i w.pc →
    i ∈ s.sentLog
  res : ∀ (i : Nat) (e : Err) (r : RRet), s.res = some (.failing i e r) → InputBad cfg s i

/-- Where the outcomes, the started-pcs and the `failing` pc of the new state come from. -/
structure StartShape (cfg : Cfg) (s s' : State Val Err) : Prop where
  log : ∀ i ∈ s.sentLog, i ∈ s'.sentLog
  fin : ∀ (j : Nat) (v : Val), futOf s' j = .finished v →
    futOf s j = .finished v ∨ ∃ (k : Nat) (w : Worker Val Err), s.wk[k]? = some w ∧ wpcStarted j w.pc
  fail : ∀ (j : Nat) (e : Err), futOf s' j = .failed e →
    futOf s j = .failed e ∨ (∃ (k : Nat) (w : Worker Val Err), s.wk[k]? = some w ∧ wpcStarted j w.pc) ∨
      ∃ r, s.res = some (.failing j e r)
  wk : ∀ (k : Nat) (w' : Worker Val Err) (j : Nat), s'.wk[k]? = some w' → wpcStarted j w'.pc →
    (∃ w, s.wk[k]? = some w ∧ wpcStarted j w.pc) ∨ j ∈ s'.sentLog
  res : ∀ (j : Nat) (e : Err) (r : RRet), s'.res = some (.failing j e r) →
    (∃ r0, s.res = some (.failing j e r0)) ∨ InputBad cfg s j

/-- No future gets an outcome in this step. -/
def Keeps (s s' : State Val Err) : Prop :=
  ∀ j, (∀ v, futOf s' j = .finished v → futOf s j = .finished v) ∧
       (∀ e, futOf s' j = .failed e → futOf s j = .failed e)

/-! ### small facts -/

theorem futBad_step {f g : Fut Val Err} (h : FutStep f g) (hb : futBad f) : futBad g := by
  cases h <;> simp_all [futBad]

theorem inputBad_mono {s s' : State Val Err} (hm : ∀ j, FutStep (futOf s j) (futOf s' j)) {i : Nat}
    (h : InputBad cfg s i) : InputBad cfg s' i := by
  obtain ⟨j, hj, hb⟩ := h
  exact ⟨j, hj, futBad_step (hm j) hb⟩

theorem exists_bad_of_firstFailure {s : State Val Err} {e : Err} (js : List Nat)
    (h : firstFailure cancelErr s js = some e) : ∃ j ∈ js, futBad (futOf s j) := by
  induction js with
  | nil => simp [firstFailure] at h
  | cons j js ih =>
    unfold firstFailure at h
    split at h
    · rename_i e' hj
      exact ⟨j, List.mem_cons_self, by rw [hj]; trivial⟩
    · rename_i hj
      exact ⟨j, List.mem_cons_self, by rw [hj]; trivial⟩
    · rename_i hj
      exact ⟨j, List.mem_cons_self, by rw [hj]; trivial⟩
    · obtain ⟨j', hj', hb⟩ := ih h
      exact ⟨j', List.mem_cons_of_mem _ hj', hb⟩

theorem inputBad_of_firstFailure {s : State Val Err} {i : Nat} {e : Err}
    (h : firstFailure cancelErr s (depsOf cfg i) = some e) : InputBad cfg s i :=
  exists_bad_of_firstFailure cancelErr (depsOf cfg i) h

/-- With all inputs finished no input is bad. -/
theorem not_bad_of_inputsOf {s : State Val Err} (js : List Nat) {vs : List Val}
    (h : inputsOf s js = some vs) : ∀ j ∈ js, ¬ futBad (futOf s j) := by
  induction js generalizing vs with
  | nil => intro j hj; cases hj
  | cons j0 js ih =>
    unfold inputsOf at h
    split at h
    · rename_i v vs' hj0 hjs
      intro j hj
      rcases List.mem_cons.1 hj with rfl | hj
      · rw [hj0]; exact fun hb => hb
      · exact ih hjs j hj
    · cases h

theorem not_inputBad_of_inputsOf {s : State Val Err} {i : Nat} {vs : List Val}
    (h : inputsOf s (depsOf cfg i) = some vs) : ¬ InputBad cfg s i := by
  rintro ⟨j, hj, hb⟩
  exact not_bad_of_inputsOf (depsOf cfg i) h j hj hb

theorem keeps_of_fut_eq {s s' : State Val Err} (h : s'.fut = s.fut) : Keeps s s' := by
  intro j
  constructor
  · intro v hj; simpa [futOf, h] using hj
  · intro e hj; simpa [futOf, h] using hj

theorem keeps_of_fut_set {s s' : State Val Err} {i : Nat} {f : Fut Val Err}
    (h : s'.fut = s.fut.set i f) (hf : (∀ v, f ≠ .finished v) ∧ (∀ e, f ≠ .failed e)) :
    Keeps s s' := by
  intro j
  have e : futOf s' j = futOf (setFut s i f) j := by simp [futOf, setFut, h]
  constructor
  · intro v hj
    rw [e, futOf_setFut] at hj
    split at hj
    · exact absurd hj (hf.1 v)
    · exact hj
  · intro x hj
    rw [e, futOf_setFut] at hj
    split at hj
    · exact absurd hj (hf.2 x)
    · exact hj

theorem keeps_of_sdStep {s s1 s' : State Val Err} {sd : Sd} {l : Label Val Err}
    {r : Except Err (Option Sd)} (h : sdStep cfg s sd l = some (s1, r)) (hf : s'.fut = s1.fut) :
    Keeps s s' := by
  obtain ⟨-, -, -, -, h5⟩ := sdStep_effect cfg h
  rcases h5 with ⟨e, -⟩ | ⟨i, -, e, -⟩
  · exact keeps_of_fut_eq (by rw [hf, e])
  · exact keeps_of_fut_set (i := i) (f := .cancelled) (by rw [hf, e])
      ⟨fun _ hh => (by cases hh), fun _ hh => (by cases hh)⟩

theorem notOutcome_pending : (∀ v : Val, (Fut.pending : Fut Val Err) ≠ .finished v) ∧
    (∀ e : Err, (Fut.pending : Fut Val Err) ≠ .failed e) :=
  ⟨fun _ hh => (by cases hh), fun _ hh => (by cases hh)⟩
theorem notOutcome_running : (∀ v : Val, (Fut.running : Fut Val Err) ≠ .finished v) ∧
    (∀ e : Err, (Fut.running : Fut Val Err) ≠ .failed e) :=
  ⟨fun _ hh => (by cases hh), fun _ hh => (by cases hh)⟩
theorem notOutcome_cancelled : (∀ v : Val, (Fut.cancelled : Fut Val Err) ≠ .finished v) ∧
    (∀ e : Err, (Fut.cancelled : Fut Val Err) ≠ .failed e) :=
  ⟨fun _ hh => (by cases hh), fun _ hh => (by cases hh)⟩
theorem notOutcome_cancelledNotified :
    (∀ v : Val, (Fut.cancelledNotified : Fut Val Err) ≠ .finished v) ∧
    (∀ e : Err, (Fut.cancelledNotified : Fut Val Err) ≠ .failed e) :=
  ⟨fun _ hh => (by cases hh), fun _ hh => (by cases hh)⟩

/-- A step that gives no future an outcome and leaves workers, resolver pc and log alone. -/
theorem startShape_of_keeps {s s' : State Val Err} (hk : Keeps s s') (hwk : s'.wk = s.wk)
    (hres : s'.res = s.res) (hlog : s'.sentLog = s.sentLog) : StartShape cfg s s' := by
  refine ⟨?_, ?_, ?_, ?_, ?_⟩
  · intro i hi; rw [hlog]; exact hi
  · intro j v hj; exact Or.inl ((hk j).1 v hj)
  · intro j e hj; exact Or.inl ((hk j).2 e hj)
  · intro k w' j hw hp
    rw [hwk] at hw
    exact Or.inl ⟨w', hw, hp⟩
  · intro j e r hr
    rw [hres] at hr
    exact Or.inl ⟨r, hr⟩

/-! ### the user thread -/

theorem keeps_mainStep {s s' : State Val Err} {l : Label Val Err}
    (h : mainStep cfg s l = some s') : Keeps s s' := by
  unfold mainStep at h
  split_step h
  all_goals (simp only [Option.some.injEq] at h; subst h)
  all_goals (first
    | (refine keeps_of_fut_eq ?_; simp; done)
    | (refine keeps_of_fut_set (i := _) (f := _) rfl notOutcome_cancelled)
    | (refine keeps_of_sdStep cfg ‹sdStep cfg s _ _ = some _› ?_; simp; done)
    | (refine keeps_of_fut_set (i := s.nsub) (f := .pending) ?_ notOutcome_pending
       simp; done))

theorem res_mainStep {s s' : State Val Err} {l : Label Val Err}
    (h : mainStep cfg s l = some s') : s'.res = s.res := by
  unfold mainStep at h
  split_step h
  all_goals (simp only [Option.some.injEq] at h; subst h)
  all_goals (first
    | (simp; done)
    | (rename_i hsd
       have e' := sdStep_effect cfg hsd
       obtain ⟨-, -, f3, -⟩ := e'
       exact f3))

theorem startShape_mainStep {s s' : State Val Err} {l : Label Val Err}
    (h : mainStep cfg s l = some s') : StartShape cfg s s' :=
  startShape_of_keeps cfg (keeps_mainStep cfg h) (mainStep_eff cfg h).1 (res_mainStep cfg h)
    (logs_mainStep cfg h).1

/-! ### the dispatcher -/

theorem res_dispStep {s s' : State Val Err} {l : Label Val Err}
    (h : dispStep cfg s l = some s') : s'.res = s.res := by
  unfold dispStep at h
  split at h
  · cases h
  split_step h
  all_goals (simp only [Option.some.injEq] at h; subst h)
  all_goals (simp; done)

theorem startShape_dispStep {s s' : State Val Err} {l : Label Val Err}
    (h : dispStep cfg s l = some s') : StartShape cfg s s' := by
  have hlog := (logs_dispStep cfg h).1
  have hres := res_dispStep cfg h
  obtain ⟨hfut, hd⟩ := dispStep_eff cfg h
  have hk := keeps_of_fut_eq hfut
  rcases hd with ⟨hwk, -⟩ | ⟨_, _, _, -, -, -, hwk, -⟩ | ⟨i, vs, req, -, -, -, -, hwk, -⟩
  · exact startShape_of_keeps cfg hk hwk hres hlog
  · exact startShape_of_keeps cfg hk hwk hres hlog
  · refine ⟨?_, ?_, ?_, ?_, ?_⟩
    · intro i hi; rw [hlog]; exact hi
    · intro j v hj; exact Or.inl ((hk j).1 v hj)
    · intro j e hj; exact Or.inl ((hk j).2 e hj)
    · intro k w' j hw hp
      rw [hwk] at hw
      rcases Nat.lt_or_ge k s.wk.length with hlt | hge
      · rw [List.getElem?_append_left hlt] at hw
        exact Or.inl ⟨w', hw, hp⟩
      · rw [List.getElem?_append_right hge] at hw
        cases hkk : k - s.wk.length with
        | zero =>
          simp [hkk] at hw
          subst hw
          exact absurd hp (fun hh => hh)
        | succ n => simp [hkk] at hw
    · intro j e r hr
      rw [hres] at hr
      exact Or.inl ⟨r, hr⟩

/-! ### the resolver -/

theorem fin_resStep {s s' : State Val Err} {l : Label Val Err}
    (h : resStep cfg cancelErr s l = some s') :
    ∀ j, (∀ v, futOf s' j = .finished v → futOf s j = .finished v) ∧
      (∀ e, futOf s' j = .failed e →
        futOf s j = .failed e ∨ ∃ r, s.res = some (.failing j e r)) := by
  have key : Keeps s s' ∨ ∃ i e r, s.res = some (.failing i e r) ∧ s'.fut = s.fut.set i (.failed e) := by
    unfold resStep at h
    split at h
    · cases h
    split_step h
    all_goals (simp only [Option.some.injEq] at h; subst h)
    all_goals (first
      | (left; refine keeps_of_fut_eq ?_; simp; done)
      | (left; refine keeps_of_fut_set (i := _) (f := _) rfl notOutcome_running)
      | (left; refine keeps_of_fut_set (i := _) (f := _) rfl notOutcome_cancelledNotified)
      | (left; refine keeps_of_sdStep cfg ‹sdStep cfg s _ _ = some _› ?_; simp; done)
      | (right; exact ⟨_, _, _, ‹s.res = some (RPc.failing _ _ _)›, rfl⟩))
  intro j
  rcases key with hk | ⟨i, e0, r, hr, hf⟩
  · exact ⟨(hk j).1, fun e hj => Or.inl ((hk j).2 e hj)⟩
  · have e : futOf s' j = futOf (setFut s i (.failed e0)) j := by simp [futOf, setFut, hf]
    constructor
    · intro v hj
      rw [e, futOf_setFut] at hj
      split at hj
      · cases hj
      · exact hj
    · intro x hj
      rw [e, futOf_setFut] at hj
      split at hj
      · rename_i hij
        cases hj
        right
        rw [← hij.1]
        exact ⟨r, hr⟩
      · exact Or.inl hj

theorem failing_resStep {s s' : State Val Err} {l : Label Val Err}
    (h : resStep cfg cancelErr s l = some s') (j : Nat) (e : Err) (r : RRet)
    (hr : s'.res = some (.failing j e r)) :
    (∃ r0, s.res = some (.failing j e r0)) ∨ InputBad cfg s j := by
  unfold resStep at h
  split at h
  · cases h
  split_step h
  all_goals (simp only [Option.some.injEq] at h; subst h)
  all_goals (first
    | (simp at hr; done)
    | (simp at hr
       obtain ⟨e1, e2, -⟩ := hr
       subst e1
       subst e2
       right
       apply inputBad_of_firstFailure cfg cancelErr
       assumption)
    | (simp at hr
       split at hr <;> simp at hr; done)
    | (left
       exact ⟨r, hr⟩))

theorem startShape_resStep {s s' : State Val Err} {l : Label Val Err}
    (h : resStep cfg cancelErr s l = some s') : StartShape cfg s s' := by
  have hlog := (logs_resStep cfg cancelErr h).1
  have hwk := (resStep_eff cfg cancelErr h).1
  have hf := fin_resStep cfg cancelErr h
  refine ⟨?_, ?_, ?_, ?_, ?_⟩
  · intro i hi; rw [hlog]; exact hi
  · intro j v hj; exact Or.inl ((hf j).1 v hj)
  · intro j e hj
    rcases (hf j).2 e hj with h1 | h1
    · exact Or.inl h1
    · exact Or.inr (Or.inr h1)
  · intro k w' j hw hp
    rw [hwk] at hw
    exact Or.inl ⟨w', hw, hp⟩
  · exact failing_resStep cfg cancelErr h

/-! ### the workers -/

theorem startShape_worker {s s' : State Val Err} {k : Nat} {w w' : Worker Val Err}
    (hk : s.wk[k]? = some w) (hwk : s'.wk = s.wk.set k w') (hres : s'.res = s.res)
    (hlog : ∀ i ∈ s.sentLog, i ∈ s'.sentLog)
    (hfut : Keeps s s' ∨ ∃ i f, wpcStarted i w.pc ∧ s'.fut = s.fut.set i f)
    (hpc : ∀ j, wpcStarted j w'.pc → wpcStarted j w.pc ∨ j ∈ s'.sentLog) : StartShape cfg s s' := by
  have hklt : k < s.wk.length := by
    rcases Nat.lt_or_ge k s.wk.length with h | h
    · exact h
    · simp [List.getElem?_eq_none h] at hk
  refine ⟨hlog, ?_, ?_, ?_, ?_⟩
  · intro j v hj
    rcases hfut with hkp | ⟨i, f, hst, hf⟩
    · exact Or.inl ((hkp j).1 v hj)
    · have e : futOf s' j = futOf (setFut s i f) j := by simp [futOf, setFut, hf]
      rw [e, futOf_setFut] at hj
      split at hj
      · rename_i hij
        right
        rw [← hij.1]
        exact ⟨k, w, hk, hst⟩
      · exact Or.inl hj
  · intro j x hj
    rcases hfut with hkp | ⟨i, f, hst, hf⟩
    · exact Or.inl ((hkp j).2 x hj)
    · have e : futOf s' j = futOf (setFut s i f) j := by simp [futOf, setFut, hf]
      rw [e, futOf_setFut] at hj
      split at hj
      · rename_i hij
        right; left
        rw [← hij.1]
        exact ⟨k, w, hk, hst⟩
      · exact Or.inl hj
  · intro k' w2 j hw hp
    rw [hwk] at hw
    by_cases hkk : k' = k
    · subst hkk
      rw [List.getElem?_set_self hklt] at hw
      have e : w' = w2 := Option.some.inj hw
      subst e
      rcases hpc j hp with h1 | h1
      · exact Or.inl ⟨w, hk, h1⟩
      · exact Or.inr h1
    · rw [List.getElem?_set_ne (Ne.symm hkk)] at hw
      exact Or.inl ⟨w2, hw, hp⟩
  · intro j e r hr
    rw [hres] at hr
    exact Or.inl ⟨r, hr⟩

theorem startShape_workerStep {s s' : State Val Err} {k : Nat} {l : Label Val Err}
    (h : workerStep eval s k l = some s') : StartShape cfg s s' := by
  unfold workerStep at h
  split at h
  · cases h
  rename_i w hk
  split_step h
  all_goals (simp only [Option.some.injEq] at h; subst h)
  all_goals (apply startShape_worker cfg hk)
  all_goals (first
    | (simp only [setWk_wk, setQ_wk, taskDone_wk, setFut_wk]; rfl)
    | (simp; done)
    | (intro i hi; simp [hi]; done)
    | (left; refine keeps_of_fut_eq ?_; simp; done)
    | (left; refine keeps_of_fut_set (i := _) (f := _) rfl notOutcome_running)
    | (left; refine keeps_of_fut_set (i := _) (f := _) rfl notOutcome_cancelledNotified)
    | (right
       refine ⟨_, _, ?_, rfl⟩
       simp [*, wpcStarted]; done)
    | (intro j hj
       first
       | (simp [wpcStarted] at hj; done)
       | (simp [wpcStarted] at hj
          subst hj
          first
          | (left; simp [*, wpcStarted]; done)
          | (right; simp; done))))

/-! ### every step -/

theorem startShape_step {s s' : State Val Err} {l : Label Val Err}
    (h : step cfg eval cancelErr s l = some s') : StartShape cfg s s' := by
  unfold step at h
  split at h
  all_goals first
    | exact startShape_mainStep cfg h
    | exact startShape_resStep cfg cancelErr h
    | exact startShape_dispStep cfg h
    | exact startShape_workerStep cfg eval h

/-! ### preservation -/

theorem startInv_shape {s s' : State Val Err} (hm : ∀ j, FutStep (futOf s j) (futOf s' j))
    (hI : StartInv cfg s) (hS : StartShape cfg s s') : StartInv cfg s' := by
  refine ⟨?_, ?_, ?_, ?_⟩
  · intro i v hf
    rcases hS.fin i v hf with h1 | ⟨k, w, hk, hp⟩
    · exact hS.log i (hI.fin i v h1)
    · exact hS.log i (hI.wk k w i hk hp)
  · intro i e hf
    rcases hS.fail i e hf with h1 | ⟨k, w, hk, hp⟩ | ⟨r, hr⟩
    · rcases hI.fail i e h1 with h2 | h2
      · exact Or.inl (hS.log i h2)
      · exact Or.inr (inputBad_mono cfg hm h2)
    · exact Or.inl (hS.log i (hI.wk k w i hk hp))
    · exact Or.inr (inputBad_mono cfg hm (hI.res i e r hr))
  · intro k w' i hk hp
    rcases hS.wk k w' i hk hp with ⟨w, hw, hp0⟩ | h1
    · exact hS.log i (hI.wk k w i hw hp0)
    · exact h1
  · intro i e r hr
    rcases hS.res i e r hr with ⟨r0, h0⟩ | h1
    · exact inputBad_mono cfg hm (hI.res i e r0 h0)
    · exact inputBad_mono cfg hm h1

theorem startInv_step {s s' : State Val Err} {l : Label Val Err} (hC : Core s)
    (hI : StartInv cfg s) (h : step cfg eval cancelErr s l = some s') : StartInv cfg s' := by
  have hfacts := core_step_facts cfg eval cancelErr hC h
  exact startInv_shape cfg (fun j => (hfacts.2.2 j).1) hI (startShape_step cfg eval cancelErr h)

theorem startInv_init (script : List Cmd) : StartInv cfg (init cfg script : State Val Err) := by
  have h0 : ∀ i, futOf (init cfg script : State Val Err) i = .absent :=
    fun i => (core_init cfg script).futWf i (Nat.zero_le _)
  refine ⟨?_, ?_, ?_, ?_⟩
  · intro i v hf
    rw [h0] at hf; cases hf
  · intro i e hf
    rw [h0] at hf; cases hf
  · intro k w i hk hp
    rw [(init_wk_boot cfg hk).2] at hp
    exact absurd hp (fun hh => hh)
  · intro i e r hr
    simp only [init] at hr
    split at hr <;> simp at hr

theorem startInv_run {s0 s : State Val Err} (ls : List (Label Val Err)) (hC : Core s0)
    (hI : StartInv cfg s0) (h : run cfg eval cancelErr s0 ls = some s) : StartInv cfg s := by
  induction ls generalizing s0 with
  | nil => simp [run] at h; subst h; exact hI
  | cons l ls ih =>
    simp only [run, Option.bind_eq_some_iff] at h
    obtain ⟨s1, h1, h2⟩ := h
    exact ih (core_step cfg eval cancelErr hC h1) (startInv_step cfg eval cancelErr hC hI h1) h2

theorem startInv_reachable {script : List Cmd} {s : State Val Err}
    (h : Reachable cfg eval cancelErr script s) : StartInv cfg s := by
  obtain ⟨ls, hls⟩ := h
  exact startInv_run cfg eval cancelErr ls (core_init cfg script) (startInv_init cfg script) hls

/-! ### the properties -/

/-- **A finished future belongs to a started call**: a future finishes only through a worker that
    was handed the call. -/
theorem finished_was_sent {script : List Cmd} {s : State Val Err}
    (h : Reachable cfg eval cancelErr script s) {i : Nat} {v : Val}
    (hf : futOf s i = .finished v) : i ∈ s.sentLog :=
  (startInv_reachable cfg eval cancelErr h).fin i v hf

/-- A worker executing call `i`, or reporting its failure, was handed the call. -/
theorem executing_was_sent {script : List Cmd} {s : State Val Err}
    (h : Reachable cfg eval cancelErr script s) {k : Nat} {w : Worker Val Err} {i : Nat}
    (hk : s.wk[k]? = some w) (hp : wpcStarted i w.pc) : i ∈ s.sentLog :=
  (startInv_reachable cfg eval cancelErr h).wk k w i hk hp

/-- **A failed future belongs to a started call, or one of its inputs failed / was cancelled**
    (`failed → sent` alone is false: the resolver fails the dependents of a failed or cancelled
    call without ever handing them to a worker; counterexample below). -/
theorem failed_was_sent_or_input {script : List Cmd} {s : State Val Err}
    (h : Reachable cfg eval cancelErr script s) {i : Nat} {e : Err}
    (hf : futOf s i = .failed e) :
    i ∈ s.sentLog ∨ ∃ j ∈ depsOf cfg i, (∃ e', futOf s j = .failed e') ∨
      futOf s j = .cancelled ∨ futOf s j = .cancelledNotified := by
  rcases (startInv_reachable cfg eval cancelErr h).fail i e hf with h1 | ⟨j, hj, hb⟩
  · exact Or.inl h1
  · right
    refine ⟨j, hj, ?_⟩
    cases hfj : futOf s j <;> rw [hfj] at hb <;> simp [futBad] at hb ⊢

/-- The two ways of failing are exclusive and decided by the log (well-formed case): a failed
    future either belongs to a started call, whose own function raised the exception on the values
    of its inputs, or to a call that was never started and carries the exception of its first
    failed / cancelled input. -/
theorem failed_sent_or_never_sent (hwf : WfCfg cfg) {script : List Cmd} {s : State Val Err}
    (h : Reachable cfg eval cancelErr script s) {i : Nat} {e : Err}
    (hf : futOf s i = .failed e) :
    (i ∈ s.sentLog ∧ ∃ vs, inputsOf s (depsOf cfg i) = some vs ∧ eval i vs = .error e) ∨
    (i ∉ s.sentLog ∧ allDone s (depsOf cfg i) = true ∧ inputsOf s (depsOf cfg i) = none ∧
      firstFailure cancelErr s (depsOf cfg i) = some e) := by
  rcases failure_provenance cfg eval cancelErr hwf h hf with ⟨vs, h1, h2⟩ | ⟨h1, h2, h3⟩
  · left
    refine ⟨?_, vs, h1, h2⟩
    rcases (startInv_reachable cfg eval cancelErr h).fail i e hf with h4 | h4
    · exact h4
    · exact absurd h4 (not_inputBad_of_inputsOf cfg h1)
  · right
    refine ⟨?_, h1, h2, h3⟩
    intro hs
    obtain ⟨vs, hvs⟩ := not_before_inputs cfg eval cancelErr hwf h hs
    rw [h2] at hvs
    cases hvs

/-- A failed future whose inputs all finished belongs to a started call. -/
theorem failed_own_was_sent {script : List Cmd} {s : State Val Err}
    (h : Reachable cfg eval cancelErr script s) {i : Nat} {e : Err}
    (hf : futOf s i = .failed e) {vs : List Val} (hin : inputsOf s (depsOf cfg i) = some vs) :
    i ∈ s.sentLog := by
  rcases (startInv_reachable cfg eval cancelErr h).fail i e hf with h4 | h4
  · exact h4
  · exact absurd h4 (not_inputBad_of_inputsOf cfg hin)

/-! ### programs without failing calls -/

theorem firstFailure_cases {s : State Val Err} {e : Err} (js : List Nat)
    (h : firstFailure cancelErr s js = some e) :
    ∃ j ∈ js, futOf s j = .failed e ∨
      ((futOf s j = .cancelled ∨ futOf s j = .cancelledNotified) ∧ e = cancelErr) := by
  induction js with
  | nil => simp [firstFailure] at h
  | cons j js ih =>
    unfold firstFailure at h
    split at h
    · rename_i e' hj
      cases h
      exact ⟨j, List.mem_cons_self, Or.inl hj⟩
    · rename_i hj
      cases h
      exact ⟨j, List.mem_cons_self, Or.inr ⟨Or.inl hj, rfl⟩⟩
    · rename_i hj
      cases h
      exact ⟨j, List.mem_cons_self, Or.inr ⟨Or.inr hj, rfl⟩⟩
    · obtain ⟨j', hj', hb⟩ := ih h
      exact ⟨j', List.mem_cons_of_mem _ hj', hb⟩

/-- When no call raises, the only exception a future ever holds is the cancellation error handed
    down from a cancelled input. -/
theorem nofail_failed_is_cancelErr (hnf : NoFail eval) (hwf : WfCfg cfg) {script : List Cmd}
    {s : State Val Err} (h : Reachable cfg eval cancelErr script s) :
    ∀ (i : Nat) (e : Err), futOf s i = .failed e → e = cancelErr := by
  intro i
  induction i using Nat.strongRecOn with
  | ind i ih =>
    intro e hf
    rcases failed_sent_or_never_sent cfg eval cancelErr hwf h hf with ⟨-, vs, -, hev⟩ | ⟨-, -, -, hff⟩
    · obtain ⟨v, hv⟩ := hnf i vs
      rw [hv] at hev
      cases hev
    · obtain ⟨j, hj, hc⟩ := firstFailure_cases cancelErr (depsOf cfg i) hff
      rcases hc with hc | ⟨-, hc⟩
      · exact ih j (hwf.1 i j hj) e hc
      · exact hc

/-- When no call raises, a failed future belongs to a call that was never started: it holds the
    cancellation error, and one of its inputs was cancelled or failed in the same way. -/
theorem nofail_failed_never_sent (hnf : NoFail eval) (hwf : WfCfg cfg) {script : List Cmd}
    {s : State Val Err} (h : Reachable cfg eval cancelErr script s) {i : Nat} {e : Err}
    (hf : futOf s i = .failed e) :
    e = cancelErr ∧ i ∉ s.sentLog ∧ ∃ j ∈ depsOf cfg i,
      futOf s j = .failed cancelErr ∨ futOf s j = .cancelled ∨ futOf s j = .cancelledNotified := by
  have he := nofail_failed_is_cancelErr cfg eval cancelErr hnf hwf h i e hf
  rw [he] at hf
  rcases failed_sent_or_never_sent cfg eval cancelErr hwf h hf with ⟨-, vs, -, hev⟩ | ⟨hns, -, -, hff⟩
  · obtain ⟨v, hv⟩ := hnf i vs
    rw [hv] at hev
    cases hev
  · refine ⟨he, hns, ?_⟩
    obtain ⟨j, hj, hc⟩ := firstFailure_cases cancelErr (depsOf cfg i) hff
    refine ⟨j, hj, ?_⟩
    rcases hc with hc | ⟨hc, -⟩
    · exact Or.inl hc
    · exact Or.inr hc

/-- When no call raises and no future is cancelled, no future is failed. -/
theorem nofail_nocancel_not_failed (hnf : NoFail eval) (hwf : WfCfg cfg) {script : List Cmd}
    {s : State Val Err} (h : Reachable cfg eval cancelErr script s)
    (hnc : ∀ j, futOf s j ≠ .cancelled ∧ futOf s j ≠ .cancelledNotified) :
    ∀ (i : Nat) (e : Err), futOf s i ≠ .failed e := by
  intro i
  induction i using Nat.strongRecOn with
  | ind i ih =>
    intro e hf
    obtain ⟨-, -, j, hj, hc⟩ := nofail_failed_never_sent cfg eval cancelErr hnf hwf h hf
    rcases hc with hc | hc | hc
    · exact ih j (hwf.1 i j hj) cancelErr hc
    · exact (hnc j).1 hc
    · exact (hnc j).2 hc

/-! Counterexample to `failed → sent`: call 0 raises, its dependent 1 is failed by the resolver and
    is never handed to a worker (one process per call; call 2 is independent and finishes). -/
def startExCfg : Cfg := { resolver := true, block := none, calls := [{}, { deps := [0] }, {}] }
def startExEval : Nat → List Nat → Except Nat Nat := fun i _ => if i = 0 then .error 77 else .ok i
def startExRun : List (Label Nat Nat) :=
  [.mSubmit, .mSubmit, .mSubmit, .rGet, .rDecideReady, .rForward, .rAck, .rGet, .rDecidePark, .rAck,
   .rGet, .rDecideReady, .rForward, .rAck, .dGet, .dLaunch, .dAck, .dGet, .dLaunch, .dAck,
   .wBoot 0, .wGet 0, .wSrn 0, .wSend 0, .wFailA 0, .wFailB 0, .wFailC 0, .rScanFail 0, .rFailSet,
   .wBoot 1, .wGet 1, .wSrn 1, .wSend 1, .wFinish 1]

theorem failed_was_sent_is_false :
    ∃ s, run startExCfg startExEval 0 (init startExCfg [.submit, .submit, .submit]) startExRun = some s ∧
      futOf s 1 = .failed 77 ∧ 1 ∉ s.sentLog ∧ s.sentLog = [0, 2] ∧ futOf s 2 = .finished 2 := by
  refine ⟨_, rfl, ?_⟩
  decide

end ExecModel.Sys
