import ExecModel.Proofs.FileLiveD
/-!
  Liveness of the file-based executor (repaired code, crash-free runs): in a state where nothing but
  a crash is enabled the loop thread is idle, `memory_dict` is empty, every worker process has
  exited, every submitted call is finished, dropped (D13) or — only behind a call whose input was
  dropped — still queued.  Termination is `run_length_le` (FileLiveA).
-/
namespace ExecModel.FileExec

variable {K V : Type} [DecidableEq K]

section Step
variable (ncalls : Nat) (deps : Nat → List Nat) (key : Nat → K) (eval : Nat → List V → V)

/-- nothing but a crash is enabled: the end of a maximal crash-free run -/
def StuckAt (s : State K V) : Prop :=
  ∀ l, crashLabel l = false → step ⟨true, true⟩ ncalls deps key eval s l = none

/-! ### enabledness -/

theorem take_enabled {s : State K V} {i : Nat} {rest : List Nat} (hl : s.loop = .idle) (hq : s.queue = i :: rest)
    (hall : ∀ j ∈ deps i, (memGet s.memory (key j)).isSome = true ∨ ∃ x, futOf s j = .finished x) :
    step ⟨true, true⟩ ncalls deps key eval s .take ≠ none := by
  simp only [step, hl, hq]
  split
  · exact nofun
  · rename_i hneg
    exfalso
    apply hneg
    rw [List.all_eq_true]
    intro j hj
    rcases hall j hj with h | ⟨x, hx⟩
    · simp [h]
    · simp [hx]

theorem lookup_enabled {s : State K V} {i : Nat} (hl : s.loop = .converted i) :
    step ⟨true, true⟩ ncalls deps key eval s .lookup ≠ none := by
  simp only [step, hl]
  split
  · exact nofun
  · split
    · exact nofun
    · exact nofun

theorem writeInput_enabled {s : State K V} {i : Nat} (hl : s.loop = .writeIn i) :
    step ⟨true, true⟩ ncalls deps key eval s .writeInput ≠ none := by
  simp only [step, hl]
  split
  · exact nofun
  · exact nofun

theorem launch_enabled {s : State K V} {i : Nat} (hl : s.loop = .waitDeps i) (hall : ∀ k, procEnded s k = true) :
    step ⟨true, true⟩ ncalls deps key eval s .launch ≠ none := by
  simp only [step, hl]
  split
  · exact nofun
  · split
    · exact nofun
    · rename_i hneg
      exfalso
      apply hneg
      rw [List.all_eq_true]
      intro k _
      exact hall k

theorem collect_enabled {s : State K V} {n : Nat} {kk : K} {i : Nat} (hl : s.loop = .idle)
    (hm : s.memory[n]? = some (kk, i)) (ho : outB s.dir kk = true) :
    step ⟨true, true⟩ ncalls deps key eval s (.collect n) ≠ none := by
  obtain ⟨x, hx⟩ := Option.isSome_iff_exists.mp ho
  simp only [step, hl, hm, hx]
  exact nofun

theorem proc_enabled {s : State K V} {p : Nat} {pr : Proc K V} (hp : s.procs[p]? = some pr)
    (h1 : pr.pc ≠ .exited) (h2 : pr.pc ≠ .crashed) :
    ∃ l, crashLabel l = false ∧ step ⟨true, true⟩ ncalls deps key eval s l ≠ none := by
  cases hpc : pr.pc with
  | started =>
    refine ⟨.pLoad p, rfl, ?_⟩
    simp only [step, hp, hpc]
    split
    · split
      · exact nofun
      · exact nofun
    · exact nofun
  | loaded vs =>
    refine ⟨.pCall p, rfl, ?_⟩
    simp only [step, hp, hpc]
    exact nofun
  | called x =>
    refine ⟨.pStage p, rfl, ?_⟩
    simp only [step, hp, hpc]
    exact nofun
  | staged x =>
    refine ⟨.pWrite p, rfl, ?_⟩
    simp only [step, hp, hpc]
    exact nofun
  | written x =>
    refine ⟨.pPublish p, rfl, ?_⟩
    simp only [step, hp, hpc]
    exact nofun
  | exited => exact absurd hpc h1
  | crashed => exact absurd hpc h2

/-! ### stuck states -/

/-- in a stuck state every worker process has exited -/
theorem stuck_procs {s : State K V} (hI : LiveInv deps key s) (hS : StuckAt ncalls deps key eval s) :
    ∀ (p : Nat) (pr : Proc K V), s.procs[p]? = some pr → pr.pc = .exited := by
  intro p pr hp
  have hpl := hI.procs p pr hp
  by_cases he : pr.pc = .exited
  · exact he
  · obtain ⟨l, hl, hne⟩ := proc_enabled ncalls deps key eval hp he hpl.2.1
    exact absurd (hS l hl) hne

theorem stuck_ended {s : State K V} (hI : LiveInv deps key s) (hS : StuckAt ncalls deps key eval s) (k : K) :
    procEnded s k = true := by
  simp only [procEnded, List.all_eq_true]
  intro pr hm
  obtain ⟨p, hp⟩ := List.getElem?_of_mem hm
  rw [stuck_procs ncalls deps key eval hI hS p pr hp]
  simp

/-- in a stuck state the loop thread is idle -/
theorem stuck_idle {s : State K V} (hI : LiveInv deps key s) (hS : StuckAt ncalls deps key eval s) :
    s.loop = .idle := by
  cases hl : s.loop with
  | idle => rfl
  | converted i => exact absurd (hS .lookup rfl) (lookup_enabled ncalls deps key eval hl)
  | writeIn i => exact absurd (hS .writeInput rfl) (writeInput_enabled ncalls deps key eval hl)
  | waitDeps i =>
    exact absurd (hS .launch rfl) (launch_enabled ncalls deps key eval hl (stuck_ended ncalls deps key eval hI hS))
  | dead => exact absurd hl hI.notDead

/-- in a stuck state `memory_dict` is empty: every entry has its result file -/
theorem stuck_memory {s : State K V} (hI : LiveInv deps key s) (hS : StuckAt ncalls deps key eval s) :
    s.memory = [] := by
  have hl := stuck_idle ncalls deps key eval hI hS
  cases hm : s.memory with
  | nil => rfl
  | cons e m =>
    obtain ⟨k, i⟩ := e
    have hmem : (k, i) ∈ s.memory := by rw [hm]; exact List.mem_cons_self
    have h0 : s.memory[0]? = some (k, i) := by rw [hm]; rfl
    have ho : outB s.dir k = true := by
      rcases hI.memOut k i hmem with h | ⟨p, pr, hp, hk⟩
      · exact h
      · rw [← hk]
        exact (hI.procs p pr hp).2.2.2.1 (stuck_procs ncalls deps key eval hI hS p pr hp)
    exact absurd (hS (.collect 0) rfl) (collect_enabled ncalls deps key eval hl h0 ho)

/-- **B, general form**: the end of a maximal crash-free run.  A call can remain queued only at or
    behind a call one of whose inputs was dropped (D13). -/
theorem stuck_general (hwf : WfDeps deps) {s : State K V} (hQ : QInv ncalls key s) (hI : LiveInv deps key s)
    (hS : StuckAt ncalls deps key eval s) :
    s.loop = .idle ∧ s.memory = [] ∧
    (∀ (p : Nat) (pr : Proc K V), s.procs[p]? = some pr → pr.pc = .exited) ∧
    (∀ i, i < s.nsub → i ∉ s.queue → i ∉ s.dropped → ∃ x, futOf s i = .finished x) ∧
    (∀ i rest, s.queue = i :: rest → ∃ j, j ∈ deps i ∧ j ∈ s.dropped ∧ ¬ ∃ x, futOf s j = .finished x) := by
  have hl := stuck_idle ncalls deps key eval hI hS
  have hm := stuck_memory ncalls deps key eval hI hS
  have hcls : ∀ i, i < s.nsub → i ∈ s.queue ∨ i ∈ s.dropped ∨ ∃ x, futOf s i = .finished x := by
    intro i hi
    rcases hI.cls i hi with h | h | ⟨k, h⟩ | h | h
    · exact Or.inl h
    · rw [hl] at h; simp [held] at h
    · rw [hm] at h; cases h
    · exact Or.inr (Or.inl h)
    · exact Or.inr (Or.inr h)
  refine ⟨hl, hm, stuck_procs ncalls deps key eval hI hS, ?_, ?_⟩
  · intro i hi hq hd
    rcases hcls i hi with h | h | h
    · exact absurd h hq
    · exact absurd h hd
    · exact h
  · intro i rest hq
    apply Classical.byContradiction
    intro hno
    apply take_enabled ncalls deps key eval hl hq ?_ (hS .take rfl)
    intro j hj
    right
    apply Classical.byContradiction
    intro hnf
    have hji : j < i := hwf i j hj
    have hi : i < s.nsub := hQ.qLt i (by rw [hq]; exact List.mem_cons_self)
    have hsorted := hQ.qSorted
    rw [hq] at hsorted
    have hp := List.pairwise_cons.mp hsorted
    rcases hcls j (by omega) with h | h | h
    · rw [hq, List.mem_cons] at h
      rcases h with h | h
      · omega
      · have := hp.1 j h; omega
    · exact hno ⟨j, hj, h, hnf⟩
    · exact hnf h

/-- invariants of a crash-free session started on ANY directory -/
theorem session_inv (d : Dir K V) {s : State K V} (ls : List Label) (hc : CrashFree ls)
    (h : run ⟨true, true⟩ ncalls deps key eval (init d ncalls) ls = some s) :
    QInv ncalls key s ∧ LiveInv deps key s :=
  liveInv_run ncalls deps key eval ls hc (qinv_init ncalls key d) (liveInv_init ncalls deps key d) h

/-- **B**, when no call has a dropped call among its inputs: the queue is empty and every call that
    was not dropped is finished -/
theorem stuck_progress (hwf : WfDeps deps) {s : State K V} (hQ : QInv ncalls key s) (hI : LiveInv deps key s)
    (hS : StuckAt ncalls deps key eval s) (hdd : ∀ i j, j ∈ deps i → j ∉ s.dropped) :
    s.loop = .idle ∧ s.queue = [] ∧ (∀ i, i < s.nsub → i ∉ s.dropped → ∃ x, futOf s i = .finished x) ∧
    (∀ (p : Nat) (pr : Proc K V), s.procs[p]? = some pr → pr.pc = .exited) := by
  obtain ⟨h1, _, h3, h4, h5⟩ := stuck_general ncalls deps key eval hwf hQ hI hS
  have hq : s.queue = [] := by
    cases hq : s.queue with
    | nil => rfl
    | cons i rest =>
      obtain ⟨j, hj, hd, _⟩ := h5 i rest hq
      exact absurd hd (hdd i j hj)
  refine ⟨h1, hq, ?_, h3⟩
  intro i hi hd
  exact h4 i hi (by rw [hq]; exact List.not_mem_nil) hd

/-! ### a decision procedure for stuckness (for concrete examples) -/

/-- checks the finitely many labels that can be enabled at all -/
def stuckB (s : State K V) : Bool :=
  (step ⟨true, true⟩ ncalls deps key eval s .submit).isNone &&
  (step ⟨true, true⟩ ncalls deps key eval s .take).isNone &&
  (step ⟨true, true⟩ ncalls deps key eval s .lookup).isNone &&
  (step ⟨true, true⟩ ncalls deps key eval s .writeInput).isNone &&
  (step ⟨true, true⟩ ncalls deps key eval s .launch).isNone &&
  (List.range s.memory.length).all (fun n => (step ⟨true, true⟩ ncalls deps key eval s (.collect n)).isNone) &&
  (List.range s.procs.length).all (fun p =>
    (step ⟨true, true⟩ ncalls deps key eval s (.pLoad p)).isNone &&
    (step ⟨true, true⟩ ncalls deps key eval s (.pCall p)).isNone &&
    (step ⟨true, true⟩ ncalls deps key eval s (.pStage p)).isNone &&
    (step ⟨true, true⟩ ncalls deps key eval s (.pWrite p)).isNone &&
    (step ⟨true, true⟩ ncalls deps key eval s (.pPublish p)).isNone)

theorem collect_none_of_ge {s : State K V} {n : Nat} (hn : s.memory.length ≤ n) :
    step ⟨true, true⟩ ncalls deps key eval s (.collect n) = none := by
  cases hs : step ⟨true, true⟩ ncalls deps key eval s (.collect n) with
  | none => rfl
  | some s' =>
    obtain ⟨kk, i, x, _, hm, _⟩ := step_collect _ ncalls deps key eval hs
    rw [List.getElem?_eq_none hn] at hm
    cases hm

theorem proc_none_of_ge {s : State K V} {l : Label} {p : Nat} (hl : procLabel l = some p) (hn : s.procs.length ≤ p) :
    step ⟨true, true⟩ ncalls deps key eval s l = none := by
  cases hs : step ⟨true, true⟩ ncalls deps key eval s l with
  | none => rfl
  | some s' =>
    obtain ⟨pr, _, _, _, hp, _⟩ := step_proc _ ncalls deps key eval hl hs
    rw [List.getElem?_eq_none hn] at hp
    cases hp

theorem stuckAt_of_stuckB {s : State K V} (h : stuckB ncalls deps key eval s = true) :
    StuckAt ncalls deps key eval s := by
  simp only [stuckB, Bool.and_eq_true, List.all_eq_true, List.mem_range, Option.isNone_iff_eq_none] at h
  obtain ⟨⟨⟨⟨⟨⟨h1, h2⟩, h3⟩, h4⟩, h5⟩, h6⟩, h7⟩ := h
  intro l hl
  cases l
  case submit => exact h1
  case take => exact h2
  case lookup => exact h3
  case writeInput => exact h4
  case launch => exact h5
  case collect n =>
    rcases Nat.lt_or_ge n s.memory.length with hn | hn
    · exact h6 n hn
    · exact collect_none_of_ge ncalls deps key eval hn
  case pLoad p =>
    rcases Nat.lt_or_ge p s.procs.length with hn | hn
    · exact (h7 p hn).1.1.1.1
    · exact proc_none_of_ge ncalls deps key eval rfl hn
  case pCall p =>
    rcases Nat.lt_or_ge p s.procs.length with hn | hn
    · exact (h7 p hn).1.1.1.2
    · exact proc_none_of_ge ncalls deps key eval rfl hn
  case pStage p =>
    rcases Nat.lt_or_ge p s.procs.length with hn | hn
    · exact (h7 p hn).1.1.2
    · exact proc_none_of_ge ncalls deps key eval rfl hn
  case pWrite p =>
    rcases Nat.lt_or_ge p s.procs.length with hn | hn
    · exact (h7 p hn).1.2
    · exact proc_none_of_ge ncalls deps key eval rfl hn
  case pPublish p =>
    rcases Nat.lt_or_ge p s.procs.length with hn | hn
    · exact (h7 p hn).2
    · exact proc_none_of_ge ncalls deps key eval rfl hn
  case crashProc p => cases hl
  case crashWrite p => cases hl

end Step
end ExecModel.FileExec
