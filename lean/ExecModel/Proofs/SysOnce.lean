import ExecModel.Proofs.SysCancel
import ExecModel.Proofs.SysCeil
/-!
  At-most-once hand-over for `Sys`: the ghost log `sentLog` (calls handed to a worker process, in
  order) never contains a call twice, in any reachable state of any case.

  `sentLog` grows only at `wSend`, taken by a worker whose pc is `.toSend i vs`.  The invariant
  `OnceInv` says: the log has no duplicates; a call some worker is about to send is not in the log
  yet; every worker's private log `served` is duplicate-free, contained in `sentLog`, and disjoint
  from the private log of every other worker.  A worker enters `.toSend i _` only by moving future
  `i` from `pending` to `running`, which is impossible once `i` is in the log (`CancelInv`: a sent
  call is running, finished or failed); two workers never hold the same call (`Unique`).
-/
set_option linter.unusedSimpArgs false
set_option linter.unusedVariables false
namespace ExecModel.Sys

variable {Val Err : Type}
variable (cfg : Cfg) (eval : Nat → List Val → Except Err Val) (cancelErr : Err)

/-! ### the invariant -/

structure OnceInv (s : State Val Err) : Prop where
  /-- no call is handed over twice -/
  nodup : s.sentLog.Nodup
  /-- a call a worker is about to hand over has not been handed over before -/
  unsent : ∀ (k : Nat) (w : Worker Val Err) (i : Nat) (vs : List Val),
    s.wk[k]? = some w → w.pc = .toSend i vs → i ∉ s.sentLog
  /-- a worker's private log is part of the global log -/
  servedLog : ∀ (k : Nat) (w : Worker Val Err), s.wk[k]? = some w → ∀ i ∈ w.served, i ∈ s.sentLog
  /-- a worker never serves a call twice -/
  servedNodup : ∀ (k : Nat) (w : Worker Val Err), s.wk[k]? = some w → w.served.Nodup
  /-- two workers never serve the same call -/
  disj : ∀ (k1 k2 : Nat) (w1 w2 : Worker Val Err), k1 ≠ k2 → s.wk[k1]? = some w1 →
    s.wk[k2]? = some w2 → ∀ i ∈ w1.served, i ∉ w2.served

/-- A step that does not hand a call over: the log is unchanged; every worker of the new state is
    either freshly created or an old worker with the same private log, and if it is about to send
    call `i` it was so before or future `i` was pending before the step. -/
def OnceFrame (s s' : State Val Err) : Prop :=
  s'.sentLog = s.sentLog ∧
  ∀ (k : Nat) (w' : Worker Val Err), s'.wk[k]? = some w' →
    (w'.served = [] ∧ w'.pc = .boot) ∨
    ∃ w, s.wk[k]? = some w ∧ w'.served = w.served ∧
      ∀ i vs, w'.pc = .toSend i vs → w.pc = .toSend i vs ∨ futOf s i = .pending

/-- The hand-over step. -/
def OnceSend (s s' : State Val Err) : Prop :=
  ∃ (k : Nat) (w : Worker Val Err) (i : Nat) (vs : List Val),
    s.wk[k]? = some w ∧ w.pc = .toSend i vs ∧
    s'.wk = s.wk.set k { w with pc := .sent i vs, served := w.served ++ [i] } ∧
    s'.sentLog = s.sentLog ++ [i]

/-! ### shape of the steps -/

theorem onceFrame_of_eq {s s' : State Val Err} (hwk : s'.wk = s.wk) (hlog : s'.sentLog = s.sentLog) :
    OnceFrame s s' := by
  refine ⟨hlog, ?_⟩
  intro k w' hk
  rw [hwk] at hk
  exact Or.inr ⟨w', hk, rfl, fun i vs hp => Or.inl hp⟩

theorem onceFrame_worker {s s' : State Val Err} {k : Nat} {w : Worker Val Err}
    (hk : s.wk[k]? = some w) (hlog : s'.sentLog = s.sentLog)
    (hw : ∃ w', s'.wk = s.wk.set k w' ∧ w'.served = w.served ∧
      ∀ i vs, w'.pc = .toSend i vs → futOf s i = .pending) : OnceFrame s s' := by
  obtain ⟨w', hwk, hs, hp⟩ := hw
  have hklt : k < s.wk.length := by
    rcases Nat.lt_or_ge k s.wk.length with h | h
    · exact h
    · simp [List.getElem?_eq_none h] at hk
  refine ⟨hlog, ?_⟩
  intro k' w2 hk'
  rw [hwk] at hk'
  by_cases hkk : k' = k
  · subst hkk
    rw [List.getElem?_set_self hklt] at hk'
    have e : w' = w2 := Option.some.inj hk'
    subst e
    exact Or.inr ⟨w, hk, hs, fun i vs h => Or.inr (hp i vs h)⟩
  · rw [List.getElem?_set_ne (Ne.symm hkk)] at hk'
    exact Or.inr ⟨w2, hk', rfl, fun i vs h => Or.inl h⟩

theorem workerStep_once {s s' : State Val Err} {k : Nat} {l : Label Val Err}
    (h : workerStep eval s k l = some s') : OnceFrame s s' ∨ OnceSend s s' := by
  unfold workerStep at h
  split at h
  · cases h
  rename_i w hk
  split_step h
  all_goals (simp only [Option.some.injEq] at h; subst h)
  all_goals (first
    | (right
       refine ⟨k, w, _, _, hk, ?_, rfl, rfl⟩
       assumption)
    | (left
       refine onceFrame_worker hk ?_ ?_
       · simp
       apply Exists.intro
       refine ⟨?_, ?_, ?_⟩
       · simp only [setWk_wk, setQ_wk, taskDone_wk, setFut_wk]; rfl
       · rfl
       · intro i' vs' hpc
         first
         | (simp at hpc; done)
         | (simp at hpc
            obtain ⟨e1, e2⟩ := hpc
            subst e1
            assumption)))

theorem onceFrame_disp {s s' : State Val Err} {l : Label Val Err} (h : dispStep cfg s l = some s') :
    OnceFrame s s' := by
  have hlog := (logs_dispStep cfg h).1
  have hd := (dispStep_eff cfg h).2
  rcases hd with ⟨hwk, -⟩ | ⟨_, _, _, -, -, -, hwk, -⟩ | ⟨i, vs, req, -, -, -, -, hwk, -⟩
  · exact onceFrame_of_eq hwk hlog
  · exact onceFrame_of_eq hwk hlog
  · refine ⟨hlog, ?_⟩
    intro k w' hk
    rw [hwk] at hk
    rcases Nat.lt_or_ge k s.wk.length with hlt | hge
    · rw [List.getElem?_append_left hlt] at hk
      exact Or.inr ⟨w', hk, rfl, fun i vs hp => Or.inl hp⟩
    · rw [List.getElem?_append_right hge] at hk
      cases hkk : k - s.wk.length with
      | zero =>
        simp [hkk] at hk
        subst hk
        exact Or.inl ⟨rfl, rfl⟩
      | succ n => simp [hkk] at hk

/-- Every step either leaves the log alone or is the hand-over of a worker in `.toSend`. -/
theorem step_once {s s' : State Val Err} {l : Label Val Err}
    (h : step cfg eval cancelErr s l = some s') : OnceFrame s s' ∨ OnceSend s s' := by
  unfold step at h
  split at h
  all_goals first
    | exact Or.inl (onceFrame_of_eq (mainStep_eff cfg h).1 (logs_mainStep cfg h).1)
    | exact Or.inl (onceFrame_of_eq (resStep_eff cfg cancelErr h).1 (logs_resStep cfg cancelErr h).1)
    | exact Or.inl (onceFrame_disp cfg h)
    | exact workerStep_once eval h

/-! ### preservation -/

theorem nodup_concat_of_not_mem {l : List Nat} {a : Nat} (h : l.Nodup) (ha : a ∉ l) :
    (l ++ [a]).Nodup := by
  rw [List.nodup_append]
  refine ⟨h, by simp, ?_⟩
  intro x hx y hy hxy
  rw [List.mem_singleton] at hy
  subst hy
  subst hxy
  exact ha hx

theorem onceInv_frame {s s' : State Val Err} (hI : CancelInv s) (hO : OnceInv s)
    (hF : OnceFrame s s') : OnceInv s' := by
  obtain ⟨hlog, hwk⟩ := hF
  refine ⟨?_, ?_, ?_, ?_, ?_⟩
  · rw [hlog]; exact hO.nodup
  · intro k w' i vs hk hpc
    rw [hlog]
    rcases hwk k w' hk with ⟨-, hb⟩ | ⟨w, hw, -, hp⟩
    · rw [hb] at hpc; cases hpc
    · rcases hp i vs hpc with h | h
      · exact hO.unsent k w i vs hw h
      · intro hm
        have h2 := hI.2 i hm
        rw [h] at h2
        simp at h2
  · intro k w' hk i hi
    rw [hlog]
    rcases hwk k w' hk with ⟨hb, -⟩ | ⟨w, hw, hs, -⟩
    · rw [hb] at hi; cases hi
    · rw [hs] at hi; exact hO.servedLog k w hw i hi
  · intro k w' hk
    rcases hwk k w' hk with ⟨hb, -⟩ | ⟨w, hw, hs, -⟩
    · rw [hb]; exact List.nodup_nil
    · rw [hs]; exact hO.servedNodup k w hw
  · intro k1 k2 w1 w2 hne h1 h2 i hi1 hi2
    rcases hwk k1 w1 h1 with ⟨hb, -⟩ | ⟨v1, hv1, hs1, -⟩
    · rw [hb] at hi1; cases hi1
    · rcases hwk k2 w2 h2 with ⟨hb, -⟩ | ⟨v2, hv2, hs2, -⟩
      · rw [hb] at hi2; cases hi2
      · rw [hs1] at hi1; rw [hs2] at hi2
        exact hO.disj k1 k2 v1 v2 hne hv1 hv2 i hi1 hi2

theorem onceInv_send {s s' : State Val Err} (hU : Unique s) (hO : OnceInv s)
    (hS : OnceSend s s') : OnceInv s' := by
  obtain ⟨k, w, i, vs, hk, hpc, hwk, hlog⟩ := hS
  have hklt : k < s.wk.length := by
    rcases Nat.lt_or_ge k s.wk.length with h | h
    · exact h
    · simp [List.getElem?_eq_none h] at hk
  have hni : i ∉ s.sentLog := hO.unsent k w i vs hk hpc
  have hself : ∀ w', s'.wk[k]? = some w' →
      w' = { w with pc := .sent i vs, served := w.served ++ [i] } := by
    intro w' h
    rw [hwk, List.getElem?_set_self hklt] at h
    exact (Option.some.inj h).symm
  have hother : ∀ k' w', k' ≠ k → s'.wk[k']? = some w' → s.wk[k']? = some w' := by
    intro k' w' hne h
    rw [hwk, List.getElem?_set_ne (Ne.symm hne)] at h
    exact h
  have hsub : ∀ (k' : Nat) (w' : Worker Val Err), s.wk[k']? = some w' → i ∉ w'.served :=
    fun k' w' h hm => hni (hO.servedLog k' w' h i hm)
  refine ⟨?_, ?_, ?_, ?_, ?_⟩
  · rw [hlog]
    exact nodup_concat_of_not_mem hO.nodup hni
  · intro k' w' j vs' hk' hpc'
    rw [hlog]
    by_cases hkk : k' = k
    · subst hkk
      have e := hself w' hk'
      subst e
      cases hpc'
    · have h0 := hother k' w' hkk hk'
      have hj := hO.unsent k' w' j vs' h0 hpc'
      have hji : j ≠ i := by
        intro e
        subst e
        have h1 : wkCnt j w = 1 := by simp [wkCnt, wpcCnt, hpc]
        have h2 : wkCnt j w' = 1 := by simp [wkCnt, wpcCnt, hpc']
        have h3 := cnt_ge_two_of_wk_wk (Ne.symm hkk) hk h0 h1 h2
        have h4 := (hU j).1
        omega
      intro hm
      rcases List.mem_append.1 hm with hm | hm
      · exact hj hm
      · exact hji (List.mem_singleton.1 hm)
  · intro k' w' hk' j hj
    rw [hlog]
    by_cases hkk : k' = k
    · subst hkk
      have e := hself w' hk'
      subst e
      rcases List.mem_append.1 hj with hm | hm
      · exact List.mem_append_left _ (hO.servedLog _ w hk j hm)
      · exact List.mem_append_right _ hm
    · exact List.mem_append_left _ (hO.servedLog k' w' (hother k' w' hkk hk') j hj)
  · intro k' w' hk'
    by_cases hkk : k' = k
    · subst hkk
      have e := hself w' hk'
      subst e
      exact nodup_concat_of_not_mem (hO.servedNodup _ w hk) (hsub _ w hk)
    · exact hO.servedNodup k' w' (hother k' w' hkk hk')
  · intro k1 k2 w1 w2 hne h1 h2 j hj1 hj2
    by_cases e1 : k1 = k
    · subst e1
      have e := hself w1 h1
      subst e
      have h2' := hother k2 w2 (Ne.symm hne) h2
      rcases List.mem_append.1 hj1 with hm | hm
      · exact hO.disj _ k2 w w2 hne hk h2' j hm hj2
      · rw [List.mem_singleton] at hm
        subst hm
        exact hsub k2 w2 h2' hj2
    · have h1' := hother k1 w1 e1 h1
      by_cases e2 : k2 = k
      · subst e2
        have e := hself w2 h2
        subst e
        rcases List.mem_append.1 hj2 with hm | hm
        · exact hO.disj k1 _ w1 w hne h1' hk j hj1 hm
        · rw [List.mem_singleton] at hm
          subst hm
          exact hsub k1 w1 h1' hj1
      · exact hO.disj k1 k2 w1 w2 hne h1' (hother k2 w2 e2 h2) j hj1 hj2

theorem onceInv_step {s s' : State Val Err} {l : Label Val Err} (hC : Core s) (hI : CancelInv s)
    (hO : OnceInv s) (h : step cfg eval cancelErr s l = some s') : OnceInv s' := by
  rcases step_once cfg eval cancelErr h with hF | hS
  · exact onceInv_frame hI hO hF
  · exact onceInv_send hC.uniq hO hS

theorem init_wk_boot {script : List Cmd} {k : Nat} {w : Worker Val Err}
    (hk : (init cfg script : State Val Err).wk[k]? = some w) : w.served = [] ∧ w.pc = .boot := by
  simp only [init] at hk
  split at hk
  · simp [List.getElem?_replicate] at hk
    obtain ⟨_, rfl⟩ := hk
    exact ⟨rfl, rfl⟩
  · simp at hk

theorem onceInv_init (script : List Cmd) : OnceInv (init cfg script : State Val Err) := by
  refine ⟨?_, ?_, ?_, ?_, ?_⟩
  · simp [init]
  · intro k w i vs hk hpc
    rw [(init_wk_boot cfg hk).2] at hpc
    cases hpc
  · intro k w hk i hi
    rw [(init_wk_boot cfg hk).1] at hi
    cases hi
  · intro k w hk
    rw [(init_wk_boot cfg hk).1]
    exact List.nodup_nil
  · intro k1 k2 w1 w2 _ h1 _ i hi
    rw [(init_wk_boot cfg h1).1] at hi
    cases hi

theorem onceInv_run {s0 s : State Val Err} (ls : List (Label Val Err)) (hC : Core s0)
    (hI : CancelInv s0) (hO : OnceInv s0) (h : run cfg eval cancelErr s0 ls = some s) :
    OnceInv s := by
  induction ls generalizing s0 with
  | nil => simp [run] at h; subst h; exact hO
  | cons l ls ih =>
    simp only [run, Option.bind_eq_some_iff] at h
    obtain ⟨s1, h1, h2⟩ := h
    exact ih (core_step cfg eval cancelErr hC h1) (cancelInv_step cfg eval cancelErr hC hI h1)
      (onceInv_step cfg eval cancelErr hC hI hO h1) h2

theorem onceInv_reachable {script : List Cmd} {s : State Val Err}
    (h : Reachable cfg eval cancelErr script s) : OnceInv s := by
  obtain ⟨ls, hls⟩ := h
  exact onceInv_run cfg eval cancelErr ls (core_init cfg script) (cancelInv_init cfg script)
    (onceInv_init cfg script) hls

/-! ### the properties -/

/-- Every call is handed to a worker process at most once. -/
theorem sent_at_most_once {script : List Cmd} {s : State Val Err}
    (h : Reachable cfg eval cancelErr script s) : s.sentLog.Nodup :=
  (onceInv_reachable cfg eval cancelErr h).nodup

/-- A call a worker is about to hand over was never handed over before. -/
theorem toSend_not_sent {script : List Cmd} {s : State Val Err}
    (h : Reachable cfg eval cancelErr script s) {k : Nat} {w : Worker Val Err} {i : Nat}
    {vs : List Val} (hk : s.wk[k]? = some w) (hpc : w.pc = .toSend i vs) : i ∉ s.sentLog :=
  (onceInv_reachable cfg eval cancelErr h).unsent k w i vs hk hpc

/-- A worker's private log is duplicate-free and part of the global hand-over log. -/
theorem served_nodup_sub {script : List Cmd} {s : State Val Err}
    (h : Reachable cfg eval cancelErr script s) {k : Nat} {w : Worker Val Err}
    (hk : s.wk[k]? = some w) : w.served.Nodup ∧ ∀ i ∈ w.served, i ∈ s.sentLog :=
  ⟨(onceInv_reachable cfg eval cancelErr h).servedNodup k w hk,
   (onceInv_reachable cfg eval cancelErr h).servedLog k w hk⟩

/-- Two different workers never serve the same call. -/
theorem served_disjoint {script : List Cmd} {s : State Val Err}
    (h : Reachable cfg eval cancelErr script s) {k1 k2 : Nat} {w1 w2 : Worker Val Err}
    (hne : k1 ≠ k2) (h1 : s.wk[k1]? = some w1) (h2 : s.wk[k2]? = some w2) :
    ∀ i ∈ w1.served, i ∉ w2.served :=
  (onceInv_reachable cfg eval cancelErr h).disj k1 k2 w1 w2 hne h1 h2

end ExecModel.Sys
