import ExecModel.Proofs.SysDefs
/-!
  Definitions for the progress theorems about `Sys` (C02, C05, C12): executable (Bool-valued)
  protocol invariants — queue counter, stop accounting, order, token/future agreement, coverage —
  so that they can be evaluated on every state of a replayed real trace before (and besides) being
  proved.  No theorem about a property lives here.
-/
namespace ExecModel.Sys

variable {Val Err : Type}

/-! ### hypotheses of the progress theorems -/

/-- No submitted function raises (the hypothesis of property C02). -/
def NoFail (eval : Nat → List Val → Except Err Val) : Prop := ∀ i vs, ∃ v, eval i vs = .ok v

/-- Every request fits the executor's limit on an empty table (otherwise `_wait_for_free_slots`
    spins forever: finding D10), and a block allocation has at least one worker (finding D11). -/
def WfRes (cfg : Cfg) : Prop :=
  (∀ c ∈ cfg.calls, fits cfg [] (slotsOf cfg c) = true) ∧ (∀ n, cfg.block = some n → 0 < n)

/-- Nothing is enabled: the end of a maximal run. -/
def Stuck (cfg : Cfg) (eval : Nat → List Val → Except Err Val) (cancelErr : Err) (s : State Val Err) : Prop :=
  ∀ l, step cfg eval cancelErr s l = none

/-! ### classification of program counters -/

def isStop : Item Val → Bool
  | .stop _ => true
  | _ => false

def nStops (q : Queue Val) : Nat := (q.items.filter isStop).length

def taskIds (q : Queue Val) : List Nat :=
  q.items.filterMap (fun it => match it with
    | .task i _ => some i
    | .stop _ => none)

/-- no task behind a stop message -/
def tasksFirst : List (Item Val) → Bool
  | [] => true
  | .task _ _ :: r => tasksFirst r
  | .stop _ :: r => r.all isStop

/-- the worker has taken an item of its queue and not yet called `task_done()` for it -/
def wHolds : WPc Val Err → Bool
  | .gotTask _ _ | .toSend _ _ | .sent _ _ | .toAck | .failB _ _ | .gotStop _ | .stopAck => true
  | _ => false

def wTookStop : WPc Val Err → Bool
  | .gotStop _ | .stopAck | .stopJoin | .exited => true
  | _ => false

def wDead : WPc Val Err → Bool
  | .failB _ _ | .failC _ _ | .dead _ => true
  | _ => false

def rHolds : Option (RPc Val Err) → Bool
  | some (.gotTask _) | some (.ready _) | some .needAck | some (.failing _ _ .needAck)
  | some (.failing _ _ (.stopping _)) | some (.stopping _) | some (.inSd _) | some .stopAck => true
  | _ => false

def rTookStop : Option (RPc Val Err) → Bool
  | some (.stopping _) | some (.failing _ _ (.stopping _)) | some (.inSd _) | some .stopAck
  | some .stopJoin | some .exited => true
  | _ => false

def dHolds : Option (DPc Val Err) → Bool
  | some (.waitSlots _ _ _) | some .needAck | some (.stopping _) | some .stopAck => true
  | _ => false

def dTookStop : Option (DPc Val Err) → Bool
  | some (.stopping _) | some .stopAck | some .stopJoin | some .exited => true
  | _ => false

def sdHolds (sd : Sd) : Bool :=
  match sd.pc with
  | .drainGot _ | .drainCancelled => true
  | _ => false

def mainSd (s : State Val Err) : Option Sd :=
  match s.mainPc with
  | .inSd sd => some sd
  | .idle => none

def resSd (s : State Val Err) : Option Sd :=
  match s.res with
  | some (.inSd sd) => some sd
  | _ => none

/-- threads that have taken an item of queue `q` and not yet acknowledged it -/
def holders (s : State Val Err) (q : QId) : Nat :=
  (s.wk.filter (fun w => w.q == q && wHolds w.pc)).length
  + (if q == .outer && rHolds s.res then 1 else 0)
  + (if q == .inner && dHolds s.disp then 1 else 0)
  + (match mainSd s with
     | some sd => if sd.target == q && sdHolds sd then 1 else 0
     | none => 0)

/-- `unfinished_tasks` of a queue = items still in it + items taken and not yet acknowledged -/
def counterOk (s : State Val Err) (q : QId) : Bool :=
  (getQ s q).unfin == (getQ s q).items.length + holders s q

/-- consumer threads of a queue -/
def nConsumers (cfg : Cfg) : QId → Nat
  | .outer => 1
  | .inner => match cfg.block with
    | some n => n
    | none => 1
  | .priv _ => 1

def tookStops (s : State Val Err) (q : QId) : Nat :=
  (s.wk.filter (fun w => w.q == q && wTookStop w.pc)).length
  + (if q == .outer && rTookStop s.res then 1 else 0)
  + (if q == .inner && dTookStop s.disp then 1 else 0)

inductive Phase
  | opened | putting (r : Nat) | closed
  deriving Repr, DecidableEq

def sdPhase (sd : Sd) : Phase :=
  match sd.pc with
  | .drain | .drainGot _ | .drainCancelled => .opened
  | .putStops r => .putting r
  | _ => .closed

/-- where the executor owning queue `q` (outer or inner) is in its life: accepting work, putting
    its stop messages, or closed -/
def phaseOf (cfg : Cfg) (s : State Val Err) (q : QId) : Phase :=
  if q == frontQ cfg then
    match s.mainPc with
    | .inSd sd => sdPhase sd
    | .idle => if s.frontOpen then .opened else .closed
  else
    match s.res with
    | some (.inSd sd) => sdPhase sd
    | _ => if s.innerOpen then .opened else .closed

/-- stop accounting for the outer / inner queue -/
def stopsOk (cfg : Cfg) (s : State Val Err) (q : QId) : Bool :=
  match phaseOf cfg s q with
  | .opened => nStops (getQ s q) + tookStops s q == 0
  | .putting r => nStops (getQ s q) + tookStops s q + r == nConsumers cfg q
  | .closed => nStops (getQ s q) + tookStops s q == nConsumers cfg q

/-- order: tasks precede stops, and once a consumer has taken a stop no task is left -/
def orderOk (s : State Val Err) (q : QId) : Bool :=
  tasksFirst (getQ s q).items && (tookStops s q == 0 || (taskIds (getQ s q)).isEmpty)

def futPre (s : State Val Err) (i : Nat) : Bool :=
  match futOf s i with
  | .pending | .cancelled => true
  | _ => false

/-- every place holding a call that has not been offered to a worker yet sees its future pending
    or cancelled -/
def tokenStateOk (s : State Val Err) : Bool :=
  (taskIds s.qo).all (futPre s) && (taskIds s.qi).all (futPre s) && s.qp.all (fun q => (taskIds q).all (futPre s))
  && s.waitLst.all (futPre s)
  && (match s.res with
      | some (.gotTask i) | some (.ready i) => futPre s i
      | _ => true)
  && (match s.disp with
      | some (.waitSlots i _ _) => futPre s i
      | _ => true)
  && s.wk.all (fun w => match w.pc with
      | .gotTask i _ => futPre s i
      | _ => true)
  && (match mainSd s with
      | some sd => (match sd.pc with
        | .drainGot i => futPre s i
        | _ => true)
      | none => true)

/-- a future that is neither done nor absent is held by some place -/
def coverageOk (s : State Val Err) : Bool :=
  (List.range s.nsub).all (fun i => match futOf s i with
    | .pending | .running => decide (1 ≤ cnt s i)
    | _ => true)

def noDead (s : State Val Err) : Bool :=
  s.wk.all (fun w => !wDead w.pc)
  && (match s.res with
      | some (.dead _) => false
      | _ => true)
  && (match s.disp with
      | some (.dead _) => false
      | _ => true)

def lenOk (cfg : Cfg) (s : State Val Err) : Bool :=
  s.fut.length == cfg.calls.length && s.qp.length == cfg.calls.length && s.wkOf.length == cfg.calls.length
  && decide (s.nsub ≤ cfg.calls.length)

def readyOk (cfg : Cfg) (s : State Val Err) : Bool :=
  match s.res with
  | some (.ready i) => allDone s (depsOf cfg i)
  | _ => true

/-- shape of the thread tables: block allocation = `n` workers on the inner queue, no dispatcher;
    per-call = a dispatcher, every worker on its own private queue registered in `wkOf` -/
def shapeOk (cfg : Cfg) (s : State Val Err) : Bool :=
  (s.res.isSome == cfg.resolver)
  && (match cfg.block with
      | some n => s.disp.isNone && s.wk.length == n && s.wk.all (fun w => w.q == .inner)
      | none => s.disp.isSome
          && (List.range s.wk.length).all (fun k => match s.wk[k]? with
              | some w => (match w.q with
                | .priv i => s.wkOf.getD i none == some k
                | _ => false)
              | none => false))

/-- per-call private queues: never launched = untouched; launched = exactly one stop message in
    the queue or taken by its worker, tasks first, counter exact -/
def privOk (s : State Val Err) : Bool :=
  (List.range s.qp.length).all (fun i =>
    match s.wkOf.getD i none with
    | none => (getQ s (.priv i)).items.isEmpty && (getQ s (.priv i)).unfin == 0
    | some k => (match s.wk[k]? with
        | some w => w.q == .priv i
        | none => false)
      && nStops (getQ s (.priv i)) + tookStops s (.priv i) == 1
      && orderOk s (.priv i) && counterOk s (.priv i)
      && (taskIds (getQ s (.priv i))).all (fun j => j == i))

/-- threads a shutdown / the dispatcher is about to join exist -/
def joinOk (cfg : Cfg) (s : State Val Err) : Bool :=
  (match s.disp with
   | some (.stopping ts) => ts.all (fun t => match t with
      | .worker k => decide (k < s.wk.length)
      | _ => false)
   | _ => true)
  && (match mainSd s with
      | some sd => sd.target == frontQ cfg
      | none => true)
  && (match resSd s with
      | some sd => sd.target == .inner && !sdHolds sd
      | none => true)

/-- handles: the inner executor is closed only after the resolver finished shutting it down -/
def handleOk (cfg : Cfg) (s : State Val Err) : Bool :=
  s.innerOpen || (match s.res with
      | some .stopAck | some .stopJoin | some .exited => true
      | _ => false)

/-- the conjunction evaluated on replayed traces and proved inductive (for runs without failing calls) -/
def liveInvList (cfg : Cfg) (s : State Val Err) : List (String × Bool) :=
  [("len", lenOk cfg s), ("noDead", noDead s), ("shape", shapeOk cfg s),
   ("counter.outer", counterOk s .outer), ("counter.inner", counterOk s .inner),
   ("stops.outer", !cfg.resolver || stopsOk cfg s .outer), ("stops.inner", stopsOk cfg s .inner),
   ("order.outer", orderOk s .outer), ("order.inner", orderOk s .inner),
   ("priv", privOk s), ("tokenState", tokenStateOk s), ("coverage", coverageOk s),
   ("ready", readyOk cfg s), ("join", joinOk cfg s), ("handle", handleOk cfg s)]

def liveInv (cfg : Cfg) (s : State Val Err) : Bool := (liveInvList cfg s).all (·.2)

/-- what the end of a maximal run must look like -/
def allAcceptedDone (s : State Val Err) : Bool :=
  (List.range s.nsub).all (fun i => match futOf s i with
    | .absent => true
    | f => f.done)

/-- the user thread has executed its whole script (every `shutdown` call returned); a trailing
    `cancel`/`await` aimed at a submission that was rejected is the one thing it may be stopped at -/
def mainFinished (s : State Val Err) : Bool :=
  (match s.mainPc with
   | .idle => true
   | _ => false)
  && (match s.script with
      | [] => true
      | .cancel j :: _ | .await j :: _ => (match futOf s j with
        | .absent => true
        | _ => false)
      | _ => false)

def noProcessAlive (s : State Val Err) : Bool := s.wk.all (fun w => !w.procAlive)

end ExecModel.Sys
