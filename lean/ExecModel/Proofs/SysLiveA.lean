import ExecModel.Proofs.SysLiveBasic
import ExecModel.Proofs.SysCancel
/-!
  Preservation of the structural clauses of `liveInv`: `lenOk`, `noDead`, `shapeOk`, `readyOk`,
  `joinOk`, `handleOk` (runs without failing calls).  `shapeOk` is not inductive relative to the
  other clauses at `dLaunch` ("a call is launched at most once"); the extra invariant is `launchOk`.
-/
set_option linter.unusedSimpArgs false
set_option linter.unusedVariables false
namespace ExecModel.Sys

variable {Val Err : Type}
variable (cfg : Cfg) (eval : Nat → List Val → Except Err Val) (cancelErr : Err)

/-! ### the extra invariant -/

/-- the future has been taken over by a worker / the resolver (neither absent nor pending nor
    freshly cancelled); stable under every move of a future -/
def futPost : Fut Val Err → Bool
  | .running | .cancelledNotified | .finished _ | .failed _ => true
  | _ => false

/-- Per-call mode, "a call is launched at most once": for a worker launched for call `i` (on the
    private queue `i`) either the call is still in that queue, or the worker holds it, or its
    future has already been taken over (running / notified / done). -/
def launchOk (s : State Val Err) : Bool :=
  s.wk.all (fun w => match w.q with
    | .priv i => futPost (futOf s i) || decide (1 ≤ qCnt i (s.qp.getD i {})) || decide (wkCnt i w = 1)
    | _ => true)

def LaunchP (s : State Val Err) : Prop :=
  ∀ (k : Nat) (w : Worker Val Err) (i : Nat), s.wk[k]? = some w → w.q = .priv i →
    futPost (futOf s i) = true ∨ 1 ≤ qCnt i (s.qp.getD i {}) ∨ wkCnt i w = 1

theorem la_launch_iff (s : State Val Err) : launchOk s = true ↔ LaunchP s := by
  unfold launchOk LaunchP
  rw [List.all_eq_true]
  constructor
  · intro h k w i hk hq
    have hm : w ∈ s.wk := List.mem_of_getElem? hk
    have := h w hm
    rw [hq] at this
    simpa [Bool.or_eq_true, or_assoc] using this
  · intro h w hm
    obtain ⟨k, hk⟩ := List.getElem?_of_mem hm
    split
    · rename_i i hq
      have := h k w i hk hq
      simpa [Bool.or_eq_true, or_assoc] using this
    · rfl

theorem la_futPost_step {f g : Fut Val Err} (h : FutStep f g) (hf : futPost f = true) :
    futPost g = true := by
  cases h <;> simp_all [futPost]

theorem la_futPost_not_pre {s : State Val Err} {i : Nat} (h : futPost (futOf s i) = true)
    (hp : futPre s i = true) : False := by
  unfold futPre at hp
  split at hp <;> simp_all [futPost]

/-! ### projection lemmas not in `SysProj` -/

@[simp] theorem la_setQ_qp_length (s : State Val Err) (q : QId) (v : Queue Val) :
    (setQ s q v).qp.length = s.qp.length := by cases q <;> simp [setQ]
@[simp] theorem la_taskDone_qp_length (s : State Val Err) (q : QId) :
    (taskDone s q).qp.length = s.qp.length := by simp [taskDone]

theorem la_setQ_qp_np (s : State Val Err) {q : QId} (v : Queue Val) (hq : ∀ j, q ≠ .priv j) :
    (setQ s q v).qp = s.qp := by
  cases q with
  | outer => rfl
  | inner => rfl
  | priv j => exact absurd rfl (hq j)

theorem la_taskDone_qp_np (s : State Val Err) {q : QId} (hq : ∀ j, q ≠ .priv j) :
    (taskDone s q).qp = s.qp := by
  simp [taskDone, la_setQ_qp_np _ _ hq]

theorem la_frontQ_np (j : Nat) : frontQ cfg ≠ .priv j := by
  unfold frontQ; split <;> simp

theorem la_getD_set (l : List (Queue Val)) (j j' : Nat) (v : Queue Val) :
    (l.set j v).getD j' {} = if j = j' ∧ j < l.length then v else l.getD j' {} := by
  simp only [List.getD_eq_getElem?_getD, List.getElem?_set]
  by_cases h : j = j'
  · subst h
    by_cases h2 : j < l.length <;> simp [h2]
  · simp [h]

theorem la_getD_big (l : List (Queue Val)) (j : Nat) (h : l.length ≤ j) : l.getD j {} = {} := by
  simp [List.getD_eq_getElem?_getD, List.getElem?_eq_none h]

/-! ### generic lemmas, one group per clause -/

theorem la_len_of {s s' : State Val Err} (h : lenOk cfg s = true)
    (h1 : s'.fut.length = s.fut.length) (h2 : s'.qp.length = s.qp.length)
    (h3 : s'.wkOf.length = s.wkOf.length) (h4 : s'.nsub ≤ cfg.calls.length) :
    lenOk cfg s' = true := by
  simp only [lenOk, Bool.and_eq_true, beq_iff_eq, decide_eq_true_eq] at h ⊢
  omega

theorem la_len_elim {s : State Val Err} (h : lenOk cfg s = true) :
    s.fut.length = cfg.calls.length ∧ s.qp.length = cfg.calls.length ∧
    s.wkOf.length = cfg.calls.length ∧ s.nsub ≤ cfg.calls.length := by
  simpa only [lenOk, Bool.and_eq_true, beq_iff_eq, decide_eq_true_eq, and_assoc] using h

theorem la_noDead_iff (s : State Val Err) : noDead s = true ↔
    (s.wk.all (fun w => !wDead w.pc) = true ∧ (∀ e, s.res ≠ some (.dead e)) ∧
      (∀ e, s.disp ≠ some (.dead e))) := by
  unfold noDead
  simp only [Bool.and_eq_true, and_assoc]
  refine and_congr Iff.rfl (and_congr ?_ ?_)
  · split <;> simp_all
  · split <;> simp_all

theorem la_all_set {α : Type} (p : α → Bool) (l : List α) (k : Nat) (a : α)
    (h : l.all p = true) (ha : p a = true) : (l.set k a).all p = true := by
  rw [List.all_eq_true] at h ⊢
  intro x hx
  rcases List.mem_or_eq_of_mem_set hx with hx | hx
  · exact h x hx
  · subst hx; exact ha

theorem la_threadEnded_noDead {s : State Val Err} (hD : noDead s = true) (t : TId) (e : Err) :
    threadEnded s t ≠ some (some e) := by
  obtain ⟨h1, h2, h3⟩ := (la_noDead_iff s).1 hD
  intro h
  cases t with
  | resolver =>
    simp only [threadEnded] at h
    split at h <;> simp_all
  | disp =>
    simp only [threadEnded] at h
    split at h <;> simp_all
  | worker k =>
    simp only [threadEnded] at h
    split at h
    · rename_i w hk
      have hm : w ∈ s.wk := List.mem_of_getElem? hk
      have := (List.all_eq_true.1 h1) w hm
      split at h <;> simp_all [wDead]
    · cases h

/-- `shapeOk` as a proposition. -/
def ShapeP (cfg : Cfg) (s : State Val Err) : Prop :=
  s.res.isSome = cfg.resolver ∧
  (∀ n, cfg.block = some n → s.disp.isSome = false ∧ s.wk.length = n ∧
    ∀ (k : Nat) (w : Worker Val Err), s.wk[k]? = some w → w.q = .inner) ∧
  (cfg.block = none → s.disp.isSome = true ∧
    ∀ (k : Nat) (w : Worker Val Err), s.wk[k]? = some w → ∃ i, w.q = .priv i ∧ s.wkOf.getD i none = some k)

theorem la_shape_iff (s : State Val Err) : shapeOk cfg s = true ↔ ShapeP cfg s := by
  unfold shapeOk ShapeP
  simp only [Bool.and_eq_true, beq_iff_eq]
  refine and_congr Iff.rfl ?_
  cases hb : cfg.block with
  | some n =>
    simp only [Bool.and_eq_true, beq_iff_eq, Option.some.injEq, forall_eq', reduceCtorEq,
      false_implies, and_true, List.all_eq_true]
    constructor
    · rintro ⟨⟨h1, h2⟩, h3⟩
      refine ⟨by cases hd : s.disp <;> simp_all, h2, ?_⟩
      intro k w hk
      exact h3 w (List.mem_of_getElem? hk)
    · rintro ⟨h1, h2, h3⟩
      refine ⟨⟨by cases hd : s.disp <;> simp_all, h2⟩, ?_⟩
      intro w hm
      obtain ⟨k, hk⟩ := List.getElem?_of_mem hm
      exact h3 k w hk
  | none =>
    simp only [Bool.and_eq_true, reduceCtorEq, false_implies, implies_true, true_and, forall_const,
      List.all_eq_true, List.mem_range]
    refine and_congr Iff.rfl ?_
    constructor
    · intro h k w hk
      have hlt : k < s.wk.length := by
        rcases Nat.lt_or_ge k s.wk.length with h' | h'
        · exact h'
        · simp [List.getElem?_eq_none h'] at hk
      have := h k hlt
      rw [hk] at this
      dsimp only at this
      split at this
      · rename_i i hq; exact ⟨i, hq, by simpa using this⟩
      · cases this
    · intro h k hlt
      have hk : s.wk[k]? = some s.wk[k] := List.getElem?_eq_getElem hlt
      obtain ⟨i, hq, hw⟩ := h k _ hk
      rw [hk]
      dsimp only
      rw [hq]
      simpa using hw

theorem la_shape_inj {s : State Val Err} (hS : ShapeP cfg s) {k k' j : Nat} {w w' : Worker Val Err}
    (hk : s.wk[k]? = some w) (hk' : s.wk[k']? = some w') (hq : w.q = .priv j) (hq' : w'.q = .priv j) :
    k = k' := by
  obtain ⟨-, h1, h2⟩ := hS
  cases hb : cfg.block with
  | some n =>
    have := (h1 n hb).2.2 k w hk
    rw [hq] at this; cases this
  | none =>
    obtain ⟨i, hi, hw⟩ := (h2 hb).2 k w hk
    obtain ⟨i', hi', hw'⟩ := (h2 hb).2 k' w' hk'
    rw [hq] at hi; rw [hq'] at hi'
    cases hi; cases hi'
    rw [hw] at hw'
    exact Option.some.inj hw'

/-- frame: the thread tables keep their queues, `wkOf` is untouched -/
theorem la_shape_frame {s s' : State Val Err} (hS : ShapeP cfg s)
    (hr : s'.res.isSome = s.res.isSome) (hd : s'.disp.isSome = s.disp.isSome)
    (ho : s'.wkOf = s.wkOf) (hl : s'.wk.length = s.wk.length)
    (hw : ∀ (k : Nat) (w' : Worker Val Err), s'.wk[k]? = some w' → ∃ w, s.wk[k]? = some w ∧ w'.q = w.q) :
    ShapeP cfg s' := by
  obtain ⟨h0, h1, h2⟩ := hS
  refine ⟨by rw [hr]; exact h0, ?_, ?_⟩
  · intro n hb
    obtain ⟨a, b, c⟩ := h1 n hb
    refine ⟨by rw [hd]; exact a, by rw [hl]; exact b, ?_⟩
    intro k w' hk
    obtain ⟨w, hk0, hq⟩ := hw k w' hk
    rw [hq]; exact c k w hk0
  · intro hb
    obtain ⟨a, c⟩ := h2 hb
    refine ⟨by rw [hd]; exact a, ?_⟩
    intro k w' hk
    obtain ⟨w, hk0, hq⟩ := hw k w' hk
    rw [hq, ho]; exact c k w hk0

theorem la_wk_set_q {l : List (Worker Val Err)} {k : Nat} {w w' : Worker Val Err}
    (hk : l[k]? = some w) (hq : w'.q = w.q) (k' : Nat) (w2 : Worker Val Err)
    (h : (l.set k w')[k']? = some w2) : ∃ w0, l[k']? = some w0 ∧ w2.q = w0.q := by
  by_cases hkk : k = k'
  · subst hkk
    have hlt : k < l.length := by
      rcases Nat.lt_or_ge k l.length with h' | h'
      · exact h'
      · simp [List.getElem?_eq_none h'] at hk
    simp only [List.getElem?_set_self hlt, Option.some.injEq] at h
    subst h
    exact ⟨w, hk, hq⟩
  · rw [List.getElem?_set_ne hkk] at h
    exact ⟨w2, h, rfl⟩

/-! readyOk -/

theorem la_allDone_stable {s s' : State Val Err} (hfs : ∀ j, FutStep (futOf s j) (futOf s' j))
    (js : List Nat) (h : allDone s js = true) : allDone s' js = true := by
  unfold allDone at h ⊢
  rw [List.all_eq_true] at h ⊢
  intro j hj
  have h1 := h j hj
  have h2 := hfs j
  revert h1 h2
  generalize futOf s j = f
  generalize futOf s' j = g
  intro h1 h2
  cases h2 <;> simp_all [Fut.done]

theorem la_ready_of {s s' : State Val Err} (hfs : ∀ j, FutStep (futOf s j) (futOf s' j))
    (hR : readyOk cfg s = true)
    (hr : ∀ i, s'.res = some (.ready i) → s.res = some (.ready i) ∨ allDone s (depsOf cfg i) = true) :
    readyOk cfg s' = true := by
  unfold readyOk
  split
  · rename_i i hi
    rcases hr i hi with h | h
    · unfold readyOk at hR
      rw [h] at hR
      exact la_allDone_stable hfs _ hR
    · exact la_allDone_stable hfs _ h
  · rfl

/-! joinOk -/

def JoinP (cfg : Cfg) (s : State Val Err) : Prop :=
  (∀ ts, s.disp = some (.stopping ts) → ∀ t ∈ ts, ∃ k, t = TId.worker k ∧ k < s.wk.length) ∧
  (∀ sd, s.mainPc = .inSd sd → sd.target = frontQ cfg) ∧
  (∀ sd, s.res = some (.inSd sd) → sd.target = .inner ∧ sdHolds sd = false)

theorem la_join_iff (s : State Val Err) : joinOk cfg s = true ↔ JoinP cfg s := by
  unfold joinOk JoinP
  simp only [Bool.and_eq_true, and_assoc]
  refine and_congr ?_ (and_congr ?_ ?_)
  · split
    · rename_i ts hd
      simp only [hd, Option.some.injEq, DPc.stopping.injEq, forall_eq', List.all_eq_true]
      constructor
      · intro h t ht
        have := h t ht
        split at this
        · rename_i k; exact ⟨k, rfl, by simpa using this⟩
        · cases this
      · intro h t ht
        obtain ⟨k, rfl, hk⟩ := h t ht
        simpa using hk
    · rename_i hd
      simp only [true_iff]
      intro ts h; exact absurd h (hd ts)
  · cases hm : s.mainPc <;> simp [mainSd, hm]
  · by_cases hr : ∃ sd, s.res = some (.inSd sd)
    · obtain ⟨sd, hr⟩ := hr
      simp [resSd, hr]
    · have hn : resSd s = none := by
        unfold resSd
        split
        · rename_i sd h; exact absurd ⟨sd, h⟩ hr
        · rfl
      simp only [hn, true_iff]
      intro sd h; exact absurd ⟨sd, h⟩ hr

/-! handleOk -/

theorem la_handle_iff (s : State Val Err) : handleOk cfg s = true ↔
    (s.innerOpen = true ∨ s.res = some .stopAck ∨ s.res = some .stopJoin ∨ s.res = some .exited) := by
  unfold handleOk
  simp only [Bool.or_eq_true]
  refine or_congr Iff.rfl ?_
  split <;> simp_all

/-! ### the shutdown procedure -/

theorem la_sdNormalize_target (sd : Sd) : (sdNormalize cfg sd).target = sd.target := by
  unfold sdNormalize
  split <;> (try split) <;> rfl

theorem la_sdNorm_target (sd : Sd) : (sdNorm cfg sd).target = sd.target := by
  simp [sdNorm, la_sdNormalize_target]

theorem la_sdNormalize_holds (sd : Sd) : sdHolds (sdNormalize cfg sd) = sdHolds sd := by
  unfold sdNormalize
  split <;> (try split) <;> simp_all [sdHolds]

theorem la_sdNorm_holds (sd : Sd) : sdHolds (sdNorm cfg sd) = sdHolds sd := by
  simp [sdNorm, la_sdNormalize_holds]

theorem la_sdStep_frame {s s1 : State Val Err} {sd : Sd} {l : Label Val Err}
    {r : Except Err (Option Sd)} (h : sdStep cfg s sd l = some (s1, r)) :
    s1.wk = s.wk ∧ s1.res = s.res ∧ s1.disp = s.disp ∧ s1.wkOf = s.wkOf ∧ s1.nsub = s.nsub ∧
    s1.fut.length = s.fut.length ∧ s1.qp.length = s.qp.length ∧ s1.innerOpen = s.innerOpen ∧
    s1.mainPc = s.mainPc ∧ ((∀ j, sd.target ≠ .priv j) → s1.qp = s.qp) := by
  unfold sdStep at h
  split_step h
  all_goals (simp only [Option.some.injEq, Prod.mk.injEq] at h; obtain ⟨h, -⟩ := h; subst h)
  all_goals (refine ⟨?_, ?_, ?_, ?_, ?_, ?_, ?_, ?_, ?_, ?_⟩)
  all_goals (first
    | (simp; done)
    | (intro hq; simp [la_setQ_qp_np _ _ hq, la_taskDone_qp_np _ hq]; done))

theorem la_sdStep_res {s s1 : State Val Err} {sd sd' : Sd} {l : Label Val Err}
    (h : sdStep cfg s sd l = some (s1, .ok (some sd'))) :
    sd'.target = sd.target ∧
    (sdHolds sd' = true → (∃ b, l = .sdDrainGet b) ∨ (∃ b, l = .sdDrainCancel b)) := by
  unfold sdStep at h
  split_step h
  all_goals (first
    | (simp at h; done)
    | (simp only [Option.some.injEq, Prod.mk.injEq, Except.ok.injEq] at h
       obtain ⟨-, h⟩ := h
       subst h
       refine ⟨rfl, ?_⟩
       simp_all [sdHolds]))

theorem la_sdStep_noraise {s s1 : State Val Err} {sd : Sd} {l : Label Val Err} {e : Err}
    (hD : noDead s = true) (h : sdStep cfg s sd l = some (s1, .error e)) : False := by
  have hT := la_threadEnded_noDead hD
  unfold sdStep at h
  split_step h
  all_goals (first
    | (simp at h; done)
    | (simp_all; done))

/-! ### the user thread -/

/-- what a step of the user thread leaves alone -/
def MainFacts (cfg : Cfg) (s s' : State Val Err) : Prop :=
  s'.wk = s.wk ∧ s'.res = s.res ∧ s'.disp = s.disp ∧ s'.wkOf = s.wkOf ∧ s'.qp = s.qp ∧
  s'.innerOpen = s.innerOpen ∧ s'.fut.length = s.fut.length ∧
  (s'.nsub = s.nsub ∨ s'.nsub ≤ cfg.calls.length) ∧
  (∀ sd, s'.mainPc = .inSd sd → sd.target = frontQ cfg)

theorem la_main_sd {s s' : State Val Err} {sd : Sd} {l : Label Val Err} (hD : noDead s = true)
    (htgt : sd.target = frontQ cfg)
    (h : (match sdStep cfg s sd l with
      | some (s', .ok (some sd')) => some { s' with mainPc := .inSd (sdNorm cfg sd') }
      | some (s', .ok none) => some { s' with mainPc := .idle, frontOpen := false }
      | some (s', .error _) => some { s' with mainPc := .idle, raised := s'.raised + 1 }
      | none => none) = some s') : MainFacts cfg s s' := by
  have hnp : ∀ j, sd.target ≠ .priv j := by rw [htgt]; exact la_frontQ_np cfg
  split at h
  · rename_i s1 sd' hsd
    obtain ⟨h1, h2, h3, h4, h5, h6, h7, h8, h9, h10⟩ := la_sdStep_frame cfg hsd
    have hr := la_sdStep_res cfg hsd
    simp only [Option.some.injEq] at h; subst h
    refine ⟨h1, h2, h3, h4, h10 hnp, h8, h6, Or.inl h5, ?_⟩
    intro sd2 hsd2
    simp only [MainPc.inSd.injEq] at hsd2
    subst hsd2
    rw [la_sdNorm_target, hr.1, htgt]
  · rename_i s1 hsd
    obtain ⟨h1, h2, h3, h4, h5, h6, h7, h8, h9, h10⟩ := la_sdStep_frame cfg hsd
    simp only [Option.some.injEq] at h; subst h
    refine ⟨h1, h2, h3, h4, h10 hnp, h8, h6, Or.inl h5, ?_⟩
    intro sd2 hsd2
    simp at hsd2
  · rename_i s1 e hsd
    exact (la_sdStep_noraise cfg hD hsd).elim
  · cases h

theorem la_mainStep_facts {s s' : State Val Err} {l : Label Val Err} (hD : noDead s = true)
    (hJ : JoinP cfg s) (h : mainStep cfg s l = some s') : MainFacts cfg s s' := by
  unfold mainStep at h
  split at h
  rotate_left 5
  · rename_i sd hm
    have htgt := hJ.2.1 sd hm
    split at h
    all_goals (first
      | (cases h; done)
      | exact la_main_sd cfg hD htgt h)
  · cases h
  all_goals (split_step h)
  all_goals (simp only [Option.some.injEq] at h; subst h)
  all_goals (refine ⟨?_, ?_, ?_, ?_, ?_, ?_, ?_, ?_, ?_⟩)
  all_goals (first
    | (simp; done)
    | (simp [la_setQ_qp_np _ _ (la_frontQ_np cfg)]; done)
    | (right; simp; omega)
    | (intro sd hsd; simp at hsd; subst hsd; simp [la_sdNorm_target]; done)
    | (intro sd hsd; simp_all; done)
    | skip)

/-! ### the resolver -/

def HandleP (s : State Val Err) : Prop :=
  s.innerOpen = true ∨ s.res = some .stopAck ∨ s.res = some .stopJoin ∨ s.res = some .exited

/-- what a step of the resolver leaves alone / establishes -/
def ResFacts (cfg : Cfg) (s s' : State Val Err) : Prop :=
  s'.wk = s.wk ∧ s'.disp = s.disp ∧ s'.mainPc = s.mainPc ∧ s'.wkOf = s.wkOf ∧ s'.qp = s.qp ∧
  s'.fut.length = s.fut.length ∧ s'.nsub = s.nsub ∧ s'.res.isSome = s.res.isSome ∧
  (∀ e, s'.res ≠ some (.dead e)) ∧
  (∀ i, s'.res = some (.ready i) → s.res = some (.ready i) ∨ allDone s (depsOf cfg i) = true) ∧
  (∀ sd, s'.res = some (.inSd sd) → sd.target = .inner ∧ sdHolds sd = false) ∧
  HandleP s'

theorem la_res_sd {s s' : State Val Err} {sd : Sd} {l : Label Val Err} (hD : noDead s = true)
    (htgt : sd.target = .inner) (hl1 : ∀ b, l ≠ .sdDrainGet b) (hl2 : ∀ b, l ≠ .sdDrainCancel b)
    (hH : HandleP s) (hr : s.res = some (.inSd sd))
    (h : (match sdStep cfg s sd l with
        | some (s', .ok (some sd')) => some { s' with res := some (.inSd (sdNorm cfg sd')) }
        | some (s', .ok none) => some { s' with res := some .stopAck, innerOpen := false }
        | some (s', .error e) => some { s' with res := some (.dead e) }
        | none => none) = some s') : ResFacts cfg s s' := by
  have hnp : ∀ j, sd.target ≠ .priv j := by rw [htgt]; simp
  have hio : s.innerOpen = true := by
    unfold HandleP at hH; rw [hr] at hH; simpa using hH
  split at h
  · rename_i s1 sd' hsd
    obtain ⟨h1, h2, h3, h4, h5, h6, h7, h8, h9, h10⟩ := la_sdStep_frame cfg hsd
    have hr' := la_sdStep_res cfg hsd
    simp only [Option.some.injEq] at h; subst h
    refine ⟨h1, h3, h9, h4, h10 hnp, h6, h5, by simp [hr], by simp, by simp, ?_, Or.inl (by simpa [h8] using hio)⟩
    intro sd2 hsd2
    simp only [Option.some.injEq, RPc.inSd.injEq] at hsd2
    subst hsd2
    rw [la_sdNorm_target, la_sdNorm_holds, hr'.1, htgt]
    refine ⟨rfl, ?_⟩
    cases hh : sdHolds sd'
    · rfl
    · rcases hr'.2 hh with ⟨b, hb⟩ | ⟨b, hb⟩
      · exact absurd hb (hl1 b)
      · exact absurd hb (hl2 b)
  · rename_i s1 hsd
    obtain ⟨h1, h2, h3, h4, h5, h6, h7, h8, h9, h10⟩ := la_sdStep_frame cfg hsd
    simp only [Option.some.injEq] at h; subst h
    exact ⟨h1, h3, h9, h4, h10 hnp, h6, h5, by simp [hr], by simp, by simp, by simp, Or.inr (Or.inl rfl)⟩
  · rename_i s1 e hsd
    exact (la_sdStep_noraise cfg hD hsd).elim
  · cases h

theorem la_resStep_facts {s s' : State Val Err} {l : Label Val Err} (hD : noDead s = true)
    (hJ : JoinP cfg s) (hH : HandleP s) (h : resStep cfg cancelErr s l = some s') :
    ResFacts cfg s s' := by
  unfold resStep at h
  split at h
  · cases h
  rename_i pc hr
  split at h
  case h_13 =>
    rename_i sd
    have htgt := (hJ.2.2 sd hr).1
    split at h
    all_goals (first
      | (cases h; done)
      | (refine la_res_sd cfg hD htgt ?_ ?_ hH hr h <;> (intro b; simp)))
  case h_16 => cases h
  all_goals (split_step h)
  all_goals (simp only [Option.some.injEq] at h; subst h)
  all_goals (unfold HandleP at hH)
  all_goals (refine ⟨?_, ?_, ?_, ?_, ?_, ?_, ?_, ?_, ?_, ?_, ?_, ?_⟩)
  all_goals (first
    | (simp; done)
    | (simp [hr]; done)
    | (simp [la_taskDone_qp_np]; done)
    | (intro i hi; simp at hi; subst hi; right; assumption)
    | (simp only [HandleP]; simp_all; done)
    | (intro sd hsd; simp at hsd; subst hsd; simp only [la_sdNorm_target, la_sdNorm_holds]; simp [sdHolds]; done)
    | skip)

/-! ### the dispatcher -/

/-- what a step of the dispatcher other than `dLaunch` leaves alone / establishes -/
def DispFacts (s s' : State Val Err) : Prop :=
  s'.wk = s.wk ∧ s'.res = s.res ∧ s'.mainPc = s.mainPc ∧ s'.wkOf = s.wkOf ∧ s'.qp = s.qp ∧
  s'.fut = s.fut ∧ s'.nsub = s.nsub ∧ s'.innerOpen = s.innerOpen ∧
  s'.disp.isSome = s.disp.isSome ∧ (∀ e, s'.disp ≠ some (.dead e)) ∧
  (∀ ts, s'.disp = some (.stopping ts) → ∀ t ∈ ts, ∃ k, t = TId.worker k ∧ k < s.wk.length)

/-- the effect of `dLaunch` -/
def LaunchFacts (s s' : State Val Err) : Prop :=
  ∃ (i : Nat) (vs : List Val) (req : Nat), s.disp = some (.waitSlots i vs req) ∧
    s'.wk = s.wk ++ [{ q := .priv i }] ∧ s'.wkOf = s.wkOf.set i (some s.wk.length) ∧
    s'.qp = s.qp.set i { items := [.task i vs, .stop true], unfin := 2 } ∧
    s'.disp = some .needAck ∧ s'.res = s.res ∧ s'.mainPc = s.mainPc ∧ s'.fut = s.fut ∧
    s'.nsub = s.nsub ∧ s'.innerOpen = s.innerOpen

theorem la_dispStep_facts {s s' : State Val Err} {l : Label Val Err} (hD : noDead s = true)
    (hJ : JoinP cfg s) (h : dispStep cfg s l = some s') : DispFacts s s' ∨ LaunchFacts s s' := by
  have hT := la_threadEnded_noDead hD
  unfold dispStep at h
  split at h
  · cases h
  rename_i pc hd
  have hJ1 := hJ.1
  split_step h
  all_goals (simp only [Option.some.injEq] at h; subst h)
  all_goals (first
    | (right; exact ⟨_, _, _, hd, rfl, rfl, rfl, rfl, rfl, rfl, rfl, rfl, rfl⟩)
    | (exfalso; simp_all; done)
    | (left
       refine ⟨?_, ?_, ?_, ?_, ?_, ?_, ?_, ?_, ?_, ?_, ?_⟩
       all_goals (first
         | (simp; done)
         | (simp [hd]; done)
         | (simp [la_taskDone_qp_np]; done)
         | (intro ts hts; simp at hts; done)
         | (intro ts hts
            simp at hts
            subst hts
            intro t ht
            first
            | exact hJ1 _ hd t (List.mem_cons_of_mem _ ht)
            | (split at ht <;> simp_all; done))
         | skip)))

/-! ### the workers -/

/-- the launch clause for one worker and one call -/
def LOk (s : State Val Err) (w : Worker Val Err) (j : Nat) : Prop :=
  futPost (futOf s j) = true ∨ 1 ≤ qCnt j (s.qp.getD j {}) ∨ wkCnt j w = 1

theorem la_qp_getD_setQ_ne (s : State Val Err) {q : QId} (v : Queue Val) {j : Nat}
    (hq : q ≠ .priv j) : (setQ s q v).qp.getD j {} = s.qp.getD j {} := by
  cases q with
  | outer => rfl
  | inner => rfl
  | priv i =>
    have : i ≠ j := fun h => hq (by rw [h])
    simp [setQ, la_getD_set, this]

theorem la_qp_getD_taskDone_ne (s : State Val Err) {q : QId} {j : Nat}
    (hq : q ≠ .priv j) : (taskDone s q).qp.getD j {} = s.qp.getD j {} := by
  simp only [taskDone]
  exact la_qp_getD_setQ_ne _ _ hq

/-- replacing a queue by one with the same tasks changes no token count -/
theorem la_qCnt_setQ_same (s : State Val Err) (q : QId) (v : Queue Val) (i j : Nat)
    (hv : qCnt i v = qCnt i (getQ s q)) :
    qCnt i ((setQ s q v).qp.getD j {}) = qCnt i (s.qp.getD j {}) := by
  cases q with
  | outer => rfl
  | inner => rfl
  | priv i' =>
    simp only [setQ, la_getD_set]
    split
    · rename_i h; rw [hv, ← h.1]; rfl
    · rfl

theorem la_qCnt_taskDone (s : State Val Err) (q : QId) (i j : Nat) :
    qCnt i ((taskDone s q).qp.getD j {}) = qCnt i (s.qp.getD j {}) := by
  simp only [taskDone]
  exact la_qCnt_setQ_same s q _ i j rfl

theorem la_LOk_frame {s s' : State Val Err} {w w' : Worker Val Err} {j : Nat}
    (hf : s'.fut = s.fut) (hq : qCnt j (s'.qp.getD j {}) = qCnt j (s.qp.getD j {}))
    (hw : wkCnt j w = 1 → wkCnt j w' = 1) (h : LOk s w j) : LOk s' w' j := by
  unfold LOk at h ⊢
  rw [hq, futOf_congr hf]
  rcases h with h | h | h
  · exact Or.inl h
  · exact Or.inr (Or.inl h)
  · exact Or.inr (Or.inr (hw h))

theorem la_LOk_get {s s' : State Val Err} {w w' : Worker Val Err} {i j u : Nat} {vs : List Val}
    {rest : List (Item Val)} (hq : w.q = .priv j) (hpc : w.pc = .idle)
    (hit : (getQ s w.q).items = .task i vs :: rest) (hw' : w'.pc = .gotTask i vs)
    (hf : s'.fut = s.fut) (hqp : s'.qp = (setQ s w.q { items := rest, unfin := u }).qp)
    (h : LOk s w j) : LOk s' w' j := by
  unfold LOk at h ⊢
  rw [futOf_congr hf, hqp]
  rw [hq] at hit ⊢
  simp only [getQ] at hit
  rcases h with h | h | h
  · exact Or.inl h
  · by_cases hij : i = j
    · right; right; simp [wkCnt, wpcCnt, hw', hij]
    · right; left
      simp only [setQ, la_getD_set]
      by_cases hlt : j < s.qp.length
      · simp only [hlt, and_self, if_true]
        simp only [qCnt, hit, List.map_cons, List.sum_cons, itemCnt, hij, if_false] at h ⊢
        omega
      · rw [la_getD_big _ _ (by omega)] at h
        simp [qCnt] at h
  · simp [wkCnt, wpcCnt, hpc] at h

theorem la_LOk_setFut {s s' : State Val Err} {w w' : Worker Val Err} {i j : Nat} {f : Fut Val Err}
    (hfut : s'.fut = s.fut.set i f) (hlt : i < s.fut.length) (hpost : futPost f = true)
    (hqp : s'.qp = s.qp) (hw : wkCnt j w = 1 → j = i) (h : LOk s w j) : LOk s' w' j := by
  unfold LOk at h ⊢
  have hf : futOf s' j = if i = j ∧ i < s.fut.length then f else futOf s j := by
    have := futOf_setFut s i j f
    simp only [futOf, setFut] at this
    simp only [futOf, hfut]; exact this
  rw [hqp, hf]
  rcases h with h | h | h
  · left; split
    · exact hpost
    · exact h
  · exact Or.inr (Or.inl h)
  · left
    have := hw h
    subst this
    simp [hlt, hpost]

/-- what a step of worker `k` leaves alone / establishes -/
def WorkerFacts (s s' : State Val Err) (k : Nat) : Prop :=
  ∃ w w', s.wk[k]? = some w ∧ s'.wk = s.wk.set k w' ∧ w'.q = w.q ∧ wDead w'.pc = false ∧
    s'.res = s.res ∧ s'.disp = s.disp ∧ s'.mainPc = s.mainPc ∧ s'.wkOf = s.wkOf ∧
    s'.nsub = s.nsub ∧ s'.fut.length = s.fut.length ∧ s'.qp.length = s.qp.length ∧
    s'.innerOpen = s.innerOpen ∧
    (∀ j, w.q ≠ .priv j → qCnt j (s.qp.getD j {}) ≤ qCnt j (s'.qp.getD j {})) ∧
    (∀ j, w.q = .priv j → LOk s w j → LOk s' w' j)

theorem la_workerStep_facts (hnf : NoFail eval) {s s' : State Val Err} {k : Nat} {l : Label Val Err}
    (hC : Core s) (hD : noDead s = true) (h : workerStep eval s k l = some s') :
    WorkerFacts s s' k := by
  have hnf' : ∀ i vs e, eval i vs ≠ .error e := by
    intro i vs e he
    obtain ⟨v, hv⟩ := hnf i vs
    rw [hv] at he; cases he
  obtain ⟨hU, hW, hR⟩ := hC
  unfold workerStep at h
  split at h
  · cases h
  rename_i w hk
  have hwd : wDead w.pc = false := by
    have h1 := ((la_noDead_iff s).1 hD).1
    have := (List.all_eq_true.1 h1) w (List.mem_of_getElem? hk)
    simpa using this
  have hrun : ∀ i, wpcRuns i w.pc → futOf s i = .running := fun i hi => hR.1 k w i hk hi
  split_step h
  all_goals (simp only [Option.some.injEq] at h; subst h)
  all_goals (first
    | (exfalso; simp_all [wDead]; done)
    | skip)
  all_goals (refine ⟨w, ?_, hk, ?_, ?_, ?_, ?_, ?_, ?_, ?_, ?_, ?_, ?_, ?_, ?_, ?_⟩)
  all_goals (first
    | (simp only [setWk_wk, setQ_wk, taskDone_wk, setFut_wk]; rfl)
    | (simp [wDead]; done)
    | (intro j hj
       simp only [setWk_qp, setFut_qp, la_qp_getD_setQ_ne _ _ hj, la_qp_getD_taskDone_ne _ hj, Nat.le_refl]
       done)
    | (intro j hj
       refine la_LOk_frame ?_ ?_ ?_
       · simp
       · first
         | rfl
         | (simp only [setWk_qp]; exact la_qCnt_taskDone _ _ _ _)
         | (simp only [setWk_qp]
            refine la_qCnt_setQ_same _ _ _ _ _ ?_
            simp_all [qCnt, itemCnt])
       · simp_all [wkCnt, wpcCnt]
         done)
    | (intro j hj
       apply la_LOk_get hj
       case hpc => assumption
       case hit => assumption
       case hw' => rfl
       case hf => simp
       case hqp => simp only [setWk_qp]; rfl)
    | (intro j hj
       apply la_LOk_setFut
       case hfut => rfl
       case hlt =>
         apply lt_of_futOf_ne_absent
         first
         | (simp_all; done)
         | (rw [hrun _ ?_]
            · simp
            · simp_all [wpcRuns])
       case hpost => rfl
       case hqp => rfl
       case hw => simp_all [wkCnt, wpcCnt])
    | skip)

/-! ### assembling the clauses -/

/-- the clauses proved here, plus the extra invariant -/
def LiveA (cfg : Cfg) (s : State Val Err) : Prop :=
  lenOk cfg s = true ∧ noDead s = true ∧ shapeOk cfg s = true ∧ readyOk cfg s = true ∧
  joinOk cfg s = true ∧ handleOk cfg s = true ∧ launchOk s = true

theorem la_launch_frame {s s' : State Val Err} (hL : LaunchP s) (hwk : s'.wk = s.wk)
    (hqp : s'.qp = s.qp) (hfs : ∀ j, FutStep (futOf s j) (futOf s' j)) : LaunchP s' := by
  intro k w i hk hq
  rw [hwk] at hk
  rw [hqp]
  rcases hL k w i hk hq with h | h | h
  · exact Or.inl (la_futPost_step (hfs i) h)
  · exact Or.inr (Or.inl h)
  · exact Or.inr (Or.inr h)

theorem la_assemble_nw {s s' : State Val Err} (hI : LiveInv cfg s) (hL : launchOk s = true)
    (hfs : ∀ j, FutStep (futOf s j) (futOf s' j))
    (hwk : s'.wk = s.wk) (hwkOf : s'.wkOf = s.wkOf) (hqp : s'.qp = s.qp)
    (hfl : s'.fut.length = s.fut.length) (hns : s'.nsub = s.nsub ∨ s'.nsub ≤ cfg.calls.length)
    (hr1 : s'.res.isSome = s.res.isSome) (hr2 : ∀ e, s'.res ≠ some (.dead e))
    (hr3 : ∀ i, s'.res = some (.ready i) → s.res = some (.ready i) ∨ allDone s (depsOf cfg i) = true)
    (hd1 : s'.disp.isSome = s.disp.isSome) (hd2 : ∀ e, s'.disp ≠ some (.dead e))
    (hJ : JoinP cfg s') (hH : HandleP s') : LiveA cfg s' := by
  have hlen := la_len_elim cfg hI.len
  refine ⟨?_, ?_, ?_, ?_, ?_, ?_, ?_⟩
  · refine la_len_of cfg hI.len hfl (by rw [hqp]) (by rw [hwkOf]) ?_
    rcases hns with h | h
    · rw [h]; exact hlen.2.2.2
    · exact h
  · exact (la_noDead_iff s').2 ⟨by rw [hwk]; exact ((la_noDead_iff s).1 hI.noDead).1, hr2, hd2⟩
  · refine (la_shape_iff cfg s').2 (la_shape_frame cfg ((la_shape_iff cfg s).1 hI.shape) hr1 hd1 hwkOf
      (by rw [hwk]) ?_)
    intro k w' hk
    rw [hwk] at hk
    exact ⟨w', hk, rfl⟩
  · exact la_ready_of cfg hfs hI.ready hr3
  · exact (la_join_iff cfg s').2 hJ
  · exact (la_handle_iff cfg s').2 hH
  · exact (la_launch_iff s').2 (la_launch_frame ((la_launch_iff s).1 hL) hwk hqp hfs)

theorem la_mainStep {s s' : State Val Err} {l : Label Val Err} (hI : LiveInv cfg s)
    (hL : launchOk s = true) (hfs : ∀ j, FutStep (futOf s j) (futOf s' j))
    (h : mainStep cfg s l = some s') : LiveA cfg s' := by
  have hJ := (la_join_iff cfg s).1 hI.join
  have hN := (la_noDead_iff s).1 hI.noDead
  obtain ⟨h1, h2, h3, h4, h5, h6, h7, h8, h9⟩ := la_mainStep_facts cfg hI.noDead hJ h
  refine la_assemble_nw cfg hI hL hfs h1 h4 h5 h7 h8 (by rw [h2]) (by rw [h2]; exact hN.2.1)
    (fun i hi => Or.inl (by rw [← h2]; exact hi)) (by rw [h3]) (by rw [h3]; exact hN.2.2) ⟨?_, h9, ?_⟩ ?_
  · rw [h3, h1]; exact hJ.1
  · rw [h2]; exact hJ.2.2
  · have := (la_handle_iff cfg s).1 hI.handle
    unfold HandleP; rw [h2, h6]; exact this

theorem la_resStep {s s' : State Val Err} {l : Label Val Err} (hI : LiveInv cfg s)
    (hL : launchOk s = true) (hfs : ∀ j, FutStep (futOf s j) (futOf s' j))
    (h : resStep cfg cancelErr s l = some s') : LiveA cfg s' := by
  have hJ := (la_join_iff cfg s).1 hI.join
  have hN := (la_noDead_iff s).1 hI.noDead
  have hH := (la_handle_iff cfg s).1 hI.handle
  obtain ⟨h1, h2, h3, h4, h5, h6, h7, h8, h9, h10, h11, h12⟩ :=
    la_resStep_facts cfg cancelErr hI.noDead hJ hH h
  refine la_assemble_nw cfg hI hL hfs h1 h4 h5 h6 (Or.inl h7) h8 h9 h10 (by rw [h2])
    (by rw [h2]; exact hN.2.2) ⟨?_, ?_, h11⟩ h12
  · rw [h2, h1]; exact hJ.1
  · rw [h3]; exact hJ.2.1

/-- the call the dispatcher is about to launch has been submitted -/
theorem la_disp_lt {s : State Val Err} (hU : Unique s) {i req : Nat} {vs : List Val}
    (hd : s.disp = some (.waitSlots i vs req)) : i < s.nsub := by
  rcases Nat.lt_or_ge i s.nsub with h | h
  · exact h
  · have h0 := (hU i).2 h
    have h1 : dispCnt i s.disp = 1 := by simp [hd, dispCnt]
    simp only [cnt] at h0
    omega

theorem la_disp_pre {s : State Val Err} (hT : tokenStateOk s = true) {i req : Nat} {vs : List Val}
    (hd : s.disp = some (.waitSlots i vs req)) : futPre s i = true := by
  unfold tokenStateOk at hT
  rw [hd] at hT
  simp only [Bool.and_eq_true] at hT
  exact hT.1.1.2

/-- "launched at most once": no worker exists yet for the call the dispatcher holds -/
theorem la_disp_no_worker {s : State Val Err} (hU : Unique s) (hT : tokenStateOk s = true)
    (hL : LaunchP s) {i req : Nat} {vs : List Val} (hd : s.disp = some (.waitSlots i vs req))
    {k : Nat} {w : Worker Val Err} (hk : s.wk[k]? = some w) : w.q ≠ .priv i := by
  intro hq
  have h1 : dispCnt i s.disp = 1 := by simp [hd, dispCnt]
  have hu := (hU i).1
  rcases hL k w i hk hq with h | h | h
  · exact la_futPost_not_pre h (la_disp_pre hT hd)
  · have := qp_getD_le i s.qp i
    simp only [cnt] at hu
    omega
  · have := sum_map_ge (wkCnt i) s.wk k w hk
    simp only [cnt] at hu
    omega

theorem la_getElem?_append_one {α : Type} {l : List α} {a b : α} {k : Nat}
    (h : (l ++ [a])[k]? = some b) : l[k]? = some b ∨ (k = l.length ∧ b = a) := by
  rcases Nat.lt_or_ge k l.length with hlt | hge
  · rw [List.getElem?_append_left hlt] at h; exact Or.inl h
  · rw [List.getElem?_append_right hge] at h
    cases hk : k - l.length with
    | zero =>
      simp [hk] at h
      exact Or.inr ⟨by omega, h.symm⟩
    | succ n => simp [hk] at h

theorem la_dispStep {s s' : State Val Err} {l : Label Val Err} (hC : Core s) (hI : LiveInv cfg s)
    (hL : launchOk s = true) (hfs : ∀ j, FutStep (futOf s j) (futOf s' j))
    (h : dispStep cfg s l = some s') : LiveA cfg s' := by
  have hJ := (la_join_iff cfg s).1 hI.join
  have hN := (la_noDead_iff s).1 hI.noDead
  have hH := (la_handle_iff cfg s).1 hI.handle
  have hS := (la_shape_iff cfg s).1 hI.shape
  have hLP := (la_launch_iff s).1 hL
  have hlen := la_len_elim cfg hI.len
  rcases la_dispStep_facts cfg hI.noDead hJ h with hF | hF
  · obtain ⟨h1, h2, h3, h4, h5, h6, h7, h8, h9, h10, h11⟩ := hF
    refine la_assemble_nw cfg hI hL hfs h1 h4 h5 (by rw [h6]) (Or.inl h7) (by rw [h2])
      (by rw [h2]; exact hN.2.1) (fun i hi => Or.inl (by rw [← h2]; exact hi)) h9 h10 ⟨?_, ?_, ?_⟩ ?_
    · rw [h1]; exact h11
    · rw [h3]; exact hJ.2.1
    · rw [h2]; exact hJ.2.2
    · unfold HandleP; rw [h2, h8]; exact hH
  · obtain ⟨i, vs, req, hd, h1, h2, h3, h4, h5, h6, h7, h8, h9⟩ := hF
    have hilt : i < cfg.calls.length := Nat.lt_of_lt_of_le (la_disp_lt hC.uniq hd) hlen.2.2.2
    have hnw := fun k w hk => la_disp_no_worker hC.uniq hI.tokenState hLP hd (k := k) (w := w) hk
    have hb : cfg.block = none := by
      cases hb : cfg.block with
      | none => rfl
      | some n =>
        have := (hS.2.1 n hb).1
        rw [hd] at this; cases this
    refine ⟨?_, ?_, ?_, ?_, ?_, ?_, ?_⟩
    · exact la_len_of cfg hI.len (by rw [h7]) (by rw [h3]; simp) (by rw [h2]; simp) (by rw [h8]; exact hlen.2.2.2)
    · refine (la_noDead_iff s').2 ⟨?_, by rw [h5]; exact hN.2.1, by rw [h4]; simp⟩
      rw [h1, List.all_append, hN.1]
      simp [wDead]
    · refine (la_shape_iff cfg s').2 ⟨by rw [h5]; exact hS.1, ?_, ?_⟩
      · intro n hn; rw [hb] at hn; cases hn
      · intro _
        refine ⟨by rw [h4]; rfl, ?_⟩
        intro k w' hk
        rw [h1] at hk
        rcases la_getElem?_append_one hk with hk0 | ⟨hkl, hw'⟩
        · obtain ⟨j, hj, hwo⟩ := (hS.2.2 hb).2 k w' hk0
          refine ⟨j, hj, ?_⟩
          have hji : i ≠ j := by
            intro hij; subst hij; exact hnw k w' hk0 hj
          rw [h2]
          simpa [List.getD_eq_getElem?_getD, List.getElem?_set, hji] using hwo
        · subst hw'; subst hkl
          refine ⟨i, rfl, ?_⟩
          rw [h2]
          have : i < s.wkOf.length := by rw [hlen.2.2.1]; exact hilt
          simp [List.getD_eq_getElem?_getD, List.getElem?_set, this]
    · refine la_ready_of cfg hfs hI.ready (fun j hj => Or.inl (by rw [← h5]; exact hj))
    · refine (la_join_iff cfg s').2 ⟨?_, ?_, ?_⟩
      · intro ts hts; rw [h4] at hts; cases hts
      · rw [h6]; exact hJ.2.1
      · rw [h5]; exact hJ.2.2
    · refine (la_handle_iff cfg s').2 ?_
      rw [h5, h9]; exact hH
    · refine (la_launch_iff s').2 ?_
      intro k w' j hk hq
      rw [h1] at hk
      have hqi : qCnt i ((s.qp.set i { items := [.task i vs, .stop true], unfin := 2 }).getD i {}) = 1 := by
        have : i < s.qp.length := by rw [hlen.2.1]; exact hilt
        simp [la_getD_set, this, qCnt, itemCnt]
      rcases la_getElem?_append_one hk with hk0 | ⟨hkl, hw'⟩
      · have hji : i ≠ j := by
          intro hij; subst hij; exact hnw k w' hk0 hq
        rw [h3, futOf_congr h7, la_getD_set]
        simp only [hji, false_and, if_false]
        exact hLP k w' j hk0 hq
      · subst hw'
        simp only [QId.priv.injEq] at hq
        subst hq
        right; left
        rw [h3, hqi]
        exact Nat.le_refl 1

theorem la_getElem?_lt {α : Type} {l : List α} {k : Nat} {a : α} (h : l[k]? = some a) :
    k < l.length := by
  rcases Nat.lt_or_ge k l.length with h' | h'
  · exact h'
  · simp [List.getElem?_eq_none h'] at h

theorem la_workerStep (hnf : NoFail eval) {s s' : State Val Err} {k : Nat} {l : Label Val Err}
    (hC : Core s) (hI : LiveInv cfg s) (hL : launchOk s = true)
    (hfs : ∀ j, FutStep (futOf s j) (futOf s' j))
    (h : workerStep eval s k l = some s') : LiveA cfg s' := by
  have hJ := (la_join_iff cfg s).1 hI.join
  have hN := (la_noDead_iff s).1 hI.noDead
  have hH := (la_handle_iff cfg s).1 hI.handle
  have hS := (la_shape_iff cfg s).1 hI.shape
  have hLP := (la_launch_iff s).1 hL
  have hlen := la_len_elim cfg hI.len
  obtain ⟨w, w', hk, h1, h2, h3, h4, h5, h6, h7, h8, h9, h10, h11, h12, h13⟩ :=
    la_workerStep_facts eval hnf hC hI.noDead h
  have hklt := la_getElem?_lt hk
  refine ⟨?_, ?_, ?_, ?_, ?_, ?_, ?_⟩
  · exact la_len_of cfg hI.len h9 h10 (by rw [h7]) (by rw [h8]; exact hlen.2.2.2)
  · refine (la_noDead_iff s').2 ⟨?_, by rw [h4]; exact hN.2.1, by rw [h5]; exact hN.2.2⟩
    rw [h1]
    exact la_all_set _ _ _ _ hN.1 (by simp [h3])
  · refine (la_shape_iff cfg s').2 (la_shape_frame cfg hS (by rw [h4]) (by rw [h5]) h7
      (by rw [h1]; simp) ?_)
    intro k' w2 hk'
    rw [h1] at hk'
    exact la_wk_set_q hk h2 k' w2 hk'
  · exact la_ready_of cfg hfs hI.ready (fun j hj => Or.inl (by rw [← h4]; exact hj))
  · refine (la_join_iff cfg s').2 ⟨?_, ?_, ?_⟩
    · rw [h5, h1]; simpa using hJ.1
    · rw [h6]; exact hJ.2.1
    · rw [h4]; exact hJ.2.2
  · refine (la_handle_iff cfg s').2 ?_
    rw [h4, h11]; exact hH
  · refine (la_launch_iff s').2 ?_
    intro k' w2 j hk' hq
    rw [h1] at hk'
    by_cases hkk : k = k'
    · subst hkk
      simp only [List.getElem?_set_self hklt, Option.some.injEq] at hk'
      subst hk'
      rw [h2] at hq
      exact h13 j hq (hLP k w j hk hq)
    · rw [List.getElem?_set_ne hkk] at hk'
      have hne : w.q ≠ .priv j := by
        intro hwq
        exact hkk (la_shape_inj cfg hS hk hk' hwq hq)
      have hq12 := h12 j hne
      rcases hLP k' w2 j hk' hq with h0 | h0 | h0
      · exact Or.inl (la_futPost_step (hfs j) h0)
      · exact Or.inr (Or.inl (Nat.le_trans h0 hq12))
      · exact Or.inr (Or.inr h0)

/-! ### final statements -/

theorem liveA_init (script : List Cmd) :
    lenOk cfg (init cfg script : State Val Err) = true ∧ noDead (init cfg script : State Val Err) = true ∧
    shapeOk cfg (init cfg script : State Val Err) = true ∧ readyOk cfg (init cfg script : State Val Err) = true ∧
    joinOk cfg (init cfg script : State Val Err) = true ∧ handleOk cfg (init cfg script : State Val Err) = true ∧
    launchOk (init cfg script : State Val Err) = true := by
  refine ⟨?_, ?_, ?_, ?_, ?_, ?_, ?_⟩
  · simp [lenOk, init]
  · cases hb : cfg.block <;> cases hr : cfg.resolver <;> simp [noDead, init, hb, hr, wDead]
  · cases hb : cfg.block <;> cases hr : cfg.resolver <;> simp [shapeOk, init, hb, hr]
  · cases hr : cfg.resolver <;> simp [readyOk, init, hr]
  · cases hb : cfg.block <;> cases hr : cfg.resolver <;> simp [joinOk, init, hb, hr, mainSd, resSd]
  · simp [handleOk, init]
  · cases hb : cfg.block <;> simp [launchOk, init, hb]

/-- Preservation of the structural clauses (and of the extra invariant `launchOk`) by every step
    of a run without failing calls. -/
theorem liveA_step (hnf : NoFail eval) {s s' : State Val Err} {l : Label Val Err} (hC : Core s)
    (hI : LiveInv cfg s) (hL : launchOk s = true) (h : step cfg eval cancelErr s l = some s') :
    lenOk cfg s' = true ∧ noDead s' = true ∧ shapeOk cfg s' = true ∧ readyOk cfg s' = true ∧
    joinOk cfg s' = true ∧ handleOk cfg s' = true ∧ launchOk s' = true := by
  have hfs : ∀ j, FutStep (futOf s j) (futOf s' j) :=
    fun j => ((core_step_facts cfg eval cancelErr hC h).2.2 j).1
  unfold step at h
  split at h
  all_goals first
    | exact la_mainStep cfg hI hL hfs h
    | exact la_resStep cfg cancelErr hI hL hfs h
    | exact la_dispStep cfg hC hI hL hfs h
    | exact la_workerStep cfg eval hnf hC hI hL hfs h


end ExecModel.Sys
