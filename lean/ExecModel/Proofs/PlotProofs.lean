import ExecModel.Props.C20
/-!
  C20 — list-induction proofs for the dependency-graph builder (`ExecModel.Plot`).
-/
namespace ExecModel.C20
open ExecModel ExecModel.Plot

/-! ### Preliminaries -/

/-- all futures of the argument are below `N` -/
def ArgLt (N : Nat) (a : PArg) : Prop := ∀ j ∈ argFuts a, j < N

/-- label/argument pairs of a call, positional first -/
def items (c : PCall) : List (String × PArg) := c.args.map (fun a => ("", a)) ++ c.kwargs

theorem addCall_eq_items (g : Graph) (t : Nat) (c : PCall) :
    addCall id g t c = (items c).foldl (fun g kv => addElement id g t kv.1 kv.2) g := by
  simp [addCall, items, List.foldl_append, List.foldl_map]

theorem callShape_eq_items (c : PCall) :
    callShape c = (items c).flatMap (fun kv => argShape kv.1 kv.2) := by
  simp [callShape, items, List.flatMap_append, List.flatMap_map]

theorem items_lt (N : Nat) (c : PCall)
    (h : ∀ a ∈ c.args ++ c.kwargs.map (·.2), ArgLt N a) : ∀ kv ∈ items c, ArgLt N kv.2 := by
  intro kv hkv
  simp only [items, List.mem_append, List.mem_map] at hkv
  apply h
  simp only [List.mem_append, List.mem_map]
  rcases hkv with ⟨a, ha, rfl⟩ | hkv
  · exact Or.inl ha
  · exact Or.inr ⟨kv, hkv, rfl⟩

/-! ### The invariant -/

/-- `B` = the boxes. -/
structure Inv (B : List Node) (g : Graph) : Prop where
  nodes : ∃ ex, g.nodes = B ++ ex ∧ ∀ i n, ex[i]? = some n → n.id = B.length + i ∧ n.box = false
  stop : ∀ e ∈ g.edges, e.stop < B.length
  out : ∀ i, B.length ≤ i →
    (g.edges.filter (fun e => e.start == i)).length = if i < g.nodes.length then 1 else 0

theorem Inv.le {B : List Node} {g : Graph} (h : Inv B g) : B.length ≤ g.nodes.length := by
  obtain ⟨ex, he, _⟩ := h.nodes
  simp [he]

theorem inv_addElement {B : List Node} {g : Graph} (h : Inv B g) (t : Nat) (ht : t < B.length)
    (l : String) (a : PArg) (ha : ArgLt B.length a) : Inv B (addElement id g t l a) := by
  have hle := h.le
  obtain ⟨ex, he, hex⟩ := h.nodes
  cases a with
  | fut j =>
    have hj : j < B.length := ha j (by simp [argFuts])
    refine ⟨⟨ex, he, hex⟩, ?_, ?_⟩
    · intro e hm
      simp only [addElement, List.mem_append, List.mem_singleton] at hm
      rcases hm with hm | rfl
      · exact h.stop e hm
      · exact ht
    · intro i hi
      have := h.out i hi
      have hne : (j == i) = false := by simp; omega
      show ((g.edges ++ [(⟨j, t, l⟩ : Edge)]).filter (fun e => e.start == i)).length =
        if i < g.nodes.length then 1 else 0
      rw [List.filter_append, List.length_append, this]
      simp [hne]
  | futs js =>
    have hj : ∀ j ∈ js, j < B.length := fun j hm => ha j (by simpa [argFuts] using hm)
    refine ⟨⟨ex, he, hex⟩, ?_, ?_⟩
    · intro e hm
      simp only [addElement, List.mem_append, List.mem_map] at hm
      rcases hm with hm | ⟨j, _, rfl⟩
      · exact h.stop e hm
      · exact ht
    · intro i hi
      have := h.out i hi
      have hnil : (js.map (fun j => (⟨id j, t, l⟩ : Edge))).filter (fun e => e.start == i) = [] := by
        rw [List.filter_eq_nil_iff]
        intro e hm
        simp only [List.mem_map] at hm
        obtain ⟨j, hjm, rfl⟩ := hm
        have := hj j hjm
        simp; omega
      show ((g.edges ++ js.map (fun j => (⟨id j, t, l⟩ : Edge))).filter (fun e => e.start == i)).length =
        if i < g.nodes.length then 1 else 0
      rw [List.filter_append, List.length_append, this, hnil]
      simp
  | val r =>
    refine ⟨⟨ex ++ [⟨g.nodes.length, r, false⟩], by simp [addElement, he], ?_⟩, ?_, ?_⟩
    · intro i n hn
      rw [List.getElem?_append] at hn
      split at hn
      · exact hex i n hn
      · rename_i hlt
        have : i = ex.length := by
          rcases Nat.lt_or_ge (i - ex.length) 1 with h1 | h1
          · omega
          · rw [List.getElem?_eq_none (by simpa using h1)] at hn; cases hn
        subst this
        simp at hn
        subst hn
        simp [he]
    · intro e hm
      simp only [addElement, List.mem_append, List.mem_singleton] at hm
      rcases hm with hm | rfl
      · exact h.stop e hm
      · exact ht
    · intro i hi
      have := h.out i hi
      simp only [addElement, List.filter_append, List.length_append, this, List.filter_cons,
        List.filter_nil, List.length_cons, List.length_nil]
      by_cases h1 : g.nodes.length = i
      · subst h1; simp
      · have : (g.nodes.length == i) = false := by simpa using h1
        simp [this]
        split <;> split <;> omega

/-! ### Incoming edges -/

def shape (N k : Nat) (E : List Edge) : List (Option Nat × String) :=
  (E.filter (fun e => e.stop == k)).map
    (fun e => (if e.start < N then some e.start else none, e.label))

theorem shape_append (N k : Nat) (E F : List Edge) : shape N k (E ++ F) = shape N k E ++ shape N k F := by
  simp [shape]

theorem shape_addElement (N k : Nat) (g : Graph) (hg : N ≤ g.nodes.length) (t : Nat) (l : String)
    (a : PArg) (ha : ArgLt N a) :
    shape N k (addElement id g t l a).edges =
      shape N k g.edges ++ (if t = k then argShape l a else []) := by
  cases a with
  | fut j =>
    have hj : j < N := ha j (by simp [argFuts])
    simp only [addElement, shape_append]
    congr 1
    by_cases htk : t = k <;> simp [shape, htk, argShape, hj]
  | futs js =>
    have hj : ∀ j ∈ js, j < N := fun j hm => ha j (by simpa [argFuts] using hm)
    simp only [addElement, shape_append]
    congr 1
    by_cases htk : t = k
    · subst htk
      simp only [shape, if_true, argShape, List.filter_map, List.map_map]
      have : js.filter ((fun e : Edge => e.stop == t) ∘ fun j => (⟨id j, t, l⟩ : Edge)) = js := by
        rw [List.filter_eq_self]; intro j _; simp
      rw [this]
      apply List.map_congr_left
      intro j hm
      simp [hj j hm]
    · simp only [shape, htk, if_false, List.map_eq_nil_iff, List.filter_eq_nil_iff]
      intro e hm
      simp only [List.mem_map] at hm
      obtain ⟨j, _, rfl⟩ := hm
      simpa using htk
  | val r =>
    simp only [addElement, shape_append]
    congr 1
    have : ¬ g.nodes.length < N := by omega
    by_cases htk : t = k <;> simp [shape, htk, argShape, this]

theorem len_addElement (g : Graph) (t : Nat) (l : String) (a : PArg) :
    g.nodes.length ≤ (addElement id g t l a).nodes.length := by
  cases a <;> simp [addElement]

/-- fold over the arguments of one call -/
theorem fold_items {B : List Node} (t : Nat) (ht : t < B.length) (k : Nat) (its : List (String × PArg)) :
    ∀ g, Inv B g → (∀ kv ∈ its, ArgLt B.length kv.2) →
      Inv B (its.foldl (fun g kv => addElement id g t kv.1 kv.2) g) ∧
      shape B.length k (its.foldl (fun g kv => addElement id g t kv.1 kv.2) g).edges =
        shape B.length k g.edges ++
          (if t = k then its.flatMap (fun kv => argShape kv.1 kv.2) else []) := by
  induction its with
  | nil => intro g hg _; simp [hg]
  | cons kv rest ih =>
    intro g hg hlt
    have hkv := hlt kv (by simp)
    have h1 := inv_addElement hg t ht kv.1 kv.2 hkv
    obtain ⟨h2, h3⟩ := ih _ h1 (fun x hx => hlt x (by simp [hx]))
    refine ⟨h2, ?_⟩
    simp only [List.foldl_cons, h3, shape_addElement _ k g hg.le t kv.1 kv.2 hkv, List.flatMap_cons]
    by_cases htk : t = k <;> simp [htk]

theorem fold_calls {B : List Node} (k : Nat) (l : List (Nat × PCall)) :
    ∀ g, Inv B g →
      (∀ tc ∈ l, tc.1 < B.length ∧ ∀ a ∈ tc.2.args ++ tc.2.kwargs.map (·.2), ArgLt B.length a) →
      Inv B (l.foldl (fun g kc => addCall id g kc.1 kc.2) g) ∧
      shape B.length k (l.foldl (fun g kc => addCall id g kc.1 kc.2) g).edges =
        shape B.length k g.edges ++ l.flatMap (fun tc => if tc.1 = k then callShape tc.2 else []) := by
  induction l with
  | nil => intro g hg _; simp [hg]
  | cons tc rest ih =>
    intro g hg hl
    obtain ⟨ht, hc⟩ := hl tc (by simp)
    obtain ⟨h1, h1s⟩ := fold_items tc.1 ht k (items tc.2) g hg (items_lt _ _ hc)
    rw [← addCall_eq_items] at h1 h1s
    rw [← callShape_eq_items] at h1s
    obtain ⟨h2, h3⟩ := ih _ h1 (fun x hx => hl x (by simp [hx]))
    refine ⟨h2, ?_⟩
    simp only [List.foldl_cons, h3, h1s, List.flatMap_cons, List.append_assoc]

/-! ### The table `(List.range n).zip prog` -/

theorem mem_zip_range {prog : List PCall} {tc : Nat × PCall}
    (h : tc ∈ (List.range prog.length).zip prog) : prog[tc.1]? = some tc.2 := by
  obtain ⟨i, hi⟩ := List.mem_iff_getElem?.mp h
  rw [List.getElem?_zip_eq_some] at hi
  obtain ⟨h1, h2⟩ := hi
  have hi : i < prog.length := by
    rcases Nat.lt_or_ge i prog.length with h | h
    · exact h
    · rw [List.getElem?_eq_none h] at h2; cases h2
  rw [List.getElem?_range hi] at h1
  cases h1
  exact h2

theorem flatMap_zip_nil {β} (f : PCall → List β) (k : Nat) (tbl : List PCall) :
    ∀ off, k < off →
      ((List.range' off tbl.length).zip tbl).flatMap (fun tc => if tc.1 = k then f tc.2 else []) = [] := by
  induction tbl with
  | nil => intro off _; simp
  | cons c rest ih =>
    intro off h
    have hne : off ≠ k := by omega
    simp [List.range'_succ, hne, ih (off + 1) (by omega)]

theorem flatMap_zip {β} (f : PCall → List β) (k : Nat) (c : PCall) (tbl : List PCall) :
    ∀ off, off ≤ k → tbl[k - off]? = some c →
      ((List.range' off tbl.length).zip tbl).flatMap (fun tc => if tc.1 = k then f tc.2 else []) = f c := by
  induction tbl with
  | nil => intro off _ h; simp at h
  | cons c0 rest ih =>
    intro off hle h
    by_cases he : off = k
    · subst he
      simp at h
      subst h
      simp [List.range'_succ, flatMap_zip_nil f off rest (off + 1) (by omega)]
    · have : k - off = (k - (off + 1)) + 1 := by omega
      rw [this] at h
      simp at h
      simp [List.range'_succ, he, ih (off + 1) (by omega) h]

/-! ### Specialisation to `graphOf` -/

/-- the box nodes of `prog` -/
def boxesOf (prog : List PCall) : List Node :=
  (List.range prog.length).map (fun k => ⟨k, (prog.getD k ⟨"", [], []⟩).fn, true⟩)

theorem boxesOf_length (prog : List PCall) : (boxesOf prog).length = prog.length := by
  simp [boxesOf]

theorem boxesOf_getElem? (prog : List PCall) (k : Nat) (c : PCall) (h : prog[k]? = some c) :
    (boxesOf prog)[k]? = some ⟨k, c.fn, true⟩ := by
  have hk : k < prog.length := by
    rcases Nat.lt_or_ge k prog.length with h' | h'
    · exact h'
    · rw [List.getElem?_eq_none h'] at h; cases h
  simp [boxesOf, List.getElem?_range hk, List.getD_eq_getElem?_getD, h]

theorem graphOf_eq (prog : List PCall) :
    graphOf prog = ((List.range prog.length).zip prog).foldl (fun g kc => addCall id g kc.1 kc.2)
      { nodes := boxesOf prog } := rfl

theorem inv_boxes (prog : List PCall) : Inv (boxesOf prog) { nodes := boxesOf prog } := by
  refine ⟨⟨[], by simp, by simp⟩, by simp, ?_⟩
  intro i hi
  have : ¬ i < (boxesOf prog).length := by omega
  simp [this]

theorem graphOf_spec (prog : List PCall) (hwf : WfProg prog) (k : Nat) :
    Inv (boxesOf prog) (graphOf prog) ∧
    shape prog.length k (graphOf prog).edges =
      ((List.range prog.length).zip prog).flatMap (fun tc => if tc.1 = k then callShape tc.2 else []) := by
  have := fold_calls (B := boxesOf prog) k ((List.range prog.length).zip prog) _ (inv_boxes prog) (by
    intro tc htc
    have h1 := mem_zip_range htc
    have hk : tc.1 < prog.length := by
      rcases Nat.lt_or_ge tc.1 prog.length with h' | h'
      · exact h'
      · rw [List.getElem?_eq_none h'] at h1; cases h1
    rw [boxesOf_length]
    refine ⟨hk, ?_⟩
    intro a ha j hj
    have := hwf tc.1 tc.2 h1 a ha j hj
    omega)
  rw [← graphOf_eq, boxesOf_length] at this
  obtain ⟨h1, h2⟩ := this
  refine ⟨h1, ?_⟩
  rw [h2]
  simp [shape]

/-- the node part of the invariant does not need well-formedness: rerun the fold keeping only the
    node component. -/
structure NInv (B : List Node) (g : Graph) : Prop where
  nodes : ∃ ex, g.nodes = B ++ ex ∧ ∀ i n, ex[i]? = some n → n.id = B.length + i ∧ n.box = false

theorem ninv_addElement {B : List Node} {g : Graph} (h : NInv B g) (t : Nat)
    (l : String) (a : PArg) : NInv B (addElement id g t l a) := by
  obtain ⟨ex, he, hex⟩ := h.nodes
  cases a with
  | fut j => exact ⟨⟨ex, he, hex⟩⟩
  | futs js => exact ⟨⟨ex, he, hex⟩⟩
  | val r =>
    refine ⟨⟨ex ++ [⟨g.nodes.length, r, false⟩], by simp [addElement, he], ?_⟩⟩
    intro i n hn
    rw [List.getElem?_append] at hn
    split at hn
    · exact hex i n hn
    · rename_i hlt
      have : i = ex.length := by
        rcases Nat.lt_or_ge (i - ex.length) 1 with h1 | h1
        · omega
        · rw [List.getElem?_eq_none (by simpa using h1)] at hn; cases hn
      subst this
      simp at hn
      subst hn
      simp [he]

theorem ninv_items {B : List Node} (t : Nat) (its : List (String × PArg)) :
    ∀ g, NInv B g → NInv B (its.foldl (fun g kv => addElement id g t kv.1 kv.2) g) := by
  induction its with
  | nil => intro g hg; exact hg
  | cons kv rest ih => intro g hg; exact ih _ (ninv_addElement hg t kv.1 kv.2)

theorem ninv_calls {B : List Node} (l : List (Nat × PCall)) :
    ∀ g, NInv B g → NInv B (l.foldl (fun g kc => addCall id g kc.1 kc.2) g) := by
  induction l with
  | nil => intro g hg; exact hg
  | cons tc rest ih =>
    intro g hg
    have := ninv_items tc.1 (items tc.2) g hg
    rw [← addCall_eq_items] at this
    exact ih _ this

theorem ninv_graphOf (prog : List PCall) : NInv (boxesOf prog) (graphOf prog) := by
  rw [graphOf_eq]
  exact ninv_calls _ _ ⟨⟨[], by simp, by simp⟩⟩

theorem boxesOf_box (prog : List PCall) : ∀ n ∈ boxesOf prog, n.box = true := by
  intro n hn
  simp only [boxesOf, List.mem_map] at hn
  obtain ⟨k, _, rfl⟩ := hn
  rfl

theorem boxesOf_id (prog : List PCall) (i : Nat) (n : Node) (h : (boxesOf prog)[i]? = some n) :
    n.id = i := by
  simp only [boxesOf, List.getElem?_map, Option.map_eq_some_iff] at h
  obtain ⟨k, hk, rfl⟩ := h
  have hi : i < prog.length := by
    rcases Nat.lt_or_ge i prog.length with h' | h'
    · exact h'
    · rw [List.getElem?_eq_none (by simpa using h')] at hk; cases hk
  rw [List.getElem?_range hi] at hk
  cases hk
  rfl

/-! ### The theorems of C20 -/

/-- exactly one box node per submitted call: box `k` is submission `k`, named after its function; all other nodes are circles -/
theorem boxes_eq_calls (prog : List PCall) :
    ((graphOf prog).nodes.filter (·.box)).length = prog.length ∧
    ∀ (k : Nat) (c : PCall), prog[k]? = some c → (graphOf prog).nodes[k]? = some ⟨k, c.fn, true⟩ := by
  obtain ⟨ex, he, hex⟩ := (ninv_graphOf prog).nodes
  constructor
  · rw [he, List.filter_append]
    have h1 : (boxesOf prog).filter (·.box) = boxesOf prog := by
      rw [List.filter_eq_self]; exact boxesOf_box prog
    have h2 : ex.filter (·.box) = [] := by
      rw [List.filter_eq_nil_iff]
      intro n hn
      obtain ⟨i, hi⟩ := List.mem_iff_getElem?.mp hn
      simp [(hex i n hi).2]
    rw [h1, h2, List.append_nil, boxesOf_length]
  · intro k c h
    have hb := boxesOf_getElem? prog k c h
    rw [he, List.getElem?_append]
    have hk : k < (boxesOf prog).length := by
      rcases Nat.lt_or_ge k (boxesOf prog).length with h' | h'
      · exact h'
      · rw [List.getElem?_eq_none h'] at hb; cases hb
    rw [if_pos hk]; exact hb

/-- node ids are positions in the node list -/
theorem node_ids (prog : List PCall) :
    ∀ (i : Nat) (n : Node), (graphOf prog).nodes[i]? = some n → n.id = i := by
  obtain ⟨ex, he, hex⟩ := (ninv_graphOf prog).nodes
  intro i n h
  rw [he, List.getElem?_append] at h
  split at h
  · exact boxesOf_id prog i n h
  · have := (hex _ n h).1
    omega

/-- one incoming edge per argument of the call (one per element for a list of futures): from the box of the
    producing submission for futures, from a value node otherwise, labelled with the keyword name, in argument order -/
theorem edges_per_argument (prog : List PCall) (hwf : WfProg prog) (k : Nat) (c : PCall) (h : prog[k]? = some c) :
    ((graphOf prog).edges.filter (fun e => e.stop == k)).map
        (fun e => (if e.start < prog.length then some e.start else none, e.label)) = callShape c := by
  have h2 := (graphOf_spec prog hwf k).2
  rw [List.range_eq_range', flatMap_zip callShape k c prog 0 (Nat.zero_le _) (by simpa using h)] at h2
  exact h2

/-- every value node is a circle created for one argument: it has exactly one outgoing edge and no incoming one -/
theorem value_nodes (prog : List PCall) (hwf : WfProg prog) :
    ∀ n ∈ (graphOf prog).nodes, n.box = false →
      prog.length ≤ n.id ∧ ((graphOf prog).edges.filter (fun e => e.start == n.id)).length = 1 ∧
      ((graphOf prog).edges.filter (fun e => e.stop == n.id)).length = 0 := by
  have hinv := (graphOf_spec prog hwf 0).1
  obtain ⟨ex, he, hex⟩ := hinv.nodes
  intro n hn hbox
  rw [he, List.mem_append] at hn
  rcases hn with hn | hn
  · have := boxesOf_box prog n hn
    rw [hbox] at this; cases this
  · obtain ⟨i, hi⟩ := List.mem_iff_getElem?.mp hn
    have hid := (hex i n hi).1
    have hilt : i < ex.length := by
      rcases Nat.lt_or_ge i ex.length with h' | h'
      · exact h'
      · rw [List.getElem?_eq_none h'] at hi; cases hi
    rw [boxesOf_length] at hid
    refine ⟨by omega, ?_, ?_⟩
    · have := hinv.out n.id (by rw [boxesOf_length]; omega)
      rw [this, he, List.length_append, boxesOf_length, if_pos (by omega)]
    · rw [List.length_eq_zero_iff, List.filter_eq_nil_iff]
      intro e hm
      have := hinv.stop e hm
      rw [boxesOf_length] at this
      simp; omega

end ExecModel.C20
