import ExecModel.Proofs.SysRun
import ExecModel.Proofs.SysLiveDefs
/-!
  Accepted calls fit.  `ExecutorBase.submit` refuses (label `mSubmitRaise`) a call whose slots exceed
  `max_cores` (`submitTooBig`), so only calls that pass the test ever get a future — `AccFits`, an
  invariant of every reachable state.  With the limit-level hypothesis `WfLim` (a block allocation
  has a worker; a `max_workers` limit without `max_cores` allows one worker) every accepted call
  then fits the dispatcher's empty table (`fits_of_accFits`), which is all the progress theorem
  needs of the old per-program hypothesis `WfRes` (`FitHyp`).
-/
set_option linter.unusedSimpArgs false
set_option linter.unusedVariables false
namespace ExecModel.Sys

variable {Val Err : Type}
variable (cfg : Cfg) (eval : Nat → List Val → Except Err Val) (cancelErr : Err)

/-- Hypothesis about the executor's limits only (nothing about the program): a block allocation
    has at least one worker (finding D11), and a `max_workers` limit that is the only limit allows
    at least one worker (otherwise `_wait_for_free_slots` spins forever on the first call: D10). -/
def WfLim (cfg : Cfg) : Prop :=
  (∀ n, cfg.block = some n → 0 < n) ∧
  (cfg.maxCores = none → ∀ mw, cfg.maxWorkers = some mw → 1 ≤ mw)

/-- Every accepted call (one that has a future) passed the size test of `submit`. -/
def AccFits (cfg : Cfg) (s : State Val Err) : Prop :=
  ∀ i, futOf s i ≠ .absent → submitTooBig cfg (cfg.calls.getD i {}) = false

/-- What the progress theorem needs to know about requests and limits in state `s`: a block
    allocation has a worker, and in per-call mode every accepted call fits the empty table. -/
structure FitHyp (cfg : Cfg) (s : State Val Err) : Prop where
  pos : ∀ n, cfg.block = some n → 0 < n
  fit : ∀ i, futOf s i ≠ .absent → cfg.block = none →
    fits cfg [] (slotsOf cfg (cfg.calls.getD i {})) = true

/-! ### a future becomes pending only through an accepted `submit` -/

/-- every future pending after the step was pending before, or belongs to a call that passed the
    size test -/
def NewPending (s s' : State Val Err) : Prop :=
  ∀ j, futOf s' j = .pending → futOf s j = .pending ∨ submitTooBig cfg (cfg.calls.getD j {}) = false

theorem np_of_fut_eq {s s' : State Val Err} (h : s'.fut = s.fut) : NewPending cfg s s' := by
  intro j hj
  left
  simpa [futOf, h] using hj

theorem np_of_fut_set {s s' : State Val Err} {i : Nat} {f : Fut Val Err}
    (h : s'.fut = s.fut.set i f) (hf : f ≠ .pending) : NewPending cfg s s' := by
  intro j hj
  left
  have e : futOf s' j = futOf (setFut s i f) j := by simp [futOf, setFut, h]
  rw [e, futOf_setFut] at hj
  split at hj
  · exact absurd hj hf
  · exact hj

theorem np_of_submit {s s' : State Val Err} {i : Nat}
    (h : s'.fut = s.fut.set i .pending) (hg : submitTooBig cfg (cfg.calls.getD i {}) = false) :
    NewPending cfg s s' := by
  intro j hj
  have e : futOf s' j = futOf (setFut s i .pending) j := by simp [futOf, setFut, h]
  rw [e, futOf_setFut] at hj
  split at hj
  · rename_i hij; right; rw [← hij.1]; exact hg
  · left; exact hj

theorem np_of_sdStep {s s1 s' : State Val Err} {sd : Sd} {l : Label Val Err}
    {r : Except Err (Option Sd)} (h : sdStep cfg s sd l = some (s1, r)) (hf : s'.fut = s1.fut) :
    NewPending cfg s s' := by
  obtain ⟨-, -, -, -, h5⟩ := sdStep_effect cfg h
  rcases h5 with ⟨e, -⟩ | ⟨i, -, e, -⟩
  · exact np_of_fut_eq cfg (by rw [hf, e])
  · exact np_of_fut_set cfg (i := i) (f := .cancelled) (by rw [hf, e]) (by intro hh; cases hh)

theorem np_workerStep {s s' : State Val Err} {k : Nat} {l : Label Val Err}
    (h : workerStep eval s k l = some s') : NewPending cfg s s' := by
  unfold workerStep at h
  split at h
  · cases h
  split_step h
  all_goals (simp only [Option.some.injEq] at h; subst h)
  all_goals (first
    | (refine np_of_fut_eq cfg ?_; simp; done)
    | (refine np_of_fut_set cfg (i := _) (f := _) rfl ?_; intro hh; cases hh))

theorem np_dispStep {s s' : State Val Err} {l : Label Val Err}
    (h : dispStep cfg s l = some s') : NewPending cfg s s' := by
  unfold dispStep at h
  split at h
  · cases h
  split_step h
  all_goals (simp only [Option.some.injEq] at h; subst h)
  all_goals (refine np_of_fut_eq cfg ?_; simp; done)

theorem np_resStep {s s' : State Val Err} {l : Label Val Err}
    (h : resStep cfg cancelErr s l = some s') : NewPending cfg s s' := by
  unfold resStep at h
  split at h
  · cases h
  split_step h
  all_goals (simp only [Option.some.injEq] at h; subst h)
  all_goals (first
    | (refine np_of_fut_eq cfg ?_; simp; done)
    | (refine np_of_fut_set cfg (i := _) (f := _) rfl ?_; intro hh; cases hh)
    | (refine np_of_sdStep cfg ‹sdStep cfg s _ _ = some _› ?_; simp; done))

theorem np_mainStep {s s' : State Val Err} {l : Label Val Err}
    (h : mainStep cfg s l = some s') : NewPending cfg s s' := by
  unfold mainStep at h
  split_step h
  all_goals (simp only [Option.some.injEq] at h; subst h)
  all_goals (first
    | (refine np_of_fut_eq cfg ?_; simp; done)
    | (refine np_of_fut_set cfg (i := _) (f := _) rfl ?_; intro hh; cases hh)
    | (refine np_of_sdStep cfg ‹sdStep cfg s _ _ = some _› ?_; simp; done)
    | (refine np_of_submit cfg (i := s.nsub) ?_ ?_
       · simp
       · rename_i hg; exact hg.2.2.2))

theorem np_step {s s' : State Val Err} {l : Label Val Err}
    (h : step cfg eval cancelErr s l = some s') : NewPending cfg s s' := by
  unfold step at h
  split at h
  all_goals first
    | exact np_mainStep cfg h
    | exact np_resStep cfg cancelErr h
    | exact np_dispStep cfg h
    | exact np_workerStep cfg eval h

theorem futStep_absent {f : Fut Val Err} (h : FutStep .absent f) : f = .absent ∨ f = .pending := by
  cases h
  · left; rfl
  · right; rfl

/-! ### `AccFits` is an invariant -/

theorem accFits_step {s s' : State Val Err} {l : Label Val Err} (hC : Core s) (hF : AccFits cfg s)
    (h : step cfg eval cancelErr s l = some s') : AccFits cfg s' := by
  intro i ha
  by_cases h0 : futOf s i = .absent
  · obtain ⟨-, -, hfs⟩ := core_step_facts cfg eval cancelErr hC h
    have hs := (hfs i).1
    rw [h0] at hs
    rcases futStep_absent hs with hs | hs
    · exact absurd hs ha
    · rcases np_step cfg eval cancelErr h i hs with hp | hp
      · rw [h0] at hp; cases hp
      · exact hp
  · exact hF i h0

theorem accFits_init (script : List Cmd) : AccFits cfg (init cfg script : State Val Err) := by
  intro i ha
  exact absurd ((core_init cfg script).futWf i (Nat.zero_le _)) ha

theorem accFits_run {s0 s : State Val Err} (ls : List (Label Val Err)) (hC : Core s0)
    (hF : AccFits cfg s0) (h : run cfg eval cancelErr s0 ls = some s) : AccFits cfg s := by
  induction ls generalizing s0 with
  | nil => simp [run] at h; subst h; exact hF
  | cons l ls ih =>
    simp only [run, Option.bind_eq_some_iff] at h
    obtain ⟨s1, h1, h2⟩ := h
    exact ih (core_step cfg eval cancelErr hC h1) (accFits_step cfg eval cancelErr hC hF h1) h2

/-- **In every reachable state every accepted call passed the size test of `submit`.** -/
theorem accFits_reachable {script : List Cmd} {s : State Val Err}
    (h : Reachable cfg eval cancelErr script s) : AccFits cfg s := by
  obtain ⟨ls, hls⟩ := h
  exact accFits_run cfg eval cancelErr ls (core_init cfg script) (accFits_init cfg script) hls

/-! ### from the size test to the dispatcher's loop condition -/

/-- In per-call mode a call that passed the size test fits the empty active table, given `WfLim`. -/
theorem fits_of_accFits {cfg : Cfg} (hl : WfLim cfg) (hb : cfg.block = none) {s : State Val Err}
    (hF : AccFits cfg s) {i : Nat} (ha : futOf s i ≠ .absent) :
    fits cfg [] (slotsOf cfg (cfg.calls.getD i {})) = true := by
  have h := hF i ha
  unfold submitTooBig at h
  unfold fits activeSum
  cases hmc : cfg.maxCores with
  | some mc =>
    simp only [hb, hmc, decide_eq_false_iff_not, Nat.not_lt] at h
    simp only [List.map_nil, List.sum_nil, Nat.zero_add, decide_eq_true_eq]
    exact h
  | none =>
    cases hmw : cfg.maxWorkers with
    | some mw =>
      have := hl.2 hmc mw hmw
      simp only [List.length_nil, Nat.zero_add, decide_eq_true_eq]
      exact this
    | none => rfl

/-- the old hypothesis gives the fit of every call of the program directly -/
theorem accFitsAll_of_wfRes {cfg : Cfg} (hres : WfRes cfg) :
    ∀ c ∈ cfg.calls, fits cfg [] (slotsOf cfg c) = true := hres.1

/-- `WfRes → WfLim` is false in general (counterexample below: `max_workers = 0`, no `max_cores`,
    empty program), but holds as soon as the program has a call. -/
theorem wfLim_of_wfRes_nonempty {cfg : Cfg} (hres : WfRes cfg) (hne : cfg.calls ≠ []) : WfLim cfg := by
  refine ⟨hres.2, ?_⟩
  intro hmc mw hmw
  cases hc : cfg.calls with
  | nil => exact absurd hc hne
  | cons c rest =>
    have := hres.1 c (by rw [hc]; exact List.mem_cons_self)
    simpa [fits, hmc, hmw] using this

/-- the counterexample: `WfRes` holds vacuously, `WfLim` fails -/
theorem wfRes_not_wfLim :
    WfRes { resolver := false, block := none, maxWorkers := some 0, calls := [] } ∧
    ¬ WfLim { resolver := false, block := none, maxWorkers := some 0, calls := [] } := by
  refine ⟨⟨?_, ?_⟩, ?_⟩
  · intro c hc; cases hc
  · intro n hn; cases hn
  · intro h
    have := h.2 rfl 0 rfl
    omega

theorem fitHyp_of_wfLim {cfg : Cfg} (hl : WfLim cfg) {s : State Val Err} (hF : AccFits cfg s) :
    FitHyp cfg s :=
  ⟨hl.1, fun _ ha hb => fits_of_accFits hl hb hF ha⟩

/-- `WfRes` gives `FitHyp` in every state whose future table has the length of the program. -/
theorem fitHyp_of_wfRes {cfg : Cfg} (hres : WfRes cfg) {s : State Val Err}
    (hlen : s.fut.length = cfg.calls.length) : FitHyp cfg s := by
  refine ⟨hres.2, ?_⟩
  intro i ha _
  have hlt : i < cfg.calls.length := by rw [← hlen]; exact lt_of_futOf_ne_absent ha
  have hmem : cfg.calls.getD i {} ∈ cfg.calls := by
    simp [List.getD_eq_getElem?_getD, List.getElem?_eq_getElem hlt]
  exact hres.1 _ hmem

end ExecModel.Sys
