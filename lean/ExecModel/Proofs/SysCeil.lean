import ExecModel.Proofs.SysRun
/-!
  C07 (resource ceiling) and C11 (one call per worker process without block allocation) for `Sys`.

  Per-call mode (`cfg.block = none`): the invariant `PC` says
  * every task in the private queue `qp[i]` is call `i`, every worker sits on a private queue
    `.priv i` and holds nothing but call `i`;
  * the dispatcher's request is the slot count of the call it holds;
  * the entries `(i, slots i)` of the workers whose call is not yet done (`live`) form a sublist of
    the dispatcher's active table, whose weight respects the configured limit;
  * `served.length + cnt s i ≤ 1 + post w` for a worker on `.priv i` (so a process is used once).
  Block mode: the worker table keeps its length `n`.
-/
set_option linter.unusedSimpArgs false
set_option linter.unusedVariables false
namespace ExecModel.Sys

variable {Val Err : Type}
variable (cfg : Cfg) (eval : Nat → List Val → Except Err Val) (cancelErr : Err)

/-- slots in use by a worker: those of the call it is executing right now -/
def execSlots (cfg : Cfg) (w : Worker Val Err) : Nat :=
  match w.pc with
  | .sent i _ => slotsOf cfg (cfg.calls.getD i {})
  | _ => 0
def execSum (cfg : Cfg) (s : State Val Err) : Nat := (s.wk.map (execSlots cfg)).sum
def executing (w : Worker Val Err) : Bool := match w.pc with | .sent _ _ => true | _ => false
def execCount (s : State Val Err) : Nat := (s.wk.filter executing).length

/-! ### list facts -/

theorem sublist_eraseIdx_of_not_mem {α : Type} {l₁ l₂ : List α} {k : Nat} {x : α}
    (h : l₁.Sublist l₂) (hk : l₂[k]? = some x) (hx : x ∉ l₁) : l₁.Sublist (l₂.eraseIdx k) := by
  induction h generalizing k with
  | slnil => simp at hk
  | cons a h ih =>
    cases k with
    | zero => simpa using h
    | succ k =>
      simp only [List.getElem?_cons_succ] at hk
      simpa using List.Sublist.cons a (ih hk hx)
  | cons_cons a h ih =>
    cases k with
    | zero =>
      simp only [List.getElem?_cons_zero, Option.some.injEq] at hk
      subst hk; simp at hx
    | succ k =>
      simp only [List.getElem?_cons_succ] at hk
      have hx' : x ∉ _ := fun hm => hx (List.mem_cons_of_mem _ hm)
      simpa using List.Sublist.cons_cons a (ih hk hx')

theorem filterMap_sublist_of_imp {α β : Type} (g g' : α → Option β) (l : List α)
    (h : ∀ x ∈ l, g' x = g x ∨ g' x = none) : (l.filterMap g').Sublist (l.filterMap g) := by
  induction l with
  | nil => simp
  | cons a l ih =>
    have ih' := ih (fun x hx => h x (List.mem_cons_of_mem _ hx))
    rcases h a (List.mem_cons_self) with h1 | h1
    · simp only [List.filterMap_cons, h1]
      cases g a with
      | none => exact ih'
      | some b => exact List.Sublist.cons_cons b ih'
    · simp only [List.filterMap_cons, h1]
      cases g a with
      | none => exact ih'
      | some b => exact List.Sublist.cons b ih'

theorem sum_map_sublist {α : Type} (f : α → Nat) {l₁ l₂ : List α} (h : l₁.Sublist l₂) :
    (l₁.map f).sum ≤ (l₂.map f).sum := by
  induction h with
  | slnil => simp
  | cons a h ih => simp only [List.map_cons, List.sum_cons]; omega
  | cons_cons a h ih => simp only [List.map_cons, List.sum_cons]; omega

theorem sum_le_filterMap {α β : Type} (f : α → Nat) (g : α → Option β) (hh : β → Nat) (l : List α)
    (h : ∀ x ∈ l, f x = 0 ∨ ∃ y, g x = some y ∧ f x ≤ hh y) :
    (l.map f).sum ≤ ((l.filterMap g).map hh).sum := by
  induction l with
  | nil => simp
  | cons a l ih =>
    have ih' := ih (fun x hx => h x (List.mem_cons_of_mem _ hx))
    rcases h a (List.mem_cons_self) with h1 | ⟨y, h1, h2⟩
    · simp only [List.map_cons, List.sum_cons, List.filterMap_cons, h1]
      cases g a with
      | none => simpa using ih'
      | some b => simp only [List.map_cons, List.sum_cons]; omega
    · simp only [List.map_cons, List.sum_cons, List.filterMap_cons, h1]
      omega

theorem filter_length_le_filterMap {α β : Type} (p : α → Bool) (g : α → Option β) (l : List α)
    (h : ∀ x ∈ l, p x = true → ∃ y, g x = some y) :
    (l.filter p).length ≤ (l.filterMap g).length := by
  induction l with
  | nil => simp
  | cons a l ih =>
    have ih' := ih (fun x hx => h x (List.mem_cons_of_mem _ hx))
    cases hp : p a with
    | false =>
      simp only [List.filter_cons, hp, List.filterMap_cons]
      cases g a with
      | none => simpa using ih'
      | some b => simp only [List.length_cons]; simp at ih' ⊢; omega
    | true =>
      obtain ⟨y, hy⟩ := h a (List.mem_cons_self) hp
      simp only [List.filter_cons, hp, List.filterMap_cons, hy, if_true, List.length_cons]
      omega

theorem map_set_same {α β : Type} (f : α → β) {l : List α} {k : Nat} {a b : α}
    (hk : l[k]? = some a) (hf : f b = f a) : (l.set k b).map f = l.map f := by
  induction l generalizing k with
  | nil => simp at hk
  | cons x l ih =>
    cases k with
    | zero =>
      simp only [List.getElem?_cons_zero, Option.some.injEq] at hk; subst hk
      simp [hf]
    | succ k =>
      simp only [List.getElem?_cons_succ] at hk
      simp [ih hk]

theorem lt_of_getElem?_some {α : Type} {l : List α} {k : Nat} {a : α} (h : l[k]? = some a) :
    k < l.length := by
  rcases Nat.lt_or_ge k l.length with h1 | h1
  · exact h1
  · simp [List.getElem?_eq_none h1] at h

/-! ### the per-call invariant -/

/-- every task in the private queue of call `i` is call `i` -/
def QpOk (qp : List (Queue Val)) : Prop :=
  ∀ i' j vs, Item.task j vs ∈ (qp.getD i' {}).items → j = i'

/-- a worker on `.priv i'` holds no call but `i'` -/
def pcOk (i' : Nat) : WPc Val Err → Prop
  | .gotTask j _ | .toSend j _ | .sent j _ | .failB j _ | .failC j _ => j = i'
  | _ => True

/-- the process of the worker has received its call (and the token is still with the worker) -/
def post (w : Worker Val Err) : Nat :=
  match w.pc with
  | .sent _ _ | .failB _ _ | .failC _ _ => 1
  | _ => 0

/-- entry of the active table that stands for a worker thread on queue `q` -/
def entry (cfg : Cfg) (s : State Val Err) (q : QId) : Option (Nat × Nat) :=
  match q with
  | .priv i => if (futOf s i).done then none else some (i, slotsOf cfg (cfg.calls.getD i {}))
  | _ => none

def live (cfg : Cfg) (s : State Val Err) : List (Nat × Nat) :=
  (s.wk.map (·.q)).filterMap (entry cfg s)

def Bnd (cfg : Cfg) (a : List (Nat × Nat)) : Prop :=
  (∀ mc, cfg.maxCores = some mc → activeSum a ≤ mc) ∧
  (cfg.maxCores = none → ∀ mw, cfg.maxWorkers = some mw → a.length ≤ mw)

structure PC (cfg : Cfg) (s : State Val Err) : Prop where
  qp : QpOk s.qp
  wk : ∀ (k : Nat) (w : Worker Val Err), s.wk[k]? = some w → ∃ i', w.q = .priv i' ∧ pcOk i' w.pc
  dpc : ∀ i vs req, s.disp = some (.waitSlots i vs req) → req = slotsOf cfg (cfg.calls.getD i {})
  live : (live cfg s).Sublist s.active
  bnd : Bnd cfg s.active
  once : ∀ (k : Nat) (w : Worker Val Err) (i' : Nat), s.wk[k]? = some w → w.q = .priv i' →
    i' < s.nsub ∧ w.served.length + cnt s i' ≤ 1 + post w

/-! ### queues -/

theorem qpok_set {qp : List (Queue Val)} (h : QpOk qp) (i : Nat) (v : Queue Val)
    (hv : ∀ j vs, Item.task j vs ∈ v.items → j = i) : QpOk (qp.set i v) := by
  intro i' j vs hm
  simp only [List.getD_eq_getElem?_getD, List.getElem?_set] at hm
  split at hm
  · rename_i hii; subst hii
    split at hm
    · exact hv j vs (by simpa using hm)
    · simp at hm
  · exact h i' j vs (by simpa [List.getD_eq_getElem?_getD] using hm)

theorem qpok_setQ {s : State Val Err} (h : QpOk s.qp) (q : QId) (v : Queue Val)
    (hv : ∀ j vs, Item.task j vs ∈ v.items → Item.task j vs ∈ (getQ s q).items) :
    QpOk (setQ s q v).qp := by
  cases q with
  | outer => exact h
  | inner => exact h
  | priv i => exact qpok_set h i v (fun j vs hm => h i j vs (hv j vs hm))

theorem qpok_taskDone {s : State Val Err} (h : QpOk s.qp) (q : QId) : QpOk (taskDone s q).qp := by
  unfold taskDone
  exact qpok_setQ h q _ (fun j vs hm => hm)

theorem qp_setQ_frontQ (s : State Val Err) (v : Queue Val) : (setQ s (frontQ cfg) v).qp = s.qp := by
  unfold frontQ; split <;> rfl

/-! ### effect of the steps of each thread on the fields the invariant talks about -/

theorem sdStep_eff2 {s s1 : State Val Err} {sd : Sd} {l : Label Val Err} {r : Except Err (Option Sd)}
    (h : sdStep cfg s sd l = some (s1, r)) :
    s1.active = s.active ∧ s1.disp = s.disp ∧ (QpOk s.qp → QpOk s1.qp) := by
  unfold sdStep at h
  split_step h
  all_goals (simp only [Option.some.injEq, Prod.mk.injEq] at h; obtain ⟨h, -⟩ := h; subst h)
  all_goals (refine ⟨?_, ?_, ?_⟩)
  all_goals (first
    | (simp; done)
    | (intro hQ
       first
       | exact hQ
       | exact qpok_taskDone hQ _
       | (apply qpok_setQ hQ; intro j vs hm; simp_all [Queue.put]; done)))

theorem mainStep_eff {s s' : State Val Err} {l : Label Val Err} (h : mainStep cfg s l = some s') :
    s'.wk = s.wk ∧ s'.active = s.active ∧ s'.disp = s.disp ∧ (QpOk s.qp → QpOk s'.qp) := by
  unfold mainStep at h
  split_step h
  all_goals (simp only [Option.some.injEq] at h; subst h)
  all_goals (first
    | (rename_i hsd
       have e := sdStep_eff2 cfg hsd
       have e' := sdStep_effect cfg hsd
       obtain ⟨e1, e2, e3⟩ := e
       obtain ⟨-, f2, -⟩ := e'
       exact ⟨f2, e1, e2, e3⟩)
    | (refine ⟨?_, ?_, ?_, ?_⟩
       all_goals (first
         | (simp; done)
         | (intro hQ; exact hQ)
         | (intro hQ; simp only [qp_setQ_frontQ]; exact hQ))))

theorem resStep_eff {s s' : State Val Err} {l : Label Val Err} (h : resStep cfg cancelErr s l = some s') :
    s'.wk = s.wk ∧ s'.active = s.active ∧ s'.disp = s.disp ∧ (QpOk s.qp → QpOk s'.qp) := by
  unfold resStep at h
  split at h
  · cases h
  split_step h
  all_goals (simp only [Option.some.injEq] at h; subst h)
  all_goals (first
    | (rename_i hsd
       have e := sdStep_eff2 cfg hsd
       have e' := sdStep_effect cfg hsd
       obtain ⟨e1, e2, e3⟩ := e
       obtain ⟨-, f2, -⟩ := e'
       exact ⟨f2, e1, e2, e3⟩)
    | (refine ⟨?_, ?_, ?_, ?_⟩
       all_goals (first
         | (simp; done)
         | (intro hQ; exact hQ)
         | (intro hQ; exact qpok_taskDone hQ _))))

theorem pcOk_head {s : State Val Err} {q : QId} {i' i : Nat} {vs : List Val} {rest : List (Item Val)}
    (hQ : QpOk s.qp) (hq : q = .priv i') (hh : (getQ s q).items = .task i vs :: rest) : i = i' := by
  subst hq
  refine hQ i' i vs ?_
  simp only [getQ] at hh
  rw [hh]; exact List.mem_cons_self

theorem workerStep_eff {s s' : State Val Err} {k : Nat} {l : Label Val Err}
    (h : workerStep eval s k l = some s') :
    ∃ w w', s.wk[k]? = some w ∧ s'.wk = s.wk.set k w' ∧ w'.q = w.q ∧ s'.active = s.active ∧
      s'.disp = s.disp ∧ (QpOk s.qp → QpOk s'.qp) ∧
      (∀ i', w.q = .priv i' → QpOk s.qp → pcOk i' w.pc → pcOk i' w'.pc) ∧
      (∀ i', pcOk i' w.pc →
        (w'.served.length + post w ≤ w.served.length + post w') ∨
        (w'.served.length + wkCnt i' w' + post w ≤ w.served.length + wkCnt i' w + post w')) := by
  unfold workerStep at h
  split at h
  · cases h
  rename_i w hk
  split_step h
  all_goals (simp only [Option.some.injEq] at h; subst h)
  all_goals (refine ⟨w, ?_, hk, ?_, ?_⟩)
  all_goals (first
    | (simp only [setWk_wk, setQ_wk, taskDone_wk, setFut_wk]; rfl)
    | skip)
  all_goals (first
    | (refine ⟨rfl, ?_, ?_, ?_, ?_, ?_⟩
       · simp
       · simp
       · intro hQ
         first
         | exact hQ
         | exact qpok_taskDone hQ _
         | (apply qpok_setQ hQ; intro j vs hm; simp_all; done)
       · intro i' hq hQ hp
         first
         | (simp_all [pcOk]; done)
         | (simp only [pcOk]; apply pcOk_head hQ hq; assumption)
       · intro i' hp
         first
         | (left; simp_all [post]; done)
         | (right; simp_all [post, wkCnt, wpcCnt, pcOk]; done))
    | skip)

/-- The three kinds of dispatcher steps. -/
theorem dispStep_eff {s s' : State Val Err} {l : Label Val Err} (h : dispStep cfg s l = some s') :
    s'.fut = s.fut ∧
    ((s'.wk = s.wk ∧ s'.active = s.active ∧ s'.qp = s.qp ∧
        (∀ i vs req, s'.disp = some (.waitSlots i vs req) → req = slotsOf cfg (cfg.calls.getD i {}))) ∨
     (∃ k j x, s.active[k]? = some (j, x) ∧ (futOf s j).done = true ∧ s'.active = s.active.eraseIdx k ∧
        s'.wk = s.wk ∧ s'.qp = s.qp ∧ s'.disp = s.disp) ∨
     (∃ i vs req, s.disp = some (.waitSlots i vs req) ∧ fits cfg s.active req = true ∧
        s'.active = s.active ++ [(i, req)] ∧
        s'.qp = s.qp.set i { items := [.task i vs, .stop true], unfin := 2 } ∧
        s'.wk = s.wk ++ [{ q := .priv i }] ∧ s'.disp = some .needAck)) := by
  unfold dispStep at h
  split at h
  · cases h
  split_step h
  all_goals (simp only [Option.some.injEq] at h; subst h)
  all_goals (refine ⟨rfl, ?_⟩)
  all_goals (first
    | (left
       refine ⟨rfl, rfl, rfl, ?_⟩
       intro i vs req hd
       first
       | (simp at hd; done)
       | (simp at hd; obtain ⟨rfl, -, rfl⟩ := hd; rfl)
       | (simp at hd; split at hd <;> simp at hd; done))
    | (right; left
       apply Exists.intro; apply Exists.intro; apply Exists.intro
       refine ⟨?_, ?_, rfl, rfl, rfl, rfl⟩ <;> assumption)
    | (right; right
       apply Exists.intro; apply Exists.intro; apply Exists.intro
       refine ⟨?_, ?_, rfl, rfl, rfl, rfl⟩ <;> assumption)
    | skip)

/-! ### preservation of the invariant -/

theorem done_mono {f f' : Fut Val Err} (h : FutStep f f') (hd : f.done = true) : f'.done = true := by
  cases h <;> simp_all [Fut.done]

theorem live_mono {s s' : State Val Err} (hq : s'.wk.map (·.q) = s.wk.map (·.q))
    (hf : ∀ j, FutStep (futOf s j) (futOf s' j)) : (live cfg s').Sublist (live cfg s) := by
  unfold live
  rw [hq]
  apply filterMap_sublist_of_imp
  intro q _
  cases q with
  | priv i =>
    simp only [entry]
    by_cases hd : (futOf s i).done = true
    · right; simp [done_mono (hf i) hd]
    · by_cases hd' : (futOf s' i).done = true
      · right; simp [hd']
      · left; simp [hd, hd']
  | outer => left; rfl
  | inner => left; rfl

theorem not_mem_live_of_done {s : State Val Err} {j x : Nat} (hd : (futOf s j).done = true) :
    (j, x) ∉ live cfg s := by
  intro hm
  unfold live at hm
  rw [List.mem_filterMap] at hm
  obtain ⟨q, -, hq⟩ := hm
  cases q with
  | priv i =>
    simp only [entry] at hq
    split at hq
    · cases hq
    · simp only [Option.some.injEq, Prod.mk.injEq] at hq
      obtain ⟨rfl, -⟩ := hq
      simp_all
  | outer => simp [entry] at hq
  | inner => simp [entry] at hq

def Once (s : State Val Err) : Prop :=
  ∀ (k : Nat) (w : Worker Val Err) (i' : Nat), s.wk[k]? = some w → w.q = .priv i' →
    i' < s.nsub ∧ w.served.length + cnt s i' ≤ 1 + post w

theorem cntLe_old {s s' : State Val Err} {i : Nat} (h : CntLe s s' i) (hi : i < s.nsub) :
    cnt s' i ≤ cnt s i ∧ i < s'.nsub := by
  unfold CntLe at h
  have : ¬ (i = s.nsub ∧ s'.nsub = s.nsub + 1) := by omega
  simp only [this, if_false] at h
  omega

theorem once_frame {s s' : State Val Err} (hO : Once s)
    (hwk : ∀ (k : Nat) (w : Worker Val Err), s'.wk[k]? = some w → s.wk[k]? = some w)
    (hcnt : ∀ i, CntLe s s' i) : Once s' := by
  intro k w i' hk hq
  obtain ⟨h1, h2⟩ := hO k w i' (hwk k w hk) hq
  obtain ⟨h3, h4⟩ := cntLe_old (hcnt i') h1
  exact ⟨h4, by omega⟩

/-- A step that leaves the worker table and the private queues' task ids alone. -/
theorem pc_frame {s s' : State Val Err} (hP : PC cfg s) (hwk : s'.wk = s.wk)
    (hact : s'.active = s.active) (hqp : QpOk s.qp → QpOk s'.qp)
    (hdpc : ∀ i vs req, s'.disp = some (.waitSlots i vs req) → req = slotsOf cfg (cfg.calls.getD i {}))
    (hfut : ∀ j, FutStep (futOf s j) (futOf s' j)) (hcnt : ∀ i, CntLe s s' i) : PC cfg s' := by
  refine ⟨hqp hP.qp, ?_, hdpc, ?_, ?_, ?_⟩
  · intro k w hk; rw [hwk] at hk; exact hP.wk k w hk
  · rw [hact]
    exact (live_mono cfg (by rw [hwk]) hfut).trans hP.live
  · rw [hact]; exact hP.bnd
  · exact once_frame hP.once (fun k w hk => by rw [hwk] at hk; exact hk) hcnt

theorem pc_mainStep {s s' : State Val Err} {l : Label Val Err} (hP : PC cfg s)
    (hfut : ∀ j, FutStep (futOf s j) (futOf s' j)) (hcnt : ∀ i, CntLe s s' i)
    (h : mainStep cfg s l = some s') : PC cfg s' := by
  obtain ⟨h1, h2, h3, h4⟩ := mainStep_eff cfg h
  exact pc_frame cfg hP h1 h2 h4 (by rw [h3]; exact hP.dpc) hfut hcnt

theorem pc_resStep {s s' : State Val Err} {l : Label Val Err} (hP : PC cfg s)
    (hfut : ∀ j, FutStep (futOf s j) (futOf s' j)) (hcnt : ∀ i, CntLe s s' i)
    (h : resStep cfg cancelErr s l = some s') : PC cfg s' := by
  obtain ⟨h1, h2, h3, h4⟩ := resStep_eff cfg cancelErr h
  exact pc_frame cfg hP h1 h2 h4 (by rw [h3]; exact hP.dpc) hfut hcnt

theorem getElem?_set_cases {α : Type} {l : List α} {k k2 : Nat} {a b : α}
    (h : (l.set k a)[k2]? = some b) : (k2 = k ∧ b = a) ∨ (k2 ≠ k ∧ l[k2]? = some b) := by
  by_cases hk : k2 = k
  · subst hk
    left
    have hlt : k2 < l.length := by simpa using lt_of_getElem?_some h
    simp only [List.getElem?_set_self hlt, Option.some.injEq] at h
    exact ⟨rfl, h.symm⟩
  · right
    rw [List.getElem?_set_ne (Ne.symm hk)] at h
    exact ⟨hk, h⟩

/-- The places other than worker `k` gain no token when worker `k` moves. -/
theorem workerStep_rest {s s' : State Val Err} {k : Nat} {l : Label Val Err} {w w' : Worker Val Err}
    (h : workerStep eval s k l = some s') (hk : s.wk[k]? = some w) (hk' : s'.wk[k]? = some w') (i : Nat) :
    cnt s' i + wkCnt i w ≤ cnt s i + wkCnt i w' := by
  have hklt := lt_of_getElem?_some hk
  unfold workerStep at h
  simp only [hk] at h
  have hQ := fun v => cnt_setQ_le s w.q v i
  have hT := cnt_taskDone_le s w.q i
  split_step h
  all_goals (simp only [Option.some.injEq] at h; subst h)
  all_goals (simp only [setWk_wk, setQ_wk, taskDone_wk, setFut_wk, List.getElem?_set_self hklt,
    Option.some.injEq] at hk'; subst hk')
  all_goals (first
    | rw [cnt_setWk (w := w)]
    | (show cnt (setWk s k _) i + _ ≤ _; rw [cnt_setWk (w := w)]))
  all_goals (first | exact hk | (simp; done) | (simpa using hk) | skip)
  all_goals grind [wkCnt, wpcCnt, qCnt, itemCnt, cnt_setFut]

theorem pc_workerStep {s s' : State Val Err} {k : Nat} {l : Label Val Err} (hP : PC cfg s)
    (hfut : ∀ j, FutStep (futOf s j) (futOf s' j)) (hcnt : ∀ i, CntLe s s' i)
    (h : workerStep eval s k l = some s') : PC cfg s' := by
  obtain ⟨w, w', hk, hwk, hq, hact, hdisp, hqp, hpc, hsrv⟩ := workerStep_eff eval h
  obtain ⟨i0, hq0, hp0⟩ := hP.wk k w hk
  have hk' : s'.wk[k]? = some w' := by
    rw [hwk, List.getElem?_set_self (lt_of_getElem?_some hk)]
  have hrest : ∀ i, cnt s' i + wkCnt i w ≤ cnt s i + wkCnt i w' :=
    fun i => workerStep_rest eval h hk hk' i
  refine ⟨hqp hP.qp, ?_, ?_, ?_, ?_, ?_⟩
  · intro k2 w2 hk2
    rw [hwk] at hk2
    rcases getElem?_set_cases hk2 with ⟨-, rfl⟩ | ⟨-, hk2⟩
    · exact ⟨i0, by rw [hq, hq0], hpc i0 hq0 hP.qp hp0⟩
    · exact hP.wk k2 w2 hk2
  · rw [hdisp]; exact hP.dpc
  · rw [hact]
    refine (live_mono cfg ?_ hfut).trans hP.live
    rw [hwk]; exact map_set_same _ hk hq
  · rw [hact]; exact hP.bnd
  · intro k2 w2 i' hk2 hq2
    rw [hwk] at hk2
    rcases getElem?_set_cases hk2 with ⟨-, rfl⟩ | ⟨-, hk2⟩
    · rw [hq, hq0] at hq2
      cases hq2
      obtain ⟨h1, h2⟩ := hP.once k w i0 hk hq0
      obtain ⟨h3, h4⟩ := cntLe_old (hcnt i0) h1
      refine ⟨h4, ?_⟩
      have := hrest i0
      rcases hsrv i0 hp0 with h5 | h5 <;> omega
    · obtain ⟨h1, h2⟩ := hP.once k2 w2 i' hk2 hq2
      obtain ⟨h3, h4⟩ := cntLe_old (hcnt i') h1
      exact ⟨h4, by omega⟩

theorem getElem?_append_singleton {α : Type} {l : List α} {a b : α} {k : Nat}
    (h : (l ++ [a])[k]? = some b) : l[k]? = some b ∨ b = a := by
  rcases Nat.lt_or_ge k l.length with hlt | hge
  · rw [List.getElem?_append_left hlt] at h; exact Or.inl h
  · rw [List.getElem?_append_right hge] at h
    cases hk : k - l.length with
    | zero => simp [hk] at h; exact Or.inr h.symm
    | succ n => simp [hk] at h

theorem entry_sublist {s s' : State Val Err} (l : List QId)
    (hf : ∀ j, FutStep (futOf s j) (futOf s' j)) :
    (l.filterMap (entry cfg s')).Sublist (l.filterMap (entry cfg s)) := by
  apply filterMap_sublist_of_imp
  intro q _
  cases q with
  | priv i =>
    simp only [entry]
    by_cases hd : (futOf s i).done = true
    · right; simp [done_mono (hf i) hd]
    · by_cases hd' : (futOf s' i).done = true
      · right; simp [hd']
      · left; simp [hd, hd']
  | outer => left; rfl
  | inner => left; rfl

theorem bnd_eraseIdx {a : List (Nat × Nat)} (h : Bnd cfg a) (k : Nat) : Bnd cfg (a.eraseIdx k) := by
  have hs : (a.eraseIdx k).Sublist a := List.eraseIdx_sublist a k
  constructor
  · intro mc hm
    have := h.1 mc hm
    have := sum_map_sublist (·.2) hs
    unfold activeSum at *
    omega
  · intro hm mw hw
    have := h.2 hm mw hw
    have := hs.length_le
    omega

theorem bnd_launch {a : List (Nat × Nat)} (h : Bnd cfg a) {i req : Nat} (hfit : fits cfg a req = true) :
    Bnd cfg (a ++ [(i, req)]) := by
  unfold fits at hfit
  constructor
  · intro mc hm
    simp only [hm, decide_eq_true_eq] at hfit
    have : activeSum (a ++ [(i, req)]) = activeSum a + req := by simp [activeSum]
    omega
  · intro hm mw hw
    simp only [hm, hw, decide_eq_true_eq] at hfit
    simp only [List.length_append, List.length_cons, List.length_nil]
    omega

theorem cnt_ge_of_disp {s : State Val Err} {i req : Nat} {vs : List Val}
    (h : s.disp = some (.waitSlots i vs req)) : 1 ≤ cnt s i := by
  have : dispCnt i s.disp = 1 := by simp [h, dispCnt]
  simp only [cnt]; omega

theorem pc_dispStep {s s' : State Val Err} {l : Label Val Err} (hU : Unique s) (hP : PC cfg s)
    (hcnt : ∀ i, CntLe s s' i) (h : dispStep cfg s l = some s') : PC cfg s' := by
  obtain ⟨hfut, hcase⟩ := dispStep_eff cfg h
  have hf : ∀ j, FutStep (futOf s j) (futOf s' j) := fun j => by
    rw [futOf_congr hfut]; exact .refl _
  rcases hcase with ⟨hwk, hact, hqp, hdpc⟩ | ⟨k, j, x, hk, hd, hact, hwk, hqp, hdisp⟩ |
    ⟨i, vs, req, hd, hfit, hact, hqp, hwk, hdisp⟩
  · exact pc_frame cfg hP hwk hact (by rw [hqp]; exact id) hdpc hf hcnt
  · refine ⟨by rw [hqp]; exact hP.qp, ?_, by rw [hdisp]; exact hP.dpc, ?_, ?_, ?_⟩
    · intro k w hk; rw [hwk] at hk; exact hP.wk k w hk
    · rw [hact]
      have h1 : (live cfg s').Sublist (live cfg s) := live_mono cfg (by rw [hwk]) hf
      exact h1.trans (sublist_eraseIdx_of_not_mem hP.live hk (not_mem_live_of_done cfg hd))
    · rw [hact]; exact bnd_eraseIdx cfg hP.bnd k
    · exact once_frame hP.once (fun k w hk => by rw [hwk] at hk; exact hk) hcnt
  · have hreq := hP.dpc i vs req hd
    refine ⟨?_, ?_, ?_, ?_, ?_, ?_⟩
    · rw [hqp]
      refine qpok_set hP.qp i _ ?_
      intro j vs' hm
      simp at hm
      exact hm.1
    · intro k w hk; rw [hwk] at hk
      rcases getElem?_append_singleton hk with hk | rfl
      · exact hP.wk k w hk
      · exact ⟨i, rfl, trivial⟩
    · intro i2 vs2 req2 h2; rw [hdisp] at h2; cases h2
    · rw [hact]
      unfold live
      rw [hwk, List.map_append, List.filterMap_append]
      apply List.Sublist.append
      · exact (entry_sublist cfg _ hf).trans hP.live
      · simp only [List.map_cons, List.map_nil, List.filterMap_cons, List.filterMap_nil, entry]
        split
        · rename_i hh; split at hh
          · exact List.nil_sublist _
          · cases hh
        · rename_i b hh; split at hh
          · cases hh
          · simp only [Option.some.injEq] at hh; subst hh; rw [hreq]; exact List.Sublist.refl _
    · rw [hact]; exact bnd_launch cfg hP.bnd hfit
    · intro k w i' hk hq
      rw [hwk] at hk
      rcases getElem?_append_singleton hk with hk | rfl
      · obtain ⟨h1, h2⟩ := hP.once k w i' hk hq
        obtain ⟨h3, h4⟩ := cntLe_old (hcnt i') h1
        exact ⟨h4, by omega⟩
      · cases hq
        have h1 := cnt_ge_of_disp hd
        have h2 := hU i
        have h3 : i < s.nsub := by
          rcases Nat.lt_or_ge i s.nsub with h | h
          · exact h
          · have := h2.2 h; omega
        obtain ⟨h4, h5⟩ := cntLe_old (hcnt i) h3
        refine ⟨h5, ?_⟩
        simp [post]
        omega

theorem pc_step {s s' : State Val Err} {l : Label Val Err} (hC : Core s) (hP : PC cfg s)
    (h : step cfg eval cancelErr s l = some s') : PC cfg s' := by
  have hcnt := step_cnt' cfg eval cancelErr h
  obtain ⟨-, -, hfm⟩ := core_step_facts cfg eval cancelErr hC h
  have hfut : ∀ j, FutStep (futOf s j) (futOf s' j) := fun j => (hfm j).1
  unfold step at h
  split at h
  all_goals first
    | exact pc_mainStep cfg hP hfut hcnt h
    | exact pc_resStep cfg cancelErr hP hfut hcnt h
    | exact pc_dispStep cfg hC.uniq hP hcnt h
    | exact pc_workerStep cfg eval hP hfut hcnt h

theorem pc_init (script : List Cmd) (hb : cfg.block = none) : PC cfg (init cfg script : State Val Err) := by
  refine ⟨?_, ?_, ?_, ?_, ?_, ?_⟩
  · intro i' j vs hm
    simp [init, List.getD_eq_getElem?_getD, List.getElem?_replicate] at hm
    split at hm <;> simp at hm
  · intro k w hk; simp [init, hb] at hk
  · intro i vs req hd; simp [init, hb] at hd
  · simp [live, init, hb]
  · constructor
    · intro mc _; simp [init, activeSum]
    · intro _ mw _; simp [init]
  · intro k w i' hk; simp [init, hb] at hk

/-- Invariants along a run. -/
theorem run_inv (P : State Val Err → Prop)
    (hstep : ∀ (s s' : State Val Err) (l : Label Val Err), Core s → P s →
      step cfg eval cancelErr s l = some s' → P s')
    {s0 s : State Val Err} (ls : List (Label Val Err)) (hC : Core s0) (h0 : P s0)
    (h : run cfg eval cancelErr s0 ls = some s) : P s := by
  induction ls generalizing s0 with
  | nil => simp [run] at h; subst h; exact h0
  | cons l ls ih =>
    simp only [run, Option.bind_eq_some_iff] at h
    obtain ⟨s1, h1, h2⟩ := h
    exact ih (core_step cfg eval cancelErr hC h1) (hstep _ _ _ hC h0 h1) h2

theorem pc_reachable {script : List Cmd} {s : State Val Err}
    (h : Reachable cfg eval cancelErr script s) (hb : cfg.block = none) : PC cfg s := by
  obtain ⟨ls, hls⟩ := h
  exact run_inv cfg eval cancelErr (PC cfg)
    (fun s s' l hC hP hs => pc_step cfg eval cancelErr hC hP hs) ls (core_init cfg script)
    (pc_init cfg script hb) hls

/-! ### block allocation: the worker table is fixed -/

def Blk (n : Nat) (s : State Val Err) : Prop := s.disp = none ∧ s.wk.length = n

theorem blk_step {n : Nat} {s s' : State Val Err} {l : Label Val Err} (hB : Blk n s)
    (h : step cfg eval cancelErr s l = some s') : Blk n s' := by
  obtain ⟨hd, hn⟩ := hB
  unfold step at h
  split at h
  all_goals first
    | (have e := mainStep_eff cfg h
       obtain ⟨h1, -, h3, -⟩ := e
       exact ⟨by rw [h3]; exact hd, by rw [h1]; exact hn⟩)
    | (have e := resStep_eff cfg cancelErr h
       obtain ⟨h1, -, h3, -⟩ := e
       exact ⟨by rw [h3]; exact hd, by rw [h1]; exact hn⟩)
    | (simp [dispStep, hd] at h; done)
    | (have e := workerStep_eff eval h
       obtain ⟨w, w', -, h1, -, -, h3, -⟩ := e
       exact ⟨by rw [h3]; exact hd, by rw [h1, List.length_set]; exact hn⟩)

theorem blk_reachable {script : List Cmd} {s : State Val Err}
    (h : Reachable cfg eval cancelErr script s) {n : Nat} (hb : cfg.block = some n) : Blk n s := by
  obtain ⟨ls, hls⟩ := h
  refine run_inv cfg eval cancelErr (Blk n)
    (fun s s' l _ hP hs => blk_step cfg eval cancelErr hP hs) ls (core_init cfg script) ?_ hls
  simp [Blk, init, hb]

/-! ### the theorems -/

/-- A worker that is executing call `i` stands for the entry `(i, slots i)`. -/
theorem entry_of_sent {s : State Val Err} (hC : Core s) (hP : PC cfg s) {w : Worker Val Err}
    (hw : w ∈ s.wk) {i : Nat} {vs : List Val} (hpc : w.pc = .sent i vs) :
    entry cfg s w.q = some (i, slotsOf cfg (cfg.calls.getD i {})) := by
  obtain ⟨k, hk⟩ := List.mem_iff_getElem?.mp hw
  obtain ⟨i', hq, hp⟩ := hP.wk k w hk
  rw [hpc] at hp
  simp only [pcOk] at hp
  subst hp
  have hr : futOf s i = .running := hC.runs.1 k w i hk (by rw [hpc]; rfl)
  simp [entry, hq, hr, Fut.done]

/-- C07 with max_cores: the slots of the calls executing at any instant never exceed the limit. -/
theorem ceiling_cores {script : List Cmd} {s : State Val Err} (h : Reachable cfg eval cancelErr script s)
    (hb : cfg.block = none) {mc : Nat} (hm : cfg.maxCores = some mc) : execSum cfg s ≤ mc := by
  have hC := core_reachable cfg eval cancelErr h
  have hP := pc_reachable cfg eval cancelErr h hb
  have h1 : execSum cfg s ≤ activeSum (live cfg s) := by
    unfold execSum activeSum live
    rw [List.filterMap_map]
    apply sum_le_filterMap
    intro w hw
    cases hpc : w.pc with
    | sent i vs =>
      right
      exact ⟨_, entry_of_sent cfg hC hP hw hpc, by simp [execSlots, hpc]⟩
    | _ => left; simp [execSlots, hpc]
  have h2 : activeSum (live cfg s) ≤ activeSum s.active := by
    unfold activeSum; exact sum_map_sublist _ hP.live
  have h3 := hP.bnd.1 mc hm
  omega

/-- C07 with max_workers only. -/
theorem ceiling_workers {script : List Cmd} {s : State Val Err} (h : Reachable cfg eval cancelErr script s)
    (hb : cfg.block = none) (hm : cfg.maxCores = none) {mw : Nat} (hw : cfg.maxWorkers = some mw) :
    execCount s ≤ mw := by
  have hC := core_reachable cfg eval cancelErr h
  have hP := pc_reachable cfg eval cancelErr h hb
  have h1 : execCount s ≤ (live cfg s).length := by
    unfold execCount live
    rw [List.filterMap_map]
    apply filter_length_le_filterMap
    intro w hw hex
    cases hpc : w.pc with
    | sent i vs => exact ⟨_, entry_of_sent cfg hC hP hw hpc⟩
    | _ => simp [executing, hpc] at hex
  have h2 := hP.live.length_le
  have h3 := hP.bnd.2 hm mw hw
  omega

/-- C07 with block allocation: at most `n` calls execute at once. -/
theorem ceiling_block {script : List Cmd} {s : State Val Err} (h : Reachable cfg eval cancelErr script s)
    {n : Nat} (hb : cfg.block = some n) : execCount s ≤ n := by
  obtain ⟨-, hn⟩ := blk_reachable cfg eval cancelErr h hb
  have := List.length_filter_le executing s.wk
  unfold execCount
  omega

/-- C11: without block allocation every worker process receives at most one call. -/
theorem fresh_process {script : List Cmd} {s : State Val Err} (h : Reachable cfg eval cancelErr script s)
    (hb : cfg.block = none) {k : Nat} {w : Worker Val Err} (hk : s.wk[k]? = some w) :
    w.served.length ≤ 1 := by
  have hP := pc_reachable cfg eval cancelErr h hb
  obtain ⟨i', hq, hp⟩ := hP.wk k w hk
  obtain ⟨-, h2⟩ := hP.once k w i' hk hq
  by_cases hpost : post w = 0
  · omega
  · have h1 : wkCnt i' w = 1 := by
      unfold post at hpost
      unfold wkCnt wpcCnt
      split at hpost <;> simp_all [pcOk]
    have := cnt_ge_of_wk hk h1
    have : post w ≤ 1 := by unfold post; split <;> omega
    omega

end ExecModel.Sys
