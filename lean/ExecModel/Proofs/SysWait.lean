import ExecModel.Proofs.SysAux
/-!
  What holds at the instant `shutdown(wait=True)` returns (safety form): every accepted future is
  done and every worker process has exited.  The proof goes through a new inductive invariant
  `wt_Inv` relating the `wait` flags along the chain user thread → front queue → resolver → inner
  queue → dispatcher, and recording which threads a `wait=True` shutdown has already joined.
-/
set_option linter.unusedSimpArgs false
set_option linter.unusedVariables false
namespace ExecModel.Sys

variable {Val Err : Type}
variable (cfg : Cfg) (eval : Nat → List Val → Except Err Val) (cancelErr : Err)

/-! ### definitions (all executable) -/

/-- the user thread is inside `shutdown(wait=True)` -/
def wt_W (s : State Val Err) : Bool :=
  match s.mainPc with
  | .inSd sd => sd.wait
  | .idle => false

def wt_itemT : Item Val → Bool
  | .stop w => w
  | .task _ _ => true

/-- every stop message of the queue carries `wait = true` -/
def wt_qT (q : Queue Val) : Bool := q.items.all wt_itemT

/-- the stop flag the resolver has received (if it still remembers one) is `true` -/
def wt_resFlag : Option (RPc Val Err) → Bool
  | some (.stopping w) => w
  | some (.failing _ _ (.stopping w)) => w
  | some (.inSd sd) => sd.wait
  | _ => true

/-- thread `t` has terminated normally -/
def wt_ended (s : State Val Err) (t : TId) : Bool :=
  match threadEnded s t with
  | some none => true
  | _ => false

def wt_dPast : Option (DPc Val Err) → Bool
  | some .stopAck | some .stopJoin | some .exited => true
  | _ => false

def wt_rPast : Option (RPc Val Err) → Bool
  | some .stopAck | some .stopJoin | some .exited => true
  | _ => false

/-- a shutdown procedure with `wait = true`: the threads already removed from the join list have
    exited; past the join list all threads of the executor have exited -/
def wt_sdJ (cfg : Cfg) (s : State Val Err) (sd : Sd) : Bool :=
  !sd.wait || (match sd.pc with
    | .joinThreads ts => (threadsOf cfg sd.target).all (fun t => ts.contains t || wt_ended s t)
    | .joinQueue | .finish => (threadsOf cfg sd.target).all (wt_ended s)
    | _ => true)

def wt_allWkEnded (s : State Val Err) : Bool :=
  (List.range s.wk.length).all (fun k => wt_ended s (.worker k))

def wt_mainJ (cfg : Cfg) (s : State Val Err) : Bool :=
  match s.mainPc with
  | .inSd sd => wt_sdJ cfg s sd
  | .idle => true

def wt_resJ (cfg : Cfg) (s : State Val Err) : Bool :=
  match s.res with
  | some (.inSd sd) => wt_sdJ cfg s sd
  | _ => true

/-- the dispatcher joining the per-call threads: those already removed from the list have exited -/
def wt_dispJ (s : State Val Err) : Bool :=
  match s.disp with
  | some (.stopping ts) =>
    (List.range s.wk.length).all (fun k => ts.contains (.worker k) || wt_ended s (.worker k))
  | _ => true

/-- during `shutdown(wait=True)` of the user thread: every stop message in the outer and the inner
    queue, and the flag held by the resolver, is `true` -/
def wt_flags (s : State Val Err) : Bool :=
  !wt_W s || (wt_qT s.qo && wt_qT s.qi && wt_resFlag s.res)

/-- during `shutdown(wait=True)`: a dispatcher past its join list has joined every per-call thread -/
def wt_dispP (s : State Val Err) : Bool :=
  !wt_W s || !wt_dPast s.disp || wt_allWkEnded s

/-- during `shutdown(wait=True)`: a resolver past the shutdown of the inner executor has joined
    all its threads -/
def wt_resP (cfg : Cfg) (s : State Val Err) : Bool :=
  !wt_W s || !wt_rPast s.res || (threadsOf cfg .inner).all (wt_ended s)

/-- THE NEW INVARIANT (executable form) -/
def wt_waitInv (cfg : Cfg) (s : State Val Err) : Bool :=
  wt_mainJ cfg s && wt_resJ cfg s && wt_dispJ s && wt_flags s && wt_dispP s && wt_resP cfg s

/-! ### propositional form -/

def wt_SdJ (cfg : Cfg) (s : State Val Err) (sd : Sd) : Prop :=
  sd.wait = true → ∀ t ∈ threadsOf cfg sd.target,
    (∀ ts, sd.pc = .joinThreads ts → t ∈ ts ∨ wt_ended s t = true) ∧
    ((sd.pc = .joinQueue ∨ sd.pc = .finish) → wt_ended s t = true)

structure wt_Inv (cfg : Cfg) (s : State Val Err) : Prop where
  mainJ : ∀ sd, s.mainPc = .inSd sd → wt_SdJ cfg s sd
  resJ : ∀ sd, s.res = some (.inSd sd) → wt_SdJ cfg s sd
  dispJ : ∀ ts, s.disp = some (.stopping ts) → ∀ k, k < s.wk.length →
    TId.worker k ∈ ts ∨ wt_ended s (.worker k) = true
  qoT : wt_W s = true → wt_qT s.qo = true
  qiT : wt_W s = true → wt_qT s.qi = true
  resF : wt_W s = true → wt_resFlag s.res = true
  dispP : wt_W s = true → wt_dPast s.disp = true → ∀ k, k < s.wk.length → wt_ended s (.worker k) = true
  resP : wt_W s = true → wt_rPast s.res = true → ∀ t ∈ threadsOf cfg .inner, wt_ended s t = true

theorem wt_sdJ_iff (s : State Val Err) (sd : Sd) : wt_sdJ cfg s sd = true ↔ wt_SdJ cfg s sd := by
  obtain ⟨tgt, wt, pc⟩ := sd
  unfold wt_sdJ wt_SdJ
  cases wt with
  | false => simp
  | true =>
    cases pc <;> simp [List.all_eq_true]

theorem wt_waitInv_iff (s : State Val Err) : wt_waitInv cfg s = true ↔ wt_Inv cfg s := by
  constructor
  · intro h
    simp only [wt_waitInv, Bool.and_eq_true] at h
    obtain ⟨⟨⟨⟨⟨h1, h2⟩, h3⟩, h4⟩, h5⟩, h6⟩ := h
    refine ⟨?_, ?_, ?_, ?_, ?_, ?_, ?_, ?_⟩
    · intro sd hm
      simp only [wt_mainJ, hm] at h1
      exact (wt_sdJ_iff cfg s sd).1 h1
    · intro sd hr
      simp only [wt_resJ, hr] at h2
      exact (wt_sdJ_iff cfg s sd).1 h2
    · intro ts hd k hk
      simp only [wt_dispJ, hd, List.all_eq_true, List.mem_range, Bool.or_eq_true,
        List.contains_iff_mem] at h3
      exact h3 k hk
    · intro hW; simp only [wt_flags, hW, Bool.not_true, Bool.false_or, Bool.and_eq_true] at h4; exact h4.1.1
    · intro hW; simp only [wt_flags, hW, Bool.not_true, Bool.false_or, Bool.and_eq_true] at h4; exact h4.1.2
    · intro hW; simp only [wt_flags, hW, Bool.not_true, Bool.false_or, Bool.and_eq_true] at h4; exact h4.2
    · intro hW hp k hk
      simp only [wt_dispP, hW, hp, Bool.not_true, Bool.false_or, wt_allWkEnded, List.all_eq_true,
        List.mem_range] at h5
      exact h5 k hk
    · intro hW hp t ht
      simp only [wt_resP, hW, hp, Bool.not_true, Bool.false_or, List.all_eq_true] at h6
      exact h6 t ht
  · intro h
    simp only [wt_waitInv, Bool.and_eq_true]
    refine ⟨⟨⟨⟨⟨?_, ?_⟩, ?_⟩, ?_⟩, ?_⟩, ?_⟩
    · unfold wt_mainJ
      split
      · rename_i sd hm; exact (wt_sdJ_iff cfg s sd).2 (h.mainJ sd hm)
      · rfl
    · unfold wt_resJ
      split
      · rename_i sd hr; exact (wt_sdJ_iff cfg s sd).2 (h.resJ sd hr)
      · rfl
    · unfold wt_dispJ
      split
      · rename_i ts hd
        simp only [List.all_eq_true, List.mem_range, Bool.or_eq_true, List.contains_iff_mem]
        exact h.dispJ ts hd
      · rfl
    · unfold wt_flags
      cases hW : wt_W s with
      | false => rfl
      | true => simp [h.qoT hW, h.qiT hW, h.resF hW]
    · unfold wt_dispP
      cases hW : wt_W s with
      | false => rfl
      | true =>
        cases hp : wt_dPast s.disp with
        | false => rfl
        | true =>
          simp only [Bool.not_true, Bool.false_or, wt_allWkEnded, List.all_eq_true, List.mem_range]
          exact h.dispP hW hp
    · unfold wt_resP
      cases hW : wt_W s with
      | false => rfl
      | true =>
        cases hp : wt_rPast s.res with
        | false => rfl
        | true =>
          simp only [Bool.not_true, Bool.false_or, List.all_eq_true]
          exact h.resP hW hp

/-! ### terminated threads -/

theorem wt_ended_res (s : State Val Err) : wt_ended s .resolver = true ↔ s.res = some .exited := by
  unfold wt_ended threadEnded
  cases hr : s.res with
  | none => simp
  | some pc => cases pc <;> simp

theorem wt_ended_disp (s : State Val Err) : wt_ended s .disp = true ↔ s.disp = some .exited := by
  unfold wt_ended threadEnded
  cases hr : s.disp with
  | none => simp
  | some pc => cases pc <;> simp

theorem wt_ended_wk (s : State Val Err) (k : Nat) :
    wt_ended s (.worker k) = true ↔ ∃ w, s.wk[k]? = some w ∧ w.pc = .exited := by
  unfold wt_ended threadEnded
  cases hk : s.wk[k]? with
  | none => simp [hk]
  | some w => cases hpc : w.pc <;> simp [hk, hpc]

theorem wt_ended_of {s : State Val Err} {t : TId} (h : threadEnded s t = some none) :
    wt_ended s t = true := by
  simp [wt_ended, h]

/-- terminated threads stay terminated -/
def wt_Mono (s s' : State Val Err) : Prop := ∀ t, wt_ended s t = true → wt_ended s' t = true

theorem wt_mono_of {s s' : State Val Err} (hr : s.res = some .exited → s'.res = some .exited)
    (hd : s.disp = some .exited → s'.disp = some .exited)
    (hw : ∀ (k : Nat) (w : Worker Val Err), s.wk[k]? = some w → w.pc = .exited →
      ∃ w', s'.wk[k]? = some w' ∧ w'.pc = .exited) : wt_Mono s s' := by
  intro t ht
  cases t with
  | resolver => rw [wt_ended_res] at ht ⊢; exact hr ht
  | disp => rw [wt_ended_disp] at ht ⊢; exact hd ht
  | worker k =>
    rw [wt_ended_wk] at ht ⊢
    obtain ⟨w, h1, h2⟩ := ht
    exact hw k w h1 h2

theorem wt_mono_same {s s' : State Val Err} (hwk : s'.wk = s.wk) (hr : s'.res = s.res)
    (hd : s'.disp = s.disp) : wt_Mono s s' := by
  apply wt_mono_of
  · rw [hr]; exact id
  · rw [hd]; exact id
  · intro k w h1 h2; rw [hwk]; exact ⟨w, h1, h2⟩

theorem wt_SdJ_mono {s s' : State Val Err} (hm : wt_Mono s s') {sd : Sd} (h : wt_SdJ cfg s sd) :
    wt_SdJ cfg s' sd := by
  intro hw t ht
  have h0 := h hw t ht
  refine ⟨?_, ?_⟩
  · intro ts hts
    rcases h0.1 ts hts with h1 | h1
    · exact Or.inl h1
    · exact Or.inr (hm t h1)
  · intro hq; exact hm t (h0.2 hq)

/-! ### the shutdown procedure -/

theorem wt_SdJ_normalize {s : State Val Err} {sd : Sd} (h : wt_SdJ cfg s sd) :
    wt_SdJ cfg s (sdNormalize cfg sd) := by
  unfold sdNormalize
  split
  · rename_i hpc
    split
    · intro hw t ht
      refine ⟨?_, ?_⟩
      · intro ts hts
        simp only [SdPc.joinThreads.injEq] at hts
        subst hts
        exact Or.inl ht
      · intro hq; simp at hq
    · rename_i hwf
      intro hw
      exact absurd hw hwf
  · rename_i hpc
    intro hw t ht
    have h0 := h hw t ht
    refine ⟨?_, ?_⟩
    · intro ts hts; simp at hts
    · intro _
      rcases h0.1 [] hpc with h1 | h1
      · cases h1
      · exact h1
  · exact h

theorem wt_SdJ_norm {s : State Val Err} {sd : Sd} (h : wt_SdJ cfg s sd) :
    wt_SdJ cfg s (sdNorm cfg sd) :=
  wt_SdJ_normalize cfg (wt_SdJ_normalize cfg h)

theorem wt_sdNormalize_wait (sd : Sd) : (sdNormalize cfg sd).wait = sd.wait := by
  unfold sdNormalize
  split <;> (try split) <;> rfl

theorem wt_sdNorm_wait (sd : Sd) : (sdNorm cfg sd).wait = sd.wait := by
  simp [sdNorm, wt_sdNormalize_wait]

/-- a shutdown procedure whose program counter is before the join list has no obligation -/
theorem wt_SdJ_early (s : State Val Err) (sd : Sd) (h1 : ∀ ts, sd.pc ≠ .joinThreads ts)
    (h2 : sd.pc ≠ .joinQueue) (h3 : sd.pc ≠ .finish) : wt_SdJ cfg s sd := by
  intro _ t _
  refine ⟨fun ts hts => absurd hts (h1 ts), ?_⟩
  rintro (h | h)
  · exact absurd h h2
  · exact absurd h h3

/-- one step of the shutdown procedure keeps the flag, the target, and the join clause -/
theorem wt_sdStep_J {s s1 : State Val Err} {sd sd' : Sd} {l : Label Val Err}
    (h : sdStep cfg s sd l = some (s1, .ok (some sd'))) (hJ : wt_SdJ cfg s sd) :
    sd'.wait = sd.wait ∧ sd'.target = sd.target ∧ wt_SdJ cfg s sd' := by
  unfold sdStep at h
  split_step h
  all_goals (first
    | (simp at h; done)
    | (simp only [Option.some.injEq, Prod.mk.injEq, Except.ok.injEq] at h
       obtain ⟨-, h⟩ := h
       subst h
       refine ⟨rfl, rfl, ?_⟩
       first
       | exact hJ
       | (apply wt_SdJ_early <;> simp; done)
       | (rename_i hpc _ hend
          intro hw t ht
          have h0 := hJ hw t ht
          refine ⟨?_, ?_⟩
          · intro ts hts
            simp only [SdPc.joinThreads.injEq] at hts
            subst hts
            rcases h0.1 _ hpc with h1 | h1
            · rcases List.mem_cons.1 h1 with h2 | h2
              · right; rw [h2]; exact wt_ended_of hend
              · left; exact h2
            · right; exact h1
          · intro hq; simp at hq)
       | (rename_i hpc _
          intro hw t ht
          have h0 := hJ hw t ht
          refine ⟨?_, ?_⟩
          · intro ts hts; simp at hts
          · intro _; exact h0.2 (Or.inl hpc))))

/-- the last step of the shutdown procedure is taken at `finish` -/
theorem wt_sdStep_done {s s1 : State Val Err} {sd : Sd} {l : Label Val Err}
    (h : sdStep cfg s sd l = some (s1, .ok none)) : sd.pc = .finish := by
  unfold sdStep at h
  split_step h
  all_goals (first
    | (simp at h; done)
    | assumption)

def wt_QStep (l l' : List (Item Val)) : Prop := ∀ it ∈ l', it ∈ l ∨ wt_itemT it = true

theorem wt_qT_step {q q' : Queue Val} (h : wt_qT q = true) (hs : wt_QStep q.items q'.items) :
    wt_qT q' = true := by
  unfold wt_qT at h ⊢
  rw [List.all_eq_true] at h ⊢
  intro it hit
  rcases hs it hit with h1 | h1
  · exact h it h1
  · exact h1

theorem wt_QStep_refl (l : List (Item Val)) : wt_QStep l l := fun it hit => Or.inl hit

theorem wt_QStep_tail {l l' : List (Item Val)} {it : Item Val} (h : l = it :: l') : wt_QStep l l' := by
  intro x hx; left; rw [h]; exact List.mem_cons_of_mem _ hx

theorem wt_QStep_put {l : List (Item Val)} {it : Item Val} (h : wt_itemT it = true) :
    wt_QStep l (l ++ [it]) := by
  intro x hx
  rcases List.mem_append.1 hx with h1 | h1
  · exact Or.inl h1
  · simp only [List.mem_singleton] at h1; subst h1; exact Or.inr h

/-- what one step of a `wait = true` shutdown procedure does to the stop flags of the queues -/
theorem wt_sdStep_items {s s1 : State Val Err} {sd : Sd} {l : Label Val Err}
    {r : Except Err (Option Sd)} (h : sdStep cfg s sd l = some (s1, r)) (hw : sd.wait = true) :
    wt_QStep s.qo.items s1.qo.items ∧ wt_QStep s.qi.items s1.qi.items := by
  obtain ⟨tgt, wt, pc⟩ := sd
  simp only at hw
  subst hw
  unfold sdStep at h
  cases tgt
  all_goals (split_step h)
  all_goals (simp only [Option.some.injEq, Prod.mk.injEq] at h; obtain ⟨h, -⟩ := h; subst h)
  all_goals (refine ⟨?_, ?_⟩)
  all_goals (first
    | exact wt_QStep_refl _
    | (simp only [setQ, getQ, taskDone]; exact wt_QStep_refl _)
    | (apply wt_QStep_tail; assumption)
    | (simp only [setQ, getQ, Queue.put]; exact wt_QStep_put rfl)
    | (split <;> first | exact wt_QStep_refl _ | (simp only [setFut]; exact wt_QStep_refl _)))

/-! ### frames -/

theorem wt_W_congr {s s' : State Val Err} (h : s'.mainPc = s.mainPc) : wt_W s' = wt_W s := by
  simp only [wt_W, h]

/-- preservation by a step of a thread other than the user thread, from local facts -/
theorem wt_frame {s s' : State Val Err} (hI : wt_Inv cfg s)
    (hm : s'.mainPc = s.mainPc) (hmono : wt_Mono s s')
    (hres : ∀ sd, s'.res = some (.inSd sd) → s.res = some (.inSd sd) ∨ wt_SdJ cfg s' sd)
    (hdisp : ∀ ts, s'.disp = some (.stopping ts) →
      (s.disp = some (.stopping ts) ∧ s'.wk.length = s.wk.length) ∨
      ∀ k, k < s'.wk.length → TId.worker k ∈ ts ∨ wt_ended s' (.worker k) = true)
    (hqo : wt_W s = true → wt_QStep s.qo.items s'.qo.items)
    (hqi : wt_W s = true → wt_QStep s.qi.items s'.qi.items)
    (hrf : wt_W s = true → wt_resFlag s'.res = true)
    (hdp : wt_W s = true → wt_dPast s'.disp = true →
      (wt_dPast s.disp = true ∧ s'.wk.length = s.wk.length) ∨
      ∀ k, k < s'.wk.length → wt_ended s' (.worker k) = true)
    (hrp : wt_W s = true → wt_rPast s'.res = true →
      wt_rPast s.res = true ∨ ∀ t ∈ threadsOf cfg .inner, wt_ended s' t = true) :
    wt_Inv cfg s' := by
  have hW := wt_W_congr hm
  refine ⟨?_, ?_, ?_, ?_, ?_, ?_, ?_, ?_⟩
  · intro sd hsd
    rw [hm] at hsd
    exact wt_SdJ_mono cfg hmono (hI.mainJ sd hsd)
  · intro sd hsd
    rcases hres sd hsd with h | h
    · exact wt_SdJ_mono cfg hmono (hI.resJ sd h)
    · exact h
  · intro ts hts k hk
    rcases hdisp ts hts with ⟨h1, h2⟩ | h
    · rw [h2] at hk
      rcases hI.dispJ ts h1 k hk with h3 | h3
      · exact Or.inl h3
      · exact Or.inr (hmono _ h3)
    · exact h k hk
  · intro hw; rw [hW] at hw
    exact wt_qT_step (hI.qoT hw) (hqo hw)
  · intro hw; rw [hW] at hw
    exact wt_qT_step (hI.qiT hw) (hqi hw)
  · intro hw; rw [hW] at hw
    exact hrf hw
  · intro hw hp k hk; rw [hW] at hw
    rcases hdp hw hp with ⟨h1, h2⟩ | h
    · rw [h2] at hk
      exact hmono _ (hI.dispP hw h1 k hk)
    · exact h k hk
  · intro hw hp t ht; rw [hW] at hw
    rcases hrp hw hp with h | h
    · exact hmono _ (hI.resP hw h t ht)
    · exact h t ht

/-- frame for a step of the resolver -/
theorem wt_frame_res {s s' : State Val Err} (hI : wt_Inv cfg s)
    (hm : s'.mainPc = s.mainPc) (hwk : s'.wk = s.wk) (hd : s'.disp = s.disp)
    (hex : s.res = some .exited → s'.res = some .exited)
    (hres : ∀ sd, s'.res = some (.inSd sd) → s.res = some (.inSd sd) ∨ wt_SdJ cfg s' sd)
    (hqo : wt_W s = true → wt_QStep s.qo.items s'.qo.items)
    (hqi : wt_W s = true → wt_QStep s.qi.items s'.qi.items)
    (hrf : wt_W s = true → wt_resFlag s'.res = true)
    (hrp : wt_W s = true → wt_rPast s'.res = true →
      wt_rPast s.res = true ∨ ∀ t ∈ threadsOf cfg .inner, wt_ended s' t = true) :
    wt_Inv cfg s' := by
  have hmono : wt_Mono s s' := by
    apply wt_mono_of hex
    · rw [hd]; exact id
    · intro k w h1 h2; rw [hwk]; exact ⟨w, h1, h2⟩
  refine wt_frame cfg hI hm hmono hres ?_ hqo hqi hrf ?_ hrp
  · intro ts hts; rw [hd] at hts; exact Or.inl ⟨hts, by rw [hwk]⟩
  · intro _ hp; rw [hd] at hp; exact Or.inl ⟨hp, by rw [hwk]⟩

/-- frame for a step of the dispatcher other than a launch -/
theorem wt_frame_disp {s s' : State Val Err} (hI : wt_Inv cfg s)
    (hm : s'.mainPc = s.mainPc) (hwk : s'.wk = s.wk) (hr : s'.res = s.res)
    (hex : s.disp = some .exited → s'.disp = some .exited)
    (hqo : s'.qo = s.qo)
    (hqi : wt_W s = true → wt_QStep s.qi.items s'.qi.items)
    (hdisp : ∀ ts, s'.disp = some (.stopping ts) → s.disp = some (.stopping ts) ∨
      ∀ k, k < s.wk.length → TId.worker k ∈ ts ∨ wt_ended s (.worker k) = true)
    (hdp : wt_W s = true → wt_dPast s'.disp = true → wt_dPast s.disp = true ∨
      ∀ k, k < s.wk.length → wt_ended s (.worker k) = true) :
    wt_Inv cfg s' := by
  have hmono : wt_Mono s s' := by
    apply wt_mono_of _ hex
    · intro k w h1 h2; rw [hwk]; exact ⟨w, h1, h2⟩
    · rw [hr]; exact id
  refine wt_frame cfg hI hm hmono ?_ ?_ ?_ hqi ?_ ?_ ?_
  · intro sd hsd; rw [hr] at hsd; exact Or.inl hsd
  · intro ts hts
    rcases hdisp ts hts with h | h
    · exact Or.inl ⟨h, by rw [hwk]⟩
    · right; intro k hk; rw [hwk] at hk
      rcases h k hk with h1 | h1
      · exact Or.inl h1
      · exact Or.inr (hmono _ h1)
  · intro _; rw [hqo]; exact wt_QStep_refl _
  · intro hw; rw [hr]; exact hI.resF hw
  · intro hw hp
    rcases hdp hw hp with h | h
    · exact Or.inl ⟨h, by rw [hwk]⟩
    · right; intro k hk; rw [hwk] at hk; exact hmono _ (h k hk)
  · intro _ hp; rw [hr] at hp; exact Or.inl hp

/-- frame for a step of worker `k` -/
theorem wt_frame_wk {s s' : State Val Err} (hI : wt_Inv cfg s) {k : Nat} {w w' : Worker Val Err}
    (hk : s.wk[k]? = some w) (hpc : w.pc ≠ .exited)
    (hm : s'.mainPc = s.mainPc) (hwk : s'.wk = s.wk.set k w') (hr : s'.res = s.res)
    (hd : s'.disp = s.disp)
    (hqo : wt_QStep s.qo.items s'.qo.items) (hqi : wt_QStep s.qi.items s'.qi.items) :
    wt_Inv cfg s' := by
  have hlen : s'.wk.length = s.wk.length := by rw [hwk]; simp
  have hmono : wt_Mono s s' := by
    apply wt_mono_of
    · rw [hr]; exact id
    · rw [hd]; exact id
    · intro k' w0 h1 h2
      rw [hwk]
      by_cases hkk : k = k'
      · subst hkk
        rw [hk] at h1
        simp only [Option.some.injEq] at h1
        subst h1
        exact absurd h2 hpc
      · rw [List.getElem?_set_ne hkk]; exact ⟨w0, h1, h2⟩
  refine wt_frame cfg hI hm hmono ?_ ?_ (fun _ => hqo) (fun _ => hqi) ?_ ?_ ?_
  · intro sd hsd; rw [hr] at hsd; exact Or.inl hsd
  · intro ts hts; rw [hd] at hts; exact Or.inl ⟨hts, hlen⟩
  · intro hw; rw [hr]; exact hI.resF hw
  · intro _ hp; rw [hd] at hp; exact Or.inl ⟨hp, hlen⟩
  · intro _ hp; rw [hr] at hp; exact Or.inl hp

/-! ### the workers -/

theorem wt_exited_stuck {s : State Val Err} {k : Nat} {w : Worker Val Err} (l : Label Val Err)
    (hk : s.wk[k]? = some w) (hpc : w.pc = .exited) : workerStep eval s k l = none := by
  unfold workerStep
  simp only [hk, hpc]

theorem wt_QStep_of_WTr {q q' : Queue Val} {h t h' t' : Bool} (htr : le_WTr q h t q' h' t') :
    wt_QStep q.items q'.items := by
  rcases htr with ⟨rfl, -, -⟩ | ⟨i, vs, rest, hit, rfl, -⟩ | ⟨wt, rest, hit, rfl, -⟩ | ⟨rfl, -⟩
  · exact wt_QStep_refl _
  · exact wt_QStep_tail hit
  · exact wt_QStep_tail hit
  · exact wt_QStep_refl _

theorem wt_workerStep (hnf : NoFail eval) {s s' : State Val Err} {k : Nat} {l : Label Val Err}
    (hI : wt_Inv cfg s) (hL : LiveInv cfg s) (h : workerStep eval s k l = some s') :
    wt_Inv cfg s' := by
  have heff := le_workerStep_eff eval hnf (fun w hk => le_noDead_wk hL.noDead k w hk) h
  obtain ⟨w, w', q', hk, hwk, hq, -, hm, hr, -, hd, -, hqo, hqi, -, htr⟩ := heff
  have hpc : w.pc ≠ .exited := by
    intro hpc
    rw [wt_exited_stuck eval l hk hpc] at h
    cases h
  have hqs := wt_QStep_of_WTr htr
  refine wt_frame_wk cfg hI hk hpc hm hwk hr hd ?_ ?_
  · rw [hqo]
    cases hwq : w.q with
    | outer => rw [hwq] at hqs; exact hqs
    | inner => exact wt_QStep_refl _
    | priv a => exact wt_QStep_refl _
  · rw [hqi]
    cases hwq : w.q with
    | outer => exact wt_QStep_refl _
    | inner => rw [hwq] at hqs; exact hqs
    | priv a => exact wt_QStep_refl _

/-! ### the dispatcher -/

/-- the effect of `dLaunch` -/
theorem wt_launch {s s' : State Val Err} (hI : wt_Inv cfg s) (hm : s'.mainPc = s.mainPc)
    (hr : s'.res = s.res) (hqo : s'.qo = s.qo) (hqi : s'.qi = s.qi) (hd' : s'.disp = some .needAck)
    (hd : s.disp ≠ some .exited) (hwk : ∃ w0, s'.wk = s.wk ++ [w0]) : wt_Inv cfg s' := by
  obtain ⟨w0, hwk⟩ := hwk
  have hmono : wt_Mono s s' := by
    apply wt_mono_of
    · rw [hr]; exact id
    · intro h; exact absurd h hd
    · intro k w h1 h2
      rw [hwk]
      refine ⟨w, ?_, h2⟩
      rw [List.getElem?_append_left (pg_lt_of_getElem? h1)]
      exact h1
  refine wt_frame cfg hI hm hmono ?_ ?_ ?_ ?_ ?_ ?_ ?_
  · intro sd hsd; rw [hr] at hsd; exact Or.inl hsd
  · intro ts hts; rw [hd'] at hts; cases hts
  · intro _; rw [hqo]; exact wt_QStep_refl _
  · intro _; rw [hqi]; exact wt_QStep_refl _
  · intro hw; rw [hr]; exact hI.resF hw
  · intro _ hp; rw [hd'] at hp; cases hp
  · intro _ hp; rw [hr] at hp; exact Or.inl hp

theorem wt_dispStep {s s' : State Val Err} {l : Label Val Err}
    (hI : wt_Inv cfg s) (hL : LiveInv cfg s) (h : dispStep cfg s l = some s') :
    wt_Inv cfg s' := by
  have hQI := hI.qiT
  have hDJ := hI.dispJ
  unfold dispStep at h
  split at h
  · cases h
  rename_i pc hd
  split_step h
  all_goals (simp only [Option.some.injEq] at h; subst h)
  all_goals (first
    | (rename_i hx; exact absurd rfl hx)
    | (refine wt_launch cfg hI rfl rfl rfl rfl rfl ?_ ⟨_, rfl⟩; simp [hd]; done)
    | apply wt_frame_disp cfg hI)
  all_goals (first
    | (simp; done)
    | (simp [hd]; done)
    | (simp [taskDone, setQ]; done)
    | (intro _; exact wt_QStep_refl _)
    | (intro _; apply wt_QStep_tail; assumption)
    | (intro ts hts; simp at hts; done)
    | (intro _ hp; simp [wt_dPast] at hp; done)
    | (intro _ hp; left; simp [hd, wt_dPast]; done)
    | (intro _ hp; left; exact hp)
    -- `dGet` of `stop true` with no per-call thread
    | (intro hW hp; right; intro k hk
       rename_i hmap
       simp only [List.map_eq_nil_iff, List.range_eq_nil] at hmap
       omega)
    -- `dGet` of `stop true`
    | (intro ts hts; right
       simp only [Option.some.injEq, DPc.stopping.injEq] at hts
       subst hts
       intro k hk
       exact Or.inl (List.mem_map.2 ⟨k, List.mem_range.2 hk, rfl⟩))
    -- `dGet` of `stop false`: excluded by the flag invariant
    | (intro hW _; exfalso
       have h2 := hQI hW
       simp_all [wt_qT, wt_itemT]
       done)
    -- last `dJoinThread`
    | (intro hW hp; right; intro k hk
       rename_i _ hend hnil
       subst hnil
       rcases hDJ _ hd k hk with h1 | h1
       · simp only [List.mem_singleton] at h1
         rw [h1]; exact wt_ended_of hend
       · exact h1)
    -- `dJoinThread`
    | (intro ts hts; right
       simp only [Option.some.injEq, DPc.stopping.injEq] at hts
       subst hts
       rename_i _ hend _
       intro k hk
       rcases hDJ _ hd k hk with h1 | h1
       · rcases List.mem_cons.1 h1 with h2 | h2
         · right; rw [h2]; exact wt_ended_of hend
         · left; exact h2
       · right; exact h1))

/-! ### the resolver -/

/-- the resolver inside the shutdown of the inner executor -/
theorem wt_res_sd {s s' : State Val Err} {sd : Sd} {l : Label Val Err}
    (hI : wt_Inv cfg s) (hL : LiveInv cfg s) (hr : s.res = some (.inSd sd))
    (h : resStep cfg cancelErr s l = some s') : wt_Inv cfg s' := by
  have hJ := (la_join_iff cfg s).1 hL.join
  have htgt := (hJ.2.2 sd hr).1
  obtain ⟨-, s1, r, hsd, hcase⟩ := ax_res_inSd cfg cancelErr hr h
  obtain ⟨f1, f2, f3, -, -, -, -, -, f9, -⟩ := la_sdStep_frame cfg hsd
  have hwait : wt_W s = true → sd.wait = true := by
    intro hW
    have := hI.resF hW
    rw [hr] at this
    exact this
  rcases hcase with ⟨sd', hr', hs'⟩ | ⟨hr', hs'⟩ | ⟨e, hr', hs'⟩
  · subst hr'
    obtain ⟨j1, j2, j3⟩ := wt_sdStep_J cfg hsd (hI.resJ sd hr)
    have hmono : wt_Mono s s' := by
      subst hs'
      apply wt_mono_of
      · intro hx; rw [hr] at hx; cases hx
      · intro hx; simp only [f3]; exact hx
      · intro k w h1 h2; simp only [f1]; exact ⟨w, h1, h2⟩
    subst hs'
    refine wt_frame cfg hI f9 hmono ?_ ?_ ?_ ?_ ?_ ?_ ?_
    · intro sd2 hsd2
      right
      simp only [Option.some.injEq, RPc.inSd.injEq] at hsd2
      subst hsd2
      exact wt_SdJ_mono cfg hmono (wt_SdJ_norm cfg j3)
    · intro ts hts; exact Or.inl ⟨by simpa only [f3] using hts, by simp only [f1]⟩
    · intro hW; exact (wt_sdStep_items cfg hsd (hwait hW)).1
    · intro hW; exact (wt_sdStep_items cfg hsd (hwait hW)).2
    · intro hW
      simp only [wt_resFlag, wt_sdNorm_wait, j1]
      exact hwait hW
    · intro _ hp; exact Or.inl ⟨by simpa only [f3] using hp, by simp only [f1]⟩
    · intro _ hp; simp [wt_rPast] at hp
  · subst hr'
    have hpc := wt_sdStep_done cfg hsd
    have hmono : wt_Mono s s' := by
      subst hs'
      apply wt_mono_of
      · intro hx; rw [hr] at hx; cases hx
      · intro hx; simp only [f3]; exact hx
      · intro k w h1 h2; simp only [f1]; exact ⟨w, h1, h2⟩
    subst hs'
    refine wt_frame cfg hI f9 hmono ?_ ?_ ?_ ?_ ?_ ?_ ?_
    · intro sd2 hsd2; simp at hsd2
    · intro ts hts; exact Or.inl ⟨by simpa only [f3] using hts, by simp only [f1]⟩
    · intro hW; exact (wt_sdStep_items cfg hsd (hwait hW)).1
    · intro hW; exact (wt_sdStep_items cfg hsd (hwait hW)).2
    · intro _; rfl
    · intro _ hp; exact Or.inl ⟨by simpa only [f3] using hp, by simp only [f1]⟩
    · intro hW _
      right
      intro t ht
      rw [← htgt] at ht
      exact hmono t ((hI.resJ sd hr (hwait hW) t ht).2 (Or.inr hpc))
  · subst hr'
    exact (la_sdStep_noraise cfg hL.noDead hsd).elim

theorem wt_resStep {s s' : State Val Err} {l : Label Val Err}
    (hI : wt_Inv cfg s) (hL : LiveInv cfg s) (h : resStep cfg cancelErr s l = some s') :
    wt_Inv cfg s' := by
  have hH := (la_handle_iff cfg s).1 hL.handle
  have hRF := hI.resF
  have hQO := hI.qoT
  have h0 := h
  unfold resStep at h
  split at h
  · cases h
  rename_i pc hr
  split at h
  case h_13 => exact wt_res_sd cfg cancelErr hI hL hr h0
  case h_16 => cases h
  all_goals (clear h0; split_step h)
  all_goals (simp only [Option.some.injEq] at h; subst h)
  all_goals (first
    | (exfalso; rw [hr] at hH; simp_all; done)
    | apply wt_frame_res cfg hI)
  all_goals (first
    | (simp; done)
    | (simp [taskDone, setQ]; done)
    | (intro hx; rw [hr] at hx; cases hx; done)
    | (intro sd hsd; simp at hsd; done)
    | (intro sd hsd; left; exact hsd)
    | (intro _; exact wt_QStep_refl _)
    | (intro _; apply wt_QStep_tail; assumption)
    | (intro _; exact wt_QStep_put rfl)
    | (intro _ hp; simp [wt_rPast] at hp; done)
    | (intro _ hp; left; simp [hr, wt_rPast]; done)
    | (intro _; simp [wt_resFlag]; done)
    | (intro hW
       have h1 := hRF hW
       have h2 := hQO hW
       rw [hr] at h1
       simp_all [wt_resFlag, wt_qT, wt_itemT, wt_sdNorm_wait]
       done)
    | (intro sd hsd; right
       simp only [Option.some.injEq, RPc.inSd.injEq] at hsd
       subst hsd
       apply wt_SdJ_norm
       apply wt_SdJ_early <;> simp))

/-! ### the user thread -/

/-- frame for a step of the user thread that does not begin a shutdown -/
theorem wt_frame_main {s s' : State Val Err} (hI : wt_Inv cfg s)
    (hwk : s'.wk = s.wk) (hr : s'.res = s.res) (hd : s'.disp = s.disp)
    (hmain : ∀ sd, s'.mainPc = .inSd sd → wt_SdJ cfg s' sd)
    (hW : wt_W s' = true →
      wt_W s = true ∧ wt_QStep s.qo.items s'.qo.items ∧ wt_QStep s.qi.items s'.qi.items) :
    wt_Inv cfg s' := by
  have hmono : wt_Mono s s' := wt_mono_same hwk hr hd
  refine ⟨hmain, ?_, ?_, ?_, ?_, ?_, ?_, ?_⟩
  · intro sd hsd; rw [hr] at hsd
    exact wt_SdJ_mono cfg hmono (hI.resJ sd hsd)
  · intro ts hts k hk
    rw [hd] at hts; rw [hwk] at hk
    rcases hI.dispJ ts hts k hk with h | h
    · exact Or.inl h
    · exact Or.inr (hmono _ h)
  · intro hw
    obtain ⟨h1, h2, -⟩ := hW hw
    exact wt_qT_step (hI.qoT h1) h2
  · intro hw
    obtain ⟨h1, -, h3⟩ := hW hw
    exact wt_qT_step (hI.qiT h1) h3
  · intro hw; rw [hr]; exact hI.resF (hW hw).1
  · intro hw hp k hk
    rw [hd] at hp; rw [hwk] at hk
    exact hmono _ (hI.dispP (hW hw).1 hp k hk)
  · intro hw hp t ht
    rw [hr] at hp
    exact hmono _ (hI.resP (hW hw).1 hp t ht)

theorem wt_qT_of_nStops {q : Queue Val} (h : nStops q = 0) : wt_qT q = true := by
  unfold nStops at h
  unfold wt_qT
  rw [List.all_eq_true]
  intro it hit
  cases it with
  | task i vs => rfl
  | stop w =>
    exfalso
    have := pg_filter_pos (p := isStop) hit rfl
    omega

/-- before the user thread begins to shut the executor down nobody has seen a stop message -/
theorem wt_fresh {s : State Val Err} (hL : LiveInv cfg s) (hA : pg_Aux cfg s)
    (hm : s.mainPc = .idle) (hfo : s.frontOpen = true) :
    rTookStop s.res = false ∧ dTookStop s.disp = false ∧ wt_qT s.qo = true ∧ wt_qT s.qi = true := by
  have hdisp : tookStops s .inner = 0 → dTookStop s.disp = false := by
    intro h0
    cases hd : dTookStop s.disp with
    | false => rfl
    | true => have := pg_tookStops_disp hd; omega
  cases hrs : cfg.resolver with
  | false =>
    have hph : phaseOf cfg s .inner = .opened := by simp [phaseOf, frontQ, hrs, hm, hfo]
    have hst := hL.stopsInner
    simp only [stopsOk, hph, beq_iff_eq] at hst
    have hres : s.res = none := by
      have := pg_shape_res cfg hL
      rw [hrs] at this
      cases hr : s.res with
      | none => rfl
      | some pc => rw [hr] at this; cases this
    have hw := hA.wait
    simp only [pg_waitOk, hres, Bool.and_eq_true, List.isEmpty_iff] at hw
    refine ⟨by rw [hres]; rfl, hdisp (by omega), ?_, wt_qT_of_nStops (by simp only [getQ] at hst; omega)⟩
    simp [wt_qT, hw.2]
  | true =>
    have hph : phaseOf cfg s .outer = .opened := by simp [phaseOf, frontQ, hrs, hm, hfo]
    have hst := hL.stopsOuter hrs
    simp only [stopsOk, hph, beq_iff_eq] at hst
    have hrt : rTookStop s.res = false := by
      cases hr : rTookStop s.res with
      | false => rfl
      | true => have := pg_tookStops_res hr; omega
    have hio : s.innerOpen = true := by
      rcases (la_handle_iff cfg s).1 hL.handle with h | h | h | h
      · exact h
      all_goals (rw [h] at hrt; simp [rTookStop] at hrt)
    have hphi : phaseOf cfg s .inner = .opened := by
      simp only [phaseOf, frontQ, hrs, if_true]
      cases hr : s.res with
      | none => simp [hio]
      | some pc => cases pc <;> simp_all [rTookStop]
    have hsti := hL.stopsInner
    simp only [stopsOk, hphi, beq_iff_eq] at hsti
    exact ⟨hrt, hdisp (by omega), wt_qT_of_nStops (by simp only [getQ] at hst; omega),
      wt_qT_of_nStops (by simp only [getQ] at hsti; omega)⟩

/-- the user thread enters the shutdown procedure -/
theorem wt_begin {s s' : State Val Err} (hI : wt_Inv cfg s) (hL : LiveInv cfg s) (hA : pg_Aux cfg s)
    (hm : s.mainPc = .idle) (hfo : s.frontOpen = true)
    (hwk : s'.wk = s.wk) (hr : s'.res = s.res) (hd : s'.disp = s.disp)
    (hqo : s'.qo = s.qo) (hqi : s'.qi = s.qi)
    (hmain : ∀ sd, s'.mainPc = .inSd sd → wt_SdJ cfg s' sd) : wt_Inv cfg s' := by
  obtain ⟨h1, h2, h3, h4⟩ := wt_fresh cfg hL hA hm hfo
  refine ⟨hmain, ?_, ?_, ?_, ?_, ?_, ?_, ?_⟩
  · intro sd hsd; rw [hr] at hsd
    rw [hsd] at h1; simp [rTookStop] at h1
  · intro ts hts; rw [hd] at hts
    rw [hts] at h2; simp [dTookStop] at h2
  · intro _; rw [hqo]; exact h3
  · intro _; rw [hqi]; exact h4
  · intro _; rw [hr]
    cases hres : s.res with
    | none => rfl
    | some pc =>
      rw [hres] at h1
      cases pc <;> first | rfl | (simp [rTookStop] at h1; done) | skip
      rename_i i e ret
      cases ret <;> first | rfl | (simp [rTookStop] at h1; done)
  · intro _ hp; rw [hd] at hp
    exfalso
    cases hdd : s.disp with
    | none => rw [hdd] at hp; simp [wt_dPast] at hp
    | some pc => rw [hdd] at hp h2; cases pc <;> simp_all [wt_dPast, dTookStop]
  · intro _ hp; rw [hr] at hp
    exfalso
    cases hres : s.res with
    | none => rw [hres] at hp; simp [wt_rPast] at hp
    | some pc => rw [hres] at hp h1; cases pc <;> simp_all [wt_rPast, rTookStop]

/-- the user thread inside the shutdown procedure -/
theorem wt_main_sd {s s' : State Val Err} {sd : Sd} {l : Label Val Err}
    (hI : wt_Inv cfg s) (hL : LiveInv cfg s) (hm : s.mainPc = .inSd sd)
    (h : mainStep cfg s l = some s') : wt_Inv cfg s' := by
  obtain ⟨s1, r, hsd, hcase⟩ := ax_main_inSd cfg hm h
  obtain ⟨f1, f2, f3, -, -, -, -, -, -, -⟩ := la_sdStep_frame cfg hsd
  rcases hcase with ⟨sd', hr', hs'⟩ | ⟨hr', hs'⟩ | ⟨e, hr', hs'⟩
  · subst hr'
    obtain ⟨j1, j2, j3⟩ := wt_sdStep_J cfg hsd (hI.mainJ sd hm)
    subst hs'
    have hmono : wt_Mono s { s1 with mainPc := MainPc.inSd (sdNorm cfg sd') } :=
      wt_mono_same f1 f2 f3
    refine wt_frame_main cfg hI f1 f2 f3 ?_ ?_
    · intro sd2 hsd2
      simp only [MainPc.inSd.injEq] at hsd2
      subst hsd2
      exact wt_SdJ_mono cfg hmono (wt_SdJ_norm cfg j3)
    · intro hW
      simp only [wt_W, wt_sdNorm_wait, j1] at hW
      have := wt_sdStep_items cfg hsd hW
      exact ⟨by simp only [wt_W, hm]; exact hW, this.1, this.2⟩
  · subst hs'
    refine wt_frame_main cfg hI f1 f2 f3 ?_ ?_
    · intro sd2 hsd2; simp at hsd2
    · intro hW; simp [wt_W] at hW
  · subst hr'
    exact (la_sdStep_noraise cfg hL.noDead hsd).elim

theorem wt_mainStep {s s' : State Val Err} {l : Label Val Err}
    (hI : wt_Inv cfg s) (hL : LiveInv cfg s) (hA : pg_Aux cfg s)
    (h : mainStep cfg s l = some s') : wt_Inv cfg s' := by
  have h0 := h
  unfold mainStep at h
  split at h
  case h_7 => cases h
  case h_6 => rename_i sd hm; exact wt_main_sd cfg hI hL hm h0
  all_goals (clear h0; rename_i hm; split_step h)
  all_goals (simp only [Option.some.injEq] at h; subst h)
  all_goals (first
    | (refine wt_frame_main cfg hI ?_ ?_ ?_ ?_ ?_
       · simp
       · simp
       · simp
       · intro sd hsd; simp [hm] at hsd
       · intro hW; simp [wt_W, hm] at hW
       done)
    | (refine wt_begin cfg hI hL hA hm ?_ rfl rfl rfl rfl rfl ?_
       · assumption
       · intro sd hsd
         simp only [MainPc.inSd.injEq] at hsd
         subst hsd
         apply wt_SdJ_norm
         apply wt_SdJ_early <;> simp))

/-! ### the invariant is inductive -/

theorem wt_init (script : List Cmd) : wt_Inv cfg (init cfg script : State Val Err) := by
  refine ⟨?_, ?_, ?_, ?_, ?_, ?_, ?_, ?_⟩
  · intro sd h; simp [init] at h
  · intro sd h; simp only [init] at h; split at h <;> simp at h
  · intro ts h; simp only [init] at h; split at h <;> simp at h
  all_goals (intro hW; simp [wt_W, init] at hW)

theorem wt_waitInv_init (script : List Cmd) : wt_waitInv cfg (init cfg script : State Val Err) = true :=
  (wt_waitInv_iff cfg _).2 (wt_init cfg script)

/-- `wt_Inv` is preserved by every step of a run without failing calls (relative to the protocol
    invariant `Live` and the auxiliary invariants `ax_Aux`). -/
theorem wt_step (hnf : NoFail eval) {s s' : State Val Err} {l : Label Val Err}
    (hL : Live cfg s) (hX : ax_Aux cfg s) (hI : wt_Inv cfg s)
    (h : step cfg eval cancelErr s l = some s') : wt_Inv cfg s' := by
  unfold step at h
  split at h
  all_goals first
    | exact wt_mainStep cfg hI hL.inv hX.aux h
    | exact wt_resStep cfg cancelErr hI hL.inv h
    | exact wt_dispStep cfg hI hL.inv h
    | exact wt_workerStep cfg eval hnf hI hL.inv h

theorem wt_waitInv_step (hnf : NoFail eval) {s s' : State Val Err} {l : Label Val Err}
    (hL : Live cfg s) (hX : ax_Aux cfg s) (hI : wt_waitInv cfg s = true)
    (h : step cfg eval cancelErr s l = some s') : wt_waitInv cfg s' = true :=
  (wt_waitInv_iff cfg _).2 (wt_step cfg eval cancelErr hnf hL hX ((wt_waitInv_iff cfg _).1 hI) h)

theorem wt_run (hnf : NoFail eval) (hpos : ∀ n, cfg.block = some n → 0 < n)
    {s0 s : State Val Err} (ls : List (Label Val Err)) (hC : Core s0) (hL : Live cfg s0)
    (hX : ax_Aux cfg s0) (hI : wt_Inv cfg s0) (h : run cfg eval cancelErr s0 ls = some s) :
    wt_Inv cfg s := by
  induction ls generalizing s0 with
  | nil => simp [run] at h; subst h; exact hI
  | cons l ls ih =>
    simp only [run, Option.bind_eq_some_iff] at h
    obtain ⟨s1, h1, h2⟩ := h
    exact ih (core_step cfg eval cancelErr hC h1) (live_step cfg eval cancelErr hnf hC hL h1)
      (ax_aux_step cfg eval cancelErr hnf hpos hC hL hX h1)
      (wt_step cfg eval cancelErr hnf hL hX hI h1) h2

/-- The new invariant holds in every reachable state of a run without failing calls. -/
theorem wt_reachable (hnf : NoFail eval) (hpos : ∀ n, cfg.block = some n → 0 < n)
    {script : List Cmd} {s : State Val Err} (h : Reachable cfg eval cancelErr script s) :
    wt_Inv cfg s := by
  obtain ⟨ls, hls⟩ := h
  exact wt_run cfg eval cancelErr hnf hpos ls (core_init cfg script) (live_init cfg script)
    (ax_aux_init cfg script) (wt_init cfg script) hls

theorem wt_waitInv_reachable (hnf : NoFail eval) (hpos : ∀ n, cfg.block = some n → 0 < n)
    {script : List Cmd} {s : State Val Err} (h : Reachable cfg eval cancelErr script s) :
    wt_waitInv cfg s = true :=
  (wt_waitInv_iff cfg s).2 (wt_reachable cfg eval cancelErr hnf hpos h)

/-! ### the instant `shutdown(wait=True)` returns -/

/-- at the end of `shutdown(wait=True)` every thread of the executor has exited -/
theorem wt_all_exited {s : State Val Err} (hL : LiveInv cfg s) (hI : wt_Inv cfg s) {sd : Sd}
    (hm : s.mainPc = .inSd sd) (hpc : sd.pc = .finish) (hw : sd.wait = true) :
    (∀ w ∈ s.wk, w.pc = .exited) ∧ (cfg.resolver = true → s.res = some .exited) ∧
    (cfg.block = none → s.disp = some .exited) := by
  have hW : wt_W s = true := by simp only [wt_W, hm]; exact hw
  have htgt : sd.target = frontQ cfg := ((la_join_iff cfg s).1 hL.join).2.1 sd hm
  have hfront : ∀ t ∈ threadsOf cfg (frontQ cfg), wt_ended s t = true := by
    intro t ht
    rw [← htgt] at ht
    exact (hI.mainJ sd hm hw t ht).2 (Or.inr hpc)
  have hres : cfg.resolver = true → s.res = some .exited := by
    intro hrs
    have hf : frontQ cfg = .outer := by simp [frontQ, hrs]
    rw [hf] at hfront
    exact (wt_ended_res s).1 (hfront .resolver (by simp [threadsOf]))
  have hinner : ∀ t ∈ threadsOf cfg .inner, wt_ended s t = true := by
    cases hrs : cfg.resolver with
    | false =>
      have hf : frontQ cfg = .inner := by simp [frontQ, hrs]
      rw [hf] at hfront
      exact hfront
    | true =>
      have hr := hres hrs
      exact hI.resP hW (by rw [hr]; rfl)
  have hdisp : cfg.block = none → s.disp = some .exited := by
    intro hb
    exact (wt_ended_disp s).1 (hinner .disp (by simp [threadsOf, hb]))
  refine ⟨?_, hres, hdisp⟩
  have hall : ∀ k, k < s.wk.length → wt_ended s (.worker k) = true := by
    cases hb : cfg.block with
    | some n =>
      obtain ⟨-, hlen, -⟩ := pg_shape_block cfg hL hb
      intro k hk
      apply hinner
      simp only [threadsOf, hb, List.mem_map, List.mem_range]
      exact ⟨k, by omega, rfl⟩
    | none =>
      have hd := hdisp hb
      exact hI.dispP hW (by rw [hd]; rfl)
  intro w hw'
  obtain ⟨k, hlt, hkw⟩ := List.getElem_of_mem hw'
  have h1 := (wt_ended_wk s k).1 (hall k hlt)
  obtain ⟨w1, h2, h3⟩ := h1
  have hk : s.wk[k]? = some w := by simp [hlt, hkw]
  rw [hk] at h2
  simp only [Option.some.injEq] at h2
  subst h2
  exact h3

theorem wt_qCnt_zero {q : Queue Val} (h : taskIds q = []) (i : Nat) : qCnt i q = 0 := by
  rcases Nat.eq_zero_or_pos (qCnt i q) with h0 | h0
  · exact h0
  · have := pg_mem_taskIds_of_qCnt h0
    rw [h] at this; cases this

/-- once every thread has exited no place of the system holds a call -/
theorem wt_cnt_zero (hpos : ∀ n, cfg.block = some n → 0 < n) {s : State Val Err}
    (hL : LiveInv cfg s) (hA : pg_Aux cfg s) {sd : Sd}
    (hm : s.mainPc = .inSd sd) (hpc : sd.pc = .finish)
    (hwk : ∀ w ∈ s.wk, w.pc = .exited) (hres : cfg.resolver = true → s.res = some .exited)
    (hdisp : cfg.block = none → s.disp = some .exited) (i : Nat) : cnt s i = 0 := by
  have hwks : (s.wk.map (wkCnt i)).sum = 0 := by
    rcases Nat.eq_zero_or_pos (s.wk.map (wkCnt i)).sum with h | h
    · exact h
    · exfalso
      obtain ⟨k, w, hk, hw⟩ := pg_sum_map_pos _ _ h
      have := hwk w (pg_mem_of_getElem? hk)
      simp [wkCnt, wpcCnt, this] at hw
  have hmain : mainCnt i s.mainPc = 0 := by simp [hm, mainCnt, sdCnt, hpc]
  have hrn : cfg.resolver = false → s.res = none := by
    intro hrs
    have := pg_shape_res cfg hL
    rw [hrs] at this
    cases hr : s.res with
    | none => rfl
    | some pc => rw [hr] at this; cases this
  have hresc : resCnt i s.res = 0 := by
    cases hrs : cfg.resolver with
    | true => simp [hres hrs, resCnt]
    | false => simp [hrn hrs, resCnt]
  have hdispc : dispCnt i s.disp = 0 := by
    cases hb : cfg.block with
    | none => simp [hdisp hb, dispCnt]
    | some n => simp [(pg_shape_block cfg hL hb).1, dispCnt]
  have hwait : s.waitLst.count i = 0 := by
    have hw := hA.wait
    cases hrs : cfg.resolver with
    | true =>
      simp only [pg_waitOk, hres hrs, List.isEmpty_iff] at hw
      simp [hw]
    | false =>
      simp only [pg_waitOk, hrn hrs, Bool.and_eq_true, List.isEmpty_iff] at hw
      simp [hw.1]
  have hqo : qCnt i s.qo = 0 := by
    cases hrs : cfg.resolver with
    | true =>
      have ht : 1 ≤ tookStops s .outer := pg_tookStops_res (by rw [hres hrs]; rfl)
      have := pg_order_nil hL.orderOuter ht
      exact wt_qCnt_zero this i
    | false =>
      have hw := hA.wait
      simp only [pg_waitOk, hrn hrs, Bool.and_eq_true, List.isEmpty_iff] at hw
      simp [qCnt, hw.2]
  have hqi : qCnt i s.qi = 0 := by
    have ht : 1 ≤ tookStops s .inner := by
      cases hb : cfg.block with
      | some n =>
        obtain ⟨-, hlen, hall⟩ := pg_shape_block cfg hL hb
        have hn := hpos n hb
        have hk : s.wk[0]? = some (s.wk[0]'(by omega)) := by simp [List.getElem?_eq_getElem]
        have hmem := pg_mem_of_getElem? hk
        exact pg_tookStops_wk hk (hall _ hmem) (by rw [hwk _ hmem]; rfl)
      | none => exact pg_tookStops_disp (by rw [hdisp hb]; rfl)
    have := pg_order_nil hL.orderInner ht
    exact wt_qCnt_zero this i
  have hqp : (s.qp.map (qCnt i)).sum = 0 := by
    rcases Nat.eq_zero_or_pos (s.qp.map (qCnt i)).sum with h | h
    · exact h
    · exfalso
      obtain ⟨a, q, ha, hq⟩ := pg_sum_map_pos _ _ h
      have halt := pg_lt_of_getElem? ha
      have hgq : getQ s (.priv a) = q := by
        simp [getQ, List.getD_eq_getElem?_getD, ha]
      have hmm := pg_mem_taskIds_of_qCnt hq
      have hne := pg_items_ne_nil_of_taskIds hmm
      rw [← hgq] at hmm hne
      cases hwo : s.wkOf.getD a none with
      | none => exact hne (pg_priv_none cfg hL halt hwo)
      | some k =>
        obtain ⟨w, hk, hwq, -, ho, -⟩ := pg_priv_of_wkOf cfg hL hwo
        have ht : 1 ≤ tookStops s (.priv a) :=
          pg_tookStops_wk hk hwq (by rw [hwk _ (pg_mem_of_getElem? hk)]; rfl)
        have := pg_order_nil ho ht
        rw [this] at hmm; cases hmm
  simp only [cnt]
  omega

/-- When `shutdown(wait=True)` is about to return, every accepted future is done and every worker
    process has exited — from the invariants. -/
theorem wt_after_wait_true (hpos : ∀ n, cfg.block = some n → 0 < n) {s : State Val Err}
    (hL : LiveInv cfg s) (hX : ax_Aux cfg s) (hI : wt_Inv cfg s) {sd : Sd}
    (hm : s.mainPc = .inSd sd) (hpc : sd.pc = .finish) (hw : sd.wait = true) :
    allAcceptedDone s = true ∧ noProcessAlive s = true := by
  obtain ⟨hwk, hres, hdisp⟩ := wt_all_exited cfg hL hI hm hpc hw
  refine ⟨?_, ?_⟩
  · simp only [allAcceptedDone, List.all_eq_true, List.mem_range]
    intro i hi
    have hc := wt_cnt_zero cfg hpos hL hX.aux hm hpc hwk hres hdisp i
    cases hf : futOf s i with
    | pending => have := pg_coverage cfg hL hi (Or.inl hf); omega
    | running => have := pg_coverage cfg hL hi (Or.inr hf); omega
    | _ => simp [Fut.done]
  · simp only [noProcessAlive, List.all_eq_true]
    intro w hw'
    have hp := hX.proc2
    simp only [ax_procOk, List.all_eq_true] at hp
    have := hp w hw'
    simpa [ax_wProc, hwk w hw'] using this

/-- When shutdown(wait=True) is about to return, every accepted future is done and every worker process has exited.
    (Hypothesis `WfRes` on the whole program; `after_wait_true_lim` below is the stronger theorem.) -/
theorem after_wait_true (hnf : NoFail eval) (hwf : WfCfg cfg) (hres : WfRes cfg) {script : List Cmd} {s : State Val Err}
    (hsc : (script.filter isSubmit).length ≤ cfg.calls.length)
    (h : Reachable cfg eval cancelErr script s) (hD : pg_depOk cfg s = true)
    {sd : Sd} (hm : s.mainPc = .inSd sd) (hpc : sd.pc = .finish) (hw : sd.wait = true) :
    allAcceptedDone s = true ∧ noProcessAlive s = true := by
  obtain ⟨-, hL, hX, -⟩ := ax_progress_hyps_reachable cfg eval cancelErr hnf hres.2 hsc h
  have hI := wt_reachable cfg eval cancelErr hnf hres.2 h
  exact wt_after_wait_true cfg hres.2 hL.inv hX hI hm hpc hw

/-- `after_wait_true` under the limit-level hypothesis `WfLim` instead of `WfRes`: nothing is
    assumed of the program's calls (this safety form only ever needed "a block allocation has a
    worker", which both hypotheses contain). -/
theorem after_wait_true_lim (hnf : NoFail eval) (hwf : WfCfg cfg) (hl : WfLim cfg) {script : List Cmd} {s : State Val Err}
    (hsc : (script.filter isSubmit).length ≤ cfg.calls.length)
    (h : Reachable cfg eval cancelErr script s) (hD : pg_depOk cfg s = true)
    {sd : Sd} (hm : s.mainPc = .inSd sd) (hpc : sd.pc = .finish) (hw : sd.wait = true) :
    allAcceptedDone s = true ∧ noProcessAlive s = true := by
  obtain ⟨-, hL, hX, -⟩ := ax_progress_hyps_reachable cfg eval cancelErr hnf hl.1 hsc h
  have hI := wt_reachable cfg eval cancelErr hnf hl.1 h
  exact wt_after_wait_true cfg hl.1 hL.inv hX hI hm hpc hw

end ExecModel.Sys
