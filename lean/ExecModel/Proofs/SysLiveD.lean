import ExecModel.Proofs.SysLiveBasic
import ExecModel.Proofs.SysCancel
/-!
  Agreement between tokens and futures for `Sys`: `tokenStateOk` (a call that sits in a place from
  which it has not yet been offered to a worker process has a pending or cancelled future) and
  `coverageOk` (a pending or running future is held by some place) are preserved by every step.
-/
set_option linter.unusedSimpArgs false
set_option linter.unusedVariables false
namespace ExecModel.Sys

variable {Val Err : Type}

/-! ### the pre-run part of the token count -/

def ld_wpcPre (i : Nat) : WPc Val Err → Nat
  | .gotTask j _ => if j = i then 1 else 0
  | _ => 0

def ld_wkPre (i : Nat) (w : Worker Val Err) : Nat := ld_wpcPre i w.pc

def ld_resPre (i : Nat) : Option (RPc Val Err) → Nat
  | some (.gotTask j) | some (.ready j) => if j = i then 1 else 0
  | _ => 0

/-- Number of pre-run places (those inspected by `tokenStateOk`) holding call `i`. -/
def ld_pre (s : State Val Err) (i : Nat) : Nat :=
  qCnt i s.qo + qCnt i s.qi + (s.qp.map (qCnt i)).sum + mainCnt i s.mainPc + ld_resPre i s.res
    + s.waitLst.count i + dispCnt i s.disp + (s.wk.map (ld_wkPre i)).sum

def ld_live : Fut Val Err → Bool
  | .pending | .running => true
  | _ => false

/-! ### the Bool invariants as statements about counts -/

theorem ld_all_sum {α : Type} (f : Nat → α → Nat) (g : α → Bool) (p : Nat → Bool)
    (hg : ∀ a, g a = true ↔ ∀ i, 1 ≤ f i a → p i = true) (l : List α) :
    l.all g = true ↔ ∀ i, 1 ≤ (l.map (f i)).sum → p i = true := by
  induction l with
  | nil => simp
  | cons a l ih =>
    simp only [List.all_cons, Bool.and_eq_true, List.map_cons, List.sum_cons, ih, hg]
    constructor
    · rintro ⟨h1, h2⟩ i hi
      by_cases h : 1 ≤ f i a
      · exact h1 i h
      · exact h2 i (by omega)
    · intro h
      exact ⟨fun i hi => h i (by omega), fun i hi => h i (by omega)⟩

theorem ld_taskIds_all (p : Nat → Bool) (q : Queue Val) :
    (taskIds q).all p = true ↔ ∀ i, 1 ≤ qCnt i q → p i = true := by
  have h1 : (taskIds q).all p = q.items.all (fun it => match it with
      | .task i _ => p i
      | .stop _ => true) := by
    unfold taskIds
    induction q.items with
    | nil => rfl
    | cons it r ih => cases it <;> simp [List.filterMap_cons, ih]
  rw [h1]
  unfold qCnt
  apply ld_all_sum
  intro a
  cases a with
  | task j vs =>
    simp only [itemCnt]
    constructor
    · intro h i hi
      by_cases hji : j = i
      · subst hji; exact h
      · simp [hji] at hi
    · intro h; exact h j (by simp)
  | stop w => simp [itemCnt]

theorem ld_qp_all (p : Nat → Bool) (qp : List (Queue Val)) :
    qp.all (fun q => (taskIds q).all p) = true ↔ ∀ i, 1 ≤ (qp.map (qCnt i)).sum → p i = true :=
  ld_all_sum (fun i q => qCnt i q) _ p (fun q => ld_taskIds_all p q) qp

theorem ld_wk_all (p : Nat → Bool) (wk : List (Worker Val Err)) :
    (∀ w ∈ wk, ∀ i vs, w.pc = .gotTask i vs → p i = true) ↔
      ∀ i, 1 ≤ (wk.map (ld_wkPre i)).sum → p i = true := by
  have := ld_all_sum (fun i (w : Worker Val Err) => ld_wkPre i w)
    (fun w => match w.pc with
      | .gotTask i _ => p i
      | _ => true) p (by
      intro w
      unfold ld_wkPre ld_wpcPre
      cases w.pc <;> simp
      rename_i j vs
      constructor
      · intro h i hi
        by_cases hji : j = i
        · subst hji; exact h
        · simp [hji] at hi
      · intro h; exact h j (by simp)) wk
  rw [← this, List.all_eq_true]
  constructor
  · intro h w hw
    split
    · rename_i j vs hpc; exact h w hw j vs hpc
    · rfl
  · intro h w hw i vs hpc
    have := h w hw
    simpa [hpc] using this

theorem ld_wait_all (p : Nat → Bool) (l : List Nat) :
    l.all p = true ↔ ∀ i, 1 ≤ l.count i → p i = true := by
  simp only [List.all_eq_true, List.one_le_count_iff]

theorem ld_tokenStateOk_iff (s : State Val Err) :
    tokenStateOk s = true ↔ ∀ i, 1 ≤ ld_pre s i → futPre s i = true := by
  unfold tokenStateOk
  simp only [Bool.and_eq_true]
  rw [ld_taskIds_all, ld_taskIds_all, ld_qp_all, ld_wait_all]
  have hwk : (s.wk.all (fun w => match w.pc with
      | .gotTask i _ => futPre s i
      | _ => true) = true) ↔ ∀ i, 1 ≤ (s.wk.map (ld_wkPre i)).sum → futPre s i = true := by
    rw [← ld_wk_all, List.all_eq_true]
    constructor
    · intro h w hw i vs hpc
      have := h w hw
      simpa [hpc] using this
    · intro h w hw
      split
      · rename_i j vs hpc; exact h w hw j vs hpc
      · rfl
  unfold ld_pre
  constructor
  · rintro ⟨⟨⟨⟨⟨⟨⟨h1, h2⟩, h3⟩, h4⟩, h5⟩, h6⟩, h7⟩, h8⟩ i hi
    by_cases c1 : 1 ≤ qCnt i s.qo
    · exact h1 i c1
    by_cases c2 : 1 ≤ qCnt i s.qi
    · exact h2 i c2
    by_cases c3 : 1 ≤ (s.qp.map (qCnt i)).sum
    · exact h3 i c3
    by_cases c4 : 1 ≤ s.waitLst.count i
    · exact h4 i c4
    by_cases c5 : 1 ≤ ld_resPre i s.res
    · unfold ld_resPre at c5
      split at c5
      · rename_i j hr
        simp only [hr] at h5
        by_cases hji : j = i
        · subst hji; exact h5
        · simp [hji] at c5
      · rename_i j hr
        simp only [hr] at h5
        by_cases hji : j = i
        · subst hji; exact h5
        · simp [hji] at c5
      · omega
    by_cases c6 : 1 ≤ dispCnt i s.disp
    · unfold dispCnt at c6
      split at c6
      · rename_i j vs r hr
        simp only [hr] at h6
        by_cases hji : j = i
        · subst hji; exact h6
        · simp [hji] at c6
      · omega
    by_cases c7 : 1 ≤ (s.wk.map (ld_wkPre i)).sum
    · exact hwk.1 h7 i c7
    have c8 : 1 ≤ mainCnt i s.mainPc := by omega
    unfold mainCnt at c8
    split at c8
    · rename_i sd hm
      unfold sdCnt at c8
      split at c8
      · rename_i j hpc
        simp only [mainSd, hm, hpc] at h8
        by_cases hji : j = i
        · subst hji; exact h8
        · simp [hji] at c8
      · omega
    · omega
  · intro h
    refine ⟨⟨⟨⟨⟨⟨⟨?_, ?_⟩, ?_⟩, ?_⟩, ?_⟩, ?_⟩, ?_⟩, ?_⟩
    · intro i hi; exact h i (by omega)
    · intro i hi; exact h i (by omega)
    · intro i hi; exact h i (by omega)
    · intro i hi; exact h i (by omega)
    · split
      · rename_i j hr; exact h j (by simp [hr, ld_resPre]; omega)
      · rename_i j hr; exact h j (by simp [hr, ld_resPre]; omega)
      · rfl
    · split
      · rename_i j vs r hr; exact h j (by simp [hr, dispCnt]; omega)
      · rfl
    · apply hwk.2; intro i hi; exact h i (by omega)
    · split
      · rename_i sd hm
        split
        · rename_i j hpc
          have hm' : s.mainPc = .inSd sd := by
            unfold mainSd at hm
            split at hm
            · simp_all
            · cases hm
          exact h j (by simp [hm', mainCnt, sdCnt, hpc]; omega)
        · rfl
      · rfl

theorem ld_coverageOk_iff (s : State Val Err) :
    coverageOk s = true ↔ ∀ i, i < s.nsub → ld_live (futOf s i) = true → 1 ≤ cnt s i := by
  unfold coverageOk
  simp only [List.all_eq_true, List.mem_range]
  constructor
  · intro h i hi hl
    have := h i hi
    unfold ld_live at hl
    split at hl <;> simp_all
  · intro h i hi
    have := h i hi
    unfold ld_live at this
    split <;> simp_all

/-! ### exact arithmetic of the two counts under the state updates -/

/-- queue `q` exists (private queues are indexed by call id) -/
def ld_InR (s : State Val Err) : QId → Prop
  | .priv j => j < s.qp.length
  | _ => True

theorem ld_inR_of_items {s : State Val Err} {q : QId} {it : Item Val} {r : List (Item Val)}
    (h : (getQ s q).items = it :: r) : ld_InR s q := by
  cases q with
  | outer => trivial
  | inner => trivial
  | priv j =>
    show j < s.qp.length
    rcases Nat.lt_or_ge j s.qp.length with hlt | hge
    · exact hlt
    · simp [getQ, List.getD_eq_getElem?_getD, List.getElem?_eq_none hge] at h

theorem ld_qp_set_eq (i : Nat) (qp : List (Queue Val)) (j : Nat) (v : Queue Val) (h : j < qp.length) :
    ((qp.set j v).map (qCnt i)).sum + qCnt i (qp.getD j {}) = (qp.map (qCnt i)).sum + qCnt i v := by
  have h1 : qp[j]? = some qp[j] := List.getElem?_eq_getElem h
  have := sum_map_set (qCnt i) qp j qp[j] v h1
  simp only [List.getD_eq_getElem?_getD, h1, Option.getD_some]; omega

theorem ld_qp_set_same (i : Nat) (qp : List (Queue Val)) (j : Nat) (v : Queue Val)
    (h : qCnt i v = qCnt i (qp.getD j {})) :
    ((qp.set j v).map (qCnt i)).sum = (qp.map (qCnt i)).sum := by
  rcases Nat.lt_or_ge j qp.length with hlt | hge
  · have := ld_qp_set_eq i qp j v hlt; omega
  · rw [List.set_eq_of_length_le hge]

theorem ld_cnt_setQ {s : State Val Err} {q : QId} (hq : ld_InR s q) (v : Queue Val) (i : Nat) :
    cnt (setQ s q v) i + qCnt i (getQ s q) = cnt s i + qCnt i v := by
  cases q with
  | outer => simp only [cnt, setQ, getQ]; omega
  | inner => simp only [cnt, setQ, getQ]; omega
  | priv j =>
    have := ld_qp_set_eq i s.qp j v hq
    simp only [cnt, setQ, getQ]; omega

theorem ld_pre_setQ {s : State Val Err} {q : QId} (hq : ld_InR s q) (v : Queue Val) (i : Nat) :
    ld_pre (setQ s q v) i + qCnt i (getQ s q) = ld_pre s i + qCnt i v := by
  cases q with
  | outer => simp only [ld_pre, setQ, getQ]; omega
  | inner => simp only [ld_pre, setQ, getQ]; omega
  | priv j =>
    have := ld_qp_set_eq i s.qp j v hq
    simp only [ld_pre, setQ, getQ]; omega

theorem ld_cnt_setQ_same {s : State Val Err} {q : QId} {v : Queue Val} {i : Nat}
    (h : qCnt i v = qCnt i (getQ s q)) : cnt (setQ s q v) i = cnt s i := by
  cases q with
  | outer => simp only [getQ] at h; simp only [cnt, setQ]; omega
  | inner => simp only [getQ] at h; simp only [cnt, setQ]; omega
  | priv j =>
    have := ld_qp_set_same i s.qp j v h
    simp only [cnt, setQ]; omega

theorem ld_pre_setQ_same {s : State Val Err} {q : QId} {v : Queue Val} {i : Nat}
    (h : qCnt i v = qCnt i (getQ s q)) : ld_pre (setQ s q v) i = ld_pre s i := by
  cases q with
  | outer => simp only [getQ] at h; simp only [ld_pre, setQ]; omega
  | inner => simp only [getQ] at h; simp only [ld_pre, setQ]; omega
  | priv j =>
    have := ld_qp_set_same i s.qp j v h
    simp only [ld_pre, setQ]; omega

@[simp] theorem ld_cnt_taskDone (s : State Val Err) (q : QId) (i : Nat) : cnt (taskDone s q) i = cnt s i :=
  ld_cnt_setQ_same rfl

@[simp] theorem ld_pre_taskDone (s : State Val Err) (q : QId) (i : Nat) :
    ld_pre (taskDone s q) i = ld_pre s i :=
  ld_pre_setQ_same rfl

@[simp] theorem ld_pre_setFut (s : State Val Err) (j : Nat) (f : Fut Val Err) (i : Nat) :
    ld_pre (setFut s j f) i = ld_pre s i := rfl

theorem ld_pre_setWk {s : State Val Err} {k : Nat} {w : Worker Val Err} (w' : Worker Val Err) (i : Nat)
    (hk : s.wk[k]? = some w) : ld_pre (setWk s k w') i + ld_wkPre i w = ld_pre s i + ld_wkPre i w' := by
  have := sum_map_set (ld_wkPre i) s.wk k w w' hk
  simp only [ld_pre, setWk]; omega

theorem ld_sum_map_le {α : Type} (f g : α → Nat) (h : ∀ a, f a ≤ g a) (l : List α) :
    (l.map f).sum ≤ (l.map g).sum := by
  induction l with
  | nil => simp
  | cons a l ih => have := h a; simp only [List.map_cons, List.sum_cons]; omega

theorem ld_wkPre_le (i : Nat) (w : Worker Val Err) : ld_wkPre i w ≤ wkCnt i w := by
  unfold ld_wkPre wkCnt ld_wpcPre wpcCnt
  cases w.pc <;> simp

theorem ld_resPre_le (i : Nat) (r : Option (RPc Val Err)) : ld_resPre i r ≤ resCnt i r := by
  unfold ld_resPre resCnt
  split <;> simp

theorem ld_pre_le_cnt (s : State Val Err) (i : Nat) : ld_pre s i ≤ cnt s i := by
  have h1 := ld_sum_map_le (ld_wkPre i) (wkCnt i) (ld_wkPre_le i) s.wk
  have h2 := ld_resPre_le i s.res
  simp only [ld_pre, cnt]; omega

/-! ### what one step does to one call -/

/-- The three facts about call `i` from which both invariants follow. -/
def ld_Delta (s s' : State Val Err) (i : Nat) : Prop :=
  (1 ≤ ld_pre s' i → 1 ≤ ld_pre s i ∨ futOf s' i = .pending) ∧
  (futPre s i = true → futPre s' i = true ∨ ld_pre s' i = 0) ∧
  (ld_live (futOf s' i) = true → (ld_live (futOf s i) = true ∧ cnt s i ≤ cnt s' i) ∨ 1 ≤ cnt s' i)

theorem ld_delta_frame {s s' : State Val Err} {i : Nat} (hf : s'.fut = s.fut)
    (hp : ld_pre s' i ≤ ld_pre s i) (hc : cnt s i ≤ cnt s' i) : ld_Delta s s' i := by
  have e : futOf s' i = futOf s i := futOf_congr hf i
  refine ⟨fun h => Or.inl (by omega), fun h => Or.inl ?_, fun h => Or.inl ⟨?_, hc⟩⟩
  · simpa [futPre, e] using h
  · simpa [e] using h

theorem ld_delta_set {s s' : State Val Err} {i j : Nat} {f : Fut Val Err}
    (hf : s'.fut = s.fut.set j f)
    (hp : ld_pre s' i ≤ ld_pre s i)
    (h2 : i = j → (futOf s j = .pending ∨ futOf s j = .cancelled) →
      (f = .pending ∨ f = .cancelled) ∨ ld_pre s' j = 0)
    (h3 : i = j → (f = .pending ∨ f = .running) →
      (futOf s j = .pending ∨ futOf s j = .running) ∧ cnt s j ≤ cnt s' j)
    (h3' : i ≠ j → cnt s i ≤ cnt s' i) : ld_Delta s s' i := by
  have e : futOf s' i = if j = i ∧ j < s.fut.length then f else futOf s i := by
    have := futOf_setFut s j i f
    simp only [futOf, setFut] at this
    simp only [futOf, hf]; exact this
  by_cases hij : i = j
  · subst hij
    by_cases hlt : i < s.fut.length
    · simp only [hlt, and_self, if_true] at e
      refine ⟨fun h => Or.inl (by omega), fun h => ?_, fun h => ?_⟩
      · have hs : futOf s i = .pending ∨ futOf s i = .cancelled := by
          unfold futPre at h; split at h <;> simp_all
        rcases h2 rfl hs with h | h
        · left; unfold futPre; rw [e]; rcases h with h | h <;> simp [h]
        · right; exact h
      · have hs : f = .pending ∨ f = .running := by
          rw [e] at h; unfold ld_live at h; split at h <;> simp_all
        obtain ⟨h4, h5⟩ := h3 rfl hs
        left
        refine ⟨?_, h5⟩
        rcases h4 with h4 | h4 <;> simp [h4, ld_live]
    · simp only [hlt, and_false, if_false] at e
      have h0 : futOf s i = .absent := by
        simp [futOf, List.getD_eq_getElem?_getD, List.getElem?_eq_none (Nat.le_of_not_lt hlt)]
      refine ⟨fun h => Or.inl (by omega), fun h => ?_, fun h => ?_⟩
      · simp [futPre, h0] at h
      · simp [e, h0, ld_live] at h
  · have hji : ¬ j = i := fun h => hij h.symm
    simp only [hji, false_and, if_false] at e
    have hc := h3' hij
    refine ⟨fun h => Or.inl (by omega), fun h => Or.inl ?_, fun h => Or.inl ⟨?_, hc⟩⟩
    · simpa [futPre, e] using h
    · simpa [e] using h

variable (cfg : Cfg) (eval : Nat → List Val → Except Err Val) (cancelErr : Err)

theorem ld_delta_sentLog {s S : State Val Err} {i : Nat} (x : List Nat) (h : ld_Delta s S i) :
    ld_Delta s { S with sentLog := x } i := h

theorem ld_workerStep {s s' : State Val Err} {k : Nat} {l : Label Val Err} (hC : Core s)
    (h : workerStep eval s k l = some s') (i : Nat) : ld_Delta s s' i := by
  obtain ⟨hU, hW, hR⟩ := hC
  have hu := (hU i).1
  have hpc := ld_pre_le_cnt s i
  unfold workerStep at h
  split at h
  · cases h
  rename_i w hk
  have hrun : ∀ j, wpcRuns j w.pc → futOf s j = .running := fun j hj => hR.1 k w j hk hj
  have hWc := fun (S : State Val Err) (w' : Worker Val Err) (hS : S.wk[k]? = some w) => cnt_setWk (s := S) w' i hS
  have hWp := fun (S : State Val Err) (w' : Worker Val Err) (hS : S.wk[k]? = some w) => ld_pre_setWk (s := S) w' i hS
  have hIn := fun (it : Item Val) (r : List (Item Val)) (h : (getQ s w.q).items = it :: r) => ld_inR_of_items h
  have hQc := fun (hq : ld_InR s w.q) (v : Queue Val) => ld_cnt_setQ hq v i
  have hQp := fun (hq : ld_InR s w.q) (v : Queue Val) => ld_pre_setQ hq v i
  split_step h
  all_goals (simp only [Option.some.injEq] at h; subst h)
  all_goals first
    | (refine ld_delta_frame ?_ ?_ ?_
       · simp; done
       · grind [wkCnt, wpcCnt, ld_wkPre, ld_wpcPre, qCnt, itemCnt, setQ_wk, taskDone_wk, ld_cnt_taskDone, ld_pre_taskDone]
       · grind [wkCnt, wpcCnt, ld_wkPre, ld_wpcPre, qCnt, itemCnt, setQ_wk, taskDone_wk, ld_cnt_taskDone, ld_pre_taskDone])
    | (refine ld_delta_sentLog _ (ld_delta_frame ?_ ?_ ?_)
       · simp; done
       · grind [wkCnt, wpcCnt, ld_wkPre, ld_wpcPre, qCnt, itemCnt, setQ_wk, taskDone_wk, ld_cnt_taskDone, ld_pre_taskDone]
       · grind [wkCnt, wpcCnt, ld_wkPre, ld_wpcPre, qCnt, itemCnt, setQ_wk, taskDone_wk, ld_cnt_taskDone, ld_pre_taskDone])
    | (refine ld_delta_set (j := _) (f := _) rfl ?_ ?_ ?_ ?_
       · grind [wkCnt, wpcCnt, ld_wkPre, ld_wpcPre, setFut_wk, cnt_setFut, ld_pre_setFut]
       · intro hij hs; subst hij
         grind [wkCnt, wpcCnt, ld_wkPre, ld_wpcPre, setFut_wk, cnt_setFut, ld_pre_setFut, wpcRuns]
       · intro hij hs; subst hij
         grind [wkCnt, wpcCnt, ld_wkPre, ld_wpcPre, setFut_wk, cnt_setFut, ld_pre_setFut, wpcRuns]
       · intro hij
         grind [wkCnt, wpcCnt, ld_wkPre, ld_wpcPre, setFut_wk, cnt_setFut, ld_pre_setFut, wpcRuns])
    | skip

theorem ld_priv_old {s : State Val Err} (hp : privOk s = true) {j : Nat} (hj : j < s.qp.length) (i : Nat)
    (hij : i ≠ j) : qCnt i (s.qp.getD j {}) = 0 := by
  unfold privOk at hp
  simp only [List.all_eq_true, List.mem_range] at hp
  have := hp j hj
  split at this
  · simp only [getQ, Bool.and_eq_true, List.isEmpty_iff] at this
    unfold qCnt; rw [this.1]; rfl
  · simp only [getQ, Bool.and_eq_true] at this
    have h5 := (ld_taskIds_all (fun x => x == j) (s.qp.getD j {})).1 this.2 i
    rcases Nat.eq_zero_or_pos (qCnt i (s.qp.getD j {})) with h0 | h0
    · exact h0
    · have := h5 h0
      simp at this
      exact absurd this hij

theorem ld_dispStep {s s' : State Val Err} {l : Label Val Err} (hC : Core s) (hI : LiveInv cfg s)
    (h : dispStep cfg s l = some s') (i : Nat) : ld_Delta s s' i := by
  obtain ⟨hU, hW, hR⟩ := hC
  have hu := (hU i).1
  have hpc := ld_pre_le_cnt s i
  unfold dispStep at h
  split at h
  · cases h
  split_step h
  all_goals (simp only [Option.some.injEq] at h; subst h)
  all_goals first
    | (refine ld_delta_frame ?_ ?_ ?_
       · simp; done
       · simp [cnt, ld_pre, dispCnt, qCnt, itemCnt, taskDone, setQ, getQ, *]
         done
       · simp [cnt, ld_pre, dispCnt, qCnt, itemCnt, taskDone, setQ, getQ, *]
         done)
    | (refine ld_delta_frame ?_ ?_ ?_
       · simp; done
       · simp [cnt, ld_pre, dispCnt, qCnt, itemCnt, taskDone, setQ, getQ, *]
         omega
       · simp [cnt, ld_pre, dispCnt, qCnt, itemCnt, taskDone, setQ, getQ, *]
         omega)
    | skip
  rename_i i0 vs req hd hfit
  have hlen := hI.len
  have hd1 : dispCnt i0 s.disp = 1 := by simp [hd, dispCnt]
  have hc1 : 1 ≤ cnt s i0 := by simp only [cnt]; omega
  have hlt : i0 < s.qp.length := by
    have h2 := (hU i0).2
    simp only [lenOk, Bool.and_eq_true, beq_iff_eq, decide_eq_true_eq] at hlen
    rcases Nat.lt_or_ge i0 s.nsub with h | h
    · omega
    · have := h2 h; omega
  have hold : qCnt i (s.qp.getD i0 {}) = 0 := by
    by_cases hii : i = i0
    · subst hii
      have h3 := qp_getD_le i s.qp i
      simp only [cnt] at hu; omega
    · exact ld_priv_old hI.priv hlt i hii
  have hset := ld_qp_set_eq i s.qp i0 { items := [.task i0 vs, .stop true], unfin := 2 } hlt
  refine ld_delta_frame rfl ?_ ?_
  · simp [cnt, ld_pre, dispCnt, qCnt, itemCnt, wkCnt, wpcCnt, ld_wkPre, ld_wpcPre, hd] at hset hold ⊢
    omega
  · simp [cnt, ld_pre, dispCnt, qCnt, itemCnt, wkCnt, wpcCnt, ld_wkPre, ld_wpcPre, hd] at hset hold ⊢
    omega

/-- `s'` agrees with `s1` on every counted component except the two program counters that may run
    the shutdown procedure. -/
structure ld_Same (s1 s' : State Val Err) : Prop where
  qo : s'.qo = s1.qo
  qi : s'.qi = s1.qi
  qp : s'.qp = s1.qp
  waitLst : s'.waitLst = s1.waitLst
  disp : s'.disp = s1.disp
  wk : s'.wk = s1.wk
  fut : s'.fut = s1.fut

theorem ld_same_cnt {s1 s' : State Val Err} (h : ld_Same s1 s') (i : Nat) :
    cnt s' i + mainCnt i s1.mainPc + resCnt i s1.res = cnt s1 i + mainCnt i s'.mainPc + resCnt i s'.res := by
  simp only [cnt, h.qo, h.qi, h.qp, h.waitLst, h.disp, h.wk]; omega

theorem ld_same_pre {s1 s' : State Val Err} (h : ld_Same s1 s') (i : Nat) :
    ld_pre s' i + mainCnt i s1.mainPc + ld_resPre i s1.res
      = ld_pre s1 i + mainCnt i s'.mainPc + ld_resPre i s'.res := by
  simp only [ld_pre, h.qo, h.qi, h.qp, h.waitLst, h.disp, h.wk]; omega

theorem ld_delta_frame' {s s' : State Val Err} {i : Nat} (hf : s'.fut = s.fut)
    (hp : ld_pre s' i ≤ ld_pre s i) (hc : cnt s i ≤ cnt s' i ∨ ld_live (futOf s i) = false) :
    ld_Delta s s' i := by
  have e : futOf s' i = futOf s i := futOf_congr hf i
  refine ⟨fun h => Or.inl (by omega), fun h => Or.inl ?_, fun h => ?_⟩
  · simpa [futPre, e] using h
  · rw [e] at h
    rcases hc with hc | hc
    · exact Or.inl ⟨h, hc⟩
    · rw [hc] at h; cases h

theorem ld_sd_main {s s1 s' : State Val Err} {sd : Sd} {l : Label Val Err} {r : Except Err (Option Sd)}
    (hU : Unique s) (hT : tokenStateOk s = true) (hm : s.mainPc = .inSd sd)
    (h : sdStep cfg s sd l = some (s1, r)) (hs : ld_Same s1 s') (hr : s'.res = s1.res) (i : Nat)
    (hmc : mainCnt i s'.mainPc = sdResCnt i r) : ld_Delta s s' i := by
  have hu := (hU i).1
  have hpc := ld_pre_le_cnt s i
  have hsc := ld_same_cnt hs i
  have hsp := ld_same_pre hs i
  have hIn := fun (it : Item Val) (r : List (Item Val)) (h : (getQ s sd.target).items = it :: r) => ld_inR_of_items h
  have hQc := fun (hq : ld_InR s sd.target) (v : Queue Val) => ld_cnt_setQ hq v i
  have hQp := fun (hq : ld_InR s sd.target) (v : Queue Val) => ld_pre_setQ hq v i
  have hQc' := fun (v : Queue Val) (hv : qCnt i v = qCnt i (getQ s sd.target)) => ld_cnt_setQ_same (s := s) (q := sd.target) hv
  have hQp' := fun (v : Queue Val) (hv : qCnt i v = qCnt i (getQ s sd.target)) => ld_pre_setQ_same (s := s) (q := sd.target) hv
  have hm0 : mainCnt i s.mainPc = sdCnt i sd := by rw [hm]; rfl
  have hf := hs.fut
  unfold sdStep at h
  split_step h
  all_goals (simp only [Option.some.injEq, Prod.mk.injEq] at h; obtain ⟨h1, h2⟩ := h; subst h1; subst h2)
  all_goals first
    | (refine ld_delta_frame ?_ ?_ ?_
       · simp [hf]; done
       · grind [sdResCnt, sdCnt, qCnt, itemCnt, qCnt_put, setQ_mainPc, setQ_res, taskDone_mainPc, taskDone_res, ld_cnt_taskDone, ld_pre_taskDone]
       · grind [sdResCnt, sdCnt, qCnt, itemCnt, qCnt_put, setQ_mainPc, setQ_res, taskDone_mainPc, taskDone_res, ld_cnt_taskDone, ld_pre_taskDone])
    | skip
  · rename_i j _ hpcj _ hp
    have hsc' : cnt s' i + mainCnt i s.mainPc + resCnt i s.res
        = cnt s i + mainCnt i s'.mainPc + resCnt i s'.res := hsc
    have hsp' : ld_pre s' i + mainCnt i s.mainPc + ld_resPre i s.res
        = ld_pre s i + mainCnt i s'.mainPc + ld_resPre i s'.res := hsp
    have hr' : s'.res = s.res := hr
    have hf' : s'.fut = s.fut.set j .cancelled := hf
    simp only [sdResCnt, sdCnt] at hmc
    simp only [sdCnt, hpcj] at hm0
    rw [hr'] at hsc' hsp'
    refine ld_delta_set (j := j) (f := .cancelled) hf' ?_ ?_ ?_ ?_
    · omega
    · intro _ _; exact Or.inl (Or.inr rfl)
    · intro _ h; rcases h with h | h <;> cases h
    · intro hij
      have : ¬ j = i := fun h => hij h.symm
      simp only [this, if_false] at hm0
      omega
  · rename_i j _ hpcj _ hnp
    simp only [sdResCnt, sdCnt] at hmc
    simp only [sdCnt, hpcj] at hm0
    rw [hr] at hsc hsp
    refine ld_delta_frame' hf ?_ ?_
    · omega
    · by_cases hij : j = i
      · right
        subst hij
        have h1 : 1 ≤ ld_pre s j := by
          simp only [if_true] at hm0
          simp only [ld_pre]; omega
        have h2 := (ld_tokenStateOk_iff s).1 hT j h1
        unfold futPre at h2
        split at h2
        · exact absurd ‹futOf s j = Fut.pending› hnp
        · rename_i hc; rw [hc]; rfl
        · cases h2
      · left
        simp only [hij, if_false] at hm0
        omega

theorem ld_delta_submit {s s' : State Val Err} {i j : Nat}
    (hf : s'.fut = s.fut.set j .pending) (hlt : j < s.fut.length)
    (hp : ld_pre s' i = ld_pre s i + (if j = i then 1 else 0))
    (hc : cnt s' i = cnt s i + (if j = i then 1 else 0)) : ld_Delta s s' i := by
  have e : futOf s' i = if j = i ∧ j < s.fut.length then .pending else futOf s i := by
    have := futOf_setFut s j i .pending
    simp only [futOf, setFut] at this
    simp only [futOf, hf]; exact this
  by_cases hij : j = i
  · subst hij
    simp only [hlt, and_self, if_true] at e hp hc
    refine ⟨fun _ => Or.inr e, fun _ => Or.inl ?_, fun _ => Or.inr (by omega)⟩
    simp [futPre, e]
  · simp only [hij, false_and, if_false, Nat.add_zero] at e hp hc
    refine ⟨fun h => Or.inl (by omega), fun h => Or.inl ?_, fun h => Or.inl ⟨?_, by omega⟩⟩
    · simpa [futPre, e] using h
    · simpa [e] using h

theorem ld_mainStep {s s' : State Val Err} {l : Label Val Err} (hC : Core s) (hI : LiveInv cfg s)
    (h : mainStep cfg s l = some s') (i : Nat) : ld_Delta s s' i := by
  obtain ⟨hU, hW, hR⟩ := hC
  have hu := (hU i).1
  have hpc := ld_pre_le_cnt s i
  unfold mainStep at h
  split_step h
  all_goals (simp only [Option.some.injEq] at h; subst h)
  all_goals first
    | (apply ld_sd_main cfg hU hI.tokenState ‹s.mainPc = MainPc.inSd _› ‹sdStep cfg s _ _ = some _›
       · exact ⟨rfl, rfl, rfl, rfl, rfl, rfl, rfl⟩
       · rfl
       · first
         | (simp only [mainCnt, sdResCnt, sdCnt_sdNorm]; done)
         | (simp [mainCnt, sdResCnt]; done))
    | (refine ld_delta_frame ?_ ?_ ?_
       · simp; done
       · simp [cnt, ld_pre, mainCnt, sdCnt_sdNorm, sdCnt, *]
         done
       · simp [cnt, ld_pre, mainCnt, sdCnt_sdNorm, sdCnt, *]
         done)
    | (refine ld_delta_frame rfl ?_ ?_
       · simp only [cnt, ld_pre, mainCnt, sdCnt_sdNorm, *]
         simp [sdCnt]
         done
       · simp only [cnt, ld_pre, mainCnt, sdCnt_sdNorm, *]
         simp [sdCnt]
         done)
    | skip
  · rename_i rest hscr hg
    have hlen := hI.len
    simp only [lenOk, Bool.and_eq_true, beq_iff_eq, decide_eq_true_eq] at hlen
    have hin : ∀ S : State Val Err, ld_InR S (frontQ cfg) := by
      intro S; unfold frontQ; split <;> trivial
    refine ld_delta_submit (j := s.nsub) ?_ ?_ ?_ ?_
    · simp
    · omega
    · have := ld_pre_setQ (hin (setFut { s with script := rest, nsub := s.nsub + 1 } s.nsub .pending))
        ((getQ (setFut { s with script := rest, nsub := s.nsub + 1 } s.nsub .pending) (frontQ cfg)).put
          (.task s.nsub [])) i
      rw [qCnt_put] at this
      have e : ld_pre (setFut { s with script := rest, nsub := s.nsub + 1 } s.nsub .pending) i = ld_pre s i := rfl
      rw [e] at this
      simp only [itemCnt] at this
      omega
    · have := ld_cnt_setQ (hin (setFut { s with script := rest, nsub := s.nsub + 1 } s.nsub .pending))
        ((getQ (setFut { s with script := rest, nsub := s.nsub + 1 } s.nsub .pending) (frontQ cfg)).put
          (.task s.nsub [])) i
      rw [qCnt_put] at this
      have e : cnt (setFut { s with script := rest, nsub := s.nsub + 1 } s.nsub .pending) i = cnt s i := rfl
      rw [e] at this
      simp only [itemCnt] at this
      omega
  · refine ld_delta_set (j := _) (f := .cancelled) rfl ?_ ?_ ?_ ?_
    · exact Nat.le_refl _
    · intro _ _; exact Or.inl (Or.inr rfl)
    · intro _ h; rcases h with h | h <;> cases h
    · intro _; exact Nat.le_refl _

theorem ld_sd_res {s s1 s' : State Val Err} {sd : Sd} {l : Label Val Err} {r : Except Err (Option Sd)}
    (hrs : s.res = some (.inSd sd))
    (hl : l = .sdPutStop true ∨ l = .sdJoinThread true ∨ l = .sdJoinThreadRaise true ∨
      l = .sdJoinQueue true ∨ l = .sdFinish true)
    (h : sdStep cfg s sd l = some (s1, r)) (hs : ld_Same s1 s') (hm : s'.mainPc = s1.mainPc) (i : Nat)
    (hrc : resCnt i s'.res = sdResCnt i r) (hrp : ld_resPre i s'.res = 0) : ld_Delta s s' i := by
  have hsc := ld_same_cnt hs i
  have hsp := ld_same_pre hs i
  have hQc' := fun (v : Queue Val) (hv : qCnt i v = qCnt i (getQ s sd.target)) => ld_cnt_setQ_same (s := s) (q := sd.target) hv
  have hQp' := fun (v : Queue Val) (hv : qCnt i v = qCnt i (getQ s sd.target)) => ld_pre_setQ_same (s := s) (q := sd.target) hv
  have hr0 : resCnt i s.res = sdCnt i sd := by rw [hrs]; rfl
  have hr1 : ld_resPre i s.res = 0 := by rw [hrs]; rfl
  have hf := hs.fut
  unfold sdStep at h
  rcases hl with hl | hl | hl | hl | hl
  all_goals subst hl
  all_goals split_step h
  all_goals (simp only [Option.some.injEq, Prod.mk.injEq] at h; obtain ⟨h1, h2⟩ := h; subst h1; subst h2)
  all_goals first
    | (refine ld_delta_frame ?_ ?_ ?_
       · simp [hf]; done
       · grind [sdResCnt, sdCnt, qCnt, itemCnt, qCnt_put, setQ_mainPc, setQ_res]
       · grind [sdResCnt, sdCnt, qCnt, itemCnt, qCnt_put, setQ_mainPc, setQ_res])
    | contradiction

theorem ld_resStep {s s' : State Val Err} {l : Label Val Err} (hC : Core s) (hI : LiveInv cfg s)
    (h : resStep cfg cancelErr s l = some s') (i : Nat) : ld_Delta s s' i := by
  obtain ⟨hU, hW, hR⟩ := hC
  have hu := (hU i).1
  have hpc := ld_pre_le_cnt s i
  have hfail : ∀ j e r, s.res = some (.failing j e r) → futOf s j = .running := hR.2
  unfold resStep at h
  split at h
  · cases h
  split_step h
  all_goals (simp only [Option.some.injEq] at h; subst h)
  all_goals first
    | (apply ld_sd_res cfg ‹s.res = some (RPc.inSd _)› _ ‹sdStep cfg s _ _ = some _›
       · exact ⟨rfl, rfl, rfl, rfl, rfl, rfl, rfl⟩
       · rfl
       · first
         | (simp only [resCnt, sdResCnt, sdCnt_sdNorm]; done)
         | (simp [resCnt, sdResCnt]; done)
       · simp [ld_resPre]; done
       · simp; done)
    | (refine ld_delta_frame ?_ ?_ ?_
       · simp; done
       · simp [cnt, ld_pre, resCnt, ld_resPre, taskDone, setQ, getQ, qCnt, Queue.put, itemCnt, List.count_singleton, *]
         done
       · simp [cnt, ld_pre, resCnt, ld_resPre, taskDone, setQ, getQ, qCnt, Queue.put, itemCnt, List.count_singleton, *]
         done)
    | (refine ld_delta_frame ?_ ?_ ?_
       · simp; done
       · simp [cnt, ld_pre, resCnt, ld_resPre, taskDone, setQ, getQ, qCnt, Queue.put, itemCnt, List.count_singleton, *]
         omega
       · simp [cnt, ld_pre, resCnt, ld_resPre, taskDone, setQ, getQ, qCnt, Queue.put, itemCnt, List.count_singleton, *]
         omega)
    | (refine ld_delta_frame rfl ?_ ?_
       · simp only [cnt, ld_pre, resCnt, ld_resPre, sdCnt_sdNorm, *]
         simp [sdCnt]
         done
       · simp only [cnt, ld_pre, resCnt, ld_resPre, sdCnt_sdNorm, *]
         simp [sdCnt]
         done)
    | contradiction
    | (have hw := count_eraseIdx_ite s.waitLst _ _ i ‹s.waitLst[_]? = some _›
       refine ld_delta_frame ?_ ?_ ?_
       · simp; done
       · simp [cnt, ld_pre, resCnt, ld_resPre, qCnt, Queue.put, itemCnt, *] at hw ⊢
         omega
       · simp [cnt, ld_pre, resCnt, ld_resPre, qCnt, Queue.put, itemCnt, *] at hw ⊢
         omega)
    | (refine ld_delta_set (j := _) (f := _) rfl ?_ ?_ ?_ ?_
       · simp [cnt, ld_pre, resCnt, ld_resPre, setFut, *]
       · intro hij hs; subst hij
         first
         | (simp_all; done)
         | (right
            simp [cnt, ld_pre, resCnt, ld_resPre, setFut, *] at hu hpc ⊢
            omega)
       · intro hij hs; subst hij
         first
         | (simp at hs; done)
         | (constructor
            · simp_all
            · simp [cnt, ld_pre, resCnt, ld_resPre, setFut, *])
       · intro hij
         have hij' : ¬ _ = i := fun h => hij h.symm
         simp [cnt, ld_pre, resCnt, ld_resPre, setFut, *])
    | (have hw := count_eraseIdx_ite s.waitLst _ _ i ‹s.waitLst[_]? = some _›
       refine ld_delta_set (j := _) (f := _) rfl ?_ ?_ ?_ ?_
       · simp [cnt, ld_pre, resCnt, ld_resPre, setFut, *] at hw ⊢
         omega
       · intro hij hs; subst hij
         right
         simp [cnt, ld_pre, resCnt, ld_resPre, setFut, *] at hw hu hpc ⊢
         omega
       · intro hij hs; subst hij
         first
         | (simp at hs; done)
         | (constructor
            · simp_all
            · simp [cnt, ld_pre, resCnt, ld_resPre, setFut, *] at hw ⊢
              omega)
       · intro hij
         have hij' : ¬ _ = i := fun h => hij h.symm
         simp [cnt, ld_pre, resCnt, ld_resPre, setFut, *] at hw ⊢
         omega)
    | skip
  · exfalso
    rename_i hx _ _
    exact hx _ rfl

/-! ### the two invariants -/

theorem ld_step_delta {s s' : State Val Err} {l : Label Val Err} (hC : Core s) (hI : LiveInv cfg s)
    (h : step cfg eval cancelErr s l = some s') (i : Nat) : ld_Delta s s' i := by
  unfold step at h
  split at h
  all_goals first
    | exact ld_mainStep cfg hC hI h i
    | exact ld_resStep cfg cancelErr hC hI h i
    | exact ld_dispStep cfg hC hI h i
    | exact ld_workerStep eval hC h i

theorem liveD_init (script : List Cmd) :
    tokenStateOk (init cfg script : State Val Err) = true ∧
      coverageOk (init cfg script : State Val Err) = true := by
  constructor
  · rw [ld_tokenStateOk_iff]
    intro i hi
    have h0 := ((unique_init cfg script : Unique (init cfg script : State Val Err)) i).2 (Nat.zero_le _)
    have := ld_pre_le_cnt (init cfg script : State Val Err) i
    omega
  · rw [ld_coverageOk_iff]
    intro i hi
    exact absurd hi (Nat.not_lt_zero _)

/-- `tokenStateOk` and `coverageOk` are preserved by every step.  (`NoFail` is not needed for these
    two clauses: the labels of a failing call keep the token until `wFailC`, which completes the
    future.) -/
theorem liveD_step (hnf : NoFail eval) {s s' : State Val Err} {l : Label Val Err} (hC : Core s)
    (hI : LiveInv cfg s) (h : step cfg eval cancelErr s l = some s') :
    tokenStateOk s' = true ∧ coverageOk s' = true := by
  have hD := ld_step_delta cfg eval cancelErr hC hI h
  have hT := (ld_tokenStateOk_iff s).1 hI.tokenState
  have hCov := (ld_coverageOk_iff s).1 hI.coverage
  constructor
  · rw [ld_tokenStateOk_iff]
    intro i hi
    obtain ⟨d1, d2, d3⟩ := hD i
    rcases d1 hi with h1 | h1
    · rcases d2 (hT i h1) with h2 | h2
      · exact h2
      · omega
    · simp [futPre, h1]
  · rw [ld_coverageOk_iff]
    intro i hi hl
    obtain ⟨d1, d2, d3⟩ := hD i
    rcases d3 hl with ⟨h1, h2⟩ | h1
    · have hlt : i < s.nsub := by
        rcases Nat.lt_or_ge i s.nsub with hlt | hge
        · exact hlt
        · rw [hC.futWf i hge] at h1; cases h1
      have := hCov i hlt h1
      omega
    · exact h1

end ExecModel.Sys
