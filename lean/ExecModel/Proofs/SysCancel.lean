import ExecModel.Proofs.SysRun
/-!
  Cancellation versus execution (`C06`): the ghost logs `sentLog` (calls handed to a worker
  process) and `cancelOk` (calls whose `cancel()` returned `True`) never share a call; a call that
  started is never cancelled afterwards, a cancelled call stays cancelled.
-/
set_option linter.unusedSimpArgs false
set_option linter.unusedVariables false
namespace ExecModel.Sys

variable {Val Err : Type}
variable (cfg : Cfg) (eval : Nat → List Val → Except Err Val) (cancelErr : Err)

/-! ### life-cycle facts -/

theorem FutStep.started_stays {f g : Fut Val Err} (h : FutStep f g)
    (hf : f = .running ∨ (∃ v, f = .finished v) ∨ (∃ e, f = .failed e)) :
    g = .running ∨ (∃ v, g = .finished v) ∨ (∃ e, g = .failed e) := by
  cases h <;> simp_all

theorem FutStep.cancelled_stays {f g : Fut Val Err} (h : FutStep f g)
    (hf : f = .cancelled ∨ f = .cancelledNotified) : g = .cancelled ∨ g = .cancelledNotified := by
  cases h <;> simp_all

theorem FutStep.finished_stays {f g : Fut Val Err} (h : FutStep f g) {v : Val}
    (hf : f = .finished v) : g = .finished v := by
  cases h <;> simp_all

theorem FutStep.failed_stays {f g : Fut Val Err} (h : FutStep f g) {e : Err}
    (hf : f = .failed e) : g = .failed e := by
  cases h <;> simp_all

theorem futOf_of_fut_set {s s' : State Val Err} {i : Nat} {f : Fut Val Err}
    (h : s'.fut = s.fut.set i f) (hne : futOf s i ≠ .absent) : futOf s' i = f := by
  have hlt := lt_of_futOf_ne_absent hne
  have := futOf_setFut s i i f
  simp only [futOf, setFut] at this
  simp only [futOf, h, this]
  simp [hlt]

/-! ### what each thread does to the ghost logs -/

theorem logs_workerStep {s s' : State Val Err} {k : Nat} {l : Label Val Err} (hC : Core s)
    (h : workerStep eval s k l = some s') :
    (s'.sentLog = s.sentLog ∨ ∃ i, futOf s i = .running ∧ s'.sentLog = s.sentLog ++ [i]) ∧
    s'.cancelOk = s.cancelOk := by
  obtain ⟨hU, hW, hR⟩ := hC
  unfold workerStep at h
  split at h
  · cases h
  rename_i w hk
  have hrun : ∀ i, wpcRuns i w.pc → futOf s i = .running := fun i hi => hR.1 k w i hk hi
  split_step h
  all_goals (simp only [Option.some.injEq] at h; subst h)
  all_goals (refine ⟨?_, ?_⟩)
  all_goals (first
    | (simp; done)
    | (left; simp; done)
    | (right
       refine ⟨_, hrun _ ?_, rfl⟩
       simp_all [wpcRuns]))

theorem logs_dispStep {s s' : State Val Err} {l : Label Val Err}
    (h : dispStep cfg s l = some s') :
    s'.sentLog = s.sentLog ∧ s'.cancelOk = s.cancelOk := by
  unfold dispStep at h
  split at h
  · cases h
  split_step h
  all_goals (simp only [Option.some.injEq] at h; subst h)
  all_goals (refine ⟨?_, ?_⟩)
  all_goals (simp; done)

/-- The shutdown procedure, seen through a wrapper state `s'` that agrees with its result on the
    logs and on the futures. -/
theorem logs_of_sd {s s1 s' : State Val Err} {sd : Sd} {l : Label Val Err}
    {r : Except Err (Option Sd)} (h : sdStep cfg s sd l = some (s1, r))
    (hs : s'.sentLog = s1.sentLog) (hc : s'.cancelOk = s1.cancelOk) (hf : s'.fut = s1.fut) :
    s'.sentLog = s.sentLog ∧
    (s'.cancelOk = s.cancelOk ∨
      ∃ i, futOf s i = .pending ∧ futOf s' i = .cancelled ∧ s'.cancelOk = s.cancelOk ++ [i]) := by
  have he := sdStep_effect cfg h
  obtain ⟨-, -, -, h4, h5⟩ := he
  refine ⟨by rw [hs, h4], ?_⟩
  rcases h5 with ⟨-, h6⟩ | ⟨i, hp, hfs, h6⟩
  · left; rw [hc, h6]
  · right
    refine ⟨i, hp, ?_, by rw [hc, h6]⟩
    apply futOf_of_fut_set (s := s) (i := i) (f := .cancelled)
    · rw [hf, hfs]
    · rw [hp]; simp

theorem logs_mainStep {s s' : State Val Err} {l : Label Val Err}
    (h : mainStep cfg s l = some s') :
    s'.sentLog = s.sentLog ∧
    (s'.cancelOk = s.cancelOk ∨
      ∃ i, futOf s i = .pending ∧ futOf s' i = .cancelled ∧ s'.cancelOk = s.cancelOk ++ [i]) := by
  unfold mainStep at h
  split_step h
  all_goals (simp only [Option.some.injEq] at h; subst h)
  all_goals (first
    | (refine ⟨?_, Or.inl ?_⟩ <;> simp; done)
    | (refine ⟨?_, Or.inr ⟨_, ?_, ?_, rfl⟩⟩
       · simp
       · assumption
       · apply futOf_of_fut_set (s := s) (f := .cancelled)
         · rfl
         · simp_all)
    | (apply logs_of_sd cfg
       · assumption
       · rfl
       · rfl
       · rfl))

theorem logs_resStep {s s' : State Val Err} {l : Label Val Err}
    (h : resStep cfg cancelErr s l = some s') :
    s'.sentLog = s.sentLog ∧
    (s'.cancelOk = s.cancelOk ∨
      ∃ i, futOf s i = .pending ∧ futOf s' i = .cancelled ∧ s'.cancelOk = s.cancelOk ++ [i]) := by
  unfold resStep at h
  split at h
  · cases h
  split_step h
  all_goals (simp only [Option.some.injEq] at h; subst h)
  all_goals (first
    | (refine ⟨?_, Or.inl ?_⟩ <;> simp; done)
    | (apply logs_of_sd cfg
       · assumption
       · rfl
       · rfl
       · rfl))

/-- What every step does to the two ghost logs. -/
theorem step_logs {s s' : State Val Err} {l : Label Val Err} (hC : Core s)
    (h : step cfg eval cancelErr s l = some s') :
    (s'.sentLog = s.sentLog ∨ ∃ i, futOf s i = .running ∧ s'.sentLog = s.sentLog ++ [i]) ∧
    (s'.cancelOk = s.cancelOk ∨ ∃ i, futOf s i = .pending ∧ futOf s' i = .cancelled ∧ s'.cancelOk = s.cancelOk ++ [i]) := by
  unfold step at h
  split at h
  all_goals first
    | exact (fun x => ⟨Or.inl x.1, x.2⟩) (logs_mainStep cfg h)
    | exact (fun x => ⟨Or.inl x.1, x.2⟩) (logs_resStep cfg cancelErr h)
    | exact (fun x => ⟨Or.inl x.1, Or.inl x.2⟩) (logs_dispStep cfg h)
    | exact (fun x => ⟨x.1, Or.inl x.2⟩) (logs_workerStep eval hC h)

/-! ### the invariant -/

def CancelInv (s : State Val Err) : Prop :=
  (∀ i ∈ s.cancelOk, futOf s i = .cancelled ∨ futOf s i = .cancelledNotified) ∧
  (∀ i ∈ s.sentLog, futOf s i = .running ∨ (∃ v, futOf s i = .finished v) ∨ (∃ e, futOf s i = .failed e))

theorem cancelInv_init (script : List Cmd) : CancelInv (init cfg script : State Val Err) := by
  constructor <;> intro i hi <;> simp [init] at hi

theorem cancelInv_step {s s' : State Val Err} {l : Label Val Err} (hC : Core s) (hI : CancelInv s)
    (h : step cfg eval cancelErr s l = some s') : CancelInv s' := by
  have hlogs := step_logs cfg eval cancelErr hC h
  obtain ⟨hs, hc⟩ := hlogs
  have hfacts := core_step_facts cfg eval cancelErr hC h
  have hm : ∀ j, FutStep (futOf s j) (futOf s' j) := fun j => (hfacts.2.2 j).1
  constructor
  · intro i hi
    rcases hc with hc | ⟨i0, hp, hc', hc⟩
    · rw [hc] at hi
      exact (hm i).cancelled_stays (hI.1 i hi)
    · rw [hc, List.mem_append] at hi
      rcases hi with hi | hi
      · exact (hm i).cancelled_stays (hI.1 i hi)
      · simp only [List.mem_singleton] at hi
        subst hi
        exact Or.inl hc'
  · intro i hi
    rcases hs with hs | ⟨i0, hr, hs⟩
    · rw [hs] at hi
      exact (hm i).started_stays (hI.2 i hi)
    · rw [hs, List.mem_append] at hi
      rcases hi with hi | hi
      · exact (hm i).started_stays (hI.2 i hi)
      · simp only [List.mem_singleton] at hi
        subst hi
        exact (hm i).started_stays (Or.inl hr)

theorem cancelInv_run {s0 s : State Val Err} (ls : List (Label Val Err)) (hC : Core s0)
    (hI : CancelInv s0) (h : run cfg eval cancelErr s0 ls = some s) : CancelInv s := by
  induction ls generalizing s0 with
  | nil => simp [run] at h; subst h; exact hI
  | cons l ls ih =>
    simp only [run, Option.bind_eq_some_iff] at h
    obtain ⟨s1, h1, h2⟩ := h
    exact ih (core_step cfg eval cancelErr hC h1) (cancelInv_step cfg eval cancelErr hC hI h1) h2

theorem cancelInv_reachable {script : List Cmd} {s : State Val Err}
    (h : Reachable cfg eval cancelErr script s) : CancelInv s := by
  obtain ⟨ls, hls⟩ := h
  exact cancelInv_run cfg eval cancelErr ls (core_init cfg script) (cancelInv_init cfg script) hls

/-- C06: a call whose cancel() returned True is never handed to a worker and stays cancelled. -/
theorem cancelled_never_sent {script : List Cmd} {s : State Val Err}
    (h : Reachable cfg eval cancelErr script s) {i : Nat} (hi : i ∈ s.cancelOk) :
    i ∉ s.sentLog ∧ (futOf s i = .cancelled ∨ futOf s i = .cancelledNotified) := by
  have hI := cancelInv_reachable cfg eval cancelErr h
  have hc := hI.1 i hi
  refine ⟨?_, hc⟩
  intro hs
  have hr := hI.2 i hs
  rcases hc with hc | hc <;> rw [hc] at hr <;> simp at hr

/-- Along any continuation, a future that has started or finished is never cancelled afterwards,
    and a cancelled one never becomes anything but cancelled. -/
theorem started_never_cancelled {s s' : State Val Err} (ls : List (Label Val Err)) (hC : Core s)
    (h : run cfg eval cancelErr s ls = some s') (i : Nat) :
    ((futOf s i = .running ∨ (∃ v, futOf s i = .finished v) ∨ (∃ e, futOf s i = .failed e)) →
      (futOf s' i = .running ∨ (∃ v, futOf s' i = .finished v) ∨ (∃ e, futOf s' i = .failed e))) ∧
    ((futOf s i = .cancelled ∨ futOf s i = .cancelledNotified) →
      (futOf s' i = .cancelled ∨ futOf s' i = .cancelledNotified)) ∧
    (∀ v, futOf s i = .finished v → futOf s' i = .finished v) ∧
    (∀ e, futOf s i = .failed e → futOf s' i = .failed e) := by
  induction ls generalizing s with
  | nil =>
    simp [run] at h; subst h
    exact ⟨id, id, fun _ => id, fun _ => id⟩
  | cons l ls ih =>
    simp only [run, Option.bind_eq_some_iff] at h
    obtain ⟨s1, h1, h2⟩ := h
    have hfacts := core_step_facts cfg eval cancelErr hC h1
    have hm : FutStep (futOf s i) (futOf s1 i) := (hfacts.2.2 i).1
    have hrec := ih (core_step cfg eval cancelErr hC h1) h2
    obtain ⟨r1, r2, r3, r4⟩ := hrec
    exact ⟨fun hf => r1 (hm.started_stays hf), fun hf => r2 (hm.cancelled_stays hf),
      fun v hf => r3 v (hm.finished_stays hf), fun e hf => r4 e (hm.failed_stays hf)⟩

end ExecModel.Sys
