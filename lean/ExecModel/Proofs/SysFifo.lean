import ExecModel.Proofs.SysRun
/-!
  C11: with block allocation and a single worker, calls that carry no futures reach the worker
  process in submission order.  The proof follows every call through the pipeline
  `outer queue -> resolver -> inner queue -> worker -> sentLog`: the concatenation of these places
  (`chain`) is strictly increasing and bounded by `nsub` in every reachable state.
-/
set_option linter.unusedSimpArgs false
set_option linter.unusedVariables false
namespace ExecModel.Sys

variable {Val Err : Type}

/-! ### the pipeline as a list of call ids -/

def itemIds : Item Val → List Nat
  | .task i _ => [i]
  | .stop _ => []

/-- Ids of the task items of a queue content, in order. -/
def ids (l : List (Item Val)) : List Nat := l.flatMap itemIds

/-- Ids of the task items of a queue, in order. -/
def qIds (q : Queue Val) : List Nat := ids q.items

/-- Call held by a worker that has not yet been handed to the process. -/
def wpcIds : WPc Val Err → List Nat
  | .gotTask i _ | .toSend i _ => [i]
  | _ => []

def wkIds (l : List (Worker Val Err)) : List Nat := l.flatMap (fun w => wpcIds w.pc)

/-- Call held by the resolver that has not yet been forwarded. -/
def resIds : Option (RPc Val Err) → List Nat
  | some (.gotTask i) | some (.ready i) => [i]
  | _ => []

/-- Everything sent so far, followed by everything still on its way to the worker, nearest first. -/
def chain (s : State Val Err) : List Nat :=
  s.sentLog ++ wkIds s.wk ++ qIds s.qi ++ resIds s.res ++ qIds s.qo

@[simp] theorem ids_nil : ids ([] : List (Item Val)) = [] := rfl
@[simp] theorem ids_task (i : Nat) (vs : List Val) (l : List (Item Val)) :
    ids (.task i vs :: l) = i :: ids l := rfl
@[simp] theorem ids_stop (w : Bool) (l : List (Item Val)) : ids (.stop w :: l) = ids l := rfl
@[simp] theorem ids_append (l l' : List (Item Val)) : ids (l ++ l') = ids l ++ ids l' := by
  simp [ids]
@[simp] theorem qIds_mk (l : List (Item Val)) (n : Nat) : qIds { items := l, unfin := n } = ids l := rfl
@[simp] theorem qIds_put (q : Queue Val) (it : Item Val) : qIds (q.put it) = qIds q ++ itemIds it := by
  simp [qIds, Queue.put, ids]
@[simp] theorem wkIds_single (w : Worker Val Err) : wkIds [w] = wpcIds w.pc := by simp [wkIds]

variable (cfg : Cfg) (eval : Nat → List Val → Except Err Val) (cancelErr : Err)

/-- The invariant behind C11. -/
structure Fifo (s : State Val Err) : Prop where
  wk1 : ∃ w, s.wk = [w] ∧ w.q = .inner
  nodisp : s.disp = none
  nowait : s.waitLst = []
  nores : cfg.resolver = false → s.res = none ∧ qIds s.qo = []
  sorted : (chain s).Pairwise (· < ·)
  bound : ∀ x ∈ chain s, x < s.nsub

variable {cfg}

/-- A step that only deletes elements of the chain (or leaves it alone). -/
theorem fifo_of_sublist {s s' : State Val Err} (hF : Fifo cfg s)
    (hwk : ∃ w, s'.wk = [w] ∧ w.q = .inner) (hdisp : s'.disp = none) (hwait : s'.waitLst = [])
    (hres : cfg.resolver = false → s'.res = none ∧ qIds s'.qo = [])
    (hn : s.nsub ≤ s'.nsub) (hsub : (chain s').Sublist (chain s)) : Fifo cfg s' := by
  refine ⟨hwk, hdisp, hwait, hres, hF.sorted.sublist hsub, ?_⟩
  intro x hx
  have := hF.bound x (hsub.subset hx)
  omega

/-- The submission step: the new call goes to the very end of the chain. -/
theorem fifo_of_append {s s' : State Val Err} (hF : Fifo cfg s)
    (hwk : ∃ w, s'.wk = [w] ∧ w.q = .inner) (hdisp : s'.disp = none) (hwait : s'.waitLst = [])
    (hres : cfg.resolver = false → s'.res = none ∧ qIds s'.qo = [])
    (hn : s'.nsub = s.nsub + 1) (happ : chain s' = chain s ++ [s.nsub]) : Fifo cfg s' := by
  refine ⟨hwk, hdisp, hwait, hres, ?_, ?_⟩
  · rw [happ, List.pairwise_append]
    refine ⟨hF.sorted, by simp, ?_⟩
    intro a ha b hb
    simp only [List.mem_singleton] at hb
    subst hb
    exact hF.bound a ha
  · intro x hx
    rw [happ, List.mem_append] at hx
    rcases hx with hx | hx
    · have := hF.bound x hx; omega
    · simp only [List.mem_singleton] at hx; omega

theorem chain_sublist {s s' : State Val Err} (h1 : s'.sentLog = s.sentLog) (h2 : s'.wk = s.wk)
    (h3 : (qIds s'.qi).Sublist (qIds s.qi)) (h4 : resIds s'.res = resIds s.res)
    (h5 : (qIds s'.qo).Sublist (qIds s.qo)) : (chain s').Sublist (chain s) := by
  unfold chain
  rw [h1, h2, h4]
  exact ((((List.Sublist.refl _).append (List.Sublist.refl _)).append h3).append
    (List.Sublist.refl _)).append h5

/-- The shutdown procedure only deletes queue items (drain) or adds stop messages. -/
theorem sdStep_chain {s s1 : State Val Err} {sd : Sd} {l : Label Val Err}
    {r : Except Err (Option Sd)} (h : sdStep cfg s sd l = some (s1, r)) :
    s1.nsub = s.nsub ∧ s1.wk = s.wk ∧ s1.res = s.res ∧ s1.sentLog = s.sentLog ∧
    s1.waitLst = s.waitLst ∧ s1.disp = s.disp ∧
    (qIds s1.qi).Sublist (qIds s.qi) ∧ (qIds s1.qo).Sublist (qIds s.qo) := by
  obtain ⟨t, w, pc⟩ := sd
  unfold sdStep at h
  cases t
  all_goals (split_step h)
  all_goals (simp only [Option.some.injEq, Prod.mk.injEq] at h; obtain ⟨h, -⟩ := h; subst h)
  all_goals (simp_all [setQ, getQ, taskDone, setFut, qIds, Queue.put, itemIds]; done)

theorem fifo_init (hb : cfg.block = some 1) (script : List Cmd) :
    Fifo cfg (init cfg script : State Val Err) := by
  refine ⟨⟨{ q := .inner }, ?_, rfl⟩, ?_, rfl, ?_, ?_, ?_⟩
  · simp [init, hb]
  · simp [init, hb]
  · intro hr; simp [init, hr, qIds]
  · simp only [chain, init, hb]; split <;> simp [qIds, wkIds, wpcIds, resIds]
  · simp only [chain, init, hb]; split <;> simp [qIds, wkIds, wpcIds, resIds]

theorem fifo_workerStep {s s' : State Val Err} {k : Nat} {l : Label Val Err} (hF : Fifo cfg s)
    (h : workerStep eval s k l = some s') : Fifo cfg s' := by
  obtain ⟨w0, hw0, hq0⟩ := hF.wk1
  unfold workerStep at h
  split at h
  · cases h
  rename_i w hk
  have hk0 : k = 0 ∧ w0 = w := by
    rw [hw0] at hk
    cases k with
    | zero => simpa using hk
    | succ k => simp at hk
  obtain ⟨rfl, rfl⟩ := hk0
  rw [hq0] at h
  have hnd := hF.nodisp
  have hnw := hF.nowait
  have hnr := hF.nores
  split_step h
  all_goals (simp only [Option.some.injEq] at h; subst h)
  all_goals (refine fifo_of_sublist hF ?_ ?_ ?_ ?_ ?_ ?_)
  all_goals (simp_all [chain, setQ, getQ, taskDone, wpcIds, qIds]; done)

theorem fifo_dispStep {s s' : State Val Err} {l : Label Val Err} (hF : Fifo cfg s)
    (h : dispStep cfg s l = some s') : Fifo cfg s' := by
  unfold dispStep at h
  rw [hF.nodisp] at h
  cases h

theorem fifo_resStep {s s' : State Val Err} {l : Label Val Err} (hF : Fifo cfg s)
    (hd : ∀ i, depsOf cfg i = []) (h : resStep cfg cancelErr s l = some s') : Fifo cfg s' := by
  obtain ⟨w0, hw0, hq0⟩ := hF.wk1
  have hnd := hF.nodisp
  have hnw := hF.nowait
  have hnr := hF.nores
  unfold resStep at h
  split at h
  · cases h
  rename_i pc hpc
  have hr : cfg.resolver = true := by
    cases hc : cfg.resolver with
    | true => rfl
    | false => rw [(hnr hc).1] at hpc; cases hpc
  split_step h
  all_goals (simp only [Option.some.injEq] at h; subst h)
  all_goals (refine fifo_of_sublist hF ?_ ?_ ?_ ?_ ?_ ?_)
  all_goals (first
    | (simp_all [chain, setQ, getQ, taskDone, resIds, qIds, itemIds, allDone, inputsOf, Queue.put]; done)
    | (have hsd := sdStep_chain ‹sdStep cfg s _ _ = some _›
       obtain ⟨h1, h2, h3, h4, h5, h6, h7, h8⟩ := hsd
       first
       | (simp_all; done)
       | (refine chain_sublist ?_ ?_ ?_ ?_ ?_ <;> simp_all [resIds]; done)))

theorem fifo_mainStep {s s' : State Val Err} {l : Label Val Err} (hF : Fifo cfg s)
    (h : mainStep cfg s l = some s') : Fifo cfg s' := by
  obtain ⟨w0, hw0, hq0⟩ := hF.wk1
  have hnd := hF.nodisp
  have hnw := hF.nowait
  have hnr := hF.nores
  unfold mainStep at h
  split_step h
  all_goals (simp only [Option.some.injEq] at h; subst h)
  all_goals (first
    | (refine fifo_of_sublist hF ?_ ?_ ?_ ?_ ?_ ?_ <;>
        (simp_all [chain, setQ, getQ, taskDone, resIds, qIds, itemIds, Queue.put]; done))
    | (refine fifo_of_append hF ?_ ?_ ?_ ?_ ?_ ?_ <;>
        (cases hc : cfg.resolver <;>
          simp_all [chain, setQ, getQ, frontQ, setFut, resIds, qIds, itemIds, Queue.put]; done))
    | (have hsd := sdStep_chain ‹sdStep cfg s _ _ = some _›
       obtain ⟨h1, h2, h3, h4, h5, h6, h7, h8⟩ := hsd
       refine fifo_of_sublist hF ?_ ?_ ?_ ?_ ?_ ?_
       all_goals (first
         | (simp_all; done)
         | (refine chain_sublist ?_ ?_ ?_ ?_ ?_ <;> simp_all [resIds]; done)
         | (intro hc
            have hn := hnr hc
            rw [hn.2] at h8
            simp_all; done))))

variable (cfg)

theorem fifo_step {s s' : State Val Err} {l : Label Val Err} (hF : Fifo cfg s)
    (hd : ∀ i, depsOf cfg i = []) (h : step cfg eval cancelErr s l = some s') : Fifo cfg s' := by
  unfold step at h
  split at h
  all_goals first
    | exact fifo_mainStep hF h
    | exact fifo_resStep cancelErr hF hd h
    | exact fifo_dispStep hF h
    | exact fifo_workerStep eval hF h

theorem fifo_run {s0 s : State Val Err} (ls : List (Label Val Err)) (hF : Fifo cfg s0)
    (hd : ∀ i, depsOf cfg i = []) (h : run cfg eval cancelErr s0 ls = some s) : Fifo cfg s := by
  induction ls generalizing s0 with
  | nil => simp [run] at h; subst h; exact hF
  | cons l ls ih =>
    simp only [run, Option.bind_eq_some_iff] at h
    obtain ⟨s1, h1, h2⟩ := h
    exact ih (fifo_step cfg eval cancelErr hF hd h1) h2

theorem fifo_reachable {script : List Cmd} {s : State Val Err}
    (h : Reachable cfg eval cancelErr script s) (hb : cfg.block = some 1)
    (hd : ∀ i, depsOf cfg i = []) : Fifo cfg s := by
  obtain ⟨ls, hls⟩ := h
  exact fifo_run cfg eval cancelErr ls (fifo_init hb script) hd hls

/-- C11: with block allocation and a single worker, calls that carry no futures are executed in
    submission order (with or without the dependency resolver in front). -/
theorem single_worker_fifo {script : List Cmd} {s : State Val Err}
    (h : Reachable cfg eval cancelErr script s) (hb : cfg.block = some 1)
    (hd : ∀ i, depsOf cfg i = []) : s.sentLog.Pairwise (· < ·) := by
  have hF := fifo_reachable cfg eval cancelErr h hb hd
  have hs := hF.sorted
  unfold chain at hs
  simp only [List.append_assoc] at hs
  exact (List.pairwise_append.1 hs).1

end ExecModel.Sys
