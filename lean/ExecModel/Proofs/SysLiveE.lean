import ExecModel.Proofs.SysLiveBasic
/-!
  Preservation of `privOk` (private queues of the per-call mode) by every step of `Sys`.

  `privOk` is not inductive relative to `Core` and `LiveInv` alone: `dLaunch` for call `i` needs
  "call `i` was not launched before".  The extra invariant is `privLaunchOk`:
  a launched call (`wkOf[i] = some _`) has been submitted (`i < nsub`) and none of the places before
  the launch (outer / inner queue, user-thread and resolver pcs, wait list, dispatcher pc) holds its
  token.  It is proved for `init` and for every step (`liveE_launch_init`, `liveE_launch_step`).
-/
set_option linter.unusedSimpArgs false
set_option linter.unusedVariables false
namespace ExecModel.Sys

variable {Val Err : Type}
variable (cfg : Cfg) (eval : Nat → List Val → Except Err Val) (cancelErr : Err)

/-! ### list facts -/

theorem le_filter_set {α : Type} (p : α → Bool) (l : List α) (k : Nat) (a b : α) (h : l[k]? = some a) :
    ((l.set k b).filter p).length + (if p a then 1 else 0)
      = (l.filter p).length + (if p b then 1 else 0) := by
  induction l generalizing k with
  | nil => simp at h
  | cons x l ih =>
    cases k with
    | zero =>
      simp only [List.getElem?_cons_zero, Option.some.injEq] at h; subst h
      simp only [List.set_cons_zero, List.filter_cons]
      cases p x <;> cases p b <;> simp
    | succ k =>
      simp only [List.getElem?_cons_succ] at h; have := ih k h
      simp only [List.set_cons_succ, List.filter_cons]
      cases p x <;> simp <;> omega

theorem le_lt_of_getElem? {α : Type} {l : List α} {k : Nat} {a : α} (h : l[k]? = some a) :
    k < l.length := by
  rcases Nat.lt_or_ge k l.length with h1 | h1
  · exact h1
  · simp [List.getElem?_eq_none h1] at h

theorem le_getElem?_set_cases {α : Type} {l : List α} {k k2 : Nat} {a b : α}
    (h : (l.set k a)[k2]? = some b) : (k2 = k ∧ b = a) ∨ (k2 ≠ k ∧ l[k2]? = some b) := by
  by_cases hk : k2 = k
  · subst hk
    left
    have hlt : k2 < l.length := by simpa using le_lt_of_getElem? h
    simp only [List.getElem?_set_self hlt, Option.some.injEq] at h
    exact ⟨rfl, h.symm⟩
  · right
    rw [List.getElem?_set_ne (Ne.symm hk)] at h
    exact ⟨hk, h⟩

theorem le_tasksFirst_of_all {l : List (Item Val)} (h : l.all isStop = true) : tasksFirst l = true := by
  cases l with
  | nil => rfl
  | cons x r =>
    cases x with
    | task i vs => simp [isStop] at h
    | stop w =>
      simp only [List.all_cons, Bool.and_eq_true] at h
      simp only [tasksFirst]; exact h.2

theorem le_filterMap_of_all {l : List (Item Val)} (h : l.all isStop = true) :
    l.filterMap (fun it => match it with
      | .task i _ => some i
      | .stop _ => none) = [] := by
  induction l with
  | nil => rfl
  | cons x r ih =>
    cases x with
    | task i vs => simp [isStop] at h
    | stop w =>
      simp only [List.all_cons, Bool.and_eq_true] at h
      simp only [List.filterMap_cons]; exact ih h.2

/-! ### `privOk` in terms of `qp`, `wkOf`, `wk` only -/

/-- workers on `.priv i` that have taken the stop message -/
def le_took (wk : List (Worker Val Err)) (i : Nat) : Nat :=
  (wk.filter (fun w => w.q == QId.priv i && wTookStop w.pc)).length

/-- workers on `.priv i` that hold an item not yet acknowledged -/
def le_hold (wk : List (Worker Val Err)) (i : Nat) : Nat :=
  (wk.filter (fun w => w.q == QId.priv i && wHolds w.pc)).length

/-- the queue part of the clause of a launched call -/
def le_QF (q : Queue Val) (T H i : Nat) : Prop :=
  nStops q + T = 1 ∧ tasksFirst q.items = true ∧ (T = 0 ∨ taskIds q = []) ∧
    q.unfin = q.items.length + H ∧ ∀ j ∈ taskIds q, j = i

def le_PrivAt (q : Queue Val) (ko : Option Nat) (wk : List (Worker Val Err)) (i : Nat) : Prop :=
  match ko with
  | none => q.items = [] ∧ q.unfin = 0
  | some k => (∃ w, wk[k]? = some w ∧ w.q = QId.priv i) ∧ le_QF q (le_took wk i) (le_hold wk i) i

/-- the user thread's shutdown procedure does not work on a private queue -/
def le_MainT (s : State Val Err) : Prop := ∀ sd, mainSd s = some sd → ∀ i, sd.target ≠ QId.priv i

theorem le_tookStops_priv (s : State Val Err) (i : Nat) : tookStops s (.priv i) = le_took s.wk i := by
  have h1 : (QId.priv i == QId.outer) = false := by simp
  have h2 : (QId.priv i == QId.inner) = false := by simp
  simp [tookStops, le_took, h1, h2]

theorem le_holders_priv {s : State Val Err} (hm : le_MainT s) (i : Nat) :
    holders s (.priv i) = le_hold s.wk i := by
  have h1 : (QId.priv i == QId.outer) = false := by simp
  have h2 : (QId.priv i == QId.inner) = false := by simp
  unfold holders le_hold
  cases hms : mainSd s with
  | none => simp [h1, h2]
  | some sd =>
    have h3 : (sd.target == QId.priv i) = false := by
      have := hm sd hms i
      simpa using this
    simp [h1, h2, h3]

theorem le_privOk_iff {s : State Val Err} (hm : le_MainT s) :
    privOk s = true ↔
      ∀ i, i < s.qp.length → le_PrivAt (s.qp.getD i {}) (s.wkOf.getD i none) s.wk i := by
  unfold privOk
  simp only [List.all_eq_true, List.mem_range]
  refine forall_congr' (fun i => imp_congr_right (fun hi => ?_))
  unfold le_PrivAt
  cases hk : s.wkOf.getD i none with
  | none =>
    simp [getQ, List.isEmpty_iff]
  | some k =>
    simp only [orderOk, counterOk, le_tookStops_priv, le_holders_priv hm, getQ, le_QF,
      Bool.and_eq_true, beq_iff_eq, Bool.or_eq_true, List.all_eq_true, List.isEmpty_iff]
    cases hw : s.wk[k]? with
    | none => simp
    | some w => simp [and_assoc]

/-! ### one move of the worker of a private queue, abstractly -/

/-- What a worker step does to its queue `q` and to its own "holds an item" / "took the stop" flags:
    nothing, take a task, take the stop message, acknowledge. -/
def le_WTr (q : Queue Val) (h t : Bool) (q' : Queue Val) (h' t' : Bool) : Prop :=
  (q' = q ∧ h' = h ∧ t' = t) ∨
  (∃ i vs rest, q.items = Item.task i vs :: rest ∧ q' = { q with items := rest } ∧
      h = false ∧ t = false ∧ h' = true ∧ t' = false) ∨
  (∃ wt rest, q.items = Item.stop wt :: rest ∧ q' = { q with items := rest } ∧
      h = false ∧ t = false ∧ h' = true ∧ t' = true) ∨
  (q' = { q with unfin := q.unfin - 1 } ∧ h = true ∧ h' = false ∧ t' = t)

theorem le_QF_tr {q q' : Queue Val} {h t h' t' : Bool} {T H T' H' i : Nat}
    (hF : le_QF q T H i) (htr : le_WTr q h t q' h' t')
    (hT : T' + (if t then 1 else 0) = T + (if t' then 1 else 0))
    (hH : H' + (if h then 1 else 0) = H + (if h' then 1 else 0)) : le_QF q' T' H' i := by
  obtain ⟨f1, f2, f3, f4, f5⟩ := hF
  rcases htr with ⟨rfl, rfl, rfl⟩ | ⟨j, vs, rest, hq, rfl, rfl, rfl, rfl, rfl⟩ |
    ⟨wt, rest, hq, rfl, rfl, rfl, rfl, rfl⟩ | ⟨rfl, rfl, rfl, rfl⟩
  · have e1 : T' = T := by omega
    have e2 : H' = H := by omega
    subst e1; subst e2
    exact ⟨f1, f2, f3, f4, f5⟩
  · simp only [Bool.false_eq_true, if_false, if_true] at hT hH
    have e1 : T' = T := by omega
    subst e1
    have hT0 : T' = 0 := by
      rcases f3 with f3 | f3
      · exact f3
      · simp [taskIds, hq] at f3
    refine ⟨?_, ?_, Or.inl hT0, ?_, ?_⟩
    · simpa [nStops, hq, isStop] using f1
    · simpa [hq, tasksFirst] using f2
    · simp only [hq, List.length_cons] at f4
      simp only; omega
    · intro j' hj'
      apply f5
      simp only [taskIds, hq, List.filterMap_cons]
      exact List.mem_cons_of_mem _ hj'
  · simp only [Bool.false_eq_true, if_false, if_true] at hT hH
    have hall : rest.all isStop = true := by simpa [hq, tasksFirst] using f2
    have hn : nStops q = nStops { q with items := rest } + 1 := by
      simp [nStops, hq, isStop, List.filter_cons]
    have hids : taskIds { q with items := rest } = [] := le_filterMap_of_all hall
    refine ⟨by omega, le_tasksFirst_of_all hall, Or.inr hids, ?_, ?_⟩
    · simp only [hq, List.length_cons] at f4
      simp only; omega
    · intro j' hj'; rw [hids] at hj'; cases hj'
  · simp only [Bool.false_eq_true, if_false, if_true] at hH
    have e1 : T' = T := by omega
    subst e1
    refine ⟨f1, f2, f3, ?_, f5⟩
    simp only; omega

/-! ### frames -/

theorem le_privAt_congr {q : Queue Val} {ko : Option Nat} {wk wk' : List (Worker Val Err)} {i : Nat}
    (h : le_PrivAt q ko wk i) (hT : le_took wk' i = le_took wk i) (hH : le_hold wk' i = le_hold wk i)
    (hw : ∀ (k : Nat) (w : Worker Val Err), wk[k]? = some w → w.q = QId.priv i → wk'[k]? = some w) : le_PrivAt q ko wk' i := by
  cases ko with
  | none => exact h
  | some k =>
    obtain ⟨⟨w, h1, h2⟩, h3⟩ := h
    refine ⟨⟨w, hw k w h1 h2, h2⟩, ?_⟩
    rw [hT, hH]; exact h3

theorem le_took_set_other {wk : List (Worker Val Err)} {k i : Nat} {w w' : Worker Val Err}
    (hk : wk[k]? = some w) (hq : w.q ≠ QId.priv i) (hq' : w'.q = w.q) :
    le_took (wk.set k w') i = le_took wk i ∧ le_hold (wk.set k w') i = le_hold wk i := by
  have e1 : (w.q == QId.priv i) = false := by simpa using hq
  have e2 : (w'.q == QId.priv i) = false := by rw [hq']; exact e1
  constructor
  · have := le_filter_set (fun w => w.q == QId.priv i && wTookStop w.pc) wk k w w' hk
    simp only [e1, e2, Bool.false_and, Bool.false_eq_true, if_false] at this
    simpa [le_took] using this
  · have := le_filter_set (fun w => w.q == QId.priv i && wHolds w.pc) wk k w w' hk
    simp only [e1, e2, Bool.false_and, Bool.false_eq_true, if_false] at this
    simpa [le_hold] using this

theorem le_took_set_self {wk : List (Worker Val Err)} {k i : Nat} {w w' : Worker Val Err}
    (hk : wk[k]? = some w) (hq : w.q = QId.priv i) (hq' : w'.q = w.q) :
    le_took (wk.set k w') i + (if wTookStop w.pc then 1 else 0)
        = le_took wk i + (if wTookStop w'.pc then 1 else 0) ∧
    le_hold (wk.set k w') i + (if wHolds w.pc then 1 else 0)
        = le_hold wk i + (if wHolds w'.pc then 1 else 0) := by
  have e1 : (w.q == QId.priv i) = true := by simpa using hq
  have e2 : (w'.q == QId.priv i) = true := by rw [hq']; exact e1
  constructor
  · have := le_filter_set (fun w => w.q == QId.priv i && wTookStop w.pc) wk k w w' hk
    simp only [e1, e2, Bool.true_and] at this
    simpa [le_took] using this
  · have := le_filter_set (fun w => w.q == QId.priv i && wHolds w.pc) wk k w w' hk
    simp only [e1, e2, Bool.true_and] at this
    simpa [le_hold] using this

theorem le_took_append_other (wk : List (Worker Val Err)) (w0 : Worker Val Err) (i : Nat)
    (hq : w0.q ≠ QId.priv i) :
    le_took (wk ++ [w0]) i = le_took wk i ∧ le_hold (wk ++ [w0]) i = le_hold wk i := by
  have e1 : (w0.q == QId.priv i) = false := by simpa using hq
  simp [le_took, le_hold, List.filter_append, List.filter_cons, e1]

theorem le_took_zero_of_none {wk : List (Worker Val Err)} {i : Nat}
    (h : ∀ (k : Nat) (w : Worker Val Err), wk[k]? = some w → w.q ≠ QId.priv i) : le_took wk i = 0 ∧ le_hold wk i = 0 := by
  have hall : ∀ w ∈ wk, (w.q == QId.priv i) = false := by
    intro w hw
    obtain ⟨k, hk⟩ := List.mem_iff_getElem?.mp hw
    simpa using h k w hk
  constructor
  · simp only [le_took, List.length_eq_zero_iff, List.filter_eq_nil_iff]
    intro w hw; simp [hall w hw]
  · simp only [le_hold, List.length_eq_zero_iff, List.filter_eq_nil_iff]
    intro w hw; simp [hall w hw]

/-! ### what each thread can change -/

theorem le_sdNorm_target (sd : Sd) : (sdNorm cfg sd).target = sd.target := by
  have h : ∀ sd : Sd, (sdNormalize cfg sd).target = sd.target := by
    intro sd; unfold sdNormalize; split <;> (try split) <;> rfl
  simp [sdNorm, h]

theorem le_frontQ_ne_priv (i : Nat) : frontQ cfg ≠ QId.priv i := by
  unfold frontQ; split <;> simp

theorem le_qp_setQ_frontQ (s : State Val Err) (v : Queue Val) : (setQ s (frontQ cfg) v).qp = s.qp := by
  unfold frontQ; split <;> rfl

theorem le_sdStep_eff {s s1 : State Val Err} {sd : Sd} {l : Label Val Err} {r : Except Err (Option Sd)}
    (h : sdStep cfg s sd l = some (s1, r)) : (∀ i, sd.target ≠ QId.priv i) →
    s1.qp = s.qp ∧ s1.wk = s.wk ∧ s1.wkOf = s.wkOf ∧ s1.mainPc = s.mainPc ∧ s1.res = s.res ∧
      (∀ sd', r = .ok (some sd') → sd'.target = sd.target) := by
  intro ht
  have hqp : ∀ v, (setQ s sd.target v).qp = s.qp := by
    intro v
    cases hq : sd.target with
    | priv i => exact absurd hq (ht i)
    | outer => rfl
    | inner => rfl
  unfold sdStep at h
  split_step h
  all_goals (simp only [Option.some.injEq, Prod.mk.injEq] at h; obtain ⟨h1, h2⟩ := h; subst h1; subst h2)
  all_goals (refine ⟨?_, ?_, ?_, ?_, ?_, ?_⟩)
  all_goals (first
    | (simp [taskDone, hqp]; done)
    | (intro sd' hsd'; simp at hsd'; subst hsd'; rfl))

/-- the shutdown procedure run by the user thread works on the front queue -/
def le_MainF (cfg : Cfg) (s : State Val Err) : Prop := ∀ sd, s.mainPc = .inSd sd → sd.target = frontQ cfg

/-- the shutdown procedure run by the resolver works on the inner queue -/
def le_ResT (s : State Val Err) : Prop := ∀ sd, s.res = some (.inSd sd) → sd.target = QId.inner

theorem le_mainT_of_mainF {s : State Val Err} (h : le_MainF cfg s) : le_MainT s := by
  intro sd hsd i
  unfold mainSd at hsd
  split at hsd
  · rename_i sd0 hpc
    simp only [Option.some.injEq] at hsd; subst hsd
    rw [h _ hpc]; exact le_frontQ_ne_priv cfg i
  · cases hsd

theorem le_mainF_of_join {s : State Val Err} (h : joinOk cfg s = true) : le_MainF cfg s := by
  intro sd hsd
  unfold joinOk at h
  simp only [mainSd, hsd, Bool.and_eq_true, beq_iff_eq] at h
  exact h.1.2

theorem le_resT_of_join {s : State Val Err} (h : joinOk cfg s = true) : le_ResT s := by
  intro sd hsd
  unfold joinOk at h
  simp only [resSd, hsd, Bool.and_eq_true, beq_iff_eq] at h
  exact h.2.1

theorem le_mainStep_eff {s s' : State Val Err} {l : Label Val Err} (hm : le_MainF cfg s)
    (h : mainStep cfg s l = some s') :
    s'.qp = s.qp ∧ s'.wk = s.wk ∧ s'.wkOf = s.wkOf ∧ le_MainF cfg s' := by
  unfold mainStep at h
  split_step h
  all_goals (simp only [Option.some.injEq] at h; subst h)
  all_goals (first
    | (rename_i hsd
       have e := le_sdStep_eff cfg hsd
       rename_i hpc _ _ _ _
       have ht := hm _ hpc
       have e2 := e (fun i => by rw [ht]; exact le_frontQ_ne_priv cfg i)
       obtain ⟨e3, e4, e5, e6, e7, e8⟩ := e2
       refine ⟨e3, e4, e5, ?_⟩
       intro sd2 hsd2
       first
       | (simp at hsd2; done)
       | (simp only [MainPc.inSd.injEq] at hsd2
          subst hsd2
          rw [le_sdNorm_target, e8 _ rfl, ht]))
    | (rename_i hsd
       have e := le_sdStep_eff cfg hsd
       rename_i hpc _ _ _
       have ht := hm _ hpc
       have e2 := e (fun i => by rw [ht]; exact le_frontQ_ne_priv cfg i)
       obtain ⟨e3, e4, e5, e6, e7, e8⟩ := e2
       refine ⟨e3, e4, e5, ?_⟩
       intro sd2 hsd2
       simp at hsd2)
    | (refine ⟨?_, ?_, ?_, ?_⟩
       all_goals (first
         | (simp [le_qp_setQ_frontQ]; done)
         | (intro sd2 hsd2; simp_all; done)
         | (intro sd2 hsd2
            simp only [MainPc.inSd.injEq] at hsd2
            subst hsd2
            rw [le_sdNorm_target]))))

theorem le_resStep_eff {s s' : State Val Err} {l : Label Val Err} (hr : le_ResT s)
    (h : resStep cfg cancelErr s l = some s') :
    s'.qp = s.qp ∧ s'.wk = s.wk ∧ s'.wkOf = s.wkOf ∧ s'.mainPc = s.mainPc := by
  unfold resStep at h
  split at h
  · cases h
  split_step h
  all_goals (simp only [Option.some.injEq] at h; subst h)
  all_goals (first
    | (rename_i hsd
       have e := le_sdStep_eff cfg hsd
       rename_i hpc _ _ _ _
       have ht := hr _ hpc
       have e2 := e (fun i => by rw [ht]; simp)
       obtain ⟨e3, e4, e5, e6, e7, e8⟩ := e2
       exact ⟨e3, e4, e5, e6⟩)
    | (rename_i hsd
       have e := le_sdStep_eff cfg hsd
       rename_i hpc _ _ _
       have ht := hr _ hpc
       have e2 := e (fun i => by rw [ht]; simp)
       obtain ⟨e3, e4, e5, e6, e7, e8⟩ := e2
       exact ⟨e3, e4, e5, e6⟩)
    | (refine ⟨?_, ?_, ?_, ?_⟩ <;> simp [taskDone, setQ]; done))

/-- Dispatcher steps: either the private queues and the thread tables are untouched, or call `i`
    is launched. -/
theorem le_dispStep_eff {s s' : State Val Err} {l : Label Val Err} (h : dispStep cfg s l = some s') :
    s'.mainPc = s.mainPc ∧ s'.res = s.res ∧ s'.nsub = s.nsub ∧ s'.waitLst = s.waitLst ∧ s'.qo = s.qo ∧
    ((s'.qp = s.qp ∧ s'.wk = s.wk ∧ s'.wkOf = s.wkOf) ∨
     (∃ i vs req, s.disp = some (.waitSlots i vs req) ∧ s'.disp = some .needAck ∧ s'.qi = s.qi ∧
        s'.qp = s.qp.set i { items := [.task i vs, .stop true], unfin := 2 } ∧
        s'.wk = s.wk ++ [{ q := .priv i }] ∧ s'.wkOf = s.wkOf.set i (some s.wk.length))) := by
  unfold dispStep at h
  split at h
  · cases h
  split_step h
  all_goals (simp only [Option.some.injEq] at h; subst h)
  all_goals (refine ⟨?_, ?_, ?_, ?_, ?_, ?_⟩)
  all_goals (first
    | (simp [taskDone, setQ]; done)
    | (left; refine ⟨?_, ?_, ?_⟩ <;> simp [taskDone, setQ]; done)
    | (right
       apply Exists.intro; apply Exists.intro; apply Exists.intro
       refine ⟨?_, rfl, rfl, rfl, rfl, rfl⟩
       assumption))

theorem le_setQ_getQ (s : State Val Err) (q : QId) : setQ s q (getQ s q) = s := by
  cases q with
  | outer => rfl
  | inner => rfl
  | priv i =>
    have : s.qp.set i (s.qp.getD i {}) = s.qp := by
      apply List.ext_getElem?
      intro j
      rw [List.getElem?_set]
      split
      · rename_i hij; subst hij
        split
        · rename_i hlt
          simp [List.getD_eq_getElem?_getD, List.getElem?_eq_getElem hlt]
        · rename_i hlt
          simp [List.getElem?_eq_none (Nat.le_of_not_lt hlt)]
      · rfl
    simp only [setQ, getQ]
    rw [this]

/-- Worker steps, for runs without failing calls. -/
theorem le_workerStep_eff {s s' : State Val Err} {k : Nat} {l : Label Val Err} (hnf : NoFail eval)
    (hd : ∀ w, s.wk[k]? = some w → wDead w.pc = false) (h : workerStep eval s k l = some s') :
    ∃ w w' q', s.wk[k]? = some w ∧ s'.wk = s.wk.set k w' ∧ w'.q = w.q ∧ s'.wkOf = s.wkOf ∧
      s'.mainPc = s.mainPc ∧ s'.res = s.res ∧ s'.waitLst = s.waitLst ∧ s'.disp = s.disp ∧
      s'.nsub = s.nsub ∧
      s'.qo = (setQ s w.q q').qo ∧ s'.qi = (setQ s w.q q').qi ∧ s'.qp = (setQ s w.q q').qp ∧
      le_WTr (getQ s w.q) (wHolds w.pc) (wTookStop w.pc) q' (wHolds w'.pc) (wTookStop w'.pc) := by
  have hne : ∀ i vs e, eval i vs ≠ Except.error e := by
    intro i vs e he
    obtain ⟨v, hv⟩ := hnf i vs
    rw [hv] at he; cases he
  unfold workerStep at h
  split at h
  · cases h
  rename_i w hk
  have hdw := hd w hk
  split_step h
  all_goals (simp only [Option.some.injEq] at h; subst h)
  all_goals (first
    | (exfalso; simp_all [wDead]; done)
    | (refine ⟨w, ?_⟩
       apply Exists.intro
       refine ⟨getQ s w.q, hk, ?_, ?_, ?_, ?_, ?_, ?_, ?_, ?_, ?_, ?_, ?_, ?_⟩
       · simp only [setWk_wk, setQ_wk, taskDone_wk, setFut_wk]; rfl
       · rfl
       any_goals (simp [le_setQ_getQ]; done)
       unfold le_WTr
       refine Or.inl ⟨rfl, ?_, ?_⟩ <;> simp_all [wHolds, wTookStop]
       done)
    | (rename_i i vs rest hit
       refine ⟨w, ?_⟩
       apply Exists.intro
       refine ⟨{ getQ s w.q with items := rest }, hk, ?_, ?_, ?_, ?_, ?_, ?_, ?_, ?_, ?_, ?_, ?_, ?_⟩
       · simp only [setWk_wk, setQ_wk, taskDone_wk, setFut_wk]; rfl
       · rfl
       any_goals (simp; done)
       unfold le_WTr
       refine Or.inr (Or.inl ⟨i, vs, rest, hit, rfl, ?_, ?_, ?_, ?_⟩)
       all_goals (simp_all [wHolds, wTookStop]; done))
    | (rename_i wt rest hit
       refine ⟨w, ?_⟩
       apply Exists.intro
       refine ⟨{ getQ s w.q with items := rest }, hk, ?_, ?_, ?_, ?_, ?_, ?_, ?_, ?_, ?_, ?_, ?_, ?_⟩
       · simp only [setWk_wk, setQ_wk, taskDone_wk, setFut_wk]; rfl
       · rfl
       any_goals (simp; done)
       unfold le_WTr
       refine Or.inr (Or.inr (Or.inl ⟨wt, rest, hit, rfl, ?_, ?_, ?_, ?_⟩))
       all_goals (simp_all [wHolds, wTookStop]; done))
    | (refine ⟨w, ?_⟩
       apply Exists.intro
       refine ⟨{ getQ s w.q with unfin := (getQ s w.q).unfin - 1 }, hk, ?_, ?_, ?_, ?_, ?_, ?_, ?_, ?_, ?_, ?_, ?_, ?_⟩
       · simp only [setWk_wk, setQ_wk, taskDone_wk, setFut_wk]; rfl
       · rfl
       any_goals (simp [taskDone]; done)
       unfold le_WTr
       refine Or.inr (Or.inr (Or.inr ⟨rfl, ?_, ?_, ?_⟩)) <;> simp_all [wHolds, wTookStop]
       done))

/-! ### what is used of the other invariants -/

/-- from `shapeOk`: a worker on `.priv j` is the worker registered for call `j` -/
theorem le_shape {s : State Val Err} (h : shapeOk cfg s = true) (k : Nat) (w : Worker Val Err)
    (hk : s.wk[k]? = some w) (j : Nat) (hq : w.q = QId.priv j) : s.wkOf.getD j none = some k := by
  unfold shapeOk at h
  simp only [Bool.and_eq_true] at h
  obtain ⟨-, h⟩ := h
  cases hb : cfg.block with
  | some n =>
    rw [hb] at h
    simp only [Bool.and_eq_true, List.all_eq_true] at h
    have := h.2 w (List.mem_of_getElem? hk)
    simp [hq] at this
  | none =>
    rw [hb] at h
    simp only [Bool.and_eq_true, List.all_eq_true, List.mem_range] at h
    have := h.2 k (le_lt_of_getElem? hk)
    rw [hk] at this
    simp only [hq, beq_iff_eq] at this
    exact this

theorem le_len {s : State Val Err} (h : lenOk cfg s = true) :
    s.qp.length = cfg.calls.length ∧ s.wkOf.length = cfg.calls.length ∧ s.nsub ≤ cfg.calls.length := by
  unfold lenOk at h
  simp only [Bool.and_eq_true, beq_iff_eq, decide_eq_true_eq] at h
  exact ⟨h.1.1.2, h.1.2, h.2⟩

theorem le_priv_frame {s s' : State Val Err} (hm : le_MainT s) (hm' : le_MainT s') (hqp : s'.qp = s.qp)
    (hwk : s'.wk = s.wk) (hwo : s'.wkOf = s.wkOf) (h : privOk s = true) : privOk s' = true := by
  rw [le_privOk_iff hm'] 
  rw [le_privOk_iff hm] at h
  rw [hqp, hwk, hwo]; exact h

/-! ### the extra invariant: a call is launched at most once -/

/-- tokens of call `i` in the places before the launch -/
def le_earlyCnt (s : State Val Err) (i : Nat) : Nat :=
  qCnt i s.qo + qCnt i s.qi + mainCnt i s.mainPc + resCnt i s.res + s.waitLst.count i + dispCnt i s.disp

/-- EXTRA INVARIANT (needed by `dLaunch`): a launched call has been submitted and its token has left
    the outer queue, the inner queue, the user-thread / resolver / dispatcher pcs and the wait list
    for good. -/
def privLaunchOk (s : State Val Err) : Bool :=
  (List.range s.wkOf.length).all (fun i =>
    match s.wkOf.getD i none with
    | none => true
    | some _ => decide (i < s.nsub) && le_earlyCnt s i == 0)

def le_LaunchP (s : State Val Err) : Prop :=
  ∀ i k, s.wkOf.getD i none = some k → i < s.nsub ∧ le_earlyCnt s i = 0

theorem le_launch_iff (s : State Val Err) : privLaunchOk s = true ↔ le_LaunchP s := by
  unfold privLaunchOk le_LaunchP
  simp only [List.all_eq_true, List.mem_range]
  constructor
  · intro h i k hk
    have hi : i < s.wkOf.length := by
      rcases Nat.lt_or_ge i s.wkOf.length with h1 | h1
      · exact h1
      · simp [List.getD_eq_getElem?_getD, List.getElem?_eq_none h1] at hk
    have := h i hi
    rw [hk] at this
    simpa using this
  · intro h i hi
    cases hk : s.wkOf.getD i none with
    | none => rfl
    | some k => simpa using h i k hk

theorem le_cnt_split (s : State Val Err) (i : Nat) :
    cnt s i = le_earlyCnt s i + ((s.qp.map (qCnt i)).sum + (s.wk.map (wkCnt i)).sum) := by
  simp only [cnt, le_earlyCnt]; omega

theorem le_early_of_cnt {s s' : State Val Err} {i : Nat} (hqp : s'.qp = s.qp) (hwk : s'.wk = s.wk)
    (hc : CntLe s s' i) (hi : i < s.nsub) : le_earlyCnt s' i ≤ le_earlyCnt s i := by
  unfold CntLe at hc
  have hne : ¬ (i = s.nsub ∧ s'.nsub = s.nsub + 1) := by omega
  simp only [hne, if_false] at hc
  have h1 := le_cnt_split s i
  have h2 := le_cnt_split s' i
  rw [hqp, hwk] at h2
  omega

theorem le_launch_frame {s s' : State Val Err} (hL : le_LaunchP s) (hwo : s'.wkOf = s.wkOf)
    (hn : s.nsub ≤ s'.nsub) (he : ∀ i, i < s.nsub → le_earlyCnt s' i ≤ le_earlyCnt s i) :
    le_LaunchP s' := by
  intro i k hk
  rw [hwo] at hk
  obtain ⟨h1, h2⟩ := hL i k hk
  have := he i h1
  exact ⟨by omega, by omega⟩

theorem le_WTr_qCnt {q q' : Queue Val} {h t h' t' : Bool} (htr : le_WTr q h t q' h' t') (i : Nat) :
    qCnt i q' ≤ qCnt i q := by
  rcases htr with ⟨rfl, -, -⟩ | ⟨j, vs, rest, hq, rfl, -⟩ | ⟨wt, rest, hq, rfl, -⟩ | ⟨rfl, -⟩
  · exact Nat.le_refl _
  · simp [qCnt, hq]
  · simp [qCnt, hq]
  · exact Nat.le_refl _

theorem le_cnt_ge_of_disp {s : State Val Err} {i req : Nat} {vs : List Val}
    (h : s.disp = some (.waitSlots i vs req)) : 1 ≤ le_earlyCnt s i := by
  have : dispCnt i s.disp = 1 := by simp [h, dispCnt]
  simp only [le_earlyCnt]; omega

theorem le_early_setQ_le (s : State Val Err) (q : QId) (v : Queue Val) (i : Nat)
    (h : qCnt i v ≤ qCnt i (getQ s q)) : le_earlyCnt (setQ s q v) i ≤ le_earlyCnt s i := by
  cases q with
  | outer => simp only [le_earlyCnt, setQ, getQ] at h ⊢; omega
  | inner => simp only [le_earlyCnt, setQ, getQ] at h ⊢; omega
  | priv j => exact Nat.le_refl _

theorem le_early_taskDone (s : State Val Err) (q : QId) (i : Nat) :
    le_earlyCnt (taskDone s q) i ≤ le_earlyCnt s i := by
  unfold taskDone
  apply le_early_setQ_le
  simp [qCnt]

theorem le_early_setWk (s : State Val Err) (k : Nat) (w : Worker Val Err) (i : Nat) :
    le_earlyCnt (setWk s k w) i = le_earlyCnt s i := rfl

theorem le_workerStep_early {s s' : State Val Err} {k : Nat} {l : Label Val Err}
    (h : workerStep eval s k l = some s') :
    s'.wkOf = s.wkOf ∧ ∀ i, le_earlyCnt s' i ≤ le_earlyCnt s i := by
  unfold workerStep at h
  split at h
  · cases h
  rename_i w hk
  split_step h
  all_goals (simp only [Option.some.injEq] at h; subst h)
  all_goals (refine ⟨by simp, fun i => ?_⟩)
  all_goals (first
    | (simp only [le_earlyCnt]; simp; done)
    | (rw [le_early_setWk]; try simp only [taskDone]
       refine le_early_setQ_le s _ _ i ?_; simp_all [qCnt]; done))

theorem le_launch_disp {s s' : State Val Err} {l : Label Val Err} (hC : Core s) (hL : le_LaunchP s)
    (hn : s.nsub ≤ s'.nsub) (hcnt : ∀ i, CntLe s s' i) (h : dispStep cfg s l = some s') :
    le_LaunchP s' := by
  have e := le_dispStep_eff cfg h
  obtain ⟨d1, d2, d3, d4, d5, hcase⟩ := e
  rcases hcase with ⟨e1, e2, e3⟩ | ⟨i, vs, req, hd, hd', hqi, hqp, hwk, hwo⟩
  · exact le_launch_frame hL e3 hn (fun i hi => le_early_of_cnt e1 e2 (hcnt i) hi)
  · have hearly : ∀ j, le_earlyCnt s' j ≤ le_earlyCnt s j := by
      intro j
      have hd0 : dispCnt j s'.disp = 0 := by simp [hd', dispCnt]
      simp only [le_earlyCnt, d1, d2, d4, d5, hqi]
      omega
    have h1 := le_cnt_ge_of_disp hd
    have h2 := le_cnt_split s i
    have h3 := hC.uniq i
    have hin : i < s.nsub := by
      rcases Nat.lt_or_ge i s.nsub with h | h
      · exact h
      · have := h3.2 h; omega
    have he0 : le_earlyCnt s' i = 0 := by
      have h4 : le_earlyCnt s i = 1 := by omega
      have : dispCnt i s.disp = 1 := by simp [hd, dispCnt]
      have hd0 : dispCnt i s'.disp = 0 := by simp [hd', dispCnt]
      simp only [le_earlyCnt, d1, d2, d4, d5, hqi] at h4 ⊢
      omega
    intro j k hk
    rw [hwo] at hk
    by_cases hji : j = i
    · subst hji; exact ⟨by omega, he0⟩
    · have hk' : s.wkOf.getD j none = some k := by
        simpa [List.getD_eq_getElem?_getD, List.getElem?_set_ne (Ne.symm hji)] using hk
      obtain ⟨g1, g2⟩ := hL j k hk'
      have := hearly j
      exact ⟨by omega, by omega⟩

theorem le_launch_step_aux {s s' : State Val Err} {l : Label Val Err} (hC : Core s)
    (hJ : joinOk cfg s = true) (hL : le_LaunchP s) (h : step cfg eval cancelErr s l = some s') :
    le_LaunchP s' := by
  have hcnt := step_cnt' cfg eval cancelErr h
  have hn : s.nsub ≤ s'.nsub := (hcnt 0).2.1
  have hmF := le_mainF_of_join cfg hJ
  have hrT := le_resT_of_join cfg hJ
  unfold step at h
  split at h
  all_goals first
    | (have e := le_mainStep_eff cfg hmF h
       obtain ⟨e1, e2, e3, -⟩ := e
       exact le_launch_frame hL e3 hn (fun i hi => le_early_of_cnt e1 e2 (hcnt i) hi))
    | (have e := le_resStep_eff cfg cancelErr hrT h
       obtain ⟨e1, e2, e3, -⟩ := e
       exact le_launch_frame hL e3 hn (fun i hi => le_early_of_cnt e1 e2 (hcnt i) hi))
    | exact le_launch_disp cfg hC hL hn hcnt h
    | (have e := le_workerStep_early eval h
       exact le_launch_frame hL e.1 hn (fun i _ => e.2 i))

/-! ### `privOk` is preserved -/

theorem le_mainT_of_mainPc {s s' : State Val Err} (h : s'.mainPc = s.mainPc) (hm : le_MainT s) :
    le_MainT s' := by
  unfold le_MainT mainSd; rw [h]; exact hm

theorem le_noDead_wk {s : State Val Err} (h : noDead s = true) (k : Nat) (w : Worker Val Err)
    (hk : s.wk[k]? = some w) : wDead w.pc = false := by
  unfold noDead at h
  simp only [Bool.and_eq_true, List.all_eq_true] at h
  have := h.1.1 w (List.mem_of_getElem? hk)
  simpa using this

theorem le_priv_worker {s s' : State Val Err} {k : Nat} {l : Label Val Err} (hnf : NoFail eval)
    (hI : LiveInv cfg s) (h : workerStep eval s k l = some s') : privOk s' = true := by
  have hm : le_MainT s := le_mainT_of_mainF cfg (le_mainF_of_join cfg hI.join)
  have e := le_workerStep_eff eval hnf (fun w hk => le_noDead_wk hI.noDead k w hk) h
  obtain ⟨w, w', q', hk, hwk, hq, hwo, hmp, -, -, -, -, -, -, hqp, htr⟩ := e
  have hm' : le_MainT s' := le_mainT_of_mainPc hmp hm
  rw [le_privOk_iff hm']
  have hP := (le_privOk_iff hm).1 hI.priv
  have hlen : s'.qp.length = s.qp.length := by
    rw [hqp]; cases w.q <;> simp [setQ]
  intro i hi
  rw [hlen] at hi
  have hPi := hP i hi
  rw [hwk, hwo]
  by_cases hqi : w.q = QId.priv i
  · have hko : s.wkOf.getD i none = some k := le_shape cfg hI.shape k w hk i hqi
    have hget : s'.qp.getD i {} = q' := by
      rw [hqp, hqi]; simp [setQ, hi]
    rw [hget, hko]
    rw [hko] at hPi
    obtain ⟨-, hF⟩ := hPi
    have hcount := le_took_set_self (w' := w') hk hqi hq
    have htr' : le_WTr (s.qp.getD i {}) (wHolds w.pc) (wTookStop w.pc) q' (wHolds w'.pc)
        (wTookStop w'.pc) := by
      rw [hqi] at htr; exact htr
    refine ⟨⟨w', ?_, ?_⟩, le_QF_tr hF htr' hcount.1 hcount.2⟩
    · rw [List.getElem?_set_self (le_lt_of_getElem? hk)]
    · rw [hq, hqi]
  · have hget : s'.qp.getD i {} = s.qp.getD i {} := by
      rw [hqp]
      cases hw : w.q with
      | outer => rfl
      | inner => rfl
      | priv j =>
        have hji : j ≠ i := by
          intro e; subst e; exact hqi hw
        simp [setQ, List.getD_eq_getElem?_getD, List.getElem?_set_ne hji]
    rw [hget]
    obtain ⟨e1, e2⟩ := le_took_set_other (w' := w') hk hqi hq
    refine le_privAt_congr hPi e1 e2 ?_
    intro k1 w1 hk1 hq1
    have hne : k1 ≠ k := by
      intro e; subst e; rw [hk] at hk1
      simp only [Option.some.injEq] at hk1; subst hk1; exact hqi hq1
    rw [List.getElem?_set_ne (Ne.symm hne)]; exact hk1

theorem le_priv_disp {s s' : State Val Err} {l : Label Val Err} (hC : Core s) (hI : LiveInv cfg s)
    (hL : le_LaunchP s) (h : dispStep cfg s l = some s') : privOk s' = true := by
  have hm : le_MainT s := le_mainT_of_mainF cfg (le_mainF_of_join cfg hI.join)
  have e := le_dispStep_eff cfg h
  obtain ⟨hmp, -, -, -, -, hcase⟩ := e
  have hm' : le_MainT s' := le_mainT_of_mainPc hmp hm
  rcases hcase with ⟨hqp, hwk, hwo⟩ | ⟨i, vs, req, hd, hd', hqi, hqp, hwk, hwo⟩
  · exact le_priv_frame hm hm' hqp hwk hwo hI.priv
  · have h1 := le_cnt_ge_of_disp hd
    have h2 := le_cnt_split s i
    have h3 := hC.uniq i
    have hin : i < s.nsub := by
      rcases Nat.lt_or_ge i s.nsub with h | h
      · exact h
      · have := h3.2 h; omega
    obtain ⟨l1, l2, l3⟩ := le_len cfg hI.len
    have hiq : i < s.qp.length := by omega
    have hiw : i < s.wkOf.length := by omega
    have hnone : s.wkOf.getD i none = none := by
      cases hk : s.wkOf.getD i none with
      | none => rfl
      | some k0 => have := (hL i k0 hk).2; omega
    have hnow : ∀ (k : Nat) (w : Worker Val Err), s.wk[k]? = some w → w.q ≠ QId.priv i := by
      intro k w hk hq
      have := le_shape cfg hI.shape k w hk i hq
      rw [hnone] at this; cases this
    rw [le_privOk_iff hm']
    have hP := (le_privOk_iff hm).1 hI.priv
    intro j hj
    rw [hqp, List.length_set] at hj
    rw [hqp, hwk, hwo]
    by_cases hji : j = i
    · subst hji
      have g1 : (s.qp.set j { items := [Item.task j vs, Item.stop true], unfin := 2 }).getD j {}
          = { items := [Item.task j vs, Item.stop true], unfin := 2 } := by
        simp [List.getD_eq_getElem?_getD, hiq]
      have g2 : (s.wkOf.set j (some s.wk.length)).getD j none = some s.wk.length := by
        simp [List.getD_eq_getElem?_getD, hiw]
      rw [g1, g2]
      obtain ⟨z1, z2⟩ := le_took_zero_of_none hnow
      have a1 : le_took (s.wk ++ [({ q := QId.priv j } : Worker Val Err)]) j = 0 := by
        have : le_took (s.wk ++ [({ q := QId.priv j } : Worker Val Err)]) j = le_took s.wk j := by
          simp [le_took, List.filter_append, List.filter_cons, wTookStop]
        omega
      have a2 : le_hold (s.wk ++ [({ q := QId.priv j } : Worker Val Err)]) j = 0 := by
        have : le_hold (s.wk ++ [({ q := QId.priv j } : Worker Val Err)]) j = le_hold s.wk j := by
          simp [le_hold, List.filter_append, List.filter_cons, wHolds]
        omega
      refine ⟨⟨({ q := QId.priv j } : Worker Val Err), by simp, rfl⟩, ?_⟩
      rw [a1, a2]
      refine ⟨?_, ?_, Or.inl rfl, ?_, ?_⟩
      · simp [nStops, isStop, List.filter_cons]
      · simp [tasksFirst, isStop]
      · simp
      · intro j' hj'; simpa [taskIds] using hj'
    · have g1 : (s.qp.set i { items := [Item.task i vs, Item.stop true], unfin := 2 }).getD j {}
          = s.qp.getD j {} := by
        simp [List.getD_eq_getElem?_getD, List.getElem?_set_ne (Ne.symm hji)]
      have g2 : (s.wkOf.set i (some s.wk.length)).getD j none = s.wkOf.getD j none := by
        simp [List.getD_eq_getElem?_getD, List.getElem?_set_ne (Ne.symm hji)]
      rw [g1, g2]
      have hne : ({ q := QId.priv i } : Worker Val Err).q ≠ QId.priv j := by
        intro e; simp only [QId.priv.injEq] at e; exact hji e.symm
      obtain ⟨a1, a2⟩ := le_took_append_other s.wk { q := QId.priv i } j hne
      refine le_privAt_congr (hP j hj) a1 a2 ?_
      intro k w hk _
      rw [List.getElem?_append_left (le_lt_of_getElem? hk)]; exact hk

theorem le_priv_main {s s' : State Val Err} {l : Label Val Err} (hI : LiveInv cfg s)
    (h : mainStep cfg s l = some s') : privOk s' = true := by
  have hmF := le_mainF_of_join cfg hI.join
  have e := le_mainStep_eff cfg hmF h
  obtain ⟨e1, e2, e3, e4⟩ := e
  exact le_priv_frame (le_mainT_of_mainF cfg hmF) (le_mainT_of_mainF cfg e4) e1 e2 e3 hI.priv

theorem le_priv_res {s s' : State Val Err} {l : Label Val Err} (hI : LiveInv cfg s)
    (h : resStep cfg cancelErr s l = some s') : privOk s' = true := by
  have hm : le_MainT s := le_mainT_of_mainF cfg (le_mainF_of_join cfg hI.join)
  have e := le_resStep_eff cfg cancelErr (le_resT_of_join cfg hI.join) h
  obtain ⟨e1, e2, e3, e4⟩ := e
  exact le_priv_frame hm (le_mainT_of_mainPc e4 hm) e1 e2 e3 hI.priv

/-! ### the theorems -/

theorem liveE_init (script : List Cmd) : privOk (init cfg script : State Val Err) = true := by
  have hm : le_MainT (init cfg script : State Val Err) := by
    intro sd hsd; simp [mainSd, init] at hsd
  rw [le_privOk_iff hm]
  intro i hi
  have h1 : (init cfg script : State Val Err).qp.getD i {} = {} := by
    simp [init, List.getD_eq_getElem?_getD, List.getElem?_replicate]
    split <;> rfl
  have h2 : (init cfg script : State Val Err).wkOf.getD i none = none := by
    simp [init, List.getD_eq_getElem?_getD, List.getElem?_replicate]
    split <;> rfl
  rw [h1, h2]
  exact ⟨rfl, rfl⟩

/-- the extra invariant holds initially -/
theorem liveE_launch_init (script : List Cmd) : privLaunchOk (init cfg script : State Val Err) = true := by
  rw [le_launch_iff]
  intro i k hk
  simp [init, List.getD_eq_getElem?_getD, List.getElem?_replicate] at hk
  split at hk <;> simp at hk

/-- the extra invariant is preserved by every step (only `joinOk` is used of `LiveInv`) -/
theorem liveE_launch_step {s s' : State Val Err} {l : Label Val Err} (hC : Core s)
    (hI : LiveInv cfg s) (hL : privLaunchOk s = true) (h : step cfg eval cancelErr s l = some s') :
    privLaunchOk s' = true := by
  rw [le_launch_iff] at hL ⊢
  exact le_launch_step_aux cfg eval cancelErr hC hI.join hL h

/-- `privOk` is preserved by every step of a run without failing calls. -/
theorem liveE_step (hnf : NoFail eval) {s s' : State Val Err} {l : Label Val Err} (hC : Core s)
    (hI : LiveInv cfg s) (hL : privLaunchOk s = true) (h : step cfg eval cancelErr s l = some s') :
    privOk s' = true := by
  rw [le_launch_iff] at hL
  unfold step at h
  split at h
  all_goals first
    | exact le_priv_main cfg hI h
    | exact le_priv_res cfg cancelErr hI h
    | exact le_priv_disp cfg hC hI hL h
    | exact le_priv_worker cfg eval hnf hI h

end ExecModel.Sys
