import ExecModel.Lts.Sys
/-!
  Definitions shared by the proofs about `Sys`: reachability, well-formed cases, the token count
  of a call (how many places of the system currently hold call `i`), the legal moves of a future.
  No theorem about a property lives here.
-/
namespace ExecModel.Sys

variable {Val Err : Type}

/-- States reachable from the initial state of a case by any interleaving of any length. -/
def Reachable (cfg : Cfg) (eval : Nat → List Val → Except Err Val) (cancelErr : Err)
    (script : List Cmd) (s : State Val Err) : Prop :=
  ∃ ls, run cfg eval cancelErr (init cfg script) ls = some s

/-- A case is well formed when futures passed as arguments belong to earlier calls (a future
    exists before it can be passed) and, without the resolver, no futures are passed at all. -/
def WfCfg (cfg : Cfg) : Prop :=
  (∀ i, ∀ j ∈ depsOf cfg i, j < i) ∧ (cfg.resolver = false → ∀ i, depsOf cfg i = [])

/-- One move of a `concurrent.futures.Future` (or none). -/
inductive FutStep : Fut Val Err → Fut Val Err → Prop
  | refl (f : Fut Val Err) : FutStep f f
  | submit : FutStep .absent .pending
  | cancel : FutStep .pending .cancelled
  | run : FutStep .pending .running
  | notify : FutStep .cancelled .cancelledNotified
  | finish (v : Val) : FutStep .running (.finished v)
  | fail (e : Err) : FutStep .running (.failed e)

/-! ### token count: the places that can hold call `i` -/

def itemCnt (i : Nat) : Item Val → Nat
  | .task j _ => if j = i then 1 else 0
  | .stop _ => 0

def qCnt (i : Nat) (q : Queue Val) : Nat := (q.items.map (itemCnt i)).sum

def wpcCnt (i : Nat) : WPc Val Err → Nat
  | .gotTask j _ | .toSend j _ | .sent j _ | .failB j _ | .failC j _ => if j = i then 1 else 0
  | _ => 0

def wkCnt (i : Nat) (w : Worker Val Err) : Nat := wpcCnt i w.pc

def sdCnt (i : Nat) (sd : Sd) : Nat :=
  match sd.pc with
  | .drainGot j => if j = i then 1 else 0
  | _ => 0

def mainCnt (i : Nat) : MainPc → Nat
  | .inSd sd => sdCnt i sd
  | .idle => 0

def resCnt (i : Nat) : Option (RPc Val Err) → Nat
  | some (.gotTask j) | some (.ready j) | some (.failing j _ _) => if j = i then 1 else 0
  | some (.inSd sd) => sdCnt i sd
  | _ => 0

def dispCnt (i : Nat) : Option (DPc Val Err) → Nat
  | some (.waitSlots j _ _) => if j = i then 1 else 0
  | _ => 0

/-- Number of places holding call `i`: queue items, thread-local variables, the wait list. -/
def cnt (s : State Val Err) (i : Nat) : Nat :=
  qCnt i s.qo + qCnt i s.qi + (s.qp.map (qCnt i)).sum + mainCnt i s.mainPc + resCnt i s.res
    + s.waitLst.count i + dispCnt i s.disp + (s.wk.map (wkCnt i)).sum

/-- Each call is held by at most one place, and calls not yet submitted by none. -/
def Unique (s : State Val Err) : Prop :=
  ∀ i, cnt s i ≤ 1 ∧ (s.nsub ≤ i → cnt s i = 0)

/-- Calls not yet submitted have no future. -/
def FutWf (s : State Val Err) : Prop := ∀ i, s.nsub ≤ i → futOf s i = .absent

/-- Thread-local places in which the holder has moved the future to `running` and is the only one
    that may complete it. -/
def wpcRuns (i : Nat) : WPc Val Err → Prop
  | .toSend j _ | .sent j _ | .failB j _ | .failC j _ => j = i
  | _ => False

def RunHolder (s : State Val Err) : Prop :=
  (∀ (k : Nat) (w : Worker Val Err) (i : Nat), s.wk[k]? = some w → wpcRuns i w.pc → futOf s i = .running) ∧
  (∀ (i : Nat) (e : Err) (r : RRet), s.res = some (.failing i e r) → futOf s i = .running)

end ExecModel.Sys
