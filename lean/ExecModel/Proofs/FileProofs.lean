import ExecModel.Proofs.FileDefs
/-!
  Theorems about the file-based executor (C13, C14): every future holds the value of sequential
  evaluation of its own call; the directory never contains a published entry with a wrong value,
  wherever worker processes are killed; restarts keep the directory invariant; with both defects
  repaired the loop thread never dies.
-/
namespace ExecModel.FileExec

variable {K V : Type} [DecidableEq K]

/-- Split a hypothesis `h : (nested matches / ifs) = some s'` into all its branches; closes the
    branches that return `none`. -/
macro "split_step" h:ident : tactic =>
  `(tactic| (repeat' (first | (cases $h:ident; done) | (split at $h:ident)
                            | (dsimp only at $h:ident; split at $h:ident))))

/-! ### the directory -/

theorem Dir.get_filter_ne (d : Dir K V) (k k' : K) (h : k ≠ k') :
    Dir.get (d.filter (fun e => e.1 ≠ k)) k' = Dir.get d k' := by
  induction d with
  | nil => rfl
  | cons e d ih =>
    obtain ⟨k₀, f₀⟩ := e
    by_cases h0 : k₀ = k
    · subst h0
      simp only [ne_eq, decide_not] at ih
      simp [List.filter, Dir.get, h, ih]
    · simp only [ne_eq, decide_not] at ih
      simp [List.filter, Dir.get, h0, ih]

theorem Dir.get_set (d : Dir K V) (k k' : K) (f : KeyFiles V) :
    Dir.get (Dir.set d k f) k' = if k = k' then f else Dir.get d k' := by
  by_cases h : k = k'
  · simp [Dir.set, Dir.get, h]
  · rw [Dir.set, Dir.get, if_neg h, if_neg h]
    exact Dir.get_filter_ne d k k' h

theorem Dir.get_set_self (d : Dir K V) (k : K) (f : KeyFiles V) : Dir.get (Dir.set d k f) k = f := by
  simp [Dir.get_set]

theorem Dir.get_set_ne (d : Dir K V) (k k' : K) (f : KeyFiles V) (h : k ≠ k') :
    Dir.get (Dir.set d k f) k' = Dir.get d k' := by
  simp [Dir.get_set, h]

theorem Dir.get_restart (d : Dir K V) (k : K) :
    Dir.get (restart d) k = { (Dir.get d k) with staleInp := (Dir.get d k).inp } := by
  induction d with
  | nil => rfl
  | cons e d ih =>
    obtain ⟨k₀, f₀⟩ := e
    by_cases h0 : k₀ = k
    · simp [restart, Dir.get, h0]
    · simp only [restart, List.map_cons, Dir.get, h0, if_false]
      exact ih

/-! ### sequential evaluation -/

section Spec
variable (v : Variant) (ncalls : Nat) (deps : Nat → List Nat) (key : Nat → K) (eval : Nat → List V → V) (dflt : V)

/-- more fuel than needed does not change the value -/
theorem seqVal_fuel (hwf : WfDeps deps) : ∀ (j fuel : Nat), j < fuel →
    seqVal deps eval dflt fuel j = seqVal deps eval dflt (j + 1) j := by
  intro j
  induction j using Nat.strongRecOn with
  | _ j ih =>
    intro fuel hlt
    cases fuel with
    | zero => omega
    | succ fuel =>
      simp only [seqVal]
      congr 1
      apply List.map_congr_left
      intro a ha
      have haj : a < j := hwf j a ha
      rw [ih a haj fuel (by omega), ih a haj j haj]

/-- the value of a call is `eval` applied to the values of its inputs -/
theorem specVal_eq (hwf : WfDeps deps) (i : Nat) :
    specVal deps eval dflt i = eval i ((deps i).map (specVal deps eval dflt)) := by
  simp only [specVal, seqVal]
  congr 1
  apply List.map_congr_left
  intro a ha
  exact seqVal_fuel deps eval dflt hwf a i (hwf i a ha)

theorem inputsFrom_spec {d : Dir K V} (hd : DirOK deps key eval dflt d) :
    ∀ (js : List Nat) (xs : List V), inputsFrom key d js = some xs → xs = js.map (specVal deps eval dflt) := by
  intro js
  induction js with
  | nil => intro xs h; simp only [inputsFrom] at h; cases h; rfl
  | cons j js ih =>
    intro xs h
    simp only [inputsFrom] at h
    split at h
    · rename_i x ys hx hys
      cases h
      simp only [List.map_cons]
      rw [← ih ys hys, ← hd (key j) x hx j rfl]
    · cases h

/-! ### restart -/

/-- a restart keeps the invariant of the directory (leftover input files become stale, results stay) -/
theorem dirOK_restart (d : Dir K V) (hd : DirOK deps key eval dflt d) : DirOK deps key eval dflt (restart d) := by
  intro k x h
  rw [Dir.get_restart] at h
  exact hd k x h

theorem ready_restart (d : Dir K V)
    (hr : ∀ k x, (Dir.get d k).ready = some (some x) → ∀ i, key i = k → x = specVal deps eval dflt i) :
    ∀ k x, (Dir.get (restart d) k).ready = some (some x) → ∀ i, key i = k → x = specVal deps eval dflt i := by
  intro k x h
  rw [Dir.get_restart] at h
  exact hr k x h

/-! ### the invariant -/

/-- the invariant: published results, staged results, values held by worker processes, results delivered to futures -/
structure FileInv (s : State K V) : Prop where
  dir : DirOK deps key eval dflt s.dir
  ready : ∀ k x, (Dir.get s.dir k).ready = some (some x) → ∀ i, key i = k → x = specVal deps eval dflt i
  procs : ∀ (p : Nat) (pr : Proc K V), s.procs[p]? = some pr → key pr.call = pr.key ∧
    (match pr.pc with
     | .loaded vs => vs = (deps pr.call).map (specVal deps eval dflt)
     | .called x | .staged x | .written x => x = specVal deps eval dflt pr.call
     | _ => True)
  memory : ∀ k i, (k, i) ∈ s.memory → key i = k
  futs : ∀ i x, futOf s i = .finished x → x = specVal deps eval dflt i

theorem fileInv_init (d : Dir K V) (hd : DirOK deps key eval dflt d)
    (hr : ∀ k x, (Dir.get d k).ready = some (some x) → ∀ i, key i = k → x = specVal deps eval dflt i) :
    FileInv deps key eval dflt (init d ncalls : State K V) := by
  refine ⟨hd, hr, ?_, ?_, ?_⟩
  · intro p pr h; simp [init] at h
  · intro k i h; simp [init] at h
  · intro i x h
    simp only [futOf, init, List.getD_eq_getElem?_getD, List.getElem?_replicate] at h
    split at h <;> simp at h

/-- what the invariant says about one worker process -/
def ProcOK (pr : Proc K V) : Prop :=
  key pr.call = pr.key ∧
    (match pr.pc with
     | .loaded vs => vs = (deps pr.call).map (specVal deps eval dflt)
     | .called x | .staged x | .written x => x = specVal deps eval dflt pr.call
     | _ => True)

omit [DecidableEq K] in
theorem procs_set {l : List (Proc K V)} (h : ∀ (p : Nat) (pr : Proc K V), l[p]? = some pr → ProcOK deps key eval dflt pr)
    (p : Nat) (pr' : Proc K V) (h' : ProcOK deps key eval dflt pr') :
    ∀ (q : Nat) (pr : Proc K V), (l.set p pr')[q]? = some pr → ProcOK deps key eval dflt pr := by
  intro q pr hq
  rw [List.getElem?_set] at hq
  split at hq
  · split at hq
    · cases hq; exact h'
    · cases hq
  · exact h q pr hq

omit [DecidableEq K] in
theorem procs_append {l : List (Proc K V)} (h : ∀ (p : Nat) (pr : Proc K V), l[p]? = some pr → ProcOK deps key eval dflt pr)
    (pr' : Proc K V) (h' : ProcOK deps key eval dflt pr') :
    ∀ (q : Nat) (pr : Proc K V), (l ++ [pr'])[q]? = some pr → ProcOK deps key eval dflt pr := by
  intro q pr hq
  have hm : pr ∈ l ++ [pr'] := List.mem_of_getElem? hq
  simp only [List.mem_append, List.mem_singleton] at hm
  rcases hm with hm | hm
  · obtain ⟨n, hn⟩ := List.getElem?_of_mem hm
    exact h n pr hn
  · subst hm; exact h'

theorem getD_set_fut (l : List (Fut V)) (n i : Nat) (a : Fut V) :
    (l.set n a).getD i .absent = if n = i ∧ n < l.length then a else l.getD i .absent := by
  simp only [List.getD_eq_getElem?_getD, List.getElem?_set]
  by_cases h : n = i
  · subst h
    by_cases hl : n < l.length
    · simp [hl]
    · simp [hl]
  · simp [h]

/-- what `DirOK` says about the files of one key -/
def OutOK (k : K) (f : KeyFiles V) : Prop :=
  ∀ x, f.out = some x → ∀ i, key i = k → x = specVal deps eval dflt i

/-- what the invariant says about the staged result of one key -/
def ReadyOK (k : K) (f : KeyFiles V) : Prop :=
  ∀ x, f.ready = some (some x) → ∀ i, key i = k → x = specVal deps eval dflt i

theorem get_set_prop (P : K → KeyFiles V → Prop) (d : Dir K V) (h : ∀ k, P k (Dir.get d k))
    (k : K) (f : KeyFiles V) (hf : P k f) : ∀ k', P k' (Dir.get (Dir.set d k f) k') := by
  intro k'
  rw [Dir.get_set]
  split
  · rename_i hkk; subst hkk; exact hf
  · exact h k'

/-- preserved by EVERY label, including the crash labels, for every value of the switches -/
theorem fileInv_step (hwf : WfDeps deps) (hk : KeyOK deps key eval dflt) {s s' : State K V} {l : Label}
    (hI : FileInv deps key eval dflt s) (h : step v ncalls deps key eval s l = some s') :
    FileInv deps key eval dflt s' := by
  obtain ⟨hd, hr, hp, hm, hf⟩ := hI
  have hp' : ∀ (p : Nat) (pr : Proc K V), s.procs[p]? = some pr → ProcOK deps key eval dflt pr := hp
  cases l <;> simp only [step] at h
  case submit =>
    split_step h
    cases h
    refine ⟨hd, hr, hp, hm, ?_⟩
    intro i x hx
    simp only [futOf, getD_set_fut] at hx
    split at hx
    · cases hx
    · exact hf i x hx
  case take =>
    split_step h
    cases h
    exact ⟨hd, hr, hp, hm, hf⟩
  case lookup =>
    split_step h
    · cases h; exact ⟨hd, hr, hp, hm, hf⟩
    · cases h
      refine ⟨hd, hr, hp, ?_, hf⟩
      intro k i hmem
      simp only [List.mem_append, List.mem_singleton, Prod.mk.injEq] at hmem
      rcases hmem with hmem | ⟨rfl, rfl⟩
      · exact hm k i hmem
      · rfl
    · cases h; exact ⟨hd, hr, hp, hm, hf⟩
  case writeInput =>
    split_step h
    · cases h; exact ⟨hd, hr, hp, hm, hf⟩
    · cases h
      refine ⟨?_, ?_, hp, hm, hf⟩
      · intro k x hx
        simp only [Dir.get_set] at hx
        split at hx
        · rename_i hkk; subst hkk; exact hd _ x hx
        · exact hd k x hx
      · intro k x hx
        simp only [Dir.get_set] at hx
        split at hx
        · rename_i hkk; subst hkk; exact hr _ x hx
        · exact hr k x hx
  case launch =>
    split_step h
    · cases h; exact ⟨hd, hr, hp, hm, hf⟩
    · cases h
      refine ⟨hd, hr, ?_, ?_, hf⟩
      · exact procs_append deps key eval dflt hp' _ ⟨rfl, trivial⟩
      · intro k i hmem
        simp only [List.mem_append, List.mem_singleton, Prod.mk.injEq] at hmem
        rcases hmem with hmem | ⟨rfl, rfl⟩
        · exact hm k i hmem
        · rfl
  case collect k =>
    split_step h
    rename_i _ _ kk i _ hmk _ x hout
    cases h
    refine ⟨hd, hr, hp, ?_, ?_⟩
    · intro k' i' hmem
      exact hm k' i' (List.mem_of_mem_eraseIdx hmem)
    · intro j y hy
      simp only [futOf, getD_set_fut] at hy
      split at hy
      · rename_i hij
        cases hy
        obtain ⟨rfl, _⟩ := hij
        exact hd kk _ hout _ (hm kk _ (List.mem_of_getElem? hmk))
      · exact hf j y hy
  case pLoad p =>
    split at h
    · rename_i pr hpr
      have hpo := hp' p pr hpr
      split at h
      · split at h
        · split at h
          · rename_i vs hvs
            cases h
            refine ⟨hd, hr, ?_, hm, hf⟩
            exact procs_set deps key eval dflt hp' p _ ⟨hpo.1, inputsFrom_spec deps key eval dflt hd _ _ hvs⟩
          · cases h
            exact ⟨hd, hr, procs_set deps key eval dflt hp' p _ ⟨hpo.1, trivial⟩, hm, hf⟩
        · cases h
          exact ⟨hd, hr, procs_set deps key eval dflt hp' p _ ⟨hpo.1, trivial⟩, hm, hf⟩
      · cases h
    · cases h
  case pCall p =>
    split_step h
    rename_i pr hpr _ vs hpc
    have hpo := hp' p pr hpr
    simp only [ProcOK, hpc] at hpo
    cases h
    refine ⟨hd, hr, ?_, hm, hf⟩
    refine procs_set deps key eval dflt hp' p _ ⟨hpo.1, ?_⟩
    show eval pr.call vs = specVal deps eval dflt pr.call
    rw [specVal_eq deps eval dflt hwf, hpo.2]
  case pStage p =>
    split_step h
    rename_i pr hpr _ x hpc
    have hpo := hp' p pr hpr
    simp only [ProcOK, hpc] at hpo
    cases h
    refine ⟨?_, ?_, ?_, hm, hf⟩
    · exact get_set_prop (OutOK deps key eval dflt) _ hd _ _ (fun y hy => hd _ y hy)
    · exact get_set_prop (ReadyOK deps key eval dflt) _ hr _ _ (fun y hy => by cases hy)
    · exact procs_set deps key eval dflt hp' p _ ⟨hpo.1, hpo.2⟩
  case pWrite p =>
    split_step h
    rename_i pr hpr _ x hpc
    have hpo := hp' p pr hpr
    simp only [ProcOK, hpc] at hpo
    cases h
    refine ⟨?_, ?_, ?_, hm, hf⟩
    · exact get_set_prop (OutOK deps key eval dflt) _ hd _ _ (fun y hy => hd _ y hy)
    · refine get_set_prop (ReadyOK deps key eval dflt) _ hr _ _ ?_
      intro y hy i hi
      cases hy
      rw [hpo.2]
      exact (hk i pr.call (hi.trans hpo.1.symm)).symm
    · exact procs_set deps key eval dflt hp' p _ ⟨hpo.1, hpo.2⟩
  case pPublish p =>
    split_step h
    rename_i pr hpr _ x hpc
    have hpo := hp' p pr hpr
    simp only [ProcOK, hpc] at hpo
    cases h
    refine ⟨?_, ?_, ?_, hm, hf⟩
    · refine get_set_prop (OutOK deps key eval dflt) _ hd _ _ ?_
      intro y hy i hi
      cases hy
      rw [hpo.2]
      exact (hk i pr.call (hi.trans hpo.1.symm)).symm
    · exact get_set_prop (ReadyOK deps key eval dflt) _ hr _ _ (fun y hy => by cases hy)
    · exact procs_set deps key eval dflt hp' p _ ⟨hpo.1, trivial⟩
  case crashProc p =>
    split_step h
    all_goals rename_i pr hpr _ _ _
    all_goals have hpo := hp' p pr hpr
    all_goals cases h
    all_goals exact ⟨hd, hr, procs_set deps key eval dflt hp' p _ ⟨hpo.1, trivial⟩, hm, hf⟩
  case crashWrite p =>
    split_step h
    rename_i pr hpr _ x hpc
    have hpo := hp' p pr hpr
    cases h
    exact ⟨hd, hr, procs_set deps key eval dflt hp' p _ ⟨hpo.1, trivial⟩, hm, hf⟩

theorem fileInv_run (hwf : WfDeps deps) (hk : KeyOK deps key eval dflt) {s s' : State K V} (ls : List Label)
    (hI : FileInv deps key eval dflt s) (h : run v ncalls deps key eval s ls = some s') :
    FileInv deps key eval dflt s' := by
  induction ls generalizing s with
  | nil => simp only [run] at h; cases h; exact hI
  | cons l ls ih =>
    simp only [run] at h
    cases hs : step v ncalls deps key eval s l with
    | none => rw [hs] at h; cases h
    | some s₁ =>
      rw [hs] at h
      exact ih (fileInv_step v ncalls deps key eval dflt hwf hk hI hs) h

/-- C13: every future of a file-mode run holds the value sequential evaluation gives for its own call -/
theorem file_values (hwf : WfDeps deps) (hk : KeyOK deps key eval dflt) {s s' : State K V} (ls : List Label)
    (hI : FileInv deps key eval dflt s) (h : run v ncalls deps key eval s ls = some s') (i : Nat) (x : V)
    (hf : futOf s' i = .finished x) : x = specVal deps eval dflt i :=
  (fileInv_run v ncalls deps key eval dflt hwf hk ls hI h).futs i x hf

/-- C14: at whatever point worker processes are killed, the directory never contains a published entry with a wrong value -/
theorem atomic_visibility (hwf : WfDeps deps) (hk : KeyOK deps key eval dflt) {s s' : State K V} (ls : List Label)
    (hI : FileInv deps key eval dflt s) (h : run v ncalls deps key eval s ls = some s') :
    DirOK deps key eval dflt s'.dir :=
  (fileInv_run v ncalls deps key eval dflt hwf hk ls hI h).dir

theorem loop_step_alive {s s' : State K V} {l : Label} (hs : s.loop ≠ .dead)
    (h : step ⟨true, true⟩ ncalls deps key eval s l = some s') : s'.loop ≠ .dead := by
  cases l <;> simp only [step] at h
  all_goals split_step h
  all_goals cases h
  all_goals first
    | exact hs
    | (intro hc; cases hc; done)
    | (simp at *; done)

/-- with both defects repaired the loop thread never dies, whatever files earlier (crashed) sessions left -/
theorem loop_never_dies {s s' : State K V} (ls : List Label) (hs : s.loop ≠ .dead)
    (h : run ⟨true, true⟩ ncalls deps key eval s ls = some s') : s'.loop ≠ .dead := by
  induction ls generalizing s with
  | nil => simp only [run] at h; cases h; exact hs
  | cons l ls ih =>
    simp only [run] at h
    cases hs1 : step ⟨true, true⟩ ncalls deps key eval s l with
    | none => rw [hs1] at h; cases h
    | some s₁ =>
      rw [hs1] at h
      exact ih (loop_step_alive ncalls deps key eval hs hs1) h

/-- a published result suppresses the launch: the call is registered without writing an input file or starting a process -/
theorem existing_result_suppresses_launch (s : State K V) (i : Nat) (x : V) (hl : s.loop = .converted i)
    (hm : memGet s.memory (key i) = none) (ho : (Dir.get s.dir (key i)).out = some x) :
    step v ncalls deps key eval s .lookup = some { s with loop := .idle, memory := s.memory ++ [(key i, i)] } := by
  simp [step, hl, hm, ho]

end Spec
end ExecModel.FileExec
