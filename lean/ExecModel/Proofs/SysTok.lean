import ExecModel.Proofs.SysFut
/-!
  Token uniqueness for `Sys`: every call is held by at most one place of the system.
-/
namespace ExecModel.Sys

variable {Val Err : Type}

/-! ### arithmetic helpers -/

theorem qCnt_put (i : Nat) (q : Queue Val) (it : Item Val) :
    qCnt i (q.put it) = qCnt i q + itemCnt i it := by
  simp [qCnt, Queue.put]

theorem sum_map_ge {α : Type} (f : α → Nat) (l : List α) (k : Nat) (a : α) (h : l[k]? = some a) :
    f a ≤ (l.map f).sum := by
  induction l generalizing k with
  | nil => simp at h
  | cons x l ih =>
    cases k with
    | zero =>
      simp only [List.getElem?_cons_zero, Option.some.injEq] at h; subst h
      simp only [List.map_cons, List.sum_cons]; omega
    | succ k =>
      simp only [List.getElem?_cons_succ] at h; have := ih k h
      simp only [List.map_cons, List.sum_cons]; omega

theorem qp_set_le (i : Nat) (qp : List (Queue Val)) (j : Nat) (v : Queue Val) :
    ((qp.set j v).map (qCnt i)).sum + qCnt i (qp.getD j {}) ≤ (qp.map (qCnt i)).sum + qCnt i v := by
  cases h : qp[j]? with
  | some a =>
    have := sum_map_set (qCnt i) qp j a v h
    simp only [List.getD_eq_getElem?_getD, h, Option.getD_some]; omega
  | none =>
    have hl : qp.length ≤ j := by simpa using h
    rw [List.set_eq_of_length_le hl]
    simp [List.getD_eq_getElem?_getD, h, qCnt]

theorem qp_getD_le (i : Nat) (qp : List (Queue Val)) (j : Nat) :
    qCnt i (qp.getD j {}) ≤ (qp.map (qCnt i)).sum := by
  cases h : qp[j]? with
  | some a =>
    have := sum_map_ge (qCnt i) qp j a h
    simpa [List.getD_eq_getElem?_getD, h] using this
  | none => simp [List.getD_eq_getElem?_getD, h, qCnt]

theorem count_eraseIdx_ite (l : List Nat) (k n i : Nat) (h : l[k]? = some n) :
    (l.eraseIdx k).count i + (if n = i then 1 else 0) = l.count i := by
  induction l generalizing k with
  | nil => simp at h
  | cons x l ih =>
    cases k with
    | zero =>
      simp only [List.getElem?_cons_zero, Option.some.injEq] at h; subst h
      simp only [List.eraseIdx_cons_zero, List.count_cons, beq_iff_eq]
    | succ k =>
      simp only [List.getElem?_cons_succ] at h; have := ih k h
      simp only [List.eraseIdx_cons_succ, List.count_cons]; omega

/-! ### how the state updates move the count -/

@[simp] theorem nsub_setQ (s : State Val Err) (q : QId) (v : Queue Val) : (setQ s q v).nsub = s.nsub := by
  cases q <;> rfl
@[simp] theorem wk_setQ (s : State Val Err) (q : QId) (v : Queue Val) : (setQ s q v).wk = s.wk := by
  cases q <;> rfl
@[simp] theorem mainPc_setQ (s : State Val Err) (q : QId) (v : Queue Val) : (setQ s q v).mainPc = s.mainPc := by
  cases q <;> rfl
@[simp] theorem res_setQ (s : State Val Err) (q : QId) (v : Queue Val) : (setQ s q v).res = s.res := by
  cases q <;> rfl
@[simp] theorem mainPc_taskDone (s : State Val Err) (q : QId) : (taskDone s q).mainPc = s.mainPc := by
  simp [taskDone]
@[simp] theorem res_taskDone (s : State Val Err) (q : QId) : (taskDone s q).res = s.res := by
  simp [taskDone]
@[simp] theorem nsub_taskDone (s : State Val Err) (q : QId) : (taskDone s q).nsub = s.nsub := by
  simp [taskDone]
@[simp] theorem wk_taskDone (s : State Val Err) (q : QId) : (taskDone s q).wk = s.wk := by
  simp [taskDone]
@[simp] theorem nsub_setWk (s : State Val Err) (k : Nat) (w : Worker Val Err) : (setWk s k w).nsub = s.nsub := rfl
@[simp] theorem nsub_setFut (s : State Val Err) (j : Nat) (f : Fut Val Err) : (setFut s j f).nsub = s.nsub := rfl
@[simp] theorem wk_setFut (s : State Val Err) (j : Nat) (f : Fut Val Err) : (setFut s j f).wk = s.wk := rfl
@[simp] theorem cnt_setFut (s : State Val Err) (j : Nat) (f : Fut Val Err) (i : Nat) :
    cnt (setFut s j f) i = cnt s i := rfl

theorem cnt_setQ_le (s : State Val Err) (q : QId) (v : Queue Val) (i : Nat) :
    cnt (setQ s q v) i + qCnt i (getQ s q) ≤ cnt s i + qCnt i v := by
  cases q with
  | outer => simp only [cnt, setQ, getQ]; omega
  | inner => simp only [cnt, setQ, getQ]; omega
  | priv j =>
    have := qp_set_le i s.qp j v
    simp only [cnt, setQ, getQ]; omega

theorem cnt_taskDone_le (s : State Val Err) (q : QId) (i : Nat) : cnt (taskDone s q) i ≤ cnt s i := by
  have := cnt_setQ_le s q { getQ s q with unfin := (getQ s q).unfin - 1 } i
  simp only [taskDone]
  simp only [qCnt] at this ⊢
  omega

theorem cnt_setWk {s : State Val Err} {k : Nat} {w : Worker Val Err} (w' : Worker Val Err) (i : Nat)
    (hk : s.wk[k]? = some w) : cnt (setWk s k w') i + wkCnt i w = cnt s i + wkCnt i w' := by
  have := sum_map_set (wkCnt i) s.wk k w w' hk
  simp only [cnt, setWk]; omega

theorem qCnt_getQ_le (s : State Val Err) (q : QId) (i : Nat) :
    qCnt i (getQ s q) ≤ qCnt i s.qo + qCnt i s.qi + (s.qp.map (qCnt i)).sum := by
  cases q with
  | outer => simp only [getQ]; omega
  | inner => simp only [getQ]; omega
  | priv j => have := qp_getD_le i s.qp j; simp only [getQ]; omega

section
set_option linter.unusedSimpArgs false
variable (cfg : Cfg) (eval : Nat → List Val → Except Err Val) (cancelErr : Err)

/-- The shape of the per-step bound. -/
def CntLe (s s' : State Val Err) (i : Nat) : Prop :=
  cnt s' i ≤ cnt s i + (if i = s.nsub ∧ s'.nsub = s.nsub + 1 then 1 else 0) ∧
    s.nsub ≤ s'.nsub ∧ s'.nsub ≤ s.nsub + 1

theorem CntLe.of_le {s s' : State Val Err} {i : Nat} (h : cnt s' i ≤ cnt s i) (hn : s'.nsub = s.nsub) :
    CntLe s s' i := by
  unfold CntLe; omega

theorem cnt_setWk' {S : State Val Err} {k : Nat} {w : Worker Val Err} (w' : Worker Val Err) (i : Nat)
    (hk : S.wk[k]? = some w) : cnt (setWk S k w') i = cnt S i + wkCnt i w' - wkCnt i w := by
  have := cnt_setWk w' i hk; omega

theorem workerStep_cnt {s s' : State Val Err} {k : Nat} {l : Label Val Err}
    (h : workerStep eval s k l = some s') (i : Nat) : CntLe s s' i := by
  unfold workerStep at h
  cases hk : s.wk[k]? with
  | none => simp [hk] at h
  | some w =>
    simp only [hk] at h
    have hQ := fun v => cnt_setQ_le s w.q v i
    have hT := cnt_taskDone_le s w.q i
    split_step h
    all_goals (simp only [Option.some.injEq] at h; subst h)
    all_goals (apply CntLe.of_le _ (by simp))
    all_goals (first | rw [cnt_setWk' (w := w)] | (show cnt (setWk s k _) i ≤ _; rw [cnt_setWk' (w := w)]))
    all_goals (first | (simpa using hk) | skip)
    all_goals grind [wkCnt, wpcCnt, qCnt, itemCnt, cnt_setFut]

/-- Token count carried by the result of a step of the shutdown procedure. -/
def sdResCnt (i : Nat) : Except Err (Option Sd) → Nat
  | .ok (some sd') => sdCnt i sd'
  | _ => 0

theorem sdCnt_sdNormalize (i : Nat) (sd : Sd) : sdCnt i (sdNormalize cfg sd) = sdCnt i sd := by
  unfold sdNormalize
  split <;> (try split) <;> simp_all [sdCnt]

theorem sdCnt_sdNorm (i : Nat) (sd : Sd) : sdCnt i (sdNorm cfg sd) = sdCnt i sd := by
  simp [sdNorm, sdCnt_sdNormalize]

theorem sdStep_cnt {s s' : State Val Err} {sd : Sd} {l : Label Val Err} {r : Except Err (Option Sd)}
    (h : sdStep cfg s sd l = some (s', r)) (i : Nat) :
    cnt s' i + sdResCnt i r ≤ cnt s i + sdCnt i sd ∧ s'.nsub = s.nsub ∧ s'.mainPc = s.mainPc ∧ s'.res = s.res := by
  have hQ := fun v => cnt_setQ_le s sd.target v i
  have hT := cnt_taskDone_le s sd.target i
  unfold sdStep at h
  split_step h
  all_goals (simp only [Option.some.injEq, Prod.mk.injEq] at h; obtain ⟨h1, h2⟩ := h; subst h1; subst h2)
  all_goals (first | grind [sdResCnt, sdCnt, qCnt, itemCnt, cnt_setFut, qCnt_put, mainPc_setQ, res_setQ, nsub_setQ, nsub_taskDone, mainPc_taskDone, res_taskDone] | (refine ⟨?_, rfl, rfl, rfl⟩; show cnt s i + _ ≤ _; simp [sdResCnt, sdCnt]))

theorem mainSd_cnt {s s1 : State Val Err} {sd : Sd} {l : Label Val Err} {r : Except Err (Option Sd)}
    (hm : s.mainPc = .inSd sd) (hsd : sdStep cfg s sd l = some (s1, r)) (i : Nat) :
    qCnt i s1.qo + qCnt i s1.qi + (s1.qp.map (qCnt i)).sum + sdResCnt i r + resCnt i s1.res
      + s1.waitLst.count i + dispCnt i s1.disp + (s1.wk.map (wkCnt i)).sum ≤ cnt s i ∧ s1.nsub = s.nsub := by
  obtain ⟨h1, h2, h3, h4⟩ := sdStep_cnt cfg hsd i
  rw [hm] at h3
  refine ⟨?_, h2⟩
  simp only [cnt, mainCnt, h3, hm] at h1 ⊢
  omega

theorem mainStep_cnt {s s' : State Val Err} {l : Label Val Err}
    (h : mainStep cfg s l = some s') (i : Nat) : CntLe s s' i := by
  unfold mainStep at h
  split_step h
  all_goals (simp only [Option.some.injEq] at h; subst h)
  all_goals first
    | (rename_i hm _ _ _ _ hsd
       have h12 := mainSd_cnt cfg hm hsd i
       obtain ⟨h1, h2⟩ := h12
       simp only [CntLe, cnt, mainCnt, sdResCnt, sdCnt_sdNorm, h2] at h1 ⊢
       omega)
    | (rename_i hm _ _ _ hsd
       have h12 := mainSd_cnt cfg hm hsd i
       obtain ⟨h1, h2⟩ := h12
       simp only [CntLe, cnt, mainCnt, sdResCnt, h2] at h1 ⊢
       omega)
    | skip
  · have := cnt_setQ_le (setFut { s with script := ‹_›, nsub := s.nsub + 1 } s.nsub .pending) (frontQ cfg)
      ((getQ (setFut { s with script := ‹_›, nsub := s.nsub + 1 } s.nsub .pending) (frontQ cfg)).put (.task s.nsub [])) i
    rw [qCnt_put] at this
    have e : cnt (setFut { s with script := ‹_›, nsub := s.nsub + 1 } s.nsub .pending) i = cnt s i := rfl
    rw [e] at this
    simp only [CntLe, nsub_setQ, nsub_setFut, itemCnt] at this ⊢
    refine ⟨?_, by omega, by omega⟩
    by_cases hi : s.nsub = i
    · simp only [hi, if_true] at this ⊢; simp only [and_self, if_true]; omega
    · have hi' : ¬ i = s.nsub := fun h => hi h.symm
      simp only [hi, hi', if_false, false_and] at this ⊢; omega
  all_goals (have hm : s.mainPc = MainPc.idle := by assumption)
  all_goals (simp only [CntLe, cnt, mainCnt, sdCnt_sdNorm, hm]; simp [sdCnt, setFut])

theorem resSd_cnt {s s1 : State Val Err} {sd : Sd} {l : Label Val Err} {r : Except Err (Option Sd)}
    (hm : s.res = some (.inSd sd)) (hsd : sdStep cfg s sd l = some (s1, r)) (i : Nat) :
    qCnt i s1.qo + qCnt i s1.qi + (s1.qp.map (qCnt i)).sum + mainCnt i s1.mainPc + sdResCnt i r
      + s1.waitLst.count i + dispCnt i s1.disp + (s1.wk.map (wkCnt i)).sum ≤ cnt s i ∧ s1.nsub = s.nsub := by
  obtain ⟨h1, h2, h3, h4⟩ := sdStep_cnt cfg hsd i
  rw [hm] at h4
  refine ⟨?_, h2⟩
  simp only [cnt, resCnt, h4, hm] at h1 ⊢
  omega

theorem resStep_cnt {s s' : State Val Err} {l : Label Val Err}
    (h : resStep cfg cancelErr s l = some s') (i : Nat) : CntLe s s' i := by
  unfold resStep at h
  split_step h
  all_goals (simp only [Option.some.injEq] at h; subst h)
  all_goals first
    | (rename_i hm _ _ _ _ hsd
       have h12 := resSd_cnt cfg hm hsd i
       obtain ⟨h1, h2⟩ := h12
       simp only [CntLe, cnt, resCnt, sdResCnt, sdCnt_sdNorm, h2] at h1 ⊢
       omega)
    | (rename_i hm _ _ _ hsd
       have h12 := resSd_cnt cfg hm hsd i
       obtain ⟨h1, h2⟩ := h12
       simp only [CntLe, cnt, resCnt, sdResCnt, h2] at h1 ⊢
       omega)
    | skip
  all_goals first
    | (have hw := count_eraseIdx_ite s.waitLst _ _ i (by assumption)
       simp [CntLe, cnt, resCnt, setFut, taskDone, setQ, getQ, qCnt, Queue.put, itemCnt, *] at hw ⊢
       omega)
    | (simp [CntLe, cnt, resCnt, setFut, taskDone, setQ, getQ, qCnt, Queue.put, itemCnt, *]
       done)
    | (simp [CntLe, cnt, resCnt, setFut, taskDone, setQ, getQ, qCnt, Queue.put, itemCnt, *]
       omega)
    | (simp only [CntLe, cnt, resCnt, sdCnt_sdNorm, *]; simp [sdCnt]; done)
    | (simp [CntLe, cnt, resCnt, List.count_singleton, *]; omega)

theorem dispStep_cnt {s s' : State Val Err} {l : Label Val Err}
    (h : dispStep cfg s l = some s') (i : Nat) : CntLe s s' i := by
  unfold dispStep at h
  split_step h
  all_goals (simp only [Option.some.injEq] at h; subst h)
  all_goals first
    | (simp [CntLe, cnt, dispCnt, taskDone, setQ, getQ, qCnt, itemCnt, wkCnt, wpcCnt, *]
       done)
    | (simp [CntLe, cnt, dispCnt, taskDone, setQ, getQ, qCnt, itemCnt, wkCnt, wpcCnt, *]
       omega)
    | (rename_i j vs _ _ _
       have hq := qp_set_le i s.qp j { items := [Item.task j vs, Item.stop true], unfin := 2 }
       simp [CntLe, cnt, dispCnt, qCnt, itemCnt, wkCnt, wpcCnt, *] at hq ⊢
       omega)

theorem step_cnt' {s s' : State Val Err} {l : Label Val Err} (h : step cfg eval cancelErr s l = some s') (i : Nat) :
    CntLe s s' i := by
  unfold step at h
  split at h
  all_goals first
    | exact mainStep_cnt cfg h i
    | exact resStep_cnt cfg cancelErr h i
    | exact dispStep_cnt cfg h i
    | exact workerStep_cnt eval h i

/-- Every step leaves the token count of every call unchanged or lower, except that submitting call
    `s.nsub` creates its one token. `nsub` never decreases, and grows by one exactly on the two submit labels. -/
theorem step_cnt {s s' : State Val Err} {l : Label Val Err} (h : step cfg eval cancelErr s l = some s') (i : Nat) :
    cnt s' i ≤ cnt s i + (if i = s.nsub ∧ s'.nsub = s.nsub + 1 then 1 else 0) ∧ s.nsub ≤ s'.nsub ∧ s'.nsub ≤ s.nsub + 1 :=
  step_cnt' cfg eval cancelErr h i

theorem unique_init (script : List Cmd) : Unique (init cfg script : State Val Err) := by
  intro i
  have : cnt (init cfg script : State Val Err) i = 0 := by
    simp only [cnt, init]
    cases cfg.resolver <;> cases cfg.block <;>
      simp [qCnt, mainCnt, resCnt, dispCnt, wkCnt, wpcCnt, List.map_replicate]
  omega

theorem unique_step {s s' : State Val Err} {l : Label Val Err} (hu : Unique s)
    (h : step cfg eval cancelErr s l = some s') : Unique s' := by
  intro i
  obtain ⟨h1, h2, h3⟩ := step_cnt cfg eval cancelErr h i
  obtain ⟨u1, u2⟩ := hu i
  split at h1 <;> constructor <;> intros <;> omega

theorem unique_run {s s' : State Val Err} (ls : List (Label Val Err)) (hu : Unique s)
    (h : run cfg eval cancelErr s ls = some s') : Unique s' := by
  induction ls generalizing s with
  | nil => simp only [run, Option.some.injEq] at h; subst h; exact hu
  | cons l ls ih =>
    simp only [run] at h
    cases hs : step cfg eval cancelErr s l with
    | none => simp [hs] at h
    | some s1 =>
      simp only [hs, Option.bind_some] at h
      exact ih (unique_step cfg eval cancelErr hu hs) h

theorem unique_reachable {script : List Cmd} {s : State Val Err}
    (h : Reachable cfg eval cancelErr script s) : Unique s := by
  obtain ⟨ls, h⟩ := h
  exact unique_run cfg eval cancelErr ls (unique_init cfg script) h

end

/-! ### holder lemmas used by later proofs -/

theorem wk_sum_ge {s : State Val Err} {k i : Nat} {w : Worker Val Err}
    (hk : s.wk[k]? = some w) (hw : wkCnt i w = 1) : 1 ≤ (s.wk.map (wkCnt i)).sum := by
  have := sum_map_ge (wkCnt i) s.wk k w hk; omega

theorem cnt_ge_of_wk {s : State Val Err} {k i : Nat} {w : Worker Val Err}
    (hk : s.wk[k]? = some w) (hw : wkCnt i w = 1) : 1 ≤ cnt s i := by
  have := wk_sum_ge hk hw
  simp only [cnt]; omega

theorem cnt_ge_two_of_wk_wk {s : State Val Err} {k k' i : Nat} {w w' : Worker Val Err} (hne : k ≠ k')
    (hk : s.wk[k]? = some w) (hk' : s.wk[k']? = some w') (hw : wkCnt i w = 1) (hw' : wkCnt i w' = 1) :
    2 ≤ cnt s i := by
  have h1 := sum_map_set (wkCnt i) s.wk k w { w with pc := .boot } hk
  have h2 : (s.wk.set k { w with pc := .boot })[k']? = some w' := by
    rw [List.getElem?_set_ne hne]; exact hk'
  have h3 := sum_map_ge (wkCnt i) _ k' w' h2
  have h4 : wkCnt i ({ w with pc := .boot } : Worker Val Err) = 0 := rfl
  simp only [cnt]; omega

theorem cnt_ge_two_of_wk_res {s : State Val Err} {k i : Nat} {w : Worker Val Err}
    (hk : s.wk[k]? = some w) (hw : wkCnt i w = 1) (hr : resCnt i s.res = 1) : 2 ≤ cnt s i := by
  have := wk_sum_ge hk hw
  simp only [cnt]; omega

theorem cnt_ge_two_of_wk_q {s : State Val Err} {k i : Nat} {w : Worker Val Err} (q : QId)
    (hk : s.wk[k]? = some w) (hw : wkCnt i w = 1) (hq : 1 ≤ qCnt i (getQ s q)) : 2 ≤ cnt s i := by
  have := wk_sum_ge hk hw
  have := qCnt_getQ_le s q i
  simp only [cnt]; omega

end ExecModel.Sys
