import ExecModel.Proofs.SysLiveBasic
/-!
  Liveness groundwork, part B: the queue counters of the outer and the inner queue
  (`counterOk s .outer`, `counterOk s .inner`) hold initially and are preserved by every step.
-/
set_option linter.unusedSimpArgs false
set_option linter.unusedVariables false
namespace ExecModel.Sys

variable {Val Err : Type}
variable (cfg : Cfg) (eval : Nat → List Val → Except Err Val) (cancelErr : Err)

/-! ### the holder count, by component -/

def lb_wp (q : QId) (w : Worker Val Err) : Bool := w.q == q && wHolds w.pc
def lb_wkH (wk : List (Worker Val Err)) (q : QId) : Nat := (wk.filter (lb_wp q)).length
def lb_rH (r : Option (RPc Val Err)) (q : QId) : Nat := if q == .outer && rHolds r then 1 else 0
def lb_dH (d : Option (DPc Val Err)) (q : QId) : Nat := if q == .inner && dHolds d then 1 else 0
def lb_sdC (sd : Sd) (q : QId) : Nat := if sd.target == q && sdHolds sd then 1 else 0
def lb_mH (m : MainPc) (q : QId) : Nat :=
  match m with
  | .inSd sd => lb_sdC sd q
  | .idle => 0
/-- contribution of the result of one `sdStep` -/
def lb_rC (r : Except Err (Option Sd)) (q : QId) : Nat :=
  match r with
  | .ok (some sd) => lb_sdC sd q
  | _ => 0

theorem lb_holders (s : State Val Err) (q : QId) :
    holders s q = lb_wkH s.wk q + lb_rH s.res q + lb_dH s.disp q + lb_mH s.mainPc q := by
  unfold holders mainSd lb_mH lb_wkH lb_rH lb_dH lb_sdC
  cases s.mainPc <;> rfl

theorem lb_counter_iff (s : State Val Err) (q : QId) :
    counterOk s q = true ↔
      (getQ s q).unfin = (getQ s q).items.length
        + (lb_wkH s.wk q + lb_rH s.res q + lb_dH s.disp q + lb_mH s.mainPc q) := by
  simp [counterOk, lb_holders]

/-! ### queue access for the two shared queues -/

theorem lb_getQ_setQ {q : QId} (hq : q = .outer ∨ q = .inner) (s : State Val Err) (q1 : QId)
    (v : Queue Val) : getQ (setQ s q1 v) q = if q1 = q then v else getQ s q := by
  rcases hq with rfl | rfl <;> cases q1 <;> simp [getQ, setQ]

@[simp] theorem lb_getQ_sentLog (s : State Val Err) (x : List Nat) (q : QId) :
    getQ { s with sentLog := x } q = getQ s q := by cases q <;> rfl
@[simp] theorem lb_getQ_cancelOk (s : State Val Err) (x : List Nat) (q : QId) :
    getQ { s with cancelOk := x } q = getQ s q := by cases q <;> rfl
@[simp] theorem lb_getQ_setWk (s : State Val Err) (k : Nat) (w : Worker Val Err) (q : QId) :
    getQ (setWk s k w) q = getQ s q := by cases q <;> rfl
@[simp] theorem lb_getQ_setFut (s : State Val Err) (i : Nat) (f : Fut Val Err) (q : QId) :
    getQ (setFut s i f) q = getQ s q := by cases q <;> rfl

/-! ### counting over the worker table -/

theorem lb_filter_set {α : Type} (p : α → Bool) (l : List α) (k : Nat) (a b : α)
    (h : l[k]? = some a) :
    ((l.set k b).filter p).length + (if p a then 1 else 0)
      = (l.filter p).length + (if p b then 1 else 0) := by
  induction l generalizing k with
  | nil => simp at h
  | cons x l ih =>
    cases k with
    | zero =>
      simp only [List.getElem?_cons_zero, Option.some.injEq] at h; subst h
      simp only [List.set_cons_zero, List.filter_cons]
      cases p x <;> cases p b <;> simp
    | succ k =>
      simp only [List.getElem?_cons_succ] at h; have := ih k h
      simp only [List.set_cons_succ, List.filter_cons]
      cases p x <;> simp <;> omega

theorem lb_wkH_set {wk : List (Worker Val Err)} {k : Nat} {w : Worker Val Err} (q : QId)
    (hk : wk[k]? = some w) (w' : Worker Val Err) :
    lb_wkH (wk.set k w') q
      = lb_wkH wk q + (if lb_wp q w' then 1 else 0) - (if lb_wp q w then 1 else 0)
    ∧ (if lb_wp q w then 1 else 0) ≤ lb_wkH wk q := by
  have := lb_filter_set (lb_wp q) wk k w w' hk
  unfold lb_wkH
  have hpos : lb_wp q w = true → 0 < (wk.filter (lb_wp q)).length := fun hp =>
    List.length_pos_of_mem (List.mem_filter.2 ⟨List.mem_of_getElem? hk, hp⟩)
  cases h1 : lb_wp q w <;> cases h2 : lb_wp q w' <;>
    simp only [h1, h2, if_true, if_false, Bool.false_eq_true, forall_const] at this hpos ⊢ <;> omega

theorem lb_wkH_set_eq {wk : List (Worker Val Err)} {k : Nat} {w : Worker Val Err} (q : QId)
    (hk : wk[k]? = some w) (w' : Worker Val Err) :
    lb_wkH (wk.set k w') q
      = lb_wkH wk q + (if lb_wp q w' then 1 else 0) - (if lb_wp q w then 1 else 0) :=
  (lb_wkH_set q hk w').1

/-! ### worker threads -/

theorem lb_workerStep {s s' : State Val Err} {k : Nat} {l : Label Val Err} {q : QId}
    (hq : q = .outer ∨ q = .inner) (hc : counterOk s q = true)
    (h : workerStep eval s k l = some s') : counterOk s' q = true := by
  unfold workerStep at h
  split at h
  · cases h
  rename_i w hk
  have hge := (lb_wkH_set q hk w).2
  rw [lb_counter_iff] at hc ⊢
  by_cases hwq : w.q = q
  · split_step h
    all_goals (simp only [Option.some.injEq] at h; subst h)
    all_goals (
      try simp only [lb_getQ_sentLog]
      simp only [setWk_wk, setQ_wk, taskDone_wk, setFut_wk, lb_wkH_set_eq q hk, lb_getQ_setWk,
        lb_getQ_setFut, lb_getQ_setQ hq, taskDone, setWk_res, setQ_res, setFut_res, setWk_disp,
        setQ_disp, setFut_disp, setWk_mainPc, setQ_mainPc, setFut_mainPc, hwq, if_true]
      simp only [lb_wp, hwq, wHolds, beq_self_eq_true, Bool.true_and, *] at hge hc ⊢
      simp_all <;> omega)
  · have hb : (w.q == q) = false := by simp [hwq]
    split_step h
    all_goals (simp only [Option.some.injEq] at h; subst h)
    all_goals (
      try simp only [lb_getQ_sentLog]
      simp only [setWk_wk, setQ_wk, taskDone_wk, setFut_wk, lb_wkH_set_eq q hk, lb_getQ_setWk,
        lb_getQ_setFut, lb_getQ_setQ hq, taskDone, setWk_res, setQ_res, setFut_res, setWk_disp,
        setQ_disp, setFut_disp, setWk_mainPc, setQ_mainPc, setFut_mainPc, hwq, if_false]
      simp only [lb_wp, hb, Bool.false_and] at hge hc ⊢
      simp_all <;> omega)

/-! ### no thread has died -/

theorem lb_noDead_ended {s : State Val Err} (hd : noDead s = true) (t : TId) (e : Err) :
    threadEnded s t ≠ some (some e) := by
  simp only [noDead, Bool.and_eq_true, List.all_eq_true] at hd
  obtain ⟨⟨hw, hr⟩, hdp⟩ := hd
  intro h
  cases t with
  | resolver => simp only [threadEnded] at h; split at h <;> simp_all
  | disp => simp only [threadEnded] at h; split at h <;> simp_all
  | worker k =>
    simp only [threadEnded] at h
    split at h
    · rename_i w hk
      have := hw w (List.mem_of_getElem? hk)
      split at h <;> simp_all [wDead]
    · cases h

/-! ### dispatcher -/

theorem lb_wkH_append {wk : List (Worker Val Err)} {w : Worker Val Err} {q : QId} (h : w.q ≠ q) :
    lb_wkH (wk ++ [w]) q = lb_wkH wk q := by
  have hb : (w.q == q) = false := by simp [h]
  simp [lb_wkH, List.filter_append, lb_wp, hb]

theorem lb_dispStep {s s' : State Val Err} {l : Label Val Err} {q : QId}
    (hq : q = .outer ∨ q = .inner) (hd : noDead s = true) (hc : counterOk s q = true)
    (h : dispStep cfg s l = some s') : counterOk s' q = true := by
  unfold dispStep at h
  split at h
  · cases h
  rename_i pc hpc
  rw [lb_counter_iff] at hc ⊢
  split_step h
  all_goals try (exfalso; apply lb_noDead_ended hd; assumption)
  all_goals (simp only [Option.some.injEq] at h; subst h)
  all_goals rcases hq with rfl | rfl
  all_goals (
    simp [getQ, setQ, taskDone, lb_dH, dHolds, lb_wkH_append, hpc, *] at hc ⊢ <;> omega)

/-! ### the shutdown procedure -/

theorem lb_sdNormalize (sd : Sd) :
    (sdNormalize cfg sd).target = sd.target ∧ sdHolds (sdNormalize cfg sd) = sdHolds sd := by
  unfold sdNormalize
  split
  · split <;> simp [sdHolds, *]
  · simp [sdHolds, *]
  · simp

theorem lb_sdC_sdNorm (sd : Sd) (q : QId) : lb_sdC (sdNorm cfg sd) q = lb_sdC sd q := by
  have h1 := lb_sdNormalize cfg sd
  have h2 := lb_sdNormalize cfg (sdNormalize cfg sd)
  simp only [lb_sdC, sdNorm, h1.1, h1.2, h2.1, h2.2]

theorem lb_sdStep {s s1 : State Val Err} {sd : Sd} {l : Label Val Err}
    {r : Except Err (Option Sd)} {q : QId} (hq : q = .outer ∨ q = .inner) {X : Nat}
    (h : sdStep cfg s sd l = some (s1, r))
    (hns : ∀ b, l = .sdDrainSkip b → sd.target = q → nStops (getQ s q) = 0)
    (hc : (getQ s q).unfin = (getQ s q).items.length + X + lb_sdC sd q) :
    (getQ s1 q).unfin = (getQ s1 q).items.length + X + lb_rC r q
      ∧ s1.wk = s.wk ∧ s1.res = s.res ∧ s1.disp = s.disp ∧ s1.mainPc = s.mainPc := by
  unfold sdStep at h
  split_step h
  all_goals (simp only [Option.some.injEq, Prod.mk.injEq] at h; obtain ⟨h1, h2⟩ := h; subst h1; subst h2)
  all_goals (refine ⟨?_, by simp [taskDone], by simp [taskDone], by simp [taskDone], by simp [taskDone]⟩)
  all_goals (try simp only [lb_getQ_cancelOk])
  all_goals (by_cases ht : sd.target = q)
  all_goals (
    have hb : (sd.target == q) = decide (sd.target = q) := by simp [ht]
    simp only [lb_getQ_setQ hq, lb_getQ_setFut, taskDone, lb_rC, lb_sdC, sdHolds, hb, ht] at hc hns ⊢
    simp_all [nStops, isStop, Queue.put] <;> omega)

theorem lb_sd_noerr {s s1 : State Val Err} (hd : noDead s = true) {sd : Sd} {l : Label Val Err}
    {e : Err} : sdStep cfg s sd l ≠ some (s1, .error e) := by
  intro h
  unfold sdStep at h
  split_step h
  all_goals (simp only [Option.some.injEq, Prod.mk.injEq] at h; obtain ⟨h1, h2⟩ := h)
  all_goals first
    | (cases h2; done)
    | (exfalso; apply lb_noDead_ended hd; assumption)

theorem lb_sd_nohold {s s1 : State Val Err} {sd : Sd} {l : Label Val Err}
    {r : Except Err (Option Sd)} (q : QId) (h : sdStep cfg s sd l = some (s1, r))
    (hh : sdHolds sd = false) (hl : ∀ b, l ≠ .sdDrainGet b) : lb_rC r q = 0 := by
  unfold sdStep at h
  split_step h
  all_goals (simp only [Option.some.injEq, Prod.mk.injEq] at h; obtain ⟨h1, h2⟩ := h; subst h1; subst h2)
  all_goals first
    | (exfalso; exact hl _ rfl)
    | (simp_all [lb_rC, lb_sdC, sdHolds]; done)

/-! ### resolver -/

theorem lb_res_sd {s s1 s' : State Val Err} {sd : Sd} {l : Label Val Err}
    {r : Except Err (Option Sd)} {q : QId} (hq : q = .outer ∨ q = .inner)
    (hpc : s.res = some (.inSd sd)) (hj : joinOk cfg s = true) (hc : counterOk s q = true)
    (hl : ∀ b, l ≠ .sdDrainGet b ∧ l ≠ .sdDrainSkip b)
    (h : sdStep cfg s sd l = some (s1, r))
    (hs' : s'.qo = s1.qo ∧ s'.qi = s1.qi ∧ s'.wk = s1.wk ∧ s'.disp = s1.disp
      ∧ s'.mainPc = s1.mainPc ∧ rHolds s'.res = true) : counterOk s' q = true := by
  rw [lb_counter_iff] at hc ⊢
  have hnh : sdHolds sd = false := by
    simp only [joinOk, resSd, hpc, Bool.and_eq_true] at hj
    simpa using hj.2.2
  have h0 : lb_sdC sd q = 0 := by simp [lb_sdC, hnh]
  have h1 := lb_sd_nohold cfg q h hnh (fun b => (hl b).1)
  have h2 := lb_sdStep cfg hq (X := lb_wkH s.wk q + lb_rH s.res q + lb_dH s.disp q + lb_mH s.mainPc q)
    h (fun b hb => absurd hb (hl b).2) (by rw [h0]; exact hc)
  obtain ⟨h2, h3, h4, h5, h6⟩ := h2
  obtain ⟨g1, g2, g3, g4, g5, g6⟩ := hs'
  have hr0 : rHolds s.res = true := by rw [hpc]; rfl
  have hr : lb_rH s'.res q = lb_rH s.res q := by simp only [lb_rH, g6, hr0]
  have hgq : getQ s' q = getQ s1 q := by
    rcases hq with rfl | rfl <;> simp [getQ, g1, g2]
  rw [hgq, g3, g4, g5, hr, h3, h5, h6, h2, h1]
  omega

theorem lb_resStep {s s' : State Val Err} {l : Label Val Err} {q : QId}
    (hq : q = .outer ∨ q = .inner) (hd : noDead s = true) (hj : joinOk cfg s = true)
    (hc : counterOk s q = true)
    (h : resStep cfg cancelErr s l = some s') : counterOk s' q = true := by
  unfold resStep at h
  split at h
  · cases h
  rename_i pc hpc
  split_step h
  all_goals (simp only [Option.some.injEq] at h; subst h)
  all_goals first
    | (exfalso; apply lb_sd_noerr cfg hd; assumption)
    | (apply lb_res_sd cfg hq hpc hj hc
       case h => assumption
       case hl => intro b; constructor <;> (intro hx; cases hx)
       case hs' => simp [rHolds])
    | (rw [lb_counter_iff] at hc ⊢
       rcases hq with rfl | rfl <;>
        (simp [getQ, setQ, taskDone, lb_rH, rHolds, Queue.put, hpc, *] at hc ⊢ <;> omega))

/-! ### user thread -/

theorem lb_sd_skip_drain {s : State Val Err} {sd : Sd} {b : Bool}
    {x : State Val Err × Except Err (Option Sd)} (h : sdStep cfg s sd (.sdDrainSkip b) = some x) :
    sd.pc = .drain := by
  unfold sdStep at h
  split_step h
  all_goals first
    | assumption
    | (exfalso; simp_all; done)

theorem lb_stops_front {s : State Val Err} (hI : LiveInv cfg s) :
    stopsOk cfg s (frontQ cfg) = true := by
  cases hr : cfg.resolver
  · have := hI.stopsInner; simpa [frontQ, hr] using this
  · have := hI.stopsOuter hr; simpa [frontQ, hr] using this

theorem lb_main_sd {s s1 s' : State Val Err} {sd : Sd} {l : Label Val Err}
    {r : Except Err (Option Sd)} {q : QId} (hq : q = .outer ∨ q = .inner)
    (hpc : s.mainPc = .inSd sd) (hI : LiveInv cfg s) (hc : counterOk s q = true)
    (h : sdStep cfg s sd l = some (s1, r))
    (hs' : s'.qo = s1.qo ∧ s'.qi = s1.qi ∧ s'.wk = s1.wk ∧ s'.res = s1.res ∧ s'.disp = s1.disp
      ∧ lb_mH s'.mainPc q = lb_rC r q) : counterOk s' q = true := by
  rw [lb_counter_iff] at hc ⊢
  have htg : sd.target = frontQ cfg := by
    have hj := hI.join
    simp only [joinOk, mainSd, hpc, Bool.and_eq_true] at hj
    simpa using hj.1.2
  have hst := lb_stops_front cfg hI
  have hns : ∀ b, l = .sdDrainSkip b → sd.target = q → nStops (getQ s q) = 0 := by
    intro b hb ht
    subst hb
    have hdr := lb_sd_skip_drain cfg h
    rw [← htg, ht] at hst
    have hph : phaseOf cfg s q = .opened := by
      have : (q == frontQ cfg) = true := by rw [← htg, ht]; simp
      simp [phaseOf, this, hpc, sdPhase, hdr]
    simp only [stopsOk, hph] at hst
    have : nStops (getQ s q) + tookStops s q = 0 := by simpa using hst
    omega
  have h0 : lb_mH s.mainPc q = lb_sdC sd q := by simp [lb_mH, hpc]
  have h2 := lb_sdStep cfg hq (X := lb_wkH s.wk q + lb_rH s.res q + lb_dH s.disp q) h hns
    (by rw [← h0]; omega)
  obtain ⟨h2, h3, h4, h5, h6⟩ := h2
  obtain ⟨g1, g2, g3, g4, g5, g6⟩ := hs'
  have hgq : getQ s' q = getQ s1 q := by
    rcases hq with rfl | rfl <;> simp [getQ, g1, g2]
  rw [hgq, g3, g4, g5, g6, h3, h4, h5, h2]
  omega

theorem lb_mainStep {s s' : State Val Err} {l : Label Val Err} {q : QId}
    (hq : q = .outer ∨ q = .inner) (hI : LiveInv cfg s) (hc : counterOk s q = true)
    (h : mainStep cfg s l = some s') : counterOk s' q = true := by
  unfold mainStep at h
  split at h
  case h_7 => cases h
  all_goals (rename_i hpc; split_step h)
  all_goals (simp only [Option.some.injEq] at h; subst h)
  all_goals first
    | (apply lb_main_sd cfg hq hpc hI hc
       case h => assumption
       case hs' => simp [lb_mH, lb_rC, lb_sdC_sdNorm])
    | (rw [lb_counter_iff] at hc ⊢
       try simp only [lb_mH, lb_sdC_sdNorm, hpc] at hc ⊢
       cases hr : cfg.resolver <;> rcases hq with rfl | rfl <;>
        (simp [getQ, setQ, lb_mH, lb_sdC_sdNorm, lb_sdC, sdHolds, Queue.put, frontQ, hr, hpc, *] at hc ⊢ <;> omega))

/-! ### the two theorems -/

theorem liveB_init (script : List Cmd) :
    counterOk (init cfg script : State Val Err) .outer = true
      ∧ counterOk (init cfg script : State Val Err) .inner = true := by
  constructor <;>
  · rw [lb_counter_iff]
    cases hb : cfg.block <;> cases hr : cfg.resolver <;>
      simp [init, getQ, lb_wkH, lb_wp, wHolds, lb_rH, rHolds, lb_dH, dHolds, lb_mH, hb, hr,
        List.filter_replicate]

theorem lb_step {s s' : State Val Err} {l : Label Val Err} {q : QId}
    (hq : q = .outer ∨ q = .inner) (hI : LiveInv cfg s) (hc : counterOk s q = true)
    (h : step cfg eval cancelErr s l = some s') : counterOk s' q = true := by
  unfold step at h
  split at h
  all_goals first
    | exact lb_mainStep cfg hq hI hc h
    | exact lb_resStep cfg cancelErr hq hI.noDead hI.join hc h
    | exact lb_dispStep cfg hq hI.noDead hc h
    | exact lb_workerStep eval hq hc h

theorem liveB_step (hnf : NoFail eval) {s s' : State Val Err} {l : Label Val Err} (hC : Core s)
    (hI : LiveInv cfg s) (h : step cfg eval cancelErr s l = some s') :
    counterOk s' .outer = true ∧ counterOk s' .inner = true :=
  ⟨lb_step cfg eval cancelErr (Or.inl rfl) hI hI.counterOuter h,
   lb_step cfg eval cancelErr (Or.inr rfl) hI hI.counterInner h⟩

end ExecModel.Sys

