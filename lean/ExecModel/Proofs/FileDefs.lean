import ExecModel.Lts.FileExec
/-!
  Definitions for the theorems about the file-based executor (C13, C14): sequential evaluation and
  the directory invariant.
-/
namespace ExecModel.FileExec

variable {K V : Type}

/-- SPEC: sequential evaluation of call `i` (`fuel` bounds the recursion; `i + 1` suffices when the
    inputs of a call are earlier calls). -/
def seqVal (deps : Nat → List Nat) (eval : Nat → List V → V) (dflt : V) : Nat → Nat → V
  | 0, _ => dflt
  | fuel + 1, i => eval i ((deps i).map (seqVal deps eval dflt fuel))

/-- the value call `i` must have -/
def specVal (deps : Nat → List Nat) (eval : Nat → List V → V) (dflt : V) (i : Nat) : V :=
  seqVal deps eval dflt (i + 1) i

/-- inputs of a call are earlier calls -/
def WfDeps (deps : Nat → List Nat) : Prop := ∀ i, ∀ j ∈ deps i, j < i

/-- calls that share a task key have the same value (the key determines function, arguments —
    with producers identified by their keys — and resources) -/
def KeyOK (deps : Nat → List Nat) (key : Nat → K) (eval : Nat → List V → V) (dflt : V) : Prop :=
  ∀ i j, key i = key j → specVal deps eval dflt i = specVal deps eval dflt j

/-- SPEC (DESIGN E.7): every published result file `<key>.h5out` holds the value of every call
    with that key; `.h5in` / `.h5ready` files are unconstrained leftovers. -/
def DirOK [DecidableEq K] (deps : Nat → List Nat) (key : Nat → K) (eval : Nat → List V → V) (dflt : V)
    (d : Dir K V) : Prop :=
  ∀ k x, (Dir.get d k).out = some x → ∀ i, key i = k → x = specVal deps eval dflt i

end ExecModel.FileExec
