import ExecModel.Proofs.FileLiveA
/-!
  Liveness of the file-based executor, part B: the bookkeeping invariant `QInv` (queue, loop thread,
  `memory_dict`), preserved by every label for every value of the switches, and its consequence
  `dropped = []` when task keys are injective.
-/
namespace ExecModel.FileExec

variable {K V : Type} [DecidableEq K]

/-- the call held by the loop thread -/
def held : LPc K → Option Nat
  | .converted i => some i
  | .writeIn i => some i
  | .waitDeps i => some i
  | _ => none

/-- bookkeeping: calls are queued in submission order; a call is in at most one of: the queue, the
    hands of the loop thread, `memory_dict` -/
structure QInv (ncalls : Nat) (key : Nat → K) (s : State K V) : Prop where
  nsubLe : s.nsub ≤ ncalls
  futLen : s.fut.length = ncalls
  qSorted : s.queue.Pairwise (· < ·)
  qLt : ∀ i ∈ s.queue, i < s.nsub
  heldLt : ∀ i, held s.loop = some i → i < s.nsub ∧ i ∉ s.queue
  mem : ∀ k i, (k, i) ∈ s.memory → k = key i ∧ i < s.nsub ∧ i ∉ s.queue ∧ held s.loop ≠ some i

section Step
variable (v : Variant) (ncalls : Nat) (deps : Nat → List Nat) (key : Nat → K) (eval : Nat → List V → V)

theorem step_writeInput_gen {s s' : State K V} (h : step v ncalls deps key eval s .writeInput = some s') :
    ∃ i, s.loop = .writeIn i ∧
      (s' = { s with loop := .dead } ∨ ∃ f, s' = { s with dir := Dir.set s.dir (key i) f, loop := .waitDeps i }) := by
  simp only [step] at h
  split at h
  · rename_i i hl
    refine ⟨i, hl, ?_⟩
    split at h
    · cases h; exact Or.inl rfl
    · cases h; exact Or.inr ⟨_, rfl⟩
  · cases h

theorem step_launch_gen {s s' : State K V} (h : step v ncalls deps key eval s .launch = some s') :
    ∃ i, s.loop = .waitDeps i ∧
      (s' = { s with loop := .dead } ∨
       s' = { s with procs := s.procs ++ [{ key := key i, call := i }], launched := s.launched ++ [key i],
                     memory := s.memory ++ [(key i, i)], loop := .idle }) := by
  simp only [step] at h
  split at h
  · rename_i i hl
    refine ⟨i, hl, ?_⟩
    split at h
    · cases h; exact Or.inl rfl
    · split at h
      · cases h; exact Or.inr rfl
      · cases h
  · cases h

theorem step_crash {s s' : State K V} {l : Label} (hc : crashLabel l = true)
    (h : step v ncalls deps key eval s l = some s') : ∃ p pr, s' = setProc s p pr := by
  cases l <;> simp only [crashLabel] at hc <;> (try cases hc) <;> simp only [step] at h
  all_goals split_step h
  all_goals cases h
  all_goals exact ⟨_, _, rfl⟩

omit [DecidableEq K] in
theorem qinv_init (d : Dir K V) : QInv ncalls key (init d ncalls : State K V) := by
  refine ⟨Nat.zero_le _, ?_, List.Pairwise.nil, ?_, ?_, ?_⟩
  · simp [init]
  · intro i hi; simp [init] at hi
  · intro i hi; simp [init, held] at hi
  · intro k i hi; simp [init] at hi

/-- preserved by EVERY label, including the crash labels, for every value of the switches -/
theorem qinv_step {s s' : State K V} {l : Label} (hI : QInv ncalls key s)
    (h : step v ncalls deps key eval s l = some s') : QInv ncalls key s' := by
  obtain ⟨h1, h2, h3, h4, h5, h6⟩ := hI
  cases hc : crashLabel l with
  | true =>
    obtain ⟨p, pr, rfl⟩ := step_crash v ncalls deps key eval hc h
    exact ⟨h1, h2, h3, h4, h5, h6⟩
  | false =>
  cases hp : procLabel l with
  | some p =>
    obtain ⟨pr, pc', d', e', hpr, hF, rfl⟩ := step_proc v ncalls deps key eval hp h
    exact ⟨h1, h2, h3, h4, h5, h6⟩
  | none =>
  cases l <;> (try (simp only [procLabel] at hp; cases hp; done)) <;> (try (simp only [crashLabel] at hc; cases hc; done))
  case submit =>
    obtain ⟨hlt, rfl⟩ := step_submit v ncalls deps key eval h
    refine ⟨?_, ?_, ?_, ?_, ?_, ?_⟩
    · show s.nsub + 1 ≤ ncalls; omega
    · show (s.fut.set _ _).length = ncalls; rw [List.length_set]; exact h2
    · show (s.queue ++ [s.nsub]).Pairwise (· < ·)
      rw [List.pairwise_append]
      refine ⟨h3, List.pairwise_singleton _ _, ?_⟩
      intro a ha b hb
      rw [List.mem_singleton] at hb; subst hb; exact h4 a ha
    · intro i hi
      have hi' : i ∈ s.queue ++ [s.nsub] := hi
      show i < s.nsub + 1
      rw [List.mem_append, List.mem_singleton] at hi'
      rcases hi' with hi' | hi'
      · have := h4 i hi'; omega
      · omega
    · intro i hi
      have := h5 i hi
      show i < s.nsub + 1 ∧ i ∉ s.queue ++ [s.nsub]
      rw [List.mem_append, List.mem_singleton]
      refine ⟨by omega, ?_⟩
      intro hc'
      rcases hc' with hc' | hc'
      · exact this.2 hc'
      · omega
    · intro k i hi
      have := h6 k i hi
      show k = key i ∧ i < s.nsub + 1 ∧ i ∉ s.queue ++ [s.nsub] ∧ held s.loop ≠ some i
      rw [List.mem_append, List.mem_singleton]
      refine ⟨this.1, by omega, ?_, this.2.2.2⟩
      intro hc'
      rcases hc' with hc' | hc'
      · exact this.2.2.1 hc'
      · omega
  case take =>
    obtain ⟨i, rest, hl, hq, _, rfl⟩ := step_take v ncalls deps key eval h
    rw [hq] at h3 h4 h5 h6
    rw [hl] at h5 h6
    have hp3 := List.pairwise_cons.mp h3
    have hi_rest : i ∉ rest := fun hm => Nat.lt_irrefl i (hp3.1 i hm)
    refine ⟨h1, h2, hp3.2, fun a ha => h4 a (List.mem_cons_of_mem _ ha), ?_, ?_⟩
    · intro a ha
      simp only [held, Option.some.injEq] at ha
      subst ha
      exact ⟨h4 i List.mem_cons_self, hi_rest⟩
    · intro k a ha
      have := h6 k a ha
      refine ⟨this.1, this.2.1, fun hm => this.2.2.1 (List.mem_cons_of_mem _ hm), ?_⟩
      simp only [held, ne_eq, Option.some.injEq]
      intro hia
      subst hia
      exact this.2.2.1 List.mem_cons_self
  case lookup =>
    obtain ⟨i, hl, hcase⟩ := step_lookup v ncalls deps key eval h
    rw [hl] at h5 h6
    simp only [held] at h5 h6
    rcases hcase with ⟨_, rfl⟩ | ⟨_, _, rfl⟩ | ⟨_, _, rfl⟩
    · refine ⟨h1, h2, h3, h4, ?_, ?_⟩
      · intro a ha; simp [held] at ha
      · intro k a ha
        have := h6 k a ha
        exact ⟨this.1, this.2.1, this.2.2.1, by simp [held]⟩
    · refine ⟨h1, h2, h3, h4, ?_, ?_⟩
      · intro a ha; simp [held] at ha
      · intro k a ha
        have ha' : (k, a) ∈ s.memory ++ [(key i, i)] := ha
        rw [List.mem_append, List.mem_singleton] at ha'
        rcases ha' with ha' | ha'
        · have := h6 k a ha'
          exact ⟨this.1, this.2.1, this.2.2.1, by simp [held]⟩
        · cases ha'
          have := h5 i rfl
          exact ⟨rfl, this.1, this.2, by simp [held]⟩
    · refine ⟨h1, h2, h3, h4, ?_, ?_⟩
      · intro a ha; exact h5 a (by simpa [held] using ha)
      · intro k a ha
        have := h6 k a ha
        exact ⟨this.1, this.2.1, this.2.2.1, by simpa [held] using this.2.2.2⟩
  case writeInput =>
    obtain ⟨i, hl, hcase⟩ := step_writeInput_gen v ncalls deps key eval h
    rw [hl] at h5 h6
    simp only [held] at h5 h6
    rcases hcase with rfl | ⟨f, rfl⟩
    · refine ⟨h1, h2, h3, h4, ?_, ?_⟩
      · intro a ha; simp [held] at ha
      · intro k a ha
        have := h6 k a ha
        exact ⟨this.1, this.2.1, this.2.2.1, by simp [held]⟩
    · refine ⟨h1, h2, h3, h4, ?_, ?_⟩
      · intro a ha; exact h5 a (by simpa [held] using ha)
      · intro k a ha
        have := h6 k a ha
        exact ⟨this.1, this.2.1, this.2.2.1, by simpa [held] using this.2.2.2⟩
  case launch =>
    obtain ⟨i, hl, hcase⟩ := step_launch_gen v ncalls deps key eval h
    rw [hl] at h5 h6
    simp only [held] at h5 h6
    rcases hcase with rfl | rfl
    · refine ⟨h1, h2, h3, h4, ?_, ?_⟩
      · intro a ha; simp [held] at ha
      · intro k a ha
        have := h6 k a ha
        exact ⟨this.1, this.2.1, this.2.2.1, by simp [held]⟩
    · refine ⟨h1, h2, h3, h4, ?_, ?_⟩
      · intro a ha; simp [held] at ha
      · intro k a ha
        have ha' : (k, a) ∈ s.memory ++ [(key i, i)] := ha
        rw [List.mem_append, List.mem_singleton] at ha'
        rcases ha' with ha' | ha'
        · have := h6 k a ha'
          exact ⟨this.1, this.2.1, this.2.2.1, by simp [held]⟩
        · cases ha'
          have := h5 i rfl
          exact ⟨rfl, this.1, this.2, by simp [held]⟩
  case collect n =>
    obtain ⟨kk, i, x, hl, hm, hx, rfl⟩ := step_collect v ncalls deps key eval h
    refine ⟨h1, ?_, h3, h4, h5, ?_⟩
    · show (s.fut.set _ _).length = ncalls; rw [List.length_set]; exact h2
    · intro k a ha
      exact h6 k a (List.mem_of_mem_eraseIdx ha)

theorem qinv_run {s s' : State K V} (ls : List Label) (hI : QInv ncalls key s)
    (h : run v ncalls deps key eval s ls = some s') : QInv ncalls key s' := by
  induction ls generalizing s with
  | nil => simp only [run] at h; cases h; exact hI
  | cons l ls ih =>
    simp only [run] at h
    cases hs : step v ncalls deps key eval s l with
    | none => rw [hs] at h; cases h
    | some s₁ =>
      rw [hs] at h
      exact ih (qinv_step v ncalls deps key eval hI hs) h

/-- with injective task keys no future is dropped: a key found in `memory_dict` would belong to the
    call being looked up itself -/
theorem nodrop_step (hinj : ∀ i j, i < ncalls → j < ncalls → key i = key j → i = j)
    {s s' : State K V} {l : Label} (hI : QInv ncalls key s) (hd : s.dropped = [])
    (h : step v ncalls deps key eval s l = some s') : s'.dropped = [] := by
  cases hc : crashLabel l with
  | true =>
    obtain ⟨p, pr, rfl⟩ := step_crash v ncalls deps key eval hc h
    exact hd
  | false =>
  cases hp : procLabel l with
  | some p =>
    obtain ⟨pr, pc', d', e', hpr, hF, rfl⟩ := step_proc v ncalls deps key eval hp h
    exact hd
  | none =>
  cases l <;> (try (simp only [procLabel] at hp; cases hp; done)) <;> (try (simp only [crashLabel] at hc; cases hc; done))
  case submit =>
    obtain ⟨hlt, rfl⟩ := step_submit v ncalls deps key eval h
    exact hd
  case take =>
    obtain ⟨i, rest, hl, hq, _, rfl⟩ := step_take v ncalls deps key eval h
    exact hd
  case lookup =>
    obtain ⟨i, hl, hcase⟩ := step_lookup v ncalls deps key eval h
    rcases hcase with ⟨hm, rfl⟩ | ⟨_, _, rfl⟩ | ⟨_, _, rfl⟩
    · exfalso
      obtain ⟨a, ha⟩ := mem_of_memGet_isSome hm
      have hma := hI.mem _ a ha
      have hhi := hI.heldLt i (by rw [hl]; rfl)
      have hle := hI.nsubLe
      have : i = a := hinj i a (by omega) (by omega) hma.1
      subst this
      exact hma.2.2.2 (by rw [hl]; rfl)
    · exact hd
    · exact hd
  case writeInput =>
    obtain ⟨i, hl, hcase⟩ := step_writeInput_gen v ncalls deps key eval h
    rcases hcase with rfl | ⟨f, rfl⟩
    · exact hd
    · exact hd
  case launch =>
    obtain ⟨i, hl, hcase⟩ := step_launch_gen v ncalls deps key eval h
    rcases hcase with rfl | rfl
    · exact hd
    · exact hd
  case collect n =>
    obtain ⟨kk, i, x, hl, hm, hx, rfl⟩ := step_collect v ncalls deps key eval h
    exact hd

/-- injective task keys: `dropped = []` in every reachable state (any labels, any switches) -/
theorem nodrop_run (hinj : ∀ i j, i < ncalls → j < ncalls → key i = key j → i = j)
    {s s' : State K V} (ls : List Label) (hI : QInv ncalls key s) (hd : s.dropped = [])
    (h : run v ncalls deps key eval s ls = some s') : s'.dropped = [] := by
  induction ls generalizing s with
  | nil => simp only [run] at h; cases h; exact hd
  | cons l ls ih =>
    simp only [run] at h
    cases hs : step v ncalls deps key eval s l with
    | none => rw [hs] at h; cases h
    | some s₁ =>
      rw [hs] at h
      exact ih (qinv_step v ncalls deps key eval hI hs) (nodrop_step v ncalls deps key eval hinj hI hd hs) h

end Step
end ExecModel.FileExec
