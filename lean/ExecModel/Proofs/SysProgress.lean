import ExecModel.Proofs.SysLiveBasic
import ExecModel.Proofs.SysCancel
import ExecModel.Proofs.SysFits
set_option linter.unusedSimpArgs false
set_option linter.unusedVariables false
namespace ExecModel.Sys

variable {Val Err : Type}
variable (cfg : Cfg) (eval : Nat → List Val → Except Err Val) (cancelErr : Err)

theorem pg_mem_of_getElem? {α : Type} {l : List α} {k : Nat} {a : α} (h : l[k]? = some a) : a ∈ l :=
  List.mem_of_getElem? h

/-- what a worker looks like when none of its labels is enabled -/
theorem pg_worker_stuck (hnf : NoFail eval) {s : State Val Err} (hI : LiveInv cfg s)
    (hst : Stuck cfg eval cancelErr s) {k : Nat} {w : Worker Val Err} (hk : s.wk[k]? = some w) :
    (w.pc = .idle ∧ (getQ s w.q).items = []) ∨ (w.pc = .stopJoin ∧ (getQ s w.q).unfin ≠ 0) ∨ w.pc = .exited := by
  have hmem := pg_mem_of_getElem? hk
  have hnd : wDead w.pc = false := by
    have := hI.noDead
    simp only [noDead, Bool.and_eq_true, List.all_eq_true] at this
    simpa using this.1.1 w hmem
  have hts : ∀ i vs, w.pc = .gotTask i vs → futPre s i = true := by
    intro i vs hpc
    have := hI.tokenState
    simp only [tokenStateOk, Bool.and_eq_true, List.all_eq_true] at this
    have := this.1.2 w hmem
    simpa [hpc] using this
  cases hpc : w.pc with
  | boot => have := hst (.wBoot k); simp [step, workerStep, hk, hpc] at this
  | idle =>
    left; refine ⟨rfl, ?_⟩
    have := hst (.wGet k); simp [step, workerStep, hk, hpc] at this
    cases hq : (getQ s w.q).items with
    | nil => rfl
    | cons it rest => cases it <;> simp [hq] at this
  | gotTask i vs =>
    have hp := hts i vs hpc
    have := hst (.wSrn k); simp [step, workerStep, hk, hpc] at this
    unfold futPre at hp
    split at hp <;> simp_all
  | toSend i vs => have := hst (.wSend k); simp [step, workerStep, hk, hpc] at this
  | sent i vs =>
    obtain ⟨v, hv⟩ := hnf i vs
    have := hst (.wFinish k); simp [step, workerStep, hk, hpc, hv] at this
  | toAck => have := hst (.wAck k); simp [step, workerStep, hk, hpc] at this
  | failB i e => simp [hpc, wDead] at hnd
  | failC i e => simp [hpc, wDead] at hnd
  | dead e => simp [hpc, wDead] at hnd
  | gotStop wt => have := hst (.wProcStop k); simp [step, workerStep, hk, hpc] at this
  | stopAck => have := hst (.wStopAck k); simp [step, workerStep, hk, hpc] at this
  | stopJoin =>
    right; left; refine ⟨rfl, ?_⟩
    have := hst (.wJoinExit k); simpa [step, workerStep, hk, hpc] using this
  | exited => right; right; rfl

/-! ### extra invariants (not provided by `LiveInv`), all executable -/

def pg_sdOk (cfg : Cfg) (byRes : Bool) (sd : Sd) : Bool :=
  match sd.pc with
  | .putStops 0 => false
  | .joinThreads [] => false
  | .joinThreads ts => ts.all (fun t => (threadsOf cfg sd.target).contains t)
  | .drain => !byRes
  | _ => true

/-- stored program counters are normalised: no `putStops 0`, `joinThreads []`, `stopping []`; the
    resolver never drains; joined threads belong to the executor being shut down -/
def pg_normOk (cfg : Cfg) (s : State Val Err) : Bool :=
  (match mainSd s with
   | some sd => pg_sdOk cfg false sd
   | none => true)
  && (match resSd s with
      | some sd => pg_sdOk cfg true sd
      | none => true)
  && (match s.disp with
      | some (.stopping []) => false
      | _ => true)

/-- the wait list is empty once the resolver has begun to shut the inner executor down (and
    without a resolver nothing is parked and the outer queue is unused) -/
def pg_waitOk (s : State Val Err) : Bool :=
  match s.res with
  | none => s.waitLst.isEmpty && s.qo.items.isEmpty
  | some (.inSd _) | some .stopAck | some .stopJoin | some .exited => s.waitLst.isEmpty
  | _ => true

/-- converse of `handleOk` -/
def pg_handleOk (s : State Val Err) : Bool :=
  match s.res with
  | some .stopAck | some .stopJoin | some .exited => !s.innerOpen
  | _ => true

def pg_reqOk (cfg : Cfg) (s : State Val Err) : Bool :=
  match s.disp with
  | some (.waitSlots j _ req) => req == slotsOf cfg (cfg.calls.getD j {})
  | _ => true

/-- every entry of the active table stands for a launched call -/
def pg_activeOk (s : State Val Err) : Bool := s.active.all (fun e => (s.wkOf.getD e.1 none).isSome)

/-- per-call worker of call `a`: the call is still in its queue, or held by the worker, or done -/
def pg_launchOk (s : State Val Err) : Bool :=
  s.wk.all (fun w => match w.q with
    | .priv a => (futOf s a).done || !(taskIds (getQ s (.priv a))).isEmpty || wpcCnt a w.pc == 1
    | _ => true)

def pg_procOk (s : State Val Err) : Bool :=
  s.wk.all (fun w => match w.pc with
    | .exited => !w.procAlive
    | _ => true)

/-- constraint on the run (NOT an invariant of `step`): an accepted call depends on accepted calls only -/
def pg_depOk (cfg : Cfg) (s : State Val Err) : Bool :=
  (List.range s.nsub).all (fun i => match futOf s i with
    | .absent => true
    | _ => (depsOf cfg i).all (fun j => match futOf s j with
        | .absent => false
        | _ => true))

structure pg_Aux (cfg : Cfg) (s : State Val Err) : Prop where
  norm : pg_normOk cfg s = true
  wait : pg_waitOk s = true
  handle2 : pg_handleOk s = true
  req : pg_reqOk cfg s = true
  active : pg_activeOk s = true
  launch : pg_launchOk s = true
  proc : pg_procOk s = true

def pg_auxList (cfg : Cfg) (s : State Val Err) : List (String × Bool) :=
  [("norm", pg_normOk cfg s), ("wait", pg_waitOk s), ("handle2", pg_handleOk s),
   ("req", pg_reqOk cfg s), ("active", pg_activeOk s), ("launch", pg_launchOk s),
   ("proc", pg_procOk s)]

def pg_aux (cfg : Cfg) (s : State Val Err) : Bool := (pg_auxList cfg s).all (·.2)

theorem pg_aux_iff (cfg : Cfg) (s : State Val Err) : pg_aux cfg s = true ↔ pg_Aux cfg s := by
  constructor
  · intro h
    simp only [pg_aux, pg_auxList, List.all_cons, List.all_nil, Bool.and_true, Bool.and_eq_true] at h
    obtain ⟨h1, h2, h3, h4, h5, h6, h7⟩ := h
    exact ⟨h1, h2, h3, h4, h5, h6, h7⟩
  · intro h
    simp only [pg_aux, pg_auxList, List.all_cons, List.all_nil, Bool.and_true, Bool.and_eq_true]
    exact ⟨h.norm, h.wait, h.handle2, h.req, h.active, h.launch, h.proc⟩

/-! ### list lemma -/

theorem pg_firstFailure_of_allDone (s : State Val Err) (js : List Nat) (hd : allDone s js = true)
    (hn : inputsOf s js = none) : ∃ e, firstFailure cancelErr s js = some e := by
  induction js with
  | nil => simp [inputsOf] at hn
  | cons j js ih =>
    simp only [allDone, List.all_cons, Bool.and_eq_true] at hd
    obtain ⟨hj, hrest⟩ := hd
    unfold inputsOf at hn
    unfold firstFailure
    cases hf : futOf s j with
    | absent => simp [hf, Fut.done] at hj
    | pending => simp [hf, Fut.done] at hj
    | running => simp [hf, Fut.done] at hj
    | cancelled => exact ⟨_, rfl⟩
    | cancelledNotified => exact ⟨_, rfl⟩
    | failed e => exact ⟨_, rfl⟩
    | finished v =>
      simp only [hf] at hn ⊢
      cases hin : inputsOf s js with
      | some vs => simp [hin] at hn
      | none => exact ih hrest hin

/-! ### local enabledness: resolver -/

/-- the shutdown procedure is blocked at a join -/
def pg_SdBlocked (s : State Val Err) (sd : Sd) : Prop :=
  (∃ t ts, sd.pc = .joinThreads (t :: ts) ∧ threadEnded s t ≠ some none) ∨
  (sd.pc = .joinQueue ∧ (getQ s sd.target).unfin ≠ 0)

theorem pg_futPre_cases {s : State Val Err} {i : Nat} (h : futPre s i = true) :
    futOf s i = .pending ∨ futOf s i = .cancelled := by
  unfold futPre at h
  split at h
  · left; assumption
  · right; assumption
  · cases h

theorem pg_res_noscan {s : State Val Err} (hI : LiveInv cfg s)
    (hst : Stuck cfg eval cancelErr s) {pc : RPc Val Err} (hr : s.res = some pc)
    (hpc : pc = .poll ∨ ∃ w, pc = .stopping w) {k i : Nat} (hk : s.waitLst[k]? = some i) :
    allDone s (depsOf cfg i) = false := by
  cases hall : allDone s (depsOf cfg i) with
  | false => rfl
  | true =>
    exfalso
    have hp : futPre s i = true := by
      have := hI.tokenState
      simp only [tokenStateOk, Bool.and_eq_true, List.all_eq_true] at this
      exact this.1.1.1.1.2 i (pg_mem_of_getElem? hk)
    cases hin : inputsOf s (depsOf cfg i) with
    | some vs =>
      have := hst (.rScanFwd k)
      rcases hpc with rfl | ⟨w, rfl⟩ <;> simp [step, resStep, hr, hk, hall, hin] at this
    | none =>
      obtain ⟨e, he⟩ := pg_firstFailure_of_allDone cancelErr s _ hall hin
      have := hst (.rScanFail k)
      rcases pg_futPre_cases hp with hf | hf <;>
        rcases hpc with rfl | ⟨w, rfl⟩ <;> simp [step, resStep, hr, hk, hall, hin, he, hf] at this

theorem pg_res_stuck {s : State Val Err} (hI : LiveInv cfg s) (hA : pg_Aux cfg s) (hC : Core s)
    (hst : Stuck cfg eval cancelErr s) {pc : RPc Val Err} (hr : s.res = some pc) :
    (pc = .poll ∧ s.qo.items = []) ∨ (∃ w, pc = .stopping w ∧ s.waitLst ≠ []) ∨
    (∃ sd, pc = .inSd sd ∧ pg_SdBlocked s sd) ∨ (pc = .stopJoin ∧ s.qo.unfin ≠ 0) ∨ pc = .exited := by
  cases pc with
  | poll =>
    left; refine ⟨rfl, ?_⟩
    have := hst .rGet; simp [step, resStep, hr] at this
    cases hq : s.qo.items with
    | nil => rfl
    | cons it rest => cases it <;> simp [hq] at this
  | gotTask i =>
    exfalso
    cases hall : allDone s (depsOf cfg i) with
    | true => have := hst .rDecideReady; simp [step, resStep, hr, hall] at this
    | false => have := hst .rDecidePark; simp [step, resStep, hr, hall] at this
  | ready i =>
    exfalso
    have hall : allDone s (depsOf cfg i) = true := by
      have := hI.ready; simpa [readyOk, hr] using this
    have hp : futPre s i = true := by
      have := hI.tokenState
      simp only [tokenStateOk, Bool.and_eq_true, hr] at this
      exact this.1.1.1.2
    cases hin : inputsOf s (depsOf cfg i) with
    | some vs => have := hst .rForward; simp [step, resStep, hr, hin] at this
    | none =>
      obtain ⟨e, he⟩ := pg_firstFailure_of_allDone cancelErr s _ hall hin
      have := hst .rFailDep
      rcases pg_futPre_cases hp with hf | hf <;> simp [step, resStep, hr, hin, he, hf] at this
  | needAck => exfalso; have := hst .rAck; simp [step, resStep, hr] at this
  | failing i e ret =>
    exfalso
    have hf := hC.runs.2 i e ret hr
    have := hst .rFailSet; simp [step, resStep, hr, hf] at this
  | stopping w =>
    right; left; refine ⟨w, rfl, ?_⟩
    intro hw
    have := hst .rBeginSd; simp [step, resStep, hr, hw] at this
    split at this <;> simp at this
  | inSd sd =>
    right; right; left; refine ⟨sd, rfl, ?_⟩
    have hn : pg_sdOk cfg true sd = true := by
      have := hA.norm
      simp only [pg_normOk, resSd, hr, Bool.and_eq_true] at this
      exact this.1.2
    have hj : sdHolds sd = false := by
      have := hI.join
      simp only [joinOk, resSd, hr, Bool.and_eq_true] at this
      simpa using this.2.2
    cases hpc : sd.pc with
    | drain => simp [pg_sdOk, hpc] at hn
    | drainGot i => simp [sdHolds, hpc] at hj
    | drainCancelled => simp [sdHolds, hpc] at hj
    | putStops n =>
      cases n with
      | zero => simp [pg_sdOk, hpc] at hn
      | succ n => have := hst (.sdPutStop true); simp [step, resStep, hr, sdStep, hpc] at this
    | joinThreads ts =>
      cases ts with
      | nil => simp [pg_sdOk, hpc] at hn
      | cons t ts =>
        left; refine ⟨t, ts, hpc, ?_⟩
        intro ht
        have := hst (.sdJoinThread true); simp [step, resStep, hr, sdStep, hpc, ht] at this
    | joinQueue =>
      right; refine ⟨hpc, ?_⟩
      intro hu
      have := hst (.sdJoinQueue true); simp [step, resStep, hr, sdStep, hpc, hu] at this
    | finish => have := hst (.sdFinish true); simp [step, resStep, hr, sdStep, hpc] at this
  | stopAck => exfalso; have := hst .rStopAck; simp [step, resStep, hr] at this
  | stopJoin =>
    right; right; right; left; refine ⟨rfl, ?_⟩
    intro hu
    have := hst .rJoinExit; simp [step, resStep, hr, hu] at this
  | exited => right; right; right; right; rfl
  | dead e =>
    exfalso
    have := hI.noDead
    simp [noDead, hr] at this

/-! ### local enabledness: dispatcher -/

theorem pg_disp_stuck {s : State Val Err} (hI : LiveInv cfg s) (hA : pg_Aux cfg s)
    (hst : Stuck cfg eval cancelErr s) {pc : DPc Val Err} (hd : s.disp = some pc) :
    (pc = .idle ∧ s.qi.items = []) ∨
    (∃ i vs req, pc = .waitSlots i vs req ∧ fits cfg s.active req = false ∧
      ∀ (k j sl : Nat), s.active[k]? = some (j, sl) → (futOf s j).done = false) ∨
    (∃ t ts, pc = .stopping (t :: ts) ∧ threadEnded s t ≠ some none) ∨
    (pc = .stopJoin ∧ s.qi.unfin ≠ 0) ∨ pc = .exited := by
  cases pc with
  | idle =>
    left; refine ⟨rfl, ?_⟩
    have := hst .dGet; simp [step, dispStep, hd] at this
    cases hq : s.qi.items with
    | nil => rfl
    | cons it rest => cases it <;> simp [hq] at this
  | waitSlots i vs req =>
    right; left; refine ⟨i, vs, req, rfl, ?_, ?_⟩
    · have := hst .dLaunch; simpa [step, dispStep, hd] using this
    · intro k j sl hk
      have := hst (.dPrune k); simpa [step, dispStep, hd, hk] using this
  | needAck => exfalso; have := hst .dAck; simp [step, dispStep, hd] at this
  | stopping ts =>
    cases ts with
    | nil => exfalso; have := hA.norm; simp [pg_normOk, hd] at this
    | cons t ts =>
      right; right; left; refine ⟨t, ts, rfl, ?_⟩
      intro ht
      have := hst .dJoinThread; simp [step, dispStep, hd, ht] at this
  | stopAck => exfalso; have := hst .dStopAck; simp [step, dispStep, hd] at this
  | stopJoin =>
    right; right; right; left; refine ⟨rfl, ?_⟩
    intro hu
    have := hst .dJoinExit; simp [step, dispStep, hd, hu] at this
  | exited => right; right; right; right; rfl
  | dead e => exfalso; have := hI.noDead; simp [noDead, hd] at this

/-! ### local enabledness: user thread -/

def isSubmit : Cmd → Bool
  | .submit => true
  | _ => false

theorem pg_main_stuck {s : State Val Err} (hI : LiveInv cfg s) (hA : pg_Aux cfg s)
    (hsub : s.nsub + (s.script.filter isSubmit).length ≤ cfg.calls.length)
    (hst : Stuck cfg eval cancelErr s) :
    (s.mainPc = .idle ∧ (s.script = [] ∨ (∃ j rest, s.script = .cancel j :: rest ∧ futOf s j = .absent) ∨
      (∃ j rest, s.script = .await j :: rest ∧ (futOf s j).done = false))) ∨
    (∃ sd, s.mainPc = .inSd sd ∧ pg_SdBlocked s sd) := by
  cases hm : s.mainPc with
  | idle =>
    left; refine ⟨rfl, ?_⟩
    cases hs : s.script with
    | nil => left; rfl
    | cons c rest =>
      cases c with
      | submit =>
        exfalso
        have hlt : s.nsub < cfg.calls.length := by
          rw [hs] at hsub; simp only [List.filter_cons, isSubmit, if_true, List.length_cons] at hsub; omega
        have h1 := hst .mSubmit
        have h2 := hst .mSubmitRaise
        simp only [step, mainStep, hm, hs] at h1 h2
        split at h1
        · cases h1
        · split at h2
          · cases h2
          · rename_i c1 c2
            grind
      | cancel j =>
        right; left; refine ⟨j, rest, rfl, ?_⟩
        have := hst (.mCancel j)
        simp [step, mainStep, hm, hs] at this
        cases hf : futOf s j <;> simp [hf] at this ⊢
      | await j =>
        right; right; refine ⟨j, rest, rfl, ?_⟩
        have := hst (.mAwait j)
        simpa [step, mainStep, hm, hs] using this
      | shutdown w c =>
        exfalso
        have := hst .mSdBegin
        simp [step, mainStep, hm, hs] at this
        split at this <;> simp at this
  | inSd sd =>
    right; refine ⟨sd, rfl, ?_⟩
    have hn : pg_sdOk cfg false sd = true := by
      have := hA.norm
      simp only [pg_normOk, mainSd, hm, Bool.and_eq_true] at this
      exact this.1.1
    cases hpc : sd.pc with
    | drain =>
      exfalso
      cases hq : (getQ s sd.target).items with
      | nil => have := hst (.sdDrainEmpty false); simp [step, mainStep, hm, sdStep, hpc, hq] at this
      | cons it rest =>
        cases it with
        | task i vs => have := hst (.sdDrainGet false); simp [step, mainStep, hm, sdStep, hpc, hq] at this
        | stop w => have := hst (.sdDrainSkip false); simp [step, mainStep, hm, sdStep, hpc, hq] at this
    | drainGot i => exfalso; have := hst (.sdDrainCancel false); simp [step, mainStep, hm, sdStep, hpc] at this
    | drainCancelled => exfalso; have := hst (.sdDrainDone false); simp [step, mainStep, hm, sdStep, hpc] at this
    | putStops n =>
      exfalso
      cases n with
      | zero => simp [pg_sdOk, hpc] at hn
      | succ n => have := hst (.sdPutStop false); simp [step, mainStep, hm, sdStep, hpc] at this
    | joinThreads ts =>
      cases ts with
      | nil => simp [pg_sdOk, hpc] at hn
      | cons t ts =>
        left; refine ⟨t, ts, hpc, ?_⟩
        intro ht
        have := hst (.sdJoinThread false); simp [step, mainStep, hm, sdStep, hpc, ht] at this
    | joinQueue =>
      right; refine ⟨hpc, ?_⟩
      intro hu
      have := hst (.sdJoinQueue false); simp [step, mainStep, hm, sdStep, hpc, hu] at this
    | finish => exfalso; have := hst (.sdFinish false); simp [step, mainStep, hm, sdStep, hpc] at this

/-! ### counting lemmas -/

theorem pg_filter_pos {α : Type} {l : List α} {p : α → Bool} {a : α} (ha : a ∈ l) (hp : p a = true) :
    1 ≤ (l.filter p).length := by
  have : a ∈ l.filter p := List.mem_filter.mpr ⟨ha, hp⟩
  exact List.length_pos_of_mem this

theorem pg_filter_zero {α : Type} {l : List α} {p : α → Bool} (h : ∀ a ∈ l, p a = false) :
    (l.filter p).length = 0 := by
  have : l.filter p = [] := by
    rw [List.filter_eq_nil_iff]
    intro a ha; simp [h a ha]
  simp [this]

theorem pg_filter_full {α : Type} {l : List α} {p : α → Bool} (h : l.length ≤ (l.filter p).length) :
    ∀ a ∈ l, p a = true := by
  induction l with
  | nil => intro a ha; cases ha
  | cons x l ih =>
    intro a ha
    have hle := List.length_filter_le p l
    cases hx : p x with
    | false =>
      simp [List.filter_cons, hx] at h; omega
    | true =>
      simp [List.filter_cons, hx] at h
      rcases List.mem_cons.mp ha with rfl | ha
      · exact hx
      · exact ih h a ha

theorem pg_sum_map_pos {α : Type} (f : α → Nat) (l : List α) (h : 1 ≤ (l.map f).sum) :
    ∃ (k : Nat) (a : α), l[k]? = some a ∧ 1 ≤ f a := by
  induction l with
  | nil => simp at h
  | cons x l ih =>
    simp only [List.map_cons, List.sum_cons] at h
    by_cases hx : 1 ≤ f x
    · exact ⟨0, x, rfl, hx⟩
    · obtain ⟨k, a, hk, ha⟩ := ih (by omega)
      exact ⟨k + 1, a, by simpa using hk, ha⟩

theorem pg_items_length_aux (l : List (Item Val)) :
    l.length = (l.filter isStop).length + (l.filterMap (fun it => match it with
      | .task i _ => some i
      | .stop _ => none)).length := by
  induction l with
  | nil => rfl
  | cons it r ih => cases it <;> simp [List.filter_cons, isStop, List.filterMap_cons, ih] <;> omega

theorem pg_items_length (q : Queue Val) : q.items.length = nStops q + (taskIds q).length :=
  pg_items_length_aux q.items

theorem pg_mem_taskIds_aux {i : Nat} (l : List (Item Val)) (h : 1 ≤ (l.map (itemCnt i)).sum) :
    i ∈ l.filterMap (fun it => match it with
      | .task i _ => some i
      | .stop _ => none) := by
  induction l with
  | nil => simp at h
  | cons it r ih =>
    simp only [List.map_cons, List.sum_cons] at h
    cases it with
    | stop w => simp only [itemCnt] at h; simpa [List.filterMap_cons] using ih (by omega)
    | task j vs =>
      simp only [itemCnt] at h
      by_cases hj : j = i
      · subst hj; simp [List.filterMap_cons]
      · simp only [hj, if_false] at h
        simp only [List.filterMap_cons, List.mem_cons]
        right; exact ih (by omega)

theorem pg_mem_taskIds_of_qCnt {i : Nat} {q : Queue Val} (h : 1 ≤ qCnt i q) : i ∈ taskIds q :=
  pg_mem_taskIds_aux q.items h

theorem pg_items_ne_nil_of_taskIds {i : Nat} {q : Queue Val} (h : i ∈ taskIds q) : q.items ≠ [] := by
  intro h0; simp [taskIds, h0] at h

theorem pg_tookStops_wk {s : State Val Err} {k : Nat} {w : Worker Val Err} {q : QId}
    (hk : s.wk[k]? = some w) (hq : w.q = q) (ht : wTookStop w.pc = true) : 1 ≤ tookStops s q := by
  have := pg_filter_pos (p := fun w => w.q == q && wTookStop w.pc) (pg_mem_of_getElem? hk) (by simp [hq, ht])
  unfold tookStops; omega

theorem pg_tookStops_res {s : State Val Err} (ht : rTookStop s.res = true) : 1 ≤ tookStops s .outer := by
  unfold tookStops; simp [ht]

theorem pg_tookStops_disp {s : State Val Err} (ht : dTookStop s.disp = true) : 1 ≤ tookStops s .inner := by
  unfold tookStops; simp [ht]

theorem pg_order_nil {s : State Val Err} {q : QId} (ho : orderOk s q = true) (ht : 1 ≤ tookStops s q) :
    taskIds (getQ s q) = [] := by
  simp only [orderOk, Bool.and_eq_true, Bool.or_eq_true, beq_iff_eq, List.isEmpty_iff] at ho
  rcases ho.2 with h | h
  · omega
  · exact h

/-- a stuck worker holds no call, and its queue is empty unless it has taken its stop -/
theorem pg_worker_stuck' (hnf : NoFail eval) {s : State Val Err} (hI : LiveInv cfg s)
    (hst : Stuck cfg eval cancelErr s) {k : Nat} {w : Worker Val Err} (hk : s.wk[k]? = some w) :
    ((getQ s w.q).items = [] ∨ 1 ≤ tookStops s w.q) ∧ ∀ i, wpcCnt i w.pc = 0 := by
  refine ⟨?_, ?_⟩
  · rcases pg_worker_stuck cfg eval cancelErr hnf hI hst hk with ⟨h1, h2⟩ | ⟨h1, h2⟩ | h1
    · left; exact h2
    · right; exact pg_tookStops_wk hk rfl (by simp [h1, wTookStop])
    · right; exact pg_tookStops_wk hk rfl (by simp [h1, wTookStop])
  · intro i
    rcases pg_worker_stuck cfg eval cancelErr hnf hI hst hk with ⟨h1, h2⟩ | ⟨h1, h2⟩ | h1 <;> simp [h1, wpcCnt]

/-! ### shape of the thread tables -/

theorem pg_lt_of_getElem? {α : Type} {l : List α} {k : Nat} {a : α} (h : l[k]? = some a) : k < l.length := by
  rcases Nat.lt_or_ge k l.length with h1 | h1
  · exact h1
  · simp [List.getElem?_eq_none h1] at h

theorem pg_len {s : State Val Err} (hI : LiveInv cfg s) :
    s.fut.length = cfg.calls.length ∧ s.qp.length = cfg.calls.length ∧ s.wkOf.length = cfg.calls.length := by
  have := hI.len
  simp only [lenOk, Bool.and_eq_true, beq_iff_eq] at this
  exact ⟨this.1.1.1, this.1.1.2, this.1.2⟩

theorem pg_shape_priv {s : State Val Err} (hI : LiveInv cfg s) {k a : Nat} {w : Worker Val Err}
    (hk : s.wk[k]? = some w) (hq : w.q = .priv a) : s.wkOf.getD a none = some k := by
  have hs := hI.shape
  unfold shapeOk at hs
  cases hb : cfg.block with
  | some n =>
    simp only [hb, Bool.and_eq_true, List.all_eq_true] at hs
    have := hs.2.2 w (pg_mem_of_getElem? hk)
    simp [hq] at this
  | none =>
    simp only [hb, Bool.and_eq_true, List.all_eq_true, List.mem_range] at hs
    have := hs.2.2 k (pg_lt_of_getElem? hk)
    simpa [hk, hq] using this

theorem pg_shape_block {s : State Val Err} (hI : LiveInv cfg s) {n : Nat} (hb : cfg.block = some n) :
    s.disp = none ∧ s.wk.length = n ∧ ∀ w ∈ s.wk, w.q = .inner := by
  have hs := hI.shape
  unfold shapeOk at hs
  simp only [hb, Bool.and_eq_true, List.all_eq_true, beq_iff_eq, Option.isNone_iff_eq_none] at hs
  exact ⟨hs.2.1.1, hs.2.1.2, hs.2.2⟩

theorem pg_shape_percall {s : State Val Err} (hI : LiveInv cfg s) (hb : cfg.block = none) :
    (∃ pc, s.disp = some pc) ∧ ∀ w ∈ s.wk, ∃ a, w.q = .priv a := by
  have hs := hI.shape
  unfold shapeOk at hs
  simp only [hb, Bool.and_eq_true, List.all_eq_true, List.mem_range] at hs
  refine ⟨Option.isSome_iff_exists.mp hs.2.1, ?_⟩
  intro w hw
  obtain ⟨k, hlt, hk⟩ := List.getElem_of_mem hw
  have hk' : s.wk[k]? = some w := by simp [hlt, hk]
  have := hs.2.2 k hlt
  simp only [hk'] at this
  cases hq : w.q with
  | priv a => exact ⟨a, rfl⟩
  | outer => simp [hq] at this
  | inner => simp [hq] at this

theorem pg_shape_res {s : State Val Err} (hI : LiveInv cfg s) : s.res.isSome = cfg.resolver := by
  have hs := hI.shape
  unfold shapeOk at hs
  simp only [Bool.and_eq_true, beq_iff_eq] at hs
  exact hs.1

theorem pg_priv_of_wkOf {s : State Val Err} (hI : LiveInv cfg s) {a k : Nat}
    (h : s.wkOf.getD a none = some k) :
    ∃ w, s.wk[k]? = some w ∧ w.q = .priv a ∧ nStops (getQ s (.priv a)) + tookStops s (.priv a) = 1 ∧
      orderOk s (.priv a) = true ∧ counterOk s (.priv a) = true := by
  have hlt : a < s.qp.length := by
    obtain ⟨-, h2, h3⟩ := pg_len cfg hI
    rw [h2, ← h3]
    rcases Nat.lt_or_ge a s.wkOf.length with h1 | h1
    · exact h1
    · simp [List.getD_eq_getElem?_getD, List.getElem?_eq_none h1] at h
  have hp := hI.priv
  simp only [privOk, List.all_eq_true, List.mem_range] at hp
  have := hp a hlt
  simp only [h, Bool.and_eq_true, beq_iff_eq] at this
  obtain ⟨⟨⟨⟨h1, h2⟩, h3⟩, h4⟩, h5⟩ := this
  cases hw : s.wk[k]? with
  | none => simp [hw] at h1
  | some w =>
    simp only [hw, beq_iff_eq] at h1
    exact ⟨w, rfl, h1, h2, h3, h4⟩

theorem pg_priv_none {s : State Val Err} (hI : LiveInv cfg s) {a : Nat} (hlt : a < s.qp.length)
    (h : s.wkOf.getD a none = none) : (getQ s (.priv a)).items = [] := by
  have hp := hI.priv
  simp only [privOk, List.all_eq_true, List.mem_range] at hp
  have := hp a hlt
  simp only [h, Bool.and_eq_true, List.isEmpty_iff] at this
  exact this.1

/-- in a stuck state the call of every per-call worker is done -/
theorem pg_priv_worker_done (hnf : NoFail eval) {s : State Val Err} (hI : LiveInv cfg s) (hA : pg_Aux cfg s)
    (hst : Stuck cfg eval cancelErr s) {k a : Nat} {w : Worker Val Err} (hk : s.wk[k]? = some w)
    (hq : w.q = .priv a) : (futOf s a).done = true := by
  have hl := hA.launch
  simp only [pg_launchOk, List.all_eq_true] at hl
  have hl := hl w (pg_mem_of_getElem? hk)
  simp only [hq, Bool.or_eq_true, beq_iff_eq, Bool.not_eq_true', List.isEmpty_eq_false_iff] at hl
  obtain ⟨h1, h2⟩ := pg_worker_stuck' cfg eval cancelErr hnf hI hst hk
  rw [hq] at h1
  rcases hl with (hl | hl) | hl
  · exact hl
  · exfalso
    rcases h1 with h1 | h1
    · apply hl; simp [taskIds, h1]
    · obtain ⟨w', -, -, -, ho, -⟩ := pg_priv_of_wkOf cfg hI (pg_shape_priv cfg hI hk hq)
      exact hl (pg_order_nil ho h1)
  · have := h2 a; omega

/-! ### the dispatcher is never stuck in `_wait_for_free_slots` -/

theorem pg_no_waitSlots (hnf : NoFail eval) {s : State Val Err} (hfit : FitHyp cfg s) (hI : LiveInv cfg s)
    (hA : pg_Aux cfg s) (hst : Stuck cfg eval cancelErr s) {i : Nat} {vs : List Val} {req : Nat}
    (hd : s.disp = some (.waitSlots i vs req)) : False := by
  rcases pg_disp_stuck cfg eval cancelErr hI hA hst hd with h | ⟨i', vs', req', he, hnofit, hnd⟩ | ⟨t, ts, he, -⟩ | h | h
  · cases h.1
  · cases he
    cases hact : s.active with
    | nil =>
      have hreq := hA.req
      simp only [pg_reqOk, hd, beq_iff_eq] at hreq
      have hp : futPre s i = true := by
        have := hI.tokenState
        simp only [tokenStateOk, Bool.and_eq_true, hd] at this
        exact this.1.1.2
      have hna : futOf s i ≠ .absent := by
        rcases pg_futPre_cases hp with h | h <;> simp [h]
      -- a dispatcher exists in per-call mode only
      have hbn : cfg.block = none := by
        cases hb : cfg.block with
        | none => rfl
        | some n =>
          have := (pg_shape_block cfg hI hb).1
          rw [hd] at this; cases this
      have := hfit.fit i hna hbn
      rw [hact, hreq, this] at hnofit
      cases hnofit
    | cons e rest =>
      obtain ⟨a, sl⟩ := e
      have h0 : s.active[0]? = some (a, sl) := by simp [hact]
      have hnd0 := hnd 0 a sl h0
      have hao := hA.active
      simp only [pg_activeOk, List.all_eq_true] at hao
      have := hao (a, sl) (by simp [hact])
      obtain ⟨k, hk⟩ := Option.isSome_iff_exists.mp this
      obtain ⟨w, hw, hq, -⟩ := pg_priv_of_wkOf cfg hI hk
      have := pg_priv_worker_done cfg eval cancelErr hnf hI hA hst hw hq
      rw [this] at hnd0; cases hnd0
  · cases he
  · cases h.1
  · cases h

/-! ### in a stuck state only the wait list holds calls -/

theorem pg_cnt_waitLst (hnf : NoFail eval) {s : State Val Err} (hfit : FitHyp cfg s) (hC : Core s)
    (hI : LiveInv cfg s) (hA : pg_Aux cfg s)
    (hsub : s.nsub + (s.script.filter isSubmit).length ≤ cfg.calls.length)
    (hst : Stuck cfg eval cancelErr s) {i : Nat} (hc : 1 ≤ cnt s i) : i ∈ s.waitLst := by
  -- workers hold nothing
  have hwk : (s.wk.map (wkCnt i)).sum = 0 := by
    rcases Nat.eq_zero_or_pos (s.wk.map (wkCnt i)).sum with h | h
    · exact h
    · exfalso
      obtain ⟨k, w, hk, hw⟩ := pg_sum_map_pos _ _ h
      have := (pg_worker_stuck' cfg eval cancelErr hnf hI hst hk).2 i
      simp only [wkCnt] at hw; omega
  -- the user thread holds nothing
  have hmain : mainCnt i s.mainPc = 0 := by
    rcases pg_main_stuck cfg eval cancelErr hI hA hsub hst with ⟨h, -⟩ | ⟨sd, h, hb⟩
    · simp [h, mainCnt]
    · rcases hb with ⟨t, ts, hpc, -⟩ | ⟨hpc, -⟩ <;> simp [h, mainCnt, sdCnt, hpc]
  -- the resolver holds nothing
  have hresc : resCnt i s.res = 0 := by
    cases hr : s.res with
    | none => simp [resCnt]
    | some pc =>
      rcases pg_res_stuck cfg eval cancelErr hI hA hC hst hr with h | ⟨w, h, -⟩ | ⟨sd, h, hb⟩ | h | h
      · simp [h.1, resCnt]
      · simp [h, resCnt]
      · rcases hb with ⟨t, ts, hpc, -⟩ | ⟨hpc, -⟩ <;> simp [h, resCnt, sdCnt, hpc]
      · simp [h.1, resCnt]
      · simp [h, resCnt]
  -- the dispatcher holds nothing
  have hdisp : dispCnt i s.disp = 0 := by
    cases hd : s.disp with
    | none => simp [dispCnt]
    | some pc =>
      cases pc with
      | waitSlots j vs req => exact (pg_no_waitSlots cfg eval cancelErr hnf hfit hI hA hst hd).elim
      | _ => simp [dispCnt]
  -- the outer queue holds no task
  have hqo : qCnt i s.qo = 0 := by
    rcases Nat.eq_zero_or_pos (qCnt i s.qo) with h | h
    · exact h
    · exfalso
      have hm := pg_mem_taskIds_of_qCnt h
      have hne := pg_items_ne_nil_of_taskIds hm
      cases hr : s.res with
      | none =>
        have := hA.wait
        simp [pg_waitOk, hr] at this
        exact hne this.2
      | some pc =>
        have hnil : 1 ≤ tookStops s .outer → False := fun ht => by
          have := pg_order_nil hI.orderOuter ht
          simp only [getQ] at this
          rw [this] at hm; cases hm
        rcases pg_res_stuck cfg eval cancelErr hI hA hC hst hr with h | ⟨w, h, -⟩ | ⟨sd, h, hb⟩ | h | h
        · exact hne h.2
        · exact hnil (pg_tookStops_res (by simp [hr, h, rTookStop]))
        · exact hnil (pg_tookStops_res (by simp [hr, h, rTookStop]))
        · exact hnil (pg_tookStops_res (by simp [hr, h.1, rTookStop]))
        · exact hnil (pg_tookStops_res (by simp [hr, h, rTookStop]))
  -- the inner queue holds no task
  have hqi : qCnt i s.qi = 0 := by
    rcases Nat.eq_zero_or_pos (qCnt i s.qi) with h | h
    · exact h
    · exfalso
      have hm := pg_mem_taskIds_of_qCnt h
      have hne := pg_items_ne_nil_of_taskIds hm
      have hnil : 1 ≤ tookStops s .inner → False := fun ht => by
        have := pg_order_nil hI.orderInner ht
        simp only [getQ] at this
        rw [this] at hm; cases hm
      cases hb : cfg.block with
      | some n =>
        obtain ⟨-, hlen, hall⟩ := pg_shape_block cfg hI hb
        have hn := hfit.pos n hb
        have hk : s.wk[0]? = some (s.wk[0]'(by omega)) := by simp [List.getElem?_eq_getElem]
        have hq := hall _ (pg_mem_of_getElem? hk)
        have := (pg_worker_stuck' cfg eval cancelErr hnf hI hst hk).1
        rw [hq] at this
        rcases this with h1 | h1
        · exact hne h1
        · exact hnil h1
      | none =>
        obtain ⟨⟨pc, hd⟩, -⟩ := pg_shape_percall cfg hI hb
        rcases pg_disp_stuck cfg eval cancelErr hI hA hst hd with h | ⟨i', vs', req', he, -⟩ | ⟨t, ts, he, -⟩ | h | h
        · exact hne h.2
        · subst he; exact pg_no_waitSlots cfg eval cancelErr hnf hfit hI hA hst hd
        · exact hnil (pg_tookStops_disp (by simp [hd, he, dTookStop]))
        · exact hnil (pg_tookStops_disp (by simp [hd, h.1, dTookStop]))
        · exact hnil (pg_tookStops_disp (by simp [hd, h, dTookStop]))
  -- the private queues hold no task
  have hqp : (s.qp.map (qCnt i)).sum = 0 := by
    rcases Nat.eq_zero_or_pos (s.qp.map (qCnt i)).sum with h | h
    · exact h
    · exfalso
      obtain ⟨a, q, ha, hq⟩ := pg_sum_map_pos _ _ h
      have halt := pg_lt_of_getElem? ha
      have hgq : getQ s (.priv a) = q := by
        simp [getQ, List.getD_eq_getElem?_getD, ha]
      have hm := pg_mem_taskIds_of_qCnt hq
      have hne := pg_items_ne_nil_of_taskIds hm
      rw [← hgq] at hm hne
      cases hwo : s.wkOf.getD a none with
      | none => exact hne (pg_priv_none cfg hI halt hwo)
      | some k =>
        obtain ⟨w, hk, hwq, -, ho, -⟩ := pg_priv_of_wkOf cfg hI hwo
        have := (pg_worker_stuck' cfg eval cancelErr hnf hI hst hk).1
        rw [hwq] at this
        rcases this with h1 | h1
        · exact hne h1
        · have := pg_order_nil ho h1
          rw [this] at hm; cases hm
  have : 1 ≤ s.waitLst.count i := by
    simp only [cnt] at hc; omega
  exact List.count_pos_iff.mp this

/-! ### every accepted future is done -/

theorem pg_waitLst_not_allDone {s : State Val Err} (hC : Core s) (hI : LiveInv cfg s) (hA : pg_Aux cfg s)
    (hst : Stuck cfg eval cancelErr s) {i : Nat} (hi : i ∈ s.waitLst) :
    allDone s (depsOf cfg i) = false := by
  obtain ⟨k, hk⟩ := List.getElem?_of_mem hi
  have hne : s.waitLst.isEmpty = false := by
    cases hw : s.waitLst with
    | nil => rw [hw] at hi; cases hi
    | cons _ _ => rfl
  have hwt := hA.wait
  cases hr : s.res with
  | none => simp [pg_waitOk, hr, hne] at hwt
  | some pc =>
    rcases pg_res_stuck cfg eval cancelErr hI hA hC hst hr with h | ⟨w, h, -⟩ | ⟨sd, h, hb⟩ | h | h
    · exact pg_res_noscan cfg eval cancelErr hI hst hr (Or.inl h.1) hk
    · exact pg_res_noscan cfg eval cancelErr hI hst hr (Or.inr ⟨w, h⟩) hk
    · simp [pg_waitOk, hr, h, hne] at hwt
    · simp [pg_waitOk, hr, h.1, hne] at hwt
    · simp [pg_waitOk, hr, h, hne] at hwt

theorem pg_dep {s : State Val Err} (hD : pg_depOk cfg s = true) {i j : Nat} (hi : i < s.nsub)
    (hf : futOf s i ≠ .absent) (hj : j ∈ depsOf cfg i) : futOf s j ≠ .absent := by
  simp only [pg_depOk, List.all_eq_true, List.mem_range] at hD
  have := hD i hi
  intro hj0
  cases hfi : futOf s i with
  | absent => exact hf hfi
  | _ =>
    simp only [hfi, List.all_eq_true] at this
    have := this j hj
    simp [hj0] at this

theorem pg_coverage {s : State Val Err} (hI : LiveInv cfg s) {i : Nat} (hi : i < s.nsub)
    (hf : futOf s i = .pending ∨ futOf s i = .running) : 1 ≤ cnt s i := by
  have := hI.coverage
  simp only [coverageOk, List.all_eq_true, List.mem_range] at this
  have := this i hi
  rcases hf with hf | hf <;> simpa [hf] using this

theorem pg_not_active (hnf : NoFail eval) (hwf : WfCfg cfg) {s : State Val Err} (hfit : FitHyp cfg s)
    (hC : Core s) (hI : LiveInv cfg s) (hA : pg_Aux cfg s) (hD : pg_depOk cfg s = true)
    (hsub : s.nsub + (s.script.filter isSubmit).length ≤ cfg.calls.length)
    (hst : Stuck cfg eval cancelErr s) (i : Nat) (hi : i < s.nsub) :
    futOf s i ≠ .pending ∧ futOf s i ≠ .running := by
  induction i using Nat.strongRecOn with
  | _ i ih =>
    have key : ¬ (futOf s i = .pending ∨ futOf s i = .running) := by
      intro hf
      have hc := pg_coverage cfg hI hi hf
      have hw := pg_cnt_waitLst cfg eval cancelErr hnf hfit hC hI hA hsub hst hc
      have hnd := pg_waitLst_not_allDone cfg eval cancelErr hC hI hA hst hw
      have : ∃ j ∈ depsOf cfg i, (futOf s j).done = false := by
        simp only [allDone] at hnd
        have := List.all_eq_false.mp hnd
        obtain ⟨j, hj, hjd⟩ := this
        exact ⟨j, hj, by simpa using hjd⟩
      obtain ⟨j, hj, hjd⟩ := this
      have hji : j < i := hwf.1 i j hj
      have hna : futOf s i ≠ .absent := by rcases hf with hf | hf <;> simp [hf]
      have hja := pg_dep cfg hD hi hna hj
      have := ih j hji (by omega)
      cases hfj : futOf s j <;> simp_all [Fut.done]
    exact ⟨fun h => key (Or.inl h), fun h => key (Or.inr h)⟩

theorem stuck_all_done (hnf : NoFail eval) (hwf : WfCfg cfg) {s : State Val Err} (hfit : FitHyp cfg s)
    (hC : Core s) (hI : LiveInv cfg s) (hA : pg_Aux cfg s) (hD : pg_depOk cfg s = true)
    (hsub : s.nsub + (s.script.filter isSubmit).length ≤ cfg.calls.length)
    (hst : Stuck cfg eval cancelErr s) : allAcceptedDone s = true := by
  simp only [allAcceptedDone, List.all_eq_true, List.mem_range]
  intro i hi
  have := pg_not_active cfg eval cancelErr hnf hwf hfit hC hI hA hD hsub hst i hi
  cases hf : futOf s i <;> simp_all [Fut.done]

/-! ### the end of the run: nothing is parked, every consumer has exited -/

/-- all hypotheses of the progress theorem, bundled -/
structure pg_Hyp (s : State Val Err) : Prop where
  nf : NoFail eval
  wf : WfCfg cfg
  fit : FitHyp cfg s
  core : Core s
  inv : LiveInv cfg s
  aux : pg_Aux cfg s
  dep : pg_depOk cfg s = true
  sub : s.nsub + (s.script.filter isSubmit).length ≤ cfg.calls.length
  stuck : Stuck cfg eval cancelErr s

theorem pg_waitLst_nil {s : State Val Err} (H : pg_Hyp cfg eval cancelErr s) : s.waitLst = [] := by
  obtain ⟨hnf, hwf, hfit, hC, hI, hA, hD, hsub, hst⟩ := H
  cases hw : s.waitLst with
  | nil => rfl
  | cons i rest =>
    exfalso
    have hi : i ∈ s.waitLst := by simp [hw]
    have hc : 1 ≤ cnt s i := by
      have := List.count_pos_iff.mpr hi
      simp only [cnt]; omega
    have hlt : i < s.nsub := by
      rcases Nat.lt_or_ge i s.nsub with h | h
      · exact h
      · have := (hC.uniq i).2 h; omega
    have hp : futPre s i = true := by
      have := hI.tokenState
      simp only [tokenStateOk, Bool.and_eq_true, List.all_eq_true] at this
      exact this.1.1.1.1.2 i hi
    have hnd := pg_waitLst_not_allDone cfg eval cancelErr hC hI hA hst hi
    obtain ⟨j, hj, hjd⟩ : ∃ j ∈ depsOf cfg i, (futOf s j).done = false := by
      simp only [allDone] at hnd
      obtain ⟨j, hj, hjd⟩ := List.all_eq_false.mp hnd
      exact ⟨j, hj, by simpa using hjd⟩
    have hji : j < i := hwf.1 i j hj
    have hna : futOf s i ≠ .absent := by
      rcases pg_futPre_cases hp with h | h <;> simp [h]
    have hja := pg_dep cfg hD hlt hna hj
    have := pg_not_active cfg eval cancelErr hnf hwf hfit hC hI hA hD hsub hst j (by omega)
    cases hfj : futOf s j <;> simp_all [Fut.done]

theorem pg_main_target {s : State Val Err} (hI : LiveInv cfg s) {sd : Sd} (hm : mainSd s = some sd) :
    sd.target = frontQ cfg := by
  have := hI.join
  simp only [joinOk, hm, Bool.and_eq_true, beq_iff_eq] at this
  exact this.1.2

theorem pg_frontQ_ne_priv (a : Nat) : frontQ cfg ≠ .priv a := by
  unfold frontQ; split <;> simp

theorem pg_main_noholds {s : State Val Err} (H : pg_Hyp cfg eval cancelErr s) {sd : Sd}
    (hm : mainSd s = some sd) : sdHolds sd = false := by
  obtain ⟨hnf, hwf, hfit, hC, hI, hA, hD, hsub, hst⟩ := H
  rcases pg_main_stuck cfg eval cancelErr hI hA hsub hst with ⟨h, -⟩ | ⟨sd', h, hb⟩
  · simp [mainSd, h] at hm
  · simp only [mainSd, h, Option.some.injEq] at hm
    subst hm
    rcases hb with ⟨t, ts, hpc, -⟩ | ⟨hpc, -⟩ <;> simp [sdHolds, hpc]

/-- `unfinished_tasks` is 0 once the queue is empty and nobody holds an item -/
theorem pg_unfin_zero {s : State Val Err} {q : QId} (hc : counterOk s q = true)
    (hn : nStops (getQ s q) = 0) (ht : taskIds (getQ s q) = [])
    (hw : ∀ w ∈ s.wk, (w.q == q && wHolds w.pc) = false)
    (hr : (q == .outer && rHolds s.res) = false) (hd : (q == .inner && dHolds s.disp) = false)
    (hm : ∀ sd, mainSd s = some sd → sdHolds sd = false) : (getQ s q).unfin = 0 := by
  have hlen := pg_items_length (getQ s q)
  rw [hn, ht] at hlen
  have hh : holders s q = 0 := by
    unfold holders
    rw [pg_filter_zero hw, hr, hd]
    cases hms : mainSd s with
    | none => simp
    | some sd => simp [hm sd hms]
  simp only [counterOk, beq_iff_eq] at hc
  rw [hc, hh, hlen]; rfl

theorem pg_priv_only {s : State Val Err} (hI : LiveInv cfg s) {k a : Nat} {w : Worker Val Err}
    (hk : s.wk[k]? = some w) (hq : w.q = .priv a) {w' : Worker Val Err} (hw' : w' ∈ s.wk)
    (hq' : w'.q = .priv a) : w' = w := by
  obtain ⟨k', hlt, hk'⟩ := List.getElem_of_mem hw'
  have hk'' : s.wk[k']? = some w' := by simp [hlt, hk']
  have h1 := pg_shape_priv cfg hI hk hq
  have h2 := pg_shape_priv cfg hI hk'' hq'
  rw [h1] at h2
  simp only [Option.some.injEq] at h2
  subst h2
  rw [hk] at hk''
  simp only [Option.some.injEq] at hk''
  exact hk''.symm

/-- every per-call worker has exited -/
theorem pg_priv_exited {s : State Val Err} (H : pg_Hyp cfg eval cancelErr s) {k a : Nat}
    {w : Worker Val Err} (hk : s.wk[k]? = some w) (hq : w.q = .priv a) : w.pc = .exited := by
  have H' := H
  obtain ⟨hnf, hwf, hfit, hC, hI, hA, hD, hsub, hst⟩ := H
  obtain ⟨w0, hk0, -, hone, hord, hcnt⟩ := pg_priv_of_wkOf cfg hI (pg_shape_priv cfg hI hk hq)
  have honly : ∀ (p : WPc Val Err → Bool), p w.pc = false →
      ∀ w' ∈ s.wk, (w'.q == QId.priv a && p w'.pc) = false := by
    intro p hp w' hw'
    by_cases hq' : w'.q = .priv a
    · rw [pg_priv_only cfg hI hk hq hw' hq', hp]; simp
    · simp [hq']
  rcases pg_worker_stuck cfg eval cancelErr hnf hI hst hk with ⟨h1, h2⟩ | ⟨h1, h2⟩ | h1
  · exfalso
    rw [hq] at h2
    have hn : nStops (getQ s (.priv a)) = 0 := by simp [nStops, h2]
    have ht : tookStops s (.priv a) = 0 := by
      unfold tookStops
      rw [pg_filter_zero (honly wTookStop (by simp [h1, wTookStop]))]
      simp
    omega
  · exfalso
    rw [hq] at h2
    have ht := pg_tookStops_wk hk hq (by simp [h1, wTookStop])
    apply h2
    apply pg_unfin_zero hcnt (by omega) (pg_order_nil hord ht) (honly wHolds (by simp [h1, wHolds]))
    · simp
    · simp
    · intro sd hm; exact pg_main_noholds cfg eval cancelErr H' hm
  · exact h1

theorem pg_threadEnded_worker {s : State Val Err} {k : Nat} {w : Worker Val Err}
    (hk : s.wk[k]? = some w) (hpc : w.pc = .exited) : threadEnded s (.worker k) = some none := by
  simp [threadEnded, hk, hpc]

/-- once the inner executor is closed, its threads have exited and its queue is joined -/
theorem pg_inner_closed {s : State Val Err} (H : pg_Hyp cfg eval cancelErr s)
    (hph : phaseOf cfg s .inner = .closed) :
    (∀ t ∈ threadsOf cfg .inner, threadEnded s t = some none) ∧ s.qi.unfin = 0 ∧
      (∀ w ∈ s.wk, w.pc = .exited) := by
  have H' := H
  obtain ⟨hnf, hwf, hfit, hC, hI, hA, hD, hsub, hst⟩ := H
  have hmh : ∀ sd, mainSd s = some sd → sdHolds sd = false :=
    fun sd hm => pg_main_noholds cfg eval cancelErr H' hm
  have hstops := hI.stopsInner
  simp only [stopsOk, hph, beq_iff_eq, nConsumers] at hstops
  cases hb : cfg.block with
  | some n =>
    obtain ⟨hdn, hlen, hall⟩ := pg_shape_block cfg hI hb
    have hn := hfit.pos n hb
    simp only [hb] at hstops
    have htk : tookStops s .inner = (s.wk.filter (fun w => w.q == QId.inner && wTookStop w.pc)).length := by
      unfold tookStops; simp [hdn, dTookStop]
    have hnoidle : ∀ (k : Nat) (w : Worker Val Err), s.wk[k]? = some w → w.pc ≠ .idle := by
      intro k w hk hpc
      rcases pg_worker_stuck cfg eval cancelErr hnf hI hst hk with ⟨h1, h2⟩ | ⟨h1, h2⟩ | h1
      · rw [hall w (pg_mem_of_getElem? hk)] at h2
        have h0 : nStops (getQ s .inner) = 0 := by simp [nStops, h2]
        have := pg_filter_full (p := fun w => w.q == QId.inner && wTookStop w.pc) (l := s.wk) (by omega)
          w (pg_mem_of_getElem? hk)
        simp [hpc, wTookStop] at this
      · rw [hpc] at h1; cases h1
      · rw [hpc] at h1; cases h1
    have hcases : ∀ w ∈ s.wk, (w.pc = .stopJoin ∧ s.qi.unfin ≠ 0) ∨ w.pc = .exited := by
      intro w hw
      obtain ⟨k, hlt, hkw⟩ := List.getElem_of_mem hw
      have hk : s.wk[k]? = some w := by simp [hlt, hkw]
      rcases pg_worker_stuck cfg eval cancelErr hnf hI hst hk with ⟨h1, h2⟩ | ⟨h1, h2⟩ | h1
      · exact absurd h1 (hnoidle k w hk)
      · left; rw [hall w hw] at h2; exact ⟨h1, h2⟩
      · right; exact h1
    have hfull : s.wk.filter (fun w => w.q == QId.inner && wTookStop w.pc) = s.wk := by
      rw [List.filter_eq_self]
      intro w hw
      rcases hcases w hw with h | h
      · simp [hall w hw, h.1, wTookStop]
      · simp [hall w hw, h, wTookStop]
    rw [hfull] at htk
    have hu : s.qi.unfin = 0 := by
      apply pg_unfin_zero (q := .inner) hI.counterInner (by omega) (pg_order_nil hI.orderInner (by omega))
      · intro w hw
        rcases hcases w hw with h | h
        · simp [h.1, wHolds]
        · simp [h, wHolds]
      · simp
      · simp [hdn, dHolds]
      · exact hmh
    have hex : ∀ w ∈ s.wk, w.pc = .exited := by
      intro w hw
      rcases hcases w hw with h | h
      · exact absurd hu h.2
      · exact h
    refine ⟨?_, hu, hex⟩
    intro t ht
    simp only [threadsOf, hb, List.mem_map, List.mem_range] at ht
    obtain ⟨k, hk, rfl⟩ := ht
    have hk' : s.wk[k]? = some (s.wk[k]'(by omega)) := by simp [List.getElem?_eq_getElem, hlen, hk]
    exact pg_threadEnded_worker hk' (hex _ (pg_mem_of_getElem? hk'))
  | none =>
    obtain ⟨⟨pc, hd⟩, hpriv⟩ := pg_shape_percall cfg hI hb
    simp only [hb] at hstops
    have hex : ∀ w ∈ s.wk, w.pc = .exited := by
      intro w hw
      obtain ⟨k, hlt, hkw⟩ := List.getElem_of_mem hw
      have hk : s.wk[k]? = some w := by simp [hlt, hkw]
      obtain ⟨a, ha⟩ := hpriv w hw
      exact pg_priv_exited cfg eval cancelErr H' hk ha
    have hnone : ∀ (p : WPc Val Err → Bool), ∀ w ∈ s.wk, (w.q == QId.inner && p w.pc) = false := by
      intro p w hw
      obtain ⟨a, ha⟩ := hpriv w hw
      simp [ha]
    have htk : tookStops s .inner = if dTookStop s.disp then 1 else 0 := by
      unfold tookStops
      rw [pg_filter_zero (hnone wTookStop)]; simp
    have hunf : dTookStop s.disp = true → dHolds s.disp = false → s.qi.unfin = 0 := by
      intro h1 h2
      rw [h1] at htk
      apply pg_unfin_zero (q := .inner) hI.counterInner (by simp at htk; omega)
        (pg_order_nil hI.orderInner (by simp at htk; omega)) (hnone wHolds)
      · simp
      · simp [h2]
      · exact hmh
    have hdx : pc = .exited := by
      rcases pg_disp_stuck cfg eval cancelErr hI hA hst hd with h | ⟨i', vs', req', he, -⟩ | ⟨t, ts, he, hne⟩ | h | h
      · exfalso
        have h0 : nStops (getQ s .inner) = 0 := by simp [nStops, getQ, h.2]
        rw [hd, h.1] at htk
        simp [dTookStop] at htk
        omega
      · subst he; exact (pg_no_waitSlots cfg eval cancelErr hnf hfit hI hA hst hd).elim
      · exfalso
        have hj := hI.join
        simp only [joinOk, hd, he, Bool.and_eq_true, List.all_cons] at hj
        have hj := hj.1.1.1
        cases t with
        | worker k =>
          simp only [decide_eq_true_eq] at hj
          have hk' : s.wk[k]? = some (s.wk[k]'hj) := by simp [List.getElem?_eq_getElem, hj]
          exact hne (pg_threadEnded_worker hk' (hex _ (pg_mem_of_getElem? hk')))
        | resolver => simp at hj
        | disp => simp at hj
      · exfalso
        exact h.2 (hunf (by simp [hd, h.1, dTookStop]) (by simp [hd, h.1, dHolds]))
      · exact h
    subst hdx
    refine ⟨?_, hunf (by simp [hd, dTookStop]) (by simp [hd, dHolds]), hex⟩
    intro t ht
    simp only [threadsOf, hb, List.mem_singleton] at ht
    subst ht
    simp [threadEnded, hd]

theorem pg_sd_join_mem {b : Bool} {sd : Sd} (hn : pg_sdOk cfg b sd = true) {t : TId} {ts : List TId}
    (hpc : sd.pc = .joinThreads (t :: ts)) : t ∈ threadsOf cfg sd.target := by
  simp only [pg_sdOk, hpc, List.all_cons, Bool.and_eq_true] at hn
  simpa using hn.1

theorem pg_no_worker_outer {s : State Val Err} (hI : LiveInv cfg s) (p : WPc Val Err → Bool) :
    ∀ w ∈ s.wk, (w.q == QId.outer && p w.pc) = false := by
  intro w hw
  cases hb : cfg.block with
  | some n => simp [(pg_shape_block cfg hI hb).2.2 w hw]
  | none =>
    obtain ⟨a, ha⟩ := (pg_shape_percall cfg hI hb).2 w hw
    simp [ha]

/-- once the outer executor is closed, the resolver has exited and the outer queue is joined -/
theorem pg_outer_closed {s : State Val Err} (H : pg_Hyp cfg eval cancelErr s) (hrs : cfg.resolver = true)
    (hph : phaseOf cfg s .outer = .closed) : s.res = some .exited ∧ s.qo.unfin = 0 := by
  have H' := H
  obtain ⟨hnf, hwf, hfit, hC, hI, hA, hD, hsub, hst⟩ := H
  have hmh : ∀ sd, mainSd s = some sd → sdHolds sd = false :=
    fun sd hm => pg_main_noholds cfg eval cancelErr H' hm
  have hstops := hI.stopsOuter hrs
  simp only [stopsOk, hph, beq_iff_eq, nConsumers] at hstops
  have hsome : s.res.isSome = true := by rw [pg_shape_res cfg hI, hrs]
  obtain ⟨pc, hr⟩ := Option.isSome_iff_exists.mp hsome
  have htk : tookStops s .outer = if rTookStop s.res then 1 else 0 := by
    unfold tookStops
    rw [pg_filter_zero (pg_no_worker_outer cfg hI wTookStop)]; simp
  have hunf : rTookStop s.res = true → rHolds s.res = false → s.qo.unfin = 0 := by
    intro h1 h2
    rw [h1] at htk
    apply pg_unfin_zero (q := .outer) hI.counterOuter (by simp at htk; omega)
      (pg_order_nil hI.orderOuter (by simp at htk; omega)) (pg_no_worker_outer cfg hI wHolds)
    · simp [h2]
    · simp
    · exact hmh
  have hpx : pc = .exited := by
    rcases pg_res_stuck cfg eval cancelErr hI hA hC hst hr with h | ⟨w, h, hne⟩ | ⟨sd, h, hb⟩ | h | h
    · exfalso
      have h0 : nStops (getQ s .outer) = 0 := by simp [nStops, getQ, h.2]
      rw [hr, h.1] at htk
      simp [rTookStop] at htk
      omega
    · exact absurd (pg_waitLst_nil cfg eval cancelErr H') hne
    · exfalso
      have hrsd : resSd s = some sd := by simp [resSd, hr, h]
      have htgt : sd.target = .inner := by
        have := hI.join
        simp only [joinOk, hrsd, Bool.and_eq_true, beq_iff_eq] at this
        exact this.2.1
      have hn : pg_sdOk cfg true sd = true := by
        have := hA.norm
        simp only [pg_normOk, hrsd, Bool.and_eq_true] at this
        exact this.1.2
      have hphi : phaseOf cfg s .inner = .closed := by
        rcases hb with ⟨t, ts, hpc, -⟩ | ⟨hpc, -⟩ <;> simp [phaseOf, frontQ, hrs, hr, h, sdPhase, hpc]
      obtain ⟨hth, hu, -⟩ := pg_inner_closed cfg eval cancelErr H' hphi
      rcases hb with ⟨t, ts, hpc, hne⟩ | ⟨hpc, hne⟩
      · have := pg_sd_join_mem cfg hn hpc
        rw [htgt] at this
        exact hne (hth t this)
      · rw [htgt] at hne; exact hne hu
    · exfalso
      exact h.2 (hunf (by simp [hr, h.1, rTookStop]) (by simp [hr, h.1, rHolds]))
    · exact h
  subst hpx
  exact ⟨hr, hunf (by simp [hr, rTookStop]) (by simp [hr, rHolds])⟩

/-- once the front executor is closed, the threads `shutdown` joins have ended and its queue is joined -/
theorem pg_front_closed {s : State Val Err} (H : pg_Hyp cfg eval cancelErr s)
    (hph : phaseOf cfg s (frontQ cfg) = .closed) :
    (∀ t ∈ threadsOf cfg (frontQ cfg), threadEnded s t = some none) ∧ (getQ s (frontQ cfg)).unfin = 0 ∧
      (cfg.resolver = true → s.res = some .exited) := by
  cases hrs : cfg.resolver with
  | true =>
    have hf : frontQ cfg = .outer := by simp [frontQ, hrs]
    rw [hf] at hph ⊢
    obtain ⟨h1, h2⟩ := pg_outer_closed cfg eval cancelErr H hrs hph
    refine ⟨?_, h2, fun _ => h1⟩
    intro t ht
    simp only [threadsOf, List.mem_singleton] at ht
    subst ht
    simp [threadEnded, h1]
  | false =>
    have hf : frontQ cfg = .inner := by simp [frontQ, hrs]
    rw [hf] at hph ⊢
    obtain ⟨h1, h2, -⟩ := pg_inner_closed cfg eval cancelErr H hph
    exact ⟨h1, h2, fun h => by cases h⟩

theorem pg_main_finished {s : State Val Err} (H : pg_Hyp cfg eval cancelErr s) : mainFinished s = true := by
  have H' := H
  obtain ⟨hnf, hwf, hfit, hC, hI, hA, hD, hsub, hst⟩ := H
  rcases pg_main_stuck cfg eval cancelErr hI hA hsub hst with ⟨hm, hs⟩ | ⟨sd, hm, hb⟩
  · rcases hs with hs | ⟨j, rest, hs, hf⟩ | ⟨j, rest, hs, hf⟩
    · simp [mainFinished, hm, hs]
    · simp [mainFinished, hm, hs, hf]
    · have : futOf s j = .absent := by
        rcases Nat.lt_or_ge j s.nsub with hj | hj
        · have := pg_not_active cfg eval cancelErr hnf hwf hfit hC hI hA hD hsub hst j hj
          cases hfj : futOf s j <;> simp_all [Fut.done]
        · exact hC.futWf j hj
      simp [mainFinished, hm, hs, this]
  · exfalso
    have hms : mainSd s = some sd := by simp [mainSd, hm]
    have htgt := pg_main_target cfg hI hms
    have hn : pg_sdOk cfg false sd = true := by
      have := hA.norm
      simp only [pg_normOk, hms, Bool.and_eq_true] at this
      exact this.1.1
    have hph : phaseOf cfg s (frontQ cfg) = .closed := by
      rcases hb with ⟨t, ts, hpc, -⟩ | ⟨hpc, -⟩ <;> simp [phaseOf, hm, sdPhase, hpc]
    obtain ⟨hth, hu, -⟩ := pg_front_closed cfg eval cancelErr H' hph
    rcases hb with ⟨t, ts, hpc, hne⟩ | ⟨hpc, hne⟩
    · have := pg_sd_join_mem cfg hn hpc
      rw [htgt] at this
      exact hne (hth t this)
    · rw [htgt] at hne; exact hne hu

theorem pg_no_process {s : State Val Err} (H : pg_Hyp cfg eval cancelErr s) (hfo : s.frontOpen = false) :
    noProcessAlive s = true := by
  have H' := H
  obtain ⟨hnf, hwf, hfit, hC, hI, hA, hD, hsub, hst⟩ := H
  have hmf := pg_main_finished cfg eval cancelErr H'
  have hm : s.mainPc = .idle := by
    cases hmp : s.mainPc with
    | idle => rfl
    | inSd sd => simp [mainFinished, hmp] at hmf
  have hph : phaseOf cfg s (frontQ cfg) = .closed := by simp [phaseOf, hm, hfo]
  obtain ⟨-, -, hrx⟩ := pg_front_closed cfg eval cancelErr H' hph
  have hphi : phaseOf cfg s .inner = .closed := by
    cases hrs : cfg.resolver with
    | true =>
      have hr := hrx hrs
      have hio : s.innerOpen = false := by
        have := hA.handle2
        simpa [pg_handleOk, hr] using this
      simp [phaseOf, frontQ, hrs, hr, hio]
    | false =>
      have hf : frontQ cfg = .inner := by simp [frontQ, hrs]
      rw [hf] at hph; exact hph
  obtain ⟨-, -, hex⟩ := pg_inner_closed cfg eval cancelErr H' hphi
  simp only [noProcessAlive, List.all_eq_true]
  intro w hw
  have hp := hA.proc
  simp only [pg_procOk, List.all_eq_true] at hp
  have := hp w hw
  simpa [hex w hw] using this

/-- In a state where no label is enabled (the end of a maximal run), in a run without failing calls:
    every accepted future is done, the user thread has executed its whole script (every shutdown
    call has returned), and — if the executor was shut down — no worker process is alive.
    Besides `LiveInv` the theorem assumes the auxiliary invariants `pg_Aux` and the run constraint
    `pg_depOk` (an accepted call depends on accepted calls only).  This is the general form: about
    requests and limits it assumes only `FitHyp cfg s` — a block allocation has a worker, and the
    calls that were ACCEPTED in `s` fit the empty table.  `stuck_final` (every call of the program
    fits: `WfRes`) and `stuck_final_lim` (limits only: `WfLim`, plus the invariant `AccFits`) are
    its two instances. -/
theorem stuck_final_fit (hnf : NoFail eval) (hwf : WfCfg cfg) {s : State Val Err} (hfit : FitHyp cfg s)
    (hC : Core s) (hI : LiveInv cfg s) (hA : pg_Aux cfg s) (hD : pg_depOk cfg s = true)
    (hsub : s.nsub + (s.script.filter isSubmit).length ≤ cfg.calls.length)
    (hst : Stuck cfg eval cancelErr s) :
    allAcceptedDone s = true ∧ mainFinished s = true ∧ (s.frontOpen = false → noProcessAlive s = true) := by
  have H : pg_Hyp cfg eval cancelErr s := ⟨hnf, hwf, hfit, hC, hI, hA, hD, hsub, hst⟩
  exact ⟨stuck_all_done cfg eval cancelErr hnf hwf hfit hC hI hA hD hsub hst,
    pg_main_finished cfg eval cancelErr H, pg_no_process cfg eval cancelErr H⟩

/-- `stuck_final_fit` under the per-program hypothesis `WfRes` (EVERY call of the program fits the
    limits).  Weaker than `stuck_final_lim`, which asks nothing of the program. -/
theorem stuck_final (hnf : NoFail eval) (hwf : WfCfg cfg) (hres : WfRes cfg) {s : State Val Err}
    (hC : Core s) (hI : LiveInv cfg s) (hA : pg_Aux cfg s) (hD : pg_depOk cfg s = true)
    (hsub : s.nsub + (s.script.filter isSubmit).length ≤ cfg.calls.length)
    (hst : Stuck cfg eval cancelErr s) :
    allAcceptedDone s = true ∧ mainFinished s = true ∧ (s.frontOpen = false → noProcessAlive s = true) :=
  stuck_final_fit cfg eval cancelErr hnf hwf (fitHyp_of_wfRes hres (pg_len cfg hI).1) hC hI hA hD hsub hst

/-- `stuck_final_fit` under the limit-level hypothesis `WfLim` (nothing is assumed of the program's
    calls): a call too big for `max_cores` is rejected by `submit` and never reaches the dispatcher
    (`AccFits`, an invariant of every reachable state: `accFits_reachable`). -/
theorem stuck_final_lim (hnf : NoFail eval) (hwf : WfCfg cfg) (hl : WfLim cfg) {s : State Val Err}
    (hF : AccFits cfg s) (hC : Core s) (hI : LiveInv cfg s) (hA : pg_Aux cfg s)
    (hD : pg_depOk cfg s = true)
    (hsub : s.nsub + (s.script.filter isSubmit).length ≤ cfg.calls.length)
    (hst : Stuck cfg eval cancelErr s) :
    allAcceptedDone s = true ∧ mainFinished s = true ∧ (s.frontOpen = false → noProcessAlive s = true) :=
  stuck_final_fit cfg eval cancelErr hnf hwf (fitHyp_of_wfLim hl hF) hC hI hA hD hsub hst

/-- the auxiliary invariants hold initially (their preservation is left to a separate file) -/
theorem pg_aux_init (script : List Cmd) : pg_Aux cfg (init cfg script : State Val Err) := by
  refine ⟨?_, ?_, ?_, ?_, ?_, ?_, ?_⟩
  · cases hr : cfg.resolver <;> cases hb : cfg.block <;> simp [pg_normOk, init, mainSd, resSd, hr, hb]
  · cases hr : cfg.resolver <;> simp [pg_waitOk, init, hr]
  · cases hr : cfg.resolver <;> simp [pg_handleOk, init, hr]
  · cases hb : cfg.block <;> simp [pg_reqOk, init, hb]
  · simp [pg_activeOk, init]
  · cases hb : cfg.block <;> simp [pg_launchOk, init, hb]
  · cases hb : cfg.block <;> simp [pg_procOk, init, hb]

end ExecModel.Sys
