import ExecModel.Proofs.SysLiveA
import ExecModel.Proofs.SysLiveB
import ExecModel.Proofs.SysLiveC
import ExecModel.Proofs.SysLiveD
import ExecModel.Proofs.SysLiveE
/-!
  Assembly: the protocol invariant `LiveInv` (queue counters, stop accounting, order, token/future
  agreement, coverage, thread-table shape …) together with the two auxiliary invariants found
  necessary for inductiveness (`launchOk`, `privLaunchOk`: a call is launched at most once) holds
  in every reachable state of every run without failing calls.
-/
namespace ExecModel.Sys

variable {Val Err : Type}
variable (cfg : Cfg) (eval : Nat → List Val → Except Err Val) (cancelErr : Err)

structure Live (cfg : Cfg) (s : State Val Err) : Prop where
  inv : LiveInv cfg s
  launch : launchOk s = true
  privLaunch : privLaunchOk s = true

theorem live_init (script : List Cmd) : Live cfg (init cfg script : State Val Err) := by
  obtain ⟨a1, a2, a3, a4, a5, a6, a7⟩ := liveA_init (Val := Val) (Err := Err) cfg script
  obtain ⟨b1, b2⟩ := liveB_init (Val := Val) (Err := Err) cfg script
  obtain ⟨c1, c2, c3, c4⟩ := liveC_init (Val := Val) (Err := Err) cfg script
  obtain ⟨d1, d2⟩ := liveD_init (Val := Val) (Err := Err) cfg script
  exact ⟨⟨a1, a2, a3, b1, b2, c1, c2, c3, c4, liveE_init cfg script, d1, d2, a4, a5, a6⟩, a7,
    liveE_launch_init cfg script⟩

theorem live_step (hnf : NoFail eval) {s s' : State Val Err} {l : Label Val Err} (hC : Core s)
    (hL : Live cfg s) (h : step cfg eval cancelErr s l = some s') : Live cfg s' := by
  obtain ⟨hI, hLa, hLp⟩ := hL
  obtain ⟨a1, a2, a3, a4, a5, a6, a7⟩ := liveA_step cfg eval cancelErr hnf hC hI hLa h
  obtain ⟨b1, b2⟩ := liveB_step cfg eval cancelErr hnf hC hI h
  obtain ⟨c1, c2, c3, c4⟩ := liveC_step cfg eval cancelErr hnf hC hI h
  obtain ⟨d1, d2⟩ := liveD_step cfg eval cancelErr hnf hC hI h
  exact ⟨⟨a1, a2, a3, b1, b2, c1, c2, c3, c4, liveE_step cfg eval cancelErr hnf hC hI hLp h, d1, d2, a4, a5, a6⟩,
    a7, liveE_launch_step cfg eval cancelErr hC hI hLp h⟩

theorem live_run (hnf : NoFail eval) {s0 s : State Val Err} (ls : List (Label Val Err)) (hC : Core s0)
    (hL : Live cfg s0) (h : run cfg eval cancelErr s0 ls = some s) : Live cfg s := by
  induction ls generalizing s0 with
  | nil => simp [run] at h; subst h; exact hL
  | cons l ls ih =>
    simp only [run, Option.bind_eq_some_iff] at h
    obtain ⟨s1, h1, h2⟩ := h
    exact ih (core_step cfg eval cancelErr hC h1) (live_step cfg eval cancelErr hnf hC hL h1) h2

/-- The protocol invariant holds in every reachable state of every run in which no call fails. -/
theorem live_reachable (hnf : NoFail eval) {script : List Cmd} {s : State Val Err}
    (h : Reachable cfg eval cancelErr script s) : Live cfg s := by
  obtain ⟨ls, hls⟩ := h
  exact live_run cfg eval cancelErr hnf ls (core_init cfg script) (live_init cfg script) hls

end ExecModel.Sys
