import ExecModel.Proofs.SysFut
/-! Generated projection lemmas: which fields the state-update helpers leave alone. -/
namespace ExecModel.Sys
variable {Val Err : Type}

@[simp] theorem setQ_script (s : State Val Err) (q : QId) (v : Queue Val) : (setQ s q v).script = s.script := by cases q <;> rfl
@[simp] theorem taskDone_script (s : State Val Err) (q : QId) : (taskDone s q).script = s.script := by simp [taskDone]
@[simp] theorem setFut_script (s : State Val Err) (i : Nat) (x : Fut Val Err) : (setFut s i x).script = s.script := rfl
@[simp] theorem setWk_script (s : State Val Err) (k : Nat) (w : Worker Val Err) : (setWk s k w).script = s.script := rfl
@[simp] theorem setQ_nsub (s : State Val Err) (q : QId) (v : Queue Val) : (setQ s q v).nsub = s.nsub := by cases q <;> rfl
@[simp] theorem taskDone_nsub (s : State Val Err) (q : QId) : (taskDone s q).nsub = s.nsub := by simp [taskDone]
@[simp] theorem setFut_nsub (s : State Val Err) (i : Nat) (x : Fut Val Err) : (setFut s i x).nsub = s.nsub := rfl
@[simp] theorem setWk_nsub (s : State Val Err) (k : Nat) (w : Worker Val Err) : (setWk s k w).nsub = s.nsub := rfl
@[simp] theorem setQ_fut (s : State Val Err) (q : QId) (v : Queue Val) : (setQ s q v).fut = s.fut := by cases q <;> rfl
@[simp] theorem taskDone_fut (s : State Val Err) (q : QId) : (taskDone s q).fut = s.fut := by simp [taskDone]
@[simp] theorem setWk_fut (s : State Val Err) (k : Nat) (w : Worker Val Err) : (setWk s k w).fut = s.fut := rfl
@[simp] theorem setQ_mainPc (s : State Val Err) (q : QId) (v : Queue Val) : (setQ s q v).mainPc = s.mainPc := by cases q <;> rfl
@[simp] theorem taskDone_mainPc (s : State Val Err) (q : QId) : (taskDone s q).mainPc = s.mainPc := by simp [taskDone]
@[simp] theorem setFut_mainPc (s : State Val Err) (i : Nat) (x : Fut Val Err) : (setFut s i x).mainPc = s.mainPc := rfl
@[simp] theorem setWk_mainPc (s : State Val Err) (k : Nat) (w : Worker Val Err) : (setWk s k w).mainPc = s.mainPc := rfl
@[simp] theorem setQ_raised (s : State Val Err) (q : QId) (v : Queue Val) : (setQ s q v).raised = s.raised := by cases q <;> rfl
@[simp] theorem taskDone_raised (s : State Val Err) (q : QId) : (taskDone s q).raised = s.raised := by simp [taskDone]
@[simp] theorem setFut_raised (s : State Val Err) (i : Nat) (x : Fut Val Err) : (setFut s i x).raised = s.raised := rfl
@[simp] theorem setWk_raised (s : State Val Err) (k : Nat) (w : Worker Val Err) : (setWk s k w).raised = s.raised := rfl
@[simp] theorem setQ_frontOpen (s : State Val Err) (q : QId) (v : Queue Val) : (setQ s q v).frontOpen = s.frontOpen := by cases q <;> rfl
@[simp] theorem taskDone_frontOpen (s : State Val Err) (q : QId) : (taskDone s q).frontOpen = s.frontOpen := by simp [taskDone]
@[simp] theorem setFut_frontOpen (s : State Val Err) (i : Nat) (x : Fut Val Err) : (setFut s i x).frontOpen = s.frontOpen := rfl
@[simp] theorem setWk_frontOpen (s : State Val Err) (k : Nat) (w : Worker Val Err) : (setWk s k w).frontOpen = s.frontOpen := rfl
@[simp] theorem setQ_innerOpen (s : State Val Err) (q : QId) (v : Queue Val) : (setQ s q v).innerOpen = s.innerOpen := by cases q <;> rfl
@[simp] theorem taskDone_innerOpen (s : State Val Err) (q : QId) : (taskDone s q).innerOpen = s.innerOpen := by simp [taskDone]
@[simp] theorem setFut_innerOpen (s : State Val Err) (i : Nat) (x : Fut Val Err) : (setFut s i x).innerOpen = s.innerOpen := rfl
@[simp] theorem setWk_innerOpen (s : State Val Err) (k : Nat) (w : Worker Val Err) : (setWk s k w).innerOpen = s.innerOpen := rfl
@[simp] theorem setFut_qo (s : State Val Err) (i : Nat) (x : Fut Val Err) : (setFut s i x).qo = s.qo := rfl
@[simp] theorem setWk_qo (s : State Val Err) (k : Nat) (w : Worker Val Err) : (setWk s k w).qo = s.qo := rfl
@[simp] theorem setFut_qi (s : State Val Err) (i : Nat) (x : Fut Val Err) : (setFut s i x).qi = s.qi := rfl
@[simp] theorem setWk_qi (s : State Val Err) (k : Nat) (w : Worker Val Err) : (setWk s k w).qi = s.qi := rfl
@[simp] theorem setFut_qp (s : State Val Err) (i : Nat) (x : Fut Val Err) : (setFut s i x).qp = s.qp := rfl
@[simp] theorem setWk_qp (s : State Val Err) (k : Nat) (w : Worker Val Err) : (setWk s k w).qp = s.qp := rfl
@[simp] theorem setQ_res (s : State Val Err) (q : QId) (v : Queue Val) : (setQ s q v).res = s.res := by cases q <;> rfl
@[simp] theorem taskDone_res (s : State Val Err) (q : QId) : (taskDone s q).res = s.res := by simp [taskDone]
@[simp] theorem setFut_res (s : State Val Err) (i : Nat) (x : Fut Val Err) : (setFut s i x).res = s.res := rfl
@[simp] theorem setWk_res (s : State Val Err) (k : Nat) (w : Worker Val Err) : (setWk s k w).res = s.res := rfl
@[simp] theorem setQ_waitLst (s : State Val Err) (q : QId) (v : Queue Val) : (setQ s q v).waitLst = s.waitLst := by cases q <;> rfl
@[simp] theorem taskDone_waitLst (s : State Val Err) (q : QId) : (taskDone s q).waitLst = s.waitLst := by simp [taskDone]
@[simp] theorem setFut_waitLst (s : State Val Err) (i : Nat) (x : Fut Val Err) : (setFut s i x).waitLst = s.waitLst := rfl
@[simp] theorem setWk_waitLst (s : State Val Err) (k : Nat) (w : Worker Val Err) : (setWk s k w).waitLst = s.waitLst := rfl
@[simp] theorem setQ_disp (s : State Val Err) (q : QId) (v : Queue Val) : (setQ s q v).disp = s.disp := by cases q <;> rfl
@[simp] theorem taskDone_disp (s : State Val Err) (q : QId) : (taskDone s q).disp = s.disp := by simp [taskDone]
@[simp] theorem setFut_disp (s : State Val Err) (i : Nat) (x : Fut Val Err) : (setFut s i x).disp = s.disp := rfl
@[simp] theorem setWk_disp (s : State Val Err) (k : Nat) (w : Worker Val Err) : (setWk s k w).disp = s.disp := rfl
@[simp] theorem setQ_active (s : State Val Err) (q : QId) (v : Queue Val) : (setQ s q v).active = s.active := by cases q <;> rfl
@[simp] theorem taskDone_active (s : State Val Err) (q : QId) : (taskDone s q).active = s.active := by simp [taskDone]
@[simp] theorem setFut_active (s : State Val Err) (i : Nat) (x : Fut Val Err) : (setFut s i x).active = s.active := rfl
@[simp] theorem setWk_active (s : State Val Err) (k : Nat) (w : Worker Val Err) : (setWk s k w).active = s.active := rfl
@[simp] theorem setQ_wk (s : State Val Err) (q : QId) (v : Queue Val) : (setQ s q v).wk = s.wk := by cases q <;> rfl
@[simp] theorem taskDone_wk (s : State Val Err) (q : QId) : (taskDone s q).wk = s.wk := by simp [taskDone]
@[simp] theorem setFut_wk (s : State Val Err) (i : Nat) (x : Fut Val Err) : (setFut s i x).wk = s.wk := rfl
@[simp] theorem setQ_wkOf (s : State Val Err) (q : QId) (v : Queue Val) : (setQ s q v).wkOf = s.wkOf := by cases q <;> rfl
@[simp] theorem taskDone_wkOf (s : State Val Err) (q : QId) : (taskDone s q).wkOf = s.wkOf := by simp [taskDone]
@[simp] theorem setFut_wkOf (s : State Val Err) (i : Nat) (x : Fut Val Err) : (setFut s i x).wkOf = s.wkOf := rfl
@[simp] theorem setWk_wkOf (s : State Val Err) (k : Nat) (w : Worker Val Err) : (setWk s k w).wkOf = s.wkOf := rfl
@[simp] theorem setQ_sentLog (s : State Val Err) (q : QId) (v : Queue Val) : (setQ s q v).sentLog = s.sentLog := by cases q <;> rfl
@[simp] theorem taskDone_sentLog (s : State Val Err) (q : QId) : (taskDone s q).sentLog = s.sentLog := by simp [taskDone]
@[simp] theorem setFut_sentLog (s : State Val Err) (i : Nat) (x : Fut Val Err) : (setFut s i x).sentLog = s.sentLog := rfl
@[simp] theorem setWk_sentLog (s : State Val Err) (k : Nat) (w : Worker Val Err) : (setWk s k w).sentLog = s.sentLog := rfl
@[simp] theorem setQ_cancelOk (s : State Val Err) (q : QId) (v : Queue Val) : (setQ s q v).cancelOk = s.cancelOk := by cases q <;> rfl
@[simp] theorem taskDone_cancelOk (s : State Val Err) (q : QId) : (taskDone s q).cancelOk = s.cancelOk := by simp [taskDone]
@[simp] theorem setFut_cancelOk (s : State Val Err) (i : Nat) (x : Fut Val Err) : (setFut s i x).cancelOk = s.cancelOk := rfl
@[simp] theorem setWk_cancelOk (s : State Val Err) (k : Nat) (w : Worker Val Err) : (setWk s k w).cancelOk = s.cancelOk := rfl
@[simp] theorem setWk_wk (s : State Val Err) (k : Nat) (w : Worker Val Err) : (setWk s k w).wk = s.wk.set k w := rfl
@[simp] theorem setFut_fut (s : State Val Err) (i : Nat) (x : Fut Val Err) : (setFut s i x).fut = s.fut.set i x := rfl
@[simp] theorem getQ_setQ_self (s : State Val Err) (q : QId) (v : Queue Val) (h : match q with | .priv i => i < s.qp.length | _ => True) : getQ (setQ s q v) q = v := by
  cases q <;> simp_all [getQ, setQ]
theorem futOf_congr {s s' : State Val Err} (h : s'.fut = s.fut) (j : Nat) : futOf s' j = futOf s j := by simp [futOf, h]
end ExecModel.Sys
