import ExecModel.Props.C18
/-!
  Proofs for C18 (n-rank worker): gather order, single error, single-rank value, no wedging under
  `Uniform`, one reply per reply-bearing request, nothing after the shutdown acknowledgement.
-/
namespace ExecModel.C18
open ExecModel ExecModel.Wire

variable {Mem Call V E : Type}

/-! ### helpers on `allOk` / `allErr` -/

theorem allOk_of_all_ok (l : List (Except E V)) (h : ∀ x, x ∈ l → ∃ v, x = .ok v) :
    ∃ vs, allOk l = some vs := by
  induction l with
  | nil => exact ⟨[], rfl⟩
  | cons x l ih =>
    obtain ⟨v, rfl⟩ := h x (by simp)
    obtain ⟨vs, hvs⟩ := ih (fun y hy => h y (by simp [hy]))
    exact ⟨v :: vs, by simp [allOk, hvs]⟩

theorem allOk_some_eq (l : List (Except E V)) (vs : List V) (h : allOk l = some vs) :
    l = vs.map Except.ok := by
  induction l generalizing vs with
  | nil =>
    simp [allOk] at h
    subst h
    rfl
  | cons x l ih =>
    cases x with
    | error e => simp [allOk] at h
    | ok v =>
      simp only [allOk, Option.map_eq_some_iff] at h
      obtain ⟨ws, hws, rfl⟩ := h
      simp [ih ws hws]

theorem allErr_of_all_err (l : List (Except E V)) (h : ∀ x, x ∈ l → ∃ e, x = .error e) :
    allErr l = true := by
  induction l with
  | nil => rfl
  | cons x l ih =>
    obtain ⟨e, rfl⟩ := h x (by simp)
    simp only [allErr]
    exact ih (fun y hy => h y (by simp [hy]))

theorem mem_rankOutcomes (run : Run Mem Call V E) (n : Nat) (s : WState Mem) (c : Call)
    (x : Except E V) (hx : x ∈ rankOutcomes run n s c) :
    ∃ r, r < n ∧ x = run r s.ncalls s.mem c := by
  simp only [rankOutcomes, List.mem_map, List.mem_range] at hx
  obtain ⟨r, hr, rfl⟩ := hx
  exact ⟨r, hr, rfl⟩

theorem rankOutcomes_getElem? (run : Run Mem Call V E) (n : Nat) (s : WState Mem) (c : Call)
    (r : Nat) (hr : r < n) : (rankOutcomes run n s c)[r]? = some (run r s.ncalls s.mem c) := by
  simp [rankOutcomes, hr]

theorem rankOutcomes_length (run : Run Mem Call V E) (n : Nat) (s : WState Mem) (c : Call) :
    (rankOutcomes run n s c).length = n := by
  simp [rankOutcomes]

/-! ### the six theorems -/

/-- n ≥ 2 ranks that all succeed: exactly one reply, the list of the n return values ordered by rank -/
theorem gather_rank_order (run : Run Mem Call V E) (n : Nat) (hn : 2 ≤ n) (s : WState Mem)
    (ha : s.alive = true) (hw : s.wedged = false) (c : Call) (hok : AllOk run n s c) :
    ∃ vs : List V, (pstep run n s (.call c)).2 = some (.gathered vs) ∧ vs.length = n ∧
      (∀ r, r < n → vs[r]? = rankValue run s c r) ∧
      (pstep run n s (.call c)).1 = { s with ncalls := s.ncalls + 1 } := by
  have hall : ∀ x, x ∈ rankOutcomes run n s c → ∃ v, x = .ok v := by
    intro x hx
    obtain ⟨r, hr, rfl⟩ := mem_rankOutcomes run n s c x hx
    exact hok r hr
  obtain ⟨vs, hvs⟩ := allOk_of_all_ok _ hall
  have heq := allOk_some_eq _ _ hvs
  have hn1 : ¬ n ≤ 1 := by omega
  have hlen : vs.length = n := by
    have := congrArg List.length heq
    simpa [rankOutcomes_length] using this.symm
  refine ⟨vs, ?_, hlen, ?_, ?_⟩
  · simp [pstep, ha, hw, hn1, hvs]
  · intro r hr
    have h1 := rankOutcomes_getElem? run n s c r hr
    rw [heq] at h1
    simp only [List.getElem?_map] at h1
    unfold rankValue
    cases hv : vs[r]? with
    | none => simp [hv] at h1
    | some v =>
      simp only [hv, Option.map_some, Option.some.injEq] at h1
      rw [← h1]
  · simp [pstep, ha, hw, hn1, hvs]

/-- all ranks raise: exactly one reply, the error of rank 0; the worker keeps serving -/
theorem all_fail_one_error (run : Run Mem Call V E) (n : Nat) (hn : 1 ≤ n) (s : WState Mem)
    (ha : s.alive = true) (hw : s.wedged = false) (c : Call) (hf : AllFail run n s c) :
    ∃ e, run 0 s.ncalls s.mem c = .error e ∧ (pstep run n s (.call c)).2 = some (.error e) ∧
      (pstep run n s (.call c)).1 = { s with ncalls := s.ncalls + 1 } := by
  obtain ⟨e, he⟩ := hf 0 (by omega)
  refine ⟨e, he, ?_⟩
  by_cases hn1 : n ≤ 1
  · simp [pstep, ha, hw, hn1, he]
  · have hall : ∀ x, x ∈ rankOutcomes run n s c → ∃ e, x = .error e := by
      intro x hx
      obtain ⟨r, hr, rfl⟩ := mem_rankOutcomes run n s c x hx
      exact hf r hr
    have herr := allErr_of_all_err _ hall
    have hnone : allOk (rankOutcomes run n s c) = none := by
      cases h : allOk (rankOutcomes run n s c) with
      | none => rfl
      | some vs =>
        have heq := allOk_some_eq _ _ h
        have h1 := rankOutcomes_getElem? run n s c 0 (by omega)
        rw [heq, he] at h1
        simp only [List.getElem?_map] at h1
        cases hv : vs[0]? <;> simp [hv] at h1
    simp [pstep, ha, hw, hn1, hnone, herr, he]

/-- one rank (n ≤ 1): the value itself, not a list -/
theorem single_rank_value (run : Run Mem Call V E) (n : Nat) (hn : n ≤ 1) (s : WState Mem)
    (ha : s.alive = true) (hw : s.wedged = false) (c : Call) (v : V)
    (hv : run 0 s.ncalls s.mem c = .ok v) :
    (pstep run n s (.call c)).2 = some (.single v) := by
  simp [pstep, ha, hw, hn, hv]

/-- a call in a live, unwedged state under `Uniform`: a reply is sent and the state stays live -/
theorem pstep_call_uniform (run : Run Mem Call V E) (n : Nat) (hn : 1 ≤ n) (hu : Uniform run n)
    (s : WState Mem) (ha : s.alive = true) (hw : s.wedged = false) (c : Call) :
    ∃ rep, pstep run n s (.call c) = ({ s with ncalls := s.ncalls + 1 }, some rep) := by
  by_cases hn1 : n ≤ 1
  · cases h : run 0 s.ncalls s.mem c with
    | ok v => exact ⟨.single v, by simp [pstep, ha, hw, hn1, h]⟩
    | error e => exact ⟨.error e, by simp [pstep, ha, hw, hn1, h]⟩
  · rcases hu s.ncalls s.mem c with hok | hf
    · obtain ⟨vs, h2, _, _, h1⟩ := gather_rank_order run n (by omega) s ha hw c hok
      exact ⟨.gathered vs, Prod.ext h1 h2⟩
    · obtain ⟨e, _, h2, h1⟩ := all_fail_one_error run n hn s ha hw c hf
      exact ⟨.error e, Prod.ext h1 h2⟩

/-- under `Uniform` the worker never wedges -/
theorem never_wedged (run : Run Mem Call V E) (n : Nat) (hn : 1 ≤ n) (hu : Uniform run n)
    (s : WState Mem) (hw : s.wedged = false) (r : Req Mem Call) :
    (pstep run n s r).1.wedged = false := by
  cases r with
  | shutdown => by_cases ha : s.alive = true <;> simp [pstep, ha, hw]
  | init m => by_cases ha : s.alive = true <;> simp [pstep, ha, hw]
  | other => simp [pstep, hw]
  | call c =>
    by_cases ha : s.alive = true
    · obtain ⟨rep, h⟩ := pstep_call_uniform run n hn hu s ha hw c
      rw [h]
      exact hw
    · have hp : pstep run n s (.call c) = (s, none) := by simp [pstep, ha]
      rw [hp]
      exact hw

/-- a dead or wedged worker sends nothing -/
theorem pserve_stuck (run : Run Mem Call V E) (n : Nat) (s : WState Mem)
    (h : (s.alive && !s.wedged) = false) (rs : List (Req Mem Call)) : pserve run n s rs = [] := by
  induction rs with
  | nil => rfl
  | cons r rs ih => cases r <;> simp [pserve, pstep, h, ih]

theorem one_reply_per_call_gen (run : Run Mem Call V E) (n : Nat) (hn : 1 ≤ n) (hu : Uniform run n)
    (s : WState Mem) (ha : s.alive = true) (hw : s.wedged = false) (rs : List (Req Mem Call)) :
    (pserve run n s rs).length = ((C17.takeThrough C17.isShutdown rs).filter pbearing).length := by
  induction rs generalizing s with
  | nil => rfl
  | cons r rs ih =>
    cases r with
    | shutdown =>
      have hd : pserve run n { s with alive := false } rs = [] :=
        pserve_stuck run n _ (by simp) rs
      have hp : pstep run n s .shutdown = ({ s with alive := false }, some (PReply.ack : PReply V E)) := by
        simp [pstep, ha, hw]
      simp [pserve, hp, hd, C17.takeThrough, C17.isShutdown, pbearing, List.filter_cons]
    | call c =>
      obtain ⟨rep, h⟩ := pstep_call_uniform run n hn hu s ha hw c
      have := ih { s with ncalls := s.ncalls + 1 } ha hw
      simp [pserve, h, this, C17.takeThrough, C17.isShutdown, pbearing, List.filter_cons]
    | init m =>
      have := ih { s with mem := some m } ha hw
      have hp : pstep run n s (.init m) = ({ s with mem := some m }, (none : Option (PReply V E))) := by
        simp [pstep, ha, hw]
      simp [pserve, hp, this, C17.takeThrough, C17.isShutdown, pbearing]
    | other =>
      have := ih s ha hw
      simp [pserve, pstep, this, C17.takeThrough, C17.isShutdown, pbearing]

/-- exactly one reply per reply-bearing request up to and including the first shutdown, regardless of n -/
theorem one_reply_per_call (run : Run Mem Call V E) (n : Nat) (hn : 1 ≤ n) (hu : Uniform run n)
    (rs : List (Req Mem Call)) :
    (pserve run n {} rs).length = ((C17.takeThrough C17.isShutdown rs).filter pbearing).length :=
  one_reply_per_call_gen run n hn hu {} rfl rfl rs

theorem nothing_after_shutdown_gen (run : Run Mem Call V E) (n : Nat) (s : WState Mem)
    (pre post : List (Req Mem Call)) :
    pserve run n s (pre ++ .shutdown :: post) = pserve run n s (pre ++ [.shutdown]) := by
  induction pre generalizing s with
  | nil =>
    by_cases h : (s.alive && !s.wedged) = true
    · have hd : pserve run n { s with alive := false } post = [] :=
        pserve_stuck run n _ (by simp) post
      simp [pserve, pstep, h, hd]
    · have h' : (s.alive && !s.wedged) = false := by simpa using h
      rw [pserve_stuck run n s h', pserve_stuck run n s h']
  | cons r pre ih =>
    simp only [List.cons_append, pserve]
    rcases pstep run n s r with ⟨s', _ | rep⟩ <;> simp [ih]

/-- nothing is sent after the acknowledgement of a shutdown -/
theorem nothing_after_shutdown (run : Run Mem Call V E) (n : Nat) (pre post : List (Req Mem Call)) :
    pserve run n {} (pre ++ .shutdown :: post) = pserve run n {} (pre ++ [.shutdown]) :=
  nothing_after_shutdown_gen run n {} pre post

end ExecModel.C18
