import ExecModel.Proofs.SysLiveBasic
/-!
  Stop accounting (`stopsOk`) and order (`orderOk`) of the outer and the inner queue are preserved
  by every step of `Sys` from a state satisfying `LiveInv`.

  Method: both clauses only look at the triple (phase of the owning executor, items of the queue,
  number of consumers that took a stop).  `lc_Eff` lists the six ways a step may change that triple;
  `lc_eff_ok` shows that each of them preserves the clauses; one lemma per thread shows that every
  step has one of these effects on each of the two queues.
-/
set_option linter.unusedSimpArgs false
set_option linter.unusedVariables false
namespace ExecModel.Sys

variable {Val Err : Type}

/-! ### the clauses as functions of (phase, items, took) -/

def lc_nst (l : List (Item Val)) : Nat := (l.filter isStop).length

def lc_tids (l : List (Item Val)) : List Nat :=
  l.filterMap (fun it => match it with
    | .task i _ => some i
    | .stop _ => none)

def lc_SO (n : Nat) (ph : Phase) (l : List (Item Val)) (t : Nat) : Bool :=
  match ph with
  | .opened => lc_nst l + t == 0
  | .putting r => lc_nst l + t + r == n
  | .closed => lc_nst l + t == n

def lc_OO (l : List (Item Val)) (t : Nat) : Bool :=
  tasksFirst l && (t == 0 || (lc_tids l).isEmpty)

theorem lc_stopsOk_eq (cfg : Cfg) (s : State Val Err) (q : QId) :
    stopsOk cfg s q = lc_SO (nConsumers cfg q) (phaseOf cfg s q) (getQ s q).items (tookStops s q) := rfl

theorem lc_orderOk_eq (s : State Val Err) (q : QId) :
    orderOk s q = lc_OO (getQ s q).items (tookStops s q) := rfl

/-! ### list facts -/

theorem lc_nst_append (l r : List (Item Val)) : lc_nst (l ++ r) = lc_nst l + lc_nst r := by
  simp [lc_nst]
theorem lc_nst_nil : lc_nst ([] : List (Item Val)) = 0 := rfl
theorem lc_nst_task (i : Nat) (vs : List Val) (l : List (Item Val)) :
    lc_nst (.task i vs :: l) = lc_nst l := by simp [lc_nst, isStop]
theorem lc_nst_stop (w : Bool) (l : List (Item Val)) :
    lc_nst (.stop w :: l) = lc_nst l + 1 := by
  simp only [lc_nst]; rw [List.filter_cons_of_pos (by rfl)]; rfl

theorem lc_allStop_of_nst_zero' (l : List (Item Val)) (h : l.all isStop = true) :
    lc_tids l = [] := by
  induction l with
  | nil => rfl
  | cons a l ih =>
    cases a with
    | task i vs => simp [isStop] at h
    | stop w =>
      simp only [List.all_cons, Bool.and_eq_true] at h
      have := ih h.2
      simpa [lc_tids] using this

theorem lc_tasksFirst_of_nst_zero (l : List (Item Val)) (h : lc_nst l = 0) :
    tasksFirst l = true := by
  induction l with
  | nil => rfl
  | cons a l ih =>
    cases a with
    | task i vs =>
      simp only [tasksFirst]
      apply ih
      simpa [lc_nst_task] using h
    | stop w => simp [lc_nst_stop] at h

theorem lc_tasksFirst_append_task (l : List (Item Val)) (h : lc_nst l = 0) (i : Nat) (vs : List Val) :
    tasksFirst (l ++ [.task i vs]) = true := by
  apply lc_tasksFirst_of_nst_zero
  rw [lc_nst_append, h]; simp [lc_nst_task, lc_nst_nil]

theorem lc_tasksFirst_append_stop (l : List (Item Val)) (h : tasksFirst l = true) (w : Bool) :
    tasksFirst (l ++ [.stop w]) = true := by
  induction l with
  | nil => simp [tasksFirst]
  | cons a l ih =>
    cases a with
    | task i vs => simp only [tasksFirst, List.cons_append] at h ⊢; exact ih h
    | stop w' =>
      simp only [tasksFirst, List.cons_append] at h ⊢
      simp [List.all_append, h, isStop]

theorem lc_tids_append_stop (l : List (Item Val)) (w : Bool) :
    lc_tids (l ++ [.stop w]) = lc_tids l := by
  simp [lc_tids, List.filterMap_append]

/-! ### the effects of a step on one queue -/

/-- The ways a step may change (phase, items, took) of the outer or the inner queue.  `p` tells
    whether the three effects of the executor's own front end (put a task, put a stop, begin the
    shutdown) are allowed. -/
def lc_Eff (p : Bool) (n : Nat) (ph : Phase) (l : List (Item Val)) (t : Nat)
    (ph' : Phase) (l' : List (Item Val)) (t' : Nat) : Prop :=
  (ph' = ph ∧ l' = l ∧ t' = t) ∨
  (ph' = ph ∧ (∃ i vs, l = .task i vs :: l') ∧ t' = t) ∨
  (ph' = ph ∧ (∃ w, l = .stop w :: l') ∧ t' = t + 1) ∨
  (p = true ∧
    ((ph = .opened ∧ ph' = .opened ∧ (∃ i vs, l' = l ++ [.task i vs]) ∧ t' = t) ∨
     (∃ k, ph = .putting (k + 1) ∧ ph' = (if k = 0 then .closed else .putting k) ∧
        (∃ w, l' = l ++ [.stop w]) ∧ t' = t) ∨
     (ph = .opened ∧ ph' = (if n = 0 then .closed else .putting n) ∧ l' = l ∧ t' = t)))

theorem lc_eff_order {n : Nat} {ph ph' : Phase} {l l' : List (Item Val)} {t t' : Nat}
    (h : lc_Eff false n ph l t ph' l' t') (hO : lc_OO l t = true) : lc_OO l' t' = true := by
  rcases h with ⟨-, rfl, rfl⟩ | ⟨-, ⟨i, vs, rfl⟩, rfl⟩ | ⟨-, ⟨w, rfl⟩, rfl⟩ | ⟨hp, -⟩
  · exact hO
  · simp only [lc_OO, tasksFirst, lc_tids, List.filterMap_cons, Bool.and_eq_true, Bool.or_eq_true] at hO ⊢
    refine ⟨hO.1, ?_⟩
    rcases hO.2 with h | h
    · left; exact h
    · simp at h
  · simp only [lc_OO, tasksFirst, Bool.and_eq_true] at hO ⊢
    refine ⟨?_, ?_⟩
    · cases l' with
      | nil => rfl
      | cons a r =>
        cases a with
        | task i vs => simp [isStop] at hO
        | stop w' =>
          simp only [tasksFirst]
          simp only [List.all_cons, Bool.and_eq_true] at hO
          exact hO.1.2
    · simp [lc_allStop_of_nst_zero' l' hO.1]
  · cases hp

theorem lc_eff_ok {p : Bool} {n : Nat} {ph ph' : Phase} {l l' : List (Item Val)} {t t' : Nat}
    (h : lc_Eff p n ph l t ph' l' t') (hS : lc_SO n ph l t = true) (hO : lc_OO l t = true) :
    lc_SO n ph' l' t' = true ∧ lc_OO l' t' = true := by
  rcases h with ⟨rfl, rfl, rfl⟩ | ⟨rfl, ⟨i, vs, rfl⟩, rfl⟩ | ⟨rfl, ⟨w, rfl⟩, rfl⟩ |
    ⟨-, ⟨rfl, rfl, ⟨i, vs, rfl⟩, rfl⟩ | ⟨k, rfl, rfl, ⟨w, rfl⟩, rfl⟩ | ⟨rfl, rfl, rfl, rfl⟩⟩
  · exact ⟨hS, hO⟩
  · refine ⟨?_, lc_eff_order (n := n) (ph := .opened) (ph' := .opened) (Or.inr (Or.inl ⟨rfl, ⟨i, vs, rfl⟩, rfl⟩)) hO⟩
    simpa [lc_SO, lc_nst_task] using hS
  · refine ⟨?_, lc_eff_order (n := n) (ph := .opened) (ph' := .opened) (Or.inr (Or.inr (Or.inl ⟨rfl, ⟨w, rfl⟩, rfl⟩))) hO⟩
    cases ph' <;> simp only [lc_SO, lc_nst_stop, beq_iff_eq] at hS ⊢ <;> omega
  · simp only [lc_SO, beq_iff_eq] at hS
    have h0 : lc_nst l = 0 := by omega
    have ht : t' = 0 := by omega
    subst ht
    refine ⟨?_, ?_⟩
    · simp [lc_SO, lc_nst_append, h0, lc_nst_task, lc_nst_nil]
    · simp [lc_OO, lc_tasksFirst_append_task l h0]
  · refine ⟨?_, ?_⟩
    · simp only [lc_SO, beq_iff_eq] at hS
      by_cases hk : k = 0
      · subst hk; simp only [lc_SO, lc_nst_append, lc_nst_stop, lc_nst_nil, beq_iff_eq, if_true] at hS ⊢; omega
      · simp only [hk, lc_SO, lc_nst_append, lc_nst_stop, lc_nst_nil, beq_iff_eq, if_false] at hS ⊢; omega
    · simp only [lc_OO, Bool.and_eq_true] at hO ⊢
      exact ⟨lc_tasksFirst_append_stop l hO.1 w, by rw [lc_tids_append_stop]; exact hO.2⟩
  · refine ⟨?_, hO⟩
    simp only [lc_SO, beq_iff_eq] at hS
    by_cases hn : n = 0
    · subst hn; simp only [lc_SO, beq_iff_eq, if_true]; omega
    · simp only [hn, lc_SO, beq_iff_eq, if_false]; omega

/-! ### the triple of a state -/

def lc_wt (wk : List (Worker Val Err)) (q : QId) : Nat :=
  (wk.filter (fun w => w.q == q && wTookStop w.pc)).length

theorem lc_took_eq (s : State Val Err) (q : QId) :
    tookStops s q = lc_wt s.wk q + (if q == .outer && rTookStop s.res then 1 else 0)
      + (if q == .inner && dTookStop s.disp then 1 else 0) := rfl

theorem lc_filter_set {α : Type} (f : α → Bool) (l : List α) (k : Nat) (a b : α)
    (hk : l[k]? = some a) :
    ((l.set k b).filter f).length + (if f a then 1 else 0)
      = (l.filter f).length + (if f b then 1 else 0) := by
  induction l generalizing k with
  | nil => simp at hk
  | cons x l ih =>
    cases k with
    | zero =>
      simp only [List.getElem?_cons_zero, Option.some.injEq] at hk; subst hk
      simp only [List.set_cons_zero, List.filter_cons]
      cases f x <;> cases f b <;> simp
    | succ k =>
      simp only [List.getElem?_cons_succ] at hk
      have := ih k hk
      simp only [List.set_cons_succ, List.filter_cons]
      cases f x <;> simp <;> omega

theorem lc_wt_set (wk : List (Worker Val Err)) (q : QId) (k : Nat) (w w' : Worker Val Err)
    (hk : wk[k]? = some w) :
    lc_wt (wk.set k w') q + (if w.q == q && wTookStop w.pc then 1 else 0)
      = lc_wt wk q + (if w'.q == q && wTookStop w'.pc then 1 else 0) :=
  lc_filter_set (fun (w : Worker Val Err) => w.q == q && wTookStop w.pc) wk k w w' hk

theorem lc_wt_append_boot (wk : List (Worker Val Err)) (q : QId) (w : Worker Val Err)
    (hw : wTookStop w.pc = false) : lc_wt (wk ++ [w]) q = lc_wt wk q := by
  simp [lc_wt, List.filter_append, List.filter_cons, hw]

/-- The fields the phase of an executor is read from are unchanged. -/
structure lc_Ctl (s s' : State Val Err) : Prop where
  mainPc : s'.mainPc = s.mainPc
  frontOpen : s'.frontOpen = s.frontOpen
  res : s'.res = s.res
  innerOpen : s'.innerOpen = s.innerOpen

theorem lc_phase_ctl (cfg : Cfg) {s s' : State Val Err} (h : lc_Ctl s s') (q : QId) :
    phaseOf cfg s' q = phaseOf cfg s q := by
  simp only [phaseOf, h.mainPc, h.frontOpen, h.res, h.innerOpen]

theorem lc_getQ_setQ (s : State Val Err) (q0 q : QId) (v : Queue Val) (hq : q = .outer ∨ q = .inner) :
    getQ (setQ s q0 v) q = if q0 = q then v else getQ s q := by
  rcases hq with rfl | rfl <;> cases q0 <;> simp [getQ, setQ]

theorem lc_items_taskDone (s : State Val Err) (q0 q : QId) (hq : q = .outer ∨ q = .inner) :
    (getQ (taskDone s q0) q).items = (getQ s q).items := by
  simp only [taskDone, lc_getQ_setQ _ _ _ _ hq]
  split
  · rename_i h; subst h; rfl
  · rfl

@[simp] theorem lc_getQ_setWk (s : State Val Err) (k : Nat) (w : Worker Val Err) (q : QId) :
    getQ (setWk s k w) q = getQ s q := by cases q <;> rfl
@[simp] theorem lc_getQ_setFut (s : State Val Err) (i : Nat) (f : Fut Val Err) (q : QId) :
    getQ (setFut s i f) q = getQ s q := by cases q <;> rfl

/-- The effect of a step on queue `q` (outer or inner). -/
def lc_EffS (cfg : Cfg) (p : Bool) (s s' : State Val Err) (q : QId) : Prop :=
  lc_Eff p (nConsumers cfg q) (phaseOf cfg s q) (getQ s q).items (tookStops s q)
    (phaseOf cfg s' q) (getQ s' q).items (tookStops s' q)

theorem lc_effS_frame (cfg : Cfg) (p : Bool) {s s' : State Val Err} (q : QId)
    (hph : phaseOf cfg s' q = phaseOf cfg s q) (hit : (getQ s' q).items = (getQ s q).items)
    (htk : tookStops s' q = tookStops s q) : lc_EffS cfg p s s' q :=
  Or.inl ⟨hph, hit, htk⟩

/-! ### worker threads -/

theorem lc_worker_frame (cfg : Cfg) (p : Bool) {s s' : State Val Err} (q : QId) {k : Nat}
    {w w' : Worker Val Err} (hk : s.wk[k]? = some w) (hctl : lc_Ctl s s') (hdisp : s'.disp = s.disp)
    (hwk : s'.wk = s.wk.set k w') (hwq : w'.q = w.q) (htk : wTookStop w'.pc = wTookStop w.pc)
    (hit : (getQ s' q).items = (getQ s q).items) : lc_EffS cfg p s s' q := by
  refine lc_effS_frame cfg p q (lc_phase_ctl cfg hctl q) hit ?_
  have := lc_wt_set s.wk q k w w' hk
  rw [hwq, htk] at this
  simp only [lc_took_eq, hctl.res, hdisp, hwk]
  omega

theorem lc_worker_get (cfg : Cfg) (p : Bool) {s s' : State Val Err} (q : QId) {k : Nat}
    {w w' : Worker Val Err} {it : Item Val} {rest : List (Item Val)}
    (hk : s.wk[k]? = some w) (hctl : lc_Ctl s s') (hdisp : s'.disp = s.disp)
    (hwk : s'.wk = s.wk.set k w') (hwq : w'.q = w.q)
    (hhead : (getQ s w.q).items = it :: rest)
    (hit : (getQ s' q).items = if w.q = q then rest else (getQ s q).items)
    (htk : wTookStop w.pc = false) (htk' : wTookStop w'.pc = isStop it) : lc_EffS cfg p s s' q := by
  have hwt := lc_wt_set s.wk q k w w' hk
  rw [hwq, htk, htk'] at hwt
  have hph := lc_phase_ctl cfg hctl q
  by_cases hwqq : w.q = q
  · subst hwqq
    simp only [if_true] at hit
    cases it with
    | task i vs =>
      refine Or.inr (Or.inl ⟨hph, ⟨i, vs, ?_⟩, ?_⟩)
      · rw [hhead, hit]
      · simp only [isStop, Bool.and_false] at hwt
        simp only [lc_took_eq, hctl.res, hdisp, hwk]
        simp at hwt
        omega
    | stop wt =>
      refine Or.inr (Or.inr (Or.inl ⟨hph, ⟨wt, ?_⟩, ?_⟩))
      · rw [hhead, hit]
      · simp only [isStop, Bool.and_false, Bool.and_true, beq_self_eq_true] at hwt
        simp only [lc_took_eq, hctl.res, hdisp, hwk]
        simp at hwt
        omega
  · simp only [hwqq, if_false] at hit
    refine lc_effS_frame cfg p q hph hit ?_
    have : (w.q == q) = false := by simpa using hwqq
    simp only [this, Bool.false_and] at hwt
    simp only [lc_took_eq, hctl.res, hdisp, hwk]
    simp at hwt
    omega

theorem lc_frame_gen (cfg : Cfg) (p : Bool) {s s' : State Val Err} (q : QId) (hctl : lc_Ctl s s')
    (hwt : lc_wt s'.wk q = lc_wt s.wk q) (hd : dTookStop s'.disp = dTookStop s.disp)
    (hit : (getQ s' q).items = (getQ s q).items) : lc_EffS cfg p s s' q := by
  refine lc_effS_frame cfg p q (lc_phase_ctl cfg hctl q) hit ?_
  simp only [lc_took_eq, hctl.res, hd, hwt]

theorem lc_threadEnded_noDead {s : State Val Err} (h : noDead s = true) (t : TId) (e : Err) :
    threadEnded s t ≠ some (some e) := by
  simp only [noDead, Bool.and_eq_true, List.all_eq_true] at h
  obtain ⟨⟨hw, hr⟩, hd⟩ := h
  cases t with
  | resolver =>
    simp only [threadEnded]
    split <;> simp_all
  | disp =>
    simp only [threadEnded]
    split <;> simp_all
  | worker k =>
    simp only [threadEnded]
    split
    · rename_i w hk
      have := hw w (List.mem_of_getElem? hk)
      split <;> simp_all [wDead]
    · simp

theorem lc_disp_get (cfg : Cfg) (p : Bool) {s s' : State Val Err} (q : QId)
    (hq : q = .outer ∨ q = .inner) {it : Item Val} {rest : List (Item Val)}
    (hctl : lc_Ctl s s') (hwk : s'.wk = s.wk) (hd : dTookStop s.disp = false)
    (hd' : dTookStop s'.disp = isStop it) (hqo : s'.qo = s.qo)
    (hhead : s.qi.items = it :: rest) (hqi : s'.qi.items = rest) : lc_EffS cfg p s s' q := by
  have hph := lc_phase_ctl cfg hctl q
  rcases hq with rfl | rfl
  · refine lc_effS_frame cfg p _ hph ?_ ?_
    · simp only [getQ, hqo]
    · simp [lc_took_eq, hctl.res, hwk]
  · cases it with
    | task i vs =>
      refine Or.inr (Or.inl ⟨hph, ⟨i, vs, ?_⟩, ?_⟩)
      · simp only [getQ, hhead, hqi]
      · simp [lc_took_eq, hwk, hd, hd', isStop]
    | stop wt =>
      refine Or.inr (Or.inr (Or.inl ⟨hph, ⟨wt, ?_⟩, ?_⟩))
      · simp only [getQ, hhead, hqi]
      · simp [lc_took_eq, hwk, hd, hd', isStop]

/-! ### phases -/

def lc_mainPh (s : State Val Err) : Phase :=
  match s.mainPc with
  | .inSd sd => sdPhase sd
  | .idle => if s.frontOpen then .opened else .closed

def lc_resPh (s : State Val Err) : Phase :=
  match s.res with
  | some (.inSd sd) => sdPhase sd
  | _ => if s.innerOpen then .opened else .closed

theorem lc_phaseOf_eq (cfg : Cfg) (s : State Val Err) (q : QId) :
    phaseOf cfg s q = if q == frontQ cfg then lc_mainPh s else lc_resPh s := rfl

theorem lc_frontQ_cases (cfg : Cfg) : frontQ cfg = .outer ∨ frontQ cfg = .inner := by
  unfold frontQ; split
  · left; rfl
  · right; rfl

theorem lc_eff_mono {p : Bool} {n : Nat} {ph ph' : Phase} {l l' : List (Item Val)} {t t' : Nat}
    (hp : p = true) (h : lc_Eff true n ph l t ph' l' t') : lc_Eff p n ph l t ph' l' t' := by
  subst hp; exact h

/-- A step of the user thread: an effect on the front queue, nothing on the other one. -/
theorem lc_effS_main (cfg : Cfg) (p : Bool) {s s' : State Val Err} (q fq : QId)
    (hf : frontQ cfg = fq) (hp : q = fq → p = true)
    (hwk : s'.wk = s.wk) (hres : s'.res = s.res) (hdisp : s'.disp = s.disp)
    (hio : s'.innerOpen = s.innerOpen)
    (hother : q ≠ fq → (getQ s' q).items = (getQ s q).items)
    (h : ∀ t, lc_Eff true (nConsumers cfg fq) (lc_mainPh s) (getQ s fq).items t
      (lc_mainPh s') (getQ s' fq).items t) : lc_EffS cfg p s s' q := by
  have htk : tookStops s' q = tookStops s q := by simp only [lc_took_eq, hwk, hres, hdisp]
  by_cases hqf : q = fq
  · subst hqf
    have := lc_eff_mono (hp rfl) (h (tookStops s q))
    simp only [lc_EffS, lc_phaseOf_eq, hf, beq_self_eq_true, if_true, htk]
    exact this
  · refine lc_effS_frame cfg p q ?_ (hother hqf) htk
    have : (q == frontQ cfg) = false := by rw [hf]; simpa using hqf
    simp [lc_phaseOf_eq, this, lc_resPh, hres, hio]

/-- A step of the resolver (so `cfg.resolver = true`): it is the consumer of the outer queue and
    the front end of the inner executor. -/
theorem lc_effS_res (cfg : Cfg) {s s' : State Val Err} (q : QId) (hq : q = .outer ∨ q = .inner)
    (hr : cfg.resolver = true)
    (hmain : s'.mainPc = s.mainPc) (hfo : s'.frontOpen = s.frontOpen)
    (hwk : s'.wk = s.wk) (hdisp : s'.disp = s.disp)
    (houter : (s'.qo.items = s.qo.items ∧ rTookStop s'.res = rTookStop s.res) ∨
      (∃ it, s.qo.items = it :: s'.qo.items ∧ rTookStop s.res = false ∧ rTookStop s'.res = isStop it))
    (hinner : ∀ t, lc_Eff true (nConsumers cfg .inner) (lc_resPh s) s.qi.items t
      (lc_resPh s') s'.qi.items t) : lc_EffS cfg true s s' q := by
  have hf : frontQ cfg = .outer := by simp [frontQ, hr]
  rcases hq with rfl | rfl
  · have hph : phaseOf cfg s' .outer = phaseOf cfg s .outer := by
      simp only [lc_phaseOf_eq, hf, beq_self_eq_true, if_true, lc_mainPh, hmain, hfo]
    rcases houter with ⟨h1, h2⟩ | ⟨it, h1, h2, h3⟩
    · refine lc_effS_frame cfg true _ hph ?_ ?_
      · simp only [getQ, h1]
      · simp only [lc_took_eq, hwk, hdisp, h2]
    · cases it with
      | task i vs =>
        refine Or.inr (Or.inl ⟨hph, ⟨i, vs, ?_⟩, ?_⟩)
        · simp only [getQ, h1]
        · simp [lc_took_eq, hwk, hdisp, h2, h3, isStop]
      | stop w =>
        refine Or.inr (Or.inr (Or.inl ⟨hph, ⟨w, ?_⟩, ?_⟩))
        · simp only [getQ, h1]
        · simp [lc_took_eq, hwk, hdisp, h2, h3, isStop]
  · have hne : (QId.inner == frontQ cfg) = false := by rw [hf]; rfl
    have htk : tookStops s' .inner = tookStops s .inner := by
      simp [lc_took_eq, hwk, hdisp]
    simp only [lc_EffS, lc_phaseOf_eq, hne, htk, getQ]
    exact hinner _

theorem lc_open_of_handle (cfg : Cfg) {s : State Val Err} (h : handleOk cfg s = true)
    (pc : RPc Val Err) (hpc : s.res = some pc)
    (hne : pc ≠ .stopAck ∧ pc ≠ .stopJoin ∧ pc ≠ .exited) : s.innerOpen = true := by
  simp only [handleOk, hpc, Bool.or_eq_true] at h
  rcases h with h | h
  · exact h
  · obtain ⟨h1, h2, h3⟩ := hne
    cases pc <;> simp_all

/-! ### the shutdown procedure -/

theorem lc_threads_len (cfg : Cfg) (q : QId) (hq : q = .outer ∨ q = .inner) :
    (threadsOf cfg q).length = nConsumers cfg q := by
  rcases hq with rfl | rfl
  · rfl
  · simp only [threadsOf, nConsumers]; cases cfg.block <;> simp

theorem lc_sdPhase_norm (cfg : Cfg) (sd : Sd) :
    sdPhase (sdNorm cfg sd) = (match sdPhase sd with
      | .putting 0 => .closed
      | ph => ph) := by
  obtain ⟨tg, w, pc⟩ := sd
  cases pc with
  | putStops k =>
    cases k with
    | zero =>
      cases w
      · simp [sdNorm, sdNormalize, sdPhase]
      · simp only [sdNorm, sdNormalize, sdPhase, if_true]
        cases threadsOf cfg tg <;> simp [sdNormalize, sdPhase]
    | succ k => simp [sdNorm, sdNormalize, sdPhase]
  | joinThreads ts => cases ts <;> simp [sdNorm, sdNormalize, sdPhase]
  | _ => simp [sdNorm, sdNormalize, sdPhase]

/-- phase of the executor after a step of its shutdown procedure returned `r` -/
def lc_rPh (cfg : Cfg) : Except Err (Option Sd) → Phase
  | .ok (some sd') => sdPhase (sdNorm cfg sd')
  | .ok none => .closed
  | .error _ => .opened

theorem lc_sdPhase_norm_pc (cfg : Cfg) (tg : QId) (w : Bool) (pc : SdPc) :
    sdPhase (sdNorm cfg { target := tg, wait := w, pc := pc })
      = (match pc with
        | .drain | .drainGot _ | .drainCancelled => .opened
        | .putStops k => if k = 0 then .closed else .putting k
        | _ => .closed) := by
  rw [lc_sdPhase_norm]
  cases pc with
  | putStops k => cases k <;> simp [sdPhase]
  | _ => simp [sdPhase]

theorem lc_rPh_pc (cfg : Cfg) (tg : QId) (w : Bool) (pc : SdPc) :
    lc_rPh (Err := Err) cfg (.ok (some { target := tg, wait := w, pc := pc }))
      = (match pc with
        | .drain | .drainGot _ | .drainCancelled => .opened
        | .putStops k => if k = 0 then .closed else .putting k
        | _ => .closed) := lc_sdPhase_norm_pc cfg tg w pc

section Threads
variable (cfg : Cfg) (eval : Nat → List Val → Except Err Val) (cancelErr : Err)

theorem lc_workerStep {s s' : State Val Err} {k : Nat} {l : Label Val Err}
    (h : workerStep eval s k l = some s') (p : Bool) (q : QId) (hq : q = .outer ∨ q = .inner) :
    lc_EffS cfg p s s' q := by
  unfold workerStep at h
  split at h
  · cases h
  rename_i w hk
  split_step h
  all_goals (simp only [Option.some.injEq] at h; subst h)
  all_goals (first
    | (apply lc_worker_frame cfg p q hk
       case hwk => first | rfl | (simp only [setWk_wk, setQ_wk, taskDone_wk, setFut_wk]; rfl)
       case hctl => constructor <;> simp
       case hdisp => simp
       case hwq => rfl
       case htk => simp_all [wTookStop]
       case hit =>
         first
         | (simp; done)
         | (simp [lc_items_taskDone _ _ _ hq]; done)
         | (rcases hq with rfl | rfl <;> rfl))
    | (apply lc_worker_get cfg p q hk
       case hwk => first | rfl | (simp only [setWk_wk, setQ_wk, taskDone_wk, setFut_wk]; rfl)
       case hhead => assumption
       case hctl => constructor <;> simp
       case hdisp => simp
       case hwq => rfl
       case htk => simp_all [wTookStop]
       case htk' => simp [wTookStop, isStop]
       case hit => simp [lc_getQ_setQ _ _ _ _ hq]; split <;> rfl))

theorem lc_dispStep {s s' : State Val Err} {l : Label Val Err} (hnd : noDead s = true)
    (h : dispStep cfg s l = some s') (p : Bool) (q : QId) (hq : q = .outer ∨ q = .inner) :
    lc_EffS cfg p s s' q := by
  unfold dispStep at h
  split at h
  · cases h
  rename_i pc hpc
  split_step h
  all_goals (simp only [Option.some.injEq] at h; subst h)
  all_goals (first
    | (exfalso; exact lc_threadEnded_noDead hnd _ _ (by assumption))
    | (apply lc_frame_gen cfg p q
       case hctl => constructor <;> simp
       case hwt => first | rfl | exact lc_wt_append_boot _ _ _ rfl
       case hd => simp [hpc, dTookStop]; try (split <;> rfl)
       case hit =>
         first
         | (simp [lc_items_taskDone _ _ _ hq]; done)
         | (rcases hq with rfl | rfl <;> rfl))
    | (apply lc_disp_get cfg p q hq
       case hhead => assumption
       case hctl => constructor <;> simp
       case hwk => rfl
       case hd => simp [hpc, dTookStop]
       case hd' => simp [dTookStop, isStop]
       case hqo => rfl
       case hqi => rfl)
    | skip)

theorem lc_sdStep_eff {s s1 : State Val Err} {sd : Sd} {l : Label Val Err} {r : Except Err (Option Sd)}
    (hnd : noDead s = true) (hq : sd.target = .outer ∨ sd.target = .inner) (t0 : Nat)
    (hS : lc_SO (nConsumers cfg sd.target) (sdPhase sd) (getQ s sd.target).items t0 = true)
    (h : sdStep cfg s sd l = some (s1, r)) :
    lc_Ctl s s1 ∧ s1.wk = s.wk ∧ s1.disp = s.disp ∧
    (∀ q, (q = .outer ∨ q = .inner) → q ≠ sd.target → (getQ s1 q).items = (getQ s q).items) ∧
    (∀ e, r ≠ .error e) ∧
    ∀ t, lc_Eff true (nConsumers cfg sd.target) (sdPhase sd) (getQ s sd.target).items t
      (lc_rPh cfg r) (getQ s1 sd.target).items t := by
  have hlen := lc_threads_len cfg sd.target hq
  obtain ⟨tg, w, pc⟩ := sd
  simp only at hq hS hlen ⊢
  unfold sdStep at h
  simp only at h
  rcases hq with rfl | rfl
  all_goals split_step h
  all_goals (simp only [Option.some.injEq, Prod.mk.injEq] at h; obtain ⟨h, hr⟩ := h; subst h; subst hr)
  all_goals (first
    | (exfalso; exact lc_threadEnded_noDead hnd _ _ (by assumption))
    | (exfalso; simp_all [lc_SO, sdPhase, lc_nst_stop, getQ]; done)
    | skip)
  all_goals (refine ⟨?_, ?_, ?_, ?_, ?_, ?_⟩)
  all_goals (first
    | (constructor <;> simp; done)
    | (simp; done)
    | (intro q hq' hne
       rcases hq' with rfl | rfl
       all_goals (first | (exact absurd rfl hne) | rfl | (simp [getQ, setQ, taskDone]; done)))
    | (intro t
       try simp only [getQ, setQ, taskDone, Queue.put] at *
       simp only [lc_rPh_pc, sdPhase, hlen, *]
       first
       | exact Or.inl ⟨rfl, rfl, rfl⟩
       | exact Or.inr (Or.inl ⟨rfl, ⟨_, _, rfl⟩, rfl⟩)
       | exact Or.inr (Or.inr (Or.inr ⟨rfl, Or.inr (Or.inl ⟨_, rfl, rfl, ⟨_, rfl⟩, rfl⟩)⟩))
       | exact Or.inr (Or.inr (Or.inr ⟨rfl, Or.inr (Or.inr ⟨rfl, rfl, rfl, rfl⟩)⟩)))
    | skip)

theorem lc_main_sd {s s' s1 : State Val Err} {sd : Sd} {l : Label Val Err}
    {r : Except Err (Option Sd)} (p : Bool) (q fq : QId) (hf : frontQ cfg = fq)
    (hfq : fq = .outer ∨ fq = .inner) (hp : q = fq → p = true) (hq : q = .outer ∨ q = .inner)
    (hnd : noDead s = true) (hjoin : ∀ sd, s.mainPc = .inSd sd → sd.target = fq)
    (hS : stopsOk cfg s fq = true) (hmain : s.mainPc = .inSd sd)
    (hsd : sdStep cfg s sd l = some (s1, r))
    (hwk : s'.wk = s1.wk) (hres : s'.res = s1.res) (hdisp : s'.disp = s1.disp)
    (hio : s'.innerOpen = s1.innerOpen) (hqo : s'.qo = s1.qo) (hqi : s'.qi = s1.qi)
    (hph : (∀ e, r ≠ .error e) → lc_mainPh s' = lc_rPh cfg r) : lc_EffS cfg p s s' q := by
  have ht := hjoin sd hmain
  have hm : lc_mainPh s = sdPhase sd := by simp [lc_mainPh, hmain]
  have hS' : lc_SO (nConsumers cfg sd.target) (sdPhase sd) (getQ s sd.target).items (tookStops s fq) = true := by
    rw [lc_stopsOk_eq, lc_phaseOf_eq, hf] at hS
    simpa [ht, hm] using hS
  have hE := lc_sdStep_eff cfg hnd (by rw [ht]; exact hfq) _ hS' hsd
  obtain ⟨hc, h1, h2, h3, h4, h5⟩ := hE
  have hitems : ∀ q', (q' = .outer ∨ q' = .inner) → (getQ s' q').items = (getQ s1 q').items := by
    intro q' hq'
    rcases hq' with rfl | rfl
    · simp only [getQ, hqo]
    · simp only [getQ, hqi]
  apply lc_effS_main cfg p q fq hf hp
  · rw [hwk, h1]
  · rw [hres, hc.res]
  · rw [hdisp, h2]
  · rw [hio, hc.innerOpen]
  · intro hne
    rw [hitems q hq]
    exact h3 q hq (by rw [ht]; exact hne)
  · intro t
    rw [hm, hph h4, hitems fq hfq, ← ht]
    exact h5 t

theorem lc_mainStep {s s' : State Val Err} {l : Label Val Err} (hnd : noDead s = true)
    (hjoin : ∀ sd, s.mainPc = .inSd sd → sd.target = frontQ cfg)
    (hS : stopsOk cfg s (frontQ cfg) = true)
    (h : mainStep cfg s l = some s') (p : Bool) (q : QId) (hq : q = .outer ∨ q = .inner)
    (hp : q = frontQ cfg → p = true) : lc_EffS cfg p s s' q := by
  unfold mainStep at h
  have hfc := lc_frontQ_cases cfg
  rcases lc_frontQ_cases cfg with hf | hf
  all_goals (rw [hf] at hfc; simp only [hf] at h hjoin hS hp)
  all_goals split_step h
  all_goals (simp only [Option.some.injEq] at h; subst h)
  all_goals (first
    | (apply lc_main_sd cfg p q _ hf hfc hp hq hnd hjoin hS
       case hmain => assumption
       case hsd => assumption
       case hwk => rfl
       case hres => rfl
       case hdisp => rfl
       case hio => rfl
       case hqo => rfl
       case hqi => rfl
       case hph => first | (intro _; rfl) | (intro hne; exact absurd rfl (hne _)))
    | (apply lc_effS_main cfg p q _ hf hp
       case hwk => first | rfl | (simp; done)
       case hres => first | rfl | (simp; done)
       case hdisp => first | rfl | (simp; done)
       case hio => first | rfl | (simp; done)
       case hother =>
         intro hne
         rcases hq with rfl | rfl <;> first | (exact absurd rfl hne) | rfl
       case h =>
         intro t
         try simp only [lc_mainPh, lc_sdPhase_norm_pc, lc_threads_len cfg _ (Or.inl rfl),
           lc_threads_len cfg _ (Or.inr rfl), setQ, getQ, setFut, Queue.put, if_true, *]
         first
         | exact Or.inl ⟨rfl, rfl, rfl⟩
         | exact Or.inr (Or.inr (Or.inr ⟨rfl, Or.inl ⟨rfl, rfl, ⟨_, _, rfl⟩, rfl⟩⟩))
         | exact Or.inr (Or.inr (Or.inr ⟨rfl, Or.inr (Or.inr ⟨rfl, rfl, rfl, rfl⟩)⟩)))
    | skip)

theorem lc_res_sd {s s' s1 : State Val Err} {sd : Sd} {l : Label Val Err}
    {r : Except Err (Option Sd)} (q : QId) (hq : q = .outer ∨ q = .inner)
    (hr : cfg.resolver = true)
    (hnd : noDead s = true) (hjoin : ∀ sd, s.res = some (.inSd sd) → sd.target = .inner)
    (hS : stopsOk cfg s .inner = true) (hres : s.res = some (.inSd sd))
    (hsd : sdStep cfg s sd l = some (s1, r))
    (hwk : s'.wk = s1.wk) (hmain : s'.mainPc = s1.mainPc) (hfo : s'.frontOpen = s1.frontOpen)
    (hdisp : s'.disp = s1.disp) (hqo : s'.qo = s1.qo) (hqi : s'.qi = s1.qi)
    (hts : (∀ e, r ≠ .error e) → rTookStop s'.res = true)
    (hph : (∀ e, r ≠ .error e) → lc_resPh s' = lc_rPh cfg r) : lc_EffS cfg true s s' q := by
  have ht := hjoin sd hres
  have hf : frontQ cfg = .outer := by simp [frontQ, hr]
  have hm : lc_resPh s = sdPhase sd := by simp [lc_resPh, hres]
  have hS' : lc_SO (nConsumers cfg sd.target) (sdPhase sd) (getQ s sd.target).items (tookStops s .inner) = true := by
    rw [lc_stopsOk_eq, lc_phaseOf_eq, hf] at hS
    have hne : (QId.inner == QId.outer) = false := rfl
    simpa [ht, hm, hne] using hS
  have hE := lc_sdStep_eff cfg hnd (by rw [ht]; exact Or.inr rfl) _ hS' hsd
  obtain ⟨hc, h1, h2, h3, h4, h5⟩ := hE
  apply lc_effS_res cfg q hq hr
  · rw [hmain, hc.mainPc]
  · rw [hfo, hc.frontOpen]
  · rw [hwk, h1]
  · rw [hdisp, h2]
  · left
    refine ⟨?_, ?_⟩
    · have := h3 .outer (Or.inl rfl) (by rw [ht]; intro h; cases h)
      simpa [getQ, hqo] using this
    · rw [hts h4, hres]; rfl
  · intro t
    have := h5 t
    rw [ht] at this
    rw [hm, hph h4, hqi]
    exact this

theorem lc_resStep {s s' : State Val Err} {l : Label Val Err} (hr : cfg.resolver = true)
    (hnd : noDead s = true) (hjoin : ∀ sd, s.res = some (.inSd sd) → sd.target = .inner)
    (hhandle : handleOk cfg s = true) (hS : stopsOk cfg s .inner = true)
    (h : resStep cfg cancelErr s l = some s') (q : QId) (hq : q = .outer ∨ q = .inner) :
    lc_EffS cfg true s s' q := by
  unfold resStep at h
  split at h
  · cases h
  rename_i pc hpc
  have hopen := lc_open_of_handle cfg hhandle pc hpc
  split_step h
  all_goals (simp only [Option.some.injEq] at h; subst h)
  all_goals (first
    | (apply lc_effS_res cfg q hq hr
       case hmain => first | rfl | (simp; done)
       case hfo => first | rfl | (simp; done)
       case hwk => first | rfl | (simp; done)
       case hdisp => first | rfl | (simp; done)
       case houter =>
         first
         | (left
            refine ⟨?_, ?_⟩
            all_goals (first | rfl | (simp [hpc, rTookStop, taskDone, getQ, setQ]; done)))
         | (right
            refine ⟨?_, ?_, ?_, ?_⟩
            rotate_left
            assumption
            focus (simp [hpc, rTookStop]; done)
            rfl)
       case hinner =>
         intro t
         simp only [lc_resPh, hpc, lc_sdPhase_norm_pc, lc_threads_len cfg _ (Or.inr rfl), Queue.put,
           taskDone, setQ, getQ, setFut]
         first
         | exact Or.inl ⟨rfl, rfl, rfl⟩
         | (have ho := hopen ⟨nofun, nofun, nofun⟩
            simp only [ho, if_true]
            first
            | exact Or.inl ⟨rfl, rfl, rfl⟩
            | exact Or.inr (Or.inr (Or.inr ⟨rfl, Or.inl ⟨rfl, rfl, ⟨_, _, rfl⟩, rfl⟩⟩))
            | exact Or.inr (Or.inr (Or.inr ⟨rfl, Or.inr (Or.inr ⟨rfl, rfl, rfl, rfl⟩)⟩))))
    | (apply lc_res_sd cfg q hq hr hnd hjoin hS
       case hres => assumption
       case hsd => assumption
       case hwk => rfl
       case hmain => rfl
       case hfo => rfl
       case hdisp => rfl
       case hqo => rfl
       case hqi => rfl
       case hts => first | (intro _; rfl) | (intro hne; exact absurd rfl (hne _))
       case hph => first | (intro _; rfl) | (intro hne; exact absurd rfl (hne _)))
    | (exfalso; simp_all; done)
    | skip)

theorem lc_res_enabled {s s' : State Val Err} {l : Label Val Err}
    (h : resStep cfg cancelErr s l = some s') : s.res.isSome = true := by
  unfold resStep at h
  split at h
  · cases h
  · rename_i pc hpc; simp [hpc]

/-- Every step has one of the listed effects on the outer and on the inner queue; puts happen
    only on the front queue and, with a resolver, on the inner queue. -/
theorem lc_step_eff {s s' : State Val Err} {l : Label Val Err} (hI : LiveInv cfg s)
    (h : step cfg eval cancelErr s l = some s') (q : QId) (hq : q = .outer ∨ q = .inner) :
    lc_EffS cfg (cfg.resolver || q == frontQ cfg) s s' q := by
  have hnd := hI.noDead
  have hjoin := hI.join
  simp only [joinOk, Bool.and_eq_true] at hjoin
  obtain ⟨⟨-, hjm⟩, hjr⟩ := hjoin
  have hjoinM : ∀ sd, s.mainPc = .inSd sd → sd.target = frontQ cfg := by
    intro sd hsd
    simpa [mainSd, hsd] using hjm
  have hjoinR : ∀ sd, s.res = some (.inSd sd) → sd.target = .inner := by
    intro sd hsd
    simp only [resSd, hsd, Bool.and_eq_true, beq_iff_eq] at hjr
    exact hjr.1
  have hSf : stopsOk cfg s (frontQ cfg) = true := by
    cases hr : cfg.resolver
    · have : frontQ cfg = .inner := by simp [frontQ, hr]
      rw [this]; exact hI.stopsInner
    · have : frontQ cfg = .outer := by simp [frontQ, hr]
      rw [this]; exact hI.stopsOuter hr
  unfold step at h
  split at h
  all_goals first
    | exact lc_mainStep cfg hnd hjoinM hSf h _ q hq (by intro hqf; simp [hqf])
    | exact lc_dispStep cfg hnd h _ q hq
    | exact lc_workerStep cfg eval h _ q hq
    | (have hr : cfg.resolver = true := by
         have h1 := lc_res_enabled cfg cancelErr h
         have h2 := hI.shape
         simp only [shapeOk, Bool.and_eq_true, beq_iff_eq] at h2
         rw [← h2.1]; exact h1
       rw [hr, Bool.true_or]
       exact lc_resStep cfg cancelErr hr hnd hjoinR hI.handle hI.stopsInner h q hq)

end Threads

/-! ### the theorems -/

section Final
variable (cfg : Cfg) (eval : Nat → List Val → Except Err Val) (cancelErr : Err)

theorem lc_wt_replicate (n : Nat) (w : Worker Val Err) (q : QId) (hw : wTookStop w.pc = false) :
    lc_wt (List.replicate n w) q = 0 := by
  simp [lc_wt, List.filter_replicate, hw]

theorem lc_took_init (script : List Cmd) (q : QId) :
    tookStops (init cfg script : State Val Err) q = 0 := by
  have hwk : lc_wt (init cfg script : State Val Err).wk q = 0 := by
    simp only [init]
    cases cfg.block with
    | none => rfl
    | some n => exact lc_wt_replicate n _ q rfl
  have hres : rTookStop (init cfg script : State Val Err).res = false := by
    simp only [init]; cases cfg.resolver <;> rfl
  have hdisp : dTookStop (init cfg script : State Val Err).disp = false := by
    simp only [init]; cases cfg.block <;> rfl
  simp [lc_took_eq, hwk, hres, hdisp]

theorem lc_phase_init (script : List Cmd) (q : QId) :
    phaseOf cfg (init cfg script : State Val Err) q = .opened := by
  simp only [lc_phaseOf_eq, lc_mainPh, lc_resPh, init]
  cases cfg.resolver <;> simp

theorem liveC_init (script : List Cmd) :
    (cfg.resolver = true → stopsOk cfg (init cfg script : State Val Err) .outer = true) ∧
    stopsOk cfg (init cfg script : State Val Err) .inner = true ∧
    orderOk (init cfg script : State Val Err) .outer = true ∧
    orderOk (init cfg script : State Val Err) .inner = true := by
  refine ⟨fun _ => ?_, ?_, ?_, ?_⟩
  · rw [lc_stopsOk_eq, lc_phase_init, lc_took_init]; rfl
  · rw [lc_stopsOk_eq, lc_phase_init, lc_took_init]; rfl
  · rw [lc_orderOk_eq, lc_took_init]; rfl
  · rw [lc_orderOk_eq, lc_took_init]; rfl

theorem liveC_step (hnf : NoFail eval) {s s' : State Val Err} {l : Label Val Err} (hC : Core s)
    (hI : LiveInv cfg s) (h : step cfg eval cancelErr s l = some s') :
    (cfg.resolver = true → stopsOk cfg s' .outer = true) ∧ stopsOk cfg s' .inner = true ∧
    orderOk s' .outer = true ∧ orderOk s' .inner = true := by
  have hO := lc_step_eff cfg eval cancelErr hI h .outer (Or.inl rfl)
  have hN := lc_step_eff cfg eval cancelErr hI h .inner (Or.inr rfl)
  have hoO := hI.orderOuter
  have hoN := hI.orderInner
  have hsN := hI.stopsInner
  rw [lc_orderOk_eq] at hoO hoN
  rw [lc_stopsOk_eq] at hsN
  simp only [lc_stopsOk_eq, lc_orderOk_eq]
  cases hr : cfg.resolver
  · have hf : frontQ cfg = .inner := by simp [frontQ, hr]
    have e1 : (QId.outer == QId.inner) = false := rfl
    simp only [hr, hf, Bool.false_or, e1, beq_self_eq_true] at hO hN
    have h1 := lc_eff_order hO hoO
    have h2 := lc_eff_ok hN hsN hoN
    exact ⟨fun hc => (by cases hc), h2.1, h1, h2.2⟩
  · simp only [hr, Bool.true_or] at hO hN
    have hsO := hI.stopsOuter hr
    rw [lc_stopsOk_eq] at hsO
    have h1 := lc_eff_ok hO hsO hoO
    have h2 := lc_eff_ok hN hsN hoN
    exact ⟨fun _ => h1.1, h2.1, h1.2, h2.2⟩

end Final

end ExecModel.Sys
