import ExecModel.Proofs.SysDefs
/-!
  Definitions for the value-level theorems about `Sys` (C01, C03, C04): the specification
  "sequential evaluation" and the invariant tying every forwarded task to the values of its inputs.
-/
namespace ExecModel.Sys

variable {Val Err : Type}

/-- Collect the values of the inputs `js` under a partial valuation `f` (all must be defined). -/
def seqInputs (f : Nat → Option Val) : List Nat → Option (List Val)
  | [] => some []
  | j :: js => match f j, seqInputs f js with
    | some v, some vs => some (v :: vs)
    | _, _ => none

/-- SPEC (DESIGN E.4): sequential evaluation of call `i` in dependency order; `none` when the call
    or one of its (transitive) inputs fails.  `fuel` bounds the recursion depth; `i + 1` suffices
    for a well-formed case because inputs have smaller indices. -/
def seqEval (cfg : Cfg) (eval : Nat → List Val → Except Err Val) : Nat → Nat → Option Val
  | 0, _ => none
  | fuel + 1, i =>
    match seqInputs (seqEval cfg eval fuel) (depsOf cfg i) with
    | some vs => (match eval i vs with
      | .ok v => some v
      | .error _ => none)
    | none => none

def itemOk (cfg : Cfg) (s : State Val Err) : Item Val → Prop
  | .task i vs => inputsOf s (depsOf cfg i) = some vs
  | .stop _ => True

def wpcOk (cfg : Cfg) (eval : Nat → List Val → Except Err Val) (s : State Val Err) : WPc Val Err → Prop
  | .gotTask i vs | .toSend i vs | .sent i vs => inputsOf s (depsOf cfg i) = some vs
  | .failB i e | .failC i e => ∃ vs, inputsOf s (depsOf cfg i) = some vs ∧ eval i vs = .error e
  | _ => True

/-- A future failed for one of the two legitimate reasons: its own call raised `e` on the values of
    its inputs, or an input failed / was cancelled and `e` is the first such failure. -/
def FailedFor (cfg : Cfg) (eval : Nat → List Val → Except Err Val) (cancelErr : Err)
    (s : State Val Err) (i : Nat) (e : Err) : Prop :=
  (∃ vs, inputsOf s (depsOf cfg i) = some vs ∧ eval i vs = .error e) ∨
  (allDone s (depsOf cfg i) = true ∧ inputsOf s (depsOf cfg i) = none ∧
    firstFailure cancelErr s (depsOf cfg i) = some e)

structure ValInv (cfg : Cfg) (eval : Nat → List Val → Except Err Val) (cancelErr : Err)
    (s : State Val Err) : Prop where
  qi : ∀ it ∈ s.qi.items, itemOk cfg s it
  qp : ∀ q ∈ s.qp, ∀ it ∈ q.items, itemOk cfg s it
  disp : ∀ (i : Nat) (vs : List Val) (r : Nat), s.disp = some (.waitSlots i vs r) →
    inputsOf s (depsOf cfg i) = some vs
  wk : ∀ (k : Nat) (w : Worker Val Err), s.wk[k]? = some w → wpcOk cfg eval s w.pc
  ready : ∀ (i : Nat), s.res = some (.ready i) → allDone s (depsOf cfg i) = true
  failing : ∀ (i : Nat) (e : Err) (r : RRet), s.res = some (.failing i e r) →
    allDone s (depsOf cfg i) = true ∧ inputsOf s (depsOf cfg i) = none ∧
      firstFailure cancelErr s (depsOf cfg i) = some e
  sent : ∀ i ∈ s.sentLog, ∃ vs, inputsOf s (depsOf cfg i) = some vs
  finished : ∀ (i : Nat) (v : Val), futOf s i = .finished v →
    ∃ vs, inputsOf s (depsOf cfg i) = some vs ∧ eval i vs = .ok v
  failed : ∀ (i : Nat) (e : Err), futOf s i = .failed e → FailedFor cfg eval cancelErr s i e

end ExecModel.Sys
