import ExecModel.Proofs.SysLiveDefs
import ExecModel.Proofs.SysRun
/-!
  Unpacking of the executable invariant `liveInv` into its conjuncts.
-/
namespace ExecModel.Sys

variable {Val Err : Type}

structure LiveInv (cfg : Cfg) (s : State Val Err) : Prop where
  len : lenOk cfg s = true
  noDead : noDead s = true
  shape : shapeOk cfg s = true
  counterOuter : counterOk s .outer = true
  counterInner : counterOk s .inner = true
  stopsOuter : cfg.resolver = true → stopsOk cfg s .outer = true
  stopsInner : stopsOk cfg s .inner = true
  orderOuter : orderOk s .outer = true
  orderInner : orderOk s .inner = true
  priv : privOk s = true
  tokenState : tokenStateOk s = true
  coverage : coverageOk s = true
  ready : readyOk cfg s = true
  join : joinOk cfg s = true
  handle : handleOk cfg s = true

theorem liveInv_iff (cfg : Cfg) (s : State Val Err) : liveInv cfg s = true ↔ LiveInv cfg s := by
  constructor
  · intro h
    simp only [liveInv, liveInvList, List.all_cons, List.all_nil, Bool.and_true, Bool.and_eq_true,
      Bool.or_eq_true, Bool.not_eq_true'] at h
    obtain ⟨h1, h2, h3, h4, h5, h6, h7, h8, h9, h10, h11, h12, h13, h14, h15⟩ := h
    refine ⟨h1, h2, h3, h4, h5, ?_, h7, h8, h9, h10, h11, h12, h13, h14, h15⟩
    intro hr
    rcases h6 with h6 | h6
    · rw [hr] at h6; cases h6
    · exact h6
  · intro h
    simp only [liveInv, liveInvList, List.all_cons, List.all_nil, Bool.and_true, Bool.and_eq_true,
      Bool.or_eq_true, Bool.not_eq_true']
    refine ⟨h.len, h.noDead, h.shape, h.counterOuter, h.counterInner, ?_, h.stopsInner, h.orderOuter,
      h.orderInner, h.priv, h.tokenState, h.coverage, h.ready, h.join, h.handle⟩
    cases hr : cfg.resolver
    · left; rfl
    · right; exact h.stopsOuter hr

end ExecModel.Sys
