import ExecModel.Proofs.SysLiveBasic
/-!
  Termination of `Sys`: a natural-number measure `mu` that every step strictly decreases, hence
  every run from the initial state has length at most `mu cfg (init cfg script)`.
  Holds for every `eval` (failing calls included); needs no invariant at all (`TermInv` is `True`):
  the dispatcher's joins of the per-call threads are paid by the dispatcher's own rank, which
  carries `s.wk.length` as long as the dispatcher has not yet received its stop message.
-/
set_option linter.unusedSimpArgs false
set_option linter.unusedVariables false
namespace ExecModel.Sys

variable {Val Err : Type}

/-! ### the measure -/

/-- rank of a task item, by the queue it sits in: it pays for the whole remaining journey -/
def tm_tr : QId → Nat
  | .outer => 23
  | .inner => 16
  | .priv _ => 6

/-- rank of a queue item (a stop item pays for the shutdown steps of its consumer) -/
def tm_ir (q : QId) : Item Val → Nat
  | .task _ _ => tm_tr q
  | .stop _ => 4

def tm_qr (q : QId) (Q : Queue Val) : Nat := (Q.items.map (tm_ir q)).sum

/-- total rank of all queue items -/
def tm_qs (s : State Val Err) : Nat :=
  tm_qr .outer s.qo + tm_qr .inner s.qi + (s.qp.map (tm_qr (.priv 0))).sum

/-- rank of a worker thread -/
def tm_wr (w : Worker Val Err) : Nat :=
  match w.pc with
  | .boot => 1
  | .idle => 0
  | .gotTask _ _ => 5
  | .toSend _ _ => 4
  | .sent _ _ => 3
  | .toAck => 1
  | .failB _ _ => 2
  | .failC _ _ => 1
  | .dead _ => 0
  | .gotStop _ => 3
  | .stopAck => 2
  | .stopJoin => 1
  | .exited => 0

/-- cost of the `putStops` stage (and everything after it) of a shutdown of queue `q` -/
def tm_P (cfg : Cfg) (q : QId) : Nat := 6 * (threadsOf cfg q).length + 3

/-- rank of a state of the shutdown procedure -/
def tm_sd (cfg : Cfg) (sd : Sd) : Nat :=
  match sd.pc with
  | .drain => tm_P cfg sd.target + 1
  | .drainGot _ => tm_P cfg sd.target + 3
  | .drainCancelled => tm_P cfg sd.target + 2
  | .putStops k => 5 * k + (threadsOf cfg sd.target).length + 3
  | .joinThreads ts => ts.length + 2
  | .joinQueue => 1
  | .finish => 0

def tm_mr (cfg : Cfg) : MainPc → Nat
  | .idle => 0
  | .inSd sd => tm_sd cfg sd + 1

/-- rank of the resolver -/
def tm_rr (cfg : Cfg) : Option (RPc Val Err) → Nat
  | none => 0
  | some .poll => tm_P cfg .inner + 5
  | some (.gotTask _) => tm_P cfg .inner + 27
  | some (.ready _) => tm_P cfg .inner + 24
  | some .needAck => tm_P cfg .inner + 6
  | some (.failing _ _ .needAck) => tm_P cfg .inner + 7
  | some (.failing _ _ .poll) => tm_P cfg .inner + 6
  | some (.failing _ _ (.stopping _)) => tm_P cfg .inner + 5
  | some (.stopping _) => tm_P cfg .inner + 4
  | some (.inSd sd) => tm_sd cfg sd + 3
  | some .stopAck => 2
  | some .stopJoin => 1
  | some .exited => 0
  | some (.dead _) => 0

/-- rank of the dispatcher; `n` is the number of per-call threads launched so far, which the
    dispatcher will have to join when it receives its stop message -/
def tm_dr (n : Nat) : Option (DPc Val Err) → Nat
  | none => 0
  | some .idle => n + 3
  | some (.waitSlots _ _ _) => n + 18
  | some .needAck => n + 4
  | some (.stopping ts) => ts.length + 2
  | some .stopAck => 2
  | some .stopJoin => 1
  | some .exited => 0
  | some (.dead _) => 0

/-- weight of one script command -/
def tm_W (cfg : Cfg) : Nat := tm_P cfg .outer + tm_P cfg .inner + 30

/-- The termination measure. -/
def mu (cfg : Cfg) (s : State Val Err) : Nat :=
  tm_W cfg * s.script.length + tm_mr cfg s.mainPc + tm_qs s + tm_rr cfg s.res
    + 18 * s.waitLst.length + tm_dr s.wk.length s.disp + s.active.length + (s.wk.map tm_wr).sum

/-- No invariant is needed for the measure to decrease. -/
def TermInv (cfg : Cfg) (s : State Val Err) : Prop := True

/-! ### arithmetic of the state updates -/

theorem tm_tr_ge (q : QId) : 6 ≤ tm_tr q := by cases q <;> simp [tm_tr]

theorem tm_tr_le (q : QId) : tm_tr q ≤ 23 := by cases q <;> simp [tm_tr]

theorem tm_qr_priv (i : Nat) (Q : Queue Val) : tm_qr (.priv i) Q = tm_qr (.priv 0) Q := rfl

theorem tm_qr_put (q : QId) (Q : Queue Val) (it : Item Val) :
    tm_qr q (Q.put it) = tm_qr q Q + tm_ir q it := by
  simp [tm_qr, Queue.put]

theorem tm_qp_set_le (qp : List (Queue Val)) (j : Nat) (v : Queue Val) :
    ((qp.set j v).map (tm_qr (.priv 0))).sum + tm_qr (.priv 0) (qp.getD j {})
      ≤ (qp.map (tm_qr (.priv 0))).sum + tm_qr (.priv 0) v := by
  cases h : qp[j]? with
  | some a =>
    have := sum_map_set (tm_qr (.priv 0)) qp j a v h
    simp only [List.getD_eq_getElem?_getD, h, Option.getD_some]; omega
  | none =>
    have hl : qp.length ≤ j := by simpa using h
    rw [List.set_eq_of_length_le hl]
    simp [List.getD_eq_getElem?_getD, h, tm_qr]

theorem tm_qs_setQ_le (s : State Val Err) (q : QId) (v : Queue Val) :
    tm_qs (setQ s q v) + tm_qr q (getQ s q) ≤ tm_qs s + tm_qr q v := by
  cases q with
  | outer => simp only [tm_qs, setQ, getQ]; omega
  | inner => simp only [tm_qs, setQ, getQ]; omega
  | priv j =>
    have := tm_qp_set_le s.qp j v
    simp only [tm_qs, setQ, getQ, tm_qr_priv j]; omega

theorem tm_mu_setQ_le (cfg : Cfg) (s : State Val Err) (q : QId) (v : Queue Val) :
    mu cfg (setQ s q v) + tm_qr q (getQ s q) ≤ mu cfg s + tm_qr q v := by
  have := tm_qs_setQ_le s q v
  simp only [mu, setQ_script, setQ_mainPc, setQ_res, setQ_waitLst, setQ_disp, setQ_active, setQ_wk]
  omega

theorem tm_mu_put_le (cfg : Cfg) (s : State Val Err) (q : QId) (it : Item Val) :
    mu cfg (setQ s q ((getQ s q).put it)) ≤ mu cfg s + tm_ir q it := by
  have := tm_mu_setQ_le cfg s q ((getQ s q).put it)
  rw [tm_qr_put] at this
  omega

theorem tm_mu_taskDone_le (cfg : Cfg) (s : State Val Err) (q : QId) : mu cfg (taskDone s q) ≤ mu cfg s := by
  have := tm_mu_setQ_le cfg s q { getQ s q with unfin := (getQ s q).unfin - 1 }
  simp only [taskDone]
  simp only [tm_qr] at this ⊢
  omega

theorem tm_mu_setFut (cfg : Cfg) (s : State Val Err) (j : Nat) (f : Fut Val Err) :
    mu cfg (setFut s j f) = mu cfg s := rfl

theorem tm_mu_setWk (cfg : Cfg) {S : State Val Err} {k : Nat} {w : Worker Val Err} (w' : Worker Val Err)
    (hk : S.wk[k]? = some w) : mu cfg (setWk S k w') = mu cfg S + tm_wr w' - tm_wr w := by
  have := sum_map_set tm_wr S.wk k w w' hk
  simp only [mu, tm_qs, setWk, List.length_set]; omega

theorem tm_length_eraseIdx {α : Type} (l : List α) (k : Nat) (a : α) (h : l[k]? = some a) :
    (l.eraseIdx k).length + 1 = l.length := by
  have hk : k < l.length := by
    rcases Nat.lt_or_ge k l.length with h1 | h1
    · exact h1
    · simp [List.getElem?_eq_none h1] at h
  rw [List.length_eraseIdx]; simp [hk]; omega

section
variable (cfg : Cfg) (eval : Nat → List Val → Except Err Val) (cancelErr : Err)

/-! ### worker threads -/

theorem tm_workerStep {s s' : State Val Err} {k : Nat} {l : Label Val Err}
    (h : workerStep eval s k l = some s') : mu cfg s' < mu cfg s := by
  unfold workerStep at h
  cases hk : s.wk[k]? with
  | none => simp [hk] at h
  | some w =>
    simp only [hk] at h
    have hQ := fun v => tm_mu_setQ_le cfg s w.q v
    have hT := tm_mu_taskDone_le cfg s w.q
    have hR := tm_tr_ge w.q
    have hge : tm_wr w ≤ mu cfg s := by
      have := sum_map_ge tm_wr s.wk k w hk
      simp only [mu]; omega
    split_step h
    all_goals (simp only [Option.some.injEq] at h; subst h)
    all_goals (first | rw [tm_mu_setWk cfg (w := w)] | (show mu cfg (setWk s k _) < _; rw [tm_mu_setWk cfg (w := w)]))
    all_goals (first | (simpa using hk) | skip)
    all_goals grind [tm_wr, tm_qr, tm_ir, tm_tr, tm_mu_setFut]

/-! ### the shutdown procedure -/

/-- rank carried by the result of a step of the shutdown procedure -/
def tm_sdRes (cfg : Cfg) : Except Err (Option Sd) → Nat
  | .ok (some sd') => tm_sd cfg sd' + 1
  | _ => 0

theorem tm_sd_sdNormalize (sd : Sd) : tm_sd cfg (sdNormalize cfg sd) ≤ tm_sd cfg sd := by
  unfold sdNormalize
  split <;> (try split) <;> simp_all [tm_sd] <;> omega

theorem tm_sd_sdNorm (sd : Sd) : tm_sd cfg (sdNorm cfg sd) ≤ tm_sd cfg sd := by
  unfold sdNorm
  exact Nat.le_trans (tm_sd_sdNormalize cfg _) (tm_sd_sdNormalize cfg _)

theorem tm_sdStep {s s' : State Val Err} {sd : Sd} {l : Label Val Err} {r : Except Err (Option Sd)}
    (h : sdStep cfg s sd l = some (s', r)) :
    mu cfg s' + tm_sdRes cfg r ≤ mu cfg s + tm_sd cfg sd ∧ s'.mainPc = s.mainPc ∧ s'.res = s.res := by
  have hQ := fun v => tm_mu_setQ_le cfg s sd.target v
  have hT := tm_mu_taskDone_le cfg s sd.target
  have hR := tm_tr_ge sd.target
  unfold sdStep at h
  split_step h
  all_goals (simp only [Option.some.injEq, Prod.mk.injEq] at h; obtain ⟨h1, h2⟩ := h; subst h1; subst h2)
  all_goals (first
    | grind [tm_sdRes, tm_sd, tm_P, tm_qr, tm_ir, tm_tr, tm_mu_setFut, tm_qr_put, mainPc_setQ, res_setQ,
        mainPc_taskDone, res_taskDone]
    | (refine ⟨?_, rfl, rfl⟩; show mu cfg s + _ ≤ _; simp [tm_sdRes, tm_sd, *]))

/-! ### the user thread -/

theorem tm_mainSd {s s' : State Val Err} {sd : Sd} {l : Label Val Err} (hm : s.mainPc = .inSd sd)
    (h : (match sdStep cfg s sd l with
      | some (s', .ok (some sd')) => some { s' with mainPc := .inSd (sdNorm cfg sd') }
      | some (s', .ok none) => some { s' with mainPc := .idle, frontOpen := false }
      | some (s', .error _) => some { s' with mainPc := .idle, raised := s'.raised + 1 }
      | none => none) = some s') : mu cfg s' < mu cfg s := by
  cases hsd : sdStep cfg s sd l with
  | none => simp [hsd] at h
  | some p =>
    obtain ⟨s1, r⟩ := p
    obtain ⟨h1, h2, h3⟩ := tm_sdStep cfg hsd
    rw [hm] at h2
    have hn := tm_sd_sdNorm cfg
    rw [hsd] at h
    cases r with
    | error e =>
      simp only [Option.some.injEq] at h; subst h
      simp only [mu, tm_qs, tm_mr, tm_sdRes, hm, h2] at h1 ⊢
      omega
    | ok o =>
      cases o with
      | none =>
        simp only [Option.some.injEq] at h; subst h
        simp only [mu, tm_qs, tm_mr, tm_sdRes, hm, h2] at h1 ⊢
        omega
      | some sd' =>
        simp only [Option.some.injEq] at h; subst h
        have := hn sd'
        simp only [mu, tm_qs, tm_mr, tm_sdRes, hm, h2] at h1 ⊢
        omega

theorem tm_sdBegin (q : QId) (w c : Bool) :
    tm_sd cfg (sdNorm cfg { target := q, wait := w, pc := if c = true then SdPc.drain else SdPc.putStops (threadsOf cfg q).length })
      ≤ tm_P cfg q + 1 := by
  refine Nat.le_trans (tm_sd_sdNorm cfg _) ?_
  cases c <;> simp [tm_sd, tm_P] <;> omega

theorem tm_P_front : tm_P cfg (frontQ cfg) ≤ tm_P cfg .outer + tm_P cfg .inner := by
  unfold frontQ; split <;> omega

theorem tm_mu_sdBegin (s : State Val Err) (rest : List Cmd) (w c : Bool)
    (hs : s.script = .shutdown w c :: rest) (hm : s.mainPc = .idle) :
    mu cfg { s with script := rest, mainPc := .inSd (sdNorm cfg { target := frontQ cfg, wait := w, pc := if c = true then SdPc.drain else SdPc.putStops (threadsOf cfg (frontQ cfg)).length }) }
      < mu cfg s := by
  have h1 := tm_sdBegin cfg (frontQ cfg) w c
  have h2 := tm_P_front cfg
  have hW : tm_W cfg = tm_P cfg .outer + tm_P cfg .inner + 30 := rfl
  simp only [mu, tm_qs, tm_mr, List.length_cons, Nat.mul_succ, hs, hm]
  omega

theorem tm_mainStep {s s' : State Val Err} {l : Label Val Err}
    (h : mainStep cfg s l = some s') : mu cfg s' < mu cfg s := by
  unfold mainStep at h
  have hW : tm_W cfg = tm_P cfg .outer + tm_P cfg .inner + 30 := rfl
  split at h
  · -- mSubmit
    split_step h
    all_goals (simp only [Option.some.injEq] at h; subst h)
    refine Nat.lt_of_le_of_lt (tm_mu_put_le cfg _ _ _) ?_
    have := tm_tr_le (frontQ cfg)
    simp only [mu, tm_qs, tm_mr, tm_ir, List.length_cons, Nat.mul_succ, setFut, *]; omega
  · -- mSubmitRaise
    split_step h
    all_goals (simp only [Option.some.injEq] at h; subst h)
    all_goals (simp only [mu, tm_qs, tm_mr, List.length_cons, Nat.mul_succ, *]; omega)
  · -- mCancel
    split_step h
    all_goals (simp only [Option.some.injEq] at h; subst h)
    all_goals (simp only [mu, tm_qs, tm_mr, List.length_cons, Nat.mul_succ, setFut, *]; omega)
  · -- mAwait
    split_step h
    all_goals (simp only [Option.some.injEq] at h; subst h)
    all_goals (simp only [mu, tm_qs, tm_mr, List.length_cons, Nat.mul_succ, *]; omega)
  · -- mSdBegin
    split at h
    · split at h
      all_goals (simp only [Option.some.injEq] at h; subst h)
      · apply tm_mu_sdBegin <;> assumption
      · simp only [mu, tm_qs, tm_mr, List.length_cons, Nat.mul_succ, *]; omega
    · cases h
  · split at h
    all_goals first
      | (refine tm_mainSd cfg ?_ h; assumption)
      | cases h
  · cases h

/-! ### the resolver -/

theorem tm_resSd {s s' : State Val Err} {sd : Sd} {l : Label Val Err} (hm : s.res = some (.inSd sd))
    (h : (match sdStep cfg s sd l with
      | some (s', .ok (some sd')) => some { s' with res := some (.inSd (sdNorm cfg sd')) }
      | some (s', .ok none) => some { s' with res := some .stopAck, innerOpen := false }
      | some (s', .error e) => some { s' with res := some (.dead e) }
      | none => none) = some s') : mu cfg s' < mu cfg s := by
  cases hsd : sdStep cfg s sd l with
  | none => simp [hsd] at h
  | some p =>
    obtain ⟨s1, r⟩ := p
    obtain ⟨h1, h2, h3⟩ := tm_sdStep cfg hsd
    rw [hm] at h3
    have hn := tm_sd_sdNorm cfg
    rw [hsd] at h
    cases r with
    | error e =>
      simp only [Option.some.injEq] at h; subst h
      simp only [mu, tm_qs, tm_rr, tm_sdRes, hm, h3] at h1 ⊢
      omega
    | ok o =>
      cases o with
      | none =>
        simp only [Option.some.injEq] at h; subst h
        simp only [mu, tm_qs, tm_rr, tm_sdRes, hm, h3] at h1 ⊢
        omega
      | some sd' =>
        simp only [Option.some.injEq] at h; subst h
        have := hn sd'
        simp only [mu, tm_qs, tm_rr, tm_sdRes, hm, h3] at h1 ⊢
        omega

theorem tm_mu_rBeginSd (s : State Val Err) (w w' : Bool) (hr : s.res = some (.stopping w')) :
    mu cfg { s with res := some (.inSd (sdNorm cfg { target := .inner, wait := w, pc := .putStops (threadsOf cfg .inner).length })) }
      < mu cfg s := by
  have h1 := tm_sd_sdNorm cfg { target := .inner, wait := w, pc := .putStops (threadsOf cfg .inner).length }
  simp only [mu, tm_qs, tm_rr, hr]
  simp only [tm_sd, tm_P] at h1 ⊢
  omega

theorem tm_resStep {s s' : State Val Err} {l : Label Val Err}
    (h : resStep cfg cancelErr s l = some s') : mu cfg s' < mu cfg s := by
  unfold resStep at h
  split at h
  · cases h
  split at h
  · -- rGet
    split_step h
    all_goals (simp only [Option.some.injEq] at h; subst h)
    all_goals (simp [mu, tm_qs, tm_rr, tm_qr, tm_ir, tm_tr, *] <;> omega)
  iterate 6
    · split_step h
      all_goals (simp only [Option.some.injEq] at h; subst h)
      all_goals (simp [mu, tm_qs, tm_rr, tm_qr, tm_ir, tm_tr, setFut, taskDone, setQ, getQ, Queue.put, *] <;> omega)
  iterate 4
    · split_step h
      all_goals (simp only [Option.some.injEq] at h; subst h)
      all_goals (have hw := tm_length_eraseIdx s.waitLst _ _ ‹s.waitLst[_]? = some _›)
      all_goals (simp [mu, tm_qs, tm_rr, tm_qr, tm_ir, tm_tr, setFut, Queue.put, *] <;> omega)
  · -- rBeginSd
    split_step h
    all_goals (simp only [Option.some.injEq] at h; subst h)
    · apply tm_mu_rBeginSd; assumption
    · simp [mu, tm_qs, tm_rr, tm_P, *] <;> omega
  · split at h
    all_goals first
      | (refine tm_resSd cfg ?_ h; assumption)
      | cases h
  iterate 2
    · split_step h
      all_goals (simp only [Option.some.injEq] at h; subst h)
      all_goals (simp [mu, tm_qs, tm_rr, tm_qr, tm_ir, tm_tr, setFut, taskDone, setQ, getQ, Queue.put, *] <;> omega)
  · cases h

/-! ### the dispatcher -/

theorem tm_mu_dLaunch (s : State Val Err) (i req : Nat) (vs : List Val) (wkOf' : List (Option Nat))
    (w : Worker Val Err) (hw : w.pc = .boot) {i0 r0 : Nat} {vs0 : List Val}
    (hd : s.disp = some (.waitSlots i0 vs0 r0)) :
    mu cfg { s with active := s.active ++ [(i, req)],
                    qp := s.qp.set i { items := [.task i vs, .stop true], unfin := 2 },
                    wk := s.wk ++ [w], wkOf := wkOf', disp := some .needAck } < mu cfg s := by
  have hq := tm_qp_set_le s.qp i { items := [.task i vs, .stop true], unfin := 2 }
  simp [mu, tm_qs, tm_dr, tm_qr, tm_ir, tm_tr, tm_wr, hd, hw] at hq ⊢
  omega

theorem tm_dispStep {s s' : State Val Err} {l : Label Val Err}
    (h : dispStep cfg s l = some s') : mu cfg s' < mu cfg s := by
  unfold dispStep at h
  split at h
  · cases h
  split at h
  · -- dGet
    split_step h
    all_goals (simp only [Option.some.injEq] at h; subst h)
    all_goals (simp [mu, tm_qs, tm_dr, tm_qr, tm_ir, tm_tr, *] <;> omega)
  · -- dPrune
    split_step h
    all_goals (simp only [Option.some.injEq] at h; subst h)
    all_goals (have hw := tm_length_eraseIdx s.active _ _ ‹s.active[_]? = some _›)
    all_goals (simp [mu, tm_qs, tm_dr, *] <;> omega)
  · -- dLaunch
    split_step h
    all_goals (simp only [Option.some.injEq] at h; subst h)
    apply tm_mu_dLaunch cfg s _ _ _ _ _ rfl
    assumption
  · -- dAck
    split_step h
    all_goals (simp only [Option.some.injEq] at h; subst h)
    all_goals (simp [mu, tm_qs, tm_dr, tm_qr, taskDone, setQ, getQ, *] <;> omega)
  iterate 4
    · split_step h
      all_goals (simp only [Option.some.injEq] at h; subst h)
      all_goals (simp [mu, tm_qs, tm_dr, tm_qr, taskDone, setQ, getQ, *] <;> omega)
  · cases h

/-! ### every step decreases the measure; every run is finite -/

theorem termInv_init (script : List Cmd) : TermInv cfg (init cfg script : State Val Err) := trivial

theorem termInv_step {s s' : State Val Err} {l : Label Val Err} (hC : Core s) (hT : TermInv cfg s)
    (h : step cfg eval cancelErr s l = some s') : TermInv cfg s' := trivial

/-- Every step strictly decreases the measure (for every `eval`: failing calls included). -/
theorem step_mu {s s' : State Val Err} {l : Label Val Err} (hC : Core s) (hT : TermInv cfg s)
    (h : step cfg eval cancelErr s l = some s') : mu cfg s' < mu cfg s := by
  unfold step at h
  split at h
  all_goals first
    | exact tm_mainStep cfg h
    | exact tm_resStep cfg cancelErr h
    | exact tm_dispStep cfg h
    | exact tm_workerStep cfg eval h

/-- Along any run from any state the measure pays for every label. -/
theorem tm_run_le {s0 s : State Val Err} (ls : List (Label Val Err)) (hC : Core s0)
    (h : run cfg eval cancelErr s0 ls = some s) : ls.length + mu cfg s ≤ mu cfg s0 := by
  induction ls generalizing s0 with
  | nil => simp [run] at h; subst h; simp
  | cons l ls ih =>
    simp only [run, Option.bind_eq_some_iff] at h
    obtain ⟨s1, h1, h2⟩ := h
    have hC1 := core_step cfg eval cancelErr hC h1
    have hlt := step_mu cfg eval cancelErr hC trivial h1
    have := ih hC1 h2
    simp only [List.length_cons]
    omega

/-- every run from the initial state is finite: its length is bounded by the measure of the initial state -/
theorem run_length_le {script : List Cmd} {s : State Val Err} (ls : List (Label Val Err))
    (h : run cfg eval cancelErr (init cfg script) ls = some s) :
    ls.length + mu cfg s ≤ mu cfg (init cfg script : State Val Err) :=
  tm_run_le cfg eval cancelErr ls (core_init cfg script) h

/-- The bound in closed form: at most `tm_W cfg` steps per script command plus the ranks of the
    threads of the initial state. -/
theorem tm_mu_init (script : List Cmd) :
    mu cfg (init cfg script : State Val Err) =
      tm_W cfg * script.length + (if cfg.resolver then tm_P cfg .inner + 5 else 0)
        + (match cfg.block with | some n => n | none => 3) := by
  simp only [mu, init, tm_qs, tm_mr]
  cases cfg.resolver <;> cases cfg.block <;>
    simp [tm_rr, tm_dr, tm_qr, tm_wr, List.map_replicate, List.sum_replicate_nat]

end

end ExecModel.Sys
