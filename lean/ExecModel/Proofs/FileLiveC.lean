import ExecModel.Proofs.FileLiveB
/-!
  Liveness of the file-based executor, part C: the invariant `LiveInv` of crash-free runs of the
  repaired code (`⟨true, true⟩`): no worker process ever crashes — when a process is started its
  input file exists and every producer's result file is published — at most one process per key,
  every `memory_dict` entry has a published result or a process, every submitted call is queued,
  held by the loop thread, in `memory_dict`, dropped (D13) or finished.
-/
namespace ExecModel.FileExec

variable {K V : Type} [DecidableEq K]

/-- what the invariant says about one worker process -/
def ProcLive (deps : Nat → List Nat) (key : Nat → K) (d : Dir K V) (m : List (K × Nat)) (pr : Proc K V) : Prop :=
  pr.key = key pr.call ∧ pr.pc ≠ .crashed ∧
  (pr.pc = .started → (Dir.get d pr.key).inp = true ∧ ∀ j ∈ deps pr.call, outB d (key j) = true) ∧
  (pr.pc = .exited → outB d pr.key = true) ∧
  ((memGet m pr.key).isSome = true ∨ outB d pr.key = true)

theorem ProcLive.mono {deps : Nat → List Nat} {key : Nat → K} {d d' : Dir K V} {m m' : List (K × Nat)} {pr : Proc K V}
    (h : ProcLive deps key d m pr)
    (hout : ∀ k, outB d k = true → outB d' k = true)
    (hinp : pr.pc = .started → (Dir.get d pr.key).inp = true → (Dir.get d' pr.key).inp = true)
    (hmem : (memGet m pr.key).isSome = true → (memGet m' pr.key).isSome = true ∨ outB d' pr.key = true) :
    ProcLive deps key d' m' pr := by
  obtain ⟨h1, h2, h3, h4, h5⟩ := h
  refine ⟨h1, h2, ?_, fun he => hout _ (h4 he), ?_⟩
  · intro hs
    exact ⟨hinp hs (h3 hs).1, fun j hj => hout _ ((h3 hs).2 j hj)⟩
  · rcases h5 with h5 | h5
    · exact hmem h5
    · exact Or.inr (hout _ h5)

structure LiveInv (deps : Nat → List Nat) (key : Nat → K) (s : State K V) : Prop where
  notDead : s.loop ≠ .dead
  cls : ∀ i, i < s.nsub → i ∈ s.queue ∨ held s.loop = some i ∨ (∃ k, (k, i) ∈ s.memory) ∨ i ∈ s.dropped ∨
    ∃ x, futOf s i = .finished x
  finOut : ∀ i x, futOf s i = .finished x → outB s.dir (key i) = true
  memOut : ∀ k i, (k, i) ∈ s.memory → outB s.dir k = true ∨ ∃ (p : Nat) (pr : Proc K V), s.procs[p]? = some pr ∧ pr.key = k
  heldDeps : ∀ i, held s.loop = some i → ∀ j ∈ deps i,
    (memGet s.memory (key j)).isSome = true ∨ outB s.dir (key j) = true
  fresh : ∀ i, (s.loop = .writeIn i ∨ s.loop = .waitDeps i) →
    (memGet s.memory (key i)).isSome = false ∧ outB s.dir (key i) = false
  waitInp : ∀ i, s.loop = .waitDeps i → (Dir.get s.dir (key i)).inp = true
  procs : ∀ (p : Nat) (pr : Proc K V), s.procs[p]? = some pr → ProcLive deps key s.dir s.memory pr
  uniq : ∀ (p q : Nat) (prp prq : Proc K V), s.procs[p]? = some prp → s.procs[q]? = some prq → prp.key = prq.key → p = q

section Step
variable (ncalls : Nat) (deps : Nat → List Nat) (key : Nat → K) (eval : Nat → List V → V)

theorem liveInv_init (d : Dir K V) : LiveInv deps key (init d ncalls : State K V) := by
  refine ⟨by simp [init], ?_, ?_, ?_, ?_, ?_, ?_, ?_, ?_⟩
  · intro i hi; simp [init] at hi
  · intro i x hx
    simp only [futOf, init, List.getD_eq_getElem?_getD, List.getElem?_replicate] at hx
    split at hx <;> simp at hx
  · intro k i hi; simp [init] at hi
  · intro i hi; simp [init, held] at hi
  · intro i hi; simp [init] at hi
  · intro i hi; simp [init] at hi
  · intro p pr hp; simp [init] at hp
  · intro p q prp prq hp; simp [init] at hp

theorem liveInv_submit {s : State K V} (hI : LiveInv deps key s) :
    LiveInv deps key { s with queue := s.queue ++ [s.nsub], nsub := s.nsub + 1, fut := s.fut.set s.nsub .pending } := by
  refine ⟨hI.notDead, ?_, ?_, hI.memOut, hI.heldDeps, hI.fresh, hI.waitInp, hI.procs, hI.uniq⟩
  · intro i hi
    have hi' : i < s.nsub + 1 := hi
    show i ∈ s.queue ++ [s.nsub] ∨ held s.loop = some i ∨ (∃ k, (k, i) ∈ s.memory) ∨ i ∈ s.dropped ∨
      ∃ x, (s.fut.set s.nsub .pending).getD i .absent = .finished x
    rcases Nat.lt_or_ge i s.nsub with hlt | hge
    · rcases hI.cls i hlt with h | h | h | h | ⟨x, hx⟩
      · exact Or.inl (List.mem_append_left _ h)
      · exact Or.inr (Or.inl h)
      · exact Or.inr (Or.inr (Or.inl h))
      · exact Or.inr (Or.inr (Or.inr (Or.inl h)))
      · refine Or.inr (Or.inr (Or.inr (Or.inr ⟨x, ?_⟩)))
        rw [getD_set_fut, if_neg (by omega)]
        exact hx
    · have : i = s.nsub := by omega
      subst this
      exact Or.inl (List.mem_append_right _ List.mem_cons_self)
  · intro i x hx
    have hx' : (s.fut.set s.nsub .pending).getD i .absent = .finished x := hx
    rw [getD_set_fut] at hx'
    split at hx'
    · cases hx'
    · exact hI.finOut i x hx'

theorem liveInv_take {s : State K V} (hI : LiveInv deps key s) (i : Nat) (rest : List Nat)
    (hl : s.loop = .idle) (hq : s.queue = i :: rest)
    (hall : ∀ j ∈ deps i, (memGet s.memory (key j)).isSome = true ∨ ∃ x, futOf s j = .finished x) :
    LiveInv deps key { s with queue := rest, loop := .converted i } := by
  refine ⟨by simp, ?_, hI.finOut, hI.memOut, ?_, ?_, ?_, hI.procs, hI.uniq⟩
  · intro a ha
    rcases hI.cls a ha with h | h | h | h | h
    · rw [hq, List.mem_cons] at h
      rcases h with h | h
      · subst h; exact Or.inr (Or.inl rfl)
      · exact Or.inl h
    · rw [hl] at h; simp [held] at h
    · exact Or.inr (Or.inr (Or.inl h))
    · exact Or.inr (Or.inr (Or.inr (Or.inl h)))
    · exact Or.inr (Or.inr (Or.inr (Or.inr h)))
  · intro a ha j hj
    have ha' : held (.converted i : LPc K) = some a := ha
    simp only [held, Option.some.injEq] at ha'
    subst ha'
    rcases hall j hj with h | ⟨x, hx⟩
    · exact Or.inl h
    · exact Or.inr (hI.finOut j x hx)
  · intro a ha
    have ha' : (LPc.converted i : LPc K) = .writeIn a ∨ (LPc.converted i : LPc K) = .waitDeps a := ha
    rcases ha' with h | h <;> cases h
  · intro a ha
    have ha' : (LPc.converted i : LPc K) = .waitDeps a := ha
    cases ha'

theorem liveInv_lookup_drop {s : State K V} (hI : LiveInv deps key s) (i : Nat) (hl : s.loop = .converted i) :
    LiveInv deps key { s with loop := .idle, dropped := s.dropped ++ [i] } := by
  refine ⟨by simp, ?_, hI.finOut, hI.memOut, ?_, ?_, ?_, hI.procs, hI.uniq⟩
  · intro a ha
    rcases hI.cls a ha with h | h | h | h | h
    · exact Or.inl h
    · rw [hl] at h
      simp only [held, Option.some.injEq] at h
      subst h
      exact Or.inr (Or.inr (Or.inr (Or.inl (List.mem_append_right _ List.mem_cons_self))))
    · exact Or.inr (Or.inr (Or.inl h))
    · exact Or.inr (Or.inr (Or.inr (Or.inl (List.mem_append_left _ h))))
    · exact Or.inr (Or.inr (Or.inr (Or.inr h)))
  · intro a ha
    have ha' : held (.idle : LPc K) = some a := ha
    simp [held] at ha'
  · intro a ha
    have ha' : (LPc.idle : LPc K) = .writeIn a ∨ (LPc.idle : LPc K) = .waitDeps a := ha
    rcases ha' with h | h <;> cases h
  · intro a ha
    have ha' : (LPc.idle : LPc K) = .waitDeps a := ha
    cases ha'

theorem liveInv_lookup_cached {s : State K V} (hI : LiveInv deps key s) (i : Nat) (hl : s.loop = .converted i)
    (ho : outB s.dir (key i) = true) :
    LiveInv deps key { s with loop := .idle, memory := s.memory ++ [(key i, i)] } := by
  refine ⟨by simp, ?_, hI.finOut, ?_, ?_, ?_, ?_, ?_, hI.uniq⟩
  · intro a ha
    rcases hI.cls a ha with h | h | ⟨k, h⟩ | h | h
    · exact Or.inl h
    · rw [hl] at h
      simp only [held, Option.some.injEq] at h
      subst h
      exact Or.inr (Or.inr (Or.inl ⟨key i, List.mem_append_right _ List.mem_cons_self⟩))
    · exact Or.inr (Or.inr (Or.inl ⟨k, List.mem_append_left _ h⟩))
    · exact Or.inr (Or.inr (Or.inr (Or.inl h)))
    · exact Or.inr (Or.inr (Or.inr (Or.inr h)))
  · intro k a ha
    have ha' : (k, a) ∈ s.memory ++ [(key i, i)] := ha
    rw [List.mem_append, List.mem_singleton] at ha'
    rcases ha' with ha' | ha'
    · exact hI.memOut k a ha'
    · cases ha'; exact Or.inl ho
  · intro a ha
    have ha' : held (.idle : LPc K) = some a := ha
    simp [held] at ha'
  · intro a ha
    have ha' : (LPc.idle : LPc K) = .writeIn a ∨ (LPc.idle : LPc K) = .waitDeps a := ha
    rcases ha' with h | h <;> cases h
  · intro a ha
    have ha' : (LPc.idle : LPc K) = .waitDeps a := ha
    cases ha'
  · intro p pr hp
    exact (hI.procs p pr hp).mono (fun _ h => h) (fun _ h => h) (fun h => Or.inl (memGet_append_isSome _ h))

theorem liveInv_lookup_new {s : State K V} (hI : LiveInv deps key s) (i : Nat) (hl : s.loop = .converted i)
    (hm : (memGet s.memory (key i)).isSome = false) (ho : outB s.dir (key i) = false) :
    LiveInv deps key { s with loop := .writeIn i } := by
  refine ⟨by simp, ?_, hI.finOut, hI.memOut, ?_, ?_, ?_, hI.procs, hI.uniq⟩
  · intro a ha
    rcases hI.cls a ha with h | h | h | h | h
    · exact Or.inl h
    · rw [hl] at h
      exact Or.inr (Or.inl h)
    · exact Or.inr (Or.inr (Or.inl h))
    · exact Or.inr (Or.inr (Or.inr (Or.inl h)))
    · exact Or.inr (Or.inr (Or.inr (Or.inr h)))
  · intro a ha
    have ha' : held (.writeIn i : LPc K) = some a := ha
    exact hI.heldDeps a (by rw [hl]; exact ha')
  · intro a ha
    have ha' : (LPc.writeIn i : LPc K) = .writeIn a ∨ (LPc.writeIn i : LPc K) = .waitDeps a := ha
    rcases ha' with h | h <;> cases h
    exact ⟨hm, ho⟩
  · intro a ha
    have ha' : (LPc.writeIn i : LPc K) = .waitDeps a := ha
    cases ha'

end Step
end ExecModel.FileExec
