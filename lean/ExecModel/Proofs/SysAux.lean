import ExecModel.Proofs.SysLive
import ExecModel.Proofs.SysProgress
/-!
  Inductiveness of the auxiliary invariants `pg_Aux` used by the progress theorem (`SysProgress`),
  and of the script-budget invariant `nsub + remaining submits ≤ #calls`.
-/
set_option linter.unusedSimpArgs false
set_option linter.unusedVariables false
namespace ExecModel.Sys

variable {Val Err : Type}
variable (cfg : Cfg) (eval : Nat → List Val → Except Err Val) (cancelErr : Err)

/-! ### the shutdown procedure: frame and program-counter normal form -/

theorem ax_sdStep_frame {s s1 : State Val Err} {sd : Sd} {l : Label Val Err}
    {r : Except Err (Option Sd)} (h : sdStep cfg s sd l = some (s1, r)) :
    s1.waitLst = s.waitLst ∧ s1.active = s.active ∧ s1.script = s.script ∧ s1.nsub = s.nsub ∧
    (sd.target ≠ .outer → s1.qo = s.qo) := by
  have hqo : ∀ v, sd.target ≠ .outer → (setQ s sd.target v).qo = s.qo := by
    intro v hne
    cases hq : sd.target with
    | outer => exact absurd hq hne
    | inner => rfl
    | priv i => rfl
  unfold sdStep at h
  split_step h
  all_goals (simp only [Option.some.injEq, Prod.mk.injEq] at h; obtain ⟨h, -⟩ := h; subst h)
  all_goals (refine ⟨?_, ?_, ?_, ?_, ?_⟩)
  all_goals (first
    | (simp; done)
    | (intro hne; simp [taskDone, hqo _ hne]; done))

/-- what `sdNorm` needs to produce a normalised program counter -/
def ax_sdPre (cfg : Cfg) (b : Bool) (sd : Sd) : Prop :=
  (∀ ts, sd.pc = .joinThreads ts → ∀ t ∈ ts, t ∈ threadsOf cfg sd.target) ∧ (b = true → sd.pc ≠ .drain)

theorem ax_sdOk_norm {b : Bool} {sd : Sd} (h : ax_sdPre cfg b sd) : pg_sdOk cfg b (sdNorm cfg sd) = true := by
  obtain ⟨tgt, wt, pc⟩ := sd
  obtain ⟨h1, h2⟩ := h
  simp only at h1 h2
  cases pc with
  | drain => cases b <;> simp_all [sdNorm, sdNormalize, pg_sdOk]
  | drainGot i => simp [sdNorm, sdNormalize, pg_sdOk]
  | drainCancelled => simp [sdNorm, sdNormalize, pg_sdOk]
  | putStops k =>
    cases k with
    | succ k => simp [sdNorm, sdNormalize, pg_sdOk]
    | zero =>
      cases wt with
      | false => simp [sdNorm, sdNormalize, pg_sdOk]
      | true =>
        cases hts : threadsOf cfg tgt with
        | nil => simp [sdNorm, sdNormalize, pg_sdOk, hts]
        | cons t ts =>
          simp [sdNorm, sdNormalize, pg_sdOk, hts]
          intro x hx; exact Or.inr hx
  | joinThreads ts =>
    cases ts with
    | nil => simp [sdNorm, sdNormalize, pg_sdOk]
    | cons t ts =>
      have := h1 (t :: ts) rfl
      simp only [sdNorm, sdNormalize, pg_sdOk, List.all_eq_true, List.contains_iff_mem]
      intro x hx
      simpa using this x hx
  | joinQueue => simp [sdNorm, sdNormalize, pg_sdOk]
  | finish => simp [sdNorm, sdNormalize, pg_sdOk]

theorem ax_sdStep_pre {b : Bool} {s s1 : State Val Err} {sd sd' : Sd} {l : Label Val Err}
    (hok : pg_sdOk cfg b sd = true) (hl : b = true → ∀ c, l ≠ .sdDrainDone c)
    (h : sdStep cfg s sd l = some (s1, .ok (some sd'))) : ax_sdPre cfg b sd' := by
  unfold sdStep at h
  split_step h
  all_goals (first
    | (simp at h; done)
    | (simp only [Option.some.injEq, Prod.mk.injEq, Except.ok.injEq] at h
       obtain ⟨-, h⟩ := h
       subst h
       refine ⟨?_, ?_⟩
       · intro ts hts
         first
         | (simp at hts; done)
         | (simp_all; done)
         | (simp only [SdPc.joinThreads.injEq] at hts
            subst hts
            rename_i hpc _ _
            intro t ht
            simp only [pg_sdOk, hpc, List.all_eq_true, List.contains_iff_mem] at hok
            simpa using hok t (List.mem_cons_of_mem _ ht))
       · intro hb
         first
         | (simp; done)
         | (subst hb; simp_all [pg_sdOk]; done)
         | (exact absurd rfl (hl hb _))))

/-! ### the three parts of `pg_normOk` -/

def ax_normMain (cfg : Cfg) (s : State Val Err) : Bool :=
  match mainSd s with
  | some sd => pg_sdOk cfg false sd
  | none => true

def ax_normRes (cfg : Cfg) (s : State Val Err) : Bool :=
  match resSd s with
  | some sd => pg_sdOk cfg true sd
  | none => true

def ax_normDisp (s : State Val Err) : Bool :=
  match s.disp with
  | some (.stopping []) => false
  | _ => true

theorem ax_norm_iff (s : State Val Err) : pg_normOk cfg s = true ↔
    (ax_normMain cfg s = true ∧ ax_normRes cfg s = true ∧ ax_normDisp s = true) := by
  simp only [pg_normOk, ax_normMain, ax_normRes, ax_normDisp, Bool.and_eq_true, and_assoc]
  exact Iff.rfl

theorem ax_normMain_congr {s s' : State Val Err} (h : s'.mainPc = s.mainPc) :
    ax_normMain cfg s' = ax_normMain cfg s := by
  simp only [ax_normMain, mainSd, h]

theorem ax_normRes_congr {s s' : State Val Err} (h : s'.res = s.res) :
    ax_normRes cfg s' = ax_normRes cfg s := by
  simp only [ax_normRes, resSd, h]

theorem ax_normDisp_congr {s s' : State Val Err} (h : s'.disp = s.disp) :
    ax_normDisp s' = ax_normDisp s := by
  simp only [ax_normDisp, h]

/-! ### the user thread -/

/-- inversion of a step of the user thread inside the shutdown procedure -/
theorem ax_main_inSd {s s' : State Val Err} {sd : Sd} {l : Label Val Err} (hm : s.mainPc = .inSd sd)
    (h : mainStep cfg s l = some s') :
    ∃ s1 r, sdStep cfg s sd l = some (s1, r) ∧
      ((∃ sd', r = .ok (some sd') ∧ s' = { s1 with mainPc := .inSd (sdNorm cfg sd') }) ∨
       (r = .ok none ∧ s' = { s1 with mainPc := .idle, frontOpen := false }) ∨
       (∃ e, r = .error e ∧ s' = { s1 with mainPc := .idle, raised := s1.raised + 1 })) := by
  unfold mainStep at h
  split at h
  rotate_left 5
  · rename_i sd0 hm0
    rw [hm] at hm0
    simp only [MainPc.inSd.injEq] at hm0
    subst hm0
    split at h
    all_goals (first
      | (cases h; done)
      | (split at h
         · rename_i s1 sd' hsd
           simp only [Option.some.injEq] at h
           exact ⟨s1, _, hsd, Or.inl ⟨sd', rfl, h.symm⟩⟩
         · rename_i s1 hsd
           simp only [Option.some.injEq] at h
           exact ⟨s1, _, hsd, Or.inr (Or.inl ⟨rfl, h.symm⟩)⟩
         · rename_i s1 e hsd
           simp only [Option.some.injEq] at h
           exact ⟨s1, _, hsd, Or.inr (Or.inr ⟨e, rfl, h.symm⟩)⟩
         · cases h))
  · cases h
  all_goals (rename_i hm0; rw [hm] at hm0; cases hm0)

/-- a step of the user thread outside the shutdown procedure -/
theorem ax_main_idle {s s' : State Val Err} {l : Label Val Err} (hm : s.mainPc = .idle)
    (h : mainStep cfg s l = some s') :
    s'.waitLst = s.waitLst ∧ s'.active = s.active ∧ (cfg.resolver = false → s'.qo = s.qo) ∧
    (s'.mainPc = .idle ∨ ∃ sd0, s'.mainPc = .inSd (sdNorm cfg sd0) ∧ ax_sdPre cfg false sd0) := by
  have hqo : cfg.resolver = false → ∀ (t : State Val Err) v, (setQ t (frontQ cfg) v).qo = t.qo := by
    intro hr t v
    simp [frontQ, hr, setQ]
  unfold mainStep at h
  split at h
  rotate_left 5
  · rename_i sd0 hm0; rw [hm] at hm0; cases hm0
  · cases h
  all_goals (split_step h)
  all_goals (simp only [Option.some.injEq] at h; subst h)
  all_goals (refine ⟨?_, ?_, ?_, ?_⟩)
  all_goals (first
    | (simp; done)
    | (intro hr; simp [hqo hr]; done)
    | (left; simpa using hm)
    | (right; refine ⟨_, rfl, ?_, ?_⟩ <;> simp <;> split <;> simp))

/-- what a step of the user thread does to the data the auxiliary invariants talk about -/
theorem ax_mainStep_eff {s s' : State Val Err} {l : Label Val Err} (hI : LiveInv cfg s)
    (hN : pg_normOk cfg s = true) (h : mainStep cfg s l = some s') :
    s'.wk = s.wk ∧ s'.res = s.res ∧ s'.disp = s.disp ∧ s'.wkOf = s.wkOf ∧ s'.qp = s.qp ∧
    s'.innerOpen = s.innerOpen ∧ s'.waitLst = s.waitLst ∧ s'.active = s.active ∧
    (cfg.resolver = false → s'.qo = s.qo) ∧ ax_normMain cfg s' = true := by
  have hJ := (la_join_iff cfg s).1 hI.join
  obtain ⟨f1, f2, f3, f4, f5, f6, -, -, -⟩ := la_mainStep_facts cfg hI.noDead hJ h
  refine ⟨f1, f2, f3, f4, f5, f6, ?_⟩
  cases hm : s.mainPc with
  | idle =>
    obtain ⟨g1, g2, g3, g4⟩ := ax_main_idle cfg hm h
    refine ⟨g1, g2, g3, ?_⟩
    rcases g4 with g4 | ⟨sd0, g4, g5⟩
    · simp [ax_normMain, mainSd, g4]
    · simp only [ax_normMain, mainSd, g4]
      exact ax_sdOk_norm cfg g5
  | inSd sd =>
    have htgt := hJ.2.1 sd hm
    have hok : pg_sdOk cfg false sd = true := by
      simp only [pg_normOk, mainSd, hm, Bool.and_eq_true] at hN
      exact hN.1.1
    obtain ⟨s1, r, hsd, hcase⟩ := ax_main_inSd cfg hm h
    obtain ⟨e1, e2, e3, e4, e5⟩ := ax_sdStep_frame cfg hsd
    have hqo : cfg.resolver = false → s1.qo = s.qo := by
      intro hr
      apply e5
      rw [htgt]
      simp [frontQ, hr]
    rcases hcase with ⟨sd', hr, hs'⟩ | ⟨hr, hs'⟩ | ⟨e, hr, hs'⟩
    · subst hr
      have hpre := ax_sdStep_pre cfg hok (by intro hb; cases hb) hsd
      subst hs'
      refine ⟨e1, e2, hqo, ?_⟩
      simp only [ax_normMain, mainSd]
      exact ax_sdOk_norm cfg hpre
    · subst hs'
      exact ⟨e1, e2, hqo, by simp [ax_normMain, mainSd]⟩
    · subst hs'
      exact ⟨e1, e2, hqo, by simp [ax_normMain, mainSd]⟩

/-! ### the resolver -/

/-- while the resolver has not begun to shut the inner executor down, some thread of the inner
    executor is alive (needs at least one worker in a block allocation) -/
theorem ax_inner_alive (hpos : ∀ n, cfg.block = some n → 0 < n) {s : State Val Err}
    (hI : LiveInv cfg s) {w : Bool} (hr : s.res = some (.stopping w)) : innerAllEnded cfg s = false := by
  cases hall : innerAllEnded cfg s with
  | false => rfl
  | true =>
    exfalso
    have hres : cfg.resolver = true := by
      have := pg_shape_res cfg hI
      rw [hr] at this
      exact this.symm
    have hio : s.innerOpen = true := by
      have := (la_handle_iff cfg s).1 hI.handle
      rw [hr] at this
      simpa using this
    have hst := hI.stopsInner
    have hph : phaseOf cfg s .inner = .opened := by
      simp [phaseOf, frontQ, hres, hr, hio]
    simp only [stopsOk, hph, beq_iff_eq] at hst
    have hND := (la_noDead_iff s).1 hI.noDead
    cases hb : cfg.block with
    | some n =>
      have hn := hpos n hb
      obtain ⟨-, hlen, hq⟩ := pg_shape_block cfg hI hb
      have h0 : 0 < s.wk.length := by omega
      have hk : s.wk[0]? = some s.wk[0] := List.getElem?_eq_getElem h0
      have hmem : s.wk[0] ∈ s.wk := pg_mem_of_getElem? hk
      have hnd : wDead (s.wk[0]).pc = false := by
        have := (List.all_eq_true.1 hND.1) _ hmem
        simpa using this
      simp only [innerAllEnded, threadsOf, hb, List.all_eq_true, List.mem_map, List.mem_range] at hall
      have he := hall (.worker 0) ⟨0, hn, rfl⟩
      simp only [threadEnded, hk] at he
      have ht : wTookStop (s.wk[0]).pc = true := by
        cases hpc : (s.wk[0]).pc <;> simp_all [wTookStop, wDead]
      have := pg_tookStops_wk hk (hq _ hmem) ht
      omega
    | none =>
      simp only [innerAllEnded, threadsOf, hb, List.all_cons, List.all_nil, Bool.and_true] at hall
      have ht : dTookStop s.disp = true := by
        simp only [threadEnded] at hall
        split at hall
        · rename_i hd; simp [hd, dTookStop]
        · rename_i e hd; exact absurd hd (hND.2.2 e)
        · cases hall
      have := pg_tookStops_disp ht
      omega

/-- inversion of a step of the resolver inside the shutdown procedure -/
theorem ax_res_inSd {s s' : State Val Err} {sd : Sd} {l : Label Val Err} (hr : s.res = some (.inSd sd))
    (h : resStep cfg cancelErr s l = some s') :
    (∀ c, l ≠ .sdDrainDone c) ∧ ∃ s1 r, sdStep cfg s sd l = some (s1, r) ∧
      ((∃ sd', r = .ok (some sd') ∧ s' = { s1 with res := some (.inSd (sdNorm cfg sd')) }) ∨
       (r = .ok none ∧ s' = { s1 with res := some .stopAck, innerOpen := false }) ∨
       (∃ e, r = .error e ∧ s' = { s1 with res := some (.dead e) })) := by
  unfold resStep at h
  split at h
  · cases h
  rename_i pc hr0
  split at h
  case h_13 =>
    rename_i sd0
    rw [hr] at hr0
    simp only [Option.some.injEq, RPc.inSd.injEq] at hr0
    subst hr0
    split at h
    all_goals (first
      | (cases h; done)
      | (refine ⟨by intro c; simp, ?_⟩
         split at h
         · rename_i s1 sd' hsd
           simp only [Option.some.injEq] at h
           exact ⟨s1, _, hsd, Or.inl ⟨sd', rfl, h.symm⟩⟩
         · rename_i s1 hsd
           simp only [Option.some.injEq] at h
           exact ⟨s1, _, hsd, Or.inr (Or.inl ⟨rfl, h.symm⟩)⟩
         · rename_i s1 e hsd
           simp only [Option.some.injEq] at h
           exact ⟨s1, _, hsd, Or.inr (Or.inr ⟨e, rfl, h.symm⟩)⟩
         · cases h))
  case h_16 => cases h
  all_goals (rw [hr] at hr0; cases hr0)

theorem ax_begin_wait (hpos : ∀ n, cfg.block = some n → 0 < n) {s : State Val Err}
    (hI : LiveInv cfg s) {w : Bool} (hr : s.res = some (.stopping w))
    (hg : s.waitLst = [] ∨ s.innerOpen = false ∨ innerAllEnded cfg s = true) : s.waitLst = [] := by
  rcases hg with hg | hg | hg
  · exact hg
  · have := (la_handle_iff cfg s).1 hI.handle
    rw [hr, hg] at this
    simp at this
  · rw [ax_inner_alive cfg hpos hI hr] at hg
    cases hg

theorem ax_resStep_aux (hpos : ∀ n, cfg.block = some n → 0 < n) {s s' : State Val Err}
    {l : Label Val Err} (hI : LiveInv cfg s) (hA : pg_Aux cfg s)
    (h : resStep cfg cancelErr s l = some s') :
    s'.active = s.active ∧ ax_normRes cfg s' = true ∧ pg_waitOk s' = true ∧ pg_handleOk s' = true := by
  have h0 := h
  have hw := hA.wait
  have hh := hA.handle2
  unfold resStep at h
  split at h
  · cases h
  rename_i pc hr
  split at h
  case h_13 =>
    rename_i sd
    clear h
    obtain ⟨hnl, s1, r, hsd, hcase⟩ := ax_res_inSd cfg cancelErr hr h0
    have hok : pg_sdOk cfg true sd = true := by
      have hN := hA.norm
      simp only [pg_normOk, resSd, hr, Bool.and_eq_true] at hN
      exact hN.1.2
    obtain ⟨e1, e2, -, -, -⟩ := ax_sdStep_frame cfg hsd
    simp only [pg_waitOk, hr] at hw
    rcases hcase with ⟨sd', hr', hs'⟩ | ⟨hr', hs'⟩ | ⟨e, hr', hs'⟩
    · subst hr'
      have hpre := ax_sdStep_pre cfg hok (fun _ => hnl) hsd
      subst hs'
      refine ⟨e2, ?_, ?_, ?_⟩
      · simp only [ax_normRes, resSd]
        exact ax_sdOk_norm cfg hpre
      · simp only [pg_waitOk, e1]; exact hw
      · simp [pg_handleOk]
    · subst hs'
      refine ⟨e2, ?_, ?_, ?_⟩
      · simp [ax_normRes, resSd]
      · simp only [pg_waitOk, e1]; exact hw
      · simp [pg_handleOk]
    · subst hs'
      refine ⟨e2, ?_, ?_, ?_⟩
      · simp [ax_normRes, resSd]
      · simp [pg_waitOk]
      · simp [pg_handleOk]
  case h_16 => cases h
  case h_12 =>
    clear h0
    split at h
    · rename_i hg
      have hwl := ax_begin_wait cfg hpos hI hr hg
      split at h
      · simp only [Option.some.injEq] at h; subst h
        refine ⟨rfl, ?_, ?_, ?_⟩
        · simp only [ax_normRes, resSd]
          apply ax_sdOk_norm
          constructor <;> simp
        · simp [pg_waitOk, hwl]
        · simp [pg_handleOk]
      · rename_i hio
        simp only [Option.some.injEq] at h; subst h
        refine ⟨rfl, ?_, ?_, ?_⟩
        · simp [ax_normRes, resSd]
        · simp [pg_waitOk, hwl]
        · simpa [pg_handleOk] using hio
    · cases h
  case h_6 =>
    clear h0
    rename_i i e ret
    split_step h
    all_goals (simp only [Option.some.injEq] at h; subst h)
    all_goals (simp [ax_normRes, resSd, pg_waitOk, pg_handleOk])
  all_goals (clear h0; split_step h)
  all_goals (simp only [Option.some.injEq] at h; subst h)
  all_goals (refine ⟨?_, ?_, ?_, ?_⟩)
  all_goals (first
    | (simp; done)
    | (simp [ax_normRes, resSd, hr]; done)
    | (simp [pg_waitOk, hr]; done)
    | (simp [pg_handleOk, hr]; done)
    | (simp only [pg_waitOk, hr] at hw; simp [pg_waitOk]; simpa using hw)
    | (simp only [pg_handleOk, hr] at hh; simp [pg_handleOk]; simpa using hh)
    | skip)

/-! ### the dispatcher -/

theorem ax_getD_set_isSome (l : List (Option Nat)) (i j k : Nat)
    (h : (l.getD j none).isSome = true ∨ (j = i ∧ i < l.length)) :
    ((l.set i (some k)).getD j none).isSome = true := by
  simp only [List.getD_eq_getElem?_getD, List.getElem?_set] at h ⊢
  by_cases hij : i = j
  · subst hij
    by_cases hlt : i < l.length
    · simp [hlt]
    · rcases h with h | h
      · simp [hlt] at h
      · exact absurd h.2 hlt
  · simp only [hij, if_false]
    rcases h with h | h
    · exact h
    · exact absurd h.1.symm hij

theorem ax_dispStep_aux {s s' : State Val Err} {l : Label Val Err}
    (hlt : ∀ i vs req, s.disp = some (.waitSlots i vs req) → i < s.wkOf.length)
    (hA : pg_Aux cfg s) (h : dispStep cfg s l = some s') :
    pg_reqOk cfg s' = true ∧ ax_normDisp s' = true ∧ pg_activeOk s' = true := by
  have ha := hA.active
  have hq := hA.req
  simp only [pg_activeOk, List.all_eq_true] at ha
  unfold dispStep at h
  split at h
  · cases h
  rename_i pc hd
  split_step h
  all_goals (simp only [Option.some.injEq] at h; subst h)
  all_goals (refine ⟨?_, ?_, ?_⟩)
  all_goals (first
    | (simp [pg_reqOk]; done)
    | (rename_i hx; exact absurd rfl hx)
    | (simp only [pg_reqOk, hd] at hq ⊢; exact hq)
    | (simp [ax_normDisp]; done)
    | (simp [ax_normDisp, hd]; done)
    | (simp only [pg_activeOk, List.all_eq_true]; exact ha)
    | (simp only [pg_activeOk, List.all_eq_true, taskDone_active, taskDone_wkOf]; exact ha)
    | (simp only [pg_activeOk, List.all_eq_true]
       intro x hx
       exact ha x (List.mem_of_mem_eraseIdx hx))
    | (simp only [pg_activeOk, List.all_eq_true, List.mem_append, List.mem_singleton]
       intro x hx
       apply ax_getD_set_isSome
       rcases hx with hx | hx
       · exact Or.inl (ha x hx)
       · subst hx; exact Or.inr ⟨rfl, hlt _ _ _ hd⟩)
    | (simp only [pg_reqOk]; split <;> simp; done)
    | (simp only [ax_normDisp]; split <;> simp_all; done)
    | skip)

/-! ### the workers -/

/-- STRENGTHENED `pg_procOk` (which is not inductive by itself: `wJoinExit` moves `stopJoin → exited`
    without touching `procAlive`): the process is gone from `wProcStop` on. -/
def ax_wProc (w : Worker Val Err) : Bool :=
  match w.pc with
  | .stopAck | .stopJoin | .exited => !w.procAlive
  | _ => true

def ax_procOk (s : State Val Err) : Bool := s.wk.all ax_wProc

theorem ax_procOk_pg {s : State Val Err} (h : ax_procOk s = true) : pg_procOk s = true := by
  simp only [ax_procOk, pg_procOk, List.all_eq_true] at h ⊢
  intro w hw
  have := h w hw
  unfold ax_wProc at this
  split <;> simp_all

/-- the launch clause for one worker and one call -/
def ax_LOk (s : State Val Err) (w : Worker Val Err) (a : Nat) : Prop :=
  (futOf s a).done = true ∨ taskIds (s.qp.getD a {}) ≠ [] ∨ wpcCnt a w.pc = 1

theorem ax_launch_iff (s : State Val Err) : pg_launchOk s = true ↔
    ∀ (k : Nat) (w : Worker Val Err) (a : Nat), s.wk[k]? = some w → w.q = .priv a → ax_LOk s w a := by
  unfold pg_launchOk ax_LOk
  rw [List.all_eq_true]
  constructor
  · intro h k w a hk hq
    have := h w (List.mem_of_getElem? hk)
    rw [hq] at this
    simpa [Bool.or_eq_true, or_assoc, getQ, List.isEmpty_iff] using this
  · intro h w hm
    obtain ⟨k, hk⟩ := List.getElem?_of_mem hm
    split
    · rename_i a hq
      have := h k w a hk hq
      simpa [Bool.or_eq_true, or_assoc, getQ, List.isEmpty_iff] using this
    · rfl

theorem ax_taskIds_setQ_same (s : State Val Err) (q : QId) (v : Queue Val) (a : Nat)
    (hv : taskIds v = taskIds (getQ s q)) :
    taskIds ((setQ s q v).qp.getD a {}) = taskIds (s.qp.getD a {}) := by
  cases q with
  | outer => rfl
  | inner => rfl
  | priv i' =>
    simp only [setQ, la_getD_set]
    split
    · rename_i h; rw [hv, ← h.1]; rfl
    · rfl

theorem ax_taskIds_taskDone (s : State Val Err) (q : QId) (a : Nat) :
    taskIds ((taskDone s q).qp.getD a {}) = taskIds (s.qp.getD a {}) := by
  simp only [taskDone]
  exact ax_taskIds_setQ_same s q _ a rfl

theorem ax_LOk_frame {s s' : State Val Err} {w w' : Worker Val Err} {a : Nat}
    (hf : s'.fut = s.fut) (hq : taskIds (s'.qp.getD a {}) = taskIds (s.qp.getD a {}))
    (hw : wpcCnt a w.pc = 1 → wpcCnt a w'.pc = 1) (h : ax_LOk s w a) : ax_LOk s' w' a := by
  unfold ax_LOk at h ⊢
  rw [hq, futOf_congr hf]
  rcases h with h | h | h
  · exact Or.inl h
  · exact Or.inr (Or.inl h)
  · exact Or.inr (Or.inr (hw h))

theorem ax_LOk_get {s s' : State Val Err} {w w' : Worker Val Err} {i a : Nat} {vs : List Val}
    {rest : List (Item Val)} (hq : w.q = .priv a)
    (hit : (getQ s w.q).items = .task i vs :: rest) (hw' : w'.pc = .gotTask i vs)
    (hown : ∀ j ∈ taskIds (s.qp.getD a {}), j = a) : ax_LOk s' w' a := by
  rw [hq] at hit
  simp only [getQ] at hit
  have : i = a := hown i (by simp only [taskIds, hit, List.filterMap_cons]; exact List.mem_cons_self)
  subst this
  right; right
  simp [hw', wpcCnt]

theorem ax_LOk_setFut {s s' : State Val Err} {w w' : Worker Val Err} {i a : Nat} {f : Fut Val Err}
    (hfut : s'.fut = s.fut.set i f) (hlt : i < s.fut.length) (hqp : s'.qp = s.qp)
    (hpost : f.done = true ∨ wpcCnt i w'.pc = 1) (hw : wpcCnt a w.pc = 1 → a = i)
    (h : ax_LOk s w a) : ax_LOk s' w' a := by
  unfold ax_LOk at h ⊢
  have hf : futOf s' a = if i = a ∧ i < s.fut.length then f else futOf s a := by
    have := futOf_setFut s i a f
    simp only [futOf, setFut] at this
    simp only [futOf, hfut]; exact this
  rw [hqp, hf]
  by_cases hia : i = a
  · subst hia
    rcases hpost with hp | hp
    · left; simp [hlt, hp]
    · right; right; exact hp
  · rcases h with h | h | h
    · left; simp [hia, h]
    · exact Or.inr (Or.inl h)
    · exact absurd (hw h).symm hia

/-- what a step of worker `k` leaves alone / establishes -/
def ax_WorkerFacts (s s' : State Val Err) (k : Nat) : Prop :=
  ∃ w w', s.wk[k]? = some w ∧ s'.wk = s.wk.set k w' ∧ w'.q = w.q ∧
    s'.active = s.active ∧ s'.innerOpen = s.innerOpen ∧
    (ax_wProc w = true → ax_wProc w' = true) ∧
    (∀ a, w.q ≠ .priv a → s'.qp.getD a {} = s.qp.getD a {}) ∧
    (∀ a, w.q = .priv a → (∀ j ∈ taskIds (s.qp.getD a {}), j = a) → ax_LOk s w a → ax_LOk s' w' a)

theorem ax_workerStep_facts (hnf : NoFail eval) {s s' : State Val Err} {k : Nat} {l : Label Val Err}
    (hC : Core s) (hD : noDead s = true) (h : workerStep eval s k l = some s') :
    ax_WorkerFacts s s' k := by
  have hnf' : ∀ i vs e, eval i vs ≠ .error e := by
    intro i vs e he
    obtain ⟨v, hv⟩ := hnf i vs
    rw [hv] at he; cases he
  obtain ⟨hU, hW, hR⟩ := hC
  unfold workerStep at h
  split at h
  · cases h
  rename_i w hk
  have hwd : wDead w.pc = false := by
    have h1 := ((la_noDead_iff s).1 hD).1
    have := (List.all_eq_true.1 h1) w (List.mem_of_getElem? hk)
    simpa using this
  have hrun : ∀ i, wpcRuns i w.pc → futOf s i = .running := fun i hi => hR.1 k w i hk hi
  split_step h
  all_goals (simp only [Option.some.injEq] at h; subst h)
  all_goals (first
    | (exfalso; simp_all [wDead]; done)
    | skip)
  all_goals (refine ⟨w, ?_, hk, ?_, ?_, ?_, ?_, ?_, ?_, ?_⟩)
  all_goals (first
    | (simp only [setWk_wk, setQ_wk, taskDone_wk, setFut_wk]; rfl)
    | (simp; done)
    | (intro hp; simp_all [ax_wProc]; done)
    | (intro a ha
       simp only [setWk_qp, setFut_qp, la_qp_getD_setQ_ne _ _ ha, la_qp_getD_taskDone_ne _ ha]
       done)
    | (intro a ha hown
       refine ax_LOk_frame ?_ ?_ ?_
       · simp
       · first
         | rfl
         | (simp only [setWk_qp]; exact ax_taskIds_taskDone _ _ _)
         | (simp only [setWk_qp]
            refine ax_taskIds_setQ_same _ _ _ _ ?_
            simp_all [taskIds])
       · simp_all [wpcCnt]
         done)
    | (intro a ha hown _
       apply ax_LOk_get ha
       case hit => assumption
       case hw' => rfl
       case hown => exact hown)
    | (intro a ha hown
       apply ax_LOk_setFut
       case hfut => rfl
       case hlt =>
         apply lt_of_futOf_ne_absent
         first
         | (simp_all; done)
         | (rw [hrun _ ?_]
            · simp
            · simp_all [wpcRuns])
       case hqp => rfl
       case hpost => simp [Fut.done, wpcCnt]
       case hw => simp_all [wpcCnt])
    | skip)

/-! ### frames -/

/-- the auxiliary invariants of `SysProgress` together with the strengthened process clause -/
structure ax_Aux (cfg : Cfg) (s : State Val Err) : Prop where
  aux : pg_Aux cfg s
  proc2 : ax_procOk s = true

theorem ax_done_step {f g : Fut Val Err} (h : FutStep f g) (hf : f.done = true) : g.done = true := by
  cases h <;> simp_all [Fut.done]

theorem ax_wait_frame {s s' : State Val Err} (hr : s'.res = s.res) (hw : s'.waitLst = s.waitLst)
    (hq : s.res = none → s'.qo = s.qo) (h : pg_waitOk s = true) : pg_waitOk s' = true := by
  unfold pg_waitOk at h ⊢
  rw [hr, hw]
  cases hres : s.res with
  | none =>
    rw [hq hres]
    simpa [hres] using h
  | some pc =>
    rw [hres] at h
    cases pc <;> first | exact h | rfl

theorem ax_handle_frame {s s' : State Val Err} (hr : s'.res = s.res) (hi : s'.innerOpen = s.innerOpen)
    (h : pg_handleOk s = true) : pg_handleOk s' = true := by
  unfold pg_handleOk at h ⊢
  rw [hr, hi]; exact h

theorem ax_req_frame {s s' : State Val Err} (hd : s'.disp = s.disp)
    (h : pg_reqOk cfg s = true) : pg_reqOk cfg s' = true := by
  unfold pg_reqOk at h ⊢
  rw [hd]; exact h

theorem ax_active_frame {s s' : State Val Err} (ha : s'.active = s.active) (hw : s'.wkOf = s.wkOf)
    (h : pg_activeOk s = true) : pg_activeOk s' = true := by
  unfold pg_activeOk at h ⊢
  rw [ha, hw]; exact h

theorem ax_launch_frame {s s' : State Val Err} (hwk : s'.wk = s.wk) (hqp : s'.qp = s.qp)
    (hfs : ∀ j, FutStep (futOf s j) (futOf s' j)) (h : pg_launchOk s = true) :
    pg_launchOk s' = true := by
  rw [ax_launch_iff] at h ⊢
  intro k w a hk hq
  rw [hwk] at hk
  unfold ax_LOk
  rw [hqp]
  rcases h k w a hk hq with h | h | h
  · exact Or.inl (ax_done_step (hfs a) h)
  · exact Or.inr (Or.inl h)
  · exact Or.inr (Or.inr h)

theorem ax_assemble_nw {s s' : State Val Err} (hX : ax_Aux cfg s)
    (hfs : ∀ j, FutStep (futOf s j) (futOf s' j))
    (hwk : s'.wk = s.wk) (hqp : s'.qp = s.qp)
    (hn1 : ax_normMain cfg s' = true) (hn2 : ax_normRes cfg s' = true) (hn3 : ax_normDisp s' = true)
    (hw : pg_waitOk s' = true) (hh : pg_handleOk s' = true) (hreq : pg_reqOk cfg s' = true)
    (hact : pg_activeOk s' = true) : ax_Aux cfg s' := by
  refine ⟨⟨(ax_norm_iff cfg s').2 ⟨hn1, hn2, hn3⟩, hw, hh, hreq, hact,
    ax_launch_frame hwk hqp hfs hX.aux.launch, ?_⟩, ?_⟩
  · apply ax_procOk_pg
    have := hX.proc2
    simp only [ax_procOk, hwk] at this ⊢
    exact this
  · have := hX.proc2
    simp only [ax_procOk, hwk] at this ⊢
    exact this

/-! ### assembly, thread by thread -/

theorem ax_mainStep {s s' : State Val Err} {l : Label Val Err} (hI : LiveInv cfg s)
    (hX : ax_Aux cfg s) (hfs : ∀ j, FutStep (futOf s j) (futOf s' j))
    (h : mainStep cfg s l = some s') : ax_Aux cfg s' := by
  have hA := hX.aux
  obtain ⟨hn1, hn2, hn3⟩ := (ax_norm_iff cfg s).1 hA.norm
  obtain ⟨g1, g2, g3, g4, g5, g6, g7, g8, g9, g10⟩ := ax_mainStep_eff cfg hI hA.norm h
  refine ax_assemble_nw cfg hX hfs g1 g5 g10 ?_ ?_ ?_ (ax_handle_frame g2 g6 hA.handle2)
    (ax_req_frame cfg g3 hA.req) (ax_active_frame g8 g4 hA.active)
  · rw [ax_normRes_congr cfg g2]; exact hn2
  · rw [ax_normDisp_congr g3]; exact hn3
  · refine ax_wait_frame g2 g7 ?_ hA.wait
    intro hres
    apply g9
    have := pg_shape_res cfg hI
    rw [hres] at this
    exact this.symm

theorem ax_resStep (hpos : ∀ n, cfg.block = some n → 0 < n) {s s' : State Val Err}
    {l : Label Val Err} (hI : LiveInv cfg s)
    (hX : ax_Aux cfg s) (hfs : ∀ j, FutStep (futOf s j) (futOf s' j))
    (h : resStep cfg cancelErr s l = some s') : ax_Aux cfg s' := by
  have hA := hX.aux
  obtain ⟨hn1, hn2, hn3⟩ := (ax_norm_iff cfg s).1 hA.norm
  have hJ := (la_join_iff cfg s).1 hI.join
  have hH := (la_handle_iff cfg s).1 hI.handle
  obtain ⟨f1, f2, f3, f4, f5, -, -, -, -, -, -, -⟩ := la_resStep_facts cfg cancelErr hI.noDead hJ hH h
  obtain ⟨g1, g2, g3, g4⟩ := ax_resStep_aux cfg cancelErr hpos hI hA h
  refine ax_assemble_nw cfg hX hfs f1 f5 ?_ g2 ?_ g3 g4 (ax_req_frame cfg f2 hA.req)
    (ax_active_frame g1 f4 hA.active)
  · rw [ax_normMain_congr cfg f3]; exact hn1
  · rw [ax_normDisp_congr f2]; exact hn3

theorem ax_dispStep {s s' : State Val Err} {l : Label Val Err} (hC : Core s) (hI : LiveInv cfg s)
    (hL : launchOk s = true) (hX : ax_Aux cfg s) (hfs : ∀ j, FutStep (futOf s j) (futOf s' j))
    (h : dispStep cfg s l = some s') : ax_Aux cfg s' := by
  have hA := hX.aux
  obtain ⟨hn1, hn2, hn3⟩ := (ax_norm_iff cfg s).1 hA.norm
  have hJ := (la_join_iff cfg s).1 hI.join
  have hLP := (la_launch_iff s).1 hL
  have hlen := la_len_elim cfg hI.len
  have hlt : ∀ i vs req, s.disp = some (.waitSlots i vs req) → i < cfg.calls.length := by
    intro i vs req hd
    exact Nat.lt_of_lt_of_le (la_disp_lt hC.uniq hd) hlen.2.2.2
  obtain ⟨a1, a2, a3⟩ := ax_dispStep_aux cfg (fun i vs req hd => by rw [hlen.2.2.1]; exact hlt i vs req hd) hA h
  obtain ⟨d1, d2, d3, d4, d5, -⟩ := le_dispStep_eff cfg h
  have hwait := ax_wait_frame d2 d4 (fun _ => d5) hA.wait
  have hm1 : ax_normMain cfg s' = true := by rw [ax_normMain_congr cfg d1]; exact hn1
  have hm2 : ax_normRes cfg s' = true := by rw [ax_normRes_congr cfg d2]; exact hn2
  rcases la_dispStep_facts cfg hI.noDead hJ h with hF | hF
  · obtain ⟨h1, h2, h3, h4, h5, h6, h7, h8, -, -, -⟩ := hF
    exact ax_assemble_nw cfg hX hfs h1 h5 hm1 hm2 a2 hwait (ax_handle_frame h2 h8 hA.handle2) a1 a3
  · obtain ⟨i, vs, req, hd, h1, h2, h3, h4, h5, h6, h7, h8, h9⟩ := hF
    have hilt := hlt i vs req hd
    have hnw := fun k w hk => la_disp_no_worker hC.uniq hI.tokenState hLP hd (k := k) (w := w) hk
    have hp2 : ax_procOk s' = true := by
      have := hX.proc2
      simp only [ax_procOk, h1, List.all_append, Bool.and_eq_true] at this ⊢
      exact ⟨this, by simp [ax_wProc]⟩
    refine ⟨⟨(ax_norm_iff cfg s').2 ⟨hm1, hm2, a2⟩, hwait, ax_handle_frame h5 h9 hA.handle2, a1, a3,
      ?_, ax_procOk_pg hp2⟩, hp2⟩
    rw [ax_launch_iff]
    have hLa := (ax_launch_iff s).1 hA.launch
    intro k w' a hk hq
    rw [h1] at hk
    rcases la_getElem?_append_one hk with hk0 | ⟨hkl, hw'⟩
    · have hai : i ≠ a := by
        intro hia; subst hia; exact hnw k w' hk0 hq
      unfold ax_LOk
      rw [h3, futOf_congr h7, la_getD_set]
      simp only [hai, false_and, if_false]
      exact hLa k w' a hk0 hq
    · subst hw'
      simp only [QId.priv.injEq] at hq
      subst hq
      right; left
      rw [h3, la_getD_set]
      have : i < s.qp.length := by rw [hlen.2.1]; exact hilt
      simp [this, taskIds]

/-- from `privOk`: the private queue of a launched call carries that call only -/
theorem ax_priv_own {s : State Val Err} (hI : LiveInv cfg s) {a k : Nat}
    (h : s.wkOf.getD a none = some k) : ∀ j ∈ taskIds (s.qp.getD a {}), j = a := by
  have hlt : a < s.qp.length := by
    obtain ⟨-, h2, h3⟩ := pg_len cfg hI
    rw [h2, ← h3]
    rcases Nat.lt_or_ge a s.wkOf.length with h1 | h1
    · exact h1
    · simp [List.getD_eq_getElem?_getD, List.getElem?_eq_none h1] at h
  have hp := hI.priv
  simp only [privOk, List.all_eq_true, List.mem_range] at hp
  have := hp a hlt
  simp only [h, Bool.and_eq_true, beq_iff_eq, List.all_eq_true] at this
  intro j hj
  exact this.2 j hj

theorem ax_workerStep (hnf : NoFail eval) {s s' : State Val Err} {k : Nat} {l : Label Val Err}
    (hC : Core s) (hI : LiveInv cfg s) (hX : ax_Aux cfg s)
    (hfs : ∀ j, FutStep (futOf s j) (futOf s' j))
    (h : workerStep eval s k l = some s') : ax_Aux cfg s' := by
  have hA := hX.aux
  obtain ⟨hn1, hn2, hn3⟩ := (ax_norm_iff cfg s).1 hA.norm
  have hS := (la_shape_iff cfg s).1 hI.shape
  obtain ⟨w, w', hk, h1, h2, h3, h4, h5, h6, h7⟩ := ax_workerStep_facts eval hnf hC hI.noDead h
  have hklt := la_getElem?_lt hk
  have heff := le_workerStep_eff eval hnf (fun w hk => le_noDead_wk hI.noDead k w hk) h
  obtain ⟨w0, w0', q', hk0, -, -, e1, e2, e3, e4, e5, -, e6, -, -, -⟩ := heff
  have hw0 : w0 = w := by
    rw [hk] at hk0; exact (Option.some.inj hk0).symm
  subst hw0
  have hqo : s'.qo = s.qo := by
    rw [e6]
    cases hq : w0.q with
    | inner => rfl
    | priv a => rfl
    | outer =>
      exfalso
      cases hb : cfg.block with
      | some n =>
        have := (hS.2.1 n hb).2.2 k w0 hk
        rw [hq] at this; cases this
      | none =>
        obtain ⟨i, hi, -⟩ := (hS.2.2 hb).2 k w0 hk
        rw [hq] at hi; cases hi
  have hp2 : ax_procOk s' = true := by
    have hall := hX.proc2
    simp only [ax_procOk] at hall ⊢
    rw [h1]
    exact la_all_set _ _ _ _ hall (h5 ((List.all_eq_true.1 hall) w0 (List.mem_of_getElem? hk)))
  refine ⟨⟨(ax_norm_iff cfg s').2 ⟨?_, ?_, ?_⟩, ax_wait_frame e3 e4 (fun _ => hqo) hA.wait,
    ax_handle_frame e3 h4 hA.handle2, ax_req_frame cfg e5 hA.req, ax_active_frame h3 e1 hA.active,
    ?_, ax_procOk_pg hp2⟩, hp2⟩
  · rw [ax_normMain_congr cfg e2]; exact hn1
  · rw [ax_normRes_congr cfg e3]; exact hn2
  · rw [ax_normDisp_congr e5]; exact hn3
  · rw [ax_launch_iff]
    have hLa := (ax_launch_iff s).1 hA.launch
    intro k' w2 a hk' hq
    rw [h1] at hk'
    by_cases hkk : k = k'
    · subst hkk
      simp only [List.getElem?_set_self hklt, Option.some.injEq] at hk'
      subst hk'
      rw [h2] at hq
      exact h7 a hq (ax_priv_own cfg hI (pg_shape_priv cfg hI hk hq)) (hLa k w0 a hk hq)
    · rw [List.getElem?_set_ne hkk] at hk'
      have hne : w0.q ≠ .priv a := by
        intro hwq
        exact hkk (la_shape_inj cfg hS hk hk' hwq hq)
      unfold ax_LOk
      rw [h6 a hne]
      rcases hLa k' w2 a hk' hq with h0 | h0 | h0
      · exact Or.inl (ax_done_step (hfs a) h0)
      · exact Or.inr (Or.inl h0)
      · exact Or.inr (Or.inr h0)

/-! ### the auxiliary invariants are inductive -/

theorem ax_aux_init (script : List Cmd) : ax_Aux cfg (init cfg script : State Val Err) := by
  refine ⟨pg_aux_init cfg script, ?_⟩
  cases hb : cfg.block <;> simp [ax_procOk, init, hb, ax_wProc]

/-- Preservation of `pg_Aux` strengthened by `ax_procOk`, by every step of a run without failing
    calls (a block allocation must have at least one worker). -/
theorem ax_aux_step (hnf : NoFail eval) (hpos : ∀ n, cfg.block = some n → 0 < n)
    {s s' : State Val Err} {l : Label Val Err} (hC : Core s) (hL : Live cfg s) (hX : ax_Aux cfg s)
    (h : step cfg eval cancelErr s l = some s') : ax_Aux cfg s' := by
  have hfs : ∀ j, FutStep (futOf s j) (futOf s' j) :=
    fun j => ((core_step_facts cfg eval cancelErr hC h).2.2 j).1
  unfold step at h
  split at h
  all_goals first
    | exact ax_mainStep cfg hL.inv hX hfs h
    | exact ax_resStep cfg cancelErr hpos hL.inv hX hfs h
    | exact ax_dispStep cfg hC hL.inv hL.launch hX hfs h
    | exact ax_workerStep cfg eval hnf hC hL.inv hX hfs h

/-- the strengthened process clause is preserved (corollary of `ax_aux_step`; its proof uses no
    other clause: see `ax_workerStep_facts` and the `dLaunch` case of `ax_dispStep`) -/
theorem ax_procOk_step (hnf : NoFail eval) (hpos : ∀ n, cfg.block = some n → 0 < n)
    {s s' : State Val Err} {l : Label Val Err} (hC : Core s) (hL : Live cfg s) (hA : pg_Aux cfg s)
    (hP : ax_procOk s = true) (h : step cfg eval cancelErr s l = some s') : ax_procOk s' = true :=
  (ax_aux_step cfg eval cancelErr hnf hpos hC hL ⟨hA, hP⟩ h).proc2

/-- Preservation of the auxiliary invariants of the progress theorem.  Extra hypotheses w.r.t. the
    bare statement: `hpos` (a block allocation has at least one worker: otherwise `pg_waitOk` is
    false in a reachable state) and `hP` (`pg_procOk` strengthened: not inductive by itself). -/
theorem pg_aux_step (hnf : NoFail eval) (hpos : ∀ n, cfg.block = some n → 0 < n)
    {s s' : State Val Err} {l : Label Val Err} (hC : Core s) (hL : Live cfg s) (hA : pg_Aux cfg s)
    (hP : ax_procOk s = true) (h : step cfg eval cancelErr s l = some s') : pg_Aux cfg s' :=
  (ax_aux_step cfg eval cancelErr hnf hpos hC hL ⟨hA, hP⟩ h).aux

/-! ### the script budget -/

theorem ax_main_idle_budget {s s' : State Val Err} {l : Label Val Err} (hm : s.mainPc = .idle)
    (hb : s.nsub + (s.script.filter isSubmit).length ≤ cfg.calls.length)
    (h : mainStep cfg s l = some s') :
    s'.nsub + (s'.script.filter isSubmit).length ≤ cfg.calls.length := by
  unfold mainStep at h
  split at h
  rotate_left 5
  · rename_i sd0 hm0; rw [hm] at hm0; cases hm0
  · cases h
  all_goals (split_step h)
  all_goals (simp only [Option.some.injEq] at h; subst h)
  all_goals (first
    | (simp_all [isSubmit, List.filter_cons]; done)
    | (simp_all [isSubmit, List.filter_cons]; omega))

theorem ax_mainStep_budget {s s' : State Val Err} {l : Label Val Err}
    (hb : s.nsub + (s.script.filter isSubmit).length ≤ cfg.calls.length)
    (h : mainStep cfg s l = some s') :
    s'.nsub + (s'.script.filter isSubmit).length ≤ cfg.calls.length := by
  cases hm : s.mainPc with
  | idle => exact ax_main_idle_budget cfg hm hb h
  | inSd sd =>
    obtain ⟨s1, r, hsd, hcase⟩ := ax_main_inSd cfg hm h
    obtain ⟨-, -, e3, e4, -⟩ := ax_sdStep_frame cfg hsd
    rcases hcase with ⟨sd', -, hs'⟩ | ⟨-, hs'⟩ | ⟨e, -, hs'⟩
    · subst hs'; simp only [e3, e4]; exact hb
    · subst hs'; simp only [e3, e4]; exact hb
    · subst hs'; simp only [e3, e4]; exact hb

theorem ax_resStep_script {s s' : State Val Err} {l : Label Val Err}
    (h : resStep cfg cancelErr s l = some s') : s'.script = s.script ∧ s'.nsub = s.nsub := by
  have h0 := h
  unfold resStep at h
  split at h
  · cases h
  rename_i pc hr
  split at h
  case h_13 =>
    clear h
    obtain ⟨-, s1, r, hsd, hcase⟩ := ax_res_inSd cfg cancelErr hr h0
    obtain ⟨-, -, e3, e4, -⟩ := ax_sdStep_frame cfg hsd
    rcases hcase with ⟨sd', -, hs'⟩ | ⟨-, hs'⟩ | ⟨e, -, hs'⟩
    · subst hs'; exact ⟨e3, e4⟩
    · subst hs'; exact ⟨e3, e4⟩
    · subst hs'; exact ⟨e3, e4⟩
  case h_16 => cases h
  all_goals (clear h0; split_step h)
  all_goals (simp only [Option.some.injEq] at h; subst h)
  all_goals (constructor <;> simp)

theorem ax_dispStep_script {s s' : State Val Err} {l : Label Val Err}
    (h : dispStep cfg s l = some s') : s'.script = s.script ∧ s'.nsub = s.nsub := by
  unfold dispStep at h
  split at h
  · cases h
  split_step h
  all_goals (simp only [Option.some.injEq] at h; subst h)
  all_goals (constructor <;> simp)

theorem ax_workerStep_script {s s' : State Val Err} {k : Nat} {l : Label Val Err}
    (h : workerStep eval s k l = some s') : s'.script = s.script ∧ s'.nsub = s.nsub := by
  unfold workerStep at h
  split at h
  · cases h
  split_step h
  all_goals (simp only [Option.some.injEq] at h; subst h)
  all_goals (constructor <;> simp)

/-- the user script never submits more calls than the program has:
    invariant `nsub + remaining submits ≤ #calls` -/
theorem submit_budget_step {s s' : State Val Err} {l : Label Val Err}
    (hb : s.nsub + (s.script.filter isSubmit).length ≤ cfg.calls.length)
    (h : step cfg eval cancelErr s l = some s') :
    s'.nsub + (s'.script.filter isSubmit).length ≤ cfg.calls.length := by
  unfold step at h
  split at h
  all_goals first
    | exact ax_mainStep_budget cfg hb h
    | (have e := ax_resStep_script cfg cancelErr h; rw [e.1, e.2]; exact hb)
    | (have e := ax_dispStep_script cfg h; rw [e.1, e.2]; exact hb)
    | (have e := ax_workerStep_script eval h; rw [e.1, e.2]; exact hb)

/-! ### everything along a run -/

theorem ax_progress_run (hnf : NoFail eval) (hpos : ∀ n, cfg.block = some n → 0 < n)
    {s0 s : State Val Err} (ls : List (Label Val Err)) (hC : Core s0) (hL : Live cfg s0)
    (hX : ax_Aux cfg s0) (hb : s0.nsub + (s0.script.filter isSubmit).length ≤ cfg.calls.length)
    (h : run cfg eval cancelErr s0 ls = some s) :
    Core s ∧ Live cfg s ∧ ax_Aux cfg s ∧ s.nsub + (s.script.filter isSubmit).length ≤ cfg.calls.length := by
  induction ls generalizing s0 with
  | nil => simp [run] at h; subst h; exact ⟨hC, hL, hX, hb⟩
  | cons l ls ih =>
    simp only [run, Option.bind_eq_some_iff] at h
    obtain ⟨s1, h1, h2⟩ := h
    exact ih (core_step cfg eval cancelErr hC h1) (live_step cfg eval cancelErr hnf hC hL h1)
      (ax_aux_step cfg eval cancelErr hnf hpos hC hL hX h1)
      (submit_budget_step cfg eval cancelErr hb h1) h2

/-- the same with the strengthened bundle `ax_Aux` (= `pg_Aux` ∧ `ax_procOk`) -/
theorem ax_progress_hyps_reachable (hnf : NoFail eval) (hpos : ∀ n, cfg.block = some n → 0 < n)
    {script : List Cmd} {s : State Val Err}
    (hsc : (script.filter isSubmit).length ≤ cfg.calls.length)
    (h : Reachable cfg eval cancelErr script s) :
    Core s ∧ Live cfg s ∧ ax_Aux cfg s ∧ s.nsub + (s.script.filter isSubmit).length ≤ cfg.calls.length := by
  obtain ⟨ls, hls⟩ := h
  refine ax_progress_run cfg eval cancelErr hnf hpos ls (core_init cfg script) (live_init cfg script)
    (ax_aux_init cfg script) ?_ hls
  simpa [init] using hsc

/-- everything the progress theorem needs, in every reachable state of a run without failing calls
    (extra hypothesis `hpos`: a block allocation has at least one worker) -/
theorem progress_hyps_reachable (hnf : NoFail eval) (hpos : ∀ n, cfg.block = some n → 0 < n)
    {script : List Cmd} {s : State Val Err}
    (hsc : (script.filter isSubmit).length ≤ cfg.calls.length)
    (h : Reachable cfg eval cancelErr script s) :
    Core s ∧ Live cfg s ∧ pg_Aux cfg s ∧ s.nsub + (s.script.filter isSubmit).length ≤ cfg.calls.length := by
  obtain ⟨h1, h2, h3, h4⟩ := ax_progress_hyps_reachable cfg eval cancelErr hnf hpos hsc h
  exact ⟨h1, h2, h3.aux, h4⟩

/-- with `WfRes` as the hypothesis about the configuration -/
theorem progress_hyps_reachable_wfRes (hnf : NoFail eval) (hres : WfRes cfg)
    {script : List Cmd} {s : State Val Err}
    (hsc : (script.filter isSubmit).length ≤ cfg.calls.length)
    (h : Reachable cfg eval cancelErr script s) :
    Core s ∧ Live cfg s ∧ pg_Aux cfg s ∧ s.nsub + (s.script.filter isSubmit).length ≤ cfg.calls.length :=
  progress_hyps_reachable cfg eval cancelErr hnf hres.2 hsc h

/-- with the limit-level hypothesis `WfLim` (weaker than `WfRes` on the program: nothing is asked
    of the calls) -/
theorem progress_hyps_reachable_wfLim (hnf : NoFail eval) (hl : WfLim cfg)
    {script : List Cmd} {s : State Val Err}
    (hsc : (script.filter isSubmit).length ≤ cfg.calls.length)
    (h : Reachable cfg eval cancelErr script s) :
    Core s ∧ Live cfg s ∧ pg_Aux cfg s ∧ s.nsub + (s.script.filter isSubmit).length ≤ cfg.calls.length :=
  progress_hyps_reachable cfg eval cancelErr hnf hl.1 hsc h

/-! ### the failure labels are not enabled in runs without failing calls -/

theorem ax_sd_raise_none {s : State Val Err} (hD : noDead s = true) (sd : Sd) (b : Bool) :
    sdStep cfg s sd (.sdJoinThreadRaise b) = none := by
  cases h : sdStep cfg s sd (.sdJoinThreadRaise b) with
  | none => rfl
  | some p =>
    exfalso
    obtain ⟨s1, r⟩ := p
    have hT := la_threadEnded_noDead hD
    unfold sdStep at h
    split_step h
    all_goals (first
      | (simp at h; done)
      | (simp_all; done))

theorem ax_fail_disabled (hnf : NoFail eval) {s : State Val Err} (hD : noDead s = true) :
    (∀ k, step cfg eval cancelErr s (.wFailA k) = none ∧ step cfg eval cancelErr s (.wFailB k) = none ∧
      step cfg eval cancelErr s (.wFailC k) = none) ∧
    (∀ b, step cfg eval cancelErr s (.sdJoinThreadRaise b) = none) ∧
    step cfg eval cancelErr s .dJoinThreadRaise = none := by
  have hT := la_threadEnded_noDead hD
  refine ⟨?_, ?_, ?_⟩
  · intro k
    cases hk : s.wk[k]? with
    | none => simp [step, workerStep, hk]
    | some w =>
      have hwd := le_noDead_wk hD k w hk
      refine ⟨?_, ?_, ?_⟩
      · cases hpc : w.pc <;> simp [step, workerStep, hk, hpc]
        rename_i i vs
        obtain ⟨v, hv⟩ := hnf i vs
        simp [hv]
      · cases hpc : w.pc <;> simp_all [step, workerStep, wDead]
      · cases hpc : w.pc <;> simp_all [step, workerStep, wDead]
  · intro b
    cases b with
    | false =>
      cases hm : s.mainPc with
      | idle => simp [step, mainStep, hm]
      | inSd sd => simp [step, mainStep, hm, ax_sd_raise_none cfg hD]
    | true =>
      cases hr : s.res with
      | none => simp [step, resStep, hr]
      | some pc => cases pc <;> simp [step, resStep, hr, ax_sd_raise_none cfg hD]
  · cases hd : s.disp with
    | none => simp [step, dispStep, hd]
    | some pc =>
      cases pc <;> simp [step, dispStep, hd]
      rename_i ts
      cases ts with
      | nil => simp
      | cons t ts =>
        simp only
        split
        · rename_i e he; exact absurd he (hT t e)
        · rfl

end ExecModel.Sys
