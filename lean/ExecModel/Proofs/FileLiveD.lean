import ExecModel.Proofs.FileLiveC
/-!
  Liveness of the file-based executor, part D: `LiveInv` is preserved by `writeInput`, `launch`,
  `collect` and by the worker-process labels; `liveInv_step`, `liveInv_run`.
-/
namespace ExecModel.FileExec

variable {K V : Type} [DecidableEq K]

/-! ### list and directory helpers -/

theorem outB_set_eq (d : Dir K V) (k : K) (f : KeyFiles V) (hf : f.out = (Dir.get d k).out) (k' : K) :
    outB (Dir.set d k f) k' = outB d k' := by
  simp only [outB, Dir.get_set]
  split
  · rename_i hk; subst hk; rw [hf]
  · rfl

omit [DecidableEq K] in
theorem procW_le (pc : PPc V) : procW pc ≤ 5 := by
  cases pc <;> simp [procW]

theorem procEnded_spec {s : State K V} {k : K} (h : procEnded s k = true) {p : Nat} {pr : Proc K V}
    (hp : s.procs[p]? = some pr) (hk : pr.key = k) : pr.pc = .exited ∨ pr.pc = .crashed := by
  have hm := List.mem_of_getElem? hp
  have := List.all_eq_true.mp h pr hm
  simp only [Bool.or_eq_true, decide_eq_true_eq] at this
  rcases this with h | h
  · exact absurd hk h
  · cases hpc : pr.pc <;> rw [hpc] at h <;> simp at h
    · exact Or.inl rfl
    · exact Or.inr rfl

theorem getElem?_append_singleton {α : Type} (l : List α) (a b : α) (q : Nat) (h : (l ++ [a])[q]? = some b) :
    l[q]? = some b ∨ (q = l.length ∧ b = a) := by
  rw [List.getElem?_append] at h
  split at h
  · exact Or.inl h
  · rename_i hge
    right
    cases hq : q - l.length with
    | zero =>
      rw [hq] at h
      simp only [List.getElem?_cons_zero, Option.some.injEq] at h
      exact ⟨by omega, h.symm⟩
    | succ n =>
      rw [hq] at h
      simp at h

theorem getElem?_append_of_some {α : Type} {l : List α} {b : α} {q : Nat} (a : α) (h : l[q]? = some b) :
    (l ++ [a])[q]? = some b := by
  obtain ⟨hlt, _⟩ := List.getElem?_eq_some_iff.mp h
  rw [List.getElem?_append_left hlt]
  exact h

theorem mem_eraseIdx_or {α : Type} {l : List α} {n : Nat} {a b : α} (h : l[n]? = some b) (ha : a ∈ l) :
    a = b ∨ a ∈ l.eraseIdx n := by
  obtain ⟨m, hm⟩ := List.getElem?_of_mem ha
  by_cases hmn : m = n
  · subst hmn
    rw [hm] at h
    cases h
    exact Or.inl rfl
  · exact Or.inr (List.mem_eraseIdx_iff_getElem?.mpr ⟨m, hmn, hm⟩)

omit [DecidableEq K] in
/-- a process keeps its key when a program counter is updated -/
theorem set_pc_fwd {l : List (Proc K V)} {p q : Nat} {pr prq : Proc K V} (pc' : PPc V) (hp : l[p]? = some pr)
    (hq : l[q]? = some prq) : ∃ prq', (l.set p { pr with pc := pc' })[q]? = some prq' ∧ prq'.key = prq.key := by
  rw [List.getElem?_set]
  by_cases hpq : p = q
  · subst hpq
    rw [hp] at hq
    cases hq
    obtain ⟨hlt, _⟩ := List.getElem?_eq_some_iff.mp hp
    exact ⟨{ pr with pc := pc' }, by rw [if_pos rfl, if_pos hlt], rfl⟩
  · exact ⟨prq, by rw [if_neg hpq]; exact hq, rfl⟩

omit [DecidableEq K] in
theorem set_pc_bwd {l : List (Proc K V)} {p q : Nat} {pr prq : Proc K V} (pc' : PPc V) (hp : l[p]? = some pr)
    (hq : (l.set p { pr with pc := pc' })[q]? = some prq) : ∃ prq', l[q]? = some prq' ∧ prq'.key = prq.key := by
  rw [List.getElem?_set] at hq
  split at hq
  · rename_i hpq
    subst hpq
    split at hq
    · cases hq
      exact ⟨pr, hp, rfl⟩
    · cases hq
  · exact ⟨prq, hq, rfl⟩

section Step
variable (ncalls : Nat) (deps : Nat → List Nat) (key : Nat → K) (eval : Nat → List V → V)

theorem liveInv_writeInput {s : State K V} (hI : LiveInv deps key s) (i : Nat) (hl : s.loop = .writeIn i) :
    LiveInv deps key { s with dir := Dir.set s.dir (key i) { Dir.get s.dir (key i) with inp := true, staleInp := false },
                              loop := .waitDeps i } := by
  have hout : ∀ k, outB (Dir.set s.dir (key i) { Dir.get s.dir (key i) with inp := true, staleInp := false }) k
      = outB s.dir k := outB_set_eq _ _ _ rfl
  have hf := hI.fresh i (Or.inl hl)
  refine ⟨by simp, ?_, ?_, ?_, ?_, ?_, ?_, ?_, hI.uniq⟩
  · intro a ha
    rcases hI.cls a ha with h | h | h | h | h
    · exact Or.inl h
    · rw [hl] at h
      exact Or.inr (Or.inl h)
    · exact Or.inr (Or.inr (Or.inl h))
    · exact Or.inr (Or.inr (Or.inr (Or.inl h)))
    · exact Or.inr (Or.inr (Or.inr (Or.inr h)))
  · intro a x hx
    exact (hout _).trans (hI.finOut a x hx)
  · intro k a ha
    rcases hI.memOut k a ha with h | h
    · exact Or.inl ((hout _).trans h)
    · exact Or.inr h
  · intro a ha j hj
    have ha' : held (.waitDeps i : LPc K) = some a := ha
    rcases hI.heldDeps a (by rw [hl]; exact ha') j hj with h | h
    · exact Or.inl h
    · exact Or.inr ((hout _).trans h)
  · intro a ha
    have ha' : (LPc.waitDeps i : LPc K) = .writeIn a ∨ (LPc.waitDeps i : LPc K) = .waitDeps a := ha
    rcases ha' with h | h <;> cases h
    exact ⟨hf.1, (hout _).trans hf.2⟩
  · intro a ha
    have ha' : (LPc.waitDeps i : LPc K) = .waitDeps a := ha
    cases ha'
    show (Dir.get (Dir.set s.dir (key i) _) (key i)).inp = true
    rw [Dir.get_set_self]
  · intro p pr hp
    refine (hI.procs p pr hp).mono (fun k h => (hout k).trans h) ?_ (fun h => Or.inl h)
    intro _ hinp
    show (Dir.get (Dir.set s.dir (key i) _) pr.key).inp = true
    rw [Dir.get_set]
    split
    · rfl
    · exact hinp

theorem liveInv_launch {s : State K V} (hI : LiveInv deps key s) (i : Nat) (hl : s.loop = .waitDeps i)
    (hend : ∀ j ∈ deps i, (memGet s.memory (key j)).isSome = true → procEnded s (key j) = true) :
    LiveInv deps key { s with procs := s.procs ++ [{ key := key i, call := i }], launched := s.launched ++ [key i],
                              memory := s.memory ++ [(key i, i)], loop := .idle } := by
  have hf := hI.fresh i (Or.inr hl)
  have hnone : ∀ (p : Nat) (pr : Proc K V), s.procs[p]? = some pr → pr.key ≠ key i := by
    intro p pr hp hk
    have := (hI.procs p pr hp).2.2.2.2
    rw [hk] at this
    rcases this with h | h
    · rw [hf.1] at h; cases h
    · rw [hf.2] at h; cases h
  have hdeps : ∀ j ∈ deps i, outB s.dir (key j) = true := by
    intro j hj
    rcases hI.heldDeps i (by rw [hl]; rfl) j hj with h | h
    · obtain ⟨a, ha⟩ := mem_of_memGet_isSome h
      rcases hI.memOut _ a ha with ho | ⟨p, pr, hp, hk⟩
      · exact ho
      · have hpl := hI.procs p pr hp
        rcases procEnded_spec (hend j hj h) hp hk with he | he
        · rw [← hk]; exact hpl.2.2.2.1 he
        · exact absurd he hpl.2.1
    · exact h
  refine ⟨by simp, ?_, hI.finOut, ?_, ?_, ?_, ?_, ?_, ?_⟩
  · intro a ha
    rcases hI.cls a ha with h | h | ⟨k, h⟩ | h | h
    · exact Or.inl h
    · rw [hl] at h
      simp only [held, Option.some.injEq] at h
      subst h
      exact Or.inr (Or.inr (Or.inl ⟨key i, List.mem_append_right _ List.mem_cons_self⟩))
    · exact Or.inr (Or.inr (Or.inl ⟨k, List.mem_append_left _ h⟩))
    · exact Or.inr (Or.inr (Or.inr (Or.inl h)))
    · exact Or.inr (Or.inr (Or.inr (Or.inr h)))
  · intro k a ha
    have ha' : (k, a) ∈ s.memory ++ [(key i, i)] := ha
    rw [List.mem_append, List.mem_singleton] at ha'
    rcases ha' with ha' | ha'
    · rcases hI.memOut k a ha' with h | ⟨p, pr, hp, hk⟩
      · exact Or.inl h
      · exact Or.inr ⟨p, pr, getElem?_append_of_some _ hp, hk⟩
    · cases ha'
      refine Or.inr ⟨s.procs.length, { key := key i, call := i }, ?_, rfl⟩
      show (s.procs ++ [_])[s.procs.length]? = some _
      rw [List.getElem?_append_right (Nat.le_refl _), Nat.sub_self]
      rfl
  · intro a ha
    have ha' : held (.idle : LPc K) = some a := ha
    simp [held] at ha'
  · intro a ha
    have ha' : (LPc.idle : LPc K) = .writeIn a ∨ (LPc.idle : LPc K) = .waitDeps a := ha
    rcases ha' with h | h <;> cases h
  · intro a ha
    have ha' : (LPc.idle : LPc K) = .waitDeps a := ha
    cases ha'
  · intro p pr hp
    have hp' : (s.procs ++ [{ key := key i, call := i }])[p]? = some pr := hp
    rcases getElem?_append_singleton _ _ _ _ hp' with h | ⟨_, h⟩
    · exact (hI.procs p pr h).mono (fun _ h => h) (fun _ h => h) (fun h => Or.inl (memGet_append_isSome _ h))
    · subst h
      refine ⟨rfl, by simp, fun _ => ⟨hI.waitInp i hl, hdeps⟩, (fun h => by cases h), Or.inl ?_⟩
      exact memGet_isSome_of_mem (List.mem_append_right _ List.mem_cons_self)
  · intro p q prp prq hp hq hk
    have hp' : (s.procs ++ [{ key := key i, call := i }])[p]? = some prp := hp
    have hq' : (s.procs ++ [{ key := key i, call := i }])[q]? = some prq := hq
    rcases getElem?_append_singleton _ _ _ _ hp' with h1 | ⟨h1, h1'⟩
    · rcases getElem?_append_singleton _ _ _ _ hq' with h2 | ⟨h2, h2'⟩
      · exact hI.uniq p q prp prq h1 h2 hk
      · subst h2'
        exact absurd hk (hnone p prp h1)
    · rcases getElem?_append_singleton _ _ _ _ hq' with h2 | ⟨h2, h2'⟩
      · subst h1'
        exact absurd hk.symm (hnone q prq h2)
      · omega

theorem liveInv_collect {s : State K V} (hQ : QInv ncalls key s) (hI : LiveInv deps key s) (n : Nat) (kk : K) (i : Nat) (x : V)
    (hl : s.loop = .idle) (hm : s.memory[n]? = some (kk, i)) (hx : (Dir.get s.dir kk).out = some x) :
    LiveInv deps key { s with fut := s.fut.set i (.finished x), memory := s.memory.eraseIdx n } := by
  have hmem : (kk, i) ∈ s.memory := List.mem_of_getElem? hm
  have hq := hQ.mem kk i hmem
  have hilen : i < s.fut.length := by
    rw [hQ.futLen]; have := hQ.nsubLe; omega
  have hout : outB s.dir kk = true := by simp [outB, hx]
  have hfut : ∀ a, futOf { s with fut := s.fut.set i (.finished x), memory := s.memory.eraseIdx n } a =
      if i = a ∧ i < s.fut.length then .finished x else futOf s a := fun a => getD_set_fut _ _ _ _
  refine ⟨hI.notDead, ?_, ?_, ?_, ?_, ?_, ?_, ?_, hI.uniq⟩
  · intro a ha
    have hfin : ∀ y, futOf s a = .finished y →
        ∃ y', futOf { s with fut := s.fut.set i (.finished x), memory := s.memory.eraseIdx n } a = .finished y' := by
      intro y hy
      rw [hfut]
      split
      · exact ⟨x, rfl⟩
      · exact ⟨y, hy⟩
    rcases hI.cls a ha with h | h | ⟨k, h⟩ | h | ⟨y, h⟩
    · exact Or.inl h
    · exact Or.inr (Or.inl h)
    · rcases mem_eraseIdx_or hm h with he | he
      · cases he
        refine Or.inr (Or.inr (Or.inr (Or.inr ⟨x, ?_⟩)))
        rw [hfut, if_pos ⟨rfl, hilen⟩]
      · exact Or.inr (Or.inr (Or.inl ⟨k, he⟩))
    · exact Or.inr (Or.inr (Or.inr (Or.inl h)))
    · exact Or.inr (Or.inr (Or.inr (Or.inr (hfin y h))))
  · intro a y hy
    rw [hfut] at hy
    split at hy
    · rename_i hia
      obtain ⟨rfl, _⟩ := hia
      rw [← hq.1]
      exact hout
    · exact hI.finOut a y hy
  · intro k a ha
    exact hI.memOut k a (List.mem_of_mem_eraseIdx ha)
  · intro a ha
    have ha' : held s.loop = some a := ha
    rw [hl] at ha'
    simp [held] at ha'
  · intro a ha
    have ha' : s.loop = .writeIn a ∨ s.loop = .waitDeps a := ha
    rw [hl] at ha'
    rcases ha' with h | h <;> cases h
  · intro a ha
    have ha' : s.loop = .waitDeps a := ha
    rw [hl] at ha'
    cases ha'
  · intro p pr hp
    refine (hI.procs p pr hp).mono (fun _ h => h) (fun _ h => h) ?_
    intro hms
    obtain ⟨a, ha⟩ := mem_of_memGet_isSome hms
    rcases mem_eraseIdx_or hm ha with he | he
    · cases he
      exact Or.inr hout
    · exact Or.inl (memGet_isSome_of_mem he)

theorem liveInv_proc {s : State K V} (hI : LiveInv deps key s) (p : Nat) (pr : Proc K V) (pc' : PPc V) (d' : Dir K V)
    (e' : List Nat) (hpr : s.procs[p]? = some pr) (hF : PFacts deps key s.dir pr pc' d') :
    LiveInv deps key { s with procs := s.procs.set p { pr with pc := pc' }, dir := d', executed := e' } := by
  have hpl := hI.procs p pr hpr
  have hfk : ∀ i, (s.loop = .writeIn i ∨ s.loop = .waitDeps i) → key i ≠ pr.key := by
    intro i hi hk
    have hf := hI.fresh i hi
    have := hpl.2.2.2.2
    rw [← hk] at this
    rcases this with h | h
    · rw [hf.1] at h; cases h
    · rw [hf.2] at h; cases h
  refine ⟨hI.notDead, hI.cls, ?_, ?_, ?_, ?_, ?_, ?_, ?_⟩
  · intro i x hx
    exact hF.outMono _ (hI.finOut i x hx)
  · intro k a ha
    rcases hI.memOut k a ha with h | ⟨q, prq, hq, hk⟩
    · exact Or.inl (hF.outMono _ h)
    · obtain ⟨prq', h1, h2⟩ := set_pc_fwd pc' hpr hq
      exact Or.inr ⟨q, prq', h1, h2.trans hk⟩
  · intro a ha j hj
    rcases hI.heldDeps a ha j hj with h | h
    · exact Or.inl h
    · exact Or.inr (hF.outMono _ h)
  · intro i hi
    have hf := hI.fresh i hi
    refine ⟨hf.1, ?_⟩
    show outB d' (key i) = false
    rw [outB, hF.getOther _ (hfk i hi)]
    exact hf.2
  · intro i hi
    show (Dir.get d' (key i)).inp = true
    rw [hF.getOther _ (hfk i (Or.inr hi))]
    exact hI.waitInp i hi
  · intro q prq hq
    have hq' : (s.procs.set p { pr with pc := pc' })[q]? = some prq := hq
    rw [List.getElem?_set] at hq'
    split at hq'
    · split at hq'
      · cases hq'
        refine ⟨hpl.1, ?_, ?_, hF.exitedOut, hpl.2.2.2.2.imp id (hF.outMono _)⟩
        · intro hc
          have := hF.crashedOnly hc
          exact this.2 (hpl.2.2.1 this.1)
        · intro hs
          have hs' : pc' = .started := hs
          have h1 := hF.lt
          have h2 := procW_le pr.pc
          rw [hs'] at h1
          have h3 : procW (PPc.started : PPc V) = 5 := rfl
          omega
      · cases hq'
    · rename_i hne
      refine (hI.procs q prq hq').mono hF.outMono ?_ (fun h => Or.inl h)
      intro _ hinp
      show (Dir.get d' prq.key).inp = true
      rw [hF.getOther _ (fun hk => hne (hI.uniq p q pr prq hpr hq' hk.symm))]
      exact hinp
  · intro p1 q1 a b ha hb hk
    obtain ⟨a0, ha0, hka⟩ := set_pc_bwd pc' hpr ha
    obtain ⟨b0, hb0, hkb⟩ := set_pc_bwd pc' hpr hb
    exact hI.uniq p1 q1 a0 b0 ha0 hb0 (hka.trans (hk.trans hkb.symm))

/-- `LiveInv` (with `QInv`) is preserved by every label other than a crash, for the repaired code -/
theorem liveInv_step {s s' : State K V} {l : Label} (hc : crashLabel l = false) (hQ : QInv ncalls key s)
    (hI : LiveInv deps key s) (h : step ⟨true, true⟩ ncalls deps key eval s l = some s') : LiveInv deps key s' := by
  cases hp : procLabel l with
  | some p =>
    obtain ⟨pr, pc', d', e', hpr, hF, rfl⟩ := step_proc ⟨true, true⟩ ncalls deps key eval hp h
    exact liveInv_proc deps key hI p pr pc' d' e' hpr hF
  | none =>
  cases l <;> (try (simp only [procLabel] at hp; cases hp; done)) <;> (try (simp only [crashLabel] at hc; cases hc; done))
  case submit =>
    obtain ⟨hlt, rfl⟩ := step_submit ⟨true, true⟩ ncalls deps key eval h
    exact liveInv_submit deps key hI
  case take =>
    obtain ⟨i, rest, hl, hq, hall, rfl⟩ := step_take ⟨true, true⟩ ncalls deps key eval h
    exact liveInv_take deps key hI i rest hl hq hall
  case lookup =>
    obtain ⟨i, hl, hcase⟩ := step_lookup ⟨true, true⟩ ncalls deps key eval h
    rcases hcase with ⟨_, rfl⟩ | ⟨_, ho, rfl⟩ | ⟨hm, ho, rfl⟩
    · exact liveInv_lookup_drop deps key hI i hl
    · exact liveInv_lookup_cached deps key hI i hl ho
    · exact liveInv_lookup_new deps key hI i hl hm ho
  case writeInput =>
    obtain ⟨i, hl, rfl⟩ := step_writeInput ncalls deps key eval h
    exact liveInv_writeInput deps key hI i hl
  case launch =>
    obtain ⟨i, hl, hend, rfl⟩ := step_launch ncalls deps key eval h
    exact liveInv_launch deps key hI i hl hend
  case collect n =>
    obtain ⟨kk, i, x, hl, hm, hx, rfl⟩ := step_collect ⟨true, true⟩ ncalls deps key eval h
    exact liveInv_collect ncalls deps key hQ hI n kk i x hl hm hx

theorem liveInv_run {s s' : State K V} (ls : List Label) (hc : CrashFree ls) (hQ : QInv ncalls key s)
    (hI : LiveInv deps key s) (h : run ⟨true, true⟩ ncalls deps key eval s ls = some s') :
    QInv ncalls key s' ∧ LiveInv deps key s' := by
  induction ls generalizing s with
  | nil => simp only [run] at h; cases h; exact ⟨hQ, hI⟩
  | cons l ls ih =>
    simp only [run] at h
    cases hs : step ⟨true, true⟩ ncalls deps key eval s l with
    | none => rw [hs] at h; cases h
    | some s₁ =>
      rw [hs] at h
      exact ih (crashFree_cons hc).2 (qinv_step _ ncalls deps key eval hQ hs)
        (liveInv_step ncalls deps key eval (crashFree_cons hc).1 hQ hI hs) h

end Step
end ExecModel.FileExec
