import ExecModel.Proofs.FileProofs
/-!
  Liveness of the file-based executor, part A: crash labels, stuck states, the termination measure
  (every crash-free run from the initial state has at most `11 * ncalls` labels), and the
  description of what each step does to the state (`step_*` lemmas).
-/
namespace ExecModel.FileExec

variable {K V : Type} [DecidableEq K]

/-- the two crash labels -/
def crashLabel : Label → Bool
  | .crashProc _ => true
  | .crashWrite _ => true
  | _ => false

/-- a run without crash labels -/
def CrashFree (ls : List Label) : Prop := ls.all (fun l => !crashLabel l) = true

omit [DecidableEq K] in
theorem crashFree_cons {l : Label} {ls : List Label} (h : CrashFree (l :: ls)) :
    crashLabel l = false ∧ CrashFree ls := by
  simp only [CrashFree, List.all_cons, Bool.and_eq_true, Bool.not_eq_true'] at h
  exact ⟨h.1, h.2⟩

/-! ### the termination measure -/

/-- remaining steps of a worker process -/
def procW : PPc V → Nat
  | .started => 5
  | .loaded _ => 4
  | .called _ => 3
  | .staged _ => 2
  | .written _ => 1
  | .exited => 0
  | .crashed => 0

/-- remaining steps of the loop thread for the task it holds, including the launched process (5),
    the later `collect` (1) and the `launch` itself (1) -/
def loopW : LPc K → Nat
  | .idle => 0
  | .converted _ => 9
  | .writeIn _ => 8
  | .waitDeps _ => 7
  | .dead => 0

def procsW (l : List (Proc K V)) : Nat := (l.map (fun p => procW p.pc)).sum

/-- the measure: 11 labels per call not yet submitted, 10 per queued call, … -/
def mu (ncalls : Nat) (s : State K V) : Nat :=
  11 * (ncalls - s.nsub) + 10 * s.queue.length + loopW s.loop + s.memory.length + procsW s.procs

omit [DecidableEq K] in
theorem procsW_set (l : List (Proc K V)) (p : Nat) (pr pr' : Proc K V) (h : l[p]? = some pr) :
    procsW (l.set p pr') + procW pr.pc = procsW l + procW pr'.pc := by
  induction l generalizing p with
  | nil => simp at h
  | cons a l ih =>
    cases p with
    | zero =>
      simp only [List.getElem?_cons_zero, Option.some.injEq] at h
      subst h
      simp only [procsW, List.set_cons_zero, List.map_cons, List.sum_cons]
      omega
    | succ p =>
      simp only [List.getElem?_cons_succ] at h
      have := ih p h
      simp only [procsW, List.set_cons_succ, List.map_cons, List.sum_cons] at this ⊢
      omega

omit [DecidableEq K] in
theorem procsW_append (l : List (Proc K V)) (pr : Proc K V) : procsW (l ++ [pr]) = procsW l + procW pr.pc := by
  simp [procsW]

/-! ### memory and directory lemmas -/

/-- `<key>.h5out` exists -/
def outB (d : Dir K V) (k : K) : Bool := (Dir.get d k).out.isSome

theorem outB_set_mono (d : Dir K V) (k : K) (f : KeyFiles V)
    (hf : (Dir.get d k).out.isSome = true → f.out.isSome = true) (k' : K) (h : outB d k' = true) :
    outB (Dir.set d k f) k' = true := by
  simp only [outB, Dir.get_set] at h ⊢
  split
  · rename_i hk; subst hk; exact hf h
  · exact h

theorem memGet_isSome_of_mem {m : List (K × Nat)} {k : K} {i : Nat} (h : (k, i) ∈ m) :
    (memGet m k).isSome = true := by
  induction m with
  | nil => cases h
  | cons e m ih =>
    obtain ⟨k', i'⟩ := e
    simp only [memGet]
    split
    · rfl
    · rename_i hne
      simp only [List.mem_cons, Prod.mk.injEq] at h
      rcases h with ⟨rfl, _⟩ | h
      · exact absurd rfl hne
      · exact ih h

theorem mem_of_memGet_isSome {m : List (K × Nat)} {k : K} (h : (memGet m k).isSome = true) :
    ∃ i, (k, i) ∈ m := by
  induction m with
  | nil => simp [memGet] at h
  | cons e m ih =>
    obtain ⟨k', i'⟩ := e
    simp only [memGet] at h
    split at h
    · rename_i hk; subst hk; exact ⟨i', List.mem_cons_self⟩
    · obtain ⟨i, hi⟩ := ih h
      exact ⟨i, List.mem_cons_of_mem _ hi⟩

theorem memGet_append_isSome {m : List (K × Nat)} {k : K} (e : List (K × Nat)) (h : (memGet m k).isSome = true) :
    (memGet (m ++ e) k).isSome = true := by
  obtain ⟨i, hi⟩ := mem_of_memGet_isSome h
  exact memGet_isSome_of_mem (List.mem_append_left _ hi)

theorem inputsFrom_some (key : Nat → K) (d : Dir K V) (js : List Nat) (h : ∀ j ∈ js, outB d (key j) = true) :
    ∃ vs, inputsFrom key d js = some vs := by
  induction js with
  | nil => exact ⟨[], rfl⟩
  | cons j js ih =>
    obtain ⟨vs, hvs⟩ := ih (fun j' hj' => h j' (List.mem_cons_of_mem _ hj'))
    have hj := h j List.mem_cons_self
    simp only [outB, Option.isSome_iff_exists] at hj
    obtain ⟨x, hx⟩ := hj
    exact ⟨x :: vs, by simp only [inputsFrom, hx, hvs]⟩

/-- what a step of worker process `pr` to the program counter `pc'` does to the directory -/
structure PFacts (deps : Nat → List Nat) (key : Nat → K) (d : Dir K V) (pr : Proc K V) (pc' : PPc V) (d' : Dir K V) : Prop where
  lt : procW pc' < procW pr.pc
  outMono : ∀ k, outB d k = true → outB d' k = true
  getOther : ∀ k, k ≠ pr.key → Dir.get d' k = Dir.get d k
  exitedOut : pc' = .exited → outB d' pr.key = true
  crashedOnly : pc' = .crashed → pr.pc = .started ∧
    ¬ ((Dir.get d pr.key).inp = true ∧ ∀ j ∈ deps pr.call, outB d (key j) = true)

/-- the worker-process labels -/
def procLabel : Label → Option Nat
  | .pLoad p | .pCall p | .pStage p | .pWrite p | .pPublish p => some p
  | _ => none

section Step
variable (v : Variant) (ncalls : Nat) (deps : Nat → List Nat) (key : Nat → K) (eval : Nat → List V → V)

/-- what a worker-process step does -/
theorem step_proc {s s' : State K V} {l : Label} {p : Nat} (hl : procLabel l = some p)
    (h : step v ncalls deps key eval s l = some s') :
    ∃ pr pc' d' e', s.procs[p]? = some pr ∧ PFacts deps key s.dir pr pc' d' ∧
      s' = { s with procs := s.procs.set p { pr with pc := pc' }, dir := d', executed := e' } := by
  cases l <;> simp only [procLabel] at hl <;> cases hl
  all_goals simp only [step] at h
  case pLoad =>
    split at h
    · rename_i pr hpr
      split at h
      · rename_i hpc
        split at h
        · split at h
          · rename_i vs hvs
            cases h
            refine ⟨pr, .loaded vs, s.dir, s.executed, hpr, ?_, rfl⟩
            exact ⟨by rw [hpc]; simp [procW], fun _ h => h, fun _ _ => rfl, nofun, nofun⟩
          · rename_i hvs
            cases h
            refine ⟨pr, .crashed, s.dir, s.executed, hpr, ?_, rfl⟩
            refine ⟨by rw [hpc]; simp [procW], fun _ h => h, fun _ _ => rfl, nofun, fun _ => ⟨hpc, ?_⟩⟩
            intro hall
            obtain ⟨vs, hvs'⟩ := inputsFrom_some key s.dir _ hall.2
            rw [hvs'] at hvs
            cases hvs
        · rename_i hinp
          cases h
          refine ⟨pr, .crashed, s.dir, s.executed, hpr, ?_, rfl⟩
          refine ⟨by rw [hpc]; simp [procW], fun _ h => h, fun _ _ => rfl, nofun, fun _ => ⟨hpc, ?_⟩⟩
          intro hall
          exact hinp hall.1
      · cases h
    · cases h
  case pCall =>
    split at h
    · rename_i pr hpr
      split at h
      · rename_i vs hpc
        cases h
        refine ⟨pr, .called (eval pr.call vs), s.dir, s.executed ++ [pr.call], hpr, ?_, rfl⟩
        exact ⟨by rw [hpc]; simp [procW], fun _ h => h, fun _ _ => rfl, nofun, nofun⟩
      · cases h
    · cases h
  case pStage =>
    split at h
    · rename_i pr hpr
      split at h
      · rename_i x hpc
        cases h
        refine ⟨pr, .staged x, _, s.executed, hpr, ?_, rfl⟩
        refine ⟨by rw [hpc]; simp [procW], ?_, fun k hk => Dir.get_set_ne _ _ _ _ (Ne.symm hk), nofun, nofun⟩
        exact outB_set_mono _ _ _ (fun h => h)
      · cases h
    · cases h
  case pWrite =>
    split at h
    · rename_i pr hpr
      split at h
      · rename_i x hpc
        cases h
        refine ⟨pr, .written x, _, s.executed, hpr, ?_, rfl⟩
        refine ⟨by rw [hpc]; simp [procW], ?_, fun k hk => Dir.get_set_ne _ _ _ _ (Ne.symm hk), nofun, nofun⟩
        exact outB_set_mono _ _ _ (fun h => h)
      · cases h
    · cases h
  case pPublish =>
    split at h
    · rename_i pr hpr
      split at h
      · rename_i x hpc
        cases h
        refine ⟨pr, .exited, _, s.executed, hpr, ?_, rfl⟩
        refine ⟨by rw [hpc]; simp [procW], ?_, fun k hk => Dir.get_set_ne _ _ _ _ (Ne.symm hk), fun _ => ?_, nofun⟩
        · exact outB_set_mono _ _ _ (fun _ => rfl)
        · simp only [outB, Dir.get_set_self, Option.isSome_some]
      · cases h
    · cases h

/-- every label other than a crash lowers the measure -/
theorem mu_step {s s' : State K V} {l : Label} (hc : crashLabel l = false)
    (h : step v ncalls deps key eval s l = some s') : mu ncalls s' + 1 ≤ mu ncalls s := by
  cases hp : procLabel l with
  | some p =>
    obtain ⟨pr, pc', d', e', hpr, hF, rfl⟩ := step_proc v ncalls deps key eval hp h
    have hw := procsW_set s.procs p pr { pr with pc := pc' } hpr
    have hlt := hF.lt
    simp only [mu] at hw ⊢
    omega
  | none =>
  obtain ⟨dir, queue, nsub, fut, memory, launched, procs, loop, dropped, executed⟩ := s
  cases l <;> (try (simp only [procLabel] at hp; cases hp; done)) <;> simp only [step] at h
  case crashProc => simp [crashLabel] at hc
  case crashWrite => simp [crashLabel] at hc
  case submit =>
    split_step h
    cases h
    simp only [mu, List.length_append, List.length_singleton]
    omega
  case take =>
    cases loop <;> cases queue <;> simp only [] at h
    all_goals split_step h
    cases h
    simp only [mu, loopW, List.length_cons]
    omega
  case lookup =>
    cases loop <;> simp only [] at h
    all_goals split_step h
    all_goals cases h
    all_goals simp only [mu, loopW, List.length_append, List.length_singleton]
    all_goals omega
  case writeInput =>
    cases loop <;> simp only [] at h
    all_goals split_step h
    all_goals cases h
    all_goals simp only [mu, loopW]
    all_goals omega
  case launch =>
    cases loop <;> simp only [] at h
    all_goals split_step h
    all_goals cases h
    all_goals simp only [mu, loopW, List.length_append, List.length_singleton, procsW_append, procW]
    all_goals omega
  case collect k =>
    cases loop
    all_goals split_step h
    rename_i hk _ _ _
    cases h
    have hlt : k < memory.length := by
      rcases Nat.lt_or_ge k memory.length with hlt | hge
      · exact hlt
      · rw [List.getElem?_eq_none hge] at hk; cases hk
    simp only [mu, loopW, List.length_eraseIdx, hlt, if_true]
    omega

/-- termination measure along crash-free runs -/
theorem mu_run {s s' : State K V} (ls : List Label) (hc : CrashFree ls)
    (h : run v ncalls deps key eval s ls = some s') : mu ncalls s' + ls.length ≤ mu ncalls s := by
  induction ls generalizing s with
  | nil => simp only [run] at h; cases h; simp
  | cons l ls ih =>
    simp only [run] at h
    cases hs : step v ncalls deps key eval s l with
    | none => rw [hs] at h; cases h
    | some s₁ =>
      rw [hs] at h
      have h1 := mu_step v ncalls deps key eval (crashFree_cons hc).1 hs
      have h2 := ih (crashFree_cons hc).2 h
      simp only [List.length_cons]
      omega

omit [DecidableEq K] in
theorem mu_init (d : Dir K V) : mu ncalls (init d ncalls : State K V) = 11 * ncalls := by
  simp [mu, init, loopW, procsW]

/-- **A**: a crash-free run from an initial state has at most `11 * ncalls` labels -/
theorem run_length_le (d : Dir K V) {s : State K V} (ls : List Label) (hc : CrashFree ls)
    (h : run v ncalls deps key eval (init d ncalls) ls = some s) : ls.length ≤ 11 * ncalls := by
  have := mu_run v ncalls deps key eval ls hc h
  rw [mu_init] at this
  omega

/-! ### what the steps of the user thread and of the loop thread do -/

theorem step_submit {s s' : State K V} (h : step v ncalls deps key eval s .submit = some s') :
    s.nsub < ncalls ∧
      s' = { s with queue := s.queue ++ [s.nsub], nsub := s.nsub + 1, fut := s.fut.set s.nsub .pending } := by
  simp only [step] at h
  split at h
  · rename_i hlt; cases h; exact ⟨hlt, rfl⟩
  · cases h

theorem step_take {s s' : State K V} (h : step v ncalls deps key eval s .take = some s') :
    ∃ i rest, s.loop = .idle ∧ s.queue = i :: rest ∧
      (∀ j ∈ deps i, (memGet s.memory (key j)).isSome = true ∨ ∃ x, futOf s j = .finished x) ∧
      s' = { s with queue := rest, loop := .converted i } := by
  simp only [step] at h
  split at h
  · rename_i i rest hl hq
    split at h
    · rename_i hall
      cases h
      refine ⟨i, rest, hl, hq, ?_, rfl⟩
      intro j hj
      have := List.all_eq_true.mp hall j hj
      simp only [Bool.or_eq_true] at this
      rcases this with hm | hf
      · exact Or.inl hm
      · right
        split at hf
        · rename_i x hx; exact ⟨x, hx⟩
        · cases hf
    · cases h
  · cases h

theorem step_lookup {s s' : State K V} (h : step v ncalls deps key eval s .lookup = some s') :
    ∃ i, s.loop = .converted i ∧
      (((memGet s.memory (key i)).isSome = true ∧ s' = { s with loop := .idle, dropped := s.dropped ++ [i] }) ∨
       ((memGet s.memory (key i)).isSome = false ∧ outB s.dir (key i) = true ∧
          s' = { s with loop := .idle, memory := s.memory ++ [(key i, i)] }) ∨
       ((memGet s.memory (key i)).isSome = false ∧ outB s.dir (key i) = false ∧ s' = { s with loop := .writeIn i })) := by
  simp only [step] at h
  split at h
  · rename_i i hl
    refine ⟨i, hl, ?_⟩
    split at h
    · rename_i hm; cases h; exact Or.inl ⟨hm, rfl⟩
    · rename_i hm
      split at h
      · rename_i ho; cases h; exact Or.inr (Or.inl ⟨by simpa using hm, ho, rfl⟩)
      · rename_i ho; cases h; exact Or.inr (Or.inr ⟨by simpa using hm, by simpa [outB] using ho, rfl⟩)
  · cases h

theorem step_writeInput {s s' : State K V} (h : step ⟨true, true⟩ ncalls deps key eval s .writeInput = some s') :
    ∃ i, s.loop = .writeIn i ∧
      s' = { s with dir := Dir.set s.dir (key i) { Dir.get s.dir (key i) with inp := true, staleInp := false },
                    loop := .waitDeps i } := by
  simp only [step] at h
  split at h
  · rename_i i hl
    refine ⟨i, hl, ?_⟩
    split at h
    · rename_i hc; simp at hc
    · cases h; rfl
  · cases h

theorem step_launch {s s' : State K V} (h : step ⟨true, true⟩ ncalls deps key eval s .launch = some s') :
    ∃ i, s.loop = .waitDeps i ∧
      (∀ j ∈ deps i, (memGet s.memory (key j)).isSome = true → procEnded s (key j) = true) ∧
      s' = { s with procs := s.procs ++ [{ key := key i, call := i }], launched := s.launched ++ [key i],
                    memory := s.memory ++ [(key i, i)], loop := .idle } := by
  simp only [step] at h
  split at h
  · rename_i i hl
    refine ⟨i, hl, ?_⟩
    split at h
    · rename_i hc; simp at hc
    · split at h
      · rename_i hall
        cases h
        refine ⟨?_, rfl⟩
        intro j hj hm
        have := List.all_eq_true.mp hall (key j) (List.mem_map_of_mem (List.mem_filter.mpr ⟨hj, hm⟩))
        exact this
      · cases h
  · cases h

theorem step_collect {s s' : State K V} {n : Nat} (h : step v ncalls deps key eval s (.collect n) = some s') :
    ∃ kk i x, s.loop = .idle ∧ s.memory[n]? = some (kk, i) ∧ (Dir.get s.dir kk).out = some x ∧
      s' = { s with fut := s.fut.set i (.finished x), memory := s.memory.eraseIdx n } := by
  simp only [step] at h
  split at h
  · rename_i kk i hl hm
    split at h
    · rename_i x hx; cases h; exact ⟨kk, i, x, hl, hm, hx, rfl⟩
    · cases h
  · cases h

end Step
end ExecModel.FileExec
