import ExecModel.Proofs.SysDefs
/-!
  Basic rewriting lemmas about `Sys` states and the tactic used to split a step hypothesis into
  the branches of the transition function.
-/
namespace ExecModel.Sys

variable {Val Err : Type}

/-- Split a hypothesis `h : (nested matches / ifs) = some s'` into all its branches; closes the
    branches that return `none`. -/
macro "split_step" h:ident : tactic =>
  `(tactic| (repeat' (first | (cases $h:ident; done) | (split at $h:ident)
                            | (dsimp only at $h:ident; split at $h:ident))))

theorem futOf_setFut (s : State Val Err) (i j : Nat) (f : Fut Val Err) :
    futOf (setFut s i f) j = if i = j ∧ i < s.fut.length then f else futOf s j := by
  unfold futOf setFut
  simp only [List.getD_eq_getElem?_getD, List.getElem?_set]
  by_cases h : i = j
  · subst h
    by_cases h2 : i < s.fut.length <;> simp [h2]
  · simp [h]

@[simp] theorem futOf_setWk (s : State Val Err) (k : Nat) (w : Worker Val Err) (j : Nat) :
    futOf (setWk s k w) j = futOf s j := rfl
@[simp] theorem futOf_setQ (s : State Val Err) (q : QId) (v : Queue Val) (j : Nat) :
    futOf (setQ s q v) j = futOf s j := by cases q <;> rfl
@[simp] theorem futOf_taskDone (s : State Val Err) (q : QId) (j : Nat) :
    futOf (taskDone s q) j = futOf s j := by simp [taskDone]

theorem FutStep.of_setFut {s : State Val Err} {i : Nat} {f : Fut Val Err}
    (h : FutStep (futOf s i) f) (j : Nat) : FutStep (futOf s j) (futOf (setFut s i f) j) := by
  rw [futOf_setFut]
  split
  · rename_i h'; rw [← h'.1]; exact h
  · exact .refl _

/-- `(l.set w b).map f` summed: the one arithmetic fact about thread tables. -/
theorem sum_map_set {α : Type} (f : α → Nat) (l : List α) (w : Nat) (a b : α) (h : l[w]? = some a) :
    ((l.set w b).map f).sum + f a = (l.map f).sum + f b := by
  induction l generalizing w with
  | nil => simp at h
  | cons x l ih =>
    cases w with
    | zero =>
      simp only [List.getElem?_cons_zero, Option.some.injEq] at h; subst h
      simp only [List.set_cons_zero, List.map_cons, List.sum_cons]; omega
    | succ w =>
      simp only [List.getElem?_cons_succ] at h; have := ih w h
      simp only [List.set_cons_succ, List.map_cons, List.sum_cons]; omega

end ExecModel.Sys
