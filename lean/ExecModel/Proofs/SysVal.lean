import ExecModel.Proofs.SysRun
import ExecModel.Proofs.SysValDefs
/-!
  Value-level theorems about `Sys` (C01, C03, C04): the invariant `ValInv` holds in every reachable
  state; from it: result fidelity, "not before its inputs", failure provenance and agreement with
  sequential evaluation.

  Proof structure.  `ValAt c s` is `ValInv` with the *containers* (queues, thread-local variables,
  logs, futures) read from `c` and the *predicates* (`inputsOf`, `allDone`, `firstFailure`)
  evaluated in `s`.  A step `s → s'` is handled in two moves: (1) per thread, `ValAt s' s` — what
  the new state holds is justified in the old state; (2) once, `ValAt c s → ValAt c s'` because all
  predicates are stable under the legal moves of futures (`FutStep`, from the core invariant).

  `ValInv` alone is not inductive: `wGet` by a worker whose queue is the *outer* queue would take
  an unsubstituted item `task i []`.  No reachable state has such a worker; the auxiliary invariant
  `WkQ` records this, and `valInv_step` carries it as an extra hypothesis.
-/
set_option linter.unusedSimpArgs false
set_option linter.unusedVariables false
set_option linter.unusedSectionVars false
set_option linter.unnecessarySimpa false
namespace ExecModel.Sys

variable {Val Err : Type}
variable (cfg : Cfg) (eval : Nat → List Val → Except Err Val) (cancelErr : Err)

/-! ## stability of the predicates under legal moves of futures -/

theorem FutStep.finished_inv {v : Val} {f : Fut Val Err} (h : FutStep (.finished v : Fut Val Err) f) :
    f = .finished v := by
  cases h; rfl

theorem FutStep.done_cases {f f' : Fut Val Err} (h : FutStep f f') (hd : f.done = true) :
    f' = f ∨ (f = .cancelled ∧ f' = .cancelledNotified) := by
  cases h <;> simp_all [Fut.done]

/-- All futures of `s` make a legal move (or none) to `s'`. -/
def FutSteps (s s' : State Val Err) : Prop := ∀ j, FutStep (futOf s j) (futOf s' j)

theorem futSteps_refl (s : State Val Err) : FutSteps s s := fun j => .refl _

theorem allDone_cons (s : State Val Err) (j : Nat) (js : List Nat) :
    allDone s (j :: js) = ((futOf s j).done && allDone s js) := by
  simp [allDone]

theorem inputsOf_stable {s s' : State Val Err} (hfs : FutSteps s s') :
    ∀ (js : List Nat) (vs : List Val), inputsOf s js = some vs → inputsOf s' js = some vs := by
  intro js
  induction js with
  | nil => intro vs h; simpa [inputsOf] using h
  | cons j js ih =>
    intro vs h
    unfold inputsOf at h
    split at h
    · rename_i v vs' hj hjs
      have h1 := hfs j
      rw [hj] at h1
      have h2 := FutStep.finished_inv h1
      have h3 := ih vs' hjs
      unfold inputsOf
      rw [h2, h3]
      exact h
    · cases h

/-- Once all inputs are done, nothing observable about them changes. -/
theorem done_stable {s s' : State Val Err} (hfs : FutSteps s s') :
    ∀ (js : List Nat), allDone s js = true →
      allDone s' js = true ∧ inputsOf s' js = inputsOf s js ∧
        firstFailure cancelErr s' js = firstFailure cancelErr s js := by
  intro js
  induction js with
  | nil => intro _; simp [allDone, inputsOf, firstFailure]
  | cons j js ih =>
    intro h
    rw [allDone_cons, Bool.and_eq_true] at h
    obtain ⟨hj, hjs⟩ := h
    obtain ⟨i1, i2, i3⟩ := ih hjs
    rcases FutStep.done_cases (hfs j) hj with heq | ⟨h1, h2⟩
    · refine ⟨?_, ?_, ?_⟩
      · rw [allDone_cons, heq, hj, i1]; rfl
      · unfold inputsOf; rw [heq, i2]
      · unfold firstFailure; rw [heq, i3]
    · refine ⟨?_, ?_, ?_⟩
      · rw [allDone_cons, h2, i1]; rfl
      · unfold inputsOf; rw [h1, h2]
      · unfold firstFailure; rw [h1, h2]

theorem itemOk_stable {s s' : State Val Err} (hfs : FutSteps s s') (it : Item Val)
    (h : itemOk cfg s it) : itemOk cfg s' it := by
  cases it with
  | task i vs => exact inputsOf_stable hfs _ _ h
  | stop w => trivial

theorem wpcOk_stable {s s' : State Val Err} (hfs : FutSteps s s') (pc : WPc Val Err)
    (h : wpcOk cfg eval s pc) : wpcOk cfg eval s' pc := by
  cases pc <;> first
    | trivial
    | exact inputsOf_stable hfs _ _ h
    | (obtain ⟨vs, h1, h2⟩ := h; exact ⟨vs, inputsOf_stable hfs _ _ h1, h2⟩)

theorem failTriple_stable {s s' : State Val Err} (hfs : FutSteps s s') {js : List Nat} {e : Err}
    (h : allDone s js = true ∧ inputsOf s js = none ∧ firstFailure cancelErr s js = some e) :
    allDone s' js = true ∧ inputsOf s' js = none ∧ firstFailure cancelErr s' js = some e := by
  obtain ⟨h1, h2, h3⟩ := h
  obtain ⟨i1, i2, i3⟩ := done_stable cancelErr hfs js h1
  exact ⟨i1, i2.trans h2, i3.trans h3⟩

theorem failedFor_stable {s s' : State Val Err} (hfs : FutSteps s s') {i : Nat} {e : Err}
    (h : FailedFor cfg eval cancelErr s i e) : FailedFor cfg eval cancelErr s' i e := by
  rcases h with ⟨vs, h1, h2⟩ | h
  · exact Or.inl ⟨vs, inputsOf_stable hfs _ _ h1, h2⟩
  · exact Or.inr (failTriple_stable cancelErr hfs h)

/-! ## `ValAt c s`: containers of `c`, predicates in `s` -/

def QAt (c s : State Val Err) : Prop :=
  (∀ it ∈ c.qi.items, itemOk cfg s it) ∧ (∀ q ∈ c.qp, ∀ it ∈ q.items, itemOk cfg s it)

def FinAt (c s : State Val Err) : Prop :=
  ∀ (i : Nat) (v : Val), futOf c i = .finished v →
    ∃ vs, inputsOf s (depsOf cfg i) = some vs ∧ eval i vs = .ok v

def FailAt (c s : State Val Err) : Prop :=
  ∀ (i : Nat) (e : Err), futOf c i = .failed e → FailedFor cfg eval cancelErr s i e

structure ValAt (c s : State Val Err) : Prop where
  q : QAt cfg c s
  disp : ∀ (i : Nat) (vs : List Val) (r : Nat), c.disp = some (.waitSlots i vs r) →
    inputsOf s (depsOf cfg i) = some vs
  wk : ∀ (k : Nat) (w : Worker Val Err), c.wk[k]? = some w → wpcOk cfg eval s w.pc
  ready : ∀ (i : Nat), c.res = some (.ready i) → allDone s (depsOf cfg i) = true
  failing : ∀ (i : Nat) (e : Err) (r : RRet), c.res = some (.failing i e r) →
    allDone s (depsOf cfg i) = true ∧ inputsOf s (depsOf cfg i) = none ∧
      firstFailure cancelErr s (depsOf cfg i) = some e
  sent : ∀ i ∈ c.sentLog, ∃ vs, inputsOf s (depsOf cfg i) = some vs
  finished : FinAt cfg eval c s
  failed : FailAt cfg eval cancelErr c s

theorem valAt_of_inv {s : State Val Err} (h : ValInv cfg eval cancelErr s) :
    ValAt cfg eval cancelErr s s :=
  ⟨⟨h.qi, h.qp⟩, h.disp, h.wk, h.ready, h.failing, h.sent, h.finished, h.failed⟩

theorem inv_of_valAt {s : State Val Err} (h : ValAt cfg eval cancelErr s s) :
    ValInv cfg eval cancelErr s :=
  ⟨h.q.1, h.q.2, h.disp, h.wk, h.ready, h.failing, h.sent, h.finished, h.failed⟩

/-- Move (2): the predicates are stable. -/
theorem valAt_mono {c s s' : State Val Err} (hfs : FutSteps s s')
    (h : ValAt cfg eval cancelErr c s) : ValAt cfg eval cancelErr c s' := by
  refine ⟨⟨?_, ?_⟩, ?_, ?_, ?_, ?_, ?_, ?_, ?_⟩
  · intro it hit; exact itemOk_stable cfg hfs it (h.q.1 it hit)
  · intro q hq it hit; exact itemOk_stable cfg hfs it (h.q.2 q hq it hit)
  · intro i vs r hd; exact inputsOf_stable hfs _ _ (h.disp i vs r hd)
  · intro k w hk; exact wpcOk_stable cfg eval hfs _ (h.wk k w hk)
  · intro i hr; exact (done_stable cancelErr hfs _ (h.ready i hr)).1
  · intro i e r hr; exact failTriple_stable cancelErr hfs (h.failing i e r hr)
  · intro i hi
    have h1 := h.sent i hi
    exact h1.elim fun vs hvs => ⟨vs, inputsOf_stable hfs _ _ hvs⟩
  · intro i v hf
    have h1 := h.finished i v hf
    exact h1.elim fun vs hvs => ⟨vs, inputsOf_stable hfs _ _ hvs.1, hvs.2⟩
  · intro i e hf; exact failedFor_stable cfg eval cancelErr hfs (h.failed i e hf)

/-! ### building blocks for move (1) -/

theorem qAt_congr {c c' s : State Val Err} (h1 : c'.qi.items = c.qi.items) (h2 : c'.qp = c.qp)
    (h : QAt cfg c s) : QAt cfg c' s := by
  unfold QAt; rw [h1, h2]; exact h

theorem qAt_getQ {c s : State Val Err} (h : QAt cfg c s) (q : QId) (hq : q ≠ .outer) :
    ∀ it ∈ (getQ c q).items, itemOk cfg s it := by
  cases q with
  | outer => exact absurd rfl hq
  | inner => exact h.1
  | priv i =>
    intro it hit
    simp only [getQ, List.getD_eq_getElem?_getD] at hit
    cases hq : c.qp[i]? with
    | none => simp [hq] at hit
    | some q0 =>
      simp only [hq, Option.getD_some] at hit
      exact h.2 q0 (List.mem_of_getElem? hq) it hit

theorem qAt_setQ {c s : State Val Err} (h : QAt cfg c s) (q : QId) (v : Queue Val)
    (hv : q ≠ .outer → ∀ it ∈ v.items, itemOk cfg s it) : QAt cfg (setQ c q v) s := by
  cases q with
  | outer => exact h
  | inner => exact ⟨hv (by simp), h.2⟩
  | priv i =>
    refine ⟨h.1, ?_⟩
    intro q' hq'
    simp only [setQ] at hq'
    rcases List.mem_or_eq_of_mem_set hq' with h1 | h1
    · exact h.2 q' h1
    · subst h1; exact hv (by simp)

theorem qAt_taskDone {c s : State Val Err} (h : QAt cfg c s) (q : QId) :
    QAt cfg (taskDone c q) s := by
  unfold taskDone
  apply qAt_setQ cfg h
  intro hq
  exact qAt_getQ cfg h q hq

theorem wkAt_set {c c' s : State Val Err} {k : Nat} {w' : Worker Val Err}
    (h : ∀ (k : Nat) (w : Worker Val Err), c.wk[k]? = some w → wpcOk cfg eval s w.pc)
    (hw : wpcOk cfg eval s w'.pc) (hwk : c'.wk = c.wk.set k w') :
    ∀ (k : Nat) (w : Worker Val Err), c'.wk[k]? = some w → wpcOk cfg eval s w.pc := by
  intro k2 w2 hk2
  rw [hwk, List.getElem?_set] at hk2
  split at hk2
  · split at hk2
    · simp only [Option.some.injEq] at hk2; subst hk2; exact hw
    · cases hk2
  · exact h k2 w2 hk2

theorem wkAt_append {c c' s : State Val Err} {w' : Worker Val Err}
    (h : ∀ (k : Nat) (w : Worker Val Err), c.wk[k]? = some w → wpcOk cfg eval s w.pc)
    (hw : wpcOk cfg eval s w'.pc) (hwk : c'.wk = c.wk ++ [w']) :
    ∀ (k : Nat) (w : Worker Val Err), c'.wk[k]? = some w → wpcOk cfg eval s w.pc := by
  intro k2 w2 hk2
  rw [hwk] at hk2
  have hm := List.mem_of_getElem? hk2
  rw [List.mem_append] at hm
  rcases hm with hm | hm
  · obtain ⟨n, hn⟩ := List.getElem?_of_mem hm
    exact h n w2 hn
  · simp only [List.mem_singleton] at hm; subst hm; exact hw

theorem finAt_eq {c c' s : State Val Err} (h : c'.fut = c.fut) (hc : FinAt cfg eval c s) :
    FinAt cfg eval c' s := by
  intro i v hf
  rw [futOf_congr h] at hf
  exact hc i v hf

theorem failAt_eq {c c' s : State Val Err} (h : c'.fut = c.fut) (hc : FailAt cfg eval cancelErr c s) :
    FailAt cfg eval cancelErr c' s := by
  intro i v hf
  rw [futOf_congr h] at hf
  exact hc i v hf

theorem futOf_of_fut_set_val {c c' : State Val Err} {i : Nat} {f : Fut Val Err}
    (h : c'.fut = c.fut.set i f) (j : Nat) :
    futOf c' j = if i = j ∧ i < c.fut.length then f else futOf c j := by
  have := futOf_setFut c i j f
  simp only [futOf, setFut] at this
  simp only [futOf, h]; exact this

theorem finAt_set {c c' s : State Val Err} {i : Nat} {f : Fut Val Err}
    (h : c'.fut = c.fut.set i f) (hc : FinAt cfg eval c s)
    (hf : ∀ v, f = .finished v → ∃ vs, inputsOf s (depsOf cfg i) = some vs ∧ eval i vs = .ok v) :
    FinAt cfg eval c' s := by
  intro j v hj
  rw [futOf_of_fut_set_val h] at hj
  split at hj
  · rename_i hij; rw [← hij.1]; exact hf v hj
  · exact hc j v hj

theorem failAt_set {c c' s : State Val Err} {i : Nat} {f : Fut Val Err}
    (h : c'.fut = c.fut.set i f) (hc : FailAt cfg eval cancelErr c s)
    (hf : ∀ e, f = .failed e → FailedFor cfg eval cancelErr s i e) :
    FailAt cfg eval cancelErr c' s := by
  intro j e hj
  rw [futOf_of_fut_set_val h] at hj
  split at hj
  · rename_i hij; rw [← hij.1]; exact hf e hj
  · exact hc j e hj

/-- The new state differs from `c` only in fields the invariant does not read (or reads only
    through `ready`/`failing`, which must not be entered). -/
theorem valAt_congr {c c' s : State Val Err} (h : ValAt cfg eval cancelErr c s)
    (hqi : c'.qi = c.qi) (hqp : c'.qp = c.qp)
    (hd : c'.disp = c.disp) (hwk : c'.wk = c.wk)
    (hready : ∀ i, c'.res = some (.ready i) → c.res = some (.ready i))
    (hfailing : ∀ i e r, c'.res = some (.failing i e r) → c.res = some (.failing i e r))
    (hs : c'.sentLog = c.sentLog) (hf : c'.fut = c.fut) : ValAt cfg eval cancelErr c' s := by
  refine ⟨qAt_congr cfg (by rw [hqi]) hqp h.q, ?_, ?_, ?_, ?_, ?_,
    finAt_eq cfg eval hf h.finished, failAt_eq cfg eval cancelErr hf h.failed⟩
  · rw [hd]; exact h.disp
  · rw [hwk]; exact h.wk
  · intro i hi; exact h.ready i (hready i hi)
  · intro i e r hi; exact h.failing i e r (hfailing i e r hi)
  · rw [hs]; exact h.sent

/-- Workers never serve the outer queue (needed for `wGet`). -/
def WkQ (s : State Val Err) : Prop := ∀ (k : Nat) (w : Worker Val Err), s.wk[k]? = some w → w.q ≠ .outer


theorem sentAt_append {c c' s : State Val Err} {i : Nat}
    (h : ∀ i ∈ c.sentLog, ∃ vs, inputsOf s (depsOf cfg i) = some vs)
    (hi : ∃ vs, inputsOf s (depsOf cfg i) = some vs) (hs : c'.sentLog = c.sentLog ++ [i]) :
    ∀ i ∈ c'.sentLog, ∃ vs, inputsOf s (depsOf cfg i) = some vs := by
  intro j hj
  rw [hs, List.mem_append, List.mem_singleton] at hj
  rcases hj with hj | hj
  · exact h j hj
  · subst hj; exact hi

/-! ## move (1), thread by thread -/

theorem valAt_workerStep {s s' : State Val Err} {k : Nat} {l : Label Val Err} (hQ : WkQ s)
    (hI : ValInv cfg eval cancelErr s) (h : workerStep eval s k l = some s') :
    ValAt cfg eval cancelErr s' s := by
  have hA := valAt_of_inv cfg eval cancelErr hI
  unfold workerStep at h
  split at h
  · cases h
  rename_i w hk
  have hw := hI.wk k w hk
  have hq := qAt_getQ cfg hA.q w.q (hQ k w hk)
  split_step h
  all_goals (simp only [Option.some.injEq] at h; subst h)
  all_goals (refine ⟨?_, ?_, ?_, ?_, ?_, ?_, ?_, ?_⟩)
  all_goals (first
    | (refine qAt_congr cfg (c := s) ?_ ?_ hA.q
       · simp; done
       · simp; done)
    | (simpa using hI.disp)
    | (simpa using hI.ready)
    | (simpa using hI.failing)
    | (simpa using hI.sent)
    | (refine finAt_eq cfg eval (c := s) ?_ hI.finished; simp; done)
    | (refine failAt_eq cfg eval cancelErr (c := s) ?_ hI.failed; simp; done)
    | (refine wkAt_set cfg eval (c := s) hI.wk ?_ rfl
       simp_all [wpcOk, itemOk]; done)
    | (apply wkAt_set cfg eval (c := s) hI.wk
       case hwk => simp only [setWk_wk, setQ_wk, taskDone_wk]; rfl
       simp_all [wpcOk, itemOk]; done)
    | (refine qAt_congr cfg (c := setQ s w.q _) rfl rfl (qAt_setQ cfg hA.q _ _ ?_)
       intro _ it hit
       apply hq
       simp_all; done)
    | exact qAt_congr cfg (c := taskDone s w.q) rfl rfl (qAt_taskDone cfg hA.q _)
    | (refine sentAt_append cfg (c := s) hI.sent ?_ rfl
       simp_all [wpcOk]; done)
    | (refine finAt_set cfg eval (c := s) rfl hI.finished ?_
       intro v hv
       simp_all [wpcOk]; done)
    | (refine failAt_set cfg eval cancelErr (c := s) rfl hI.failed ?_
       intro e hv
       simp_all [wpcOk, FailedFor]; done)
    | skip)


theorem valAt_dispStep {s s' : State Val Err} {l : Label Val Err}
    (hI : ValInv cfg eval cancelErr s) (h : dispStep cfg s l = some s') :
    ValAt cfg eval cancelErr s' s := by
  have hA := valAt_of_inv cfg eval cancelErr hI
  have hqi := hI.qi
  have hd := hI.disp
  unfold dispStep at h
  split at h
  · cases h
  split_step h
  all_goals (simp only [Option.some.injEq] at h; subst h)
  all_goals (refine ⟨?_, ?_, ?_, ?_, ?_, ?_, ?_, ?_⟩)
  all_goals (first
    | (refine qAt_congr cfg (c := s) ?_ ?_ hA.q
       · simp; done
       · simp; done)
    | (simpa using hI.disp)
    | (simpa using hI.wk)
    | (simpa using hI.ready)
    | (simpa using hI.failing)
    | (simpa using hI.sent)
    | (refine finAt_eq cfg eval (c := s) ?_ hI.finished; simp; done)
    | (refine failAt_eq cfg eval cancelErr (c := s) ?_ hI.failed; simp; done)
    | (intro i vs r hd'; simp at hd'; done)
    | (intro i vs r hd'; split at hd' <;> simp at hd'; done)
    | (refine qAt_congr cfg (c := setQ s .inner _) rfl rfl (qAt_setQ cfg hA.q _ _ ?_)
       intro _ it hit
       apply hqi
       simp_all; done)
    | (intro i vs r hd'; simp_all [itemOk]; done)
    | (refine qAt_congr cfg (c := setQ s (.priv _) _) rfl rfl (qAt_setQ cfg hA.q _ _ ?_)
       intro _ it hit
       simp at hit
       rcases hit with rfl | rfl <;> simp_all [itemOk]; done)
    | (refine wkAt_append cfg eval (c := s) hI.wk ?_ rfl
       simp [wpcOk]; done)
    | exact qAt_congr cfg (c := taskDone s .inner) rfl rfl (qAt_taskDone cfg hA.q _)
    | skip)


/-- The shutdown procedure only shortens queues, appends stop messages, and cancels. -/
theorem valAt_sdStep {s s1 : State Val Err} {sd : Sd} {l : Label Val Err} {r : Except Err (Option Sd)}
    (hI : ValInv cfg eval cancelErr s) (h : sdStep cfg s sd l = some (s1, r)) :
    ValAt cfg eval cancelErr s1 s := by
  have hA := valAt_of_inv cfg eval cancelErr hI
  have hg := qAt_getQ cfg hA.q sd.target
  unfold sdStep at h
  split_step h
  all_goals (simp only [Option.some.injEq, Prod.mk.injEq] at h; obtain ⟨h, -⟩ := h; subst h)
  all_goals (first
    | exact hA
    | skip)
  all_goals (refine ⟨?_, ?_, ?_, ?_, ?_, ?_, ?_, ?_⟩)
  all_goals (first
    | (refine qAt_congr cfg (c := s) ?_ ?_ hA.q
       · simp; done
       · simp; done)
    | (simpa using hI.disp)
    | (simpa using hI.wk)
    | (simpa using hI.ready)
    | (simpa using hI.failing)
    | (simpa using hI.sent)
    | (refine finAt_eq cfg eval (c := s) ?_ hI.finished; simp; done)
    | (refine failAt_eq cfg eval cancelErr (c := s) ?_ hI.failed; simp; done)
    | exact qAt_taskDone cfg hA.q _
    | (refine qAt_setQ cfg hA.q _ _ ?_
       intro hne it hit
       have hg' := hg hne
       first
       | (apply hg'; simp_all; done)
       | (simp [Queue.put] at hit
          rcases hit with hit | rfl
          · exact hg' it hit
          · trivial))
    | (refine finAt_set cfg eval (c := s) rfl hI.finished ?_
       intro v hv; cases hv)
    | (refine failAt_set cfg eval cancelErr (c := s) rfl hI.failed ?_
       intro v hv; cases hv)
    | skip)


theorem valAt_resStep {s s' : State Val Err} {l : Label Val Err}
    (hI : ValInv cfg eval cancelErr s) (h : resStep cfg cancelErr s l = some s') :
    ValAt cfg eval cancelErr s' s := by
  have hA := valAt_of_inv cfg eval cancelErr hI
  have hqi := hI.qi
  have hrd := hI.ready
  have hfl := hI.failing
  unfold resStep at h
  split at h
  · cases h
  split_step h
  all_goals (simp only [Option.some.injEq] at h; subst h)
  all_goals (first
    | (have hS := valAt_sdStep cfg eval cancelErr hI ‹sdStep cfg s _ _ = some _›
       refine valAt_congr cfg eval cancelErr hS rfl rfl rfl rfl ?_ ?_ rfl rfl
       · intro i hi; simp at hi; done
       · intro i e r hi; simp at hi; done)
    | skip)
  all_goals (refine ⟨?_, ?_, ?_, ?_, ?_, ?_, ?_, ?_⟩)
  all_goals (first
    | (refine qAt_congr cfg (c := s) ?_ ?_ hA.q
       · simp; done
       · simp; done)
    | (simpa using hI.disp)
    | (simpa using hI.wk)
    | (simpa using hI.ready)
    | (simpa using hI.failing)
    | (simpa using hI.sent)
    | (refine finAt_eq cfg eval (c := s) ?_ hI.finished; simp; done)
    | (refine failAt_eq cfg eval cancelErr (c := s) ?_ hI.failed; simp; done)
    | (intro i hr; simp at hr; done)
    | (intro i e r hr; simp at hr; done)
    | (intro i hr; split at hr <;> simp at hr; done)
    | (intro i e r hr; split at hr <;> simp at hr; done)
    | (intro i hr; simp_all; done)
    | (intro i e r hr; simp_all; done)
    | (refine qAt_congr cfg (c := setQ s .inner _) rfl rfl (qAt_setQ cfg hA.q _ _ ?_)
       intro _ it hit
       simp [Queue.put] at hit
       rcases hit with hit | rfl
       · exact hqi it hit
       · simp_all [itemOk]; done)
    | exact qAt_congr cfg (c := taskDone s .outer) rfl rfl (qAt_taskDone cfg hA.q _)
    | (refine finAt_set cfg eval (c := s) rfl hI.finished ?_
       intro v hv; cases hv)
    | (refine failAt_set cfg eval cancelErr (c := s) rfl hI.failed ?_
       intro e' hv
       first
       | (cases hv; done)
       | (simp_all [FailedFor]; done))
    | skip)


/-- `submit` puts `task i []` into the front queue: unconstrained when that is the outer queue,
    and without the resolver a call has no inputs. -/
theorem qAt_submit (hwf : WfCfg cfg) {c s : State Val Err} (h : QAt cfg c s) (i : Nat) :
    QAt cfg (setQ c (frontQ cfg) ((getQ c (frontQ cfg)).put (.task i []))) s := by
  apply qAt_setQ cfg h
  intro hne it hit
  have hr : cfg.resolver = false := by
    cases hres : cfg.resolver with
    | false => rfl
    | true => simp [frontQ, hres] at hne
  have hfq : frontQ cfg = .inner := by simp [frontQ, hr]
  rw [hfq] at hit
  simp only [getQ, Queue.put, List.mem_append, List.mem_singleton] at hit
  rcases hit with hit | hit
  · exact h.1 it hit
  · subst hit
    show inputsOf s (depsOf cfg i) = some []
    rw [hwf.2 hr i]; rfl

theorem valAt_mainStep (hwf : WfCfg cfg) {s s' : State Val Err} {l : Label Val Err}
    (hI : ValInv cfg eval cancelErr s) (h : mainStep cfg s l = some s') :
    ValAt cfg eval cancelErr s' s := by
  have hA := valAt_of_inv cfg eval cancelErr hI
  unfold mainStep at h
  split_step h
  all_goals (simp only [Option.some.injEq] at h; subst h)
  all_goals (first
    | (have hS := valAt_sdStep cfg eval cancelErr hI ‹sdStep cfg s _ _ = some _›
       refine valAt_congr cfg eval cancelErr hS rfl rfl rfl rfl ?_ ?_ rfl rfl
       · intro i hi; exact hi
       · intro i e r hi; exact hi)
    | skip)
  all_goals (refine ⟨?_, ?_, ?_, ?_, ?_, ?_, ?_, ?_⟩)
  all_goals (first
    | (refine qAt_congr cfg (c := s) ?_ ?_ hA.q
       · simp; done
       · simp; done)
    | (simpa using hI.disp)
    | (simpa using hI.wk)
    | (simpa using hI.ready)
    | (simpa using hI.failing)
    | (simpa using hI.sent)
    | (refine finAt_eq cfg eval (c := s) ?_ hI.finished; simp; done)
    | (refine failAt_eq cfg eval cancelErr (c := s) ?_ hI.failed; simp; done)
    | (refine finAt_set cfg eval (c := s) rfl hI.finished ?_
       intro v hv; cases hv)
    | (refine failAt_set cfg eval cancelErr (c := s) rfl hI.failed ?_
       intro v hv; cases hv)
    | (refine qAt_submit cfg hwf ?_ _
       exact qAt_congr cfg (c := s) rfl rfl hA.q)
    | (apply finAt_set cfg eval (c := s) (hc := hI.finished)
       case h => simp only [setQ_fut, setFut_fut]; rfl
       intro v hv; cases hv)
    | (apply failAt_set cfg eval cancelErr (c := s) (hc := hI.failed)
       case h => simp only [setQ_fut, setFut_fut]; rfl
       intro v hv; cases hv)
    | skip)


/-! ## the auxiliary invariant `WkQ` -/

theorem wkQ_of_eq {s s' : State Val Err} (h : s'.wk = s.wk) (hQ : WkQ s) : WkQ s' := by
  intro k w hk; rw [h] at hk; exact hQ k w hk

theorem wkQ_set {s s' : State Val Err} {k : Nat} {w w' : Worker Val Err} (hQ : WkQ s)
    (hk : s.wk[k]? = some w) (hwk : s'.wk = s.wk.set k w') (hq : w'.q = w.q) : WkQ s' := by
  intro k2 w2 hk2
  rw [hwk, List.getElem?_set] at hk2
  split at hk2
  · split at hk2
    · simp only [Option.some.injEq] at hk2; subst hk2; rw [hq]; exact hQ k w hk
    · cases hk2
  · exact hQ k2 w2 hk2

theorem wkQ_append {s s' : State Val Err} {w' : Worker Val Err} (hQ : WkQ s)
    (hwk : s'.wk = s.wk ++ [w']) (hq : w'.q ≠ .outer) : WkQ s' := by
  intro k2 w2 hk2
  rw [hwk] at hk2
  have hm := List.mem_of_getElem? hk2
  rw [List.mem_append] at hm
  rcases hm with hm | hm
  · obtain ⟨n, hn⟩ := List.getElem?_of_mem hm
    exact hQ n w2 hn
  · simp only [List.mem_singleton] at hm; subst hm; exact hq

theorem wkQ_workerStep {s s' : State Val Err} {k : Nat} {l : Label Val Err} (hQ : WkQ s)
    (h : workerStep eval s k l = some s') : WkQ s' := by
  unfold workerStep at h
  split at h
  · cases h
  rename_i w hk
  split_step h
  all_goals (simp only [Option.some.injEq] at h; subst h)
  all_goals (apply wkQ_set hQ hk
             case hwk => simp only [setWk_wk, setQ_wk, taskDone_wk, setFut_wk]; rfl
             rfl)

theorem wkQ_dispStep {s s' : State Val Err} {l : Label Val Err} (hQ : WkQ s)
    (h : dispStep cfg s l = some s') : WkQ s' := by
  unfold dispStep at h
  split at h
  · cases h
  split_step h
  all_goals (simp only [Option.some.injEq] at h; subst h)
  all_goals (first
    | (refine wkQ_of_eq ?_ hQ; simp; done)
    | (refine wkQ_append hQ rfl ?_; simp; done))

theorem wkQ_resStep {s s' : State Val Err} {l : Label Val Err} (hQ : WkQ s)
    (h : resStep cfg cancelErr s l = some s') : WkQ s' := by
  unfold resStep at h
  split at h
  · cases h
  split_step h
  all_goals (simp only [Option.some.injEq] at h; subst h)
  all_goals (first
    | (refine wkQ_of_eq ?_ hQ; simp; done)
    | (have hS := sdStep_effect cfg ‹sdStep cfg s _ _ = some _›
       exact wkQ_of_eq hS.2.1 hQ))

theorem wkQ_mainStep {s s' : State Val Err} {l : Label Val Err} (hQ : WkQ s)
    (h : mainStep cfg s l = some s') : WkQ s' := by
  unfold mainStep at h
  split_step h
  all_goals (simp only [Option.some.injEq] at h; subst h)
  all_goals (first
    | (refine wkQ_of_eq ?_ hQ; simp; done)
    | (have hS := sdStep_effect cfg ‹sdStep cfg s _ _ = some _›
       exact wkQ_of_eq hS.2.1 hQ))

theorem wkQ_step {s s' : State Val Err} {l : Label Val Err} (hQ : WkQ s)
    (h : step cfg eval cancelErr s l = some s') : WkQ s' := by
  unfold step at h
  split at h
  all_goals first
    | exact wkQ_mainStep cfg hQ h
    | exact wkQ_resStep cfg cancelErr hQ h
    | exact wkQ_dispStep cfg hQ h
    | exact wkQ_workerStep eval hQ h

theorem wkQ_init (script : List Cmd) : WkQ (init cfg script : State Val Err) := by
  intro k w hk
  simp only [init] at hk
  split at hk
  · simp [List.getElem?_replicate] at hk
    obtain ⟨_, rfl⟩ := hk
    simp
  · simp at hk

/-! ## the invariant along steps and runs -/

theorem valAt_step (hwf : WfCfg cfg) {s s' : State Val Err} {l : Label Val Err} (hQ : WkQ s)
    (hI : ValInv cfg eval cancelErr s) (h : step cfg eval cancelErr s l = some s') :
    ValAt cfg eval cancelErr s' s := by
  unfold step at h
  split at h
  all_goals first
    | exact valAt_mainStep cfg eval cancelErr hwf hI h
    | exact valAt_resStep cfg eval cancelErr hI h
    | exact valAt_dispStep cfg eval cancelErr hI h
    | exact valAt_workerStep cfg eval cancelErr hQ hI h

/-- `ValInv` is preserved by every step from a state satisfying the core invariant in which no
    worker serves the outer queue (`WkQ`; see the header for why this hypothesis is needed). -/
theorem valInv_step (hwf : WfCfg cfg) {s s' : State Val Err} {l : Label Val Err} (hC : Core s)
    (hQ : WkQ s) (hI : ValInv cfg eval cancelErr s) (h : step cfg eval cancelErr s l = some s') :
    ValInv cfg eval cancelErr s' := by
  have hfs : FutSteps s s' := fun j => ((core_step_facts cfg eval cancelErr hC h).2.2 j).1
  exact inv_of_valAt cfg eval cancelErr
    (valAt_mono cfg eval cancelErr hfs (valAt_step cfg eval cancelErr hwf hQ hI h))

theorem valInv_init (hwf : WfCfg cfg) (script : List Cmd) :
    ValInv cfg eval cancelErr (init cfg script : State Val Err) := by
  have hfut : ∀ i, futOf (init cfg script : State Val Err) i = .absent := by
    intro i
    simp [futOf, init, List.getD_eq_getElem?_getD, List.getElem?_replicate]
    split <;> rfl
  refine ⟨?_, ?_, ?_, ?_, ?_, ?_, ?_, ?_, ?_⟩
  · intro it hit; simp [init] at hit
  · intro q hq it hit
    simp only [init, List.mem_replicate] at hq
    rw [hq.2] at hit; simp at hit
  · intro i vs r hd
    simp only [init] at hd
    split at hd <;> simp at hd
  · intro k w hk
    simp only [init] at hk
    split at hk
    · simp [List.getElem?_replicate] at hk
      obtain ⟨_, rfl⟩ := hk
      simp [wpcOk]
    · simp at hk
  · intro i hr
    simp only [init] at hr
    split at hr <;> simp at hr
  · intro i e r hr
    simp only [init] at hr
    split at hr <;> simp at hr
  · intro i hi; simp [init] at hi
  · intro i v hf; rw [hfut] at hf; cases hf
  · intro i e hf; rw [hfut] at hf; cases hf

theorem valInv_run (hwf : WfCfg cfg) {s0 s : State Val Err} (ls : List (Label Val Err))
    (hC : Core s0) (hQ : WkQ s0) (hI : ValInv cfg eval cancelErr s0)
    (h : run cfg eval cancelErr s0 ls = some s) : ValInv cfg eval cancelErr s ∧ WkQ s := by
  induction ls generalizing s0 with
  | nil => simp [run] at h; subst h; exact ⟨hI, hQ⟩
  | cons l ls ih =>
    simp only [run, Option.bind_eq_some_iff] at h
    obtain ⟨s1, h1, h2⟩ := h
    exact ih (core_step cfg eval cancelErr hC h1) (wkQ_step cfg eval cancelErr hQ h1)
      (valInv_step cfg eval cancelErr hwf hC hQ hI h1) h2

theorem valInv_reachable (hwf : WfCfg cfg) {script : List Cmd} {s : State Val Err}
    (h : Reachable cfg eval cancelErr script s) : ValInv cfg eval cancelErr s := by
  obtain ⟨ls, hls⟩ := h
  exact (valInv_run cfg eval cancelErr hwf ls (core_init cfg script) (wkQ_init cfg script)
    (valInv_init cfg eval cancelErr hwf script) hls).1

/-! ## the theorems -/

/-- C01: a finished future holds the value of its own call applied to the values of its inputs. -/
theorem result_fidelity (hwf : WfCfg cfg) {script : List Cmd} {s : State Val Err}
    (h : Reachable cfg eval cancelErr script s) {i : Nat} {v : Val} (hf : futOf s i = .finished v) :
    ∃ vs, inputsOf s (depsOf cfg i) = some vs ∧ eval i vs = .ok v :=
  (valInv_reachable cfg eval cancelErr hwf h).finished i v hf

/-- C03: a call handed to a worker has all its inputs finished (it is not started before them). -/
theorem not_before_inputs (hwf : WfCfg cfg) {script : List Cmd} {s : State Val Err}
    (h : Reachable cfg eval cancelErr script s) {i : Nat} (hi : i ∈ s.sentLog) :
    ∃ vs, inputsOf s (depsOf cfg i) = some vs :=
  (valInv_reachable cfg eval cancelErr hwf h).sent i hi

/-- C04: a failed future failed because its own call raised, or because an input failed. -/
theorem failure_provenance (hwf : WfCfg cfg) {script : List Cmd} {s : State Val Err}
    (h : Reachable cfg eval cancelErr script s) {i : Nat} {e : Err} (hf : futOf s i = .failed e) :
    FailedFor cfg eval cancelErr s i e :=
  (valInv_reachable cfg eval cancelErr hwf h).failed i e hf

/-! ### agreement with sequential evaluation -/

theorem seqInputs_mono {f g : Nat → Option Val} (js : List Nat)
    (hfg : ∀ j ∈ js, ∀ v, f j = some v → g j = some v) :
    ∀ vs, seqInputs f js = some vs → seqInputs g js = some vs := by
  induction js with
  | nil => intro vs h; simpa [seqInputs] using h
  | cons j js ih =>
    intro vs h
    unfold seqInputs at h
    split at h
    · rename_i v vs' hj hjs
      have h1 := hfg j (by simp) v hj
      have h2 := ih (fun j' hj' => hfg j' (by simp [hj'])) vs' hjs
      unfold seqInputs
      rw [h1, h2]; exact h
    · cases h

theorem seqEval_mono :
    ∀ (fuel : Nat) (i : Nat) (v : Val), seqEval cfg eval fuel i = some v →
      seqEval cfg eval (fuel + 1) i = some v := by
  intro fuel
  induction fuel with
  | zero => intro i v h; simp [seqEval] at h
  | succ n ih =>
    intro i v h
    unfold seqEval at h
    split at h
    · rename_i vs hvs
      have h1 := seqInputs_mono (g := seqEval cfg eval (n + 1)) (depsOf cfg i)
        (fun j _ x hx => ih j x hx) vs hvs
      rw [seqEval, h1]; exact h
    · cases h

theorem seqEval_mono_le {fuel fuel' : Nat} (hle : fuel ≤ fuel') {i : Nat} {v : Val}
    (h : seqEval cfg eval fuel i = some v) : seqEval cfg eval fuel' i = some v := by
  induction hle with
  | refl => exact h
  | step _ ih => exact seqEval_mono cfg eval _ i v ih

theorem seqInputs_of_inputsOf {s : State Val Err} {f : Nat → Option Val} (js : List Nat)
    (hf : ∀ j ∈ js, ∀ x, futOf s j = .finished x → f j = some x) :
    ∀ vs, inputsOf s js = some vs → seqInputs f js = some vs := by
  induction js with
  | nil => intro vs h; simpa [inputsOf, seqInputs] using h
  | cons j js ih =>
    intro vs h
    unfold inputsOf at h
    split at h
    · rename_i v vs' hj hjs
      have h1 := hf j (by simp) v hj
      have h2 := ih (fun j' hj' => hf j' (by simp [hj'])) vs' hjs
      unfold seqInputs
      rw [h1, h2]; exact h
    · cases h

/-- C03: every finished future has the value sequential evaluation gives. -/
theorem seq_eval (hwf : WfCfg cfg) {script : List Cmd} {s : State Val Err}
    (h : Reachable cfg eval cancelErr script s) {i : Nat} {v : Val} (hf : futOf s i = .finished v) :
    seqEval cfg eval (i + 1) i = some v := by
  induction i using Nat.strongRecOn generalizing v with
  | ind i ih =>
    obtain ⟨vs, hvs, hev⟩ := result_fidelity cfg eval cancelErr hwf h hf
    have h1 := seqInputs_of_inputsOf (f := seqEval cfg eval i) (depsOf cfg i)
      (fun j hj x hx => seqEval_mono_le cfg eval (hwf.1 i j hj) (ih j (hwf.1 i j hj) hx)) vs hvs
    rw [seqEval, h1]
    simp only [hev]

end ExecModel.Sys
