import ExecModel.Proofs.SysTok
import ExecModel.Proofs.SysProj
/-!
  The core invariant of `Sys`: token uniqueness, absent futures for unsubmitted calls, and
  "whoever holds a call in a running role sees its future `running`"; with it, every step moves
  every future along the standard life cycle (`FutStep`).
-/
set_option linter.unusedSimpArgs false
set_option linter.unusedVariables false
namespace ExecModel.Sys

variable {Val Err : Type}
variable (cfg : Cfg) (eval : Nat → List Val → Except Err Val) (cancelErr : Err)

structure Core (s : State Val Err) : Prop where
  uniq : Unique s
  futWf : FutWf s
  runs : RunHolder s

theorem lt_of_futOf_ne_absent {s : State Val Err} {i : Nat} (h : futOf s i ≠ .absent) :
    i < s.fut.length := by
  unfold futOf at h
  rcases Nat.lt_or_ge i s.fut.length with hlt | hlt
  · exact hlt
  · simp [List.getD_eq_getElem?_getD, List.getElem?_eq_none hlt] at h

theorem wkCnt_of_runs {i : Nat} {w : Worker Val Err} (h : wpcRuns i w.pc) : wkCnt i w = 1 := by
  unfold wkCnt wpcCnt
  unfold wpcRuns at h
  split at h <;> simp_all

/-- Worker `k` (holding call `i`) writes future `i` and moves on. -/
theorem runHolder_worker_setFut {s : State Val Err} (hU : Unique s) (hR : RunHolder s)
    {k i : Nat} {w w' : Worker Val Err} {f : Fut Val Err}
    (hk : s.wk[k]? = some w) (hold : wkCnt i w = 1) (hlt : i < s.fut.length)
    (hpc : ∀ j, wpcRuns j w'.pc → j = i ∧ f = .running) :
    RunHolder (setWk (setFut s i f) k w') := by
  have hklt : k < s.wk.length := by
    rcases Nat.lt_or_ge k s.wk.length with h | h
    · exact h
    · simp [List.getElem?_eq_none h] at hk
  constructor
  · intro k' w2 j hk' hruns
    simp only [setWk, setFut] at hk'
    rw [futOf_setWk, futOf_setFut]
    by_cases hkk : k' = k
    · subst hkk
      simp only [List.getElem?_set_self hklt, Option.some.injEq] at hk'
      subst hk'
      obtain ⟨rfl, rfl⟩ := hpc j hruns
      simp [hlt]
    · rw [List.getElem?_set_ne (Ne.symm hkk)] at hk'
      have hold2 := wkCnt_of_runs hruns
      have hfj := hR.1 k' w2 j hk' hruns
      by_cases hij : i = j
      · subst hij
        have := cnt_ge_two_of_wk_wk (Ne.symm hkk) hk hk' hold hold2
        have := (hU i).1
        omega
      · simp [hij, hfj]
  · intro j e r hres
    simp only [setWk, setFut] at hres
    rw [futOf_setWk, futOf_setFut]
    have hfj := hR.2 j e r hres
    by_cases hij : i = j
    · subst hij
      have : resCnt i s.res = 1 := by simp [hres, resCnt]
      have := cnt_ge_two_of_wk_res hk hold this
      have := (hU i).1
      omega
    · simp [hij, hfj]

/-- Worker `k` moves without touching any future and without entering a running role. -/
theorem runHolder_worker_frame {s s' : State Val Err} (hR : RunHolder s)
    {k : Nat} {w w' : Worker Val Err} (hk : s.wk[k]? = some w)
    (hwk : s'.wk = s.wk.set k w') (hfut : s'.fut = s.fut) (hres : s'.res = s.res)
    (hpc : ∀ j, wpcRuns j w'.pc → wpcRuns j w.pc) : RunHolder s' := by
  have hf : ∀ j, futOf s' j = futOf s j := fun j => by simp [futOf, hfut]
  constructor
  · intro k' w2 j hk' hruns
    rw [hf]
    rw [hwk] at hk'
    by_cases hkk : k' = k
    · subst hkk
      have hklt : k' < s.wk.length := by
        rcases Nat.lt_or_ge k' s.wk.length with h | h
        · exact h
        · simp [List.getElem?_eq_none h] at hk
      simp only [List.getElem?_set_self hklt, Option.some.injEq] at hk'
      subst hk'
      exact hR.1 k' w j hk (hpc j hruns)
    · rw [List.getElem?_set_ne (Ne.symm hkk)] at hk'
      exact hR.1 k' w2 j hk' hruns
  · intro j e r hr
    rw [hf]; rw [hres] at hr
    exact hR.2 j e r hr


/-- A step that touches neither futures nor any running-role holder. -/
theorem runHolder_frame_gen {s s' : State Val Err} (hR : RunHolder s) (hfut : s'.fut = s.fut)
    (hwk : ∀ (k : Nat) (w : Worker Val Err) (j : Nat), s'.wk[k]? = some w → wpcRuns j w.pc →
      ∃ w0, s.wk[k]? = some w0 ∧ wpcRuns j w0.pc)
    (hres : ∀ (j : Nat) (e : Err) (r : RRet), s'.res = some (.failing j e r) →
      ∃ r0, s.res = some (.failing j e r0)) : RunHolder s' := by
  have hf : ∀ j, futOf s' j = futOf s j := fun j => by simp [futOf, hfut]
  constructor
  · intro k w j hk hr
    obtain ⟨w0, hk0, hr0⟩ := hwk k w j hk hr
    rw [hf]; exact hR.1 k w0 j hk0 hr0
  · intro j e r hr
    obtain ⟨r0, h0⟩ := hres j e r hr
    rw [hf]; exact hR.2 j e r0 h0

/-- A non-worker thread writes future `i`, which nobody holds in a running role. -/
theorem runHolder_setFut_other {s s' : State Val Err} (hR : RunHolder s) {i : Nat} {f : Fut Val Err}
    (hne : futOf s i ≠ .running) (hfut : s'.fut = s.fut.set i f) (hwk : s'.wk = s.wk)
    (hres : ∀ (j : Nat) (e : Err) (r : RRet), s'.res = some (.failing j e r) →
      (∃ r0, s.res = some (.failing j e r0)) ∨ (j = i ∧ f = .running ∧ i < s.fut.length)) :
    RunHolder s' := by
  have hf : ∀ j, futOf s' j = if i = j ∧ i < s.fut.length then f else futOf s j := fun j => by
    have := futOf_setFut s i j f
    simp only [futOf, setFut] at this
    simp only [futOf, hfut]; exact this
  constructor
  · intro k w j hk hr
    rw [hwk] at hk
    have := hR.1 k w j hk hr
    rw [hf]
    by_cases hij : i = j
    · subst hij; exact absurd this hne
    · simp [hij, this]
  · intro j e r hr
    rw [hf]
    rcases hres j e r hr with ⟨r0, h0⟩ | ⟨rfl, rfl, hlt⟩
    · have := hR.2 j e r0 h0
      by_cases hij : i = j
      · subst hij; exact absurd this hne
      · simp [hij, this]
    · simp [hlt]

/-- The resolver completes the future of the call it holds in `failing`. -/
theorem runHolder_res_setFut {s s' : State Val Err} (hU : Unique s) (hR : RunHolder s) {i : Nat}
    {e0 : Err} {r0 : RRet} {f : Fut Val Err} (hs : s.res = some (.failing i e0 r0))
    (hfut : s'.fut = s.fut.set i f) (hwk : s'.wk = s.wk)
    (hres : ∀ (j : Nat) (e : Err) (r : RRet), s'.res ≠ some (.failing j e r)) : RunHolder s' := by
  have hf : ∀ j, futOf s' j = if i = j ∧ i < s.fut.length then f else futOf s j := fun j => by
    have := futOf_setFut s i j f
    simp only [futOf, setFut] at this
    simp only [futOf, hfut]; exact this
  constructor
  · intro k w j hk hr
    rw [hwk] at hk
    have := hR.1 k w j hk hr
    rw [hf]
    by_cases hij : i = j
    · subst hij
      have h1 : resCnt i s.res = 1 := by simp [hs, resCnt]
      have := cnt_ge_two_of_wk_res hk (wkCnt_of_runs hr) h1
      have := (hU i).1
      omega
    · simp [hij, this]
  · intro j e r hr
    exact absurd hr (hres j e r)

/-- Future `j` moves along the life cycle, and a future is created only for a submitted call. -/
def FutMove (s s' : State Val Err) (j : Nat) : Prop :=
  FutStep (futOf s j) (futOf s' j) ∧ (futOf s j = .absent → futOf s' j = .absent ∨ j < s'.nsub)

theorem futMove_of_fut_eq {s s' : State Val Err} (h : s'.fut = s.fut) (j : Nat) :
    FutMove s s' j := by
  constructor
  · simp only [futOf, h]; exact .refl _
  · intro h0; left; simpa [futOf, h] using h0

theorem futMove_of_fut_eq_set {s s' : State Val Err} {i : Nat} {f : Fut Val Err}
    (h : s'.fut = s.fut.set i f) (hs : FutStep (futOf s i) f)
    (hlt : futOf s i = .absent → i < s'.nsub) (j : Nat) : FutMove s s' j := by
  have hf := futOf_setFut s i j f
  simp only [futOf, setFut] at hf
  constructor
  · have := FutStep.of_setFut hs j
    simp only [futOf, setFut] at this
    simp only [futOf, h]; exact this
  · intro h0
    by_cases hij : i = j
    · subst hij; right; exact hlt h0
    · left
      simp only [futOf, h, hf]
      simpa [hij, futOf] using h0

theorem core_workerStep {s s' : State Val Err} {k : Nat} {l : Label Val Err} (hC : Core s)
    (h : workerStep eval s k l = some s') :
    s'.nsub = s.nsub ∧ RunHolder s' ∧ (∀ j, FutMove s s' j) := by
  obtain ⟨hU, hW, hR⟩ := hC
  unfold workerStep at h
  split at h
  · cases h
  rename_i w hk
  have hrun : ∀ i, wpcRuns i w.pc → futOf s i = .running := fun i hi => hR.1 k w i hk hi
  split_step h
  all_goals (simp only [Option.some.injEq] at h; subst h)
  all_goals (refine ⟨by simp, ?_, ?_⟩)
  all_goals (first
    | (apply runHolder_worker_frame hR hk
       case hwk => simp only [setWk_wk, setQ_wk, taskDone_wk]; rfl
       · simp
       · simp
       · intro j hj; simp_all [wpcRuns])
    | (refine futMove_of_fut_eq ?_; simp; done)
    | (refine runHolder_worker_setFut hU hR hk ?_ (lt_of_futOf_ne_absent ?_) ?_
       · simp_all [wkCnt, wpcCnt]
       · first
         | (simp_all; done)
         | (rw [hrun _ (by simp_all [wpcRuns])]; simp)
       · intro j hj; simp_all [wpcRuns])
    | (refine futMove_of_fut_eq_set (i := _) (f := _) rfl ?_ ?_
       · first
         | (simp_all; constructor; done)
         | (rw [hrun _ (by simp_all [wpcRuns])]; constructor)
       · intro h0
         first
         | (simp_all; done)
         | (rw [hrun _ (by simp_all [wpcRuns])] at h0; cases h0))
    | skip)

theorem getElem?_append_boot {l : List (Worker Val Err)} {w0 w : Worker Val Err} {k j : Nat}
    (h : (l ++ [w0])[k]? = some w) (hr : wpcRuns j w.pc) (h0 : ∀ j, ¬ wpcRuns j w0.pc) :
    ∃ w1, l[k]? = some w1 ∧ wpcRuns j w1.pc := by
  rcases Nat.lt_or_ge k l.length with hlt | hge
  · rw [List.getElem?_append_left hlt] at h; exact ⟨w, h, hr⟩
  · rw [List.getElem?_append_right hge] at h
    cases hk : k - l.length with
    | zero => simp [hk] at h; subst h; exact absurd hr (h0 j)
    | succ n => simp [hk] at h

theorem core_dispStep {s s' : State Val Err} {l : Label Val Err} (hC : Core s)
    (h : dispStep cfg s l = some s') :
    s'.nsub = s.nsub ∧ RunHolder s' ∧ (∀ j, FutMove s s' j) := by
  obtain ⟨hU, hW, hR⟩ := hC
  unfold dispStep at h
  split at h
  · cases h
  split_step h
  all_goals (simp only [Option.some.injEq] at h; subst h)
  all_goals (refine ⟨by simp, ?_, ?_⟩)
  all_goals (first
    | (apply runHolder_frame_gen hR
       · simp
       · intro k w j hk hr
         first
         | exact ⟨w, by simpa using hk, hr⟩
         | exact getElem?_append_boot (by simpa using hk) hr (by intro j; simp [wpcRuns])
       · intro j e r hr; exact ⟨r, by simpa using hr⟩)
    | (refine futMove_of_fut_eq ?_; simp; done)
    | skip)

/-- What the shutdown procedure can change: queues, and one pending future cancelled. -/
theorem sdStep_effect {s s1 : State Val Err} {sd : Sd} {l : Label Val Err} {r : Except Err (Option Sd)}
    (h : sdStep cfg s sd l = some (s1, r)) :
    s1.nsub = s.nsub ∧ s1.wk = s.wk ∧ s1.res = s.res ∧ s1.sentLog = s.sentLog ∧
    ((s1.fut = s.fut ∧ s1.cancelOk = s.cancelOk) ∨
     ∃ i, futOf s i = .pending ∧ s1.fut = s.fut.set i .cancelled ∧ s1.cancelOk = s.cancelOk ++ [i]) := by
  unfold sdStep at h
  split_step h
  all_goals (simp only [Option.some.injEq, Prod.mk.injEq] at h; obtain ⟨h, -⟩ := h; subst h)
  all_goals (refine ⟨?_, ?_, ?_, ?_, ?_⟩)
  all_goals (first
    | (simp; done)
    | (left; constructor <;> simp; done)
    | (right; exact ⟨_, ‹futOf s _ = Fut.pending›, rfl, rfl⟩)
    | skip)


theorem core_resStep {s s' : State Val Err} {l : Label Val Err} (hC : Core s)
    (h : resStep cfg cancelErr s l = some s') :
    s'.nsub = s.nsub ∧ RunHolder s' ∧ (∀ j, FutMove s s' j) := by
  obtain ⟨hU, hW, hR⟩ := hC
  unfold resStep at h
  split at h
  · cases h
  split_step h
  all_goals (simp only [Option.some.injEq] at h; subst h)
  all_goals (refine ⟨?_, ?_, ?_⟩)
  all_goals (first
    | (simp; done)
    | (apply runHolder_frame_gen hR
       · simp
       · intro k w j hk hr; exact ⟨w, by simpa using hk, hr⟩
       · intro j e r hr; simp_all)
    | (refine futMove_of_fut_eq ?_; simp; done)
    | (simp_all; done)
    | (apply runHolder_setFut_other hR
       case hfut => rfl
       · simp_all
       · rfl
       · intro j e r hr
         first
         | (simp at hr; done)
         | (left; exact ⟨r, hr⟩)
         | (right; simp at hr; exact ⟨by simp_all, rfl, lt_of_futOf_ne_absent (by simp_all)⟩))
    | (apply runHolder_res_setFut hU hR (by assumption)
       case hfut => rfl
       · rfl
       · intro j e r; simp)
    | (refine futMove_of_fut_eq_set (i := _) (f := _) rfl ?_ ?_
       · simp_all; constructor; done
       · intro h0; simp_all)
    | (obtain ⟨h1, h2, h3, h4, h5⟩ := sdStep_effect cfg ‹sdStep cfg s _ _ = some _›
       first
       | (simp [h1]; done)
       | (rcases h5 with ⟨hf, -⟩ | ⟨i, hp, hf, -⟩
          · apply runHolder_frame_gen hR
            · simpa using hf
            · intro k w j hk hr; exact ⟨w, by simpa [h2] using hk, hr⟩
            · intro j e r hr; simp at hr
          · apply runHolder_setFut_other hR (i := i) (f := .cancelled)
            · simp [hp]
            · simpa using hf
            · simpa using h2
            · intro j e r hr; simp at hr)
       | (rcases h5 with ⟨hf, -⟩ | ⟨i, hp, hf, -⟩
          · exact futMove_of_fut_eq (by simpa using hf)
          · exact futMove_of_fut_eq_set (i := i) (f := .cancelled) (by simpa using hf) (by rw [hp]; constructor)
              (by intro h0; rw [hp] at h0; cases h0)))
    | skip)

theorem core_mainStep {s s' : State Val Err} {l : Label Val Err} (hC : Core s)
    (h : mainStep cfg s l = some s') :
    (s'.nsub = s.nsub ∨ s'.nsub = s.nsub + 1) ∧ RunHolder s' ∧ (∀ j, FutMove s s' j) := by
  obtain ⟨hU, hW, hR⟩ := hC
  unfold mainStep at h
  split_step h
  all_goals (simp only [Option.some.injEq] at h; subst h)
  all_goals (refine ⟨?_, ?_, ?_⟩)
  all_goals (first
    | (simp; done)
    | (left; simp; done)
    | (right; simp; done)
    | (apply runHolder_frame_gen hR
       · simp
       · intro k w j hk hr; exact ⟨w, by simpa using hk, hr⟩
       · intro j e r hr; simp_all)
    | (refine futMove_of_fut_eq ?_; simp; done)
    | (simp_all; done)
    | (apply runHolder_setFut_other hR
       case hfut => rfl
       · simp_all
       · rfl
       · intro j e r hr
         first
         | (simp at hr; done)
         | (left; exact ⟨r, hr⟩)
         | (right; simp at hr; exact ⟨by simp_all, rfl, lt_of_futOf_ne_absent (by simp_all)⟩))
    | (apply runHolder_res_setFut hU hR (by assumption)
       case hfut => rfl
       · rfl
       · intro j e r; simp)
    | (refine futMove_of_fut_eq_set (i := _) (f := _) rfl ?_ ?_
       · simp_all; constructor; done
       · intro h0; simp_all)
    | (obtain ⟨h1, h2, h3, h4, h5⟩ := sdStep_effect cfg ‹sdStep cfg s _ _ = some _›
       first
       | (simp [h1]; done)
       | (left; simp [h1]; done)
       | (rcases h5 with ⟨hf, -⟩ | ⟨i, hp, hf, -⟩
          · apply runHolder_frame_gen hR
            · simpa using hf
            · intro k w j hk hr; exact ⟨w, by simpa [h2] using hk, hr⟩
            · intro j e r hr
              first
              | (simp at hr; done)
              | exact ⟨r, by simpa [h3] using hr⟩
          · apply runHolder_setFut_other hR (i := i) (f := .cancelled)
            · simp [hp]
            · simpa using hf
            · simpa using h2
            · intro j e r hr
              first
              | (simp at hr; done)
              | (left; exact ⟨r, by simpa [h3] using hr⟩))
       | (rcases h5 with ⟨hf, -⟩ | ⟨i, hp, hf, -⟩
          · exact futMove_of_fut_eq (by simpa using hf)
          · exact futMove_of_fut_eq_set (i := i) (f := .cancelled) (by simpa using hf) (by rw [hp]; constructor)
              (by intro h0; rw [hp] at h0; cases h0)))
    | (apply runHolder_setFut_other hR (i := s.nsub) (f := .pending)
       · rw [hW _ (Nat.le_refl _)]; simp
       · simp
       · simp
       · intro j e r hr; left; exact ⟨r, by simpa using hr⟩)
    | (refine futMove_of_fut_eq_set (i := s.nsub) (f := .pending) ?_ ?_ ?_
       · simp
       · rw [hW _ (Nat.le_refl _)]; constructor
       · intro _; simp)
    | skip)

theorem futWf_of_fut_eq {s s' : State Val Err} (h : s'.fut = s.fut) (hn : s.nsub ≤ s'.nsub)
    (hW : FutWf s) : FutWf s' := by
  intro j hj
  have := hW j (Nat.le_trans hn hj)
  simpa [futOf, h] using this

theorem futWf_of_fut_eq_set {s s' : State Val Err} {i : Nat} {f : Fut Val Err}
    (h : s'.fut = s.fut.set i f) (hi : futOf s i ≠ .absent ∨ i < s'.nsub) (hn : s.nsub ≤ s'.nsub)
    (hW : FutWf s) : FutWf s' := by
  intro j hj
  have hj0 := hW j (Nat.le_trans hn hj)
  have hne : i ≠ j := by
    rcases hi with hi | hi
    · intro hij; subst hij; exact hi hj0
    · omega
  have := futOf_setFut s i j f
  simp only [futOf, setFut] at this
  simp only [futOf, h, this]
  simpa [hne, futOf] using hj0

/-- `FutWf` follows from the moves of the futures. -/
theorem futWf_step {s s' : State Val Err} (hW : FutWf s) (hn : s.nsub ≤ s'.nsub)
    (hfs : ∀ j, FutMove s s' j) : FutWf s' := by
  intro j hj
  have h0 := hW j (Nat.le_trans hn hj)
  rcases (hfs j).2 h0 with h | h
  · exact h
  · omega

end ExecModel.Sys

namespace ExecModel.Sys
variable {Val Err : Type}
variable (cfg : Cfg) (eval : Nat → List Val → Except Err Val) (cancelErr : Err)

/-- Every step of the system: `nsub` grows by at most one, running-role holders stay consistent,
    every future makes a legal move. -/
theorem core_step_facts {s s' : State Val Err} {l : Label Val Err} (hC : Core s)
    (h : step cfg eval cancelErr s l = some s') :
    (s'.nsub = s.nsub ∨ s'.nsub = s.nsub + 1) ∧ RunHolder s' ∧ (∀ j, FutMove s s' j) := by
  unfold step at h
  split at h
  all_goals first
    | exact core_mainStep cfg hC h
    | exact (fun x => ⟨Or.inl x.1, x.2⟩) (core_resStep cfg cancelErr hC h)
    | exact (fun x => ⟨Or.inl x.1, x.2⟩) (core_dispStep cfg hC h)
    | exact (fun x => ⟨Or.inl x.1, x.2⟩) (core_workerStep eval hC h)

theorem core_step {s s' : State Val Err} {l : Label Val Err} (hC : Core s)
    (h : step cfg eval cancelErr s l = some s') : Core s' := by
  obtain ⟨h1, h2, h3⟩ := core_step_facts cfg eval cancelErr hC h
  exact ⟨unique_step cfg eval cancelErr hC.uniq h, futWf_step hC.futWf (by omega) h3, h2⟩

theorem core_init (script : List Cmd) : Core (init cfg script : State Val Err) := by
  refine ⟨unique_init cfg script, ?_, ?_, ?_⟩
  · intro i _
    simp [futOf, init, List.getD_eq_getElem?_getD, List.getElem?_replicate]
    split <;> rfl
  · intro k w i hk hr
    simp only [init] at hk
    split at hk
    · simp [List.getElem?_replicate] at hk
      obtain ⟨_, rfl⟩ := hk
      simp [wpcRuns] at hr
    · simp at hk
  · intro i e r hr
    simp only [init] at hr
    split at hr <;> simp at hr

/-- Invariant and monotonicity along any run. -/
theorem core_run {s0 s : State Val Err} (ls : List (Label Val Err)) (hC : Core s0)
    (h : run cfg eval cancelErr s0 ls = some s) :
    Core s ∧ s0.nsub ≤ s.nsub := by
  induction ls generalizing s0 with
  | nil => simp [run] at h; subst h; exact ⟨hC, Nat.le_refl _⟩
  | cons l ls ih =>
    simp only [run, Option.bind_eq_some_iff] at h
    obtain ⟨s1, h1, h2⟩ := h
    have hC1 := core_step cfg eval cancelErr hC h1
    obtain ⟨hn, -, -⟩ := core_step_facts cfg eval cancelErr hC h1
    obtain ⟨hCs, hle⟩ := ih hC1 h2
    exact ⟨hCs, by omega⟩

theorem core_reachable {script : List Cmd} {s : State Val Err}
    (h : Reachable cfg eval cancelErr script s) : Core s := by
  obtain ⟨ls, hls⟩ := h
  exact (core_run cfg eval cancelErr ls (core_init cfg script) hls).1

end ExecModel.Sys
