import ExecModel.Basic
/-!
  `Args` — argument trees of a submitted call and the two traversals of
  `executorlib/interactive/shared.py`: `_get_future_objects_from_input` (`futuresOf`, `ready`) and
  `_update_futures_in_input` (`subst`).  Futures are looked for at the top level of `args`, in the
  values of `kwargs`, and inside nested **lists**; tuples, dicts and anything else are left alone.
  Every container node carries the name of its Python class (`"list"`, `"tuple"`, `"dict"`, or a
  subclass such as a namedtuple class, `OrderedDict`, a user subclass of `list`): an instance of a
  subclass of `list` is searched and resolved like a list and keeps its class (fix of defect D32:
  the code used to rebuild it as a plain `list`).
-/
namespace ExecModel.Args

inductive Arg (V : Type) where
  | val (v : V)
  | fut (j : Nat)
  | list (cls : String) (xs : List (Arg V))
  | tuple (cls : String) (xs : List (Arg V))
  | dict (cls : String) (kvs : List (String × Arg V))
  deriving Repr

variable {V : Type}

mutual
/-- `find_future_in_list` applied to one element. -/
def futuresOf : Arg V → List Nat
  | .val _ => []
  | .fut j => [j]
  | .list _ xs => futuresOfL xs
  | .tuple _ _ => []
  | .dict _ _ => []
/-- `find_future_in_list(lst)`. -/
def futuresOfL : List (Arg V) → List Nat
  | [] => []
  | a :: as => futuresOf a ++ futuresOfL as
end

mutual
/-- `get_result(arg)` with `σ j` the result of future `j`. -/
def subst (σ : Nat → V) : Arg V → Arg V
  | .val v => .val v
  | .fut j => .val (σ j)
  | .list c xs => .list c (substL σ xs)
  | .tuple c xs => .tuple c xs
  | .dict c kvs => .dict c kvs
def substL (σ : Nat → V) : List (Arg V) → List (Arg V)
  | [] => []
  | a :: as => subst σ a :: substL σ as
end

mutual
/-- the classes of the container nodes, in traversal order (tuples and dicts are leaves of the traversal) -/
def classes : Arg V → List String
  | .val _ => []
  | .fut _ => []
  | .list c xs => c :: classesL xs
  | .tuple c _ => [c]
  | .dict c _ => [c]
def classesL : List (Arg V) → List String
  | [] => []
  | a :: as => classes a ++ classesL as
end

/-- A submitted call: positional arguments and keyword arguments (insertion ordered). -/
structure Call (V : Type) where
  args : List (Arg V)
  kwargs : List (String × Arg V)

/-- `_get_future_objects_from_input`: futures of `args`, then of `kwargs.values()`. -/
def Call.futures (c : Call V) : List Nat := futuresOfL c.args ++ futuresOfL (c.kwargs.map (·.2))

/-- the `boolean_flag`: all futures found are done -/
def Call.ready (done : Nat → Bool) (c : Call V) : Bool := c.futures.all done

def substKw (σ : Nat → V) : List (String × Arg V) → List (String × Arg V)
  | [] => []
  | (k, a) :: r => (k, subst σ a) :: substKw σ r

/-- `_update_futures_in_input`. -/
def Call.subst (σ : Nat → V) (c : Call V) : Call V := { args := substL σ c.args, kwargs := substKw σ c.kwargs }

end ExecModel.Args
