import ExecModel.Basic
/-!
  `Sys` — one labelled transition system for the interactive executors of executorlib
  (`interactive/shared.py`, `interactive/executor.py`, `base/executor.py`, `standalone/queue.py`,
  `standalone/thread.py`), as found after the `fix:` commits listed in /verif/known_findings.json.

  Threads: the user thread (a finite script), the dependency resolver
  (`execute_tasks_with_dependencies`, present iff `cfg.resolver`), the per-call dispatcher
  (`execute_separate_tasks`, present iff `cfg.block = none`) and worker threads
  (`execute_parallel_tasks`): `n` of them on the inner queue with block allocation, one per call
  on a private queue otherwise.  Every label is one Python-level synchronisation operation (or a
  short group of thread-private operations closed by one); polling loops are guarded steps.

  Values are abstract: `eval i inputs` is the outcome of call `i` when the futures among its
  arguments have the values `inputs` (traversal order) — theorems hold for every `eval`.
-/
namespace ExecModel.Sys

/-! ## static description of a case -/

structure CallSpec where
  deps    : List Nat := []          -- futures among the arguments (ids of earlier calls), traversal order
  cores   : Option Nat := none      -- per-call resource_dict["cores"]
  threads : Option Nat := none      -- per-call resource_dict["threads_per_core"]
  hasRes  : Bool := false           -- per-call resource_dict non-empty
  deriving Repr, DecidableEq

inductive Cmd
  | submit                          -- submit the next call of the program
  | cancel (i : Nat)                -- fut_i.cancel()
  | await (i : Nat)                 -- block until fut_i is done (fut_i.result() / exception())
  | shutdown (wait cancelFutures : Bool)
  deriving Repr, DecidableEq

structure Cfg where
  resolver   : Bool                 -- disable_dependencies = False
  block      : Option Nat           -- some n: block allocation with n workers; none: one process per call
  maxCores   : Option Nat := none   -- per-call mode limits
  maxWorkers : Option Nat := none
  execCores  : Nat := 1             -- executor-level cores per worker
  execThreads : Nat := 1            -- executor-level threads_per_core handed to the workers (1 on the local back end)
  calls      : List CallSpec
  deriving Repr, DecidableEq

/-- `_submit_function_to_separate_process`: effective cores (1 means "unset") × effective threads
    (the per-call `threads_per_core`, else the executor-level one: fix 8703212). -/
def slotsOf (cfg : Cfg) (c : CallSpec) : Nat :=
  (match c.cores with
    | none => cfg.execCores
    | some k => if k = 1 ∧ cfg.execCores ≥ 1 then cfg.execCores else k) * c.threads.getD cfg.execThreads

/-- `ExecutorBase.submit` (code after fixes 06d6e8a, 472d455): without block allocation a request
    of more than `max_cores` slots — the slots `_submit_function_to_separate_process` will account
    for the call — is refused with `ValueError`. -/
def submitTooBig (cfg : Cfg) (c : CallSpec) : Bool :=
  match cfg.block, cfg.maxCores with
  | none, some mc => decide (mc < slotsOf cfg c)
  | _, _ => false

/-! ## dynamic state -/

variable {Val Err : Type}

inductive Item (Val : Type)
  | task (i : Nat) (inputs : List Val)
  | stop (wait : Bool)
  deriving Repr, DecidableEq

structure Queue (Val : Type) where
  items : List (Item Val) := []
  unfin : Nat := 0
  deriving Repr, DecidableEq

def Queue.put (q : Queue Val) (it : Item Val) : Queue Val :=
  { items := q.items ++ [it], unfin := q.unfin + 1 }

inductive Fut (Val Err : Type)
  | absent | pending | running | cancelled | cancelledNotified
  | finished (v : Val) | failed (e : Err)
  deriving Repr, DecidableEq

def Fut.done : Fut Val Err → Bool
  | .cancelled | .cancelledNotified | .finished _ | .failed _ => true
  | _ => false

inductive QId | outer | inner | priv (i : Nat)
  deriving Repr, DecidableEq

inductive TId | resolver | disp | worker (k : Nat)
  deriving Repr, DecidableEq

inductive WPc (Val Err : Type)
  | boot                                  -- thread started, process not yet spawned
  | idle                                  -- about to `future_queue.get()`
  | gotTask (i : Nat) (inputs : List Val) -- about to `set_running_or_notify_cancel`
  | toSend (i : Nat) (inputs : List Val)
  | sent (i : Nat) (inputs : List Val)    -- request in flight / function executing
  | toAck                                 -- about to `task_done()`, then back to `get`
  | failB (i : Nat) (e : Err)             -- error received, process stopped; about to `task_done()`
  | failC (i : Nat) (e : Err)             -- about to `set_exception`, then the thread dies
  | dead (e : Err)
  | gotStop (wait : Bool)                 -- about to `interface.shutdown`
  | stopAck                               -- about to `task_done()`
  | stopJoin                              -- about to `future_queue.join()`
  | exited
  deriving Repr, DecidableEq

structure Worker (Val Err : Type) where
  q : QId
  pc : WPc Val Err := .boot
  procAlive : Bool := false
  procSpawned : Bool := false
  served : List Nat := []                 -- calls sent to this worker's process, oldest first
  deriving Repr, DecidableEq

/-- The shutdown procedure (`ExecutorBase.shutdown` / `ExecutorBroker.shutdown`), run by the user
    thread on the front executor and by the resolver on the inner executor. -/
inductive SdPc
  | drain | drainGot (i : Nat) | drainCancelled
  | putStops (k : Nat)
  | joinThreads (ts : List TId)
  | joinQueue
  | finish
  deriving Repr, DecidableEq

structure Sd where
  target : QId
  wait : Bool
  pc : SdPc
  deriving Repr, DecidableEq

inductive MainPc
  | idle
  | inSd (sd : Sd)
  deriving Repr, DecidableEq

/-- Where the resolver continues after failing a task whose input failed. -/
inductive RRet | needAck | poll | stopping (wait : Bool)
  deriving Repr, DecidableEq

inductive RPc (Val Err : Type)
  | poll
  | gotTask (i : Nat)                    -- dequeued, futures not yet inspected
  | ready (i : Nat)                      -- all inputs done: about to substitute and forward
  | needAck                              -- about to `task_done()` on the outer queue
  | failing (i : Nat) (e : Err) (ret : RRet)  -- own future set running, about to `set_exception`
  | stopping (wait : Bool)               -- stop message received, draining the wait list
  | inSd (sd : Sd)                       -- running `executor.shutdown(wait)` on the inner executor
  | stopAck | stopJoin | exited
  | dead (e : Err)
  deriving Repr, DecidableEq

inductive DPc (Val Err : Type)
  | idle
  | waitSlots (i : Nat) (inputs : List Val) (req : Nat)
  | needAck
  | stopping (ts : List TId)             -- stop(wait=true): joining the per-call threads
  | stopAck | stopJoin | exited
  | dead (e : Err)
  deriving Repr, DecidableEq

structure State (Val Err : Type) where
  script   : List Cmd
  nsub     : Nat := 0                    -- calls submitted so far
  fut      : List (Fut Val Err)          -- indexed by call id
  mainPc   : MainPc := .idle
  raised   : Nat := 0                    -- user-thread operations that raised
  frontOpen : Bool := true               -- handle of the executor the user holds
  innerOpen : Bool := true               -- handle of the inner executor (used by the resolver)
  qo       : Queue Val := {}             -- outer queue (user -> resolver)
  qi       : Queue Val := {}             -- inner queue (-> workers / dispatcher)
  qp       : List (Queue Val) := []      -- private queue of call i (per-call mode), indexed by call id
  res      : Option (RPc Val Err) := none
  waitLst  : List Nat := []              -- calls parked by the resolver
  disp     : Option (DPc Val Err) := none
  active   : List (Nat × Nat) := []      -- dispatcher's active table: (call, slots)
  wk       : List (Worker Val Err) := []
  wkOf     : List (Option Nat) := []     -- per-call mode: worker index launched for call i
  sentLog  : List Nat := []              -- ghost: calls handed to a process, in order
  cancelOk : List Nat := []              -- ghost: calls whose cancel() returned True
  deriving Repr, DecidableEq

inductive Label (Val Err : Type)
  -- user thread
  | mSubmit | mSubmitRaise | mCancel (i : Nat) | mAwait (i : Nat)
  | mSdBegin
  -- shutdown procedure, `byRes = true` when run by the resolver on the inner executor
  | sdDrainGet (byRes : Bool) | sdDrainSkip (byRes : Bool) | sdDrainCancel (byRes : Bool)
  | sdDrainDone (byRes : Bool) | sdDrainEmpty (byRes : Bool)
  | sdPutStop (byRes : Bool) | sdJoinThread (byRes : Bool) | sdJoinThreadRaise (byRes : Bool)
  | sdJoinQueue (byRes : Bool) | sdFinish (byRes : Bool)
  -- resolver
  | rGet | rDecideReady | rDecidePark | rForward | rFailDep | rFailSet | rAck
  | rScanFwd (k : Nat) | rScanFail (k : Nat) | rBeginSd | rStopAck | rJoinExit
  -- dispatcher
  | dGet | dPrune (k : Nat) | dLaunch | dAck | dJoinThread | dJoinThreadRaise | dStopAck | dJoinExit
  -- worker k
  | wBoot (k : Nat) | wGet (k : Nat) | wSrn (k : Nat) | wSend (k : Nat) | wFinish (k : Nat)
  | wFailA (k : Nat) | wFailB (k : Nat) | wFailC (k : Nat)
  | wProcStop (k : Nat) | wAck (k : Nat) | wStopAck (k : Nat) | wJoinExit (k : Nat)
  deriving Repr, DecidableEq

/-! ## helpers -/

def frontQ (cfg : Cfg) : QId := if cfg.resolver then .outer else .inner

def getQ (s : State Val Err) : QId → Queue Val
  | .outer => s.qo
  | .inner => s.qi
  | .priv i => s.qp.getD i {}

def setQ (s : State Val Err) (q : QId) (v : Queue Val) : State Val Err :=
  match q with
  | .outer => { s with qo := v }
  | .inner => { s with qi := v }
  | .priv i => { s with qp := s.qp.set i v }

def futOf (s : State Val Err) (i : Nat) : Fut Val Err := s.fut.getD i .absent

def setFut (s : State Val Err) (i : Nat) (f : Fut Val Err) : State Val Err :=
  { s with fut := s.fut.set i f }

def taskDone (s : State Val Err) (q : QId) : State Val Err :=
  let v := getQ s q
  setQ s q { v with unfin := v.unfin - 1 }

/-- Has thread `t` terminated (normally or with an exception)? -/
def threadEnded (s : State Val Err) : TId → Option (Option Err)
  | .resolver => match s.res with
    | some .exited => some none
    | some (.dead e) => some (some e)
    | _ => none
  | .disp => match s.disp with
    | some .exited => some none
    | some (.dead e) => some (some e)
    | _ => none
  | .worker k => match s.wk[k]? with
    | some w => (match w.pc with
      | .exited => some none
      | .dead e => some (some e)
      | _ => none)
    | none => none

/-- Threads `shutdown` joins for the executor owning queue `q`. -/
def threadsOf (cfg : Cfg) : QId → List TId
  | .outer => [.resolver]
  | .inner => match cfg.block with
    | some n => (List.range n).map .worker
    | none => [.disp]
  | .priv _ => []

def setWk (s : State Val Err) (k : Nat) (w : Worker Val Err) : State Val Err :=
  { s with wk := s.wk.set k w }

/-- `_executor_is_alive(executor)` is false: every thread of the inner executor has terminated. -/
def innerAllEnded (cfg : Cfg) (s : State Val Err) : Bool :=
  (threadsOf cfg .inner).all (fun t => (threadEnded s t).isSome)

/-- Values of the futures a call depends on, if all of them finished with a value. -/
def inputsOf (s : State Val Err) : List Nat → Option (List Val)
  | [] => some []
  | j :: js => match futOf s j, inputsOf s js with
    | .finished v, some vs => some (v :: vs)
    | _, _ => none

/-- First failure among the inputs (`result()` raises it), traversal order. -/
def firstFailure (cancelErr : Err) (s : State Val Err) : List Nat → Option Err
  | [] => none
  | j :: js => match futOf s j with
    | .failed e => some e
    | .cancelled | .cancelledNotified => some cancelErr
    | _ => firstFailure cancelErr s js

def allDone (s : State Val Err) (js : List Nat) : Bool := js.all (fun j => (futOf s j).done)

def depsOf (cfg : Cfg) (i : Nat) : List Nat := (cfg.calls.getD i {}).deps

def activeSum (a : List (Nat × Nat)) : Nat := (a.map (·.2)).sum

/-- `_wait_for_free_slots` loop condition: does the request fit? -/
def fits (cfg : Cfg) (a : List (Nat × Nat)) (req : Nat) : Bool :=
  match cfg.maxCores, cfg.maxWorkers with
  | some mc, _ => activeSum a + req ≤ mc
  | none, some mw => a.length + 1 ≤ mw
  | none, none => true

/-! ## the shutdown procedure, shared by the user thread and the resolver -/

/-- One step of the shutdown procedure `sd` (`none` = not enabled).  Returns the new state and
    `some sd'` to continue, `none` when the procedure has returned; `Except` carries an exception
    re-raised from a joined thread. -/
def sdStep (cfg : Cfg) (s : State Val Err) (sd : Sd) (lbl : Label Val Err) :
    Option (State Val Err × Except Err (Option Sd)) :=
  let q := getQ s sd.target
  match sd.pc, lbl with
  | .drain, .sdDrainGet _ =>
    match q.items with
    | .task i _ :: rest => some (setQ s sd.target { q with items := rest }, .ok (some { sd with pc := .drainGot i }))
    | _ => none
  | .drain, .sdDrainSkip _ =>          -- a stop message is dropped without task_done()
    match q.items with
    | .stop _ :: rest => some (setQ s sd.target { q with items := rest }, .ok (some sd))
    | _ => none
  | .drain, .sdDrainEmpty _ =>
    match q.items with
    | [] => some (s, .ok (some { sd with pc := .putStops (threadsOf cfg sd.target).length }))
    | _ => none
  | .drainGot i, .sdDrainCancel _ =>
    let s' := match futOf s i with
      | .pending => { setFut s i .cancelled with cancelOk := s.cancelOk ++ [i] }
      | _ => s
    some (s', .ok (some { sd with pc := .drainCancelled }))
  | .drainCancelled, .sdDrainDone _ => some (taskDone s sd.target, .ok (some { sd with pc := .drain }))
  | .putStops (k + 1), .sdPutStop _ =>
    some (setQ s sd.target (q.put (.stop sd.wait)), .ok (some { sd with pc := .putStops k }))
  | .putStops 0, .sdPutStop _ => none
  | .joinThreads (t :: ts), .sdJoinThread _ =>
    match threadEnded s t with
    | some none => some (s, .ok (some { sd with pc := .joinThreads ts }))
    | _ => none
  | .joinThreads (t :: _), .sdJoinThreadRaise _ =>
    match threadEnded s t with
    | some (some e) => some (s, .error e)
    | _ => none
  | .joinQueue, .sdJoinQueue _ =>
    if q.unfin = 0 then some (s, .ok (some { sd with pc := .finish })) else none
  | .finish, .sdFinish _ => some (s, .ok none)
  | _, _ => none

/-- Bookkeeping between the stages that involves no shared operation. -/
def sdNormalize (cfg : Cfg) (sd : Sd) : Sd :=
  match sd.pc with
  | .putStops 0 => if sd.wait then { sd with pc := .joinThreads (threadsOf cfg sd.target) } else { sd with pc := .finish }
  | .joinThreads [] => { sd with pc := .joinQueue }
  | _ => sd

def sdNorm (cfg : Cfg) (sd : Sd) : Sd := sdNormalize cfg (sdNormalize cfg sd)

/-! ## transition function -/

section Step
variable (cfg : Cfg) (eval : Nat → List Val → Except Err Val) (cancelErr : Err)

def mainStep (s : State Val Err) (lbl : Label Val Err) : Option (State Val Err) :=
  match s.mainPc, lbl with
  | .idle, .mSubmit =>
    match s.script with
    | .submit :: rest =>
      let i := s.nsub
      let c := cfg.calls.getD i {}
      if s.frontOpen ∧ i < cfg.calls.length ∧ ¬ (cfg.block.isSome ∧ c.hasRes) ∧ submitTooBig cfg c = false then
        let s1 := setFut { s with script := rest, nsub := i + 1 } i .pending
        some (setQ s1 (frontQ cfg) ((getQ s1 (frontQ cfg)).put (.task i [])))
      else none
    | _ => none
  | .idle, .mSubmitRaise =>
    match s.script with
    | .submit :: rest =>
      let i := s.nsub
      let c := cfg.calls.getD i {}
      if i < cfg.calls.length ∧ (¬ s.frontOpen ∨ (cfg.block.isSome ∧ c.hasRes) ∨ submitTooBig cfg c = true) then
        some { s with script := rest, nsub := i + 1, raised := s.raised + 1 }
      else none
    | _ => none
  | .idle, .mCancel i =>
    match s.script with
    | .cancel j :: rest =>
      if i = j then
        match futOf s i with
        | .pending => some { setFut { s with script := rest } i .cancelled with cancelOk := s.cancelOk ++ [i] }
        | .absent => none
        | _ => some { s with script := rest }
      else none
    | _ => none
  | .idle, .mAwait i =>
    match s.script with
    | .await j :: rest => if i = j ∧ (futOf s i).done then some { s with script := rest } else none
    | _ => none
  | .idle, .mSdBegin =>
    match s.script with
    | .shutdown w c :: rest =>
      let s1 := { s with script := rest }
      if s.frontOpen then
        let sd : Sd := { target := frontQ cfg, wait := w,
                         pc := if c then .drain else .putStops (threadsOf cfg (frontQ cfg)).length }
        some { s1 with mainPc := .inSd (sdNorm cfg sd) }
      else some s1            -- handles already cleared: nothing to do, nothing raised
    | _ => none
  | .inSd sd, l =>
    match l with
    | .sdDrainGet false | .sdDrainSkip false | .sdDrainCancel false | .sdDrainDone false
    | .sdDrainEmpty false | .sdPutStop false | .sdJoinThread false | .sdJoinThreadRaise false
    | .sdJoinQueue false | .sdFinish false =>
      match sdStep cfg s sd l with
      | some (s', .ok (some sd')) => some { s' with mainPc := .inSd (sdNorm cfg sd') }
      | some (s', .ok none) => some { s' with mainPc := .idle, frontOpen := false }
      | some (s', .error _) => some { s' with mainPc := .idle, raised := s'.raised + 1 }
      | none => none
    | _ => none
  | _, _ => none

def resStep (s : State Val Err) (lbl : Label Val Err) : Option (State Val Err) :=
  match s.res with
  | none => none
  | some pc =>
    match pc, lbl with
    | .poll, .rGet =>
      match s.qo.items with
      | .task i _ :: rest => some { s with qo := { s.qo with items := rest }, res := some (.gotTask i) }
      | .stop w :: rest => some { s with qo := { s.qo with items := rest }, res := some (.stopping w) }
      | [] => none
    | .gotTask i, .rDecideReady =>
      if allDone s (depsOf cfg i) then some { s with res := some (.ready i) } else none
    | .gotTask i, .rDecidePark =>
      if allDone s (depsOf cfg i) then none
      else some { s with waitLst := s.waitLst ++ [i], res := some .needAck }
    | .ready i, .rForward =>
      match inputsOf s (depsOf cfg i) with
      | some vs => some { s with qi := s.qi.put (.task i vs), res := some .needAck }
      | none => none
    | .ready i, .rFailDep =>
      match inputsOf s (depsOf cfg i), firstFailure cancelErr s (depsOf cfg i) with
      | none, some e =>
        match futOf s i with
        | .pending => some { setFut s i .running with res := some (.failing i e .needAck) }
        | .cancelled => some { setFut s i .cancelledNotified with res := some .needAck }
        | _ => none
      | _, _ => none
    | .failing i e ret, .rFailSet =>
      match futOf s i with
      | .running =>
        some { setFut s i (.failed e) with
               res := some (match ret with | .needAck => .needAck | .poll => .poll | .stopping w => .stopping w) }
      | _ => none
    | .needAck, .rAck => some { taskDone s .outer with res := some .poll }
    | .poll, .rScanFwd k | .stopping _, .rScanFwd k =>
      match s.waitLst[k]? with
      | some i =>
        if allDone s (depsOf cfg i) then
          match inputsOf s (depsOf cfg i) with
          | some vs => some { s with qi := s.qi.put (.task i vs), waitLst := s.waitLst.eraseIdx k }
          | none => none
        else none
      | none => none
    | .poll, .rScanFail k | .stopping _, .rScanFail k =>
      match s.waitLst[k]? with
      | some i =>
        if allDone s (depsOf cfg i) then
          match inputsOf s (depsOf cfg i), firstFailure cancelErr s (depsOf cfg i) with
          | none, some e =>
            let ret : RRet := match pc with | .stopping w => .stopping w | _ => .poll
            match futOf s i with
            | .pending => some { setFut s i .running with waitLst := s.waitLst.eraseIdx k, res := some (.failing i e ret) }
            | .cancelled => some { setFut s i .cancelledNotified with waitLst := s.waitLst.eraseIdx k }
            | _ => none
          | _, _ => none
        else none
      | none => none
    | .stopping w, .rBeginSd =>
      -- parked calls are forwarded first; the wait is given up only when no thread of the inner
      -- executor is alive any more (`_executor_is_alive`), i.e. their inputs can never finish
      if s.waitLst = [] ∨ s.innerOpen = false ∨ innerAllEnded cfg s then
        if s.innerOpen then
          let sd : Sd := { target := .inner, wait := w, pc := .putStops (threadsOf cfg .inner).length }
          some { s with res := some (.inSd (sdNorm cfg sd)) }
        else some { s with res := some .stopAck }
      else none
    | .inSd sd, l =>
      match l with
      | .sdPutStop true | .sdJoinThread true | .sdJoinThreadRaise true | .sdJoinQueue true
      | .sdFinish true =>
        match sdStep cfg s sd l with
        | some (s', .ok (some sd')) => some { s' with res := some (.inSd (sdNorm cfg sd')) }
        | some (s', .ok none) => some { s' with res := some .stopAck, innerOpen := false }
        | some (s', .error e) => some { s' with res := some (.dead e) }
        | none => none
      | _ => none
    | .stopAck, .rStopAck => some { taskDone s .outer with res := some .stopJoin }
    | .stopJoin, .rJoinExit => if s.qo.unfin = 0 then some { s with res := some .exited } else none
    | _, _ => none

def dispStep (s : State Val Err) (lbl : Label Val Err) : Option (State Val Err) :=
  match s.disp with
  | none => none
  | some pc =>
    match pc, lbl with
    | .idle, .dGet =>
      match s.qi.items with
      | .task i vs :: rest =>
        some { s with qi := { s.qi with items := rest },
                      disp := some (.waitSlots i vs (slotsOf cfg (cfg.calls.getD i {}))) }
      | .stop w :: rest =>
        let ts := if w then (List.range s.wk.length).map TId.worker else []
        some { s with qi := { s.qi with items := rest },
                      disp := some (if ts = [] then .stopAck else .stopping ts) }
      | [] => none
    | .waitSlots _ _ _, .dPrune k =>
      -- one done entry is dropped from the active table (the real loop does so only while the
      -- request does not fit; dropping a finished entry earlier changes nothing observable)
      match s.active[k]? with
      | some (j, _) => if (futOf s j).done then some { s with active := s.active.eraseIdx k } else none
      | none => none
    | .waitSlots i vs req, .dLaunch =>
      if fits cfg s.active req then
        let k := s.wk.length
        let w : Worker Val Err := { q := .priv i }
        some { s with active := s.active ++ [(i, req)],
                      qp := s.qp.set i { items := [.task i vs, .stop true], unfin := 2 },
                      wk := s.wk ++ [w], wkOf := s.wkOf.set i (some k),
                      disp := some .needAck }
      else none
    | .needAck, .dAck => some { taskDone s .inner with disp := some .idle }
    | .stopping (t :: ts), .dJoinThread =>
      match threadEnded s t with
      | some none => some { s with disp := some (if ts = [] then .stopAck else .stopping ts) }
      | _ => none
    | .stopping (t :: _), .dJoinThreadRaise =>
      match threadEnded s t with
      | some (some e) => some { s with disp := some (.dead e) }
      | _ => none
    | .stopAck, .dStopAck => some { taskDone s .inner with disp := some .stopJoin }
    | .stopJoin, .dJoinExit => if s.qi.unfin = 0 then some { s with disp := some .exited } else none
    | _, _ => none

def workerStep (s : State Val Err) (k : Nat) (lbl : Label Val Err) : Option (State Val Err) :=
  match s.wk[k]? with
  | none => none
  | some w =>
    let q := getQ s w.q
    match w.pc, lbl with
    | .boot, .wBoot _ => some (setWk s k { w with pc := .idle, procAlive := true, procSpawned := true })
    | .idle, .wGet _ =>
      match q.items with
      | .task i vs :: rest => some (setWk (setQ s w.q { q with items := rest }) k { w with pc := .gotTask i vs })
      | .stop wt :: rest => some (setWk (setQ s w.q { q with items := rest }) k { w with pc := .gotStop wt })
      | [] => none
    | .gotTask i vs, .wSrn _ =>
      match futOf s i with
      | .pending => some (setWk (setFut s i .running) k { w with pc := .toSend i vs })
      | .cancelled => some (setWk (setFut s i .cancelledNotified) k { w with pc := .toAck })
      | _ => none
    | .toSend i vs, .wSend _ =>
      some { setWk s k { w with pc := .sent i vs, served := w.served ++ [i] } with sentLog := s.sentLog ++ [i] }
    | .sent i vs, .wFinish _ =>
      match eval i vs with
      | .ok v => some (setWk (setFut s i (.finished v)) k { w with pc := .toAck })
      | .error _ => none
    | .sent i vs, .wFailA _ =>
      match eval i vs with
      | .error e => some (setWk s k { w with pc := .failB i e, procAlive := false })
      | .ok _ => none
    | .failB i e, .wFailB _ => some (setWk (taskDone s w.q) k { w with pc := .failC i e })
    | .failC i e, .wFailC _ => some (setWk (setFut s i (.failed e)) k { w with pc := .dead e })
    | .toAck, .wAck _ => some (setWk (taskDone s w.q) k { w with pc := .idle })
    | .gotStop _, .wProcStop _ => some (setWk s k { w with pc := .stopAck, procAlive := false })
    | .stopAck, .wStopAck _ => some (setWk (taskDone s w.q) k { w with pc := .stopJoin })
    | .stopJoin, .wJoinExit _ => if q.unfin = 0 then some (setWk s k { w with pc := .exited }) else none
    | _, _ => none

def step (s : State Val Err) (lbl : Label Val Err) : Option (State Val Err) :=
  match lbl with
  | .mSubmit | .mSubmitRaise | .mCancel _ | .mAwait _ | .mSdBegin => mainStep cfg s lbl
  | .sdDrainGet false | .sdDrainSkip false | .sdDrainCancel false | .sdDrainDone false
  | .sdDrainEmpty false | .sdPutStop false | .sdJoinThread false | .sdJoinThreadRaise false
  | .sdJoinQueue false | .sdFinish false => mainStep cfg s lbl
  | .sdDrainGet true | .sdDrainSkip true | .sdDrainCancel true | .sdDrainDone true
  | .sdDrainEmpty true | .sdPutStop true | .sdJoinThread true | .sdJoinThreadRaise true
  | .sdJoinQueue true | .sdFinish true => resStep cfg cancelErr s lbl
  | .rGet | .rDecideReady | .rDecidePark | .rForward | .rFailDep | .rFailSet | .rAck
  | .rScanFwd _ | .rScanFail _ | .rBeginSd | .rStopAck | .rJoinExit => resStep cfg cancelErr s lbl
  | .dGet | .dPrune _ | .dLaunch | .dAck | .dJoinThread | .dJoinThreadRaise | .dStopAck | .dJoinExit =>
    dispStep cfg s lbl
  | .wBoot k | .wGet k | .wSrn k | .wSend k | .wFinish k | .wFailA k | .wFailB k | .wFailC k
  | .wProcStop k | .wAck k | .wStopAck k | .wJoinExit k => workerStep eval s k lbl

def run (s : State Val Err) : List (Label Val Err) → Option (State Val Err)
  | [] => some s
  | l :: ls => (step cfg eval cancelErr s l).bind (fun s' => run s' ls)

end Step

/-- Initial state: executor constructed, threads started, nothing submitted. -/
def init (cfg : Cfg) (script : List Cmd) : State Val Err :=
  { script := script
    fut := List.replicate cfg.calls.length .absent
    qp := List.replicate cfg.calls.length {}
    wkOf := List.replicate cfg.calls.length none
    res := if cfg.resolver then some .poll else none
    disp := match cfg.block with | some _ => none | none => some .idle
    wk := match cfg.block with
      | some n => List.replicate n { q := .inner }
      | none => [] }

end ExecModel.Sys
