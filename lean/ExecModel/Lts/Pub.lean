/-!
  `Pub` — publication of cache entries at the level of file-system calls.

  The transition systems `Cache` and `FileExec` have an *atomic* publish step (`write`+`publish`
  with `atomicPublish`, `pPublish`): a final name (`<key>.h5out`) appears with its complete content
  in one step.  This file models what that step rests on: files on several file systems, opened
  for writing, appended to, closed, renamed (`rename(2)` is atomic within one file system and fails
  with `EXDEV` across two), unlinked — and the *discipline* under which a final name never holds a
  partial entry, whatever the instant at which the writing process is killed:

  * a final name is never opened for writing, and
  * it is created only by `rename` from a non-final name in the **same directory** that no process
    has open for writing any more.

  `executorlib` follows it (`_execute_task_with_cache`: dump to `<key>_<uuid>.h5tmp` in the cache
  directory, `os.rename`; `backend_write_file`: `.h5in → .h5ready`, append, `.h5ready → .h5out`).
  The C14 check replays the system calls of real sessions (strace) through `stepD`.
-/
namespace ExecModel.Pub

/-- A name in a directory of a file system.  `final` marks the names a later run accepts as a
    finished result (`*.h5out`). -/
structure Path where
  fs    : Nat
  dir   : Nat
  name  : String
  final : Bool
  deriving Repr, DecidableEq

/-- A file: its bytes so far and the number of descriptors open for writing. -/
structure File where
  path    : Path
  bytes   : Nat
  writers : Nat
  deriving Repr, DecidableEq

abbrev State := List File

inductive Op where
  | create (p : Path)            -- open(O_CREAT | O_TRUNC | O_WRONLY): a new, empty file
  | reopen (p : Path)            -- open(O_WRONLY | O_APPEND) of an existing file
  | write  (p : Path) (n : Nat)  -- n more bytes
  | close  (p : Path)            -- one writing descriptor closed
  | rename (p q : Path)
  | unlink (p : Path)
  | crash                        -- the writing process is killed here: the files stay as they are
  deriving Repr, DecidableEq

def setPath (f : File) (q : Path) : File := { f with path := q }

/-- What the kernel does.  `rename` across file systems fails (`EXDEV`) and changes nothing. -/
def step (s : State) : Op → State
  | .create p => s.filter (fun f => f.path ≠ p) ++ [{ path := p, bytes := 0, writers := 1 }]
  | .reopen p => s.map (fun f => if f.path = p then { f with writers := f.writers + 1 } else f)
  | .write p n => s.map (fun f => if f.path = p then { f with bytes := f.bytes + n } else f)
  | .close p => s.map (fun f => if f.path = p then { f with writers := f.writers - 1 } else f)
  | .rename p q =>
    if p.fs ≠ q.fs then s
    else (s.filter (fun f => f.path ≠ q)).map (fun f => if f.path = p then setPath f q else f)
  | .unlink p => s.filter (fun f => f.path ≠ p)
  | .crash => s

def run (s : State) (ops : List Op) : State := ops.foldl step s

/-- The publication discipline, decided per call in the state it is made in. -/
def okOp (s : State) : Op → Bool
  | .create p => !p.final
  | .reopen p => !p.final
  | .write p _ => !p.final
  | .close _ => true
  | .rename p q =>
    !q.final || (p.fs == q.fs && p.dir == q.dir && !p.final && s.all (fun f => f.path ≠ p || f.writers == 0))
  | .unlink _ => true
  | .crash => true

/-- `step` restricted to the discipline (`none`: the call breaks it). -/
def stepD (s : State) (op : Op) : Option State := if okOp s op then some (step s op) else none

def runD : State → List Op → Option State
  | s, [] => some s
  | s, op :: ops => match stepD s op with
    | some s' => runD s' ops
    | none => none

/-- index of the first call of a trace that breaks the discipline -/
def firstBad : State → List Op → Nat → Option Nat
  | _, [], _ => none
  | s, op :: ops, i => if okOp s op then firstBad (step s op) ops (i + 1) else some i

/-- **No partial entry under a final name**: every file with a final name is closed (no writer). -/
def Inv (s : State) : Prop := ∀ f ∈ s, f.path.final = true → f.writers = 0

/-- …and, stronger, nobody ever wrote to it under that name: the bytes a final name holds are the
    bytes its file had when it was renamed (tracked by `sealed`). -/
def finals (s : State) : List (Path × Nat) := (s.filter (fun f => f.path.final)).map (fun f => (f.path, f.bytes))

end ExecModel.Pub
