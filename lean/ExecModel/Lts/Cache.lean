import ExecModel.Basic
/-!
  `Cache` — the interactive cache of `_execute_task_with_cache` (interactive/shared.py) with `k`
  worker threads sharing one directory, over any number of sessions.

  `atomic = true` is the code after the fix "publish cache entries by rename": the entry is written
  under a unique temporary name and renamed to `<key>.h5out`, so a file with the final name is
  always complete.  `atomic = false` is the code as found (defect D12): `dump` creates
  `<key>.h5out` and appends the datasets one by one, and the hit path ignores the "output present"
  flag of `get_output`, returning `None` for an entry whose output is not written yet.

  Cancellation: a call whose future was cancelled while it was queued is taken by `lookCancelled`
  instead of `look`: the key is computed and the directory listed, then
  `future.set_running_or_notify_cancel()` returns False and the call is dropped — nothing is sent
  to the worker process, nothing is written, no result is set (on a hit as on a miss).
-/
namespace ExecModel.Cache

variable {Call K V : Type}

/-- a file under its final name: `none` = created, output dataset not yet written -/
abbrev Dir (K V : Type) := List (K × Option V)

def lookup [DecidableEq K] (d : Dir K V) (k : K) : Option (Option V) :=
  match d with
  | [] => none
  | (k', v) :: r => if k' = k then some v else lookup r k

/-- `os.rename(tmp, final)` / in-place completion: the entry for `k` now holds `v` -/
def publish [DecidableEq K] (d : Dir K V) (k : K) (v : Option V) : Dir K V :=
  (k, v) :: d.filter (fun e => e.1 ≠ k)

inductive Pc (Call V : Type)
  | idle                         -- about to serialize the next call and list the directory
  | missed (c : Call)            -- key not listed: about to send the call to the worker process
  | computed (c : Call) (v : V)  -- result received: about to write the entry
  | creating (c : Call) (v : V)  -- (in-place only) file created under the final name, output not yet written
  deriving Repr, DecidableEq

structure Worker (Call V : Type) where
  todo : List Call
  pc : Pc Call V := .idle
  deriving Repr, DecidableEq

structure State (Call K V : Type) where
  dir : Dir K V
  wk : List (Worker Call V)
  results : List (Call × Option V) := []    -- (call, value its future received); `none` = Python `None`
  dropped : List Call := []                 -- ghost: calls whose future was cancelled while queued (never sent, written or answered)
  deriving Repr, DecidableEq

inductive Label
  | look (w : Nat)      -- serialize + listdir (+ on a hit: read the output and set the future's result)
  | compute (w : Nat)   -- send, receive
  | create (w : Nat)    -- in-place only: open the final name, write function and arguments
  | write (w : Nat)     -- atomic: write temp file and rename; in-place: append the output dataset; then set the result
  | lookCancelled (w : Nat)  -- serialize + listdir for a call whose future was cancelled while queued:
                             -- `set_running_or_notify_cancel()` is False, the call is dropped (hit or miss alike)
  deriving Repr, DecidableEq

variable [DecidableEq K]

def step (atomic : Bool) (key : Call → K) (eval : Call → V) (s : State Call K V) : Label → Option (State Call K V)
  | .look w =>
    match s.wk[w]? with
    | some wk =>
      (match wk.pc, wk.todo with
       | .idle, c :: rest =>
         (match lookup s.dir (key c) with
          | some v => some { s with wk := s.wk.set w { todo := rest, pc := .idle }, results := s.results ++ [(c, v)] }
          | none => some { s with wk := s.wk.set w { todo := rest, pc := .missed c } })
       | _, _ => none)
    | none => none
  | .compute w =>
    match s.wk[w]? with
    | some wk =>
      (match wk.pc with
       | .missed c => some { s with wk := s.wk.set w { wk with pc := .computed c (eval c) } }
       | _ => none)
    | none => none
  | .create w =>
    match s.wk[w]? with
    | some wk =>
      (match wk.pc with
       | .computed c v =>
         if atomic then none
         else some { s with dir := publish s.dir (key c) none, wk := s.wk.set w { wk with pc := .creating c v } }
       | _ => none)
    | none => none
  | .write w =>
    match s.wk[w]? with
    | some wk =>
      (match wk.pc with
       | .computed c v =>
         if atomic then
           some { s with dir := publish s.dir (key c) (some v), wk := s.wk.set w { wk with pc := .idle },
                         results := s.results ++ [(c, some v)] }
         else none
       | .creating c v =>
         some { s with dir := publish s.dir (key c) (some v), wk := s.wk.set w { wk with pc := .idle },
                       results := s.results ++ [(c, some v)] }
       | _ => none)
    | none => none
  | .lookCancelled w =>
    match s.wk[w]? with
    | some wk =>
      (match wk.pc, wk.todo with
       | .idle, c :: rest =>
         some { s with wk := s.wk.set w { todo := rest, pc := .idle }, dropped := s.dropped ++ [c] }
       | _, _ => none)
    | none => none

def run (atomic : Bool) (key : Call → K) (eval : Call → V) (s : State Call K V) :
    List Label → Option (State Call K V)
  | [] => some s
  | l :: ls => (step atomic key eval s l).bind (fun s' => run atomic key eval s' ls)

end ExecModel.Cache
