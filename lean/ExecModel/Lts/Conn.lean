/-!
  `Conn` — one worker connection at shutdown, with a worker process that may be killed from
  outside: `SocketInterface.shutdown` (`if spawner.poll(): send stop; recv ack; spawner.shutdown`),
  `SubprocessSpawner.poll` (`Popen.poll() is None`) and the worker loop's answer to the stop
  message.

  A killed process passes through a state in which its main thread is gone (`/proc` shows `Z`)
  but other threads are still exiting: `waitpid(WNOHANG)` — hence `poll()` — still says
  "running".  Only a *reapable* process is reported dead.

  The transition system is finite; the theorems are decided over all of its states.
-/
namespace ExecModel.Conn

inductive Proc | running | dying | reapable | reaped
  deriving Repr, DecidableEq

/-- program counter of the parent's thread inside `interface.shutdown(wait=True)` -/
inductive Pc
  | start      -- before `spawner.poll()`
  | sendStop   -- poll said "running": about to send `{"shutdown": True}`
  | recvAck    -- blocking `recv()`
  | spawnerStop-- `spawner.shutdown(wait)`: terminate / wait for the process
  | close      -- socket.close(), context.term()
  | done
  deriving Repr, DecidableEq

/-- the worker process's side of the stop exchange -/
inductive Wk | serving | gotStop | acked
  deriving Repr, DecidableEq

structure State where
  proc : Proc
  pc   : Pc
  wk   : Wk
  stopInFlight : Bool   -- the stop message is in the socket
  ackInFlight  : Bool
  deriving Repr, DecidableEq

inductive Label
  | kill          -- SIGKILL from outside (or the OOM killer): running → dying
  | threadsGone   -- dying → reapable
  | pollAlive | pollDead
  | send | wRecv | wAck | wExit | recv | stopProc | closeSock
  deriving Repr, DecidableEq

def step (s : State) : Label → Option State
  | .kill => if s.proc = .running then some { s with proc := .dying } else none
  | .threadsGone => if s.proc = .dying then some { s with proc := .reapable } else none
  | .pollAlive =>
    -- `Popen.poll()` returns None for a running process and for one that is not yet reapable
    if s.pc = .start ∧ (s.proc = .running ∨ s.proc = .dying) then some { s with pc := .sendStop } else none
  | .pollDead =>
    if s.pc = .start ∧ (s.proc = .reapable ∨ s.proc = .reaped) then some { s with pc := .close, proc := .reaped } else none
  | .send => if s.pc = .sendStop then some { s with pc := .recvAck, stopInFlight := true } else none
  | .wRecv =>
    if s.proc = .running ∧ s.wk = .serving ∧ s.stopInFlight then some { s with wk := .gotStop, stopInFlight := false } else none
  | .wAck => if s.proc = .running ∧ s.wk = .gotStop then some { s with wk := .acked, ackInFlight := true } else none
  | .wExit => if s.proc = .running ∧ s.wk = .acked then some { s with proc := .reapable } else none
  | .recv => if s.pc = .recvAck ∧ s.ackInFlight then some { s with pc := .spawnerStop, ackInFlight := false } else none
  | .stopProc => if s.pc = .spawnerStop then some { s with pc := .close, proc := .reaped } else none
  | .closeSock => if s.pc = .close then some { s with pc := .done } else none

def labels : List Label :=
  [.kill, .threadsGone, .pollAlive, .pollDead, .send, .wRecv, .wAck, .wExit, .recv, .stopProc, .closeSock]

/-- labels of the executor and the worker (everything but the two fault labels) -/
def internal : List Label := [.pollAlive, .pollDead, .send, .wRecv, .wAck, .wExit, .recv, .stopProc, .closeSock]

def init (p : Proc) : State := { proc := p, pc := .start, wk := .serving, stopInFlight := false, ackInFlight := false }

/-- states reachable within `n` steps by labels from `ls` -/
def reach (ls : List Label) : Nat → List State → List State
  | 0, ss => ss
  | n + 1, ss => reach ls n (ss ++ (ss.flatMap (fun s => ls.filterMap (step s)))).eraseDups

/-- nothing but a fault label can happen and the shutdown has not returned -/
def blocked (s : State) : Bool := s.pc != .done && internal.all (fun l => (step s l).isNone) && s.proc != .dying

/-- `blocked` even after the dying process has become reapable -/
def stuck (s : State) : Bool := s.pc != .done && internal.all (fun l => (step s l).isNone)

end ExecModel.Conn
