import ExecModel.Lts.Sys
/-!
  Executable helpers around `Sys` (no theorem uses them): candidate labels, enabled labels,
  final-state predicate, bounded BFS for model debugging and witness search.
-/
namespace ExecModel.Sys

variable {Val Err : Type}

def candidates (cfg : Cfg) (s : State Val Err) : List (Label Val Err) :=
  let n := cfg.calls.length
  let ks := List.range (s.wk.length)
  [.mSubmit, .mSubmitRaise, .mSdBegin] ++ (List.range n).map .mCancel ++ (List.range n).map .mAwait
  ++ [true, false].flatMap (fun b => [.sdDrainGet b, .sdDrainSkip b, .sdDrainCancel b, .sdDrainDone b,
      .sdDrainEmpty b, .sdPutStop b, .sdJoinThread b, .sdJoinThreadRaise b, .sdJoinQueue b, .sdFinish b])
  ++ [.rGet, .rDecideReady, .rDecidePark, .rForward, .rFailDep, .rFailSet, .rAck, .rBeginSd, .rStopAck, .rJoinExit]
  ++ (List.range s.waitLst.length).flatMap (fun k => [.rScanFwd k, .rScanFail k])
  ++ (List.range s.active.length).map .dPrune ++ [.dGet, .dLaunch, .dAck, .dJoinThread, .dJoinThreadRaise, .dStopAck, .dJoinExit]
  ++ ks.flatMap (fun k => [.wBoot k, .wGet k, .wSrn k, .wSend k, .wFinish k, .wFailA k, .wFailB k,
      .wFailC k, .wProcStop k, .wAck k, .wStopAck k, .wJoinExit k])

def enabled (cfg : Cfg) (eval : Nat → List Val → Except Err Val) (cancelErr : Err)
    (s : State Val Err) : List (Label Val Err × State Val Err) :=
  (candidates cfg s).filterMap (fun l => (step cfg eval cancelErr s l).map (fun s' => (l, s')))

def wkQuiet (w : Worker Val Err) : Bool :=
  match w.pc with
  | .exited | .dead _ => true
  | _ => false

/-- Everything the script asked for has happened and no thread can or needs to move. -/
def isFinal (s : State Val Err) : Bool :=
  s.script.isEmpty && (s.mainPc == .idle) || false

end ExecModel.Sys
