import ExecModel.Basic
/-!
  `FileExec` — the file-based executor: the loop thread `execute_tasks_h5` (cache/shared.py), the
  worker processes `cache_serial.py` / `cache_parallel.py` (cache/backend.py), the cache directory,
  and crashes of worker processes and of the submitting process.

  Calls are numbered in submission order; `deps i` lists the futures among the top-level arguments
  of call `i`; `key i` is its task key (function + arguments with futures replaced by the producers'
  result-file names + resources); `eval i vs` the value of call `i` on the values `vs` of its inputs.

  Switches (repaired defects): `depsLaunchedOnly` (D14: the dependency list is built only from
  producers that were launched; as found: `process_dict[k]` raised `KeyError` for a producer taken
  from the cache and the loop thread died), `staleInputRemoved` (D15: a leftover `<key>.h5in` is
  removed before writing; as found: `dump` appended to it, `create_dataset` raised and the loop
  thread died).  Not repaired (finding D13): the future of a call identical to one still in flight
  is dropped (`dup`), it stays pending.
-/
namespace ExecModel.FileExec

variable {K V : Type}

/-- content of the files belonging to one key -/
structure KeyFiles (V : Type) where
  inp : Bool := false            -- `<key>.h5in` exists (complete: written by the loop thread before the launch)
  staleInp : Bool := false       -- … but it is a leftover of an interrupted earlier run (possibly partial)
  ready : Option (Option V) := none  -- `<key>.h5ready`: `some none` = no output dataset (yet), `some (some v)` = output written
  out : Option V := none         -- `<key>.h5out`: published result
  deriving Repr, DecidableEq

abbrev Dir (K V : Type) := List (K × KeyFiles V)

def Dir.get [DecidableEq K] (d : Dir K V) (k : K) : KeyFiles V :=
  match d with
  | [] => {}
  | (k', f) :: r => if k' = k then f else Dir.get r k

def Dir.set [DecidableEq K] (d : Dir K V) (k : K) (f : KeyFiles V) : Dir K V :=
  (k, f) :: d.filter (fun e => e.1 ≠ k)

inductive Fut (V : Type)
  | absent | pending | finished (v : V)
  deriving Repr, DecidableEq

/-- worker process of one key -/
inductive PPc (V : Type)
  | started                     -- launched: about to load the input file and the producers' outputs
  | loaded (vs : List V)        -- inputs resolved, about to call the function
  | called (v : V)              -- function returned, about to `rename(in, ready)`
  | staged (v : V)              -- about to append the output to `<key>.h5ready`
  | written (v : V)             -- about to `rename(ready, out)`
  | exited
  | crashed                     -- killed (or died on a missing producer output)
  deriving Repr, DecidableEq

structure Proc (K V : Type) where
  key : K
  call : Nat                    -- the call whose submission launched it
  pc : PPc V := .started
  deriving Repr, DecidableEq

/-- program counter of the loop thread for the task it holds -/
inductive LPc (K : Type)
  | idle                        -- about to `get_nowait()`
  | converted (i : Nat)         -- arguments converted, key computed: about to look the key up
  | writeIn (i : Nat)           -- key new and no result file: about to write `<key>.h5in`
  | waitDeps (i : Nat)          -- input written: waiting for the producers' processes to end, then `Popen`
  | dead                        -- the thread died with an exception
  deriving Repr, DecidableEq

structure State (K V : Type) where
  dir : Dir K V
  queue : List Nat := []                 -- submitted, not yet taken by the loop thread
  nsub : Nat := 0
  fut : List (Fut V) := []
  memory : List (K × Nat) := []          -- `memory_dict`: key ↦ call whose future waits for that key
  launched : List K := []                -- keys of `process_dict`
  procs : List (Proc K V) := []
  loop : LPc K := .idle
  dropped : List Nat := []               -- ghost: futures dropped as duplicates of an in-flight call (D13)
  executed : List Nat := []              -- ghost: calls whose function body ran (in order)
  deriving Repr, DecidableEq

structure Variant where
  depsLaunchedOnly : Bool := true
  staleInputRemoved : Bool := true
  deriving Repr, DecidableEq

inductive Label
  | submit                     -- user thread: `submit` of the next call
  | take                       -- loop: `get_nowait()` + `_convert_args_and_kwargs` + `serialize_funct_h5`
  | lookup                     -- loop: `task_key in memory_dict` / `listdir`
  | writeInput                 -- loop: `dump(<key>.h5in)`
  | launch                     -- loop: producers ended, `Popen`, register, `task_done()`
  | collect (k : Nat)          -- loop idle branch: `memory[k]`'s result file exists → `set_result`
  | pLoad (p : Nat) | pCall (p : Nat) | pStage (p : Nat) | pWrite (p : Nat) | pPublish (p : Nat)
  | crashProc (p : Nat)        -- a worker process is killed at its current point
  | crashWrite (p : Nat)       -- … in the middle of appending the output (partial `<key>.h5ready`)
  deriving Repr, DecidableEq

def futOf (s : State K V) (i : Nat) : Fut V := s.fut.getD i .absent

def memGet [DecidableEq K] (m : List (K × Nat)) (k : K) : Option Nat :=
  match m with
  | [] => none
  | (k', i) :: r => if k' = k then some i else memGet r k

section Step
variable [DecidableEq K]
variable (v : Variant) (ncalls : Nat) (deps : Nat → List Nat) (key : Nat → K) (eval : Nat → List V → V)

/-- values of the producers' published outputs, if all are there -/
def inputsFrom (d : Dir K V) : List Nat → Option (List V)
  | [] => some []
  | j :: js => match (Dir.get d (key j)).out, inputsFrom d js with
    | some x, some xs => some (x :: xs)
    | _, _ => none

/-- the process launched for key `k` has ended (or was never launched) -/
def procEnded (s : State K V) (k : K) : Bool :=
  s.procs.all (fun p => p.key ≠ k || (match p.pc with
    | .exited | .crashed => true
    | _ => false))

def setProc (s : State K V) (p : Nat) (pr : Proc K V) : State K V := { s with procs := s.procs.set p pr }

def step (s : State K V) : Label → Option (State K V)
  | .submit =>
    if s.nsub < ncalls then
      some { s with queue := s.queue ++ [s.nsub], nsub := s.nsub + 1, fut := s.fut.set s.nsub .pending }
    else none
  | .take =>
    match s.loop, s.queue with
    | .idle, i :: rest =>
      -- a future argument that is not in memory is waited for with `result()`: enabled once it is done
      if (deps i).all (fun j => (memGet s.memory (key j)).isSome || (match futOf s j with
          | .finished _ => true
          | _ => false)) then
        some { s with queue := rest, loop := .converted i }
      else none
    | _, _ => none
  | .lookup =>
    match s.loop with
    | .converted i =>
      if (memGet s.memory (key i)).isSome then
        some { s with loop := .idle, dropped := s.dropped ++ [i] }          -- D13: duplicate in flight, future dropped
      else if (Dir.get s.dir (key i)).out.isSome then
        some { s with loop := .idle, memory := s.memory ++ [(key i, i)] }   -- result file present: no launch
      else some { s with loop := .writeIn i }
    | _ => none
  | .writeInput =>
    match s.loop with
    | .writeIn i =>
      let f := Dir.get s.dir (key i)
      if f.inp ∧ ¬ v.staleInputRemoved then some { s with loop := .dead }   -- D15
      else some { s with dir := Dir.set s.dir (key i) { f with inp := true, staleInp := false }, loop := .waitDeps i }
    | _ => none
  | .launch =>
    match s.loop with
    | .waitDeps i =>
      let waitKeys := (deps i).filter (fun j => (memGet s.memory (key j)).isSome) |>.map key
      if ¬ v.depsLaunchedOnly ∧ waitKeys.any (fun k => ¬ s.launched.contains k) then
        some { s with loop := .dead }                                        -- D14
      else if waitKeys.all (fun k => procEnded s k) then
        some { s with procs := s.procs ++ [{ key := key i, call := i }], launched := s.launched ++ [key i],
                      memory := s.memory ++ [(key i, i)], loop := .idle }
      else none
    | _ => none
  | .collect k =>
    match s.loop, s.memory[k]? with
    | .idle, some (kk, i) =>
      match (Dir.get s.dir kk).out with
      | some x => some { s with fut := s.fut.set i (.finished x), memory := s.memory.eraseIdx k }
      | none => none
    | _, _ => none
  | .pLoad p =>
    match s.procs[p]? with
    | some pr =>
      (match pr.pc with
       | .started =>
         if (Dir.get s.dir pr.key).inp then
           match inputsFrom key s.dir (deps pr.call) with
           | some vs => some (setProc s p { pr with pc := .loaded vs })
           | none => some (setProc s p { pr with pc := .crashed })    -- a producer's output is missing: the worker dies
         else some (setProc s p { pr with pc := .crashed })
       | _ => none)
    | none => none
  | .pCall p =>
    match s.procs[p]? with
    | some pr =>
      (match pr.pc with
       | .loaded vs => some { setProc s p { pr with pc := .called (eval pr.call vs) } with executed := s.executed ++ [pr.call] }
       | _ => none)
    | none => none
  | .pStage p =>
    match s.procs[p]? with
    | some pr =>
      (match pr.pc with
       | .called x =>
         let f := Dir.get s.dir pr.key
         some { setProc s p { pr with pc := .staged x } with dir := Dir.set s.dir pr.key { f with inp := false, staleInp := false, ready := some none } }
       | _ => none)
    | none => none
  | .pWrite p =>
    match s.procs[p]? with
    | some pr =>
      (match pr.pc with
       | .staged x =>
         let f := Dir.get s.dir pr.key
         some { setProc s p { pr with pc := .written x } with dir := Dir.set s.dir pr.key { f with ready := some (some x) } }
       | _ => none)
    | none => none
  | .pPublish p =>
    match s.procs[p]? with
    | some pr =>
      (match pr.pc with
       | .written x =>
         let f := Dir.get s.dir pr.key
         some { setProc s p { pr with pc := .exited } with dir := Dir.set s.dir pr.key { f with ready := none, out := some x } }
       | _ => none)
    | none => none
  | .crashProc p =>
    match s.procs[p]? with
    | some pr =>
      (match pr.pc with
       | .exited | .crashed => none
       | _ => some (setProc s p { pr with pc := .crashed }))
    | none => none
  | .crashWrite p =>
    match s.procs[p]? with
    | some pr =>
      (match pr.pc with
       | .staged _ => some (setProc s p { pr with pc := .crashed })   -- `<key>.h5ready` stays without (or with a partial) output
       | _ => none)
    | none => none

def run (s : State K V) : List Label → Option (State K V)
  | [] => some s
  | l :: ls => (step v ncalls deps key eval s l).bind (fun s' => run s' ls)

end Step

/-- A session starts from the directory the previous sessions (and their crashes) left: files
    persist; `<key>.h5in` leftovers are stale. -/
def restart (d : Dir K V) : Dir K V := d.map (fun e => (e.1, { e.2 with staleInp := e.2.inp }))

def init (d : Dir K V) (ncalls : Nat) : State K V :=
  { dir := d, fut := List.replicate ncalls .absent }

end ExecModel.FileExec
