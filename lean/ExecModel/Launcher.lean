import ExecModel.Basic
/-!
  SPEC (trusted): the option grammar of `srun` and `mpiexec` as far as executorlib uses it
  (DESIGN.md, Appendix E.1/E.2).  Written as parsers so that "the launcher accepts the command
  line and understands it as request R" is an executable predicate.
-/
namespace ExecModel.Launcher

inductive Field | ntasks | chdir | cpus | gpus
  deriving Repr, DecidableEq

inductive Kind
  | needsArg (f : Field)          -- option whose value is the next token
  | sets (f : Field) (v : Tok)    -- option carrying its value (`--name=value`, `-nN`)
  | flagOversub
  | other                         -- any other single token starting with '-'
  | command                       -- first token of the command to run
  deriving Repr, DecidableEq

def isDash (t : Tok) : Bool := t.head? == some '-'

def classify (t : Tok) : Kind :=
  if t = "-n".toList ∨ t = "--ntasks".toList then .needsArg .ntasks
  else if t = "-D".toList ∨ t = "--chdir".toList then .needsArg .chdir
  else if t = "-c".toList ∨ t = "--cpus-per-task".toList then .needsArg .cpus
  else if t = "--gpus-per-task".toList then .needsArg .gpus
  else if t = "-s".toList ∨ t = "--oversubscribe".toList then .flagOversub
  else match stripPrefix "--ntasks=".toList t with
  | some v => .sets .ntasks v
  | none => match stripPrefix "--chdir=".toList t with
  | some v => .sets .chdir v
  | none => match stripPrefix "--cpus-per-task=".toList t with
  | some v => .sets .cpus v
  | none => match stripPrefix "--gpus-per-task=".toList t with
  | some v => .sets .gpus v
  | none => match stripPrefix "--".toList t with
  | some _ => .other                      -- unknown long option: NOT an abbreviation of a known one
  | none => match stripPrefix "-n".toList t with
  | some v => .sets .ntasks v
  | none => match stripPrefix "-D".toList t with
  | some v => .sets .chdir v
  | none => match stripPrefix "-c".toList t with
  | some v => .sets .cpus v
  | none => if isDash t then .other else .command

structure Req where
  ntasks : Option Tok := none
  chdir  : Option Tok := none
  cpus   : Option Tok := none
  gpus   : Option Tok := none
  oversub : Bool := false
  other  : List Tok := []
  deriving Repr, DecidableEq

def Req.setField (r : Req) : Field → Tok → Req
  | .ntasks, v => { r with ntasks := some v }
  | .chdir,  v => { r with chdir := some v }
  | .cpus,   v => { r with cpus := some v }
  | .gpus,   v => { r with gpus := some v }

/-- Options, then the command.  `none` = srun rejects (option without its value, no command).
    The second argument is the option still waiting for its value. -/
def srunOpts : List Tok → Option Field → Req → Option (Req × List Tok)
  | [], _, _ => none
  | t :: rest, some f, r => srunOpts rest none (r.setField f t)
  | t :: rest, none, r =>
    match classify t with
    | .command => some (r, t :: rest)
    | .other => srunOpts rest none { r with other := r.other ++ [t] }
    | .flagOversub => srunOpts rest none { r with oversub := true }
    | .sets f v => srunOpts rest none (r.setField f v)
    | .needsArg f => srunOpts rest (some f) r

def srunParse : List Tok → Option (Req × List Tok)
  | t :: rest => if t = "srun".toList then srunOpts rest none {} else none
  | [] => none

/-- mpiexec: `-n N` | `-np N`, `--oversubscribe`, then the command; no launcher at all = one
    process started directly. -/
structure MpiReq where
  procs : Tok
  oversub : Bool
  deriving Repr, DecidableEq

inductive MKind | nflag | over | bad | command
  deriving Repr, DecidableEq

def mclassify (t : Tok) : MKind :=
  if t = "-n".toList ∨ t = "-np".toList then .nflag
  else if t = "--oversubscribe".toList then .over
  else if isDash t then .bad else .command

def mpiOpts : List Tok → (pendingN : Bool) → Option Tok → Bool → Option (MpiReq × List Tok)
  | [], _, _, _ => none
  | t :: rest, true, _, o => mpiOpts rest false (some t) o
  | t :: rest, false, n, o =>
    match mclassify t with
    | .nflag => mpiOpts rest true n o
    | .over => mpiOpts rest false n true
    | .bad => none
    | .command => some ({ procs := n.getD "1".toList, oversub := o }, t :: rest)

def mpiParse : List Tok → Option (MpiReq × List Tok)
  | [] => none
  | t :: rest =>
    if t = "mpiexec".toList then mpiOpts rest false none false
    else if isDash t then none
    else some ({ procs := "1".toList, oversub := false }, t :: rest)

end ExecModel.Launcher
