import ExecModel.Cmd
/-!
  `Res` — per-call resources: `_submit_function_to_separate_process` (merge of the per-call
  `resource_dict` over the executor-level keywords, slot computation), the keyword sets the spawner
  classes accept, and the launch (argv, cwd) of the worker for the effective resources.
-/
namespace ExecModel.Res
open ExecModel ExecModel.Cmd

/-- A resource dictionary over the six keys of property C10; `none` = key absent.
    `cwd = some none` is the key present with value `None`. -/
structure RD where
  cores   : Option Nat := none
  threads : Option Nat := none
  gpus    : Option Nat := none
  cwd     : Option (Option Tok) := none
  oversub : Option Bool := none
  extra   : Option (List Tok) := none
  deriving Repr, DecidableEq

/-- `kwargs["cores"]` of `execute_separate_tasks` (set to 1 when absent). -/
def execCores (ex : RD) : Nat := ex.cores.getD 1

/-- the `cores` entry after `if "cores" not in resource_dict or (resource_dict["cores"] == 1 and
    executor_kwargs["cores"] >= 1): resource_dict["cores"] = executor_kwargs["cores"]` -/
def mergeCores (ex : RD) (pc : RD) : Nat :=
  match pc.cores with
  | none => execCores ex
  | some k => if k = 1 ∧ execCores ex ≥ 1 then execCores ex else k

/-- `task_kwargs = executor_kwargs.copy(); task_kwargs.update(resource_dict)` restricted to the six keys -/
def effective (ex pc : RD) : RD :=
  { cores := some (mergeCores ex pc)
    threads := pc.threads <|> ex.threads
    gpus := pc.gpus <|> ex.gpus
    cwd := pc.cwd <|> ex.cwd
    oversub := pc.oversub <|> ex.oversub
    extra := pc.extra <|> ex.extra }

/-- `slots_required = resource_dict["cores"] * resource_dict.get("threads_per_core",
    executor_kwargs.get("threads_per_core", 1))` (fix 8703212: the executor-level value counts when the
    call names none) -/
def slots (ex pc : RD) : Nat := mergeCores ex pc * (pc.threads <|> ex.threads).getD 1

/-- One dispatch: the executor-level dictionary the dispatcher keeps for later calls, and the
    keywords of this call's worker thread.  (`executor_kwargs` is only copied, never written.) -/
def dispatchOne (ex pc : RD) : RD × RD := (ex, effective ex pc)

def dispatchAll : RD → List RD → RD × List RD
  | ex, [] => (ex, [])
  | ex, pc :: rest =>
    let (ex1, e) := dispatchOne ex pc
    let (ex2, es) := dispatchAll ex1 rest
    (ex2, e :: es)

inductive Launcher | mpiexec | srun
  deriving Repr, DecidableEq

/-- Worker launch for the keywords `kw`: `Spawner(cores=cores, **kwargs)` then
    `generate_command(command_lst)` and `Popen(args, cwd)`.  `MpiExecSpawner.__init__` accepts
    `cwd, cores, openmpi_oversubscribe, threads_per_core` only: other keys are a `TypeError` in the
    worker thread (finding D20). -/
def launch (l : Launcher) (kw : RD) (cmd : List Tok) : Except String (List Tok × Option Tok) :=
  let cores := kw.cores.getD 1
  let cwd := kw.cwd.join
  match l with
  | .mpiexec =>
    if kw.gpus.isSome ∨ kw.extra.isSome then .error "TypeError"
    else .ok (mpiexecPrefix cores (kw.oversub.getD false) ++ cmd, cwd)
  | .srun =>
    .ok (srunPrefix true { cores := cores, cwd := cwd, threads := kw.threads.getD 1, gpus := kw.gpus.getD 0,
                            oversub := kw.oversub.getD false, extra := kw.extra.getD [] } ++ cmd, cwd)

/-- `ExecutorBroker.submit` / `ExecutorWithDependencies.submit` in front of a block allocation:
    `check_resource_dict_is_empty`. -/
def submitBlock (pcEmpty : Bool) : Except String Unit :=
  if pcEmpty then .ok () else .error "ValueError"

/-! ### file mode (`FileExecutor` / `execute_tasks_h5`) -/

/-- `FileExecutor.__init__`: the executor-level dictionary after the defaults `cores = 1`, `cwd = None`
    have been filled in. -/
def fileDefaults (ex : RD) : RD :=
  { ex with cores := ex.cores <|> some 1, cwd := ex.cwd <|> some none }

/-- `task_resource_dict = task_dict["resource_dict"].copy(); task_resource_dict.update({k: v for k, v in
    resource_dict.items() if k not in task_resource_dict})`: plain per-key precedence (file mode has no
    "cores = 1 means unset" exception). -/
def fileEffective (ex pc : RD) : RD :=
  { cores := pc.cores <|> ex.cores
    threads := pc.threads <|> ex.threads
    gpus := pc.gpus <|> ex.gpus
    cwd := pc.cwd <|> ex.cwd
    oversub := pc.oversub <|> ex.oversub
    extra := pc.extra <|> ex.extra }

/-- One task of the loop thread: the executor-level dictionary and the caller's per-call dictionary as
    they are afterwards (both are only read: the merge works on a copy), and the dictionary handed to
    `serialize_funct_h5` / `execute_function`. -/
def fileDispatchOne (ex pc : RD) : RD × RD × RD := (ex, pc, fileEffective ex pc)

/-- A sequence of tasks on one file executor: executor-level dictionary afterwards, the callers'
    dictionaries afterwards, the effective dictionaries. -/
def fileDispatchAll : RD → List RD → RD × List RD × List RD
  | ex, [] => (ex, [], [])
  | ex, pc :: rest =>
    let (ex1, pc1, e) := fileDispatchOne ex pc
    let (ex2, pcs, es) := fileDispatchAll ex1 rest
    (ex2, pc1 :: pcs, e :: es)

/-- `execute_function(command=_get_execute_command(file_name, cores=task_resource_dict["cores"]), …,
    resource_dict=task_resource_dict)` with `execute_in_subprocess`: the command and the `cwd` handed to
    `Popen` (`resource_dict["cwd"]` when the key is there — it always is after `fileDefaults` — else the
    cache directory). -/
def fileLaunch (eff : RD) (python serialScript parallelScript file cacheDir : Tok) : List Tok × Option Tok :=
  (fileCmd python serialScript parallelScript file (eff.cores.getD 1),
   match eff.cwd with
   | some d => d
   | none => some cacheDir)

end ExecModel.Res
